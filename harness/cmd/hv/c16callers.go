package main

// C16 — the two CALLERS of RebalanceWeight, driven through the real converters.
//
// Both modes run the REAL top-level converters.NewConverter(...).Sync() (gateway converter, then ingress
// converter with its annotation updater) over the repository's own cache mock (pkg/converters/helper_test)
// holding real API objects, against a real haproxy model (haproxy.CreateInstance(...).Config()), and read
// the Weight of every server of the resulting backend.
//
//   C16 gw <K><E> <refs> => none | <ref>,<ref>,...          (one item per backendRef, in order)
//     K     H HTTPRoute | T TCPRoute (v1alpha2)         both go through gateway.go createBackend
//     E     e Endpoints | s EndpointSlices               (ConverterOptions.EnableEPSlices)
//     refs  <weight>:<eps>[:<skip>] ,...    weight `-` = backendRef.weight nil
//           eps   <n>            n ready endpoints with the distinct addresses 1..n
//                 @a.a/a.a       the ready endpoints AS LISTED, address ids 1..249; `/` separates the
//                                EndpointSlices (E=s) or the subsets of the Endpoints (E=e) that list them;
//                                an id may repeat inside a slice/subset and across them (overlapping slices)
//                 ^<n> | ^@...   same, and the Endpoints object carries the annotation
//                                haproxy-ingress.github.io/ip-override: every address resolves to id 250
//                                (E=e only; with E=s there is no Endpoints object and nothing is overridden)
//           skip: p backendRef.port nil | s Service missing | q port not declared by the Service
//                 | e Endpoints/EndpointSlices object missing
//     item  `-` no server carries an address of this ref | a=w.a=w the servers WRITTEN for it: address id =
//           weight, one item per server (a repeated address gives as many items as servers were written),
//           sorted by address id, then weight
//     none  the route's backend does not exist
//   Objects: GatewayClass haproxy, Gateway default/gw (one listener, allowedRoutes from Same), one route
//   default/rt with one rule, Service default/s<i> whose ready endpoint with address id a has the address
//   10.<i+1>.0.<a> and one not-ready address 10.<i+1>.9.9 (must never become a server).  The servers are read
//   back from the haproxy model (Backend.Endpoints: IP -> ref and address id, Weight).
//
//   C16 bg <mode> <initial> <ann> <eps> => - | w,w,...      (one weight per endpoint, in order)
//     mode     `-` no blue-green-mode annotation | its value
//     initial  `-` no initial-weight annotation (default 1) | its value
//     ann      `-` no annotation | b:<text> blue-green-balance | d:<text> blue-green-deploy (the alias)
//              | e:<text> blue-green-balance "" plus blue-green-deploy <text>       (%20 = blank)
//     eps      `-` | <r|d>:<pod>[@<a>],...   r ready, d not ready (drain-support: weight 0 before blue/green)
//              pod: n address without targetRef | m targetRef of a pod that does not exist | 0 pod without
//              labels | k=v+k=v labels of the pod: the name and the value may be EMPTY (`blue=` = the marker
//              label blue: "", `=v` = the empty name, `=` both); the pairs are assigned in order into the
//              pod's label map (pod.Labels[k] = v), a repeated name keeps the last value.  The items of <ann>
//              likewise: `blue==3` = label blue, value "", weight 3; `==3` = empty name and value.
//              @<a>: address id of the LISTED endpoint (default: its position k+1); ids may repeat (several
//              pods behind one ip:port).  The ingress converter adds endpoints with AcquireEndpoint: one
//              SERVER per address.  When every listed endpoint (>= 2) has the same id the Endpoints object
//              gets the ip-override annotation (raw pod addresses 10.9.0.<k+1>), otherwise the address is
//              repeated in the subset.
//     output   one weight per SERVER (= distinct address), in address id order
//   Objects: Ingress default/ing (one path) -> Service default/app:8080, Endpoints with addresses
//   10.0.0.<a> (targetRef Pod default/pod<k>), Pods; global config drain-support=true.
//   Output `NOBACKEND` / `w?` when the backend or a server is missing (the driver rejects them).
//   PANIC when the real code panicked.

import (
	"fmt"
	"sort"
	"strconv"
	"strings"

	api "k8s.io/api/core/v1"
	discoveryv1 "k8s.io/api/discovery/v1"
	networking "k8s.io/api/networking/v1"
	metav1 "k8s.io/apimachinery/pkg/apis/meta/v1"
	"k8s.io/apimachinery/pkg/util/intstr"
	gatewayv1 "sigs.k8s.io/gateway-api/apis/v1"
	gatewayv1alpha2 "sigs.k8s.io/gateway-api/apis/v1alpha2"

	"github.com/jcmoraisjr/haproxy-ingress/pkg/converters"
	conv_helper "github.com/jcmoraisjr/haproxy-ingress/pkg/converters/helper_test"
	"github.com/jcmoraisjr/haproxy-ingress/pkg/converters/tracker"
	convtypes "github.com/jcmoraisjr/haproxy-ingress/pkg/converters/types"
	"github.com/jcmoraisjr/haproxy-ingress/pkg/haproxy"
	hatypes "github.com/jcmoraisjr/haproxy-ingress/pkg/haproxy/types"
	"github.com/jcmoraisjr/haproxy-ingress/pkg/utils"

	"hapverif/gen"
	"hapverif/hvutil"
)

const c16Prefix = "haproxy-ingress.github.io"

// ---------------------------------------------------------------- common

func c16Sync(cache *conv_helper.CacheMock, trk convtypes.Tracker, global map[string]string, slices bool) haproxy.Config {
	hcfg := haproxy.CreateInstance(&hvutil.Logger{}, haproxy.InstanceOptions{}).Config()
	c16SyncOn(hcfg, cache, trk, global, slices)
	return hcfg
}

// c16SyncOn: one full conversion of the cache into an EXISTING haproxy model (histories: c16hist.go)
func c16SyncOn(hcfg haproxy.Config, cache *conv_helper.CacheMock, trk convtypes.Tracker, global map[string]string, slices bool) {
	logger := &hvutil.Logger{}
	opts := &convtypes.ConverterOptions{
		Cache:            cache,
		Logger:           logger,
		Tracker:          trk,
		DynamicConfig:    &convtypes.DynamicConfig{},
		AnnotationPrefix: []string{c16Prefix},
		FakeCrtFile:      convtypes.CrtFile{Filename: "/tls/fake.pem", SHA1Hash: "1"},
		EnableEPSlices:   slices,
		HasGatewayV1:     true,
		HasTCPRouteA2:    true,
	}
	changed := &convtypes.ChangedObjects{GlobalConfigMapDataNew: global, NeedFullSync: true}
	converters.NewConverter(utils.NewTimer(nil), hcfg, changed, opts).Sync()
}

func c16AddService(cache *conv_helper.CacheMock, ns, name string, withEndpoints, slices bool, ready, notReady []api.EndpointAddress) {
	c16AddServiceGroups(cache, ns, name, withEndpoints, slices, [][]api.EndpointAddress{ready}, notReady, "")
}

// c16AddServiceGroups: the ready addresses are listed by one EndpointSlice (slices) or one subset of the
// Endpoints object per group; the not-ready ones by the first; override = value of the ip-override annotation
// of the Endpoints object ("" = none).
func c16AddServiceGroups(cache *conv_helper.CacheMock, ns, name string, withEndpoints, slices bool, groups [][]api.EndpointAddress, notReady []api.EndpointAddress, override string) {
	svc := &api.Service{
		ObjectMeta: metav1.ObjectMeta{Namespace: ns, Name: name},
		Spec: api.ServiceSpec{Ports: []api.ServicePort{{
			Name: "p", Port: 8080, Protocol: api.ProtocolTCP, TargetPort: intstr.FromInt(8080)}}},
	}
	cache.SvcList = append(cache.SvcList, svc)
	if !withEndpoints {
		return
	}
	if len(groups) == 0 {
		groups = [][]api.EndpointAddress{nil}
	}
	key := ns + "/" + name
	if slices {
		if cache.EpsList == nil {
			cache.EpsList = map[string][]*discoveryv1.EndpointSlice{}
		}
		cache.EpsList[key] = nil
		for g, ready := range groups {
			pname, pport, proto := "p", int32(8080), api.ProtocolTCP
			t, f := true, false
			sl := &discoveryv1.EndpointSlice{
				ObjectMeta:  metav1.ObjectMeta{Namespace: ns, Name: fmt.Sprintf("%s-%d", name, g+1), Labels: map[string]string{discoveryv1.LabelServiceName: name}},
				AddressType: discoveryv1.AddressTypeIPv4,
				Ports:       []discoveryv1.EndpointPort{{Name: &pname, Port: &pport, Protocol: &proto}},
			}
			for _, a := range ready {
				sl.Endpoints = append(sl.Endpoints, discoveryv1.Endpoint{Addresses: []string{a.IP}, Conditions: discoveryv1.EndpointConditions{Ready: &t}, TargetRef: a.TargetRef})
			}
			if g == 0 {
				for _, a := range notReady {
					sl.Endpoints = append(sl.Endpoints, discoveryv1.Endpoint{Addresses: []string{a.IP}, Conditions: discoveryv1.EndpointConditions{Ready: &f}, TargetRef: a.TargetRef})
				}
			}
			cache.EpsList[key] = append(cache.EpsList[key], sl)
		}
		return
	}
	ep := &api.Endpoints{ObjectMeta: metav1.ObjectMeta{Namespace: ns, Name: name}}
	if override != "" {
		ep.Annotations = map[string]string{c16Prefix + "/ip-override": override}
	}
	for g, ready := range groups {
		sub := api.EndpointSubset{
			Addresses: ready,
			Ports:     []api.EndpointPort{{Name: "p", Port: 8080, Protocol: api.ProtocolTCP}},
		}
		if g == 0 {
			sub.NotReadyAddresses = notReady
		}
		ep.Subsets = append(ep.Subsets, sub)
	}
	cache.EpList[key] = ep
}

// ---------------------------------------------------------------- gateway createBackend

type c16Ref struct {
	Weight   string  // "-" = nil
	Replicas int     // used when Listed == nil: the distinct addresses 1..Replicas
	Listed   [][]int // the ready endpoints as listed: address ids per EndpointSlice / subset (may repeat)
	Override bool    // ip-override annotation on the Endpoints object
	Skip     string  // "", p, s, q, e
}

// c16RefGroups: address ids per EndpointSlice / subset
func c16RefGroups(r c16Ref) [][]int {
	if r.Listed != nil {
		return r.Listed
	}
	g := make([]int, r.Replicas)
	for k := range g {
		g[k] = k + 1
	}
	return [][]int{g}
}

// c16RefRepeats: the address ids the listing of the ref resolves to contain a repetition
func c16RefRepeats(r c16Ref, slices bool) bool {
	seen := map[int]bool{}
	for _, g := range c16RefGroups(r) {
		for _, a := range g {
			if r.Override && !slices {
				a = 250
			}
			if seen[a] {
				return true
			}
			seen[a] = true
		}
	}
	return false
}

func c16RefsText(refs []c16Ref) string {
	s := make([]string, len(refs))
	for i, r := range refs {
		s[i] = r.Weight + ":"
		if r.Override {
			s[i] += "^"
		}
		if r.Listed != nil {
			gs := make([]string, len(r.Listed))
			for g, ids := range r.Listed {
				t := make([]string, len(ids))
				for k, a := range ids {
					t[k] = strconv.Itoa(a)
				}
				gs[g] = strings.Join(t, ".")
			}
			s[i] += "@" + strings.Join(gs, "/")
		} else {
			s[i] += strconv.Itoa(r.Replicas)
		}
		if r.Skip != "" {
			s[i] += ":" + r.Skip
		}
	}
	return strings.Join(s, ",")
}

func c16ParseRefs(s string) ([]c16Ref, bool) {
	var refs []c16Ref
	if s == "-" {
		return nil, true
	}
	for _, t := range strings.Split(s, ",") {
		p := strings.Split(t, ":")
		if len(p) < 2 || len(p) > 3 {
			return nil, false
		}
		r := c16Ref{Weight: p[0]}
		spec := p[1]
		if strings.HasPrefix(spec, "^") {
			r.Override, spec = true, spec[1:]
		}
		if strings.HasPrefix(spec, "@") {
			r.Listed = [][]int{}
			for _, g := range strings.Split(spec[1:], "/") {
				ids := []int{}
				if g != "" {
					for _, a := range strings.Split(g, ".") {
						n, err := strconv.Atoi(a)
						if err != nil || n < 1 || n > 249 {
							return nil, false
						}
						ids = append(ids, n)
					}
				}
				r.Listed = append(r.Listed, ids)
			}
		} else {
			n, err := strconv.Atoi(spec)
			if err != nil || n < 0 || n > 249 {
				return nil, false
			}
			r.Replicas = n
		}
		if len(p) == 3 {
			r.Skip = p[2]
		}
		refs = append(refs, r)
	}
	return refs, true
}

func c16gwRun(kind string, refs []c16Ref) (out string) {
	defer func() {
		if r := recover(); r != nil {
			out = "PANIC"
		}
	}()
	trk := tracker.NewTracker()
	cache := c16gwCache(kind, refs, trk)
	hcfg := c16Sync(cache, trk, map[string]string{}, kind[1] == 's')
	return c16gwRead(hcfg, kind, refs)
}

// c16gwCache: the cluster objects of a `gw` case
func c16gwCache(kind string, refs []c16Ref, trk convtypes.Tracker) *conv_helper.CacheMock {
	tcp, slices := kind[0] == 'T', kind[1] == 's'
	cache := conv_helper.NewCacheMock(trk)
	cache.GatewayClassList = append(cache.GatewayClassList, &gatewayv1.GatewayClass{
		TypeMeta:   metav1.TypeMeta{APIVersion: "gateway.networking.k8s.io/v1", Kind: "GatewayClass"},
		ObjectMeta: metav1.ObjectMeta{Name: "haproxy"},
		Spec:       gatewayv1.GatewayClassSpec{ControllerName: "haproxy-ingress.github.io/controller"},
	})
	from := gatewayv1.NamespacesFromSame
	lst := gatewayv1.Listener{Name: "l1", Port: 80, Protocol: gatewayv1.HTTPProtocolType,
		AllowedRoutes: &gatewayv1.AllowedRoutes{Namespaces: &gatewayv1.RouteNamespaces{From: &from}}}
	if tcp {
		lst.Port, lst.Protocol = 9000, gatewayv1.TCPProtocolType
	}
	cache.GatewayList = append(cache.GatewayList, &gatewayv1.Gateway{
		TypeMeta:   metav1.TypeMeta{APIVersion: "gateway.networking.k8s.io/v1", Kind: "Gateway"},
		ObjectMeta: metav1.ObjectMeta{Namespace: "default", Name: "gw"},
		Spec:       gatewayv1.GatewaySpec{GatewayClassName: "haproxy", Listeners: []gatewayv1.Listener{lst}},
	})
	var brefs []gatewayv1.BackendRef
	for i, r := range refs {
		name := fmt.Sprintf("s%d", i)
		br := gatewayv1.BackendRef{BackendObjectReference: gatewayv1.BackendObjectReference{Name: gatewayv1.ObjectName(name)}}
		port := gatewayv1.PortNumber(8080)
		switch r.Skip {
		case "p":
		case "q":
			port = 9999
			br.Port = &port
		default:
			br.Port = &port
		}
		if r.Weight != "-" {
			w, _ := strconv.Atoi(r.Weight)
			w32 := int32(w)
			br.Weight = &w32
		}
		brefs = append(brefs, br)
		if r.Skip == "s" {
			continue
		}
		var groups [][]api.EndpointAddress
		for _, ids := range c16RefGroups(r) {
			ready := []api.EndpointAddress{}
			for _, a := range ids {
				ready = append(ready, api.EndpointAddress{IP: fmt.Sprintf("10.%d.0.%d", i+1, a)})
			}
			groups = append(groups, ready)
		}
		notReady := []api.EndpointAddress{{IP: fmt.Sprintf("10.%d.9.9", i+1)}}
		override := ""
		if r.Override {
			override = fmt.Sprintf("10.%d.0.250", i+1)
		}
		c16AddServiceGroups(cache, "default", name, r.Skip != "e", slices, groups, notReady, override)
	}
	parents := []gatewayv1.ParentReference{{Name: "gw"}}
	if tcp {
		cache.TCPRouteList = append(cache.TCPRouteList, &gatewayv1alpha2.TCPRoute{
			TypeMeta:   metav1.TypeMeta{APIVersion: "gateway.networking.k8s.io/v1alpha2", Kind: "TCPRoute"},
			ObjectMeta: metav1.ObjectMeta{Namespace: "default", Name: "rt"},
			Spec: gatewayv1alpha2.TCPRouteSpec{
				CommonRouteSpec: gatewayv1.CommonRouteSpec{ParentRefs: parents},
				Rules:           []gatewayv1alpha2.TCPRouteRule{{BackendRefs: brefs}},
			},
		})
	} else {
		var hrefs []gatewayv1.HTTPBackendRef
		for _, b := range brefs {
			hrefs = append(hrefs, gatewayv1.HTTPBackendRef{BackendRef: b})
		}
		cache.HTTPRouteList = append(cache.HTTPRouteList, &gatewayv1.HTTPRoute{
			TypeMeta:   metav1.TypeMeta{APIVersion: "gateway.networking.k8s.io/v1", Kind: "HTTPRoute"},
			ObjectMeta: metav1.ObjectMeta{Namespace: "default", Name: "rt"},
			Spec: gatewayv1.HTTPRouteSpec{
				CommonRouteSpec: gatewayv1.CommonRouteSpec{ParentRefs: parents},
				Hostnames:       []gatewayv1.Hostname{"app.local"},
				Rules:           []gatewayv1.HTTPRouteRule{{BackendRefs: hrefs}},
			},
		})
	}
	return cache
}

// c16gwRead: the servers the haproxy model holds for the route's backend, per backendRef
func c16gwRead(hcfg haproxy.Config, kind string, refs []c16Ref) string {
	tcp := kind[0] == 'T'
	index := "_rule0"
	if tcp {
		index = "_tcprule0"
	}
	b := hcfg.Backends().FindBackend("default", "rt", index)
	if b == nil {
		return "none"
	}
	// the servers WRITTEN, per ref: (address id, weight), one entry per server
	per := make([][][2]int, len(refs))
	for _, ep := range b.Endpoints {
		var i, x, k int
		if n, _ := fmt.Sscanf(ep.IP, "10.%d.%d.%d", &i, &x, &k); n != 3 || i < 1 || i > len(refs) || x != 0 {
			return "w?" // a server that is not a ready address of one of the refs
		}
		per[i-1] = append(per[i-1], [2]int{k, ep.Weight})
	}
	items := make([]string, len(refs))
	for i := range per {
		items[i] = "-"
		if len(per[i]) > 0 {
			sort.Slice(per[i], func(a, b int) bool {
				if per[i][a][0] != per[i][b][0] {
					return per[i][a][0] < per[i][b][0]
				}
				return per[i][a][1] < per[i][b][1]
			})
			t := make([]string, len(per[i]))
			for k, sv := range per[i] {
				t[k] = fmt.Sprintf("%d=%d", sv[0], sv[1])
			}
			items[i] = strings.Join(t, ".")
		}
	}
	if len(items) == 0 {
		return "-"
	}
	return strings.Join(items, ",")
}

func c16gwCase(c *ctx, kind string, refs []c16Ref) {
	out := c16gwRun(kind, refs)
	txt := c16RefsText(refs)
	if len(refs) == 0 {
		txt = "-"
	}
	c.emit("C16", "gw "+kind+" "+txt, out)
	c.stat("gw_"+kind, 1)
	c.stat(fmt.Sprintf("gw_refs_%d", len(refs)), 1)
	if out == "PANIC" {
		c.stat("gw_panics", 1)
	}
	repeated, kept := false, 0
	for _, r := range refs {
		if r.Skip != "" {
			c.stat("gw_skip_"+r.Skip, 1)
		} else {
			kept++
			if c16RefRepeats(r, kind[1] == 's') {
				repeated = true
				c.stat("gw_refs_with_repeated_address", 1)
			}
		}
		if r.Weight == "-" {
			c.stat("gw_nil_weight_refs", 1)
		}
		if r.Override {
			c.stat("gw_ip_override_refs", 1)
		}
		if len(r.Listed) > 1 {
			c.stat("gw_refs_listed_by_several_slices", 1)
		}
	}
	if repeated {
		// some kept ref lists an ip:port more than once (overlapping slices / subsets, ip-override)
		c.stat("gw_repeated_address_cases", 1)
		if kept >= 2 {
			c.stat("gw_repeated_address_cases_2plus_groups", 1)
		}
	}
}

// ---------------------------------------------------------------- blue/green

type c16Ep struct {
	Drain bool
	Pod   string // n | m | 0 | k=v+k=v
	Addr  int    // address id of the listed endpoint; 0 = its position k+1
}

// c16EpAddr: the address id of the k-th listed endpoint
func c16EpAddr(eps []c16Ep, k int) int {
	if eps[k].Addr != 0 {
		return eps[k].Addr
	}
	return k + 1
}

// c16EpsRepeat: some address id is listed more than once
func c16EpsRepeat(eps []c16Ep) bool {
	seen := map[int]bool{}
	for k := range eps {
		a := c16EpAddr(eps, k)
		if seen[a] {
			return true
		}
		seen[a] = true
	}
	return false
}

func c16EpsText(eps []c16Ep) string {
	if len(eps) == 0 {
		return "-"
	}
	s := make([]string, len(eps))
	for i, e := range eps {
		s[i] = "r:" + e.Pod
		if e.Drain {
			s[i] = "d:" + e.Pod
		}
		if e.Addr != 0 {
			s[i] += "@" + strconv.Itoa(e.Addr)
		}
	}
	return strings.Join(s, ",")
}

func c16ParseEps(s string) ([]c16Ep, bool) {
	if s == "-" {
		return nil, true
	}
	var eps []c16Ep
	for _, t := range strings.Split(s, ",") {
		if len(t) < 3 || t[1] != ':' || (t[0] != 'r' && t[0] != 'd') {
			return nil, false
		}
		e := c16Ep{Drain: t[0] == 'd', Pod: t[2:]}
		if at := strings.IndexByte(e.Pod, '@'); at >= 0 {
			n, err := strconv.Atoi(e.Pod[at+1:])
			if err != nil || n < 1 || n > 249 {
				return nil, false
			}
			e.Addr, e.Pod = n, e.Pod[:at]
		}
		eps = append(eps, e)
	}
	return eps, true
}

func c16unesc(s string) string { return strings.ReplaceAll(s, "%20", " ") }

// c16PodLabels: the label map of a pod token (`0` = no labels | k=v+k=v, pairs assigned in order); ok = false for
// the tokens n / m (no pod)
func c16PodLabels(pod string) (map[string]string, bool) {
	if pod == "n" || pod == "m" {
		return nil, false
	}
	labels := map[string]string{}
	if pod != "0" {
		for _, kv := range strings.Split(pod, "+") {
			p := strings.SplitN(kv, "=", 2)
			if len(p) == 2 {
				labels[p[0]] = p[1]
			}
		}
	}
	return labels, true
}

func c16bgRun(mode, initial, ann string, eps []c16Ep) (out string) {
	defer func() {
		if r := recover(); r != nil {
			out = "PANIC"
		}
	}()
	trk := tracker.NewTracker()
	cache := conv_helper.NewCacheMock(trk)
	cache.PodList = map[string]*api.Pod{}
	anns := map[string]string{}
	if mode != "-" {
		anns[c16Prefix+"/blue-green-mode"] = c16unesc(mode)
	}
	if initial != "-" {
		anns[c16Prefix+"/initial-weight"] = c16unesc(initial)
	}
	if ann != "-" {
		text := c16unesc(ann[2:])
		switch ann[0] {
		case 'b':
			anns[c16Prefix+"/blue-green-balance"] = text
		case 'd':
			anns[c16Prefix+"/blue-green-deploy"] = text
		case 'e':
			anns[c16Prefix+"/blue-green-balance"] = ""
			anns[c16Prefix+"/blue-green-deploy"] = text
		}
	}
	// every listed endpoint (>= 2) behind ONE address: the ip-override annotation, raw pod addresses differ
	override := ""
	if len(eps) >= 2 {
		override = fmt.Sprintf("10.0.0.%d", c16EpAddr(eps, 0))
		for k := range eps {
			if c16EpAddr(eps, k) != c16EpAddr(eps, 0) {
				override = ""
			}
		}
	}
	var ready, notReady []api.EndpointAddress
	for k, e := range eps {
		a := api.EndpointAddress{IP: fmt.Sprintf("10.0.0.%d", c16EpAddr(eps, k))}
		if override != "" {
			a.IP = fmt.Sprintf("10.9.0.%d", k+1)
		}
		if e.Pod != "n" {
			name := fmt.Sprintf("pod%d", k)
			a.TargetRef = &api.ObjectReference{Kind: "Pod", Namespace: "default", Name: name}
			if labels, ok := c16PodLabels(e.Pod); ok {
				pod := &api.Pod{ObjectMeta: metav1.ObjectMeta{Namespace: "default", Name: name, Labels: labels},
					Status: api.PodStatus{PodIP: a.IP}}
				cache.PodList["default/"+name] = pod
			}
		}
		if e.Drain {
			notReady = append(notReady, a)
		} else {
			ready = append(ready, a)
		}
	}
	c16AddServiceGroups(cache, "default", "app", true, false, [][]api.EndpointAddress{ready}, notReady, override)
	pt := networking.PathTypePrefix
	cache.IngList = append(cache.IngList, &networking.Ingress{
		ObjectMeta: metav1.ObjectMeta{Namespace: "default", Name: "ing", Annotations: anns},
		Spec: networking.IngressSpec{Rules: []networking.IngressRule{{
			Host: "app.local",
			IngressRuleValue: networking.IngressRuleValue{HTTP: &networking.HTTPIngressRuleValue{
				Paths: []networking.HTTPIngressPath{{Path: "/", PathType: &pt,
					Backend: networking.IngressBackend{Service: &networking.IngressServiceBackend{
						Name: "app", Port: networking.ServiceBackendPort{Number: 8080}}}}},
			}},
		}}},
	})
	hcfg := c16Sync(cache, trk, map[string]string{"drain-support": "true"}, false)
	b := hcfg.Backends().FindBackend("default", "app", "8080")
	if b == nil {
		return "NOBACKEND"
	}
	if len(eps) == 0 {
		if len(b.Endpoints) != 0 {
			return "w?"
		}
		return "-"
	}
	// one weight per SERVER; every distinct listed address must have exactly one, nothing else may exist
	var addrs []int
	listed := map[int]bool{}
	for k := range eps {
		if a := c16EpAddr(eps, k); !listed[a] {
			listed[a] = true
			addrs = append(addrs, a)
		}
	}
	sort.Ints(addrs)
	written := map[int]string{}
	for _, ep := range b.Endpoints {
		var a int
		if n, _ := fmt.Sscanf(ep.IP, "10.0.0.%d", &a); n != 1 || !listed[a] || written[a] != "" {
			return "w?"
		}
		written[a] = strconv.Itoa(ep.Weight)
	}
	ws := make([]string, len(addrs))
	for k, a := range addrs {
		ws[k] = written[a]
		if ws[k] == "" {
			ws[k] = "w?"
		}
	}
	return strings.Join(ws, ",")
}

func c16bgCase(c *ctx, mode, initial, ann string, eps []c16Ep) {
	out := c16bgRun(mode, initial, ann, eps)
	c.emit("C16", strings.Join([]string{"bg", mode, initial, ann, c16EpsText(eps)}, " "), out)
	c.stat("bg_mode_"+mode, 1)
	c.stat("bg_ann_"+ann[:1], 1)
	c.stat(fmt.Sprintf("bg_eps_%d", len(eps)), 1)
	if out == "PANIC" {
		c.stat("bg_panics", 1)
	}
	if c16EpsRepeat(eps) {
		// several listed endpoints behind one ip:port: AcquireEndpoint keeps one server per address
		c.stat("bg_repeated_address_cases", 1)
	}
	if c16bgOverlap(initial, ann, eps) {
		// a pod matching several entries: outside the property's domain, the oracle judges only the range
		// clause for it (and every clause for the servers / groups the overlap does not touch)
		c.stat("bg_overlap_cases", 1)
	}
	c16bgLabelStats(c, initial, ann, eps)
}

// c16bgItems: the items of the annotation as [name, value, weight] (nil when some item has not three fields)
func c16bgItems(ann string) [][]string {
	if ann == "-" {
		return nil
	}
	var items [][]string
	for _, it := range strings.Split(c16unesc(ann[2:]), ",") {
		f := strings.Split(it, "=")
		if len(f) != 3 {
			return nil
		}
		items = append(items, f)
	}
	return items
}

// c16bgLabelStats (statistics only): which corners of the label space (entry, pod) the case exercises
func c16bgLabelStats(c *ctx, initial, ann string, eps []c16Ep) {
	items := c16bgItems(ann)
	if items == nil {
		return
	}
	emptyValue, emptyName := false, false
	for _, it := range items {
		emptyValue = emptyValue || it[1] == ""
		emptyName = emptyName || it[0] == ""
	}
	if emptyValue {
		c.stat("bg_entry_empty_value_cases", 1)
	}
	if emptyName {
		c.stat("bg_entry_empty_name_cases", 1)
	}
	lacks, lacksVsEmpty, carriesEmpty, emptyMatch := false, false, false, false
	for _, e := range eps {
		labels, ok := c16PodLabels(e.Pod)
		if !ok || e.Drain || initial == "0" {
			continue
		}
		for _, it := range items {
			v, found := labels[it[0]]
			if !found {
				lacks = true
				if it[1] == "" {
					// the pod LACKS the label of an entry declared with the empty value: matching by
					// `pod.Labels[name] == value` (a missing key reads as "") and the comma-ok lookup differ
					lacksVsEmpty = true
				}
			} else if v == "" {
				carriesEmpty = true
				if it[1] == "" {
					emptyMatch = true
				}
			}
		}
	}
	if lacks {
		c.stat("bg_pod_lacks_entry_label_cases", 1)
	}
	if lacksVsEmpty {
		c.stat("bg_absent_label_vs_empty_value_cases", 1)
	}
	if carriesEmpty {
		c.stat("bg_pod_label_with_empty_value_cases", 1)
	}
	if emptyMatch {
		c.stat("bg_empty_value_match_cases", 1)
	}
}

// c16bgOverlap (statistics only): some non-draining pod matches more than one `label=value=...` item
func c16bgOverlap(initial, ann string, eps []c16Ep) bool {
	if ann == "-" || initial == "0" {
		return false
	}
	items := c16bgItems(ann)
	for _, e := range eps {
		labels, ok := c16PodLabels(e.Pod)
		if e.Drain || !ok {
			continue
		}
		n := 0
		for _, it := range items {
			if v, found := labels[it[0]]; found && v == it[1] {
				n++
			}
		}
		if n >= 2 {
			return true
		}
	}
	return false
}

var _ = hatypes.DefaultHost

// ---------------------------------------------------------------- replay

func c16callersReplay(c *ctx, a []string) bool {
	if c16histReplay(c, a) { // bgh / gwh case lines: c16hist.go
		return true
	}
	switch {
	case len(a) == 3 && a[0] == "gw" && len(a[1]) == 2:
		if refs, ok := c16ParseRefs(a[2]); ok {
			c16gwCase(c, a[1], refs)
		}
		return true
	case len(a) == 5 && a[0] == "bg":
		if eps, ok := c16ParseEps(a[4]); ok && (a[3] == "-" || (len(a[3]) >= 2 && a[3][1] == ':')) {
			c16bgCase(c, a[1], a[2], a[3], eps)
		}
		return true
	}
	return false
}

// ---------------------------------------------------------------- generators

func c16ref(w string, n int) c16Ref { return c16Ref{Weight: w, Replicas: n} }

// c16listed: a ref whose ready endpoints are listed by the given EndpointSlices / subsets (address ids)
func c16listed(w string, groups ...[]int) c16Ref {
	r := c16Ref{Weight: w, Listed: [][]int{}}
	for _, g := range groups {
		r.Listed = append(r.Listed, append([]int{}, g...))
	}
	if len(groups) == 0 {
		r.Listed = [][]int{{}}
	}
	return r
}

// c16split: the listing cut into two slices / subsets after `at` endpoints (at <= 0 or >= len: one slice)
func c16split(w string, ids []int, at int) c16Ref {
	if at <= 0 || at >= len(ids) {
		return c16listed(w, ids)
	}
	return c16listed(w, ids[:at], ids[at:])
}

// c16lists: every listing of 0..maxLen endpoints over the address ids 1..ids
func c16lists(ids, maxLen int) [][]int {
	res := [][]int{{}}
	last := res
	for l := 1; l <= maxLen; l++ {
		var next [][]int
		for _, p := range last {
			for a := 1; a <= ids; a++ {
				next = append(next, append(append([]int{}, p...), a))
			}
		}
		res = append(res, next...)
		last = next
	}
	return res
}

// c16GwRepeatExhaustive: 2 and 3 backendRefs whose services list an ip:port more than once
func c16GwRepeatExhaustive(c *ctx) {
	kinds := []string{"He", "Hs", "Te", "Ts"}
	n := 0
	kind := func() string { n++; return kinds[n%4] }
	ws := []string{"-", "0", "1", "3", "128"}
	lists := c16lists(2, 3)
	if c.thorough() {
		ws = []string{"-", "0", "1", "2", "3", "7", "128", "256"}
		lists = c16lists(2, 4)
	}
	// two refs: every listing over two addresses for the first, {one address, the same address twice, two
	// distinct, two + a repetition} for the second, in both orders; the cut between slices rotates
	seconds := [][]int{{1}, {1, 1}, {1, 2}, {2, 1, 2}}
	for _, w1 := range ws {
		for _, w2 := range ws {
			for _, l1 := range lists {
				for _, l2 := range seconds {
					n++
					a, b := c16split(w1, l1, n%4), c16split(w2, l2, (n/4)%3)
					if n%2 == 0 {
						a, b = b, a
					}
					c16gwCase(c, kind(), []c16Ref{a, b})
				}
			}
		}
	}
	// ip-override on one or both refs (Endpoints reader: n replicas behind one address)
	for _, w1 := range ws {
		for _, w2 := range ws {
			for l1 := 0; l1 <= 3; l1++ {
				for l2 := 1; l2 <= 3; l2++ {
					n++
					k := kinds[(n%2)*2] // He, Te
					if n%5 == 0 {
						k = kinds[(n%2)*2+1] // the EndpointSlice reader ignores the annotation
					}
					c16gwCase(c, k, []c16Ref{{Weight: w1, Replicas: l1, Override: true}, {Weight: w2, Replicas: l2, Override: n%3 == 0}})
				}
			}
		}
	}
	// three refs
	ws3 := []string{"-", "2", "0"}
	ls3 := [][]int{{1}, {1, 1}, {1, 2, 1}}
	if c.thorough() {
		ws3 = []string{"-", "1", "2", "0", "5"}
		ls3 = [][]int{{}, {1}, {1, 1}, {1, 2, 1}, {1, 1, 1, 2}}
	}
	for _, w1 := range ws3 {
		for _, w2 := range ws3 {
			for _, w3 := range ws3 {
				for _, l1 := range ls3 {
					for _, l2 := range ls3 {
						for _, l3 := range ls3 {
							n++
							c16gwCase(c, kind(), []c16Ref{c16split(w1, l1, n%3), c16split(w2, l2, (n/3)%3), c16split(w3, l3, (n/9)%3)})
						}
					}
				}
			}
		}
	}
	c.stat("gw_repeat_exhaustive", 1)
}

// c16BgRepeatExhaustive: two entries, 2..3 listed endpoints over the addresses {1,2} x group {a,b} x ready/not
func c16BgRepeatExhaustive(c *ctx) {
	type opt struct {
		addr  int
		pod   string
		drain bool
	}
	var opts []opt
	for _, a := range []int{1, 2} {
		for _, g := range []string{"g=a", "g=b"} {
			for _, d := range []bool{false, true} {
				opts = append(opts, opt{a, g, d})
			}
		}
	}
	var listings [][]c16Ep
	var rec func(cur []c16Ep, left int)
	rec = func(cur []c16Ep, left int) {
		if len(cur) >= 2 {
			listings = append(listings, append([]c16Ep{}, cur...))
		}
		if left == 0 {
			return
		}
		for _, o := range opts {
			rec(append(cur, c16Ep{Drain: o.drain, Pod: o.pod, Addr: o.addr}), left-1)
		}
	}
	rec(nil, 3)
	cfgs := [][3]string{{"-", "-", "b:g=a=1,g=b=1"}, {"-", "100", "b:g=a=3,g=b=1"}, {"pod", "-", "b:g=a=0,g=b=5"}}
	if c.thorough() {
		cfgs = append(cfgs, [3]string{"deploy", "7", "b:g=b=256,g=a=1"}, [3]string{"pod", "100", "b:g=a=3,g=b=1"}, [3]string{"-", "-", "b:g=a=0,g=b=5"})
	}
	n := 0
	for _, l := range listings {
		for _, cf := range cfgs {
			n++
			if !c.thorough() && len(l) == 3 && n%3 != 0 {
				continue // quick: a third of the three-endpoint listings per configuration
			}
			c16bgCase(c, cf[0], cf[1], cf[2], l)
		}
	}
	c.stat("bg_repeat_exhaustive", 1)
}

// c16pods: n pods labelled g=<group>
func c16pods(group string, n int) []c16Ep {
	var eps []c16Ep
	for i := 0; i < n; i++ {
		eps = append(eps, c16Ep{Pod: "g=" + group})
	}
	return eps
}

func c16CallersCorpus(c *ctx) {
	// the ORDER of the refs matters: a ref without weight after one with an explicit weight must get 1
	c16gwCase(c, "He", []c16Ref{c16ref("3", 1), c16ref("-", 1)})
	c16gwCase(c, "He", []c16Ref{c16ref("-", 1), c16ref("3", 1)})
	c16gwCase(c, "Te", []c16Ref{c16ref("0", 2), c16ref("-", 1), c16ref("5", 3)})
	c16gwCase(c, "Hs", []c16Ref{c16ref("256", 1), c16ref("-", 2), c16ref("-", 1)})
	c16gwCase(c, "He", []c16Ref{{Weight: "7", Replicas: 2, Skip: "s"}, c16ref("-", 1), c16ref("2", 1)})
	c16gwCase(c, "He", []c16Ref{{Weight: "7", Replicas: 2, Skip: "p"}, {Weight: "-", Replicas: 1, Skip: "q"}})
	c16gwCase(c, "He", nil)
	// Gateway API allows weights up to 1000000
	c16gwCase(c, "He", []c16Ref{c16ref("1000000", 3), c16ref("1", 1), c16ref("-", 2)})
	// an ip:port listed more than once by ONE service (seed C16e: the servers of a backendRef were deduplicated
	// after Length: len(epready) was taken, the group got M/N of its share). Minimised failing input first:
	// weights 3:1, the first service lists its only address twice
	c16gwCase(c, "He", []c16Ref{c16listed("3", []int{1, 1}), c16ref("1", 1)})
	// overlapping EndpointSlices: four pods, one of them listed by two slices; 3:1
	c16gwCase(c, "Hs", []c16Ref{c16listed("3", []int{1, 2, 3}, []int{3, 4}), c16ref("1", 1)})
	// ip-override: three replicas behind one address, 1:1 with two plain pods; the EndpointSlice reader ignores it
	c16gwCase(c, "He", []c16Ref{{Weight: "1", Replicas: 3, Override: true}, c16ref("1", 2)})
	c16gwCase(c, "Hs", []c16Ref{{Weight: "1", Replicas: 3, Override: true}, c16ref("1", 2)})
	c16gwCase(c, "Te", []c16Ref{c16listed("3", []int{1}, []int{1}), {Weight: "1", Listed: [][]int{{2, 2}}, Skip: "s"}, c16ref("-", 1)})
	c16gwCase(c, "Ts", []c16Ref{c16listed("0", []int{1, 1}), c16listed("-", []int{2, 1, 2}), c16listed("5", []int{})})
	// blue/green: the ingress converter adds endpoints with AcquireEndpoint, one server per ip:port, BEFORE the
	// group lengths are counted: three blue pods behind one address count as one replica
	c16bgCase(c, "-", "-", "b:g=blue=1,g=green=1", []c16Ep{{Pod: "g=blue", Addr: 1}, {Pod: "g=blue", Addr: 1}, {Pod: "g=blue", Addr: 1}, {Pod: "g=green", Addr: 2}, {Pod: "g=green", Addr: 3}})
	c16bgCase(c, "-", "-", "b:g=blue=1,g=green=1", []c16Ep{{Pod: "g=blue", Addr: 1}, {Pod: "g=blue", Addr: 1}, {Pod: "g=blue", Addr: 1}})
	// the first READY listing names the pod of the shared server; a not-ready listing of the address drains it
	c16bgCase(c, "-", "100", "b:g=blue=1,g=green=4", []c16Ep{{Pod: "g=blue", Addr: 2}, {Drain: true, Pod: "g=green", Addr: 2}, {Pod: "g=green", Addr: 1}, {Pod: "g=blue", Addr: 1}})
	c16bgCase(c, "pod", "100", "b:g=blue=1,g=green=4", []c16Ep{{Drain: true, Pod: "g=blue", Addr: 1}, {Pod: "g=green", Addr: 1}, {Pod: "g=blue", Addr: 2}, {Pod: "n", Addr: 2}})
	// blue/green: the documented example, both modes
	two := append(c16pods("blue", 1), c16pods("green", 3)...)
	c16bgCase(c, "-", "-", "b:g=blue=1,g=green=4", two)
	c16bgCase(c, "pod", "-", "b:g=blue=1,g=green=4", two)
	c16bgCase(c, "deploy", "100", "d:g=blue=1,g=green=4", two)
	c16bgCase(c, "canary", "128", "e:g=blue=50,g=green=50", two)
	// clamp, malformed
	for _, a := range []string{"b:g=blue=-5,g=green=300", "b:g=blue=x,g=green=1", "b:g=blue,g=green=1", "b:g=blue=1=2", "b:g=blue=1,",
		"b:g=blue=%201", "b:g=blue=+7,g=green=1", "b:g=blue=99999999999999999999", "b:", "d:", "b:g=blue=1_0", "-"} {
		c16bgCase(c, "-", "7", a, two)
		c16bgCase(c, "pod", "7", a, two)
	}
	// draining, no pod, unmatched
	mix := []c16Ep{{Pod: "g=blue"}, {Drain: true, Pod: "g=blue"}, {Pod: "n"}, {Pod: "m"}, {Pod: "0"}, {Pod: "g=red"}, {Pod: "g=green+x=1"}, {Drain: true, Pod: "n"}}
	c16bgCase(c, "-", "50", "b:g=blue=10,g=green=30", mix)
	c16bgCase(c, "pod", "50", "b:g=blue=10,g=green=30", mix)
	// initial-weight 0 / not a number: every server is "draining"
	c16bgCase(c, "-", "0", "b:g=blue=10,g=green=30", two)
	c16bgCase(c, "-", "x", "b:g=blue=10,g=green=30", two)
	// outside the property's quantifier (initial-weight 1..256): correspondence only
	c16bgCase(c, "-", "300", "b:g=blue=10,g=green=30", two)
	c16bgCase(c, "-", "-5", "b:g=blue=10,g=green=30", two)
	// a pod matching TWO entries: outside the property's domain (Props/C16Callers: bg_outside_domain_*), range only
	c16bgCase(c, "-", "-", "b:g=blue=50,c=1=0", []c16Ep{{Pod: "g=blue+c=1"}, {Pod: "g=blue"}})
	c16bgCase(c, "-", "-", "b:c=1=0,g=blue=50", []c16Ep{{Pod: "g=blue+c=1"}, {Pod: "g=blue"}})
	c16bgCase(c, "-", "-", "b:g=blue=50,c=1=10,g=green=50", []c16Ep{{Pod: "g=blue+c=1"}, {Pod: "g=blue"}, {Pod: "g=green"}})
	c16bgCase(c, "pod", "-", "b:g=blue=50,c=1=10", []c16Ep{{Pod: "g=blue+c=1"}, {Pod: "g=blue"}})
	c16bgCase(c, "-", "-", "b:g=blue=50,g=blue=30", c16pods("blue", 2))
	// label VALUES may be empty (marker labels blue: "", green: ""): `blue==3` is label blue, value "", weight 3.
	// A pod WITHOUT the label is in no group, not even one declared with the empty value (seed C16f: the comma-ok
	// lookup collapsed into `pod.Labels[name] == value`, a missing key reads as ""). Minimised failing inputs first
	c16bgCase(c, "pod", "-", "b:blue==3", []c16Ep{{Pod: "0"}})
	c16bgCase(c, "-", "-", "b:blue==3", []c16Ep{{Pod: "0"}})
	// the seed's demonstration: two blue markers, one green marker, one pod without group label; 3:1
	markers := []c16Ep{{Pod: "blue="}, {Pod: "blue="}, {Pod: "green="}, {Pod: "0"}}
	c16bgCase(c, "-", "100", "b:blue==3,green==1", markers)
	c16bgCase(c, "pod", "100", "b:blue==3,green==1", markers)
	c16bgCase(c, "deploy", "100", "d:blue==3,green==1", markers)
	// one label name, groups by value, one of the values empty; pods: absent, empty, other value, other label
	byValue := []c16Ep{{Pod: "g="}, {Pod: "g=a"}, {Pod: "g=b"}, {Pod: "0"}, {Pod: "h="}, {Pod: "g=+h=a"}, {Drain: true, Pod: "g="}, {Pod: "n"}}
	c16bgCase(c, "-", "50", "b:g==10,g=a=30", byValue)
	c16bgCase(c, "pod", "50", "b:g==10,g=a=30", byValue)
	c16bgCase(c, "-", "50", "b:g=a=30,g==0", byValue)
	// the empty label NAME (a Go map key like any other), alone and against the empty value
	noName := []c16Ep{{Pod: "="}, {Pod: "=v"}, {Pod: "0"}, {Pod: "g="}, {Pod: "=+g=a"}}
	c16bgCase(c, "-", "7", "b:==3,=v=1", noName)
	c16bgCase(c, "pod", "7", "b:==3,=v=1", noName)
	c16bgCase(c, "-", "7", "b:=v=2,g==5", noName)
	// a label name repeated in the pod token: the last value stays in the map
	c16bgCase(c, "pod", "-", "b:g==3,g=a=1", []c16Ep{{Pod: "g=a+g="}, {Pod: "g=+g=a"}, {Pod: "g=a+h=+g=b"}})
	// repeated `=`: four fields, an empty weight, nothing but separators: malformed, every weight untouched
	for _, a := range []string{"b:g=a=b=1", "b:===", "b:===1", "b:==", "b:g==", "b:=", "b:blue==3,,green==1", "b:blue==3,green=", "b:==0"} {
		c16bgCase(c, "-", "7", a, markers)
		c16bgCase(c, "pod", "7", a, noName)
	}
}

func c16GwExhaustive(c *ctx) {
	kinds := []string{"He", "Hs", "Te", "Ts"}
	n := 0
	kind := func() string { n++; return kinds[n%4] }
	ws := []string{"-", "0", "1", "3", "128", "256"}
	lmax := 3
	if c.thorough() {
		ws = []string{"-", "0", "1", "2", "3", "7", "100", "128", "255", "256", "1000"}
		lmax = 4
	}
	// two refs, every ordered pair
	for _, w1 := range ws {
		for _, w2 := range ws {
			for l1 := 0; l1 <= lmax; l1++ {
				for l2 := 0; l2 <= lmax; l2++ {
					c16gwCase(c, kind(), []c16Ref{c16ref(w1, l1), c16ref(w2, l2)})
				}
			}
		}
	}
	// three refs
	ws3 := []string{"-", "0", "2", "256"}
	ls3 := []int{0, 1, 3}
	if c.thorough() {
		ws3 = []string{"-", "0", "1", "2", "5", "256"}
		ls3 = []int{0, 1, 2, 3}
	}
	for _, w1 := range ws3 {
		for _, w2 := range ws3 {
			for _, w3 := range ws3 {
				for _, l1 := range ls3 {
					for _, l2 := range ls3 {
						for _, l3 := range ls3 {
							c16gwCase(c, kind(), []c16Ref{c16ref(w1, l1), c16ref(w2, l2), c16ref(w3, l3)})
						}
					}
				}
			}
		}
	}
	// one skipped ref at every position, every skip reason
	for _, sk := range []string{"p", "s", "q", "e"} {
		for pos := 0; pos < 3; pos++ {
			for _, ws := range [][]string{{"5", "-", "2"}, {"-", "5", "-"}, {"0", "-", "3"}, {"-", "-", "-"}, {"128", "0", "-"}} {
				for _, l := range [][]int{{1, 1, 1}, {2, 1, 3}, {0, 2, 1}} {
					refs := []c16Ref{c16ref(ws[0], l[0]), c16ref(ws[1], l[1]), c16ref(ws[2], l[2])}
					refs[pos].Skip = sk
					c16gwCase(c, kind(), refs)
					refs2 := append([]c16Ref(nil), refs...)
					refs2[(pos+1)%3].Skip = sk
					c16gwCase(c, kind(), refs2)
				}
			}
		}
	}
	c.stat("gw_exhaustive", 1)
}

func c16GwRandom(c *ctx, r *gen.Rng, n int) {
	kinds := []string{"He", "Hs", "Te", "Ts"}
	wpool := []string{"-", "-", "-", "0", "1", "2", "3", "5", "7", "50", "100", "127", "128", "255", "256", "257", "1000", "65536", "1000000"}
	for i := 0; i < n; i++ {
		k := r.Range(1, 5)
		refs := make([]c16Ref, k)
		for j := range refs {
			refs[j].Weight = gen.Pick(r, wpool)
			if r.Chance(1, 5) {
				refs[j].Weight = strconv.Itoa(r.Range(0, 256))
			}
			switch r.Intn(4) {
			case 0:
				refs[j].Replicas = r.Range(0, 1)
			case 1:
				refs[j].Replicas = r.Range(1, 12)
			default:
				refs[j].Replicas = r.Range(1, 4)
			}
			if r.Chance(1, 8) {
				refs[j].Skip = gen.Pick(r, []string{"p", "s", "q", "e"})
			}
			switch r.Intn(6) {
			case 0, 1:
				// the endpoints as listed: ids from a pool smaller than the listing (repetitions), 1..3 slices
				nl := refs[j].Replicas
				pool := r.Range(1, nl+1)
				refs[j].Listed = [][]int{{}}
				for e := 0; e < nl; e++ {
					if e > 0 && len(refs[j].Listed) < 3 && r.Chance(1, 3) {
						refs[j].Listed = append(refs[j].Listed, []int{})
					}
					last := len(refs[j].Listed) - 1
					refs[j].Listed[last] = append(refs[j].Listed[last], r.Range(1, pool))
				}
			case 2:
				refs[j].Override = r.Chance(1, 2)
			}
		}
		c16gwCase(c, gen.Pick(r, kinds), refs)
	}
}

func c16BgExhaustive(c *ctx) {
	ws := []string{"0", "1", "3", "128", "256"}
	lmax := 3
	modes := [][2]string{{"-", "-"}, {"deploy", "100"}, {"pod", "-"}, {"pod", "100"}}
	if c.thorough() {
		ws = []string{"0", "1", "2", "3", "50", "128", "255", "256", "300", "-1"}
		lmax = 4
		modes = append(modes, [2]string{"-", "256"}, [2]string{"deploy", "7"})
	}
	n := 0
	for _, m := range modes {
		for _, w1 := range ws {
			for _, w2 := range ws {
				for l1 := 0; l1 <= lmax; l1++ {
					for l2 := 0; l2 <= lmax; l2++ {
						n++
						// the endpoints of the two groups interleaved or not, with extras every other case
						var eps []c16Ep
						if n%2 == 0 {
							eps = append(c16pods("a", l1), c16pods("b", l2)...)
						} else {
							eps = append(c16pods("b", l2), c16pods("a", l1)...)
						}
						switch n % 4 {
						case 1:
							eps = append(eps, c16Ep{Pod: "g=zz"})
						case 2:
							eps = append([]c16Ep{{Drain: true, Pod: "g=a"}}, eps...)
						case 3:
							eps = append(eps, c16Ep{Pod: "n"}, c16Ep{Drain: true, Pod: "g=b"})
						}
						ann := "b:g=a=" + w1 + ",g=b=" + w2
						if n%7 == 0 {
							ann = "b:g=b=" + w2 + ",g=a=" + w1
						}
						c16bgCase(c, m[0], m[1], ann, eps)
					}
				}
			}
		}
	}
	c.stat("bg_exhaustive", 1)
}

func c16BgRandom(c *ctx, r *gen.Rng, n int) {
	names := []string{"g", "v"}
	values := []string{"a", "b", "c"}
	wpool := []string{"0", "0", "1", "2", "3", "10", "50", "100", "128", "255", "256", "257", "300", "-1", "-5"}
	badItems := []string{"g=a", "g=a=x", "g=a=", "g=a=1=2", "", "g=a=%201", "=", "g=a=1.5", "g=a=0x10"}
	for i := 0; i < n; i++ {
		k := r.Range(1, 4)
		items := make([]string, k)
		for j := range items {
			w := gen.Pick(r, wpool)
			if r.Chance(1, 4) {
				w = strconv.Itoa(r.Range(0, 256))
			}
			items[j] = gen.Pick(r, names) + "=" + gen.Pick(r, values) + "=" + w
		}
		if r.Chance(1, 12) {
			items[r.Intn(k)] = gen.Pick(r, badItems)
		}
		ann := gen.Pick(r, []string{"b:", "b:", "b:", "d:", "e:"}) + strings.Join(items, ",")
		if r.Chance(1, 40) {
			ann = "-"
		}
		ne := r.Range(0, 8)
		eps := make([]c16Ep, ne)
		for j := range eps {
			eps[j].Drain = r.Chance(1, 8)
			switch r.Intn(10) {
			case 0:
				eps[j].Pod = gen.Pick(r, []string{"n", "m", "0"})
			case 1, 2:
				// both labels: may match two entries
				eps[j].Pod = "g=" + gen.Pick(r, values) + "+v=" + gen.Pick(r, values)
			case 3:
				eps[j].Pod = "g=" + gen.Pick(r, []string{"zz", "a"}) + "+x=1"
			default:
				eps[j].Pod = gen.Pick(r, names) + "=" + gen.Pick(r, values)
			}
		}
		if ne >= 2 && r.Chance(1, 4) {
			// several listed endpoints behind one ip:port
			pool := r.Range(1, ne)
			for j := range eps {
				eps[j].Addr = r.Range(1, pool)
			}
		}
		mode := gen.Pick(r, []string{"-", "-", "deploy", "pod", "pod", "canary", "Pod"})
		initial := gen.Pick(r, []string{"-", "1", "2", "7", "100", "128", "256"})
		switch r.Intn(20) {
		case 0:
			initial = strconv.Itoa(r.Range(1, 256))
		case 1:
			initial = gen.Pick(r, []string{"0", "x", "300", "-5", ""})
			if initial == "" {
				initial = "%20"
			}
		}
		c16bgCase(c, mode, initial, ann, eps)
	}
}

// c16BgLabelExhaustive: the label space of the matching condition. Two entries over the names {b, g, ""} and
// the values {"", x} (every ordered pair, equal entries included) and single entries, against pods that LACK the
// label, carry it with the empty value, with the entry's value, with another value, or carry another label.
func c16BgLabelExhaustive(c *ctx) {
	type nv struct{ n, v string }
	var sel []nv
	for _, n := range []string{"b", "g", ""} {
		for _, v := range []string{"", "x"} {
			sel = append(sel, nv{n, v})
		}
	}
	weights := [][2]string{{"3", "1"}, {"0", "5"}}
	modes := [][2]string{{"-", "-"}, {"-", "100"}, {"pod", "-"}, {"deploy", "7"}}
	if c.thorough() {
		weights = append(weights, [2]string{"1", "1"}, [2]string{"256", "2"}, [2]string{"5", "0"})
		modes = append(modes, [2]string{"pod", "100"}, [2]string{"canary", "256"})
	}
	pod := func(s string) c16Ep { return c16Ep{Pod: s} }
	// one entry
	for _, e := range sel {
		for _, w := range []string{"3", "0"} {
			for _, m := range modes {
				eps := []c16Ep{pod("0"), pod(e.n + "="), pod(e.n + "=x"), pod(e.n + "=y"), pod("z="), {Pod: "n"}, {Drain: true, Pod: e.n + "=" + e.v}}
				c16bgCase(c, m[0], m[1], "b:"+e.n+"="+e.v+"="+w, eps)
			}
		}
	}
	// two entries
	n := 0
	for _, e1 := range sel {
		for _, e2 := range sel {
			for _, w := range weights {
				for _, m := range modes {
					n++
					ann := "b:" + e1.n + "=" + e1.v + "=" + w[0] + "," + e2.n + "=" + e2.v + "=" + w[1]
					// markers: per name the label absent / empty / x / y, one label per pod
					l1 := []c16Ep{pod(e1.n + "="), pod(e1.n + "=x"), pod(e1.n + "=y")}
					if e2.n != e1.n {
						l1 = append(l1, pod(e2.n+"="), pod(e2.n+"=x"), pod(e2.n+"=y"))
					}
					l1 = append(l1, pod("0"), pod("z="))
					// the demonstration's shape: two members of the first group, one of the second, one of none
					l2 := []c16Ep{pod(e1.n + "=" + e1.v), pod(e1.n + "=" + e1.v), pod(e2.n + "=" + e2.v), pod("0")}
					// mixed: a pod carrying both labels, draining / pod-less servers, rotation
					l3 := []c16Ep{pod(e1.n + "=" + e1.v + "+" + e2.n + "=" + e2.v), pod(e1.n + "=" + e1.v), {Drain: true, Pod: e2.n + "=" + e2.v},
						{Pod: "n"}, pod("0"), pod(e2.n + "=" + e2.v), pod(e1.n + "=y+z=")}
					if n%2 == 0 {
						l2[0], l2[3] = l2[3], l2[0]
						l3 = append(l3[3:], l3[:3]...)
					}
					c16bgCase(c, m[0], m[1], ann, l1)
					c16bgCase(c, m[0], m[1], ann, l2)
					c16bgCase(c, m[0], m[1], ann, l3)
				}
			}
		}
	}
	c.stat("bg_label_exhaustive", 1)
}

// c16BgLabelRandom: 1..4 entries over names incl. the empty one and values incl. the empty one; pods with 0..3
// labels drawn from the same pools (a label absent, empty, equal, different), pod-less / draining servers,
// repeated addresses, malformed items with repeated `=`
func c16BgLabelRandom(c *ctx, r *gen.Rng, n int) {
	names := []string{"g", "v", "", "blue", "green"}
	values := []string{"", "", "a", "b"}
	podValues := []string{"", "", "a", "b", "c"}
	wpool := []string{"0", "1", "2", "3", "10", "50", "100", "128", "255", "256", "300", "-1"}
	badItems := []string{"g==", "g=a=b=1", "===", "==", "=", "g", "==x", "g==1=", "=g=1="}
	for i := 0; i < n; i++ {
		k := r.Range(1, 4)
		// marker style: every entry its own name and the empty value (half of the cases)
		marker := r.Chance(1, 2)
		items := make([]string, k)
		for j := range items {
			w := gen.Pick(r, wpool)
			if r.Chance(1, 4) {
				w = strconv.Itoa(r.Range(0, 256))
			}
			name, value := gen.Pick(r, names), gen.Pick(r, values)
			if marker {
				name, value = names[(j+i)%len(names)], ""
				if r.Chance(1, 6) {
					value = gen.Pick(r, values)
				}
			}
			items[j] = name + "=" + value + "=" + w
		}
		if r.Chance(1, 15) {
			items[r.Intn(k)] = gen.Pick(r, badItems)
		}
		ann := gen.Pick(r, []string{"b:", "b:", "b:", "d:", "e:"}) + strings.Join(items, ",")
		ne := r.Range(0, 8)
		eps := make([]c16Ep, ne)
		for j := range eps {
			eps[j].Drain = r.Chance(1, 10)
			switch r.Intn(12) {
			case 0:
				eps[j].Pod = gen.Pick(r, []string{"n", "m"})
			case 1, 2:
				eps[j].Pod = "0"
			default:
				nl := 1
				if r.Chance(1, 3) {
					nl = r.Range(2, 3)
				}
				kv := make([]string, nl)
				for l := range kv {
					kv[l] = gen.Pick(r, names) + "=" + gen.Pick(r, podValues)
				}
				if r.Chance(1, 8) {
					kv = append(kv, "z=")
				}
				eps[j].Pod = strings.Join(kv, "+")
			}
		}
		if ne >= 2 && r.Chance(1, 6) {
			pool := r.Range(1, ne)
			for j := range eps {
				eps[j].Addr = r.Range(1, pool)
			}
		}
		mode := gen.Pick(r, []string{"-", "-", "deploy", "pod", "pod", "canary"})
		initial := gen.Pick(r, []string{"-", "1", "7", "100", "128", "256"})
		if r.Chance(1, 25) {
			initial = gen.Pick(r, []string{"0", "x", "300"})
		}
		c16bgCase(c, mode, initial, ann, eps)
	}
}

func runC16Callers(c *ctx) {
	c16CallersCorpus(c)
	c16GwExhaustive(c)
	c16GwRepeatExhaustive(c)
	c16BgExhaustive(c)
	c16BgRepeatExhaustive(c)
	c16BgLabelExhaustive(c)
	r := gen.New(c.seed ^ 0xC16CA11E)
	ngw, nbg, nlb := 1200, 1500, 1200
	if c.thorough() {
		ngw, nbg, nlb = 30000, 40000, 30000
	}
	c16GwRandom(c, r.Fork(), ngw)
	c16BgRandom(c, r.Fork(), nbg)
	c16BgLabelRandom(c, r.Fork(), nlb)
	// histories: the weights written after a second, third ... reconciliation (c16hist.go)
	runC16Hist(c)
}
