package main

// C18, two-phase ("history") mode: the auth-proxy state a controller carries over PARTIAL syncs.
//
// Case line:  C18 hist <glob> <ing>[,<ing>...] <batch>[/<batch>...] => <path>|...||<binds>||<dirty>[/<dirty>...][||cfg=<binds>]
//   <glob>, <ing>   as in the one-batch mode (c18.go); service 3 = echo3; any host number
//   phase 1         a fresh controller: full sync (ingress.NewIngressConverter(...).Sync(true)) over the first
//                   list, ingresses named ing01, ing02, ... in list order (= slot 1, 2, ...), then what a
//                   reconciliation does next: instance.HAProxyUpdate = SyncConfig, Shrink, write, Commit
//                   (items/itemsAdd/itemsDel of hosts and backends in their steady state)
//   <batch>         one PARTIAL sync: `,`-joined ops  a:<ing> (new ingress, next slot)  d:<k> (delete slot k)
//                   u:<k>:<ing> (update slot k to the new definition); the cache is changed, a ChangedObjects is
//                   filled the way the watchers do (IngressesAdd/Upd/Del, Links[Ingress], Objects,
//                   GlobalConfigMapDataCur = the unchanged global config) and a NEW converter over the SAME
//                   tracker and haproxy config runs Sync(false); then instance.HAProxyUpdate again
//   output          <path> records (same format as the one-batch mode) of ALL ingresses alive at the end, in slot
//                   order, resolved from the configuration file on disk after the last update;
//                   <binds> = Frontend.AuthProxy.BindList; <dirty> per batch = <hosts>:<backends>:<targets>
//                   (`.`-joined, `-` = none): hosts and ingress backends (b<svc>) found in ItemsAdd/ItemsDel
//                   after the partial sync (what the tracker declared dirty + what was created), and the auth
//                   service backends (t5, t6) found in ItemsDel (= the ones RemoveAuthBackendByTarget saw);
//                   `cfg=` only when the auth-proxy frontend of the file (bind -> use_backend) differs from <binds>
//
// The /oauth2 publisher (path 9) is part of phase 1 only and never touched: what findBackend(/oauth2)
// answers is then the same at every sync (the model reads it from the live ingresses).

import (
	"fmt"
	"os"
	"runtime"
	"sort"
	"strconv"
	"strings"
	"sync"

	networking "k8s.io/api/networking/v1"

	"github.com/jcmoraisjr/haproxy-ingress/pkg/converters/ingress"
	convtypes "github.com/jcmoraisjr/haproxy-ingress/pkg/converters/types"

	"hapverif/gen"
)

type c18Op struct {
	kind byte // a d u
	slot int  // 1-based (d, u)
	ing  c18Ing
}

type c18Hist struct {
	c18Scenario           // globals + phase 1
	glob        string    // the global token as written
	batches     [][]c18Op // phase 2
}

func c18IngTok(g c18Ing) string {
	sg := "-"
	if g.signin {
		sg = "s"
	}
	return fmt.Sprintf("%d.%d.%d.%c.%s.%s.%s.%s", g.host, g.path, g.svc, g.match, g.url, g.plc, g.oauth, sg)
}

func (h *c18Hist) args() string {
	var bs []string
	for _, b := range h.batches {
		var os_ []string
		for _, o := range b {
			switch o.kind {
			case 'a':
				os_ = append(os_, "a:"+c18IngTok(o.ing))
			case 'd':
				os_ = append(os_, fmt.Sprintf("d:%d", o.slot))
			case 'u':
				os_ = append(os_, fmt.Sprintf("u:%d:%s", o.slot, c18IngTok(o.ing)))
			}
		}
		bs = append(bs, strings.Join(os_, ","))
	}
	return "hist " + h.c18Scenario.args() + " " + strings.Join(bs, "/")
}

// c18HistParse: a = [<glob>, <ings>, <batches>]
func c18HistParse(a []string) (*c18Hist, error) {
	if len(a) != 3 {
		return nil, fmt.Errorf("want 3 fields, got %d", len(a))
	}
	sc, err := c18Parse(a[:2])
	if err != nil {
		return nil, err
	}
	h := &c18Hist{c18Scenario: *sc, glob: a[0]}
	one := func(tok string) (c18Ing, error) {
		s, err := c18Parse([]string{a[0], tok})
		if err != nil {
			return c18Ing{}, err
		}
		if len(s.ings) != 1 {
			return c18Ing{}, fmt.Errorf("bad ingress token %q", tok)
		}
		return s.ings[0], nil
	}
	for _, bt := range strings.Split(a[2], "/") {
		var b []c18Op
		for _, ot := range strings.Split(bt, ",") {
			f := strings.SplitN(ot, ":", 3)
			switch {
			case len(f) == 2 && f[0] == "a":
				g, err := one(f[1])
				if err != nil {
					return nil, err
				}
				b = append(b, c18Op{kind: 'a', ing: g})
			case len(f) == 2 && f[0] == "d":
				k, err := strconv.Atoi(f[1])
				if err != nil || k < 1 {
					return nil, fmt.Errorf("bad op %q", ot)
				}
				b = append(b, c18Op{kind: 'd', slot: k})
			case len(f) == 3 && f[0] == "u":
				k, err := strconv.Atoi(f[1])
				if err != nil || k < 1 {
					return nil, fmt.Errorf("bad op %q", ot)
				}
				g, err := one(f[2])
				if err != nil {
					return nil, err
				}
				b = append(b, c18Op{kind: 'u', slot: k, ing: g})
			default:
				return nil, fmt.Errorf("bad op %q", ot)
			}
		}
		h.batches = append(h.batches, b)
	}
	return h, nil
}

func c18HistMust(line string) *c18Hist {
	f := strings.Fields(line)
	h, err := c18HistParse(f)
	if err != nil {
		panic(fmt.Sprintf("%s: %v", line, err))
	}
	return h
}

// slots after every batch (nil = deleted); error when an op names a slot that is not alive
func (h *c18Hist) evolve() ([][]*c18Ing, error) {
	cur := make([]*c18Ing, len(h.ings))
	for i := range h.ings {
		g := h.ings[i]
		cur[i] = &g
	}
	res := [][]*c18Ing{append([]*c18Ing(nil), cur...)}
	for _, b := range h.batches {
		touched := map[int]bool{}
		for _, o := range b {
			switch o.kind {
			case 'a':
				g := o.ing
				cur = append(cur, &g)
				touched[len(cur)] = true
			case 'd', 'u':
				if o.slot > len(cur) || cur[o.slot-1] == nil {
					return nil, fmt.Errorf("slot %d is not alive", o.slot)
				}
				if touched[o.slot] {
					return nil, fmt.Errorf("slot %d changed twice in one batch", o.slot)
				}
				touched[o.slot] = true
				if o.kind == 'd' {
					cur[o.slot-1] = nil
				} else {
					g := o.ing
					cur[o.slot-1] = &g
				}
			}
		}
		res = append(res, append([]*c18Ing(nil), cur...))
	}
	return res, nil
}

// valid: (host, path) pairs of the live ingresses stay distinct, the /oauth2 publisher is never touched
func (h *c18Hist) valid() bool {
	states, err := h.evolve()
	if err != nil {
		return false
	}
	for _, st := range states {
		seen := map[[2]int]bool{}
		for _, g := range st {
			if g == nil {
				continue
			}
			k := [2]int{g.host, g.path}
			if seen[k] {
				return false
			}
			seen[k] = true
		}
	}
	for _, b := range h.batches {
		for _, o := range b {
			if o.kind != 'd' && o.ing.path == 9 {
				return false
			}
		}
	}
	for i, st := range states[1:] {
		for k, g := range states[i] {
			if g != nil && g.path == 9 && (st[k] == nil || *st[k] != *g) {
				return false
			}
		}
	}
	return true
}

func c18IngName(slot int) string { return fmt.Sprintf("ing%02d", slot) }

var c18BackTokens = map[string]string{
	"default_echo0_8080":       "b0",
	"default_echo1_8080":       "b1",
	"default_oauth2proxy_8080": "b2",
	"default_echo3_8080":       "b3",
}

var c18AuthSvcTokens = map[string]string{
	"default_authsvc_8080": "t5",
	"other_authsvc2_8080":  "t6",
}

func c18Dots(m map[string]bool) string {
	if len(m) == 0 {
		return "-"
	}
	var l []string
	for k := range m {
		l = append(l, k)
	}
	sort.Strings(l)
	return strings.Join(l, ".")
}

// dirty: see the header comment; to be called between Sync(false) and HAProxyUpdate
func (e *c18Env) dirty() string {
	hosts, backs, targets := map[string]bool{}, map[string]bool{}, map[string]bool{}
	for name := range e.hconfig.Hosts().ItemsAdd() {
		hosts[c18HostTok(name)] = true
	}
	for name := range e.hconfig.Hosts().ItemsDel() {
		hosts[c18HostTok(name)] = true
	}
	for id := range e.hconfig.Backends().ItemsAdd() {
		if t, ok := c18BackTokens[id]; ok {
			backs[t] = true
		} else if _, ok := c18AuthSvcTokens[id]; !ok && !strings.HasPrefix(id, "_auth_") {
			backs["?"+id] = true
		}
	}
	for id := range e.hconfig.Backends().ItemsDel() {
		if t, ok := c18BackTokens[id]; ok {
			backs[t] = true
		} else if t, ok := c18AuthSvcTokens[id]; ok {
			targets[t] = true
		} else {
			backs["?"+id] = true
		}
	}
	return c18Dots(hosts) + ":" + c18Dots(backs) + ":" + c18Dots(targets)
}

func c18HostTok(name string) string {
	if strings.HasPrefix(name, "h") && strings.HasSuffix(name, ".local") {
		if n, err := strconv.Atoi(name[1 : len(name)-len(".local")]); err == nil {
			return "h" + strconv.Itoa(n)
		}
	}
	return "?" + name
}

// renderedBinds: the auth-proxy frontend of the configuration file: bind port -> backend named after
// the port (must exist, with its server on that port) -> use_backend target
func (e *c18Env) renderedBinds(sections map[string][]string) string {
	front, ok := sections["frontend "+e.hconfig.Frontend().AuthProxy.Name]
	if !ok {
		return "-"
	}
	type bnd struct {
		port int
		sid  string
	}
	var binds []bnd
	targets := map[string]string{} // socket id ("" = unconditional) -> backend id
	for _, l := range front {
		w := strings.Fields(l)
		switch {
		case len(w) >= 2 && w[0] == "bind" && strings.HasPrefix(w[1], "127.0.0.1:"):
			p, _ := strconv.Atoi(strings.TrimPrefix(w[1], "127.0.0.1:"))
			b := bnd{port: p}
			if len(w) == 4 && w[2] == "id" {
				b.sid = w[3]
			}
			binds = append(binds, b)
		case len(w) == 2 && w[0] == "use_backend":
			targets[""] = w[1]
		case len(w) == 7 && w[0] == "use_backend" && w[2] == "if" && w[4] == "so_id":
			targets[w[5]] = w[1]
		}
	}
	sort.Slice(binds, func(i, j int) bool { return binds[i].port < binds[j].port })
	var out []string
	for _, b := range binds {
		name := fmt.Sprintf("_auth_%d", b.port)
		tok := c18Name(name)
		bsec, ok := sections["backend "+name]
		if !ok || !c18In(bsec, fmt.Sprintf("server %s 127.0.0.1:%d", name, b.port)) {
			tok += "!nobackend"
		}
		id, ok := targets[b.sid]
		if !ok {
			out = append(out, tok+">?none")
			continue
		}
		back := e.hconfig.Backends().Items()[id]
		if back == nil {
			out = append(out, tok+">?dangling:"+id)
			continue
		}
		if _, ok := sections["backend "+id]; !ok {
			out = append(out, tok+">?nosection:"+id)
			continue
		}
		out = append(out, tok+">"+c18Target(e.hconfig, back.BackendID()))
	}
	if len(out) == 0 {
		return "-"
	}
	return strings.Join(out, ",")
}

// records: the model records (BackendPath.AuthExternal, HostPath.AuthExt) of the given ingresses —
// decides the rendered rules; the fingerprint of an outcome used while sampling iteration orders
func (e *c18Env) records(ings []c18Ing) (string, error) {
	var out []string
	for _, g := range ings {
		hostname, path := c18Host(g.host), c18Paths[g.path]
		host := e.hconfig.Hosts().FindHost(hostname)
		if host == nil {
			return "", fmt.Errorf("host %s missing", hostname)
		}
		for _, hp := range host.Paths {
			if hp.Path() != path {
				continue
			}
			backend := e.hconfig.Backends().FindBackend(hp.Backend.Namespace, hp.Backend.Name, hp.Backend.Port)
			if backend == nil {
				return "", fmt.Errorf("backend %s missing", hp.Backend.ID)
			}
			bp := backend.FindBackendPath(hp.Link)
			if bp == nil {
				return "", fmt.Errorf("backend path of %s%s missing", hostname, path)
			}
			frec := "nil"
			if hp.AuthExt != nil {
				frec = c18Rec(hp.AuthExt)
			}
			out = append(out, "B="+c18Rec(&bp.AuthExternal)+";F="+frec)
		}
	}
	return strings.Join(out, "|"), nil
}

// commit: in place of instance.HAProxyUpdate when nothing is rendered (sampling runs)
func (e *c18Env) commit() {
	e.hconfig.SyncConfig()
	e.hconfig.Shrink()
	e.hconfig.Commit()
}

// c18HistRun: fingerprint (records, binds, dirty sets) and, unless cheap, the full output
func c18HistRun(h *c18Hist, pad, cheap bool) (fp string, res string, err error) {
	states, err := h.evolve()
	if err != nil {
		return "", "", err
	}
	pads := 0
	if pad {
		pads = 3 * len(h.ings)
	}
	e, err := c18NewEnv(&h.c18Scenario, pads)
	if err != nil {
		return "", "", err
	}
	defer e.close()
	var sections map[string][]string
	update := func() error {
		if cheap {
			e.commit()
			return nil
		}
		var err error
		sections, err = e.render()
		return err
	}

	// ---- phase 1: full sync + update (commit)
	objs := map[int]*networking.Ingress{}
	for i, g := range h.ings {
		if pad {
			for k := 0; k < 3; k++ {
				n := 3*i + k
				e.cache.IngList = append(e.cache.IngList, c18MkIngress(fmt.Sprintf("ing%02dpad%d", i+1, k),
					fmt.Sprintf("pad%02d.local", n), "/pad", fmt.Sprintf("pad%02d", n), c18PathType(g.match), nil))
			}
		}
		objs[i+1] = c18Ingress(c18IngName(i+1), g)
		e.cache.IngList = append(e.cache.IngList, objs[i+1])
	}
	conv := ingress.NewIngressConverter(e.opts, e.hconfig, &convtypes.ChangedObjects{GlobalConfigMapDataNew: e.global})
	if !conv.NeedFullSync() {
		return "", "", fmt.Errorf("first sync is not a full one")
	}
	conv.Sync(true)
	e.debugLog()
	if err := update(); err != nil {
		return "", "", err
	}
	if e.hconfig.Backends().Changed() || len(e.hconfig.Hosts().ItemsAdd()) > 0 {
		return "", "", fmt.Errorf("not committed after the update")
	}

	// ---- phase 2: partial syncs
	var dirty []string
	nslots := len(h.ings)
	for _, b := range h.batches {
		ch := &convtypes.ChangedObjects{GlobalConfigMapDataCur: e.global, Links: convtypes.TrackingLinks{}}
		note := func(ev string, ing *networking.Ingress) {
			full := ing.Namespace + "/" + ing.Name
			ch.Links[convtypes.ResourceIngress] = append(ch.Links[convtypes.ResourceIngress], full)
			ch.Objects = append(ch.Objects, fmt.Sprintf("%s/%s:%s", ev, convtypes.ResourceIngress, full))
		}
		remove := func(o *networking.Ingress) {
			l := e.cache.IngList[:0:0]
			for _, x := range e.cache.IngList {
				if x != o {
					l = append(l, x)
				}
			}
			e.cache.IngList = l
		}
		for _, o := range b {
			switch o.kind {
			case 'a':
				nslots++
				ing := c18Ingress(c18IngName(nslots), o.ing)
				objs[nslots] = ing
				e.cache.IngList = append(e.cache.IngList, ing)
				ch.IngressesAdd = append(ch.IngressesAdd, ing)
				note("add", ing)
			case 'd':
				old := objs[o.slot]
				remove(old)
				delete(objs, o.slot)
				ch.IngressesDel = append(ch.IngressesDel, old)
				note("del", old)
			case 'u':
				old := objs[o.slot]
				ing := c18Ingress(c18IngName(o.slot), o.ing)
				for i, x := range e.cache.IngList {
					if x == old {
						e.cache.IngList[i] = ing
					}
				}
				objs[o.slot] = ing
				ch.IngressesUpd = append(ch.IngressesUpd, ing)
				note("update", ing)
			}
		}
		conv := ingress.NewIngressConverter(e.opts, e.hconfig, ch)
		if conv.NeedFullSync() {
			return "", "", fmt.Errorf("a partial sync was expected")
		}
		conv.Sync(false)
		e.debugLog()
		dirty = append(dirty, e.dirty())
		if err := update(); err != nil {
			return "", "", err
		}
	}

	// ---- observe every live ingress
	var live []c18Ing
	for _, g := range states[len(states)-1] {
		if g != nil {
			live = append(live, *g)
		}
	}
	bs := e.binds()
	recs, err := e.records(live)
	if err != nil {
		return "", "", err
	}
	fp = recs + "||" + bs + "||" + strings.Join(dirty, "/")
	if cheap {
		return fp, "", nil
	}
	ps := "-"
	if len(live) > 0 {
		out, err := e.observe(sections, live)
		if err != nil {
			return "", "", err
		}
		ps = strings.Join(out, "|")
	}
	res = ps + "||" + bs + "||" + strings.Join(dirty, "/")
	if rb := e.renderedBinds(sections); rb != bs {
		res += "||cfg=" + rb
	}
	return fp, res, nil
}

func c18HistOnce(h *c18Hist, pad, cheap bool) (fp, out string) {
	defer func() {
		if r := recover(); r != nil {
			fp, out = "PANIC", "PANIC"
			fmt.Fprintf(os.Stderr, "C18 panic on %s: %v\n", h.args(), r)
		}
	}()
	fp, res, err := c18HistRun(h, pad, cheap)
	if err != nil {
		fmt.Fprintf(os.Stderr, "C18 harness error on %s: %v\n", h.args(), err)
		return "ERROR", "ERROR"
	}
	return fp, res
}

// tracker link keys of one ingress (sampling heuristic only, see c18HistSensitive): its host, its
// service, and the service named by a svc:// auth-url with a port
func c18LinkKeys(g *c18Ing) []string {
	keys := []string{fmt.Sprintf("H%d", g.host), fmt.Sprintf("S%d", g.svc)}
	switch g.url {
	case "s1", "sv", "sx":
		keys = append(keys, "A:authsvc")
	case "so":
		keys = append(keys, "A:authsvc2")
	case "sm":
		keys = append(keys, "A:missing")
	case "sn":
		keys = append(keys, "A:nope")
	}
	return keys
}

// c18HistSensitive: can the emitted line depend on the order in which the converter walks its Go
// maps?  Phase 1 as in the one-batch mode; a partial sync when the ingresses it processes again
// (tracker closure, over-approximated) would be order sensitive as a scenario of their own.  Only
// decides whether the case is sampled (c18HistExec); the driver accepts every order anyway.
func c18HistSensitive(h *c18Hist) bool {
	if c18OrderSensitive(&h.c18Scenario) {
		return true
	}
	states, err := h.evolve()
	if err != nil {
		return false
	}
	for bi := range h.batches {
		old, cur := states[bi], states[bi+1]
		keys := map[string]bool{}
		for k := range cur {
			var o *c18Ing
			if k < len(old) {
				o = old[k]
			}
			changed := (o == nil) != (cur[k] == nil) || (o != nil && cur[k] != nil && *o != *cur[k])
			if !changed {
				continue
			}
			if o != nil {
				for _, x := range c18LinkKeys(o) {
					keys[x] = true
				}
			}
			if cur[k] != nil {
				for _, x := range c18LinkKeys(cur[k])[:2] {
					keys[x] = true
				}
			}
		}
		for grew := true; grew; {
			grew = false
			for _, o := range old {
				if o == nil {
					continue
				}
				hit := false
				for _, x := range c18LinkKeys(o) {
					hit = hit || keys[x]
				}
				if hit {
					for _, x := range c18LinkKeys(o) {
						if !keys[x] {
							keys[x] = true
							grew = true
						}
					}
				}
			}
		}
		sub := h.c18Scenario
		sub.ings = nil
		for _, g := range cur {
			if g == nil {
				continue
			}
			for _, x := range c18LinkKeys(g)[:2] {
				if keys[x] {
					sub.ings = append(sub.ings, *g)
					break
				}
			}
		}
		if c18OrderSensitive(&sub) {
			return true
		}
	}
	return false
}

// c18HistExec: the canonical implementation output of a history.  An order-insensitive one is run
// once.  An order-sensitive one is first sampled WITHOUT rendering (padded as in the one-batch mode,
// SyncConfig/Shrink/Commit in place of HAProxyUpdate) until 60 runs in a row brought no new
// fingerprint (records + binds + dirty sets, which decide the rendered rules); then complete runs are
// repeated until one shows the smallest fingerprint, and that one is reported.
func c18HistExec(h *c18Hist) (out string, distinct int) {
	if !c18HistSensitive(h) {
		_, out = c18HistOnce(h, false, false)
		return out, 1
	}
	seen := map[string]int{}
	quiet := 0
	limit := 60
	if c18Sample > 0 {
		limit = c18Sample
	}
	best := ""
	for n := 0; n < 400 && quiet < limit; n++ {
		fp, _ := c18HistOnce(h, true, true)
		if seen[fp] > 0 {
			seen[fp]++
			quiet++
			continue
		}
		seen[fp] = 1
		quiet = 0
		if best == "" || fp < best {
			best = fp
		}
	}
	for n := 0; n < 200; n++ {
		fp, o := c18HistOnce(h, true, false)
		if fp <= best {
			return o, len(seen)
		}
	}
	fmt.Fprintf(os.Stderr, "C18 hist %s: the sampled outcome did not show up again\n", h.args())
	return "ERROR", len(seen)
}

func c18HistEmit(c *ctx, h *c18Hist, out string, distinct int) {
	c.emit("C18", h.args(), out)
	c.stat("hist_scenarios", 1)
	if c18HistSensitive(h) {
		c.stat("hist_order_sensitive_sampled", 1)
		c.stat(fmt.Sprintf("hist_order_outputs_%d", distinct), 1)
	}
	c.stat(fmt.Sprintf("hist_batches_%d", len(h.batches)), 1)
	for _, b := range h.batches {
		for _, o := range b {
			c.stat("hist_op_"+string(o.kind), 1)
		}
		if len(b) > 1 {
			c.stat("hist_batch_with_several_ops", 1)
		}
	}
	c.stat("hist_range_"+h.rng, 1)
	f := strings.Split(out, "||")
	if len(f) >= 3 {
		for _, d := range strings.Split(f[2], "/") {
			p := strings.Split(d, ":")
			if len(p) == 3 {
				if p[2] != "-" {
					c.stat("hist_dirty_auth_service_backend", 1)
				}
				if strings.Contains(p[1], ".") {
					c.stat("hist_several_dirty_backends", 1)
				}
			}
		}
		if strings.Contains(f[1], ",") {
			c.stat("hist_two_or_more_binds_at_end", 1)
		}
	}
	if len(f) >= 4 {
		c.stat("hist_cfg_differs", 1)
	}
	for _, k := range []string{"RB=deny", "RB=icpt", "R0=deny", "R0=icpt"} {
		if strings.Contains(out, k) {
			c.stat("hist_out_"+strings.NewReplacer("=", "_").Replace(k), 1)
		}
	}
}

func c18HistCase(c *ctx, h *c18Hist) {
	out, d := c18HistExec(h)
	c18HistEmit(c, h, out, d)
}

func c18HistBatch(c *ctx, hs []*c18Hist) {
	outs := make([]string, len(hs))
	dist := make([]int, len(hs))
	workers := runtime.NumCPU() / 2
	if workers > 6 {
		workers = 6
	}
	if workers < 1 {
		workers = 1
	}
	var wg sync.WaitGroup
	next := make(chan int, 64)
	for w := 0; w < workers; w++ {
		wg.Add(1)
		go func() {
			defer wg.Done()
			for i := range next {
				outs[i], dist[i] = c18HistExec(hs[i])
			}
		}()
	}
	for i := range hs {
		next <- i
	}
	close(next)
	wg.Wait()
	for i, h := range hs {
		c18HistEmit(c, h, outs[i], dist[i])
	}
}

// ---------------------------------------------------------------- generators

// c18HistCorpus: minimised triggers first
var c18HistCorpus = []string{
	// seed C18b (BuildUsedAuthBackends over itemsAdd): one port taken by an untouched backend, a partial
	// sync adds an ingress with another auth service: the new path must be denied, the old bind kept
	"x0l0r1 0.0.0.b.h1.b.-.- a:1.1.1.b.h2.b.-.-",
	"x0l0r1 0.0.0.b.h1.-.-.- a:2.2.3.b.h2.-.-.-",
	"x0l0r2 0.0.0.b.h1.b.-.-,1.1.1.b.h2.b.-.- a:2.2.3.b.hs.b.-.-",
	"x0l0r1 0.0.0.e.h1.f.-.- a:1.1.1.b.h2.b.-.-",                          // ... the untouched name is a frontend placed one
	"x0l0r1 0.0.0.b.h1.b.-.- a:1.1.1.e.h2.f.-.-",                          // ... the new one is
	"x0l0r1 0.0.0.b.h1.b.-.- a:1.1.1.b.h2.b.-.-/d:1",                      // then the holder goes away: still denied (not dirty)
	"x0l0r1 0.0.0.b.h1.b.-.- a:1.1.1.b.h2.b.-.-/d:1/u:2:1.1.1.b.h2.b.-.s", // ... until it is processed again
	// the port of a deleted ingress is recycled by the clean-up of a later partial sync
	"x0l0r1 0.0.0.b.h1.b.-.- d:1/a:1.1.1.b.h2.b.-.-",
	"x0l0r1 0.0.0.b.h1.b.-.-,1.1.1.b.-.-.-.- d:1/u:2:1.1.1.b.h2.b.-.-",
	// update of the auth-url of the only user: the old bind is dropped by the clean-up
	"x0l0r1 0.0.0.b.h1.b.-.- u:1:0.0.0.b.h2.b.-.-",
	"x0l0r2 0.0.0.b.h1.b.-.- u:1:0.0.0.b.h2.b.-.-/u:1:0.0.0.b.hs.b.-.-",
	// placement moves between backend and frontend
	"x0l0r1 0.0.0.e.h1.b.-.- u:1:0.0.0.e.h1.f.-.-/u:1:0.0.0.e.h2.b.-.-",
	// a service as auth target: the service backend is dirty together with its users (RemoveAuthBackendByTarget)
	"x0l0r2 0.0.0.b.s1.b.-.-,1.1.1.b.s1.b.-.- u:1:0.0.0.b.s1.b.-.s",
	"x0l0r1 0.0.0.b.s1.b.-.-,1.1.1.b.sv.b.-.- d:1/a:2.2.3.b.h1.b.-.-",
	"x0l0r1 0.0.0.b.s1.b.-.- a:1.1.1.b.s1.b.-.-/d:1",
	"x0l0c1r2 0.0.0.b.so.b.-.-,1.1.1.b.h1.b.-.- u:2:1.1.1.b.so.b.-.-/d:1",
	// shared host / shared backend: the neighbour is processed again
	"x0l0r2 0.0.0.b.h1.b.-.-,0.1.1.b.h2.b.-.- d:2/a:0.1.1.b.hs.b.-.-",
	"x0l0r1 0.0.0.b.h1.b.-.-,1.1.0.b.-.-.-.- u:2:1.1.0.b.h2.b.-.-",
	// oauth next to auth-url over partial syncs
	"x0l0r1 0.0.0.b.-.-.o.-,0.9.2.b.-.-.-.- a:1.1.1.b.h1.b.-.-/u:1:0.0.0.b.h2.b.o.-",
	// two ops in one batch
	"x0l0r1 0.0.0.b.h1.b.-.-,1.1.1.b.h2.b.-.- d:1,a:2.2.3.b.hs.b.-.-",
	"x0l0r2 0.0.0.b.h1.b.-.- a:1.1.1.b.h2.b.-.-,a:2.2.3.b.hs.b.-.-",
	// no range, external without lua
	"x0l0r0 0.0.0.b.h1.b.-.- a:1.1.1.b.h2.b.-.-",
	"x1l0r2 0.0.0.b.h1.b.-.- a:1.1.1.b.h2.b.-.-",
}

// exhaustive small scope: see runC18Hist
func c18HistExhaustive(thorough bool) []*c18Hist {
	var res []*c18Hist
	seen := map[string]bool{}
	add := func(h *c18Hist) {
		if !h.valid() {
			return
		}
		k := h.args()
		if seen[k] {
			return
		}
		seen[k] = true
		res = append(res, h)
	}
	rngs := []string{"1", "2"}
	// two targets on two backends in ONE full sync is order sensitive (which one gets the first port):
	// such a state is reached deterministically by phase 1 = one target + `a:` of the second; the full
	// sync variant is kept with single ops only (quick)
	phases := [][]string{
		{"0.0.0.e.h1.%s.-.-"},                      // one target
		{"0.0.0.e.h1.%s.-.-", "1.1.1.e.hq.%s.-.-"}, // one target, two users
		{"0.0.0.e.h1.%s.-.-", "0.1.0.e.h2.%s.-.-"}, // two targets on one host and backend
		{"0.0.0.e.h1.%s.-.-", "1.1.1.e.h2.%s.-.-"}, // two targets, own hosts and backends
	}
	plcs := []string{"b", "f"}
	maxLen := 2
	if thorough {
		maxLen = 3
	}
	for _, rg := range rngs {
		for _, plc := range plcs {
			for pi, ph := range phases {
				limit := maxLen
				if pi == 3 && !thorough {
					limit = 1
				}
				var ings []string
				for _, t := range ph {
					ings = append(ings, fmt.Sprintf(t, plc))
				}
				base := fmt.Sprintf("x0l0r%s %s", rg, strings.Join(ings, ","))
				// the op alphabet; adds go to fresh hosts 2, 3 (service 3) or join host 0 / service 0
				alphabet := []string{
					"a:2.2.3.e.hs." + plc + ".-.-", // new target, own host and backend
					"a:3.2.3.e.h1." + plc + ".-.-", // the target of slot 1, own host (backend of the other add)
					"a:0.2.0.e.hs." + plc + ".-.-", // new target on the host and backend of slot 1
					"a:4.2.1.e.-.-.-.-",            // no authentication, backend of slot 2
					"d:1", "d:2",
					"u:1:0.0.0.e.hs." + plc + ".-.-", // other target
					"u:1:0.0.0.e.-.-.-.-",            // auth-url removed
					"u:1:0.0.0.e.h1." + map[string]string{"b": "f", "f": "b"}[plc] + ".-.-", // placement flipped
					"u:2:1.1.1.e.hs." + plc + ".-.-",
					"u:2:1.1.1.e.h1." + plc + ".-.-",
				}
				var rec func(prefix []string)
				rec = func(prefix []string) {
					if len(prefix) > 0 {
						if h, err := c18HistParse(strings.Fields(base + " " + strings.Join(prefix, "/"))); err == nil {
							add(h)
						}
						if len(prefix) == 2 { // the same two ops as one batch
							if h, err := c18HistParse(strings.Fields(base + " " + strings.Join(prefix, ","))); err == nil {
								add(h)
							}
						}
					}
					if len(prefix) == limit {
						return
					}
					for _, o := range alphabet {
						rec(append(prefix[:len(prefix):len(prefix)], o))
					}
				}
				rec(nil)
			}
		}
	}
	return res
}

func c18HistRandomIng(r *gen.Rng, hosts, svcs []int) c18Ing {
	g := c18Ing{host: gen.Pick(r, hosts), path: r.Intn(3), svc: gen.Pick(r, svcs), match: gen.Pick(r, []byte{'b', 'e', 'e', 'p'})}
	g.url = "-"
	switch r.Intn(10) {
	case 0, 1, 2, 3, 4:
		g.url = gen.Pick(r, []string{"h1", "h2", "hs", "hq", "s1", "so"})
	case 5:
		g.url = gen.Pick(r, c18URLKeys)
	case 6:
		g.url = gen.Pick(r, []string{"mf", "hn", "sm", "sx", "sn", "e"})
	}
	g.plc = gen.Pick(r, []string{"-", "-", "-", "b", "b", "f", "f", "t"})
	g.oauth = gen.Pick(r, []string{"-", "-", "-", "-", "-", "o", "o", "u"})
	g.signin = g.url != "-" && r.Chance(1, 5)
	return g
}

func c18HistRandom(r *gen.Rng) *c18Hist {
	for {
		h := &c18Hist{}
		switch r.Intn(6) {
		case 0:
			h.ext = true
		case 1:
			h.ext, h.lua = true, true
		}
		h.xns = r.Chance(1, 2)
		h.rng = gen.Pick(r, []string{"0", "1", "1", "1", "2", "2", "3", "d"})
		hosts, svcs := []int{0, 0, 1, 1, 2, 3}, []int{0, 0, 1, 1, 3}
		n := r.Range(1, 3)
		for i := 0; i < n; i++ {
			h.ings = append(h.ings, c18HistRandomIng(r, hosts, svcs))
		}
		if r.Chance(1, 3) {
			h.ings = append(h.ings, c18Ing{host: r.Intn(2), path: 9, svc: 2, match: 'b', url: "-", plc: "-", oauth: "-"})
		}
		alive := make([]bool, len(h.ings))
		for i := range alive {
			alive[i] = true
		}
		nb := r.Range(1, 3)
		for b := 0; b < nb; b++ {
			var ops []c18Op
			touched := map[int]bool{}
			no := 1
			if r.Chance(1, 4) {
				no = 2
			}
			for k := 0; k < no; k++ {
				var cand []int
				for i, a := range alive {
					if a && !touched[i+1] && !(i < len(h.ings) && h.ings[i].path == 9) {
						cand = append(cand, i+1)
					}
				}
				switch x := r.Intn(5); {
				case x <= 1 || len(cand) == 0:
					ops = append(ops, c18Op{kind: 'a', ing: c18HistRandomIng(r, hosts, svcs)})
					alive = append(alive, true)
					touched[len(alive)] = true
				case x == 2:
					s := gen.Pick(r, cand)
					ops = append(ops, c18Op{kind: 'd', slot: s})
					alive[s-1] = false
					touched[s] = true
				default:
					s := gen.Pick(r, cand)
					ops = append(ops, c18Op{kind: 'u', slot: s, ing: c18HistRandomIng(r, hosts, svcs)})
					touched[s] = true
				}
			}
			h.batches = append(h.batches, ops)
		}
		if h.valid() {
			return h
		}
	}
}

func runC18Hist(c *ctx) {
	for _, l := range c18HistCorpus {
		c18HistCase(c, c18HistMust(l))
	}
	hs := c18HistExhaustive(c.thorough())
	c.stat("hist_exhaustive", len(hs))
	r := gen.New(c.seed ^ 0x18b)
	n := 400
	if c.thorough() {
		n = 9000
	}
	for i := 0; i < n; i++ {
		hs = append(hs, c18HistRandom(r))
	}
	c18HistBatch(c, hs)
}
