package main

// C03 mode `ep` — hand-maintained Endpoints objects (after seed C03g).
//
// The worlds of c03.go build every Endpoints object the way the endpoints controller does for a Service WITH a
// selector (one layout, port number = numeric targetPort, TCP).  A Service WITHOUT selector has its Endpoints object
// written by hand: several subsets, each with its own ready / not-ready addresses and ports whose names, numbers
// and protocols need not agree with spec.ports[] of the Service.  This mode drives such objects through
//   (1) the real convutils.FindServicePort + convutils.CreateEndpoints (mock cache), and
//   (2) the real ingress converter (ingress.NewIngressConverter(...).Sync(true)) on one Ingress whose backend names
//       the port, reading the servers of the backend it builds (haproxy model objects).
//
// Case line (model and Spec: lean/HapVerif/Model/C03Ep.lean, driver: Drv/C03.lean `handleEp`):
//   C03 ep d<0|1> <svcports> <ingport> <subsets> => <ready> <notready> <backends>     (or `=> noport <backends>`)
//   svcports  name:port:targetPort+...   `_` = unnamed, targetPort `0` = unset, a number or a name
//   ingport   the port of the Ingress backend: a number (service port) or a name
//   subsets   `-` or `/`-joined `ready;notready;ports`; addresses `,`-joined (`-` none); ports `,`-joined
//             name:number:TCP|UDP|SCTP (`_` = unnamed)
//   ready / notready   the two listings as returned, `ip:port+...` or `-`
//   backends  `id=ip:port:weight+...` (servers sorted) of every backend the converter created, `-` none

import (
	"fmt"
	"sort"
	"strconv"
	"strings"

	api "k8s.io/api/core/v1"
	networking "k8s.io/api/networking/v1"
	metav1 "k8s.io/apimachinery/pkg/apis/meta/v1"
	"k8s.io/apimachinery/pkg/util/intstr"

	conv_helper "github.com/jcmoraisjr/haproxy-ingress/pkg/converters/helper_test"
	"github.com/jcmoraisjr/haproxy-ingress/pkg/converters/ingress"
	"github.com/jcmoraisjr/haproxy-ingress/pkg/converters/tracker"
	convtypes "github.com/jcmoraisjr/haproxy-ingress/pkg/converters/types"
	convutils "github.com/jcmoraisjr/haproxy-ingress/pkg/converters/utils"
	"github.com/jcmoraisjr/haproxy-ingress/pkg/haproxy"

	"hapverif/gen"
)

type c03epPort struct {
	name   string
	port   int
	target string
}

type c03epEpPort struct {
	name  string
	num   int
	proto string
}

type c03epSubset struct {
	ready, notReady []string
	ports           []c03epEpPort
}

type c03epCase struct {
	drain   bool
	ports   []c03epPort
	ing     string
	subsets []c03epSubset
}

func c03epList(l []string, sep string) string {
	if len(l) == 0 {
		return "-"
	}
	return strings.Join(l, sep)
}

func (k *c03epCase) args() string {
	d := "d0"
	if k.drain {
		d = "d1"
	}
	var ps []string
	for _, p := range k.ports {
		ps = append(ps, fmt.Sprintf("%s:%d:%s", qq(p.name), p.port, p.target))
	}
	var ss []string
	for _, s := range k.subsets {
		var eps []string
		for _, p := range s.ports {
			eps = append(eps, fmt.Sprintf("%s:%d:%s", qq(p.name), p.num, p.proto))
		}
		ss = append(ss, c03epList(s.ready, ",")+";"+c03epList(s.notReady, ",")+";"+c03epList(eps, ","))
	}
	return fmt.Sprintf("ep %s %s %s %s", d, c03epList(ps, "+"), k.ing, c03epList(ss, "/"))
}

func c03epUnlist(s, sep string) []string {
	if s == "-" || s == "" {
		return nil
	}
	return strings.Split(s, sep)
}

func c03epParse(a []string) (*c03epCase, error) {
	if len(a) != 4 || (a[0] != "d0" && a[0] != "d1") {
		return nil, fmt.Errorf("want d<0|1> <svcports> <ingport> <subsets>")
	}
	k := &c03epCase{drain: a[0] == "d1", ing: a[2]}
	for _, p := range c03epUnlist(a[1], "+") {
		f := strings.Split(p, ":")
		if len(f) != 3 {
			return nil, fmt.Errorf("bad service port %q", p)
		}
		n, err := strconv.Atoi(f[1])
		if err != nil {
			return nil, err
		}
		name := f[0]
		if name == "_" {
			name = ""
		}
		k.ports = append(k.ports, c03epPort{name, n, f[2]})
	}
	for _, s := range c03epUnlist(a[3], "/") {
		f := strings.Split(s, ";")
		if len(f) != 3 {
			return nil, fmt.Errorf("bad subset %q", s)
		}
		sub := c03epSubset{ready: c03epUnlist(f[0], ","), notReady: c03epUnlist(f[1], ",")}
		for _, p := range c03epUnlist(f[2], ",") {
			g := strings.Split(p, ":")
			if len(g) != 3 {
				return nil, fmt.Errorf("bad endpoint port %q", p)
			}
			n, err := strconv.Atoi(g[1])
			if err != nil {
				return nil, err
			}
			name := g[0]
			if name == "_" {
				name = ""
			}
			sub.ports = append(sub.ports, c03epEpPort{name, n, g[2]})
		}
		k.subsets = append(k.subsets, sub)
	}
	return k, nil
}

// objects: the Service (no selector), its hand-written Endpoints and the Ingress naming the port
func (k *c03epCase) objects() (*api.Service, *api.Endpoints, *networking.Ingress) {
	svc := &api.Service{
		ObjectMeta: metav1.ObjectMeta{Namespace: "default", Name: "legacy"},
		Spec:       api.ServiceSpec{ClusterIP: "10.96.0.9"},
	}
	for _, p := range k.ports {
		sp := api.ServicePort{Name: p.name, Port: int32(p.port), Protocol: api.ProtocolTCP}
		if n, err := strconv.Atoi(p.target); err == nil {
			if n != 0 {
				sp.TargetPort = intstr.FromInt(n)
			}
		} else {
			sp.TargetPort = intstr.FromString(p.target)
		}
		svc.Spec.Ports = append(svc.Spec.Ports, sp)
	}
	ep := &api.Endpoints{ObjectMeta: metav1.ObjectMeta{Namespace: "default", Name: "legacy"}}
	for _, s := range k.subsets {
		var sub api.EndpointSubset
		for _, ip := range s.ready {
			sub.Addresses = append(sub.Addresses, api.EndpointAddress{IP: ip})
		}
		for _, ip := range s.notReady {
			sub.NotReadyAddresses = append(sub.NotReadyAddresses, api.EndpointAddress{IP: ip})
		}
		for _, p := range s.ports {
			sub.Ports = append(sub.Ports, api.EndpointPort{Name: p.name, Port: int32(p.num), Protocol: api.Protocol(p.proto)})
		}
		ep.Subsets = append(ep.Subsets, sub)
	}
	var bp networking.ServiceBackendPort
	if n, err := strconv.Atoi(k.ing); err == nil {
		bp.Number = int32(n)
	} else {
		bp.Name = k.ing
	}
	pt := networking.PathTypePrefix
	ing := &networking.Ingress{
		ObjectMeta: metav1.ObjectMeta{Namespace: "default", Name: "legacy"},
		Spec: networking.IngressSpec{Rules: []networking.IngressRule{{
			Host: "legacy.local",
			IngressRuleValue: networking.IngressRuleValue{HTTP: &networking.HTTPIngressRuleValue{
				Paths: []networking.HTTPIngressPath{{Path: "/", PathType: &pt,
					Backend: networking.IngressBackend{Service: &networking.IngressServiceBackend{Name: "legacy", Port: bp}}}},
			}},
		}}},
	}
	return svc, ep, ing
}

func c03epTargets(l []*convutils.Endpoint) string {
	var out []string
	for _, e := range l {
		out = append(out, fmt.Sprintf("%s:%d", e.IP, e.Port))
	}
	return c03epList(out, "+")
}

// c03epRun: the implementation output of one case
func c03epRun(k *c03epCase) string {
	svc, ep, ing := k.objects()
	logger := &c18Logger{}
	trk := tracker.NewTracker()
	cache := conv_helper.NewCacheMock(trk)
	cache.SvcList = append(cache.SvcList, svc)
	cache.EpList["default/legacy"] = ep
	cache.IngList = append(cache.IngList, ing)
	cache.ConfigMapList = map[string]*api.ConfigMap{}

	// (1) FindServicePort + CreateEndpoints
	direct := "noport"
	if sp := convutils.FindServicePort(svc, k.ing); sp != nil {
		ready, notReady, err := convutils.CreateEndpoints(cache, svc, sp, false)
		if err != nil {
			direct = "ERR ERR"
		} else {
			direct = c03epTargets(ready) + " " + c03epTargets(notReady)
		}
	}

	// (2) the ingress converter
	instance := haproxy.CreateInstance(logger, haproxy.InstanceOptions{
		RootFSPrefix:    "/repo/rootfs",
		Metrics:         c18Metrics{},
		ReloadQueue:     c18Queue{},
		SortEndpointsBy: "endpoint",
		IsExternal:      true,
	})
	hconfig := instance.Config()
	global := map[string]string{}
	if k.drain {
		global["drain-support"] = "true"
	}
	opts := &convtypes.ConverterOptions{
		Cache:            cache,
		Logger:           logger,
		Tracker:          trk,
		DynamicConfig:    &convtypes.DynamicConfig{},
		AnnotationPrefix: []string{"haproxy-ingress.github.io"},
		FakeCrtFile:      convtypes.CrtFile{Filename: "/tls/fake.pem", SHA1Hash: "1"},
	}
	changed := &convtypes.ChangedObjects{GlobalConfigMapDataNew: global}
	ingress.NewIngressConverter(opts, hconfig, changed).Sync(true)
	var bs []string
	items := hconfig.Backends().Items()
	ids := make([]string, 0, len(items))
	for id := range items {
		ids = append(ids, id)
	}
	sort.Strings(ids)
	for _, id := range ids {
		if strings.HasPrefix(id, "_") {
			continue
		}
		var srv []string
		for _, e := range items[id].Endpoints {
			if !e.Enabled {
				continue
			}
			srv = append(srv, fmt.Sprintf("%s:%d:%d", e.IP, e.Port, e.Weight))
		}
		sort.Strings(srv)
		bs = append(bs, id+"="+strings.Join(srv, "+"))
	}
	return direct + " " + c03epList(bs, ",")
}

func c03epCaseRun(c *ctx, k *c03epCase) {
	args := k.args()
	defer func() {
		if r := recover(); r != nil {
			c.emit("C03", args, "PANIC")
			c.stat("ep_panic", 1)
		}
	}()
	out := c03epRun(k)
	c.emit("C03", args, out)
	c.stat("ep_cases", 1)
	if strings.HasPrefix(out, "noport") {
		c.stat("ep_port_not_found", 1)
	}
	if len(k.subsets) > 1 {
		c.stat("ep_several_subsets", 1)
	}
}

// minimised inputs (kept first)
var c03epCorpus = []string{
	// the object of seed C03g: unnamed port 80 -> 80, Endpoints written by hand on 9376
	"d0 _:80:80 80 10.0.0.5,10.0.0.6;10.0.0.7;_:9376:TCP",
	"d1 _:80:80 80 10.0.0.5,10.0.0.6;10.0.0.7;_:9376:TCP",
	// named ports: paired by name whatever the numbers; UDP / SCTP namesakes never served
	"d0 http:80:8080+adm:81:adm http 10.0.0.5;-;http:9376:TCP,adm:9377:TCP,http:53:UDP/10.0.0.6;10.0.0.7;http:9378:TCP,http:9379:SCTP",
	"d1 http:80:8080+adm:81:adm 81 10.0.0.5;-;http:9376:TCP,adm:9377:TCP/10.0.0.6;10.0.0.7;adm:9378:TCP",
	// an unnamed service port and an Endpoints object with named ports
	"d0 _:80:0 80 10.0.0.5;-;web:8080:TCP,dns:53:UDP",
	// no subset carries the name
	"d0 http:80:8080 http 10.0.0.5;-;web:8080:TCP",
}

var c03epIPs = []string{"10.0.0.5", "10.0.0.6", "10.0.0.7", "10.0.0.8"}

// c03epGen: a random Service (1-3 ports, named / unnamed, numeric / named / unset targetPort), the port an Ingress
// names, and a hand-written Endpoints object of 0-3 subsets whose ports agree with the Service only by chance
func c03epGen(r *gen.Rng) *c03epCase {
	k := &c03epCase{drain: r.Chance(1, 3)}
	names := []string{"http", "adm", "alt"}
	nums := []int{80, 81, 8080}
	targets := []string{"80", "8080", "9376", "web", "http", "0"}
	np := 1
	if r.Chance(1, 2) {
		np = r.Range(2, 3)
	}
	for i := 0; i < np; i++ {
		p := c03epPort{name: names[i], port: nums[i], target: gen.Pick(r, targets)}
		if np == 1 && r.Chance(2, 3) {
			p.name = "" // only a single port may be unnamed
		}
		if r.Chance(1, 2) {
			p.target = strconv.Itoa(p.port) // the api server's default
		}
		k.ports = append(k.ports, p)
	}
	// the Ingress names a port by number or by name, sometimes one that does not exist
	pick := k.ports[r.Intn(len(k.ports))]
	switch {
	case pick.name != "" && r.Chance(1, 2):
		k.ing = pick.name
	case r.Chance(1, 12):
		k.ing = gen.Pick(r, []string{"9999", "nope", "8080", "web"})
	default:
		k.ing = strconv.Itoa(pick.port)
	}
	ns := r.Range(0, 3)
	if r.Chance(1, 2) {
		ns = 1
	}
	epNames := []string{"", "http", "adm", "alt", "web"}
	epNums := []int{80, 81, 8080, 9376, 9377, 53}
	for i := 0; i < ns; i++ {
		var s c03epSubset
		for _, ip := range c03epIPs {
			switch r.Intn(4) {
			case 0:
				s.ready = append(s.ready, ip)
			case 1:
				s.notReady = append(s.notReady, ip)
			}
		}
		n := r.Range(0, 3)
		if r.Chance(1, 2) {
			n = 1
		}
		for j := 0; j < n; j++ {
			p := c03epEpPort{name: gen.Pick(r, epNames), num: gen.Pick(r, epNums), proto: "TCP"}
			if r.Chance(1, 2) {
				// the name of a service port, as a careful author would write
				p.name = k.ports[r.Intn(len(k.ports))].name
			}
			if r.Chance(1, 5) {
				p.proto = gen.Pick(r, []string{"UDP", "SCTP"})
			}
			s.ports = append(s.ports, p)
		}
		k.subsets = append(k.subsets, s)
	}
	return k
}

func runC03ep(c *ctx) {
	for _, l := range c03epCorpus {
		k, err := c03epParse(strings.Fields(l))
		if err != nil {
			panic("c03ep corpus: " + err.Error())
		}
		c03epCaseRun(c, k)
	}
	// exhaustive small scope: one service port (unnamed / named) x targetPort (unset, = port, other number, name) x
	// one subset with one ready and one not-ready address and one or two ports over names x numbers x protocols
	n := 0
	type ept = c03epEpPort
	var epPorts []ept
	for _, nm := range []string{"", "http", "web"} {
		for _, num := range []int{80, 9376} {
			for _, pr := range []string{"TCP", "UDP", "SCTP"} {
				epPorts = append(epPorts, ept{nm, num, pr})
			}
		}
	}
	for _, sname := range []string{"", "http"} {
		for _, tgt := range []string{"0", "80", "8080", "web"} {
			ings := []string{"80"}
			if sname != "" {
				ings = append(ings, sname)
			}
			for _, ingp := range ings {
				for i, p1 := range epPorts {
					mk := func(ps ...ept) {
						c03epCaseRun(c, &c03epCase{ports: []c03epPort{{sname, 80, tgt}}, ing: ingp,
							drain: n%2 == 1,
							subsets: []c03epSubset{{ready: []string{"10.0.0.5"}, notReady: []string{"10.0.0.7"}, ports: ps}}})
						n++
					}
					mk(p1)
					if c.thorough() {
						for _, p2 := range epPorts[i:] {
							mk(p1, p2)
						}
					}
				}
			}
		}
	}
	c.stat("ep_exhaustive_one_subset", n)
	r := gen.New(c.seed ^ 0xc03e9)
	k := 3000
	if c.thorough() {
		k = 40000
	}
	for i := 0; i < k; i++ {
		c03epCaseRun(c, c03epGen(r.Fork()))
	}
}
