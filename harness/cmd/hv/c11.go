package main

import (
	"fmt"
	"os"
	"path/filepath"
	"regexp"
	"runtime"
	"strconv"
	"strings"

	"github.com/jcmoraisjr/haproxy-ingress/pkg/haproxy"
	hatypes "github.com/jcmoraisjr/haproxy-ingress/pkg/haproxy/types"
	types_helper "github.com/jcmoraisjr/haproxy-ingress/pkg/types/helper_test"
	"github.com/jcmoraisjr/haproxy-ingress/pkg/utils"

	"hapverif/gen"
	"hapverif/hvutil"
	"hapverif/world"
)

func init() {
	props["C11"] = runC11
	replayers["C11"] = func(c *ctx, a []string) {
		switch {
		case len(a) >= 2 && a[0] == "world":
			c11worldCase(c, a[1:])
		case len(a) == 4 && a[0] == "authp":
			lo, _ := strconv.Atoi(a[1])
			hi, _ := strconv.Atoi(a[2])
			c11authp(c, lo, hi, strings.Split(a[3], ","))
		case len(a) == 3 && a[0] == "align":
			c11align(c, c02parseFlags(a[1]), c02parseEPs(a[2]))
		case len(a) == 4 && (a[0] == "fits" || a[0] == "noop"):
			c11pair(c, a[0], c02parseFlags(a[1]), c02parseEPs(a[2]), c02parseEPs(a[3]))
		case len(a) == 4 && a[0] == "hist":
			n, _ := strconv.Atoi(a[2])
			var steps [][]c02ep
			for _, st := range strings.Split(a[3], "|") {
				steps = append(steps, c02parseEPs(st))
			}
			c11hist(c, c02parseFlags(a[1]), n, steps)
		case len(a) == 5 && a[0] == "multi":
			n, _ := strconv.Atoi(a[1])
			cfgs, steps, ok := c11parseMulti(a[3], a[4])
			if !ok {
				fmt.Fprintln(os.Stderr, "C11: unparsable multi case")
				return
			}
			r := c11multi(n, cfgs, steps)
			c.emit("C11", r.args, r.out)
			c.stat("multi", 1)
		}
	}
}

// alignSlots through the real updater: no committed data => update() is false => alignSlots()
func c11align(c *ctx, f c02flags, eps []c02ep) {
	out := func() (res string) {
		defer func() {
			if r := recover(); r != nil {
				res = "PANIC"
			}
		}()
		inst := haproxy.CreateInstance(&hvutil.Logger{}, haproxy.InstanceOptions{Metrics: types_helper.NewMetricsMock()})
		b := inst.Config().Backends().AcquireBackend("d", "app", "8080")
		c02fill(b, f, eps)
		haproxy.VerifDynUpdate(inst, &c02sock{})
		return c02fmtEPs(c02read(b))
	}()
	c.emit("C11", "align "+f.String()+" "+c02fmtEPs(eps), out)
	c.stat("align", 1)
}

// an endpoint-only change / a no-op through the real updater, all commands answered OK
func c11pair(c *ctx, kind string, f c02flags, old, cur []c02ep) {
	out := func() (res string) {
		defer func() {
			if r := recover(); r != nil {
				res = "PANIC"
			}
		}()
		inst := haproxy.CreateInstance(&hvutil.Logger{}, haproxy.InstanceOptions{Metrics: types_helper.NewMetricsMock()})
		cfg := inst.Config()
		b := cfg.Backends().AcquireBackend("d", "app", "8080")
		c02fill(b, f, old)
		cfg.Commit()
		cfg.Backends().RemoveAll([]string{b.ID})
		b2 := cfg.Backends().AcquireBackend("d", "app", "8080")
		c02fill(b2, f, cur)
		if !f.same {
			b2.Server.MaxConn = 7
		}
		cfg.Shrink()
		sock := &c02sock{}
		updated, _ := haproxy.VerifDynUpdate(inst, sock)
		cmds := make([]string, len(sock.calls))
		for i, cl := range sock.calls {
			cmds[i] = c02canonCall(cl)
		}
		cs := "-"
		if len(cmds) > 0 {
			cs = strings.Join(cmds, ",")
		}
		_ = b2
		final := cfg.Backends().Items()["d_app_8080"]
		return b2s(updated) + " " + cs + " " + c02fmtEPs(c02read(final))
	}()
	c.emit("C11", kind+" "+f.String()+" "+c02fmtEPs(old)+" "+c02fmtEPs(cur), out)
	c.stat(kind, 1)
}

// c11hist: a history of re-notifications of ONE backend through the real Backends store (RemoveAll,
// AcquireBackend, fresh endpoints as a converter adds them), config.Shrink(), the real dynamic updater
// and config.Commit() - the sequence HAProxyUpdate runs. `steps[i]` are the real endpoints of sync i.
// Output per step: updated flag, commands, resulting slots of the backend in the model store.
func c11hist(c *ctx, f c02flags, shards int, steps [][]c02ep) {
	out := func() (res string) {
		defer func() {
			if r := recover(); r != nil {
				res = "PANIC"
			}
		}()
		inst := haproxy.CreateInstance(&hvutil.Logger{}, haproxy.InstanceOptions{Metrics: types_helper.NewMetricsMock(), BackendShards: shards})
		cfg := inst.Config()
		var outs []string
		for i, st := range steps {
			if i > 0 {
				cfg.Backends().RemoveAll([]string{"d_app_8080"})
			}
			b := cfg.Backends().AcquireBackend("d", "app", "8080")
			c02fill(b, f, st)
			cfg.Shrink()
			sock := &c02sock{}
			updated, _ := haproxy.VerifDynUpdate(inst, sock)
			cmds := make([]string, len(sock.calls))
			for j, cl := range sock.calls {
				cmds[j] = c02canonCall(cl)
			}
			cs := "-"
			if len(cmds) > 0 {
				cs = strings.Join(cmds, ",")
			}
			final := cfg.Backends().Items()["d_app_8080"]
			outs = append(outs, b2s(updated)+"/"+cs+"/"+c02fmtEPs(c02read(final)))
			cfg.Commit()
		}
		return strings.Join(outs, ";")
	}()
	var sts []string
	for _, st := range steps {
		sts = append(sts, c02fmtEPs(st))
	}
	c.emit("C11", fmt.Sprintf("hist %s %d %s", f.String(), shards, strings.Join(sts, "|")), out)
	c.stat("hist", 1)
}

// rebuild the real endpoints of a layout the way a converter does on a re-sync: fresh names
func c11rebuild(f c02flags, naming int, old []c02ep) []c02ep {
	b := hatypes.CreateBackends(0).AcquireBackend("d", "gen", "1")
	b.Server.InitialWeight = f.iw
	switch naming {
	case 1:
		b.EpNaming = hatypes.EpTargetRef
	case 2:
		b.EpNaming = hatypes.EpIPPort
	}
	for _, e := range old {
		if !e.enabled {
			continue
		}
		ep := b.AddEndpoint(e.ip, e.port, e.tref)
		ep.Weight = e.weight
		ep.Label = e.label
		if e.cookie == e.name {
			ep.CookieValue = ep.Name // cookie derived from the server name
		} else {
			ep.CookieValue = e.cookie
		}
	}
	return c02read(b)
}

func runC11(c *ctx) {
	r := gen.New(c.seed)
	pool := []string{"10.0.0.1:8080", "10.0.0.2:8080", "10.0.0.3:8080", "10.0.0.4:8080", "10.0.0.1:9090", "10.0.0.5:8080", "10.0.0.6:8080", "10.0.0.7:8080"}
	// exhaustive alignSlots arithmetic: slots-min-free 0..6 x slots-increment 0..8 x 0..9 real endpoints x 0..3 empty
	for mf := 0; mf <= 6; mf++ {
		for bs := 0; bs <= 8; bs++ {
			for n := 0; n <= 9; n++ {
				for e := 0; e <= 3; e++ {
					if !c.thorough() && (n+e+mf+bs)%3 != 0 {
						continue
					}
					f := c02flags{dyn: true, same: true, minfree: mf, block: bs, iw: 1}
					b := hatypes.CreateBackends(0).AcquireBackend("d", "gen", "1")
					b.Server.InitialWeight = 1
					for i := 0; i < n; i++ {
						b.AddEndpoint(fmt.Sprintf("10.0.1.%d", i+1), 8080, "")
					}
					for i := 0; i < e; i++ {
						b.AddEmptyEndpoint()
					}
					c11align(c, f, c02read(b))
				}
			}
		}
	}
	c.stat("align_exhaustive_grid", 1)
	// the auth proxy port allocator against Model/C11AuthP (c11authp.go)
	runC11authp(c, gen.New(c.seed^0xa07b))
	// C11_ONLY_WORLD=1 (debugging aid): only the alignSlots grid and the world-level mode
	if os.Getenv("C11_ONLY_WORLD") == "" {
		runC11multi(c, r.Fork())
	}
	// world level (c11world.go): no-op events and in-capacity endpoint changes through the REAL pipeline
	runC11world(c, gen.New(c.seed^0xc11f))
	if os.Getenv("C11_ONLY_WORLD") != "" {
		return
	}
	// histories: reload, spurious re-notifications, endpoint churn that fits
	nh := 1500
	if c.thorough() {
		nh = 60000
	}
	// corpus: reload, no-op re-notification, then one endpoint more (must stay dynamic)
	{
		f := c02flags{dyn: true, same: true, minfree: 2, block: 1, iw: 1}
		e := func(ip string) c02ep { return c02ep{"", ip, 8080, true, 1, "", "", "", 0} }
		c11hist(c, f, 0, [][]c02ep{{e("10.0.0.1"), e("10.0.0.2")}, {e("10.0.0.1"), e("10.0.0.2")}, {e("10.0.0.1"), e("10.0.0.2"), e("10.0.0.3")}})
		c11hist(c, f, 3, [][]c02ep{{e("10.0.0.1"), e("10.0.0.2")}, {e("10.0.0.1"), e("10.0.0.2")}, {e("10.0.0.1"), e("10.0.0.2"), e("10.0.0.3")}})
	}
	for i := 0; i < nh; i++ {
		f := c02flags{dyn: true, same: true, minfree: r.Range(0, 4), block: r.Range(0, 5), iw: 1}
		shards := gen.Pick(r, []int{0, 0, 1, 3})
		ns := r.Range(2, 6)
		var steps [][]c02ep
		cur := []string{}
		for k := 0; k < ns; k++ {
			switch {
			case k > 0 && r.Chance(2, 5):
				// spurious re-notification: same endpoints
			default:
				n := r.Range(0, 6)
				cur = cur[:0]
				seen := map[string]bool{}
				for j := 0; j < n; j++ {
					t := gen.Pick(r, pool)
					if !seen[t] {
						seen[t] = true
						cur = append(cur, t)
					}
				}
			}
			var st []c02ep
			for _, t := range cur {
				ipport := strings.Split(t, ":")
				port, _ := strconv.Atoi(ipport[1])
				st = append(st, c02ep{"", ipport[0], port, true, 1, "", "", "", 0})
			}
			steps = append(steps, st)
		}
		c11hist(c, f, shards, steps)
	}
	n := 3000
	if c.thorough() {
		n = 120000
	}
	for i := 0; i < n; i++ {
		f := c02flags{aff: r.Chance(1, 3), dyn: !r.Chance(1, 12), res: false, pres: r.Chance(1, 10), same: !r.Chance(1, 15),
			minfree: r.Range(0, 6), block: r.Range(0, 8), iw: gen.Pick(r, []int{1, 1, 100, 128})}
		naming := r.Intn(3)
		switch r.Intn(3) {
		case 0: // align after a reload-forcing change, all naming modes
			c11align(c, f, c02layout(r, f, naming, r.Range(0, 10), pool, false, r.Bool()))
		case 1: // endpoint churn that fits (or not) into the old slots
			old := c02layout(r, f, naming, r.Range(0, 10), pool, false, false)
			cur := c02layout(r, f, naming, r.Range(0, len(old)), pool, false, true)
			c11pair(c, "fits", f, old, cur)
		default: // spurious re-notification: same content rebuilt from scratch
			f.same = true
			// a static backend never receives empty slots (alignSlots skips it): its names are dense
			old := c02layout(r, f, naming, r.Range(0, 10), pool, false, !f.dyn)
			c11pair(c, "noop", f, old, c11rebuild(f, naming, old))
		}
	}
}

// ---------------------------------------------------------------------------------------------
// multi: whole histories over a STORE of several backends through the real haproxy.Instance
// (external mode, real templates, simulated master/admin sockets): HAProxyUpdate = Shrink, dynamic
// updater (checkBackendPair per re-created backend, alignSlots over every item when reloading),
// writeConfig (main file or the changed shard files), reload.  A step re-creates a subset of the
// backends the way the converters do on a partial sync (RemoveAll + AcquireBackend + endpoints without
// empty slots); the others are bystanders.  `other` = a change outside the backends in the same batch
// (a global setting), which needs a reload whatever the backends say.
// Observed per step: was `reload` sent to the master socket; per backend the commands sent, the
// endpoints held by the in-memory model and the server lines read back from the files on disk.

var c11names = []string{"a", "b", "c", "e"}

func c11id(i int) string { return "d_" + c11names[i] + "_8080" }

type c11step struct {
	other bool
	recr  []*[]c02ep // nil = bystander
}

type c11res struct {
	args, out string
	stats     []string
}

func c11stepText(st c11step) string {
	p := make([]string, len(st.recr))
	for i, r := range st.recr {
		if r == nil {
			p[i] = "."
		} else {
			p[i] = c02fmtEPs(*r)
		}
	}
	return b2s(st.other) + ":" + strings.Join(p, "&")
}

func c11parseMulti(cfgTxt, stepsTxt string) ([]c02flags, []c11step, bool) {
	var cfgs []c02flags
	for _, t := range strings.Split(cfgTxt, ";") {
		cfgs = append(cfgs, c02parseFlags(t))
	}
	var steps []c11step
	for _, t := range strings.Split(stepsTxt, "|") {
		p := strings.SplitN(t, ":", 2)
		if len(p) != 2 {
			return nil, nil, false
		}
		st := c11step{other: p[0] == "1"}
		for _, rt := range strings.Split(p[1], "&") {
			if rt == "." {
				st.recr = append(st.recr, nil)
			} else {
				eps := c02parseEPs(rt)
				st.recr = append(st.recr, &eps)
			}
		}
		if len(st.recr) != len(cfgs) {
			return nil, nil, false
		}
		steps = append(steps, st)
	}
	if len(cfgs) == 0 || len(cfgs) > len(c11names) || len(steps) == 0 {
		return nil, nil, false
	}
	for _, r := range steps[0].recr {
		if r == nil {
			return nil, nil, false // the first update creates every backend
		}
	}
	return cfgs, steps, true
}

// the shard the REAL store puts a backend in
func c11shardOf(shards int, id int) int {
	if shards == 0 {
		return 0
	}
	bs := hatypes.CreateBackends(shards)
	b := bs.AcquireBackend("d", c11names[id], "8080")
	for k := 0; k < shards; k++ {
		for _, x := range bs.BuildSortedShard(k) {
			if x == b {
				return k
			}
		}
	}
	return shards
}

// what a server line says: name~ip~port~E|D~weight
func c11fmt5(eps []c02ep) string {
	if len(eps) == 0 {
		return "-"
	}
	s := make([]string, len(eps))
	for i, e := range eps {
		en := "D"
		if e.enabled {
			en = "E"
		}
		s[i] = strings.Join([]string{q(e.name), q(e.ip), strconv.Itoa(e.port), en, strconv.Itoa(e.weight)}, "~")
	}
	return strings.Join(s, ",")
}

var c11reSetServer = regexp.MustCompile(`^set server (\S+)/`)

// server lines of the backends as HAProxy would load them: every *.cfg of the directory
func c11disk(cfgDir string, n int) []string {
	res := make([]string, n)
	cfg, err := world.LoadConfig(cfgDir)
	for i := 0; i < n; i++ {
		res[i] = "?"
		if err != nil {
			continue
		}
		sec := cfg.Backends[c11id(i)]
		if sec == nil {
			continue
		}
		var eps []c02ep
		for _, l := range sec.Lines {
			if len(l) < 3 || l[0] != "server" {
				continue
			}
			e := c02ep{name: l[1], enabled: true, weight: 1}
			if k := strings.LastIndex(l[2], ":"); k > 0 {
				e.ip = l[2][:k]
				e.port, _ = strconv.Atoi(l[2][k+1:])
			} else {
				e.ip = l[2]
			}
			for j := 3; j < len(l); j++ {
				switch l[j] {
				case "disabled":
					e.enabled = false
				case "weight":
					if j+1 < len(l) {
						e.weight, _ = strconv.Atoi(l[j+1])
					}
				}
			}
			eps = append(eps, e)
		}
		res[i] = c11fmt5(eps)
	}
	if err == nil && len(cfg.Dup) > 0 {
		for i := range res {
			res[i] = "?"
		}
	}
	return res
}

func c11multi(shards int, cfgs []c02flags, steps []c11step) c11res {
	n := len(cfgs)
	so := make([]string, n)
	for i := range so {
		so[i] = strconv.Itoa(c11shardOf(shards, i))
	}
	ct := make([]string, n)
	for i, f := range cfgs {
		f.same = true
		ct[i] = f.String()
	}
	stt := make([]string, len(steps))
	for i, st := range steps {
		stt[i] = c11stepText(st)
	}
	args := fmt.Sprintf("multi %d %s %s %s", shards, strings.Join(so, "."), strings.Join(ct, ";"), strings.Join(stt, "|"))
	var stats []string
	out := func() (res string) {
		dir, err := os.MkdirTemp("", "c11multi")
		if err != nil {
			panic(err)
		}
		defer os.RemoveAll(dir)
		defer func() {
			if r := recover(); r != nil {
				res = "PANIC"
				if os.Getenv("C11_LOG") != "" {
					fmt.Fprintf(os.Stderr, "C11 panic on %s: %v\n", args, r)
				}
			}
		}()
		cfgDir, mapsDir := filepath.Join(dir, "cfg"), filepath.Join(dir, "maps")
		for _, d := range []string{cfgDir, mapsDir, filepath.Join(cfgDir, "errorfiles"), filepath.Join(cfgDir, "lua"), filepath.Join(dir, "var/run/haproxy")} {
			if err := os.MkdirAll(d, 0755); err != nil {
				panic(err)
			}
		}
		sim := world.NewSim(cfgDir)
		inst := haproxy.CreateInstance(&hvutil.Logger{}, haproxy.InstanceOptions{
			RootFSPrefix:   "/repo/rootfs",
			LocalFSPrefix:  dir,
			BackendShards:  shards,
			HAProxyCfgDir:  cfgDir,
			HAProxyMapsDir: mapsDir,
			IsExternal:     true,
			MasterSocket:   filepath.Join(dir, "master.sock"),
			AdminSocket:    filepath.Join(dir, "admin.sock"),
			Metrics:        types_helper.NewMetricsMock(),
		})
		if err := inst.ParseTemplates(); err != nil {
			panic(err)
		}
		haproxy.VerifSetSockets(inst, sim.Master(), sim.Admin())
		cfg := inst.Config()
		cfg.Global().MatchOrder = hatypes.DefaultMatchOrder
		var outs []string
		for k, st := range steps {
			var dirty []string
			for i, r := range st.recr {
				if r != nil && k > 0 {
					dirty = append(dirty, c11id(i))
				}
			}
			cfg.Backends().RemoveAll(dirty)
			for i, r := range st.recr {
				if r == nil {
					continue
				}
				b := cfg.Backends().AcquireBackend("d", c11names[i], "8080")
				c02fill(b, cfgs[i], *r)
			}
			if st.other {
				cfg.Global().MaxConn = 2000 + k
			}
			reloads, ncmd := sim.ReloadTr, len(sim.Cmds)
			uerr := inst.HAProxyUpdate(utils.NewTimer(nil))
			// commands per backend, one exec = three `set server` commands
			percmd := make([][]string, n)
			cmds := sim.Cmds[ncmd:]
			for j := 0; j+2 < len(cmds) || j < len(cmds); j += 3 {
				hi := j + 3
				if hi > len(cmds) {
					hi = len(cmds)
				}
				who := -1
				if m := c11reSetServer.FindStringSubmatch(cmds[j]); m != nil {
					for i := 0; i < n; i++ {
						if m[1] == c11id(i) {
							who = i
						}
					}
				}
				if who < 0 {
					who = 0
					percmd[who] = append(percmd[who], "BAD:"+strings.ReplaceAll(cmds[j], " ", "_"))
					continue
				}
				percmd[who] = append(percmd[who], c02canonCall(cmds[j:hi]))
			}
			cs := make([]string, n)
			mem := make([]string, n)
			for i := 0; i < n; i++ {
				cs[i] = "-"
				if len(percmd[i]) > 0 {
					cs[i] = strings.Join(percmd[i], ",")
				}
				mem[i] = "?"
				if b := cfg.Backends().Items()[c11id(i)]; b != nil {
					mem[i] = c02fmtEPs(c02read(b))
				}
			}
			rl := b2s(sim.ReloadTr != reloads)
			if uerr != nil || sim.LoadErr != "" {
				rl = "E"
			}
			if k > 0 {
				bystander := false
				for i, r := range st.recr {
					bystander = bystander || (r == nil && cfgs[i].dyn)
				}
				switch {
				case rl == "1" && bystander:
					stats = append(stats, "multi_step_reload_with_dynamic_bystander")
				case rl == "1":
					stats = append(stats, "multi_step_reload_all_recreated")
				case len(cmds) > 0:
					stats = append(stats, "multi_step_dynamic_update")
				default:
					stats = append(stats, "multi_step_no_reload_no_command")
				}
			}
			outs = append(outs, rl+"/"+strings.Join(cs, "&")+"/"+strings.Join(mem, "&")+"/"+strings.Join(c11disk(cfgDir, n), "&"))
		}
		return strings.Join(outs, ";")
	}()
	return c11res{args, out, stats}
}

// c11jobs: cases are computed by a pool of workers and emitted in generation order
type c11jobs struct {
	c    *ctx
	jobs []func() c11res
}

func (j *c11jobs) add(f func() c11res) { j.jobs = append(j.jobs, f) }

func (j *c11jobs) flush(stat string) {
	workers := runtime.NumCPU()
	if workers > 8 {
		workers = 8
	}
	if v, err := strconv.Atoi(os.Getenv("C11_WORKERS")); err == nil && v > 0 {
		workers = v
	}
	res := make([]c11res, len(j.jobs))
	next := make(chan int)
	done := make(chan bool)
	for w := 0; w < workers; w++ {
		go func() {
			for i := range next {
				res[i] = j.jobs[i]()
			}
			done <- true
		}()
	}
	for i := range j.jobs {
		next <- i
	}
	close(next)
	for w := 0; w < workers; w++ {
		<-done
	}
	for _, r := range res {
		j.c.emit("C11", r.args, r.out)
		j.c.stat(stat, 1)
		for _, s := range r.stats {
			j.c.stat(s, 1)
		}
	}
	j.jobs = nil
}

// ---- generator of multi histories: per backend the DESIRED real endpoints; a step symbol changes them

type c11gen struct {
	cfgs []c02flags
	cur  [][]int // per backend: pool indices of the desired endpoints, in converter order
	wt   []map[int]int
	next []int
}

func newC11gen(cfgs []c02flags, initial []int) *c11gen {
	g := &c11gen{cfgs: cfgs}
	for i := range cfgs {
		var l []int
		for k := 0; k < initial[i]; k++ {
			l = append(l, k)
		}
		g.cur = append(g.cur, l)
		g.wt = append(g.wt, map[int]int{})
		g.next = append(g.next, initial[i])
	}
	return g
}

func (g *c11gen) eps(i int) *[]c02ep {
	res := []c02ep{}
	for _, k := range g.cur[i] {
		w := g.cfgs[i].iw
		if v, ok := g.wt[i][k]; ok {
			w = v
		}
		res = append(res, c02ep{"", fmt.Sprintf("10.0.%d.%d", i, k+1), 8080, true, w, "", "", "", 0})
	}
	return &res
}

// pick: which pool index a new endpoint gets (nil: the next unused one)
func (g *c11gen) apply(i int, sym byte, pick func(used []int) int) *[]c02ep {
	add := func() {
		k := g.next[i]
		if pick != nil {
			k = pick(g.cur[i])
		}
		if k >= g.next[i] {
			g.next[i] = k + 1
		}
		g.cur[i] = append(g.cur[i], k)
	}
	switch sym {
	case '.':
		return nil
	case '=':
	case '+':
		add()
	case '-':
		if len(g.cur[i]) > 0 {
			g.cur[i] = append([]int{}, g.cur[i][1:]...)
		}
	case 'r':
		if len(g.cur[i]) > 0 {
			g.cur[i] = append([]int{}, g.cur[i][1:]...)
		}
		add()
	case 'w':
		if len(g.cur[i]) > 0 {
			k := g.cur[i][0]
			if g.wt[i][k] == 2 {
				g.wt[i][k] = 1
			} else {
				g.wt[i][k] = 2
			}
		}
	case 's':
		l := append([]int{}, g.cur[i]...)
		for a, b := 0, len(l)-1; a < b; a, b = a+1, b-1 {
			l[a], l[b] = l[b], l[a]
		}
		g.cur[i] = l
	case 'O': // more new endpoints than a reload leaves free
		for k := 0; k < g.cfgs[i].minfree+g.cfgs[i].block+3; k++ {
			g.next[i] = c11max(g.next[i], 0)
			kk := g.next[i]
			g.next[i]++
			g.cur[i] = append(g.cur[i], kk)
		}
	case 'Z': // scale to zero
		g.cur[i] = nil
	}
	return g.eps(i)
}

func c11max(a, b int) int {
	if a > b {
		return a
	}
	return b
}

// one history from per-step symbols: syms[k] = one symbol per backend, others[k] = the batch also changes a global
func c11symHistory(j *c11jobs, shards int, cfgs []c02flags, initial []int, syms []string, others []bool) {
	g := newC11gen(cfgs, initial)
	st0 := c11step{}
	for i := range cfgs {
		st0.recr = append(st0.recr, g.eps(i))
	}
	steps := []c11step{st0}
	for k, sy := range syms {
		st := c11step{other: others[k]}
		for i := range cfgs {
			st.recr = append(st.recr, g.apply(i, sy[i], nil))
		}
		steps = append(steps, st)
	}
	j.add(func() c11res { return c11multi(shards, cfgs, steps) })
}

func c11dyn(minfree, block int) c02flags {
	return c02flags{dyn: true, same: true, minfree: minfree, block: block, iw: 1}
}

func runC11multi(c *ctx, r *gen.Rng) {
	j := &c11jobs{c: c}
	// corpus: the minimised history of seeded defect C11e (alignSlots walking ItemsAdd()): a is scaled up
	// dynamically, then a reload caused by something else must give a its free slots back, so that the
	// next scale-up of a stays dynamic - without shards, sharded, and with b's overflow as the reload cause
	for _, sh := range []int{0, 3} {
		cf := []c02flags{c11dyn(2, 1), c11dyn(2, 1)}
		// minimal: first update, a + 1 endpoint (dynamic), reload by a global change / by b overflowing:
		// the files must show a with 2 empty slots again
		c11symHistory(j, sh, cf, []int{1, 1}, []string{"+.", ".."}, []bool{false, true})
		c11symHistory(j, sh, cf, []int{1, 1}, []string{"+.", ".O"}, []bool{false, false})
		// ... and the consequence: the next scale-up of a stays dynamic
		c11symHistory(j, sh, cf, []int{1, 1}, []string{"+.", "..", "+."}, []bool{false, true, false})
		c11symHistory(j, sh, cf, []int{1, 1}, []string{"+.", ".O", "+."}, []bool{false, false, false})
		c11symHistory(j, sh, []c02flags{c11dyn(1, 4), {dyn: false, same: true, iw: 1}}, []int{2, 1}, []string{"r.", ".+", "+."}, []bool{false, false, false})
	}
	j.flush("multi_corpus")
	// exhaustive small scope: 2 backends, every sequence of steps over the alphabet, with and without shards
	type scope struct {
		depth int
		alpha string
		cfgs  [][]c02flags
	}
	static := c02flags{dyn: false, same: true, iw: 1}
	scopes := []scope{{2, ".=+-O", [][]c02flags{{c11dyn(2, 1), c11dyn(1, 2)}}}}
	if c.thorough() {
		scopes = []scope{
			{2, ".=+-rsOZ", [][]c02flags{{c11dyn(2, 1), c11dyn(1, 2)}}},
			{2, ".=+-O", [][]c02flags{{c11dyn(1, 3), static}}},
			{3, ".+O", [][]c02flags{{c11dyn(2, 1), c11dyn(0, 2)}}},
		}
	}
	for _, sc := range scopes {
		var stepSyms []string
		for _, a := range sc.alpha {
			for _, b := range sc.alpha {
				stepSyms = append(stepSyms, string(a)+string(b))
			}
		}
		nsym := len(stepSyms) * 2
		total := 1
		for d := 0; d < sc.depth; d++ {
			total *= nsym
		}
		for _, cf := range sc.cfgs {
			for _, sh := range []int{0, 3} {
				for x := 0; x < total; x++ {
					syms := make([]string, sc.depth)
					others := make([]bool, sc.depth)
					y := x
					for d := 0; d < sc.depth; d++ {
						k := y % nsym
						y /= nsym
						syms[d] = stepSyms[k/2]
						others[d] = k%2 == 1
					}
					c11symHistory(j, sh, cf, []int{1, 1}, syms, others)
				}
				j.flush(fmt.Sprintf("multi_exhaustive_depth%d", sc.depth))
			}
		}
	}
	// random: 2-3 backends, 2-6 steps, endpoints re-used from a small pool, random settings
	nr := 1500
	if c.thorough() {
		nr = 15000
	}
	for x := 0; x < nr; x++ {
		n := r.Range(2, 3)
		cfgs := make([]c02flags, n)
		initial := make([]int, n)
		for i := range cfgs {
			cfgs[i] = c02flags{dyn: !r.Chance(1, 8), same: true, minfree: r.Range(0, 4), block: r.Range(0, 4), iw: gen.Pick(r, []int{1, 1, 1, 100})}
			initial[i] = r.Range(0, 3)
		}
		shards := gen.Pick(r, []int{0, 0, 1, 3, 7})
		g := newC11gen(cfgs, initial)
		st0 := c11step{}
		for i := range cfgs {
			st0.recr = append(st0.recr, g.eps(i))
		}
		steps := []c11step{st0}
		ns := r.Range(2, 6)
		for k := 0; k < ns; k++ {
			st := c11step{other: r.Chance(1, 6)}
			for i := range cfgs {
				sym := byte('.')
				if r.Chance(1, 2) {
					sym = gen.Pick(r, []byte("==++++---rrwsOZ"))
				}
				st.recr = append(st.recr, g.apply(i, sym, func(used []int) int {
					// an address of the pool that is not in use (re-used addresses come back)
					var free []int
					for k := 0; k < 8; k++ {
						in := false
						for _, u := range used {
							in = in || u == k
						}
						if !in {
							free = append(free, k)
						}
					}
					if len(free) == 0 {
						return 8 + len(used)
					}
					return gen.Pick(r, free)
				}))
			}
			steps = append(steps, st)
		}
		j.add(func() c11res { return c11multi(shards, cfgs, steps) })
		if len(j.jobs) >= 2000 {
			j.flush("multi_random")
		}
	}
	j.flush("multi_random")
}
