package main

import (
	"fmt"
	"strconv"
	"strings"

	"github.com/jcmoraisjr/haproxy-ingress/pkg/haproxy"
	hatypes "github.com/jcmoraisjr/haproxy-ingress/pkg/haproxy/types"
	types_helper "github.com/jcmoraisjr/haproxy-ingress/pkg/types/helper_test"

	"hapverif/gen"
	"hapverif/hvutil"
)

func init() {
	props["C11"] = runC11
	replayers["C11"] = func(c *ctx, a []string) {
		switch {
		case len(a) == 3 && a[0] == "align":
			c11align(c, c02parseFlags(a[1]), c02parseEPs(a[2]))
		case len(a) == 4 && (a[0] == "fits" || a[0] == "noop"):
			c11pair(c, a[0], c02parseFlags(a[1]), c02parseEPs(a[2]), c02parseEPs(a[3]))
		case len(a) == 4 && a[0] == "hist":
			n, _ := strconv.Atoi(a[2])
			var steps [][]c02ep
			for _, st := range strings.Split(a[3], "|") {
				steps = append(steps, c02parseEPs(st))
			}
			c11hist(c, c02parseFlags(a[1]), n, steps)
		}
	}
}

// alignSlots through the real updater: no committed data => update() is false => alignSlots()
func c11align(c *ctx, f c02flags, eps []c02ep) {
	out := func() (res string) {
		defer func() {
			if r := recover(); r != nil {
				res = "PANIC"
			}
		}()
		inst := haproxy.CreateInstance(&hvutil.Logger{}, haproxy.InstanceOptions{Metrics: types_helper.NewMetricsMock()})
		b := inst.Config().Backends().AcquireBackend("d", "app", "8080")
		c02fill(b, f, eps)
		haproxy.VerifDynUpdate(inst, &c02sock{})
		return c02fmtEPs(c02read(b))
	}()
	c.emit("C11", "align "+f.String()+" "+c02fmtEPs(eps), out)
	c.stat("align", 1)
}

// an endpoint-only change / a no-op through the real updater, all commands answered OK
func c11pair(c *ctx, kind string, f c02flags, old, cur []c02ep) {
	out := func() (res string) {
		defer func() {
			if r := recover(); r != nil {
				res = "PANIC"
			}
		}()
		inst := haproxy.CreateInstance(&hvutil.Logger{}, haproxy.InstanceOptions{Metrics: types_helper.NewMetricsMock()})
		cfg := inst.Config()
		b := cfg.Backends().AcquireBackend("d", "app", "8080")
		c02fill(b, f, old)
		cfg.Commit()
		cfg.Backends().RemoveAll([]string{b.ID})
		b2 := cfg.Backends().AcquireBackend("d", "app", "8080")
		c02fill(b2, f, cur)
		if !f.same {
			b2.Server.MaxConn = 7
		}
		cfg.Shrink()
		sock := &c02sock{}
		updated, _ := haproxy.VerifDynUpdate(inst, sock)
		cmds := make([]string, len(sock.calls))
		for i, cl := range sock.calls {
			cmds[i] = c02canonCall(cl)
		}
		cs := "-"
		if len(cmds) > 0 {
			cs = strings.Join(cmds, ",")
		}
		_ = b2
		final := cfg.Backends().Items()["d_app_8080"]
		return b2s(updated) + " " + cs + " " + c02fmtEPs(c02read(final))
	}()
	c.emit("C11", kind+" "+f.String()+" "+c02fmtEPs(old)+" "+c02fmtEPs(cur), out)
	c.stat(kind, 1)
}

// c11hist: a history of re-notifications of ONE backend through the real Backends store (RemoveAll,
// AcquireBackend, fresh endpoints as a converter adds them), config.Shrink(), the real dynamic updater
// and config.Commit() - the sequence HAProxyUpdate runs. `steps[i]` are the real endpoints of sync i.
// Output per step: updated flag, commands, resulting slots of the backend in the model store.
func c11hist(c *ctx, f c02flags, shards int, steps [][]c02ep) {
	out := func() (res string) {
		defer func() {
			if r := recover(); r != nil {
				res = "PANIC"
			}
		}()
		inst := haproxy.CreateInstance(&hvutil.Logger{}, haproxy.InstanceOptions{Metrics: types_helper.NewMetricsMock(), BackendShards: shards})
		cfg := inst.Config()
		var outs []string
		for i, st := range steps {
			if i > 0 {
				cfg.Backends().RemoveAll([]string{"d_app_8080"})
			}
			b := cfg.Backends().AcquireBackend("d", "app", "8080")
			c02fill(b, f, st)
			cfg.Shrink()
			sock := &c02sock{}
			updated, _ := haproxy.VerifDynUpdate(inst, sock)
			cmds := make([]string, len(sock.calls))
			for j, cl := range sock.calls {
				cmds[j] = c02canonCall(cl)
			}
			cs := "-"
			if len(cmds) > 0 {
				cs = strings.Join(cmds, ",")
			}
			final := cfg.Backends().Items()["d_app_8080"]
			outs = append(outs, b2s(updated)+"/"+cs+"/"+c02fmtEPs(c02read(final)))
			cfg.Commit()
		}
		return strings.Join(outs, ";")
	}()
	var sts []string
	for _, st := range steps {
		sts = append(sts, c02fmtEPs(st))
	}
	c.emit("C11", fmt.Sprintf("hist %s %d %s", f.String(), shards, strings.Join(sts, "|")), out)
	c.stat("hist", 1)
}

// rebuild the real endpoints of a layout the way a converter does on a re-sync: fresh names
func c11rebuild(f c02flags, naming int, old []c02ep) []c02ep {
	b := hatypes.CreateBackends(0).AcquireBackend("d", "gen", "1")
	b.Server.InitialWeight = f.iw
	switch naming {
	case 1:
		b.EpNaming = hatypes.EpTargetRef
	case 2:
		b.EpNaming = hatypes.EpIPPort
	}
	for _, e := range old {
		if !e.enabled {
			continue
		}
		ep := b.AddEndpoint(e.ip, e.port, e.tref)
		ep.Weight = e.weight
		ep.Label = e.label
		if e.cookie == e.name {
			ep.CookieValue = ep.Name // cookie derived from the server name
		} else {
			ep.CookieValue = e.cookie
		}
	}
	return c02read(b)
}

func runC11(c *ctx) {
	r := gen.New(c.seed)
	pool := []string{"10.0.0.1:8080", "10.0.0.2:8080", "10.0.0.3:8080", "10.0.0.4:8080", "10.0.0.1:9090", "10.0.0.5:8080", "10.0.0.6:8080", "10.0.0.7:8080"}
	// exhaustive alignSlots arithmetic: slots-min-free 0..6 x slots-increment 0..8 x 0..9 real endpoints x 0..3 empty
	for mf := 0; mf <= 6; mf++ {
		for bs := 0; bs <= 8; bs++ {
			for n := 0; n <= 9; n++ {
				for e := 0; e <= 3; e++ {
					if !c.thorough() && (n+e+mf+bs)%3 != 0 {
						continue
					}
					f := c02flags{dyn: true, same: true, minfree: mf, block: bs, iw: 1}
					b := hatypes.CreateBackends(0).AcquireBackend("d", "gen", "1")
					b.Server.InitialWeight = 1
					for i := 0; i < n; i++ {
						b.AddEndpoint(fmt.Sprintf("10.0.1.%d", i+1), 8080, "")
					}
					for i := 0; i < e; i++ {
						b.AddEmptyEndpoint()
					}
					c11align(c, f, c02read(b))
				}
			}
		}
	}
	c.stat("align_exhaustive_grid", 1)
	// histories: reload, spurious re-notifications, endpoint churn that fits
	nh := 1500
	if c.thorough() {
		nh = 60000
	}
	// corpus: reload, no-op re-notification, then one endpoint more (must stay dynamic)
	{
		f := c02flags{dyn: true, same: true, minfree: 2, block: 1, iw: 1}
		e := func(ip string) c02ep { return c02ep{"", ip, 8080, true, 1, "", "", "", 0} }
		c11hist(c, f, 0, [][]c02ep{{e("10.0.0.1"), e("10.0.0.2")}, {e("10.0.0.1"), e("10.0.0.2")}, {e("10.0.0.1"), e("10.0.0.2"), e("10.0.0.3")}})
		c11hist(c, f, 3, [][]c02ep{{e("10.0.0.1"), e("10.0.0.2")}, {e("10.0.0.1"), e("10.0.0.2")}, {e("10.0.0.1"), e("10.0.0.2"), e("10.0.0.3")}})
	}
	for i := 0; i < nh; i++ {
		f := c02flags{dyn: true, same: true, minfree: r.Range(0, 4), block: r.Range(0, 5), iw: 1}
		shards := gen.Pick(r, []int{0, 0, 1, 3})
		ns := r.Range(2, 6)
		var steps [][]c02ep
		cur := []string{}
		for k := 0; k < ns; k++ {
			switch {
			case k > 0 && r.Chance(2, 5):
				// spurious re-notification: same endpoints
			default:
				n := r.Range(0, 6)
				cur = cur[:0]
				seen := map[string]bool{}
				for j := 0; j < n; j++ {
					t := gen.Pick(r, pool)
					if !seen[t] {
						seen[t] = true
						cur = append(cur, t)
					}
				}
			}
			var st []c02ep
			for _, t := range cur {
				ipport := strings.Split(t, ":")
				port, _ := strconv.Atoi(ipport[1])
				st = append(st, c02ep{"", ipport[0], port, true, 1, "", "", "", 0})
			}
			steps = append(steps, st)
		}
		c11hist(c, f, shards, steps)
	}
	n := 3000
	if c.thorough() {
		n = 120000
	}
	for i := 0; i < n; i++ {
		f := c02flags{aff: r.Chance(1, 3), dyn: !r.Chance(1, 12), res: false, pres: r.Chance(1, 10), same: !r.Chance(1, 15),
			minfree: r.Range(0, 6), block: r.Range(0, 8), iw: gen.Pick(r, []int{1, 1, 100, 128})}
		naming := r.Intn(3)
		switch r.Intn(3) {
		case 0: // align after a reload-forcing change, all naming modes
			c11align(c, f, c02layout(r, f, naming, r.Range(0, 10), pool, false, r.Bool()))
		case 1: // endpoint churn that fits (or not) into the old slots
			old := c02layout(r, f, naming, r.Range(0, 10), pool, false, false)
			cur := c02layout(r, f, naming, r.Range(0, len(old)), pool, false, true)
			c11pair(c, "fits", f, old, cur)
		default: // spurious re-notification: same content rebuilt from scratch
			f.same = true
			// a static backend never receives empty slots (alignSlots skips it): its names are dense
			old := c02layout(r, f, naming, r.Range(0, 10), pool, false, !f.dyn)
			c11pair(c, "noop", f, old, c11rebuild(f, naming, old))
		}
	}
}
