package main

// C15 — the certificate the RUNNING HAProxy presents.
//
//   C15 run <ops with sync> => <step>;<step>;... <sni>=<path>|<running>|<disk>,...
//
// One line per reconciliation of a history (the prefix that ends with that `sync`, same long-lived pipeline as the
// `hist` / `trk` lines).
//
// <step> (one per reconciliation so far) = `R` (HAProxy was reloaded: it read the crt-list and every certificate file
// again) or `D` (no reload), followed by `:<path>*<n>+...` = the certificate FILES named by the `set ssl cert`
// commands of that reconciliation with their multiplicities (sorted; the order of the commands follows Go's map
// iteration). <path> = `ns/name` of the Secret whose file it is, `default`, `?<file>` otherwise.
//
// Per SNI name: <path> = the file the crt-list LOADED AT THE LAST RELOAD selects (HAProxy does not read the list
// again before the next reload), <running> = the certificate the running process holds in memory for that file
// (loaded at the last reload, then replaced by every committed `set ssl cert <file>`) = what a client is served,
// <disk> = the certificate of the file the crt-list on disk selects now (what a reload would serve).
// Certificates are named by CONTENT: `default`, `ns/name@version`, `shared@version` for the content that several
// Secrets hold (world.SharedVersion: one certificate replicated into several Secrets), `-` not loaded / no file,
// `?hash` unknown.

import (
	"fmt"
	"os"
	"path/filepath"
	"sort"
	"strings"

	"hapverif/gen"
	"hapverif/world"
)

// runObs: what the harness remembers of the running HAProxy between two reconciliations
type runObs struct {
	loaded  []world.CrtEntry // crt-list as it was on disk at the last reload
	reloads int
	ncmds   int
	steps   []string
}

// c15diskList: the crt-list named by the https bind line of the haproxy.cfg on disk (parsed once per reconciliation)
var c15listCache struct {
	p    *world.Pipeline
	upd  int
	list []world.CrtEntry
	err  string
}

func c15diskList(p *world.Pipeline) ([]world.CrtEntry, string) {
	k := &c15listCache
	if k.p == p && k.upd == p.Updates {
		return k.list, k.err
	}
	k.p, k.upd, k.list, k.err = p, p.Updates, nil, "ERR:no-crt-list"
	cfg, err := world.LoadConfig(p.CfgDir)
	if err != nil {
		k.err = "ERR:" + sanitize(err.Error())
		return k.list, k.err
	}
	for _, fe := range cfg.Frontends {
		for _, l := range fe.Lines {
			if l[0] != "bind" {
				continue
			}
			for i := 1; i+1 < len(l); i++ {
				if l[i] == "crt-list" && strings.Contains(l[i+1], "_front_bind_crt") {
					k.list, k.err = world.ReadCrtList(l[i+1]), ""
				}
			}
		}
	}
	return k.list, k.err
}

// c15pathName: certificate file -> `ns/name` of the Secret it belongs to
func c15pathName(file string, secrets []string) string {
	base := filepath.Base(file)
	if base == "_fake-default.pem" || base == "_fake.pem" {
		return "default"
	}
	for _, k := range secrets {
		if i := strings.Index(k, "/"); i > 0 && base == k[:i]+"_"+k[i+1:]+".pem" {
			return k
		}
	}
	return "?" + sanitize(base)
}

// observe is called after every successful reconciliation
func (o *runObs) observe(p *world.Pipeline, secrets []string) {
	mode := "D"
	if p.Sim.Reloads > o.reloads {
		mode = "R"
		// the reload is the last thing a reconciliation does: the list on disk now is the list HAProxy read
		o.loaded, _ = c15diskList(p)
	}
	o.reloads = p.Sim.Reloads
	pushes := map[string]int{}
	for _, cmd := range p.Sim.Cmds[o.ncmds:] {
		if strings.HasPrefix(cmd, "set ssl cert ") {
			if f := strings.Fields(cmd); len(f) >= 4 {
				pushes[c15pathName(f[3], secrets)]++
			}
		}
	}
	o.ncmds = len(p.Sim.Cmds)
	if len(pushes) > 0 {
		var l []string
		for _, k := range world.SortedKeys(pushes) {
			l = append(l, fmt.Sprintf("%s*%d", k, pushes[k]))
		}
		mode += ":" + strings.Join(l, "+")
	}
	o.steps = append(o.steps, mode)
}

func (o *runObs) projection(p *world.Pipeline, snis, secrets []string) string {
	disk, errText := c15diskList(p)
	if errText != "" {
		return errText
	}
	var out []string
	for _, sni := range snis {
		lf := world.CrtFor(o.loaded, sni)
		run := "-"
		if c, ok := p.Sim.Certs[lf]; ok {
			run = crtName(c)
		}
		dsk := "-"
		if b, err := os.ReadFile(world.CrtFor(disk, sni)); err == nil {
			dsk = crtName(string(b))
		}
		out = append(out, sni+"="+c15pathName(lf, secrets)+"|"+run+"|"+dsk)
	}
	sort.Strings(out)
	tab := "-"
	if len(out) > 0 {
		tab = strings.Join(out, ",")
	}
	return strings.Join(o.steps, ";") + " " + tab
}

// ---- directed histories: ONE certificate replicated into several Secrets (a wildcard certificate copied to every
// namespace), each copy used by its own hosts, rotated together / one by one / back to an earlier version, mixed
// with unrelated changes that do or do not need a reload.

type replShape struct {
	k       int // copies: d/tls1, e/tls1, d/tls2 (2..3)
	readers int // 0 one host per copy; 1 the first copy has a second reader (another ingress, another host); 2 wildcard host on the first copy, an exact host below it on the second
	plan    int // rotation plan, see replPlans
	mix     int // besides the rotation, in the batch of step `mixAt`: 0 nothing; 1 an Endpoints change (applied at run time); 2 a new ingress with a new host (reload); 3 an unrelated Secret with content of its own is rotated too; 4 a reader of a copy gets another path (reload)
	mixAt   int
	start   int // 0 all copies equal from the beginning; 1 the last copy starts with content of its own and joins at its first rotation; 2 the copies arrive in a partial sync of their own, after the first reconciliation
}

// a plan = batches of (copy, version offset): copy -1 = every copy
type replMove struct{ copy, ver int }

var replPlans = [][][]replMove{
	{{{-1, 1}}},                             // 0 together
	{{{0, 1}}, {{1, 1}}, {{2, 1}}},          // 1 one by one
	{{{-1, 1}}, {{-1, 0}}},                  // 2 together, then together back to the first version
	{{{0, 1}}, {{1, 1}, {2, 1}}},            // 3 the first alone, then the others together
	{{{-1, 1}}, {{-1, 2}}},                  // 4 together, twice
	{{{0, 1}}, {{1, 1}, {2, 1}, {0, 2}}},    // 5 the others catch up while the first moves on: two contents in one batch
	{{{-1, 1}}, {{0, 0}}, {{1, 0}, {2, 0}}}, // 6 together, then back one by one
	{{{1, 1}, {0, 1}}},                      // 7 together, events in the opposite order
}
var replPlanNames = []string{"together", "one_by_one", "together_then_back", "first_then_rest", "together_twice", "catch_up_while_first_moves_on", "together_then_back_one_by_one", "together_reverse_event_order"}
var replMixNames = []string{"alone", "with_endpoints_change", "with_new_host", "with_unrelated_secret_rotation", "with_reader_edit"}
var replReaderNames = []string{"one_host_per_copy", "second_reader_on_first_copy", "wildcard_and_host_below"}
var replStartNames = []string{"equal_from_start", "last_copy_joins_later", "copies_arrive_in_partial_sync"}

const replDNS = "w.local"

func (sh replShape) ops() []string {
	copies := []string{"d/tls1", "e/tls1", "d/tls2"}[:sh.k]
	hosts := []string{"a.local", "c.local", "b.local"}
	if sh.readers == 2 {
		hosts = []string{"*.w.local", "x.w.local", "b.local"}
	}
	ingOf := func(i int, path string) string {
		ns, sec := splitNsName(copies[i])
		rules := fmt.Sprintf("%s>/:Prefix:app:80", hosts[i])
		if path != "" {
			rules = fmt.Sprintf("%s>/:Prefix:app:80+%s:Prefix:app:80", hosts[i], path)
		}
		return fmt.Sprintf("%s/r%d@%d!haproxy,-!-!%s!%s>%s!-", ns, i+1, i+1, rules, hosts[i], sec)
	}
	var base, secs, ings []string
	base = append(base, "svc+d/app!http:80:8080!-", "ep~d/app!10.0.1.1:r:app-1", "svc+e/app!http:80:8080!-", "ep~e/app!10.1.1.1:r:app-1")
	v0 := world.SharedVersion
	for i, c := range copies {
		if sh.start == 1 && i == sh.k-1 {
			secs = append(secs, fmt.Sprintf("sec+%s!tls!1!%s", c, replDNS))
		} else {
			secs = append(secs, fmt.Sprintf("sec+%s!tls!%d!%s", c, v0, replDNS))
		}
		ings = append(ings, "ing+"+ingOf(i, ""))
	}
	if sh.readers == 1 {
		ings = append(ings, "ing+d/r7@7!haproxy,-!-!x.local>/:Prefix:app:80!x.local>tls1!-")
	}
	if sh.mix == 3 {
		secs = append(secs, "sec+d/tls9!tls!1!o.local")
		ings = append(ings, "ing+d/r8@8!haproxy,-!-!o.local>/:Prefix:app:80!o.local>tls9!-")
	}
	var ops []string
	ops = append(ops, base...)
	if sh.start == 2 {
		ops = append(ops, ings...)
		ops = append(ops, "sync")
		ops = append(ops, secs...)
		ops = append(ops, "sync")
	} else {
		ops = append(ops, secs...)
		ops = append(ops, ings...)
		ops = append(ops, "sync")
	}
	own := 1
	for bi, batch := range replPlans[sh.plan] {
		var b []string
		for _, m := range batch {
			for i, c := range copies {
				if m.copy == i || m.copy == -1 {
					b = append(b, fmt.Sprintf("sec~%s!tls!%d!%s", c, v0+m.ver, replDNS))
				}
			}
		}
		if len(b) == 0 {
			continue
		}
		if bi == sh.mixAt {
			switch sh.mix {
			case 1:
				b = append(b, "ep~d/app!10.0.1.9:r:app-9")
			case 2:
				b = append(b, "ing+e/r9@9!haproxy,-!-!n.local>/:Prefix:app:80!-!-")
			case 3:
				own++
				b = append([]string{fmt.Sprintf("sec~d/tls9!tls!%d!o.local", own)}, b...)
			case 4:
				b = append(b, "ing~"+ingOf(sh.k-1, "/p"))
			}
		}
		ops = append(ops, b...)
		ops = append(ops, "sync")
	}
	return ops
}

func splitNsName(k string) (string, string) {
	i := strings.Index(k, "/")
	return k[:i], k[i+1:]
}

func c15repl(c *ctx, sh replShape) {
	c15hist(c, sh.ops())
	c.stat("replicated_histories", 1)
	c.stat(fmt.Sprintf("replicated_copies_%d", sh.k), 1)
	c.stat("replicated_plan_"+replPlanNames[sh.plan], 1)
	c.stat("replicated_mix_"+replMixNames[sh.mix], 1)
	c.stat("replicated_readers_"+replReaderNames[sh.readers], 1)
	c.stat("replicated_start_"+replStartNames[sh.start], 1)
}

// exhaustive small scope of the directed histories (quick: a slice of it that keeps every plan x mix x copies)
func c15replAll(c *ctx) {
	for k := 2; k <= 3; k++ {
		for plan := range replPlans {
			for mix := 0; mix < 5; mix++ {
				for readers := 0; readers < 3; readers++ {
					for start := 0; start < 3; start++ {
						for mixAt := 0; mixAt < 2; mixAt++ {
							if mixAt >= len(replPlans[plan]) || (mix == 0 && mixAt > 0) {
								continue
							}
							// quick: every plan x mix x copies in the plain shape, one in nine of the other shapes
							if !c.thorough() && (readers+start+mixAt != 0) && (plan*7+mix*5+k*3+readers*11+start*13+mixAt)%9 != 0 {
								continue
							}
							c15repl(c, replShape{k: k, readers: readers, plan: plan, mix: mix, mixAt: mixAt, start: start})
						}
					}
				}
			}
		}
	}
}

// random histories over replicated Secrets: 2..3 copies in one or two namespaces, any of them may leave the group
// (content of its own), come back, be deleted / re-created; every batch moves a random subset of the copies to a
// random one of a few versions (so that rotations back to an earlier version and partial rotations are frequent),
// and may carry an unrelated change.
func c15replRandom(c *ctx, r *gen.Rng) {
	k := r.Range(2, 3)
	pool := []string{"d/tls1", "e/tls1", "d/tls2", "e/tls2"}
	gen.Shuffle(r, pool)
	copies := pool[:k]
	hostPool := []string{"a.local", "b.local", "c.local", "x.w.local", "*.w.local", "y.w.local"}
	gen.Shuffle(r, hostPool)
	ops := []string{"svc+d/app!http:80:8080!-", "ep~d/app!10.0.1.1:r:app-1", "svc+e/app!http:80:8080!-", "ep~e/app!10.1.1.1:r:app-1"}
	ver := map[string]int{}
	exists := map[string]bool{}
	for _, cp := range copies {
		ver[cp] = world.SharedVersion + r.Intn(2)
		if r.Chance(1, 6) {
			ver[cp] = 1
		}
		ops = append(ops, fmt.Sprintf("sec+%s!tls!%d!%s", cp, ver[cp], replDNS))
		exists[cp] = true
	}
	hi := 0
	nIng := r.Range(k, k+2)
	for i := 0; i < nIng; i++ {
		cp := copies[i%k]
		if i >= k {
			cp = gen.Pick(r, copies)
		}
		ns, sec := splitNsName(cp)
		h := hostPool[hi%len(hostPool)]
		hi++
		ops = append(ops, fmt.Sprintf("ing+%s/r%d@%d!haproxy,-!-!%s>/:Prefix:app:80!%s>%s!-", ns, i+1, i+1, h, h, sec))
	}
	ops = append(ops, "sync")
	rounds := r.Range(1, 3)
	epn := 1
	for s := 0; s < rounds; s++ {
		var b []string
		target := world.SharedVersion + r.Intn(3)
		moved := 0
		order := append([]string(nil), copies...)
		gen.Shuffle(r, order)
		for _, cp := range order {
			if !r.Chance(3, 4) {
				continue
			}
			v := target
			switch r.Intn(12) {
			case 0:
				v = world.SharedVersion + r.Intn(3) // another shared content in the same batch
			case 1:
				v = 1 + r.Intn(2) // leaves the group: content of its own
			case 2:
				if exists[cp] {
					b = append(b, "sec-"+cp)
					exists[cp] = false
					continue
				}
			}
			act := "~"
			if !exists[cp] {
				act = "+"
			}
			exists[cp] = true
			ver[cp] = v
			b = append(b, fmt.Sprintf("sec%s%s!tls!%d!%s", act, cp, v, replDNS))
			moved++
		}
		switch r.Intn(6) {
		case 0:
			epn++
			b = append(b, fmt.Sprintf("ep~d/app!10.0.1.%d:r:app-%d", epn, epn))
		case 1:
			b = append(b, fmt.Sprintf("ing+e/n%d@9!haproxy,-!-!n%d.local>/:Prefix:app:80!-!-", s, s))
		case 2:
			// one more reader of a copy arrives with the rotation
			cp := gen.Pick(r, copies)
			ns, sec := splitNsName(cp)
			h := hostPool[hi%len(hostPool)]
			hi++
			b = append(b, fmt.Sprintf("ing+%s/m%d@8!haproxy,-!-!%s>/:Prefix:app:80!%s>%s!-", ns, s, h, h, sec))
		}
		if len(b) == 0 {
			continue
		}
		ops = append(ops, b...)
		ops = append(ops, "sync")
	}
	c15hist(c, ops)
	c.stat("replicated_random_histories", 1)
}
