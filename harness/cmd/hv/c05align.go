package main

// C05, mode al — files on disk hold exactly the current model, with the DYNAMIC UPDATER in the loop.
//
// A real haproxy.Instance (external mode, temp dir, simulated sockets; the C12 instance fixture) holds 2-3
// backends of the C05 name pool with dynamic scaling on, each with its own `slots-min-free` (0,1,2) and
// `backend-server-slots-increment` (1,2).  A history is a sequence of update batches at the level of the
// declared state:
//
//   ops:  eX.C.O.R  backend X declared (again): `balance cfg<C>`, the R endpoints 10.0.X.(O+1)..10.0.X.(O+R):8080
//                   (a converter never declares an empty slot)
//         tX        backend X notified again, unchanged (spurious re-notification: Shrink drops the pair)
//         a suffix `.n` on an e / t op is written by the harness, not chosen: see namesDiffer
//         dX        backend X deleted
//         o         the batch also changes a global setting (maxconn): a reload whatever the backends say
//         F         full resync: config.Clear(), every live backend is declared again
//         u         the recorded batch is applied the way converters.Sync does (one RemoveAll of the touched
//                   names, then every touched live backend is acquired once), then HAProxyUpdate
//
// What the updates do (not chosen by the harness): a scale-up that fits in the free slots is applied with
// `set server` commands and NO reload (the free slot is consumed, in memory and in the rewritten file); a
// scale-down disables a server; a change of C, a new / deleted backend, `o`, `F` or a scale-up that does not fit
// reload, and a reload runs alignSlots over EVERY backend of Items(): a backend the batch did not touch (a
// bystander, possibly in a shard no changed backend lives in) is grown in memory and its shard is flagged by hand.
//
// After EVERY update (all of them return nil here):
//   - every *.cfg of the configuration directory is decoded (backend sections of the pool: balance line,
//     enabled / disabled server lines) and printed by shard index next to the backends held in memory;
//   - every *.cfg is compared, byte for byte (scratch directory written as $D), with what a FRESH instance writes
//     when it is handed copies of the same items, endpoint by endpoint, empty slots included (the "twin");
//   - the server lines of every backend (name, address, disabled) are compared with its endpoints in memory.
//
//   case line:   C05 al <n> <shard of name 0>.<..> <minfree:increment of name 0>.<..> <op>,<op>,...
//   impl output: one observation per u:  r<0|1>|<items>|<disk>|<diff>   (see Drv/C05Align.lean)

import (
	"fmt"
	"os"
	"path/filepath"
	"sort"
	"strconv"
	"strings"
	"sync"

	hatypes "github.com/jcmoraisjr/haproxy-ingress/pkg/haproxy/types"
	"github.com/jcmoraisjr/haproxy-ingress/pkg/utils"

	"hapverif/gen"
)

type c05alDecl struct{ conf, off, used int }

type c05al struct {
	e       *c12inst
	p       int
	names   []int
	mf, blk []int
	live    map[int]c05alDecl
	touched map[int]bool
	other   bool
	full    bool
	glob    int
}

func c05alSetGlobal(e *c12inst, glob int) {
	g := e.inst.Config().Global()
	g.MatchOrder = hatypes.DefaultMatchOrder
	if glob > 0 {
		g.MaxConn = 2000 + glob
	}
}

func (w *c05al) fill(b *hatypes.Backend, x int, g c05alDecl) {
	b.BalanceAlgorithm = fmt.Sprintf("cfg%d", g.conf)
	b.Dynamic.DynUpdate = true
	b.Dynamic.MinFreeSlots = w.mf[x]
	b.Dynamic.BlockSize = w.blk[x]
	for i := 0; i < g.used; i++ {
		b.AcquireEndpoint(fmt.Sprintf("10.0.%d.%d", x, g.off+1+i), 8080, "")
	}
}

func (w *c05al) declare(x int) {
	ns, name, port := c05name(w.names[x])
	w.fill(w.e.inst.Config().Backends().AcquireBackend(ns, name, port), x, w.live[x])
}

// namesDiffer: backend x is about to be declared again with the content its stored object already has, and
// Backends.Shrink will NOT drop the pair: backendsMatch compares the endpoints with their server names, and a
// slot handed out by the dynamic updater keeps its name (srv003 may hold the second address), which a fresh
// declaration does not reproduce.  The abstract content (which addresses, how many slots) cannot tell; the
// case line marks the op (`.n`) and the Lean driver declares it as a pair that does not match.
// Asked to the real Shrink, on replicas of the two objects in a scratch store.
func (w *c05al) namesDiffer(x int) bool {
	g, ok := w.live[x]
	old := w.e.inst.Config().Backends().Items()[c05id(w.names[x])]
	if !ok || old == nil {
		return false
	}
	conf, _ := strconv.Atoi(strings.TrimPrefix(old.BalanceAlgorithm, "cfg"))
	var octets []int
	for _, ep := range old.Endpoints {
		if !ep.IsEmpty() {
			octets = append(octets, c05alOctet(ep.IP))
		}
	}
	want := g
	if want.used == 0 {
		want.off = 0
	}
	if c05alCfg(conf, octets) != 64*want.conf+16*want.off+want.used {
		return false
	}
	bs := hatypes.CreateBackends(0)
	o := bs.AcquireBackend(old.Namespace, old.Name, old.Port)
	o.BalanceAlgorithm = old.BalanceAlgorithm
	o.Dynamic = old.Dynamic
	for _, ep := range old.Endpoints {
		cp := *ep
		o.Endpoints = append(o.Endpoints, &cp)
	}
	bs.Commit()
	bs.RemoveAll([]string{old.ID})
	w.fill(bs.AcquireBackend(old.Namespace, old.Name, old.Port), x, g)
	bs.Shrink()
	return len(bs.ItemsAdd()) > 0
}

func (w *c05al) applyBatch() {
	cfg := w.e.inst.Config()
	var xs []int
	if w.full {
		cfg.Clear()
		for x := 0; x < w.p; x++ {
			xs = append(xs, x)
		}
	} else {
		var bs []string
		for x := 0; x < w.p; x++ {
			if w.touched[x] {
				xs = append(xs, x)
				bs = append(bs, c05id(w.names[x]))
			}
		}
		cfg.Backends().RemoveAll(bs)
	}
	if w.other {
		w.glob++
	}
	// a full resync parses the same global configuration again
	c05alSetGlobal(w.e, w.glob)
	for _, x := range xs {
		if _, ok := w.live[x]; ok {
			w.declare(x)
		}
	}
}

// ---- decoding

// content of a backend from its configuration id and its enabled addresses 10.0.X.K
func c05alCfg(conf int, octets []int) int {
	if len(octets) == 0 {
		return 64 * conf
	}
	lo := octets[0]
	for _, o := range octets {
		if o < lo {
			lo = o
		}
	}
	return 64*conf + 16*(lo-1) + len(octets)
}

func c05alOctet(ip string) int {
	f := strings.Split(ip, ".")
	if len(f) != 4 {
		return 99
	}
	v, err := strconv.Atoi(f[3])
	if err != nil {
		return 99
	}
	return v
}

type c05alSrv struct {
	ents []c05ent            // backends of the pool found in the file, in file order
	srv  map[int][]string    // per backend: "name addr disabled?" of every server line, in file order
}

// c05alParse decodes the backend sections of one configuration file
func c05alParse(text string, idx map[string]int) c05alSrv {
	res := c05alSrv{srv: map[int][]string{}}
	cur := -2 // -2: not in a pool backend
	conf := 0
	var octets []int
	free := 0
	var lines []string
	flush := func() {
		if cur != -2 {
			res.ents = append(res.ents, c05ent{cur, c05alCfg(conf, octets), free})
			res.srv[cur] = append(res.srv[cur], lines...)
		}
		cur, conf, octets, free, lines = -2, 0, nil, 0, nil
	}
	for _, line := range strings.Split(text, "\n") {
		t := strings.TrimSpace(line)
		if t == "" || strings.HasPrefix(t, "#") {
			continue
		}
		if !strings.HasPrefix(line, " ") && !strings.HasPrefix(line, "\t") {
			flush()
			if m := c05reBackend.FindStringSubmatch(line); m != nil {
				if i, ok := idx[m[1]]; ok {
					cur = i
				} else if strings.HasPrefix(m[1], "d_") {
					cur = 9999
				}
			}
			continue
		}
		if cur == -2 {
			continue
		}
		f := strings.Fields(t)
		switch {
		case strings.HasPrefix(t, "balance cfg"):
			conf, _ = strconv.Atoi(strings.TrimPrefix(t, "balance cfg"))
		case f[0] == "server" && len(f) >= 3:
			dis := false
			for _, x := range f[3:] {
				dis = dis || x == "disabled"
			}
			addr := f[2]
			if strings.HasPrefix(addr, "127.0.0.1:") {
				free++
			} else {
				ip := addr
				if k := strings.LastIndex(addr, ":"); k > 0 {
					ip = addr[:k]
				}
				octets = append(octets, c05alOctet(ip))
			}
			lines = append(lines, fmt.Sprintf("%s %s %v", f[1], addr, dis))
		}
	}
	flush()
	return res
}

func c05alFileIndex(n int, base string) int {
	if base == "haproxy.cfg" {
		if n > 0 {
			return n // a pool backend in the main file while sharding is on is reported as file n
		}
		return 0
	}
	if m := c05reShardFile.FindStringSubmatch(base); m != nil {
		k, _ := strconv.Atoi(m[1])
		return k
	}
	return 9000 // unexpected cfg file: haproxy -f <dir> would load it
}

// every *.cfg of the configuration directory, scratch directory written as $D
func c05alFiles(e *c12inst) map[string]string {
	res := map[string]string{}
	files, _ := filepath.Glob(filepath.Join(e.cfgDir, "*.cfg"))
	for _, f := range files {
		data, err := os.ReadFile(f)
		if err != nil {
			panic(err)
		}
		res[filepath.Base(f)] = strings.ReplaceAll(string(data), e.dir, "$D")
	}
	return res
}

// ---- the twin: a fresh instance handed copies of the same items

var c05alTwinCache = struct {
	sync.Mutex
	m map[string]map[string]string
}{m: map[string]map[string]string{}}

func c05alTwin(n int, names []int, glob int, items map[string]*hatypes.Backend) map[string]string {
	ids := make([]string, 0, len(items))
	for id := range items {
		ids = append(ids, id)
	}
	sort.Strings(ids)
	var key strings.Builder
	fmt.Fprintf(&key, "%d|%d", n, glob)
	for _, id := range ids {
		b := items[id]
		fmt.Fprintf(&key, "|%s/%s", id, b.BalanceAlgorithm)
		for _, ep := range b.Endpoints {
			fmt.Fprintf(&key, ",%s=%s:%d:%v:%d:%s", ep.Name, ep.IP, ep.Port, ep.Enabled, ep.Weight, ep.CookieValue)
		}
	}
	k := key.String()
	c05alTwinCache.Lock()
	tw, ok := c05alTwinCache.m[k]
	c05alTwinCache.Unlock()
	if ok {
		return tw
	}
	e := newC12inst(false, n, names)
	defer e.close()
	c05alSetGlobal(e, glob)
	for _, id := range ids {
		src := items[id]
		b := e.inst.Config().Backends().AcquireBackend(src.Namespace, src.Name, src.Port)
		b.BalanceAlgorithm = src.BalanceAlgorithm
		// dynamic scaling stays on (it is what the long-lived backend has); with no minimum and an increment
		// of 1 alignSlots has nothing to add to a backend that already has a slot: the copy is rendered as it is
		b.Dynamic.DynUpdate = true
		b.Dynamic.MinFreeSlots = 0
		b.Dynamic.BlockSize = 1
		for _, ep := range src.Endpoints {
			cp := *ep
			b.Endpoints = append(b.Endpoints, &cp)
		}
	}
	if err := e.inst.HAProxyUpdate(utils.NewTimer(nil)); err != nil {
		panic("C05 al: twin update failed: " + err.Error())
	}
	tw = c05alFiles(e)
	c05alTwinCache.Lock()
	if len(c05alTwinCache.m) > 20000 {
		c05alTwinCache.m = map[string]map[string]string{}
	}
	c05alTwinCache.m[k] = tw
	c05alTwinCache.Unlock()
	return tw
}

// ---- one observation

func (w *c05al) observe(reload bool) string {
	items := w.e.inst.Config().Backends().Items()
	var mem []c05ent
	memSrv := map[int][]string{}
	for id, b := range items {
		i, ok := w.e.idx[id]
		if !ok || b.ID != id {
			i = 9998
		}
		conf, _ := strconv.Atoi(strings.TrimPrefix(b.BalanceAlgorithm, "cfg"))
		var octets []int
		free := 0
		for _, ep := range b.Endpoints {
			if ep.IsEmpty() {
				free++
			} else {
				octets = append(octets, c05alOctet(ep.IP))
			}
			memSrv[i] = append(memSrv[i], fmt.Sprintf("%s %s:%d %v", ep.Name, ep.IP, ep.Port, !ep.Enabled))
		}
		mem = append(mem, c05ent{i, c05alCfg(conf, octets), free})
	}
	files := c05alFiles(w.e)
	bases := make([]string, 0, len(files))
	for b := range files {
		bases = append(bases, b)
	}
	sort.Strings(bases)
	disk := map[int][]c05ent{}
	diskSrv := map[int][]string{}
	for _, base := range bases {
		k := c05alFileIndex(w.e.n, base)
		ps := c05alParse(files[base], w.e.idx)
		if len(ps.ents) > 0 {
			disk[k] = append(disk[k], ps.ents...)
		}
		for i, l := range ps.srv {
			diskSrv[i] = append(diskSrv[i], l...)
		}
	}
	nfiles := w.e.n
	if nfiles == 0 {
		nfiles = 1
	}
	keys := map[int]bool{}
	for k := 0; k < nfiles; k++ {
		keys[k] = true
	}
	for k := range disk {
		keys[k] = true
	}
	ks := make([]int, 0, len(keys))
	for k := range keys {
		ks = append(ks, k)
	}
	sort.Ints(ks)
	fs := make([]string, len(ks))
	for i, k := range ks {
		s := "-"
		if es := disk[k]; len(es) > 0 {
			p := make([]string, len(es))
			for j, e := range es {
				p[j] = e.String() // file order: the oracle checks sortedness / duplicates
			}
			s = strings.Join(p, "+")
		}
		fs[i] = fmt.Sprintf("%d=%s", k, s)
	}
	// differences
	var diff []string
	tw := c05alTwin(w.e.n, w.names, w.glob, items)
	all := map[string]bool{}
	for b := range files {
		all[b] = true
	}
	for b := range tw {
		all[b] = true
	}
	allb := make([]string, 0, len(all))
	for b := range all {
		allb = append(allb, b)
	}
	sort.Strings(allb)
	for _, b := range allb {
		d, dok := files[b]
		t, tok := tw[b]
		switch {
		case !dok:
			diff = append(diff, "miss~"+b)
		case !tok:
			// a shard file the fresh instance did not write: it counts when it declares something
			if strings.TrimSpace(stripComments(d)) != "" {
				diff = append(diff, "extra~"+b)
			}
		case d != t:
			diff = append(diff, "txt~"+b)
			if os.Getenv("C05AL_DUMP") != "" {
				fmt.Fprintf(os.Stderr, "==== %s on disk\n%s\n==== %s fresh\n%s\n", b, d, b, t)
			}
		}
	}
	var is []int
	for i := range memSrv {
		is = append(is, i)
	}
	for i := range diskSrv {
		if _, ok := memSrv[i]; !ok {
			is = append(is, i)
		}
	}
	sort.Ints(is)
	for _, i := range is {
		if strings.Join(memSrv[i], ";") != strings.Join(diskSrv[i], ";") {
			diff = append(diff, fmt.Sprintf("srv~%d", i))
			if os.Getenv("C05AL_DUMP") != "" {
				fmt.Fprintf(os.Stderr, "==== backend %d in memory %v\n==== backend %d on disk   %v\n", i, memSrv[i], i, diskSrv[i])
			}
		}
	}
	ds := "-"
	if len(diff) > 0 {
		ds = strings.Join(diff, "+")
	}
	return strings.Join([]string{"r" + b2s(reload), c05ents(mem), strings.Join(fs, ","), ds}, "|")
}

func stripComments(text string) string {
	var sb strings.Builder
	for _, l := range strings.Split(text, "\n") {
		if t := strings.TrimSpace(l); t != "" && !strings.HasPrefix(t, "#") {
			sb.WriteString(t + "\n")
		}
	}
	return sb.String()
}

// ---- one case

type c05alRes struct {
	args, out string
	stats     []string
}

type c05alCfg2 struct{ mf, blk int }

func c05alRun(n int, names, shardOf []int, dyn []c05alCfg2, ops []string) c05alRes {
	shards := make([]string, len(names))
	dyns := make([]string, len(names))
	for i := range names {
		shards[i] = strconv.Itoa(shardOf[i])
		dyns[i] = fmt.Sprintf("%d:%d", dyn[i].mf, dyn[i].blk)
	}
	// markers of a replayed line are recomputed
	for i, op := range ops {
		ops[i] = strings.TrimSuffix(op, ".n")
	}
	mkArgs := func(ops []string) string {
		return fmt.Sprintf("al %d %s %s %s", n, strings.Join(shards, "."), strings.Join(dyns, "."), strings.Join(ops, ","))
	}
	args := mkArgs(ops)
	stats := []string{"mode_al", fmt.Sprintf("al_shards_%d", n)}
	out := func() (res string) {
		var e *c12inst
		defer func() {
			if r := recover(); r != nil {
				res = "PANIC"
				fmt.Fprintf(os.Stderr, "C05 al panic on %s: %v\n", args, r)
			}
			if e != nil {
				e.close()
			}
		}()
		e = newC12inst(false, n, names)
		w := &c05al{e: e, p: len(names), names: names, live: map[int]c05alDecl{}, touched: map[int]bool{}}
		for _, d := range dyn {
			w.mf = append(w.mf, d.mf)
			w.blk = append(w.blk, d.blk)
		}
		var obs, emitted, batch []string
		nupd := 0
		for _, op := range ops {
			if op != "u" {
				batch = append(batch, op)
			}
			switch {
			case op == "o":
				w.other = true
			case op == "F":
				w.full = true
			case op == "u":
				// the ops of the batch, with the `.n` markers (see namesDiffer) on the last op of the backend
				marked := false
				for x := 0; x < w.p; x++ {
					if !(w.touched[x] || w.full) || !w.namesDiffer(x) {
						continue
					}
					marked = true
					last := -1
					for k, b := range batch {
						if (b[0] == 'e' && strings.HasPrefix(b, fmt.Sprintf("e%d.", x))) || b == fmt.Sprintf("t%d", x) {
							last = k
						}
					}
					if last >= 0 {
						batch[last] += ".n"
					} else {
						batch = append(batch, fmt.Sprintf("t%d.n", x))
					}
				}
				if marked {
					stats = append(stats, "al_update_same_content_other_server_names")
				}
				emitted = append(append(emitted, batch...), "u")
				batch = nil
				// slots of the backends this batch does not touch, before the update
				before := map[string]int{}
				for id, b := range e.inst.Config().Backends().Items() {
					if i, ok := e.idx[id]; ok && !w.touched[i] && !w.full {
						before[id] = len(b.Endpoints)
					}
				}
				w.applyBatch()
				w.touched = map[int]bool{}
				w.other, w.full = false, false
				reloads, ncmd := e.sim.ReloadTr, len(e.sim.Cmds)
				err := e.inst.HAProxyUpdate(utils.NewTimer(nil))
				if err != nil || e.sim.LoadErr != "" {
					fmt.Fprintf(os.Stderr, "C05 al: HAProxyUpdate error on %s: %v %s\n", args, err, e.sim.LoadErr)
					obs = append(obs, "E")
					continue
				}
				reload := e.sim.ReloadTr != reloads
				grown := false
				for id, l := range before {
					if b := e.inst.Config().Backends().Items()[id]; b != nil && len(b.Endpoints) > l {
						grown = true
					}
				}
				if nupd > 0 {
					switch {
					case reload && grown:
						stats = append(stats, "al_update_reload_bystander_grown")
					case reload:
						stats = append(stats, "al_update_reload")
					case len(e.sim.Cmds) > ncmd:
						stats = append(stats, "al_update_dynamic_no_reload")
					default:
						stats = append(stats, "al_update_nothing_to_do")
					}
				}
				nupd++
				obs = append(obs, w.observe(reload))
			case op[0] == 'e':
				f := strings.Split(op[1:], ".")
				if len(f) != 4 {
					panic("bad op " + op)
				}
				x, _ := strconv.Atoi(f[0])
				var g c05alDecl
				g.conf, _ = strconv.Atoi(f[1])
				g.off, _ = strconv.Atoi(f[2])
				g.used, _ = strconv.Atoi(f[3])
				if x < 0 || x >= w.p {
					panic("bad op " + op)
				}
				w.live[x] = g
				w.touched[x] = true
			case op[0] == 't':
				x, _ := strconv.Atoi(op[1:])
				w.touched[x] = true
			case op[0] == 'd':
				x, _ := strconv.Atoi(op[1:])
				delete(w.live, x)
				w.touched[x] = true
			default:
				panic("bad op " + op)
			}
		}
		emitted = append(emitted, batch...)
		args = mkArgs(emitted)
		if len(obs) == 0 {
			return "-"
		}
		return strings.Join(obs, ";")
	}()
	return c05alRes{args, out, stats}
}

type c05alJobs struct {
	c    *ctx
	jobs []func() c05alRes
}

func (j *c05alJobs) add(n int, want []int, dyn []c05alCfg2, ops []string) {
	names := c05NamesFor(n, want) // sequential: the shard cache is not shared with the workers
	if names == nil {
		fmt.Fprintf(os.Stderr, "C05 al: no name with the requested shards %v\n", want)
		return
	}
	shardOf := make([]int, len(names))
	for i, cand := range names {
		shardOf[i] = c05shard(n, cand)
	}
	ops = append([]string(nil), ops...)
	dyn = append([]c05alCfg2(nil), dyn...)
	j.jobs = append(j.jobs, func() c05alRes { return c05alRun(n, names, shardOf, dyn, ops) })
}

func (j *c05alJobs) flush(stat string) {
	workers := 6
	if v, err := strconv.Atoi(os.Getenv("C12_WORKERS")); err == nil && v > 0 {
		workers = v
	}
	res := make([]c05alRes, len(j.jobs))
	next := make(chan int)
	done := make(chan bool)
	for w := 0; w < workers; w++ {
		go func() {
			for i := range next {
				res[i] = j.jobs[i]()
			}
			done <- true
		}()
	}
	for i := range j.jobs {
		next <- i
	}
	close(next)
	for w := 0; w < workers; w++ {
		<-done
	}
	for _, r := range res {
		j.c.emit("C05", r.args, r.out)
		j.c.stat(stat, 1)
		for _, s := range r.stats {
			j.c.stat(s, 1)
		}
	}
	j.jobs = nil
}

func c05alReplay(c *ctx, a []string) {
	// a = al <n> <shards> <dyn> <ops>
	if len(a) != 5 {
		return
	}
	n, err := strconv.Atoi(a[1])
	if err != nil {
		return
	}
	var want []int
	for _, s := range strings.Split(a[2], ".") {
		k, err := strconv.Atoi(s)
		if err != nil {
			return
		}
		want = append(want, k)
	}
	var dyn []c05alCfg2
	for _, s := range strings.Split(a[3], ".") {
		f := strings.Split(s, ":")
		if len(f) != 2 {
			return
		}
		mf, _ := strconv.Atoi(f[0])
		blk, _ := strconv.Atoi(f[1])
		dyn = append(dyn, c05alCfg2{mf, blk})
	}
	if len(dyn) != len(want) {
		return
	}
	j := &c05alJobs{c: c}
	j.add(n, want, dyn, strings.Split(a[4], ","))
	j.flush("al_replay")
}

// ---- generators

func c05alE(x, conf, off, used int) string {
	if used == 0 {
		off = 0
	}
	return fmt.Sprintf("e%d.%d.%d.%d", x, conf, off, used)
}

func c05alCorpus(j *c05alJobs) {
	sp := func(s string) []string { return strings.Split(s, ",") }
	d11 := []c05alCfg2{{1, 1}, {1, 1}}
	for _, n := range []int{3, 1, 0} {
		pat := c05patterns[3][:2] // shards 2 and 0 (mod n)
		// the minimised history of seeded defect C05e (Props/C05Align.lean: seedHist, padOnly_stale_shard_file):
		// backend 0 is scaled up 1 -> 2 within its free slot (no reload), then backend 1 - another shard -
		// changes its configuration (reload): alignSlots tops backend 0 up in memory, its shard file must follow
		j.add(n, pat, d11, sp("e0.1.0.1,e1.1.0.1,u,e0.1.0.2,u,e1.2.0.1,u"))
		// the same with a global change / a full resync / a new backend / a deleted backend as the cause of the reload
		j.add(n, pat, d11, sp("e0.1.0.1,e1.1.0.1,u,e0.1.0.2,u,o,u"))
		j.add(n, pat, d11, sp("e0.1.0.1,e1.1.0.1,u,e0.1.0.2,u,F,u"))
		j.add(n, pat, d11, sp("e0.1.0.1,u,e0.1.0.2,u,e1.1.0.1,u"))
		j.add(n, pat, d11, sp("e0.1.0.1,e1.1.0.1,u,e0.1.0.2,u,d1,u"))
		// the consequence: the next scale-up of backend 0 must find the slot in the running haproxy
		j.add(n, pat, d11, sp("e0.1.0.1,e1.1.0.1,u,e0.1.0.2,u,e1.2.0.1,u,e0.1.0.3,u,t0,u"))
		// increment 2: the padding hides / shows the top-up
		j.add(n, pat, []c05alCfg2{{1, 2}, {1, 1}}, sp("e0.1.0.1,e1.1.0.1,u,e0.1.0.2,u,o,u,e0.1.0.3,u,o,u"))
		j.add(n, pat, []c05alCfg2{{2, 2}, {0, 1}}, sp("e0.1.0.2,e1.1.0.0,u,e0.1.0.3,u,e0.1.0.4,u,e1.1.0.1,u,e1.1.0.2,u"))
		// scale down (a server is disabled, slots stay), rotation of the addresses, re-notification, then a reload
		j.add(n, pat, []c05alCfg2{{2, 1}, {1, 2}}, sp("e0.1.0.3,e1.1.0.1,u,e0.1.0.1,u,t0,t1,u,e0.1.1.2,u,e0.1.1.3,u,e0.1.1.4,u,o,u"))
	}
}

// step symbols of one backend
func c05alStep(x int, g *c05alDecl, alive *bool, sym byte) []string {
	switch sym {
	case '.':
		return nil
	case '=':
		if !*alive {
			return nil
		}
		return []string{fmt.Sprintf("t%d", x)}
	case '+':
		if g.used < 6 {
			g.used++
		}
	case '-':
		if g.used > 0 {
			g.used--
		}
	case 'c':
		g.conf = g.conf%3 + 1
	case 'r': // the first address goes, another one comes
		if g.used > 0 && g.off < 3 {
			g.off++
		} else {
			g.off = 0
		}
	case 'd':
		if !*alive {
			return nil
		}
		*alive = false
		return []string{fmt.Sprintf("d%d", x)}
	}
	*alive = true
	if g.used == 0 {
		g.off = 0
	}
	return []string{c05alE(x, g.conf, g.off, g.used)}
}

// one history from per-step symbols: syms[k] = one symbol per backend, then `o` / `F` flags
func c05alSymHistory(j *c05alJobs, n int, want []int, dyn []c05alCfg2, initial []int, syms []string) {
	p := len(want)
	st := make([]c05alDecl, p)
	alive := make([]bool, p)
	var ops []string
	for x := 0; x < p; x++ {
		st[x] = c05alDecl{conf: 1, used: initial[x]}
		alive[x] = true
		ops = append(ops, c05alE(x, 1, 0, initial[x]))
	}
	ops = append(ops, "u")
	for _, sy := range syms {
		for x := 0; x < p; x++ {
			ops = append(ops, c05alStep(x, &st[x], &alive[x], sy[x])...)
		}
		for _, f := range sy[p:] {
			if f == 'o' || f == 'F' {
				ops = append(ops, string(f))
			}
		}
		ops = append(ops, "u")
	}
	j.add(n, want, dyn, ops)
}

func c05alExhaustive(j *c05alJobs, all bool) {
	// two backends in different shards; every sequence of steps over the alphabet
	type scope struct {
		depth  int
		a0, a1 string
		flags  []string
		dyns   [][]c05alCfg2
		ns     []int
	}
	six := [][]c05alCfg2{}
	for _, mf := range []int{0, 1, 2} {
		for _, blk := range []int{1, 2} {
			six = append(six, []c05alCfg2{{mf, blk}, {1, 1}})
		}
	}
	scopes := []scope{
		{2, ".=+-", ".c", []string{"", "o"}, [][]c05alCfg2{{{1, 1}, {1, 1}}}, []int{3}},
		{2, ".+", ".c", []string{"", "o"}, [][]c05alCfg2{{{2, 2}, {0, 1}}}, []int{3}},
		{2, ".+", ".c", []string{"", "o", "F"}, [][]c05alCfg2{{{1, 1}, {1, 1}}}, []int{0}},
	}
	if all {
		scopes = []scope{
			{2, ".=+-", ".c", []string{"", "o"}, six, []int{3}},
			{2, ".+-", ".c", []string{"", "o", "F"}, [][]c05alCfg2{{{1, 1}, {1, 1}}}, []int{1, 0}},
			{2, ".=+-r", ".+cd", []string{"", "o", "F"}, [][]c05alCfg2{{{1, 1}, {1, 1}}}, []int{3}},
			{3, ".+-", ".c", []string{"", "o"}, [][]c05alCfg2{{{1, 1}, {1, 1}}}, []int{3}},
		}
	}
	for _, sc := range scopes {
		var steps []string
		for _, a := range sc.a0 {
			for _, b := range sc.a1 {
				for _, f := range sc.flags {
					steps = append(steps, string(a)+string(b)+f)
				}
			}
		}
		total := 1
		for d := 0; d < sc.depth; d++ {
			total *= len(steps)
		}
		for _, n := range sc.ns {
			for _, dyn := range sc.dyns {
				for x := 0; x < total; x++ {
					syms := make([]string, sc.depth)
					y := x
					for d := 0; d < sc.depth; d++ {
						syms[d] = steps[y%len(steps)]
						y /= len(steps)
					}
					c05alSymHistory(j, n, c05patterns[3][:2], dyn, []int{1, 1}, syms)
				}
				j.flush(fmt.Sprintf("al_exhaustive_depth%d", sc.depth))
			}
		}
	}
}

func c05alRandom(j *c05alJobs, r *gen.Rng, count int) {
	for i := 0; i < count; i++ {
		n := gen.Pick(r, []int{0, 1, 3, 3, 3})
		p := r.Range(2, 3)
		dyn := make([]c05alCfg2, p)
		initial := make([]int, p)
		for x := range dyn {
			dyn[x] = c05alCfg2{r.Intn(3), r.Range(1, 2)}
			initial[x] = r.Intn(3)
		}
		ns := r.Range(3, 7)
		syms := make([]string, ns)
		for k := range syms {
			// a step either leaves everything to the dynamic updater (scale up / down, rotation, re-notification)
			// or carries ONE cause of reload (configuration change, deleted backend, global change, full resync)
			// next to a few endpoint changes: the bystanders of that reload are the backends scaled before
			sy := make([]byte, p)
			cause := r.Intn(20) >= 11
			for x := 0; x < p; x++ {
				if cause {
					sy[x] = gen.Pick(r, []byte("....+-"))
				} else {
					sy[x] = gen.Pick(r, []byte("..+++--=r"))
				}
			}
			flag := ""
			if cause {
				switch r.Intn(5) {
				case 0:
					flag = "o"
				case 1:
					flag = "F"
				case 2, 3:
					sy[r.Intn(p)] = 'c'
				default:
					sy[r.Intn(p)] = 'd'
				}
			}
			syms[k] = string(sy) + flag
		}
		c05alSymHistory(j, n, c05patterns[3][:p], dyn, initial, syms)
	}
}

func runC05alCorpus(c *ctx) {
	j := &c05alJobs{c: c}
	c05alCorpus(j)
	j.flush("al_corpus")
}

func runC05al(c *ctx) {
	j := &c05alJobs{c: c}
	c05alExhaustive(j, c.thorough())
	count := 300
	if c.thorough() {
		count = 2500
	}
	r := gen.New(c.seed).Fork().Fork().Fork()
	for count > 0 {
		k := min(count, 500)
		c05alRandom(j, r, k)
		j.flush("al_random")
		count -= k
	}
}
