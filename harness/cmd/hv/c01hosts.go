package main

// C01, host store: the REAL hatypes.Hosts driven cycle by cycle (Clear | RemoveAll, declarations, Shrink, Commit) as
// converters.Sync + HAProxyUpdate drive it; after the last cycle HasSSLPassthrough() and the items are compared with
// the Lean model (Model/C01Hosts.lean) whose invariant passthrough_count_exact is proved for every history. Added
// after seed C01d (Shrink re-acquiring the restored host: the counter drifts upwards with every unchanged re-parse).

import (
	"fmt"
	"sort"
	"strconv"
	"strings"

	hatypes "github.com/jcmoraisjr/haproxy-ingress/pkg/haproxy/types"

	"hapverif/gen"
)

func c01hostsCase(c *ctx, cycles []string) {
	out := func() (res string) {
		defer func() {
			if r := recover(); r != nil {
				res = "PANIC"
			}
		}()
		hosts := hatypes.CreateHosts()
		for _, cy := range cycles {
			f := strings.Split(cy, "~")
			if len(f) != 3 {
				return "BAD"
			}
			if f[0] == "F" {
				// config.Clear(): createConfig gives a new Hosts
				hosts = hatypes.CreateHosts()
			} else if f[1] != "-" && f[1] != "" {
				hosts.RemoveAll(strings.Split(f[1], ","))
			}
			if f[2] != "-" {
				for _, d := range strings.Split(f[2], ",") {
					p := strings.Split(d, ".")
					h := hosts.AcquireHost(p[0])
					h.SetSSLPassthrough(p[1] == "1")
					h.RootRedirect = p[2]
				}
			}
			hosts.Shrink()
			hosts.Commit()
		}
		var items []string
		for _, h := range hosts.Items() {
			o := h.RootRedirect
			if o == "" {
				o = "0"
			}
			items = append(items, h.Hostname+"."+b2s(h.SSLPassthrough())+"."+o)
		}
		sort.Strings(items)
		it := "-"
		if len(items) > 0 {
			it = strings.Join(items, ",")
		}
		return b2s(hosts.HasSSLPassthrough()) + " " + it
	}()
	c.emit("C01", "hosts "+strings.Join(cycles, " "), out)
	c.stat("hosts_cases", 1)
}

var c01hostsCorpus = []string{
	// a passthrough host re-parsed unchanged, then removed (seed C01d: flag stays on)
	"F~-~h1.1.1,h2.0.2 P~h1~h1.1.1 P~h1~-",
	// a passthrough host re-parsed unchanged while it is the only one (seed C07c: flag goes off)
	"F~-~h1.1.1,h2.0.2 P~h1~h1.1.1",
	// the flag moves from one host to another inside one cycle
	"F~-~h1.1.1,h2.0.2 P~h1,h2~h1.0.1,h2.1.2 P~h2~h2.1.2 P~h2~h2.0.2",
}

func c01hostsRun(c *ctx, r *gen.Rng) {
	for _, l := range c01hostsCorpus {
		c01hostsCase(c, strings.Fields(l))
	}
	// exhaustive small scope: 2 hosts, every sequence of <= 3 partial cycles after a full one, each host clean /
	// re-parsed unchanged / re-parsed with the flag flipped / re-parsed with other content / removed
	type hs struct {
		pass  bool
		other int
		live  bool
	}
	var rec func(depth int, st [2]hs, acc []string)
	maxDepth := 2
	if c.thorough() {
		maxDepth = 3
	}
	name := [2]string{"h1", "h2"}
	rec = func(depth int, st [2]hs, acc []string) {
		c01hostsCase(c, acc)
		if depth == maxDepth {
			return
		}
		for a0 := 0; a0 < 5; a0++ {
			for a1 := 0; a1 < 5; a1++ {
				if a0 == 0 && a1 == 0 {
					continue
				}
				ns := st
				var dirty, decls []string
				for i, a := range [2]int{a0, a1} {
					if a == 0 {
						continue
					}
					if ns[i].live {
						dirty = append(dirty, name[i])
					}
					switch a {
					case 1: // unchanged (created with defaults when it did not exist)
						ns[i].live = true
					case 2:
						ns[i].live, ns[i].pass = true, !ns[i].pass
					case 3:
						ns[i].live, ns[i].other = true, ns[i].other+1
					case 4:
						ns[i] = hs{}
					}
					if ns[i].live {
						decls = append(decls, name[i]+"."+b2s(ns[i].pass)+"."+strconv.Itoa(ns[i].other))
					}
				}
				d, ds := "-", "-"
				if len(dirty) > 0 {
					d = strings.Join(dirty, ",")
				}
				if len(decls) > 0 {
					ds = strings.Join(decls, ",")
				}
				rec(depth+1, ns, append(append([]string(nil), acc...), "P~"+d+"~"+ds))
			}
		}
	}
	for _, init := range []string{"F~-~h1.1.1,h2.0.2", "F~-~h1.1.1,h2.1.2", "F~-~h1.0.1"} {
		var st [2]hs
		for _, d := range strings.Split(strings.Split(init, "~")[2], ",") {
			p := strings.Split(d, ".")
			i := int(p[0][1] - '1')
			o, _ := strconv.Atoi(p[2])
			st[i] = hs{p[1] == "1", o, true}
		}
		rec(0, st, []string{init})
	}
	// random: 4 hosts, up to 8 cycles, full syncs in between, dirty sets that also name absent hosts
	n := 1500
	if c.thorough() {
		n = 40000
	}
	pool := []string{"h1", "h2", "h3", "h4"}
	for i := 0; i < n; i++ {
		cur := map[string][2]int{}
		var cycles []string
		for k := r.Range(1, 8); k > 0; k-- {
			full := len(cycles) == 0 || r.Chance(1, 7)
			var dirty []string
			for _, h := range pool {
				if r.Chance(1, 2) {
					dirty = append(dirty, h)
				}
			}
			next := map[string][2]int{}
			if !full {
				for h, v := range cur {
					next[h] = v
				}
			}
			var decls []string
			names := dirty
			if full {
				names = pool
			}
			for _, h := range names {
				v, was := cur[h]
				delete(next, h)
				switch r.Intn(5) {
				case 0: // gone
					continue
				case 1:
					v[0] = 1 - v[0]
				case 2:
					v[1]++
				default:
					if !was {
						v = [2]int{r.Intn(2), r.Intn(3)}
					}
				}
				next[h] = v
				decls = append(decls, fmt.Sprintf("%s.%d.%d", h, v[0], v[1]))
			}
			cur = next
			d, ds, m := "-", "-", "P"
			if full {
				m = "F"
			} else if len(dirty) > 0 {
				d = strings.Join(dirty, ",")
			}
			if len(decls) > 0 {
				ds = strings.Join(decls, ",")
			}
			cycles = append(cycles, m+"~"+d+"~"+ds)
		}
		c01hostsCase(c, cycles)
	}
}
