package main

// C18, class parameters mode: external authentication declared through IngressClass `spec.parameters`.
//
// An IngressClass of the controller may point (spec.parameters: kind ConfigMap, name, in POD_NAMESPACE) at a
// ConfigMap whose data are configuration keys declared once for EVERY Ingress of the class.  The converter
// (addBackendWithClass) merges, per PATH LINK of the backend's annotation mapper and in this order of
// precedence: the annotations of the Service, the annotations of the Ingress, the class parameters.  The
// annotation values are stored per path link, so every path of every ingress of the class has to receive the
// parameters — also when the backend (service:port) is shared with paths that were linked earlier.
//
// Drives the same REAL code as c18.go (ingress.NewIngressConverter + Sync(true) over the objects of the mock
// cache, the real annotation updater, the real haproxy.Instance rendering haproxy.tmpl).  Objects: class `c1`
// with parameters -> ConfigMap ingress-controller/c1-params, class `c2` without parameters; 1..3 ingresses
// selected by ingressClassName with 1..3 paths each over a small pool of hosts, paths and services so that
// paths frequently share a backend; the same keys as Ingress annotations and as Service annotations.
//
// Case line:  C18 cls <glob> <params> <svcanns> <ing>[,<ing>...] => <path>|<path>...||<binds>
//   <glob>     as in c18.go
//   <params>   <url>.<plc>.<oauth>.<signin>   data of the parameters ConfigMap of class c1 (keys auth-url,
//              auth-external-placement, oauth, auth-signin; tokens of c18.go, `-` = key absent), followed by
//              `.m` when the ConfigMap also carries auth-method: HEAD
//   <svcanns>  `-` or <svc>:<url>.<plc>.<oauth>.<signin> joined by `+`: annotations of Service <svc>
//   <ing>      <class>~<url>.<plc>.<oauth>.<signin>~<path>[+<path>...]   one Ingress (name ing01.. in list
//              order): class 0 (no ingressClassName) | 1 (c1) | 2 (c2), its annotations, its paths
//              <host>.<path>.<match>.<svc> (one rule per path, in this order)
//   <path> (output), <binds>   as in c18.go, one record per declared path in reading order

import (
	"fmt"
	"os"
	"runtime"
	"strconv"
	"strings"
	"sync"

	api "k8s.io/api/core/v1"
	networking "k8s.io/api/networking/v1"
	metav1 "k8s.io/apimachinery/pkg/apis/meta/v1"

	convtypes "github.com/jcmoraisjr/haproxy-ingress/pkg/converters/types"

	"github.com/jcmoraisjr/haproxy-ingress/pkg/converters/ingress"

	"hapverif/gen"
)

type c18ClsAnn struct {
	url, plc, oauth string
	signin          bool
}

type c18ClsPath struct {
	host, path, svc int
	match           byte
}

type c18ClsIng struct {
	class int
	ann   c18ClsAnn
	paths []c18ClsPath
}

type c18ClsScenario struct {
	glob   string
	params c18ClsAnn
	method bool
	svcs   map[int]c18ClsAnn
	svcOrd []int
	ings   []c18ClsIng
}

var c18ClsNone = c18ClsAnn{url: "-", plc: "-", oauth: "-"}

func (a c18ClsAnn) String() string {
	sg := "-"
	if a.signin {
		sg = "s"
	}
	return a.url + "." + a.plc + "." + a.oauth + "." + sg
}

func (a c18ClsAnn) declares() bool { return a.url != "-" || a.oauth != "-" }

func c18ClsAnnParse(t string) (c18ClsAnn, error) {
	f := strings.Split(t, ".")
	if len(f) != 4 || (f[3] != "-" && f[3] != "s") {
		return c18ClsAnn{}, fmt.Errorf("bad annotation token %q", t)
	}
	a := c18ClsAnn{url: f[0], plc: f[1], oauth: f[2], signin: f[3] == "s"}
	if _, ok := c18URLs[a.url]; !ok && a.url != "-" {
		return a, fmt.Errorf("bad url %q", a.url)
	}
	if _, ok := c18Plc[a.plc]; !ok && a.plc != "-" {
		return a, fmt.Errorf("bad placement %q", a.plc)
	}
	if _, ok := c18OAuth[a.oauth]; (!ok || a.oauth == "m") && a.oauth != "-" {
		return a, fmt.Errorf("bad oauth %q", a.oauth)
	}
	return a, nil
}

// data: the keys as a map; prefix "" for the ConfigMap, the annotation prefix for objects
func (a c18ClsAnn) data(prefix string) map[string]string {
	m := map[string]string{}
	if a.url != "-" {
		m[prefix+"auth-url"] = c18URLs[a.url]
	}
	if a.plc != "-" {
		m[prefix+"auth-external-placement"] = c18Plc[a.plc]
	}
	if a.oauth != "-" {
		m[prefix+"oauth"] = c18OAuth[a.oauth]
	}
	if a.signin {
		m[prefix+"auth-signin"] = "/login"
	}
	return m
}

func (s *c18ClsScenario) args() string {
	p := s.params.String()
	if s.method {
		p += ".m"
	}
	sv := "-"
	if len(s.svcOrd) > 0 {
		var l []string
		for _, k := range s.svcOrd {
			l = append(l, fmt.Sprintf("%d:%s", k, s.svcs[k]))
		}
		sv = strings.Join(l, "+")
	}
	var il []string
	for _, g := range s.ings {
		var pl []string
		for _, q := range g.paths {
			pl = append(pl, fmt.Sprintf("%d.%d.%c.%d", q.host, q.path, q.match, q.svc))
		}
		il = append(il, fmt.Sprintf("%d~%s~%s", g.class, g.ann, strings.Join(pl, "+")))
	}
	return "cls " + s.glob + " " + p + " " + sv + " " + strings.Join(il, ",")
}

func c18ClsParse(a []string) (*c18ClsScenario, error) {
	if len(a) != 4 {
		return nil, fmt.Errorf("want 4 fields, got %d", len(a))
	}
	if _, err := c18Parse([]string{a[0], "0.0.0.b.-.-.-.-"}); err != nil {
		return nil, err
	}
	sc := &c18ClsScenario{glob: a[0], svcs: map[int]c18ClsAnn{}}
	pt := a[1]
	if strings.HasSuffix(pt, ".m") {
		sc.method = true
		pt = strings.TrimSuffix(pt, ".m")
	}
	var err error
	if sc.params, err = c18ClsAnnParse(pt); err != nil {
		return nil, err
	}
	if a[2] != "-" {
		for _, t := range strings.Split(a[2], "+") {
			f := strings.SplitN(t, ":", 2)
			if len(f) != 2 {
				return nil, fmt.Errorf("bad service token %q", t)
			}
			k, err := strconv.Atoi(f[0])
			if _, ok := c18Svcs[k]; err != nil || !ok {
				return nil, fmt.Errorf("bad service in %q", t)
			}
			if _, dup := sc.svcs[k]; dup {
				return nil, fmt.Errorf("service twice in %q", a[2])
			}
			if sc.svcs[k], err = c18ClsAnnParse(f[1]); err != nil {
				return nil, err
			}
			sc.svcOrd = append(sc.svcOrd, k)
		}
	}
	seen := map[[2]int]bool{}
	for _, t := range strings.Split(a[3], ",") {
		f := strings.Split(t, "~")
		if len(f) != 3 {
			return nil, fmt.Errorf("bad ingress token %q", t)
		}
		var g c18ClsIng
		if g.class, err = strconv.Atoi(f[0]); err != nil || g.class < 0 || g.class > 2 {
			return nil, fmt.Errorf("bad class in %q", t)
		}
		if g.ann, err = c18ClsAnnParse(f[1]); err != nil {
			return nil, err
		}
		for _, pt := range strings.Split(f[2], "+") {
			x := strings.Split(pt, ".")
			if len(x) != 4 || len(x[2]) != 1 {
				return nil, fmt.Errorf("bad path token %q", pt)
			}
			var q c18ClsPath
			if q.host, err = strconv.Atoi(x[0]); err != nil || q.host < 0 || q.host > 9 {
				return nil, fmt.Errorf("bad host in %q", pt)
			}
			if q.path, err = strconv.Atoi(x[1]); err != nil {
				return nil, fmt.Errorf("bad path in %q", pt)
			}
			if _, ok := c18Paths[q.path]; !ok {
				return nil, fmt.Errorf("bad path in %q", pt)
			}
			if q.svc, err = strconv.Atoi(x[3]); err != nil {
				return nil, fmt.Errorf("bad service in %q", pt)
			}
			if _, ok := c18Svcs[q.svc]; !ok {
				return nil, fmt.Errorf("bad service in %q", pt)
			}
			q.match = x[2][0]
			if q.match != 'b' && q.match != 'p' && q.match != 'e' {
				return nil, fmt.Errorf("bad match in %q", pt)
			}
			if seen[[2]int{q.host, q.path}] {
				return nil, fmt.Errorf("duplicated host path in %q", a[3])
			}
			seen[[2]int{q.host, q.path}] = true
			g.paths = append(g.paths, q)
		}
		sc.ings = append(sc.ings, g)
	}
	return sc, nil
}

func c18ClsMust(line string) *c18ClsScenario {
	sc, err := c18ClsParse(strings.Fields(line))
	if err != nil {
		panic(fmt.Sprintf("%s: %v", line, err))
	}
	return sc
}

const c18ClsController = "haproxy-ingress.github.io/controller"

func c18ClsRun(sc *c18ClsScenario) (string, error) {
	base, err := c18Parse([]string{sc.glob, "0.0.0.b.-.-.-.-"})
	if err != nil {
		return "", err
	}
	e, err := c18NewEnv(base, 0)
	if err != nil {
		return "", err
	}
	defer e.close()
	// the classes: c1 -> parameters ConfigMap of the controller's namespace, c2 without parameters
	data := sc.params.data("")
	if sc.method {
		data["auth-method"] = "HEAD"
	}
	podNs := e.cache.GetPodNamespace()
	e.cache.ConfigMapList[podNs+"/c1-params"] = &api.ConfigMap{
		ObjectMeta: metav1.ObjectMeta{Namespace: podNs, Name: "c1-params"},
		Data:       data,
	}
	e.cache.IngClassList = []*networking.IngressClass{
		{
			ObjectMeta: metav1.ObjectMeta{Name: "c1"},
			Spec: networking.IngressClassSpec{
				Controller: c18ClsController,
				Parameters: &networking.IngressClassParametersReference{Kind: "ConfigMap", Name: "c1-params"},
			},
		},
		{
			ObjectMeta: metav1.ObjectMeta{Name: "c2"},
			Spec:       networking.IngressClassSpec{Controller: c18ClsController},
		},
	}
	for _, svc := range e.cache.SvcList {
		for k, a := range sc.svcs {
			if svc.Namespace == "default" && svc.Name == c18Svcs[k] {
				svc.Annotations = a.data(c18Prefix + "/")
			}
		}
	}
	for i, g := range sc.ings {
		ing := &networking.Ingress{
			ObjectMeta: metav1.ObjectMeta{Namespace: "default", Name: fmt.Sprintf("ing%02d", i+1), Annotations: g.ann.data(c18Prefix + "/")},
		}
		switch g.class {
		case 1:
			n := "c1"
			ing.Spec.IngressClassName = &n
		case 2:
			n := "c2"
			ing.Spec.IngressClassName = &n
		}
		for _, q := range g.paths {
			pt := c18PathType(q.match)
			ing.Spec.Rules = append(ing.Spec.Rules, networking.IngressRule{
				Host: c18Host(q.host),
				IngressRuleValue: networking.IngressRuleValue{HTTP: &networking.HTTPIngressRuleValue{
					Paths: []networking.HTTPIngressPath{{
						Path:     c18Paths[q.path],
						PathType: &pt,
						Backend: networking.IngressBackend{Service: &networking.IngressServiceBackend{
							Name: c18Svcs[q.svc], Port: networking.ServiceBackendPort{Number: 8080},
						}},
					}},
				}},
			})
		}
		e.cache.IngList = append(e.cache.IngList, ing)
	}
	changed := &convtypes.ChangedObjects{GlobalConfigMapDataNew: e.global}
	ingress.NewIngressConverter(e.opts, e.hconfig, changed).Sync(true)
	e.debugLog()
	bs := e.binds()
	sections, err := e.render()
	if err != nil {
		return "", err
	}
	var out []string
	for _, g := range sc.ings {
		for _, q := range g.paths {
			rec, _, err := e.observePath(sections, c18Host(q.host), c18Paths[q.path], q.match == 'e')
			if err != nil {
				return "", err
			}
			out = append(out, rec)
		}
	}
	return strings.Join(out, "|") + "||" + bs, nil
}

func c18ClsOnce(sc *c18ClsScenario) (out string) {
	defer func() {
		if r := recover(); r != nil {
			out = "PANIC"
			fmt.Fprintf(os.Stderr, "C18 panic on %s: %v\n", sc.args(), r)
		}
	}()
	res, err := c18ClsRun(sc)
	if err != nil {
		fmt.Fprintf(os.Stderr, "C18 harness error on %s: %v\n", sc.args(), err)
		return "ERROR"
	}
	return res
}

func c18ClsEmit(c *ctx, sc *c18ClsScenario, out string) {
	c.emit("C18", sc.args(), out)
	c.stat("cls_scenarios", 1)
	perBackend := map[int]int{}   // paths of class c1 per service
	perBackendIng := map[int]map[int]bool{}
	npaths := 0
	for i, g := range sc.ings {
		npaths += len(g.paths)
		if g.class != 1 {
			continue
		}
		for _, q := range g.paths {
			perBackend[q.svc]++
			if perBackendIng[q.svc] == nil {
				perBackendIng[q.svc] = map[int]bool{}
			}
			perBackendIng[q.svc][i] = true
		}
		if sc.params.declares() && g.ann.declares() {
			c.stat("cls_ingress_annotation_over_class_parameters", 1)
		}
	}
	c.stat(fmt.Sprintf("cls_paths_%d", npaths), 1)
	if sc.params.declares() {
		c.stat("cls_class_declares_auth", 1)
		if sc.params.url != "-" {
			c.stat("cls_class_auth_url", 1)
		}
		if sc.params.oauth != "-" {
			c.stat("cls_class_oauth", 1)
		}
		shared, across := false, false
		for k, n := range perBackend {
			if n >= 2 {
				shared = true
			}
			if len(perBackendIng[k]) >= 2 {
				across = true
			}
		}
		if shared {
			c.stat("cls_class_auth_two_or_more_paths_share_backend", 1)
		}
		if across {
			c.stat("cls_class_auth_backend_shared_across_ingresses", 1)
		}
		for _, g := range sc.ings {
			if g.class != 1 {
				for _, q := range g.paths {
					if perBackend[q.svc] > 0 {
						c.stat("cls_backend_shared_with_ingress_of_another_class", 1)
						break
					}
				}
			}
		}
	}
	if len(sc.svcOrd) > 0 {
		c.stat("cls_service_annotations", 1)
	}
	if sc.method {
		c.stat("cls_class_auth_method", 1)
	}
	for _, k := range []string{"RB=deny", "RB=icpt"} {
		if strings.Contains(out, k) {
			c.stat("cls_out_"+strings.NewReplacer("=", "_").Replace(k), 1)
		}
	}
}

func c18ClsCase(c *ctx, sc *c18ClsScenario) { c18ClsEmit(c, sc, c18ClsOnce(sc)) }

func c18ClsBatch(c *ctx, scs []*c18ClsScenario) {
	outs := make([]string, len(scs))
	workers := runtime.NumCPU() / 2
	if workers > 6 {
		workers = 6
	}
	if workers < 1 {
		workers = 1
	}
	var wg sync.WaitGroup
	next := make(chan int, 64)
	for w := 0; w < workers; w++ {
		wg.Add(1)
		go func() {
			defer wg.Done()
			for i := range next {
				outs[i] = c18ClsOnce(scs[i])
			}
		}()
	}
	for i := range scs {
		next <- i
	}
	close(next)
	wg.Wait()
	for i, sc := range scs {
		c18ClsEmit(c, sc, outs[i])
	}
}

// ---------------------------------------------------------------- generators

// placement `frontend` is outside this mode: the HOST mapper never receives Service annotations or class
// parameters (addHost merges the Ingress annotations only), that is the subject of the frontend findings
var c18ClsPlcs = []string{"-", "-", "-", "b", "b", "B", "t"}

func c18ClsRandAnn(r *gen.Rng, dense bool) c18ClsAnn {
	a := c18ClsNone
	k := 10
	if dense {
		k = 6
	}
	switch r.Intn(k) {
	case 0, 1:
		a.url = gen.Pick(r, []string{"h1", "h2", "hs", "hq", "s1", "so"})
	case 2:
		a.url = gen.Pick(r, c18URLKeys)
	case 3:
		a.url = gen.Pick(r, []string{"mf", "bp", "hn", "sm", "sp", "e"})
	}
	a.plc = gen.Pick(r, c18ClsPlcs)
	if r.Chance(1, 4) {
		a.oauth = gen.Pick(r, []string{"o", "o", "d", "u", "e"})
	}
	a.signin = a.url != "-" && r.Chance(1, 4)
	return a
}

func c18ClsRandom(r *gen.Rng) *c18ClsScenario {
	sc := &c18ClsScenario{svcs: map[int]c18ClsAnn{}}
	sc.glob = gen.Pick(r, []string{"x0l0r2", "x0l0r2", "x0l0r3", "x0l0r1", "x0l0c1r2", "x1l1r2", "x1l0r2", "x0l0r0", "x0l0rd"})
	sc.params = c18ClsRandAnn(r, true)
	if !sc.params.declares() && r.Chance(2, 3) {
		sc.params.url = gen.Pick(r, []string{"h1", "h2", "s1"})
	}
	sc.method = r.Chance(1, 6)
	if r.Chance(1, 5) {
		k := r.Intn(2)
		sc.svcs[k] = c18ClsRandAnn(r, true)
		sc.svcOrd = []int{k}
	}
	used := map[[2]int]bool{}
	published := false
	ni := r.Range(1, 3)
	nsvc := r.Range(1, 2) // a small pool: paths frequently share a backend
	for i := 0; i < ni; i++ {
		g := c18ClsIng{class: gen.Pick(r, []int{1, 1, 1, 1, 0, 2}), ann: c18ClsNone}
		if r.Chance(1, 4) {
			g.ann = c18ClsRandAnn(r, false)
		}
		np := r.Range(1, 3)
		for tries := 0; len(g.paths) < np && tries < 20; tries++ {
			q := c18ClsPath{host: r.Intn(2), path: r.Intn(3), svc: r.Intn(nsvc), match: gen.Pick(r, []byte{'b', 'b', 'p', 'e'})}
			if !published && r.Chance(1, 8) {
				q.path, q.svc = 9, 2
			}
			if used[[2]int{q.host, q.path}] {
				continue
			}
			used[[2]int{q.host, q.path}] = true
			if q.path == 9 {
				published = true
			}
			g.paths = append(g.paths, q)
		}
		if len(g.paths) > 0 {
			sc.ings = append(sc.ings, g)
		}
	}
	uses := sc.params.oauth == "o" || sc.params.oauth == "d"
	for _, g := range sc.ings {
		uses = uses || g.ann.oauth == "o" || g.ann.oauth == "d"
	}
	if uses && !published && r.Chance(3, 4) && !used[[2]int{0, 9}] {
		sc.ings = append(sc.ings, c18ClsIng{class: gen.Pick(r, []int{0, 0, 1}), ann: c18ClsNone, paths: []c18ClsPath{{host: 0, path: 9, svc: 2, match: 'b'}}})
	}
	return sc
}

func runC18Cls(c *ctx) {
	// ---- corpus
	corpus := []string{
		// seed C18g (parameters merged only when the backend's mapper is created): later paths of a shared backend
		"x0l0r2 h1.-.-.- - 1~-.-.-.-~0.0.b.0+0.1.b.0,1~-.-.-.-~1.0.b.0", // two paths of one ingress and a path of another one
		"x0l0r2 h1.-.-.- - 1~-.-.-.-~0.0.b.0+0.1.e.0",
		"x0l0r2 h1.-.-.- - 1~-.-.-.-~0.0.b.0,1~-.-.-.-~1.0.p.0",
		"x0l0r2 -.-.o.- - 1~-.-.-.-~0.0.b.0+0.1.b.0,0~-.-.-.-~0.9.b.2", // oauth through the class
		"x0l0r2 mf.-.-.- - 1~-.-.-.-~0.0.b.0+0.1.b.0",                  // an unusable auth-url denies every path
		"x0l0r2 h1.-.-.- - 0~-.-.-.-~0.0.b.0,1~-.-.-.-~0.1.b.0",        // the backend was created by an ingress without class
		"x0l0r2 h1.-.-.- - 2~-.-.-.-~0.0.b.0,1~-.-.-.-~0.1.b.0+1.1.b.0",
		// precedence: service over ingress over class parameters
		"x0l0r2 h1.-.-.- - 1~h2.-.-.-~0.0.b.0+0.1.b.0",
		"x0l0r2 h1.-.-.- 0:h2.-.-.- 1~-.-.-.-~0.0.b.0+0.1.b.1",
		"x0l0r2 h1.-.-.- - 1~e.-.-.-~0.0.b.0", // the ingress registers an empty auth-url
		"x0l0r2 h1.t.-.- - 1~-.-.-.-~0.0.b.0", // placement typo in the parameters
		"x0l0r2 h1.-.-.- - 1~-.b.-.-~0.0.b.0",
		"x0l0r2 h1.B.-.s.m - 1~-.-.-.-~0.0.b.0+0.1.b.1",
		// well-behaved shapes
		"x0l0r2 h1.-.-.- - 1~-.-.-.-~0.0.b.0",
		"x0l0r2 -.-.-.- - 1~-.-.-.-~0.0.b.0+0.1.b.0",
		"x0l0r2 h1.-.-.- - 2~-.-.-.-~0.0.b.0,0~-.-.-.-~0.1.b.0", // no ingress of the class with parameters
		"x0l0r1 h1.-.-.- - 1~-.-.-.-~0.0.b.0,1~h2.-.-.-~0.1.b.1,1~hs.-.-.-~1.1.b.1",
		"x1l0r2 h1.-.-.- - 1~-.-.-.-~0.0.b.0+0.1.b.0",
	}
	for _, l := range corpus {
		c18ClsCase(c, c18ClsMust(l))
	}

	var scs []*c18ClsScenario
	// ---- exhaustive: the class declares (auth-url | oauth | unusable auth-url); 2 ingresses x classes {0,1,2}^2 x
	// how 3 paths are split between them x which of 2 services each path uses
	n0 := len(scs)
	params := []string{"h1.-.-.-", "-.-.o.-"}
	if c.thorough() {
		params = []string{"h1.-.-.-", "-.-.o.-", "mf.-.-.-", "h2.b.-.s", "s1.-.-.-"}
	}
	for _, pm := range params {
		for c1 := 0; c1 < 3; c1++ {
			for c2 := 0; c2 < 3; c2++ {
				if c1 != 1 && c2 != 1 {
					continue
				}
				for split := 1; split <= 3; split++ { // paths 0..split-1 in the first ingress
					for svcs := 0; svcs < 8; svcs++ {
						pt := func(k int) string {
							return fmt.Sprintf("%d.%d.b.%d", k%2, k, (svcs>>k)&1)
						}
						var a, b []string
						for k := 0; k < 3; k++ {
							if k < split {
								a = append(a, pt(k))
							} else {
								b = append(b, pt(k))
							}
						}
						line := fmt.Sprintf("x0l0r2 %s - %d~-.-.-.-~%s", pm, c1, strings.Join(a, "+"))
						if len(b) > 0 {
							line += fmt.Sprintf(",%d~-.-.-.-~%s", c2, strings.Join(b, "+"))
						} else if c2 != 1 {
							continue
						}
						if strings.Contains(pm, ".o.") {
							line += ",0~-.-.-.-~0.9.b.2"
						}
						scs = append(scs, c18ClsMust(line))
					}
				}
			}
		}
	}
	c.stat("cls_exhaustive_three_paths", len(scs)-n0)

	// ---- random
	r := gen.New(c.seed ^ 0x18c15)
	n := 400
	if c.thorough() {
		n = 8000
	}
	for i := 0; i < n; i++ {
		scs = append(scs, c18ClsRandom(r))
	}
	c18ClsBatch(c, scs)
}
