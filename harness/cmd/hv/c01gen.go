package main

// History generator of C01. Compared with world.Gen it uses smaller pools (more sharing of hosts, paths,
// backends and secrets) and adds the shapes the closure proof cares about:
//   - one ingress declaring the same host/path twice (two paths of a rule, two rules with one host);
//   - declarations that lose a host/path or the default backend to an older ingress and win it later;
//   - services deleted and re-created, service ports that start/stop resolving an ingress port;
//   - ingresses moving between classes (annotation and spec.ingressClassName);
//   - several events for one ingress in a batch: create+update, create+delete, delete+create;
//   - hosts named only in spec.tls, secrets that are missing / of the wrong kind / change kind.
// With `rich` it also generates what the Lean model does not cover (differentially tested only):
// TCP-service ingresses, auth annotations (basic auth secret, client CA secret, auth-url svc://),
// drain-support with not-ready endpoints and terminating pods, ConfigMap changes.

import (
	"fmt"
	"sort"
	"strings"

	"hapverif/gen"
	"hapverif/world"
)

type c01gen struct {
	r    *gen.Rng
	rich bool
	xns  bool // rich only: cross-namespace-secrets-crt=allow and spec.tls secrets named other-namespace/name
	ing  map[string]world.IngressSpec
	svc  map[string]int // key -> variant of the port list
	sec  map[string]int // key -> version
	pods map[string]bool
	ts   int
	ns   []string
	host []string
	path []string
	svcs []string
	secs []string
	eps  map[string][]string // key -> last published address list ("ip:r|n:pod")
}

func newC01Gen(r *gen.Rng, rich bool) *c01gen {
	g := &c01gen{r: r, rich: rich, ing: map[string]world.IngressSpec{}, svc: map[string]int{}, sec: map[string]int{}, pods: map[string]bool{}, eps: map[string][]string{},
		ns: []string{"d", "e"}, host: []string{"a.local", "b.local", ""}, path: []string{"/", "/a", "/b"},
		svcs: []string{"app", "api"}, secs: []string{"tls1", "tls2"}}
	if r.Chance(1, 3) {
		g.ns = []string{"d"}
	}
	return g
}

var c01ports = [][]world.PortSpec{
	{{Name: "http", Port: 80, TargetPort: "8080"}},
	{{Name: "http", Port: 80, TargetPort: "8080"}, {Name: "adm", Port: 81, TargetPort: "adm"}},
	{{Name: "http", Port: 80, TargetPort: "8080"}, {Name: "alt", Port: 9999, TargetPort: "8080"}},
	{{Name: "web", Port: 80, TargetPort: "8081"}},
}

func c01portsText(ps []world.PortSpec) string {
	l := make([]string, len(ps))
	for i, p := range ps {
		l[i] = fmt.Sprintf("%s:%d:%s", p.Name, p.Port, p.TargetPort)
	}
	return strings.Join(l, "+")
}

func c01kv(m map[string]string) string {
	if len(m) == 0 {
		return "-"
	}
	ks := make([]string, 0, len(m))
	for k := range m {
		ks = append(ks, k)
	}
	sort.Strings(ks)
	for i, k := range ks {
		v := m[k]
		if v == "" {
			v = "_"
		}
		ks[i] = k + "=" + v
	}
	return strings.Join(ks, ";")
}

func (g *c01gen) svcOp(ns, name string) string {
	key := ns + "/" + name
	v, exists := g.svc[key]
	if !exists || g.r.Chance(1, 2) {
		v = g.r.Intn(len(c01ports))
		if g.r.Chance(1, 2) {
			v = 1
		}
	}
	g.svc[key] = v
	ann := map[string]string{}
	if g.r.Chance(1, 4) {
		ann["balance-algorithm"] = gen.Pick(g.r, []string{"leastconn", "roundrobin", "first"})
	}
	return fmt.Sprintf("svc+%s!%s!%s", key, c01portsText(c01ports[v]), c01kv(ann))
}

func (g *c01gen) epOp(ns, name string) string {
	base := map[string]int{"app": 1, "api": 2}[name]
	nsb := map[string]int{"d": 0, "e": 1}[ns]
	// readiness flip: the same address set, one or all addresses change side between `addresses` and
	// `notReadyAddresses` (with drain-support the only difference is the server weight) — after seed C03e
	if last := g.eps[ns+"/"+name]; len(last) > 0 && g.r.Chance(1, 3) {
		as := append([]string(nil), last...)
		k := g.r.Intn(len(as))
		all := g.r.Chance(1, 3)
		for i := range as {
			if i == k || all {
				f := strings.Split(as[i], ":")
				if f[1] == "r" {
					f[1] = "n"
				} else {
					f[1] = "r"
				}
				as[i] = strings.Join(f, ":")
			}
		}
		g.eps[ns+"/"+name] = as
		return fmt.Sprintf("ep~%s/%s!%s", ns, name, strings.Join(as, "+"))
	}
	n := g.r.Range(0, 3)
	var as []string
	used := map[int]bool{}
	for i := 0; i < n; i++ {
		k := g.r.Range(1, 3)
		if used[k] {
			continue
		}
		used[k] = true
		rd := "r"
		if g.r.Chance(1, 4) {
			rd = "n"
		}
		as = append(as, fmt.Sprintf("10.%d.%d.%d:%s:%s-%d", nsb, base, k, rd, name, k))
	}
	g.eps[ns+"/"+name] = as
	if len(as) == 0 {
		return fmt.Sprintf("ep~%s/%s!-", ns, name)
	}
	return fmt.Sprintf("ep~%s/%s!%s", ns, name, strings.Join(as, "+"))
}

func (g *c01gen) secOp(ns, name string) string {
	key := ns + "/" + name
	g.sec[key]++
	kind := "tls"
	if g.r.Chance(1, 8) {
		kind = "bad"
	}
	if g.rich && g.r.Chance(1, 8) {
		kind = gen.Pick(g.r, []string{"ca", "passwd"})
	}
	if name == "ca1" && !g.r.Chance(1, 6) {
		kind = "ca"
	}
	if name == "pw1" && !g.r.Chance(1, 6) {
		kind = "passwd"
	}
	return fmt.Sprintf("sec+%s!%s!%d!%s", key, kind, g.sec[key], "a.local+b.local")
}

func strp(s string) *string { return &s }

func (g *c01gen) randomIngress(ns, name string, keep *world.IngressSpec) world.IngressSpec {
	r := g.r
	s := world.IngressSpec{Namespace: ns, Name: name, Annotations: map[string]string{}}
	if keep != nil {
		s.Created = keep.Created
	} else {
		if !r.Chance(1, 4) {
			g.ts++
		}
		s.Created = c01tick(g.ts).Created
	}
	switch r.Intn(10) {
	case 0:
		s.ClassAnn = strp("other")
	case 1, 2:
		s.ClassName = strp("hap")
	case 3:
		s.ClassName = strp("foreign")
	case 4:
		// no class at all
	default:
		s.ClassAnn = strp("haproxy")
	}
	onePath := func() world.PathSpec {
		p := world.PathSpec{Path: gen.Pick(r, g.path), Type: gen.Pick(r, []string{"Prefix", "Prefix", "Exact", "ImplementationSpecific", ""}),
			Svc: gen.Pick(r, g.svcs), Port: gen.Pick(r, []string{"80", "http", "8080"})}
		if r.Chance(1, 6) {
			p.Port = gen.Pick(r, []string{"81", "adm", "9999", "web"})
		}
		if r.Chance(1, 12) {
			p.Svc = "gone"
		}
		if r.Chance(1, 12) {
			p.Path = ""
		}
		return p
	}
	nr := r.Range(0, 2)
	if r.Chance(1, 2) {
		nr = 1
	}
	for i := 0; i < nr; i++ {
		rule := world.RuleSpec{Host: gen.Pick(r, g.host)}
		if i == 1 && r.Chance(1, 3) {
			rule.Host = s.Rules[0].Host // the same host in two rules
		}
		np := r.Range(1, 2)
		for j := 0; j < np; j++ {
			p := onePath()
			if j == 1 && r.Chance(1, 3) {
				// the same path declared twice with another service
				p.Path, p.Type = rule.Paths[0].Path, rule.Paths[0].Type
			}
			rule.Paths = append(rule.Paths, p)
		}
		s.Rules = append(s.Rules, rule)
	}
	if r.Chance(1, 3) {
		t := world.TLSSpec{Secret: gen.Pick(r, append(append([]string(nil), g.secs...), "", "missing"))}
		if g.xns && r.Chance(2, 3) {
			// a certificate shared from another namespace (tracked under the secret's own namespace)
			t.Secret = gen.Pick(r, g.ns) + "/" + gen.Pick(r, g.secs)
		}
		nh := r.Range(1, 2)
		for i := 0; i < nh; i++ {
			if h := gen.Pick(r, g.host); h != "" {
				t.Hosts = append(t.Hosts, h)
			}
		}
		if len(t.Hosts) > 0 {
			s.TLS = append(s.TLS, t)
		}
	}
	if r.Chance(1, 6) {
		s.DefaultBackend = &world.PathSpec{Svc: gen.Pick(r, g.svcs), Port: gen.Pick(r, []string{"80", "80", "http", "9999"})}
	}
	if r.Chance(1, 4) {
		s.Annotations["app-root"] = gen.Pick(r, []string{"/app", "/home"})
	}
	if r.Chance(1, 3) {
		s.Annotations["balance-algorithm"] = gen.Pick(r, []string{"leastconn", "first"})
	}
	if r.Chance(1, 6) {
		s.Annotations["ssl-redirect"] = gen.Pick(r, []string{"true", "false"})
	}
	if r.Chance(1, 6) {
		s.Annotations["maxconn-server"] = gen.Pick(r, []string{"10", "20"})
	}
	if g.rich {
		switch r.Intn(14) {
		case 0:
			s.Annotations["tcp-service-port"] = gen.Pick(r, []string{"7000", "7001"})
		case 1:
			s.Annotations["auth-secret"] = "pw1"
		case 2:
			s.Annotations["auth-tls-secret"] = "ca1"
		case 3:
			s.Annotations["auth-url"] = "svc://" + gen.Pick(r, g.svcs) + ":8080"
		case 4:
			s.Annotations["auth-url"] = "svc://" + gen.Pick(r, g.svcs) + ":8080"
			s.Annotations["auth-external-placement"] = "frontend"
		case 5, 6:
			world.CreateTimeAnnotations(r, &s)
		}
	}
	return s
}

func c01tick(ts int) (t world.IngressSpec) {
	// creation second `ts` through the text form (the epoch is private to the world package)
	s, _ := world.ParseIngress(fmt.Sprintf("x/y@%d!-,-!-!-!-!-", ts))
	return s
}

func (g *c01gen) ingNames() []string {
	ks := make([]string, 0, len(g.ing))
	for k := range g.ing {
		ks = append(ks, k)
	}
	sort.Strings(ks)
	return ks
}

func (g *c01gen) newIngOp() []string {
	ns := gen.Pick(g.r, g.ns)
	name := fmt.Sprintf("i%d", g.r.Range(1, 4))
	key := ns + "/" + name
	if old, ok := g.ing[key]; ok {
		s := g.randomIngress(ns, name, &old)
		g.ing[key] = s
		return []string{"ing~" + world.IngressText(s)}
	}
	s := g.randomIngress(ns, name, nil)
	g.ing[key] = s
	ops := []string{"ing+" + world.IngressText(s)}
	switch g.r.Intn(10) {
	case 0: // create + update
		s2 := g.randomIngress(ns, name, &s)
		g.ing[key] = s2
		ops = append(ops, "ing~"+world.IngressText(s2))
	case 1: // create + delete
		delete(g.ing, key)
		ops = append(ops, "ing-"+key)
	}
	return ops
}

func (g *c01gen) ingOp() []string {
	r := g.r
	names := g.ingNames()
	if len(names) > 0 && r.Chance(1, 2) {
		key := gen.Pick(r, names)
		old := g.ing[key]
		switch r.Intn(8) {
		case 0, 1:
			delete(g.ing, key)
			return []string{"ing-" + key}
		case 2: // delete + create in one batch (new creation time)
			delete(g.ing, key)
			s := g.randomIngress(old.Namespace, old.Name, nil)
			if r.Chance(1, 2) {
				s.Rules, s.TLS, s.DefaultBackend = old.Rules, old.TLS, old.DefaultBackend
			}
			g.ing[key] = s
			return []string{"ing-" + key, "ing+" + world.IngressText(s)}
		case 3: // only the class moves
			s := old
			s.Annotations = map[string]string{}
			for k, v := range old.Annotations {
				s.Annotations[k] = v
			}
			s.ClassAnn, s.ClassName = nil, nil
			switch r.Intn(4) {
			case 0:
				s.ClassAnn = strp("haproxy")
			case 1:
				s.ClassAnn = strp("other")
			case 2:
				s.ClassName = strp("hap")
			case 3:
				s.ClassName = strp("foreign")
			}
			g.ing[key] = s
			return []string{"ing~" + world.IngressText(s)}
		}
		s := g.randomIngress(old.Namespace, old.Name, &old)
		g.ing[key] = s
		return []string{"ing~" + world.IngressText(s)}
	}
	return g.newIngOp()
}

func (g *c01gen) randomOp() []string {
	r := g.r
	ns := gen.Pick(r, g.ns)
	switch r.Intn(14) {
	case 0, 1:
		return []string{g.epOp(ns, gen.Pick(r, g.svcs))}
	case 2, 3:
		s := gen.Pick(r, g.svcs)
		if _, ok := g.svc[ns+"/"+s]; ok && r.Chance(1, 2) {
			delete(g.svc, ns+"/"+s)
			if r.Chance(1, 3) { // deleted and re-created in one batch
				return []string{"svc-" + ns + "/" + s, g.svcOp(ns, s), g.epOp(ns, s)}
			}
			return []string{"svc-" + ns + "/" + s}
		}
		if _, ok := g.svc[ns+"/"+s]; ok {
			return []string{g.svcOp(ns, s)}
		}
		return []string{g.svcOp(ns, s), g.epOp(ns, s)}
	case 4:
		s := gen.Pick(r, g.secs)
		if g.rich && r.Chance(1, 3) {
			s = gen.Pick(r, []string{"pw1", "ca1"})
		}
		if g.sec[ns+"/"+s] > 0 && r.Chance(1, 3) {
			delete(g.sec, ns+"/"+s)
			return []string{"sec-" + ns + "/" + s}
		}
		return []string{g.secOp(ns, s)}
	case 5:
		if r.Chance(1, 2) {
			return []string{"cls-hap"}
		}
		return []string{"cls+hap:" + gen.Pick(r, []string{world.OurController, world.OurController, "example.com/other"})}
	case 6:
		if g.rich {
			return g.richOp(ns)
		}
		return g.ingOp()
	default:
		return g.ingOp()
	}
}

// cm builds a ConfigMap op (the op replaces the whole data); with xns the permission key rides along, except
// now and then, when the permission is withdrawn
func (g *c01gen) cm(data string) string {
	if g.xns && !g.r.Chance(1, 6) {
		if data == "-" {
			data = "cross-namespace-secrets-crt=allow"
		} else {
			data += ";cross-namespace-secrets-crt=allow"
		}
	}
	return "cm~" + data
}

// richOp: ConfigMap (drain-support), pods coupled with endpoints like the endpoints controller does
func (g *c01gen) richOp(ns string) []string {
	r := g.r
	switch r.Intn(4) {
	case 0:
		return []string{g.cm("drain-support=" + gen.Pick(r, []string{"true", "true", "false"}))}
	case 1:
		return []string{g.cm(gen.Pick(r, []string{"-", "max-connections=500", "drain-support=true;max-connections=500", "ssl-redirect-code=301", "ssl-headers-prefix=X-TLS;ssl-redirect-code=307"}))}
	default:
		// a pod of service `s` appears together with its endpoint, or starts terminating and leaves the endpoints
		s := gen.Pick(r, g.svcs)
		base := map[string]int{"app": 1, "api": 2}[s]
		nsb := map[string]int{"d": 0, "e": 1}[ns]
		k := r.Range(1, 3)
		pod := fmt.Sprintf("%s/%s-%d", ns, s, k)
		ip := fmt.Sprintf("10.%d.%d.%d", nsb, base, k)
		if g.pods[pod] {
			delete(g.pods, pod)
			if r.Chance(1, 4) {
				return []string{"pod-" + pod, fmt.Sprintf("ep~%s/%s!-", ns, s)}
			}
			return []string{fmt.Sprintf("pod+%s!%s!app=%s!t", pod, ip, s), fmt.Sprintf("ep~%s/%s!-", ns, s)}
		}
		g.pods[pod] = true
		rd := gen.Pick(r, []string{"r", "r", "n"})
		return []string{fmt.Sprintf("pod+%s!%s!app=%s!-", pod, ip, s), fmt.Sprintf("ep~%s/%s!%s:%s:%s-%d", ns, s, ip, rd, s, k)}
	}
}

func (g *c01gen) history() []string {
	r := g.r
	var ops []string
	if r.Chance(1, 4) {
		// --default-backend-service pointing to one of the generated services
		ops = append(ops, "opt~db="+gen.Pick(r, g.ns)+"/"+gen.Pick(r, g.svcs))
	}
	for _, ns := range g.ns {
		for _, s := range g.svcs {
			if r.Chance(5, 6) {
				ops = append(ops, g.svcOp(ns, s), g.epOp(ns, s))
			}
		}
		for _, s := range g.secs {
			if r.Chance(3, 4) {
				ops = append(ops, g.secOp(ns, s))
			}
		}
		if g.rich {
			ops = append(ops, g.secOp(ns, "pw1"), g.secOp(ns, "ca1"))
		}
	}
	if r.Chance(3, 4) {
		ops = append(ops, "cls+hap:"+world.OurController)
	}
	ops = append(ops, "cls+foreign:example.com/other")
	if g.rich && r.Chance(1, 4) {
		// --backend-shards: shard files also render global settings (repair of the stale shards after a global change)
		ops = append([]string{"opt~shards=" + gen.Pick(r, []string{"1", "2", "3"})}, ops...)
	}
	if g.rich && r.Chance(1, 3) {
		g.xns = true
	}
	if g.rich && (g.xns || r.Chance(1, 2)) {
		ops = append(ops, g.cm("drain-support=true"))
	}
	n0 := r.Range(0, 4)
	for i := 0; i < n0; i++ {
		ops = append(ops, g.newIngOp()...)
	}
	ops = append(ops, "sync")
	nb := r.Range(1, 6)
	for b := 0; b < nb; b++ {
		no := r.Range(1, 3)
		for i := 0; i < no; i++ {
			ops = append(ops, g.randomOp()...)
		}
		ops = append(ops, "sync")
	}
	return ops
}

// scenario: directed shapes around "a declaration that loses now and wins later": a winner, a loser that
// shares its backend with an unrelated ingress (another host, another tracker component), then the event
// that removes the winner; followed by random batches. The loser is sometimes the same ingress as the
// winner (one ingress declaring a host/path twice) and the contested item is a host/path or the default backend.
func (g *c01gen) scenario() []string {
	r := g.r
	g.ns = []string{"d"}
	g.host = []string{"a.local", "b.local", "c.local", ""}
	g.svcs = []string{"app", "api", "web"}
	var ops []string
	for _, s := range g.svcs {
		g.svc["d/"+s] = 1
		ops = append(ops, fmt.Sprintf("svc+d/%s!%s!-", s, c01portsText(c01ports[1])), g.epOp("d", s))
	}
	ops = append(ops, "cls+hap:"+world.OurController)
	tracer := func(s *world.IngressSpec) {
		switch r.Intn(4) {
		case 0:
			s.Annotations["balance-algorithm"] = gen.Pick(r, []string{"leastconn", "first"})
		case 1:
			s.Annotations["maxconn-server"] = gen.Pick(r, []string{"10", "20"})
		case 2:
			s.Annotations["ssl-redirect"] = "false"
		}
	}
	mk := func(name string, ts int) world.IngressSpec {
		s := world.IngressSpec{Namespace: "d", Name: name, Annotations: map[string]string{}, ClassAnn: strp("haproxy")}
		s.Created = c01tick(ts).Created
		return s
	}
	order := []int{1, 2, 3}
	if r.Chance(1, 3) {
		gen.Shuffle(r, order)
	}
	g.ts = 3
	contested := gen.Pick(r, []string{"/a", "/", "/b"})
	ptype := gen.Pick(r, []string{"Prefix", "Exact", ""})
	port := gen.Pick(r, []string{"80", "http"})
	win, lose, other := mk("i1", order[0]), mk("i2", order[1]), mk("i3", order[2])
	shape := r.Intn(3)
	switch shape {
	case 0: // host/path contested by two ingresses
		win.Rules = []world.RuleSpec{{Host: "a.local", Paths: []world.PathSpec{{Path: contested, Type: ptype, Svc: "app", Port: port}}}}
		lose.Rules = []world.RuleSpec{{Host: "a.local", Paths: []world.PathSpec{{Path: contested, Type: ptype, Svc: "api", Port: port}}}}
	case 1: // default backend contested by two ingresses
		win.DefaultBackend = &world.PathSpec{Svc: "app", Port: port}
		lose.DefaultBackend = &world.PathSpec{Svc: "api", Port: port}
	case 2: // one ingress declares the path twice; the loser is the second declaration
		win.Rules = []world.RuleSpec{{Host: "a.local", Paths: []world.PathSpec{
			{Path: contested, Type: ptype, Svc: "app", Port: port}, {Path: contested, Type: ptype, Svc: "api", Port: port}}}}
		lose = win
	}
	tracer(&lose)
	if shape == 2 {
		win = lose
	}
	other.Rules = []world.RuleSpec{{Host: gen.Pick(r, []string{"b.local", "c.local"}), Paths: []world.PathSpec{{Path: "/", Type: "Prefix", Svc: "api", Port: port}}}}
	if r.Chance(1, 3) {
		tracer(&other)
	}
	first := []world.IngressSpec{win, lose, other}
	if shape == 2 {
		first = []world.IngressSpec{win, other}
	}
	if r.Chance(1, 2) {
		gen.Shuffle(r, first)
	}
	for _, s := range first {
		g.ing["d/"+s.Name] = s
		ops = append(ops, "ing+"+world.IngressText(s))
	}
	if r.Chance(1, 2) { // the unrelated ingress arrives in a later batch
		ops = ops[:len(ops)-1]
		last := first[len(first)-1]
		ops = append(ops, "sync")
		if port == "80" && last.Name == "i3" && r.Chance(1, 2) {
			// meanwhile the service maps the port to another target: the backend the loser resolves to changes
			g.svc["d/api"] = 3
			ops = append(ops, fmt.Sprintf("svc+d/api!%s!-", c01portsText(c01ports[3])), "sync")
		}
		ops = append(ops, "ing+"+world.IngressText(last))
	}
	ops = append(ops, "sync")
	// the event that removes the winner
	switch ev := r.Intn(5); {
	case ev == 0 && shape != 2:
		delete(g.ing, "d/i1")
		ops = append(ops, "ing-d/i1")
	case ev == 1 && shape != 2:
		w2 := win
		w2.ClassAnn = strp("other")
		g.ing["d/i1"] = w2
		ops = append(ops, "ing~"+world.IngressText(w2))
	case ev == 2 && shape == 0:
		w2 := win
		w2.Rules = []world.RuleSpec{{Host: "a.local", Paths: []world.PathSpec{{Path: "/other", Type: ptype, Svc: "app", Port: port}}}}
		g.ing["d/i1"] = w2
		ops = append(ops, "ing~"+world.IngressText(w2))
	case ev == 3 && port == "http":
		g.svc["d/app"] = 3
		ops = append(ops, fmt.Sprintf("svc+d/app!%s!-", c01portsText(c01ports[3])))
	default:
		delete(g.svc, "d/app")
		ops = append(ops, "svc-d/app")
	}
	ops = append(ops, "sync")
	nb := r.Range(0, 3)
	for b := 0; b < nb; b++ {
		no := r.Range(1, 3)
		for i := 0; i < no; i++ {
			ops = append(ops, g.randomOp()...)
		}
		ops = append(ops, "sync")
	}
	return ops
}

// tcpScenario: TCP-service ingresses contesting one port (by rule or by spec.defaultBackend), arriving in
// creation order or not, the owner leaving; differentially tested only (outside the Lean fragment).
func (g *c01gen) tcpScenario() []string {
	r := g.r
	g.ns = []string{"d"}
	g.svcs = []string{"app", "api"}
	var ops []string
	for _, s := range g.svcs {
		g.svc["d/"+s] = 1
		ops = append(ops, fmt.Sprintf("svc+d/%s!%s!-", s, c01portsText(c01ports[1])), g.epOp("d", s))
	}
	order := []int{1, 2, 3}
	gen.Shuffle(r, order)
	g.ts = 3
	mk := func(name string, ts int, svc string) world.IngressSpec {
		s := world.IngressSpec{Namespace: "d", Name: name, Annotations: map[string]string{"tcp-service-port": "7000"}, ClassAnn: strp("haproxy")}
		s.Created = c01tick(ts).Created
		if r.Chance(1, 2) {
			s.DefaultBackend = &world.PathSpec{Svc: svc, Port: "80"}
		} else {
			s.Rules = []world.RuleSpec{{Host: gen.Pick(r, []string{"", "", "a.local"}), Paths: []world.PathSpec{{Path: "/", Type: "Prefix", Svc: svc, Port: "80"}}}}
		}
		if r.Chance(1, 4) {
			s.Annotations["tcp-service-port"] = "7001"
		}
		return s
	}
	ings := []world.IngressSpec{mk("i1", order[0], "app"), mk("i2", order[1], "api"), mk("i3", order[2], "app")}
	n0 := r.Range(1, 3)
	for _, s := range ings[:n0] {
		g.ing["d/"+s.Name] = s
		ops = append(ops, "ing+"+world.IngressText(s))
	}
	ops = append(ops, "sync")
	for _, s := range ings[n0:] {
		g.ing["d/"+s.Name] = s
		ops = append(ops, "ing+"+world.IngressText(s), "sync")
	}
	nb := r.Range(1, 3)
	for b := 0; b < nb; b++ {
		names := g.ingNames()
		if len(names) > 0 && r.Chance(2, 3) {
			key := gen.Pick(r, names)
			delete(g.ing, key)
			ops = append(ops, "ing-"+key)
		} else {
			ops = append(ops, g.randomOp()...)
		}
		ops = append(ops, "sync")
	}
	return ops
}
