package main

import (
	"fmt"
	"os"
	"path/filepath"
	"strconv"
	"strings"
	"time"

	"github.com/jcmoraisjr/haproxy-ingress/pkg/haproxy"
	hatypes "github.com/jcmoraisjr/haproxy-ingress/pkg/haproxy/types"
	types_helper "github.com/jcmoraisjr/haproxy-ingress/pkg/types/helper_test"

	"hapverif/gen"
	"hapverif/hvutil"
	"hapverif/world"
)

func init() {
	props["C02"] = runC02
	replayers["C02"] = func(c *ctx, a []string) {
		if len(a) >= 3 && a[0] == "hist" {
			c02hist(c, a[1], a[2:])
		}
		if len(a) >= 3 && a[0] == "sock" {
			c02sockHist(c, a[1], a[2:])
		}
		if len(a) == 5 && a[0] == "pair" {
			c02case(c, "C02", c02parseFlags(a[1]), c02parseEPs(a[2]), c02parseEPs(a[3]), c02parseScript(a[4]))
		}
	}
}

type c02ep struct {
	name, ip      string
	port          int
	enabled       bool
	weight        int
	cookie, label string
	tref          string
	puid          int
}

type c02flags struct {
	dyn, res, pres, same bool
	minfree, block, iw   int
	aff                  bool // cookie affinity (session-cookie-name set); the dynamic update only looks at Preserve
	strat                string // how the cookie values were chosen: "name" (server-name) | "uid" (pod-uid) | "" (generator's own mix)
}

func b2s(b bool) string {
	if b {
		return "1"
	}
	return "0"
}

func (f c02flags) String() string {
	s := fmt.Sprintf("dyn=%s,res=%s,pres=%s,same=%s,minfree=%d,block=%d,iw=%d", b2s(f.dyn), b2s(f.res), b2s(f.pres), b2s(f.same), f.minfree, f.block, f.iw)
	if f.aff {
		s += ",aff=1"
	}
	if f.strat != "" {
		s += ",strat=" + f.strat
	}
	return s
}

func c02parseFlags(s string) c02flags {
	f := c02flags{}
	for _, kv := range strings.Split(s, ",") {
		p := strings.SplitN(kv, "=", 2)
		if len(p) != 2 {
			continue
		}
		n, _ := strconv.Atoi(p[1])
		switch p[0] {
		case "dyn":
			f.dyn = n == 1
		case "res":
			f.res = n == 1
		case "pres":
			f.pres = n == 1
		case "aff":
			f.aff = n == 1
		case "strat":
			f.strat = p[1]
		case "same":
			f.same = n == 1
		case "minfree":
			f.minfree = n
		case "block":
			f.block = n
		case "iw":
			f.iw = n
		}
	}
	return f
}

func q(s string) string {
	if s == "" {
		return "_"
	}
	return s
}
func unq(s string) string {
	if s == "_" {
		return ""
	}
	return s
}

func (e c02ep) String() string {
	en := "D"
	if e.enabled {
		en = "E"
	}
	return strings.Join([]string{q(e.name), q(e.ip), strconv.Itoa(e.port), en, strconv.Itoa(e.weight), q(e.cookie), q(e.label), q(e.tref), strconv.Itoa(e.puid)}, "~")
}

func c02fmtEPs(eps []c02ep) string {
	if len(eps) == 0 {
		return "-"
	}
	s := make([]string, len(eps))
	for i, e := range eps {
		s[i] = e.String()
	}
	return strings.Join(s, ",")
}

func c02parseEPs(s string) []c02ep {
	if s == "-" || s == "" {
		return nil
	}
	var res []c02ep
	for _, p := range strings.Split(s, ",") {
		f := strings.Split(p, "~")
		if len(f) != 9 {
			continue
		}
		port, _ := strconv.Atoi(f[2])
		w, _ := strconv.Atoi(f[4])
		pu, _ := strconv.Atoi(f[8])
		res = append(res, c02ep{unq(f[0]), unq(f[1]), port, f[3] == "E", w, unq(f[5]), unq(f[6]), unq(f[7]), pu})
	}
	return res
}

func c02parseScript(s string) []string {
	if s == "-" || s == "" {
		return nil
	}
	return strings.Split(s, ",")
}

var c02resp = map[byte]string{
	'o': "",
	'i': "IP changed from '10.0.0.1' to '10.0.0.2', no need to change port",
	'n': "no need to change the addr",
	'x': "No such server.",
	's': " IP changed from '10.0.0.1'",
	'u': "ip changed from '10.0.0.1'",
}

// one server of the HAProxy simulated behind the scripted socket
type c02srv struct {
	name, ip string
	port     int
	state    string // ready | drain | maint
	weight   int
	cookie   string // as loaded from the server line; no runtime command changes it
}

// c02load: what HAProxy holds after loading the server lines of a backend: haproxy.tmpl prints
// `server <name> <ip>:<port> [disabled] weight <w> [cookie <CookieValue>]`, the cookie iff CookieAffinity() and
// CookieValue != ""
func c02load(b *hatypes.Backend) []*c02srv {
	var t []*c02srv
	for _, ep := range b.Endpoints {
		srv := &c02srv{name: ep.Name, ip: ep.IP, port: ep.Port, state: "ready", weight: ep.Weight}
		if !ep.Enabled {
			srv.state = "maint"
		} else if ep.Weight == 0 {
			srv.state = "drain"
		}
		if b.CookieAffinity() && ep.CookieValue != "" {
			srv.cookie = ep.CookieValue
		}
		t = append(t, srv)
	}
	return t
}

func c02fmtTable(t []*c02srv) string {
	if len(t) == 0 {
		return "-"
	}
	s := make([]string, len(t))
	for i, x := range t {
		s[i] = strings.Join([]string{q(x.name), q(x.ip), strconv.Itoa(x.port), x.state, strconv.Itoa(x.weight), q(x.cookie)}, "~")
	}
	return strings.Join(s, ",")
}

// scripted admin socket; when `table` is set it also plays HAProxy: every `set server` that reaches it (no socket
// error) is applied to the table, whatever the scripted answer says
type c02sock struct {
	script []string
	calls  [][]string
	table  []*c02srv
}

func (s *c02sock) apply(cmd string) {
	f := strings.Fields(cmd)
	if len(f) < 5 || f[0] != "set" || f[1] != "server" {
		return
	}
	sl := strings.SplitN(f[2], "/", 2)
	if len(sl) != 2 {
		return
	}
	for _, srv := range s.table {
		if srv.name != sl[1] {
			continue
		}
		switch f[3] {
		case "addr":
			srv.ip = f[4]
			if len(f) >= 7 && f[5] == "port" {
				srv.port, _ = strconv.Atoi(f[6])
			}
		case "state":
			srv.state = f[4]
		case "weight":
			srv.weight, _ = strconv.Atoi(f[4])
		}
	}
}

func (s *c02sock) Address() string { return "" }
func (s *c02sock) HasConn() bool   { return true }
func (s *c02sock) Send(observer func(time.Duration), cmd ...string) ([]string, error) {
	s.calls = append(s.calls, cmd)
	k := len(s.calls) - 1
	out := make([]string, len(cmd))
	if k < len(s.script) && s.script[k] == "E" {
		return nil, fmt.Errorf("socket error")
	}
	for _, c := range cmd {
		s.apply(c)
	}
	if k < len(s.script) {
		sc := s.script[k]
		for i := range out {
			if i < len(sc) {
				out[i] = c02resp[sc[i]]
			}
		}
	}
	return out, nil
}
func (s *c02sock) Unlistening() error { return nil }
func (s *c02sock) Close() error       { return nil }

// canonical form of one exec (three `set server` commands)
func c02canonCall(cmd []string) string {
	if len(cmd) != 3 {
		return "BAD:" + strings.ReplaceAll(strings.Join(cmd, ";"), " ", "_")
	}
	var name [3]string
	var rest [3][]string
	for i, c := range cmd {
		f := strings.Fields(c)
		if len(f) < 5 || f[0] != "set" || f[1] != "server" {
			return "BAD:" + strings.ReplaceAll(c, " ", "_")
		}
		sl := strings.SplitN(f[2], "/", 2)
		if len(sl) != 2 {
			return "BAD:" + strings.ReplaceAll(c, " ", "_")
		}
		name[i] = sl[1]
		rest[i] = f[3:]
	}
	if name[0] != name[1] || name[1] != name[2] {
		return "BAD:names"
	}
	j := func(x []string) string { return strings.Join(x, " ") }
	if j(rest[0]) == "state maint" && j(rest[1]) == "addr 127.0.0.1 port 1023" && j(rest[2]) == "weight 0" {
		return "D!" + name[0]
	}
	if len(rest[0]) == 4 && rest[0][0] == "addr" && rest[0][2] == "port" && len(rest[1]) == 2 && rest[1][0] == "state" && len(rest[2]) == 2 && rest[2][0] == "weight" {
		return "E!" + name[0] + "!" + rest[0][1] + "!" + rest[0][3] + "!" + rest[2][1] + "!" + rest[1][1]
	}
	return "BAD:" + strings.ReplaceAll(j(cmd), " ", "_")
}

func c02fill(b *hatypes.Backend, f c02flags, eps []c02ep) {
	b.Dynamic.DynUpdate = f.dyn
	b.Dynamic.MinFreeSlots = f.minfree
	b.Dynamic.BlockSize = f.block
	if f.res {
		b.Resolver = "kube-dns"
	}
	b.Cookie.Preserve = f.pres
	if f.aff {
		b.Cookie.Name = "srv"
		b.Cookie.Strategy = "insert"
	}
	b.Server.InitialWeight = f.iw
	for _, e := range eps {
		ep := b.AddEndpoint(e.ip, e.port, e.tref)
		if e.name != "" {
			ep.Name = e.name
		}
		ep.Enabled = e.enabled
		ep.Weight = e.weight
		ep.CookieValue = e.cookie
		ep.Label = e.label
		ep.PUID = int32(e.puid)
	}
}

func c02read(b *hatypes.Backend) []c02ep {
	var res []c02ep
	for _, ep := range b.Endpoints {
		res = append(res, c02ep{ep.Name, ep.IP, ep.Port, ep.Enabled, ep.Weight, ep.CookieValue, ep.Label, ep.TargetRef, int(ep.PUID)})
	}
	return res
}

func c02case(c *ctx, prop string, f c02flags, old, cur []c02ep, script []string) {
	out := func() (res string) {
		defer func() {
			if r := recover(); r != nil {
				res = "PANIC"
			}
		}()
		inst := haproxy.CreateInstance(&hvutil.Logger{}, haproxy.InstanceOptions{Metrics: types_helper.NewMetricsMock()})
		cfg := inst.Config()
		b := cfg.Backends().AcquireBackend("d", "app", "8080")
		c02fill(b, f, old)
		cfg.Commit()
		cfg.Backends().RemoveAll([]string{b.ID})
		b2 := cfg.Backends().AcquireBackend("d", "app", "8080")
		c02fill(b2, f, cur)
		if !f.same {
			b2.Server.MaxConn = 7
		}
		// b is the committed backend: what the running HAProxy loaded at its last reload
		sock := &c02sock{script: script, table: c02load(b)}
		updated, _ := haproxy.VerifDynUpdate(inst, sock)
		cmds := make([]string, len(sock.calls))
		for i, cl := range sock.calls {
			cmds[i] = c02canonCall(cl)
		}
		cs := "-"
		if len(cmds) > 0 {
			cs = strings.Join(cmds, ",")
		}
		c02cookieStats(c, f, updated, sock.table, b2)
		return b2s(updated) + " " + cs + " " + c02fmtEPs(c02read(b2)) + " " + c02fmtTable(sock.table)
	}()
	sc := "-"
	if len(script) > 0 {
		sc = strings.Join(script, ",")
	}
	c.emit(prop, "pair "+f.String()+" "+c02fmtEPs(old)+" "+c02fmtEPs(cur)+" "+sc, out)
}

// c02cookieStats: how often the generated cases reach the cookie clause, and the two drifts that are outside it
func c02cookieStats(c *ctx, f c02flags, updated bool, run []*c02srv, written *hatypes.Backend) {
	if !updated || !f.aff || !f.dyn || f.res {
		return
	}
	byName := map[string]*hatypes.Endpoint{}
	for _, ep := range written.Endpoints {
		byName[ep.Name] = ep
	}
	live, slot := false, false
	for _, srv := range run {
		ep := byName[srv.name]
		if ep == nil || srv.cookie == ep.CookieValue {
			continue
		}
		if srv.state == "maint" {
			slot = true
		} else {
			live = true
		}
	}
	c.stat("pair_dyn_update_with_cookies_pres"+b2s(f.pres), 1)
	if live {
		// pres=0: by design (AddEmptyEndpoint comment), outside "preserved cookie values"; pres=1: the oracle clause
		c.stat("pair_live_cookie_differs_pres"+b2s(f.pres), 1)
	}
	if slot {
		// free slot whose written cookie is not the one HAProxy holds (pres=1: clause free-slot-cookie-differs-from-disk,
		// the defect repaired by 91faf0b; pres=0: outside the statement)
		c.stat("pair_free_slot_cookie_differs_pres"+b2s(f.pres), 1)
	}
}

// c02layout builds an endpoint list through the real API (realistic names), then tweaks fields
func c02layout(r *gen.Rng, f c02flags, naming int, n int, pool []string, dupOK bool, noEmpty bool) []c02ep {
	b := hatypes.CreateBackends(0).AcquireBackend("d", "gen", "1")
	b.Server.InitialWeight = f.iw
	switch naming {
	case 1:
		b.EpNaming = hatypes.EpTargetRef
	case 2:
		b.EpNaming = hatypes.EpIPPort
	}
	used := map[string]bool{}
	for i := 0; i < n; i++ {
		if r.Chance(1, 4) {
			if !noEmpty {
				b.AddEmptyEndpoint()
			}
			continue
		}
		t := gen.Pick(r, pool)
		if used[t] && !dupOK {
			if !noEmpty {
				b.AddEmptyEndpoint()
			}
			continue
		}
		used[t] = true
		ipport := strings.Split(t, ":")
		port, _ := strconv.Atoi(ipport[1])
		ep := b.AddEndpoint(ipport[0], port, "d/pod-"+strings.ReplaceAll(ipport[0], ".", "-"))
		switch r.Intn(6) {
		case 0:
			ep.Weight = 0
		case 1:
			ep.Weight = gen.Pick(r, []int{2, 100, 128, 256})
		}
		if r.Chance(1, 3) {
			ep.CookieValue = ep.Name
		} else if r.Chance(1, 4) {
			ep.CookieValue = "ck" + strconv.Itoa(r.Intn(3))
		}
		if r.Chance(1, 12) {
			ep.Label = "v" + strconv.Itoa(r.Intn(2))
		}
	}
	if !noEmpty && r.Chance(1, 5) {
		r2 := r.Fork()
		gen.Shuffle(r2, b.Endpoints)
	}
	return c02read(b)
}

func c02script(r *gen.Rng, n int) []string {
	if r.Chance(2, 3) {
		return nil
	}
	var sc []string
	ok := []byte{'o', 'i', 'n'}
	all := []byte{'o', 'i', 'n', 'x', 's', 'u'}
	for i := 0; i < n; i++ {
		switch r.Intn(8) {
		case 0:
			sc = append(sc, "E")
		case 1:
			sc = append(sc, string([]byte{gen.Pick(r, all), gen.Pick(r, all), gen.Pick(r, all)}))
		default:
			sc = append(sc, string([]byte{gen.Pick(r, ok), gen.Pick(r, ok), gen.Pick(r, ok)}))
		}
	}
	return sc
}

func c02random(c *ctx, prop string, r *gen.Rng, n int) {
	pool := []string{"10.0.0.1:8080", "10.0.0.2:8080", "10.0.0.3:8080", "10.0.0.4:8080", "10.0.0.1:9090", "10.0.0.5:8080", "10.0.0.6:8080"}
	for i := 0; i < n; i++ {
		f := c02flags{aff: r.Chance(1, 4), dyn: !r.Chance(1, 10), res: r.Chance(1, 15), pres: r.Chance(1, 6), same: !r.Chance(1, 12),
			minfree: r.Range(0, 6), block: r.Range(0, 8), iw: gen.Pick(r, []int{1, 1, 1, 100, 128})}
		naming := r.Intn(3)
		dup := r.Chance(1, 12)
		old := c02layout(r, f, naming, r.Range(0, 9), pool, dup, false)
		ncur := r.Range(0, len(old)+1)
		if r.Chance(1, 10) {
			ncur = r.Range(0, 10)
		}
		// current endpoints are never empty slots before the update (converters add real endpoints only,
		// so generated names are dense: srvNNN has NNN <= len)
		cur2 := c02layout(r, f, naming, ncur, pool, dup, true)
		if dup {
			c.stat("dup_targets_allowed", 1)
		}
		c.stat(fmt.Sprintf("old_%02d", len(old)), 1)
		c02case(c, prop, f, old, cur2, c02script(r, len(old)+2))
	}
}

// c02derived: the current list is DERIVED from the old one (what a re-parse of the same backend gives): the same
// endpoints in another order, one dropped / added / replaced, one weight or label changed — for dynamic and for
// static (dynamic-scaling false) backends. Independent random lists almost never hold the same targets, so the
// decision "same endpoints => nothing to do, any other difference on a static backend => reload" was not exercised
// (missed seed C02d: a static backend whose endpoints only changed their order was taken as unchanged).
func c02derived(c *ctx, prop string, r *gen.Rng, n int) {
	pool := []string{"10.0.0.1:8080", "10.0.0.2:8080", "10.0.0.3:8080", "10.0.0.4:8080", "10.0.0.1:9090", "10.0.0.5:8080", "10.0.0.6:8080"}
	for i := 0; i < n; i++ {
		f := c02flags{aff: r.Chance(1, 4), dyn: r.Bool(), res: r.Chance(1, 20), pres: r.Chance(1, 8), same: !r.Chance(1, 15),
			minfree: r.Range(0, 3), block: r.Range(0, 4), iw: gen.Pick(r, []int{1, 1, 100})}
		naming := r.Intn(3)
		noEmpty := !f.dyn || r.Chance(1, 3)
		old := c02layout(r, f, naming, r.Range(1, 6), pool, false, noEmpty)
		var real []c02ep
		for _, e := range old {
			if e.enabled {
				real = append(real, e)
			}
		}
		kind := r.Intn(7)
		switch kind {
		case 0: // identical
		case 1: // another order
			gen.Shuffle(r.Fork(), real)
		case 2: // one dropped
			if len(real) > 0 {
				k := r.Intn(len(real))
				real = append(real[:k:k], real[k+1:]...)
			}
		case 3: // one added
			real = append(real, c02ep{"", "10.0.0.9", 8080, true, f.iw, "", "", "d/pod-10-0-0-9", 0})
		case 4: // one replaced
			if len(real) > 0 {
				k := r.Intn(len(real))
				real[k].ip, real[k].tref = "10.0.0.8", "d/pod-10-0-0-8"
			}
		case 5: // weight change
			if len(real) > 0 {
				k := r.Intn(len(real))
				real[k].weight = gen.Pick(r, []int{0, 1, 2, 100})
			}
		case 6: // another order and one weight change
			gen.Shuffle(r.Fork(), real)
			if len(real) > 0 {
				real[0].weight = gen.Pick(r, []int{0, 2})
			}
		}
		// names as the converter gives them: a fresh backend filled through the real API in the new order
		b := hatypes.CreateBackends(0).AcquireBackend("d", "gen", "1")
		b.Server.InitialWeight = f.iw
		switch naming {
		case 1:
			b.EpNaming = hatypes.EpTargetRef
		case 2:
			b.EpNaming = hatypes.EpIPPort
		}
		for _, e := range real {
			ep := b.AddEndpoint(e.ip, e.port, e.tref)
			ep.Weight, ep.Label = e.weight, e.label
			if e.cookie == e.name {
				ep.CookieValue = ep.Name
			} else {
				ep.CookieValue = e.cookie
			}
		}
		cur := c02read(b)
		c.stat(fmt.Sprintf("derived_kind%d_dyn%s", kind, b2s(f.dyn)), 1)
		c02case(c, prop, f, old, cur, c02script(r, len(old)+2))
	}
}

// c02hist: end-to-end form of the statement. A history goes through the real pipeline (watchers,
// converters, Instance, templates) talking to the simulated HAProxy; after EVERY reconcile the running
// server table and the certificates held in memory must equal what HAProxy would load from the files on
// disk. `faults` = occurrence indexes of admin socket calls answered badly ("b3" = 4th call answers
// "No such server.", "e5" = 6th call is a socket error), comma separated, "-" for none.
func c02hist(c *ctx, faults string, ops []string) {
	out := func() (res string) {
		defer func() {
			if r := recover(); r != nil {
				res = "panic:" + sanitize(fmt.Sprint(r))
			}
		}()
		w := world.NewWorld()
		// pseudo op `opt~db=ns/name`: controller option --default-backend-service
		opt, ops := syncOptions(ops)
		p, err := world.NewPipeline(w, opt)
		if err != nil {
			return "skip:" + sanitize(err.Error())
		}
		defer p.Close()
		p.Sim.Faults.AdminBad = map[int]string{}
		p.Sim.Faults.AdminErr = map[int]bool{}
		if faults != "-" {
			for _, f := range strings.Split(faults, ",") {
				if len(f) < 2 {
					continue
				}
				n, _ := strconv.Atoi(f[1:])
				if f[0] == 'b' {
					p.Sim.Faults.AdminBad[n] = "REFUSE"
				} else {
					p.Sim.Faults.AdminErr[n] = true
				}
			}
		}
		var steps []string
		for _, o := range append(append([]string(nil), ops...), "sync") {
			if o != "sync" {
				evs, err := w.Apply(world.Op{Text: o})
				if err != nil {
					return "skip:" + sanitize(err.Error())
				}
				p.Deliver(evs)
				continue
			}
			before := p.Sim.Reloads
			if _, err := p.Reconcile(); err != nil {
				steps = append(steps, "err")
				continue
			}
			disk, err := world.DiskTable(p.CfgDir)
			if err != nil {
				return "skip:" + sanitize(err.Error())
			}
			run := p.Sim.RunningTable()
			st := "dyn"
			if p.Sim.Reloads > before {
				st = "reload"
			}
			if strings.Join(disk, "\n") != strings.Join(run, "\n") {
				d := ""
				for i := range disk {
					if i >= len(run) || disk[i] != run[i] {
						d = "disk[" + disk[i] + "]"
						if i < len(run) {
							d += "run[" + run[i] + "]"
						}
						break
					}
				}
				st += ":diff:" + sanitize(d)
			}
			// cookie column: the cookie every running server was loaded with next to the cookie on its server line
			ck, err := c02cookieStep(p)
			if err != nil {
				return "skip:" + sanitize(err.Error())
			}
			// certificates held in memory vs files
			for f, content := range p.Sim.Certs {
				// the controller sends the file without blank lines (runtime API restriction): compare modulo blank lines
				normc := func(x string) string { return strings.TrimSpace(strings.ReplaceAll(x, "\n\n", "\n")) }
				if b, err := os.ReadFile(f); err == nil && normc(string(b)) != normc(content) {
					st += ":crtdiff:" + sanitize(filepath.Base(f))
					if os.Getenv("HV_DEBUG") != "" {
						dn, _ := world.ContentName(string(b))
						rn, _ := world.ContentName(content)
						fmt.Fprintf(os.Stderr, "crtdiff %s disk=%s(%d bytes) running=%s(%d bytes)\n", f, dn, len(b), rn, len(content))
					}
				}
			}
			if ck != "" {
				c.stat("hist_steps_with_cookie_backends_"+st[:strings.IndexAny(st+":", ":")], 1)
			}
			steps = append(steps, st+ck)
		}
		c.stat(fmt.Sprintf("hist_cmds_%v", len(p.Sim.Cmds) > 0), 1)
		return strings.Join(steps, ",")
	}()
	c.emit("C02", "hist "+faults+" "+strings.Join(ops, " "), out)
}

// c02cookieStep renders, for every backend whose server lines carry `cookie <value>`, the cookie each server of the
// simulated HAProxy holds (loaded at its last reload; `set server` cannot change it) next to the cookie of the server
// line just written: `;K<backend>!<preserve 0|1>!<server>~<running state>~<running cookie>~<disk cookie>+...`
// (`_` = no cookie, `?` = no such server on that side). Backends that render no cookie are left out.
func c02cookieStep(p *world.Pipeline) (string, error) {
	cfg, err := world.LoadConfig(p.CfgDir)
	if err != nil {
		return "", err
	}
	p.Sim.RunningTable() // lock round trip: the table is read after the simulated HAProxy is done
	var out strings.Builder
	for _, be := range world.SortedKeys(cfg.Backends) {
		sec := cfg.Backends[be]
		pres := false
		type row struct{ st, run, disk string }
		rows := map[string]*row{}
		rendered := false
		for _, l := range sec.Lines {
			if len(l) >= 2 && l[0] == "cookie" {
				for _, t := range l[2:] {
					if t == "preserve" {
						pres = true
					}
				}
			}
			if len(l) >= 3 && l[0] == "server" {
				rw := &row{st: "?", run: "?", disk: ""}
				for j := 3; j+1 < len(l); j++ {
					if l[j] == "cookie" {
						rw.disk = l[j+1]
						rendered = true
					}
				}
				rows[l[1]] = rw
			}
		}
		for _, srv := range p.Sim.Table[be] {
			rw := rows[srv.Name]
			if rw == nil {
				rw = &row{disk: "?"}
				rows[srv.Name] = rw
			}
			rw.st, rw.run = srv.State, srv.Cookie
			if srv.Cookie != "" {
				rendered = true
			}
		}
		if !rendered {
			continue
		}
		var parts []string
		for _, n := range world.SortedKeys(rows) {
			parts = append(parts, n+"~"+rows[n].st+"~"+q(rows[n].run)+"~"+q(rows[n].disk))
		}
		out.WriteString(";K" + be + "!" + b2s(pres) + "!" + strings.Join(parts, "+"))
	}
	return out.String(), nil
}

func c02histGen(c *ctx, r *gen.Rng, n int) {
	cfg := world.DefaultGen()
	cfg.Classes = false
	cfg.MaxBatches = 8
	// a secret whose file name contains the word HAProxy answers a successful commit with: refusals echo the file name
	// (seed C02g matches the answer case-insensitively)
	cfg.Secrets = append(append([]string{}, cfg.Secrets...), "success")
	for i := 0; i < n; i++ {
		g := world.NewGen(r.Fork(), cfg)
		ops := g.History()
		// more endpoint churn and secret rotation between the batches
		var out []string
		for _, o := range ops {
			out = append(out, o)
			if o == "sync" && r.Chance(2, 3) {
				for k := r.Range(1, 3); k > 0; k-- {
					out = append(out, g.ChurnOp())
				}
				out = append(out, "sync")
			}
			// the same certificate replicated into several secrets, renewed everywhere in one batch
			if o == "sync" && r.Chance(1, 3) {
				out = append(out, g.SharedSecOps()...)
				if r.Chance(1, 2) {
					out = append(out, g.ChurnOp())
				}
				out = append(out, "sync")
			}
		}
		if r.Chance(1, 5) {
			// --default-backend-service: its backend is referenced by no host
			out = append([]string{"opt~db=" + gen.Pick(r, cfg.Namespaces) + "/" + gen.Pick(r, cfg.Services)}, out...)
		}
		if r.Chance(1, 3) {
			// backend shards: several backends per shard file, only the changed shards are rewritten
			out = append([]string{"opt~shards=" + gen.Pick(r, []string{"1", "2", "3"})}, out...)
		}
		faults := "-"
		if r.Chance(1, 3) {
			var fs []string
			for k := r.Range(1, 3); k > 0; k-- {
				fs = append(fs, gen.Pick(r, []string{"b", "e"})+strconv.Itoa(r.Intn(12)))
			}
			faults = strings.Join(fs, ",")
		}
		c02hist(c, faults, out)
	}
}

// ---- cookie column: generators -------------------------------------------------------------------------------
//
// Cookie values as the converter gives them (syncBackendEndpointCookies runs BEFORE the dynamic update renames the
// endpoints): strategy server-name -> the name the endpoint has in the freshly built backend (srv001… in order),
// strategy pod-uid -> the uid of the pod; no cookie affinity -> CookieValue stays "". Free slots always carry the
// placeholder AddEmptyEndpoint gives them (their generated name), or whatever an earlier update left there.

func c02ckValue(aff bool, strat, convName, pod string) string {
	if !aff {
		return ""
	}
	if strat == "uid" {
		return "uid-" + pod
	}
	return convName
}

// c02cookieExhaustive: small scope over (preserve, affinity, strategy, #servers, #free slots, #added = fits/overflows,
// cookie of the free slots = placeholder / stale / equal to the added endpoint's, one server replaced or not)
func c02cookieExhaustive(c *ctx) {
	for _, pres := range []bool{false, true} {
		for _, aff := range []bool{false, true} {
			for _, strat := range []string{"name", "uid"} {
				for k := 0; k <= 2; k++ {
					for m := 0; m <= 2; m++ {
						for a := 0; a <= m+1; a++ {
							for _, slotck := range []string{"placeholder", "stale", "eqnew"} {
								for repl := 0; repl <= 1 && repl <= k; repl++ {
									f := c02flags{dyn: true, same: true, block: 1, iw: 1, pres: pres, aff: aff, strat: strat}
									var old, cur []c02ep
									for i := 1; i <= k; i++ {
										n := fmt.Sprintf("srv%03d", i)
										pod := fmt.Sprintf("app-%d", i)
										old = append(old, c02ep{n, fmt.Sprintf("10.0.0.%d", i), 8080, true, 1, c02ckValue(aff, strat, n, pod), "", "d/" + pod, 0})
									}
									// current list, converter names in order
									add := func(ip, pod string) {
										n := fmt.Sprintf("srv%03d", len(cur)+1)
										cur = append(cur, c02ep{n, ip, 8080, true, 1, c02ckValue(aff, strat, n, pod), "", "d/" + pod, 0})
									}
									for i := 1; i <= k; i++ {
										if i == 1 && repl == 1 {
											add("10.0.1.1", "new-1")
										} else {
											add(fmt.Sprintf("10.0.0.%d", i), fmt.Sprintf("app-%d", i))
										}
									}
									first := len(cur)
									for j := 1; j <= a; j++ {
										add(fmt.Sprintf("10.0.2.%d", j), fmt.Sprintf("add-%d", j))
									}
									for j := 1; j <= m; j++ {
										n := fmt.Sprintf("srv%03d", k+j)
										ck := n
										switch slotck {
										case "stale":
											ck = fmt.Sprintf("uid-gone-%d", j)
										case "eqnew":
											if first+j-1 < len(cur) {
												ck = cur[first+j-1].cookie
											}
										}
										old = append(old, c02ep{n, "127.0.0.1", 1023, false, 1, ck, "", "", 0})
									}
									fits := "fits"
									if a > m {
										fits = "overflows"
									}
									c.stat("cookie_exh_"+fits, 1)
									c02case(c, "C02", f, old, cur, nil)
								}
							}
						}
					}
				}
			}
		}
	}
}

// c02cookieRandom: random slot layouts (all naming modes) with cookie values by strategy, stale slot cookies left by
// earlier updates, preserve on/off, response scripts
func c02cookieRandom(c *ctx, r *gen.Rng, n int) {
	pool := []string{"10.0.0.1:8080", "10.0.0.2:8080", "10.0.0.3:8080", "10.0.0.4:8080", "10.0.0.1:9090", "10.0.0.5:8080", "10.0.0.6:8080"}
	podOf := func(e c02ep) string { return strings.TrimPrefix(e.tref, "d/") + "-" + strconv.Itoa(e.port) }
	for i := 0; i < n; i++ {
		f := c02flags{dyn: true, same: !r.Chance(1, 20), aff: !r.Chance(1, 5), pres: r.Bool(), minfree: r.Range(0, 3), block: r.Range(0, 4), iw: 1,
			strat: gen.Pick(r, []string{"name", "uid"})}
		naming := r.Intn(3)
		old := c02layout(r, f, naming, r.Range(1, 7), pool, false, false)
		for j := range old {
			e := &old[j]
			e.label = ""
			switch {
			case !e.enabled && r.Chance(1, 3):
				// slot released by an earlier update / placeholder of another position
				e.cookie = gen.Pick(r, []string{"uid-gone", "srv001", "srv002", "srv003"})
			case !e.enabled:
				e.cookie = e.name
			case f.strat == "name" && r.Chance(1, 4):
				e.cookie = c02ckValue(f.aff, "name", gen.Pick(r, []string{"srv001", "srv002", "srv003"}), "")
			default:
				e.cookie = c02ckValue(f.aff, f.strat, e.name, podOf(*e))
			}
		}
		cur := c02layout(r, f, naming, r.Range(0, len(old)), pool, false, true)
		for j := range cur {
			e := &cur[j]
			e.label = ""
			e.cookie = c02ckValue(f.aff, f.strat, e.name, podOf(*e))
		}
		c.stat("cookie_rnd_pres"+b2s(f.pres)+"_"+f.strat, 1)
		c02case(c, "C02", f, old, cur, c02script(r, len(old)+2))
	}
}

// c02cookieHistory: one service behind an ingress with cookie affinity; `sets` = the pods behind the service after
// each reconcile (indexes into app-1…). The real converter computes the cookie values (server-name / pod-uid).
func c02cookieHistory(pres bool, strat string, minfree int, sets [][]int) []string {
	ann := "affinity=cookie;session-cookie-dynamic=false;session-cookie-name=srv"
	if pres {
		ann += ";session-cookie-preserve=true"
	}
	if strat == "uid" {
		ann += ";session-cookie-value-strategy=pod-uid"
	}
	ops := []string{"cm~slots-min-free=" + strconv.Itoa(minfree), "svc+d/app!http:80:8080!-"}
	for i := 1; i <= 6; i++ {
		ops = append(ops, fmt.Sprintf("pod+d/app-%d!10.0.1.%d!-!-", i, i))
	}
	epOp := func(set []int) string {
		if len(set) == 0 {
			return "ep~d/app!-"
		}
		var parts []string
		for _, i := range set {
			parts = append(parts, fmt.Sprintf("10.0.1.%d:r:app-%d", i, i))
		}
		return "ep~d/app!" + strings.Join(parts, "+")
	}
	for k, set := range sets {
		ops = append(ops, epOp(set))
		if k == 0 {
			ops = append(ops, "ing+d/i1@1!haproxy,-!"+ann+"!a.local>/:Prefix:app:80!-!-")
		}
		if k < len(sets)-1 {
			ops = append(ops, "sync")
		}
	}
	return ops
}

// c02podStep: the next pod set: add the next unused pod, drop the first / the last, replace the first
func c02podStep(set []int, kind int, next *int) []int {
	res := append([]int(nil), set...)
	switch kind {
	case 0:
		res = append(res, *next)
		*next++
	case 1:
		if len(res) > 0 {
			res = res[1:]
		}
	case 2:
		if len(res) > 0 {
			res = res[:len(res)-1]
		}
	case 3:
		if len(res) > 0 {
			res[0] = *next
			*next++
		}
	case 4: // reverse the order the endpoints are listed in
		for i, j := 0, len(res)-1; i < j; i, j = i+1, j-1 {
			res[i], res[j] = res[j], res[i]
		}
	}
	return res
}

// c02cookieHistExhaustive: (preserve, strategy, slots-min-free) x (1 or 2 pods at start) x every sequence of two
// changes out of {scale up, drop first, drop last, replace first}
func c02cookieHistExhaustive(c *ctx) {
	for _, pres := range []bool{true, false} {
		for _, strat := range []string{"name", "uid"} {
			for _, mf := range []int{1, 2} {
				for n0 := 1; n0 <= 2; n0++ {
					for k1 := 0; k1 < 4; k1++ {
						for k2 := 0; k2 < 4; k2++ {
							next := n0 + 1
							s0 := []int{1, 2}[:n0]
							s1 := c02podStep(s0, k1, &next)
							s2 := c02podStep(s1, k2, &next)
							c.stat("cookie_hist_exh", 1)
							c02hist(c, "-", c02cookieHistory(pres, strat, mf, [][]int{s0, s1, s2}))
						}
					}
				}
			}
		}
	}
}

func c02cookieHistRandom(c *ctx, r *gen.Rng, n int) {
	for i := 0; i < n; i++ {
		next := 3
		set := []int{1, 2}[:r.Range(1, 2)]
		if len(set) == 1 {
			next = 2
		}
		sets := [][]int{set}
		for k := r.Range(3, 6); k > 0; k-- {
			kind := r.Intn(5)
			if next > 6 && (kind == 0 || kind == 3) {
				kind = 1
			}
			set = c02podStep(set, kind, &next)
			sets = append(sets, set)
		}
		faults := "-"
		if r.Chance(1, 4) {
			faults = gen.Pick(r, []string{"b", "e"}) + strconv.Itoa(r.Intn(6))
		}
		c.stat("cookie_hist_rnd", 1)
		c02hist(c, faults, c02cookieHistory(r.Chance(2, 3), gen.Pick(r, []string{"name", "uid"}), r.Range(1, 3), sets))
	}
}

func runC02(c *ctx) {
	if os.Getenv("HV_C02_ONLY") == "sock" { // development aid: the sock mode alone
		runC02Sock(c, gen.New(c.seed))
		return
	}
	f := c02flags{dyn: true, same: true, block: 1, iw: 1}
	ep := func(name, ip string, en bool, w int) c02ep {
		port := 8080
		if !en {
			port = 1023
		}
		return c02ep{name, ip, port, en, w, name, "", "", 0}
	}
	// corpus
	c02case(c, "C02", f, []c02ep{ep("srv001", "10.0.0.1", true, 1), ep("srv002", "127.0.0.1", false, 1)}, []c02ep{ep("srv001", "10.0.0.1", true, 1), ep("srv002", "10.0.0.2", true, 1)}, nil)
	c02case(c, "C02", f, []c02ep{ep("srv001", "10.0.0.1", true, 1), ep("srv002", "10.0.0.2", true, 1)}, []c02ep{ep("srv001", "10.0.0.2", true, 1)}, []string{"oxo"})
	// duplicate targets in the current list (what Gateway backendRefs resolving to the same address produce)
	c02case(c, "C02", f, []c02ep{ep("srv001", "10.0.0.1", true, 1), ep("srv002", "127.0.0.1", false, 1)}, []c02ep{ep("srv001", "10.0.0.1", true, 1), ep("srv002", "10.0.0.1", true, 1)}, nil)
	// one certificate replicated into two secrets (two files, same content) and renewed in one batch
	c02hist(c, "-", strings.Fields("svc+d/app!http:80:8080!- ep~d/app!10.0.1.1:r:app-1 svc+e/app!http:80:8080!- ep~e/app!10.1.1.1:r:app-1 "+
		"sec+d/tls1!tls!1000!a.local+b.local sec+e/tls1!tls!1000!a.local+b.local "+
		"ing+d/i1@1!haproxy,-!-!a.local>/:Prefix:app:80!a.local>tls1!- ing+e/i2@2!haproxy,-!-!b.local>/:Prefix:app:80!b.local>tls1!- sync "+
		"sec~d/tls1!tls!1001!a.local+b.local sec~e/tls1!tls!1001!a.local+b.local sync"))
	// a certificate renewal whose `set ssl cert` / `commit ssl cert` is REFUSED by HAProxy (the refusal echoes the file
	// name), for every position of the refused command and file names that contain the words of HAProxy's own
	// answers (seed C02g reads "success" anywhere in the answer as OK): refused => reload
	for _, sec := range []string{"success", "tls1", "transaction"} {
		for k := 0; k < 6; k++ {
			c02hist(c, "b"+strconv.Itoa(k), strings.Fields("svc+d/app!http:80:8080!- ep~d/app!10.0.1.1:r:app-1 sec+d/"+sec+"!tls!1!a.local "+
				"ing+d/i1@1!haproxy,-!-!a.local>/:Prefix:app:80!a.local>"+sec+"!- sync sec~d/"+sec+"!tls!2!a.local sync ep~d/app!10.0.1.2:r:app-2 sync"))
		}
	}
	// 8f7ea63: the service behind --default-backend-service goes away: no host changes, a reload is needed
	c02hist(c, "-", strings.Fields("opt~db=d/web svc+d/web!http:80:8080!- ep~d/web!10.0.3.1:r:web-1 svc+d/app!http:80:8080!- ep~d/app!10.0.1.1:r:app-1 "+
		"ing+d/i1@1!haproxy,-!-!a.local>/a:Prefix:app:80!-!- sync svc-d/web sync"))
	// shards: two backends of one shard dirty in the same reconcile, one re-parsed unchanged (Shrink drops it), the
	// other updated through the socket: the shard file must follow (2 shards, 4 services: some pair shares a shard)
	c02hist(c, "-", strings.Fields("opt~shards=2 svc+d/app!http:80:8080!- ep~d/app!10.0.1.1:r:app-1 svc+d/api!http:80:8080!- ep~d/api!10.0.2.1:r:api-1 "+
		"svc+d/web!http:80:8080!- ep~d/web!10.0.3.1:r:web-1 svc+e/app!http:80:8080!- ep~e/app!10.1.1.1:r:app-1 "+
		"ing+d/i1@1!haproxy,-!-!a.local>/a:Prefix:app:80+/b:Prefix:api:80+/c:Prefix:web:80!-!- ing+e/i2@2!haproxy,-!-!b.local>/:Prefix:app:80!-!- sync "+
		"ep~d/app!10.0.1.2:r:app-2 sync ep~d/api!10.0.2.2:r:api-2 sync ep~d/web!10.0.3.2:r:web-2 sync ep~e/app!10.1.1.2:r:app-2 sync"))
	// seed C02e (preserve guard of the loop that fills empty slots gone): one pod + one free slot, pod-uid cookies,
	// session-cookie-preserve, a second pod: must reload; applied dynamically srv002 keeps the cookie `srv002` it was
	// loaded with while the written server line says `cookie uid-app-2`
	c02case(c, "C02", c02flags{dyn: true, same: true, block: 1, iw: 1, pres: true, aff: true, strat: "uid"},
		[]c02ep{{"srv001", "10.0.0.1", 8080, true, 1, "uid-app-1", "", "d/app-1", 0}, {"srv002", "127.0.0.1", 1023, false, 1, "srv002", "", "", 0}},
		[]c02ep{{"srv001", "10.0.0.1", 8080, true, 1, "uid-app-1", "", "d/app-1", 0}, {"srv002", "10.0.0.2", 8080, true, 1, "uid-app-2", "", "d/app-2", 0}}, nil)
	// the same end to end (real converter, template, simulated HAProxy)
	c02hist(c, "-", c02cookieHistory(true, "uid", 1, [][]int{{1}, {1, 2}}))
	// 91faf0b (Props/C02Cookie.lean free_slot_cookie_drift): the free slots carried over by a dynamic update got a new
	// placeholder cookie. preserve + server-name, one pod and one free slot; the pod goes away (srv001 disabled; the two
	// free slots were written with exchanged cookies: `srv002 … cookie srv001`), another pod arrives: its cookie
	// `srv001` equalled the in-memory cookie of slot srv002, which HAProxy loaded as `srv002`: enabled without reload
	c02hist(c, "-", c02cookieHistory(true, "name", 1, [][]int{{1}, {}, {2}}))
	// the same with two pods (the Lean witness)
	c02hist(c, "-", c02cookieHistory(true, "name", 1, [][]int{{1, 2}, {1}, {1, 3}}))
	// and as a pair: scale-down with a free slot in front of the released one: the written free slots must keep the
	// cookies HAProxy holds (clause free-slot-cookie-differs-from-disk)
	c02case(c, "C02", c02flags{dyn: true, same: true, block: 1, iw: 1, pres: true, aff: true, strat: "name"},
		[]c02ep{{"srv001", "10.0.0.1", 8080, true, 1, "srv001", "", "d/app-1", 0}, {"srv002", "10.0.0.2", 8080, true, 1, "srv002", "", "d/app-2", 0}, {"srv003", "127.0.0.1", 1023, false, 1, "srv003", "", "", 0}},
		[]c02ep{{"srv001", "10.0.0.1", 8080, true, 1, "srv001", "", "d/app-1", 0}}, nil)
	c02cookieExhaustive(c)
	c02cookieHistExhaustive(c)
	r := gen.New(c.seed)
	n := 6000
	if c.thorough() {
		n = 300000
	}
	c02random(c, "C02", r, n)
	nd := 2000
	if c.thorough() {
		nd = 60000
	}
	c02derived(c, "C02", r.Fork(), nd)
	nh := 80
	if c.thorough() {
		nh = 3000
	}
	c02histGen(c, r.Fork(), nh)
	// cookie column: own forks, after the existing generators (their cases stay what they were)
	nc := 2000
	if c.thorough() {
		nc = 60000
	}
	c02cookieRandom(c, r.Fork(), nc)
	nch := 40
	if c.thorough() {
		nch = 1500
	}
	c02cookieHistRandom(c, r.Fork(), nch)
	// real socket clients against worker generations behind real unix sockets (c02sock.go): own fork, last
	runC02Sock(c, r.Fork())
}
