package main

// C05 — files on disk hold exactly the current model.
//
// api mode: the real hatypes.Backends driven op by op through its public API; the harness keeps a
//   "disk" that is written exactly like instance.writeConfig does (BuildSortedItems when there are
//   no shards, BuildSortedShard(k) for k in ChangedShards() otherwise).
// e2e mode: a real haproxy.Instance (external mode, reload queue, temp dir); `u` is the real
//   HAProxyUpdate and the disk is what is found in haproxy.cfg / haproxy5-backendNNN.cfg.
//
// case line: C05 <api|e2e> <n> <shard of name 0>.<shard of name 1>... <op>,<op>,... => <obs>;<obs>;...
//
// al mode (c05align.go): backends with dynamic scaling through a real Instance (simulated sockets): scale-ups applied
//   without reload, reloads that run alignSlots over every backend; every file against a fresh rendering of the items.
//
// fx mode (c05faults.go): ingresses (host with TLS + backend with per-path ACLs) and a tcp service through a
//   real Instance with write faults injected between successful updates; every file against a fresh instance.

import (
	"context"
	"fmt"
	"os"
	"path/filepath"
	"regexp"
	"sort"
	"strconv"
	"strings"
	"time"

	"github.com/jcmoraisjr/haproxy-ingress/pkg/haproxy"
	hatypes "github.com/jcmoraisjr/haproxy-ingress/pkg/haproxy/types"
	"github.com/jcmoraisjr/haproxy-ingress/pkg/utils"

	"hapverif/gen"
)

func init() {
	props["C05"] = runC05
	replayers["C05"] = func(c *ctx, a []string) {
		if len(a) == 5 && a[0] == "fx" {
			c05fxReplay(c, a)
			return
		}
		if len(a) == 3 && a[0] == "cnt" {
			c05cntReplay(c, a)
			return
		}
		if len(a) == 5 && a[0] == "al" {
			c05alReplay(c, a)
			return
		}
		if len(a) != 4 {
			return
		}
		n, err := strconv.Atoi(a[1])
		if err != nil {
			return
		}
		if a[0] == "maps" {
			if p, err := strconv.Atoi(a[2]); err == nil {
				c05mapsCase(c, n, p, strings.Split(a[3], ","))
			}
			return
		}
		var want []int
		for _, s := range strings.Split(a[2], ".") {
			k, err := strconv.Atoi(s)
			if err != nil {
				return
			}
			want = append(want, k)
		}
		names := c05NamesFor(n, want)
		if names == nil {
			fmt.Fprintf(os.Stderr, "C05 replay: no name with the requested shard for %v\n", a)
			return
		}
		c05case(c, a[0], n, names, strings.Split(a[3], ","))
	}
}

type c05ent struct{ name, cfg, slots int }

func (e c05ent) String() string { return fmt.Sprintf("%d:%d:%d", e.name, e.cfg, e.slots) }

func c05ents(es []c05ent) string {
	if len(es) == 0 {
		return "-"
	}
	sort.Slice(es, func(i, j int) bool { return es[i].name < es[j].name })
	s := make([]string, len(es))
	for i, e := range es {
		s[i] = e.String()
	}
	return strings.Join(s, "+")
}

// c05name: candidate i of the name pool (namespace d, service sI, port 8080)
func c05name(i int) (ns, name, port string) { return "d", fmt.Sprintf("s%04d", i), "8080" }
func c05id(i int) string                    { ns, n, p := c05name(i); return ns + "_" + n + "_" + p }

// c05realShard asks the real code for the shard of candidate i
func c05realShard(n, i int) int {
	b := hatypes.CreateBackends(n)
	ns, name, port := c05name(i)
	b.AcquireBackend(ns, name, port)
	sh := b.ChangedShards()
	if len(sh) != 1 {
		panic(fmt.Sprintf("C05: expected one changed shard, got %v", sh))
	}
	return sh[0]
}

var c05shardCache = map[[2]int]int{}

func c05shard(n, i int) int {
	k := [2]int{n, i}
	if v, ok := c05shardCache[k]; ok {
		return v
	}
	v := c05realShard(n, i)
	c05shardCache[k] = v
	return v
}

// c05NamesFor picks increasing candidates (so that name index order = backend ID order, the order
// BuildSortedShard must produce) whose REAL shards are the wanted ones (want[i] taken modulo n)
func c05NamesFor(n int, want []int) []int {
	res := make([]int, len(want))
	next := 0
	for i, w := range want {
		if n > 0 {
			w = w % n
		} else {
			w = 0
		}
		found := -1
		for cand := next; cand < 9999; cand++ {
			if c05shard(n, cand) == w {
				found = cand
				break
			}
		}
		if found < 0 {
			return nil
		}
		next = found + 1
		res[i] = found
	}
	return res
}

type c05impl interface {
	backends() *hatypes.Backends
	clear()
	shrink()
	write()
	commit()
	update()
	disk() map[int][]c05ent
	close()
}

// ---- content <-> real Backend

func c05fill(b *hatypes.Backend, cfg, slots int) {
	b.BalanceAlgorithm = fmt.Sprintf("cfg%d", cfg)
	for i := 0; i < slots; i++ {
		b.AddEmptyEndpoint()
	}
}

func c05read(idx map[string]int, b *hatypes.Backend) c05ent {
	cfg, _ := strconv.Atoi(strings.TrimPrefix(b.BalanceAlgorithm, "cfg"))
	i, ok := idx[b.ID]
	if !ok {
		i = 9999
	}
	return c05ent{i, cfg, len(b.Endpoints)}
}

func c05list(idx map[string]int, bs []*hatypes.Backend) []c05ent {
	res := make([]c05ent, 0, len(bs))
	for _, b := range bs {
		res = append(res, c05read(idx, b)) // keeps the order produced by the real code (sortedness is checked by the oracle)
	}
	return res
}

func c05map(idx map[string]int, m map[string]*hatypes.Backend) []c05ent {
	res := make([]c05ent, 0, len(m))
	for id, b := range m {
		e := c05read(idx, b)
		if b.ID != id {
			e.name = 9998 // key/ID mismatch would be a model-visible corruption
		}
		res = append(res, e)
	}
	return res
}

// ---- api mode

type c05api struct {
	n   int
	b   *hatypes.Backends
	idx map[string]int
	dsk map[int][]c05ent
}

func (a *c05api) backends() *hatypes.Backends { return a.b }
func (a *c05api) clear()                      { a.b.Clear() }
func (a *c05api) shrink()                     { a.b.Shrink() }
func (a *c05api) commit()                     { a.b.Commit() }
func (a *c05api) close()                      {}
func (a *c05api) disk() map[int][]c05ent      { return a.dsk }

// write mirrors instance.writeConfig: the main file always (BuildSortedItems is nil with shards),
// then one file per ChangedShards() entry
func (a *c05api) write() {
	if a.n == 0 {
		a.dsk[0] = c05list(a.idx, a.b.BuildSortedItems())
		return
	}
	if main := a.b.BuildSortedItems(); len(main) > 0 {
		a.dsk[a.n] = c05list(a.idx, main) // would be a backend in the main file although sharding is on
	}
	for _, k := range a.b.ChangedShards() {
		a.dsk[k] = c05list(a.idx, a.b.BuildSortedShard(k))
	}
}
func (a *c05api) update() { a.shrink(); a.write(); a.commit() }

// ---- e2e mode

type c05logger struct{}

func (c05logger) InfoV(v int, msg string, args ...interface{}) {}
func (c05logger) Info(msg string, args ...interface{})         {}
func (c05logger) Warn(msg string, args ...interface{})         {}
func (c05logger) Error(msg string, args ...interface{})        {}
func (c05logger) Fatal(msg string, args ...interface{})        {}

type c05metrics struct{}

func (c05metrics) HAProxyShowInfoResponseTime(time.Duration)           {}
func (c05metrics) HAProxySetServerResponseTime(time.Duration)          {}
func (c05metrics) HAProxySetSSLCertResponseTime(time.Duration)         {}
func (c05metrics) ControllerProcTime(string, time.Duration)            {}
func (c05metrics) AddIdleFactor(int)                                   {}
func (c05metrics) IncUpdateNoop()                                      {}
func (c05metrics) IncUpdateDynamic()                                   {}
func (c05metrics) IncUpdateFull()                                      {}
func (c05metrics) UpdateSuccessful(bool)                               {}
func (c05metrics) SetCertExpireDate(string, string, *time.Time)        {}
func (c05metrics) ClearCertExpire()                                    {}
func (c05metrics) IncCertSigningMissing(domains string, success bool)  {}
func (c05metrics) IncCertSigningExpiring(domains string, success bool) {}
func (c05metrics) IncCertSigningOutdated(domains string, success bool) {}

// c05queue: the reload queue; HAProxyUpdate enqueues the reload instead of talking to haproxy
type c05queue struct{ n int }

func (q *c05queue) Add(item interface{})                              { q.n++ }
func (q *c05queue) AddAfter(item interface{}, duration time.Duration) { q.n++ }
func (q *c05queue) Remove(item interface{})                           {}
func (q *c05queue) Start(context.Context) error                       { return nil }

type c05e2e struct {
	n    int
	dir  string
	inst haproxy.Instance
	idx  map[string]int
	err  string
	q    *c05queue
}

func newC05e2e(n int, idx map[string]int) *c05e2e {
	dir, err := os.MkdirTemp("", "c05e2e")
	if err != nil {
		panic(err)
	}
	for _, d := range []string{"errorfiles", "lua", "maps"} {
		if err := os.Mkdir(filepath.Join(dir, d), 0755); err != nil {
			panic(err)
		}
	}
	q := &c05queue{}
	inst := haproxy.CreateInstance(c05logger{}, haproxy.InstanceOptions{
		RootFSPrefix:   "/repo/rootfs",
		LocalFSPrefix:  dir,
		BackendShards:  n,
		HAProxyCfgDir:  dir,
		HAProxyMapsDir: filepath.Join(dir, "maps"),
		IsExternal:     true,
		MasterSocket:   filepath.Join(dir, "master.sock"),
		AdminSocket:    filepath.Join(dir, "admin.sock"),
		Metrics:        c05metrics{},
		ReloadQueue:    q,
	})
	if err := inst.ParseTemplates(); err != nil {
		panic(err)
	}
	// the controller hands Config() to the converters before every HAProxyUpdate; without it
	// HAProxyUpdate returns at once ("nil config, just ignore")
	_ = inst.Config()
	return &c05e2e{n: n, dir: dir, inst: inst, idx: idx, q: q}
}

func (e *c05e2e) backends() *hatypes.Backends { return e.inst.Config().Backends() }
func (e *c05e2e) clear()                      { e.inst.Config().Clear() }
func (e *c05e2e) shrink()                     { e.inst.Config().Shrink() }
func (e *c05e2e) commit()                     { e.inst.Config().Commit() }
func (e *c05e2e) write()                      { panic("C05 e2e: no standalone write") }
func (e *c05e2e) close()                      { os.RemoveAll(e.dir) }
func (e *c05e2e) update() {
	if err := e.inst.HAProxyUpdate(utils.NewTimer(nil)); err != nil {
		e.err = err.Error()
	}
}

var c05reBackend = regexp.MustCompile(`^backend (\S+)`)
var c05reShardFile = regexp.MustCompile(`^haproxy5-backend(\d+)\.cfg$`)

// disk parses every *.cfg of the output dir: `backend <id>` sections of the name pool with their
// `balance cfgN` line and the number of `server` lines
func (e *c05e2e) disk() map[int][]c05ent {
	res := map[int][]c05ent{}
	files, _ := filepath.Glob(filepath.Join(e.dir, "*.cfg"))
	sort.Strings(files)
	for _, f := range files {
		base := filepath.Base(f)
		k := -1
		if base == "haproxy.cfg" {
			k = 0
			if e.n > 0 {
				k = e.n // a pool backend in the main file while sharding is on is reported as file n
			}
		} else if m := c05reShardFile.FindStringSubmatch(base); m != nil {
			k, _ = strconv.Atoi(m[1])
		} else {
			k = 9000 // unexpected cfg file: haproxy -f <dir> would load it
		}
		data, err := os.ReadFile(f)
		if err != nil {
			panic(err)
		}
		var cur *c05ent
		flush := func() {
			if cur != nil {
				res[k] = append(res[k], *cur)
				cur = nil
			}
		}
		for _, line := range strings.Split(string(data), "\n") {
			if m := c05reBackend.FindStringSubmatch(line); m != nil {
				flush()
				if i, ok := e.idx[m[1]]; ok {
					cur = &c05ent{name: i}
				} else if strings.HasPrefix(m[1], "d_") {
					cur = &c05ent{name: 9999}
				}
				continue
			}
			t := strings.TrimSpace(line)
			if cur == nil || t == "" {
				if t != "" && !strings.HasPrefix(line, " ") && !strings.HasPrefix(line, "\t") {
					flush() // any other section start
				}
				continue
			}
			if !strings.HasPrefix(line, " ") && !strings.HasPrefix(line, "\t") {
				flush()
				continue
			}
			if strings.HasPrefix(t, "balance cfg") {
				cur.cfg, _ = strconv.Atoi(strings.TrimPrefix(t, "balance cfg"))
			} else if strings.HasPrefix(t, "server ") {
				cur.slots++
			}
		}
		flush()
	}
	return res
}

// ---- one case

func c05obs(im c05impl, n int, idx map[string]int) string {
	b := im.backends()
	ch := b.ChangedShards()
	chs := "-"
	if len(ch) > 0 {
		s := make([]string, len(ch))
		for i, k := range ch {
			s[i] = strconv.Itoa(k)
		}
		chs = strings.Join(s, "+")
	}
	d := im.disk()
	files := n
	if files == 0 {
		files = 1
	}
	keys := map[int]bool{}
	for k := 0; k < files; k++ {
		keys[k] = true
	}
	for k := range d {
		keys[k] = true
	}
	ks := make([]int, 0, len(keys))
	for k := range keys {
		ks = append(ks, k)
	}
	sort.Ints(ks)
	fs := make([]string, len(ks))
	for i, k := range ks {
		// file content is printed in FILE order: the oracle checks sortedness / duplicates
		es := d[k]
		s := "-"
		if len(es) > 0 {
			p := make([]string, len(es))
			for j, e := range es {
				p[j] = e.String()
			}
			s = strings.Join(p, "+")
		}
		fs[i] = fmt.Sprintf("%d=%s", k, s)
	}
	return strings.Join([]string{c05ents(c05map(idx, b.Items())), c05ents(c05map(idx, b.ItemsAdd())),
		c05ents(c05map(idx, b.ItemsDel())), chs, strings.Join(fs, ",")}, "|")
}

func c05case(c *ctx, mode string, n int, names []int, ops []string) {
	shards := make([]string, len(names))
	idx := map[string]int{}
	for i, cand := range names {
		shards[i] = strconv.Itoa(c05shard(n, cand))
		idx[c05id(cand)] = i
	}
	args := fmt.Sprintf("%s %d %s %s", mode, n, strings.Join(shards, "."), strings.Join(ops, ","))
	out := func() (res string) {
		var im c05impl
		defer func() {
			if r := recover(); r != nil {
				res = "PANIC"
				fmt.Fprintf(os.Stderr, "C05 panic on %s: %v\n", args, r)
			}
			if im != nil {
				im.close()
			}
		}()
		if mode == "e2e" {
			im = newC05e2e(n, idx)
		} else {
			im = &c05api{n: n, b: hatypes.CreateBackends(n), idx: idx, dsk: map[int][]c05ent{}}
		}
		obs := make([]string, 0, len(ops))
		for _, op := range ops {
			switch {
			case op == "c":
				im.clear()
			case op == "s":
				im.shrink()
			case op == "w":
				im.write()
			case op == "k":
				im.commit()
			case op == "u":
				im.update()
			case strings.HasPrefix(op, "a"):
				f := strings.Split(op[1:], ".")
				x, _ := strconv.Atoi(f[0])
				cfg, _ := strconv.Atoi(f[1])
				slots, _ := strconv.Atoi(f[2])
				ns, name, port := c05name(names[x])
				b := im.backends()
				isNew := b.FindBackend(ns, name, port) == nil
				back := b.AcquireBackend(ns, name, port)
				if isNew {
					c05fill(back, cfg, slots)
				}
			case strings.HasPrefix(op, "r"):
				var ids []string
				if len(op) > 1 {
					for _, s := range strings.Split(op[1:], ".") {
						x, _ := strconv.Atoi(s)
						ids = append(ids, c05id(names[x]))
					}
				}
				im.backends().RemoveAll(ids)
			default:
				panic("bad op " + op)
			}
			obs = append(obs, c05obs(im, n, idx))
		}
		if e, ok := im.(*c05e2e); ok && e.err != "" {
			fmt.Fprintf(os.Stderr, "C05 e2e: HAProxyUpdate error on %s: %s\n", args, e.err)
			return "PANIC-update-error"
		}
		return strings.Join(obs, ";")
	}()
	c.emit("C05", args, out)
	c.stat("mode_"+mode, 1)
	c.stat(fmt.Sprintf("shards_%d", n), 1)
	nu, nc := 0, 0
	for _, op := range ops {
		if op == "u" {
			nu++
		}
		if op == "c" {
			nc++
		}
	}
	if nu > 0 {
		c.stat("with_update", 1)
	}
	if nc > 0 {
		c.stat("with_full_resync", 1)
	}
	c.stat(fmt.Sprintf("len_%02d", (len(ops)+4)/5*5), 1)
}

// ---- maps mode: hosts + their backends through a real Instance; the frontend map files that
// haproxy.cfg references are decoded back into one entry per host

func c05host(x int) string       { return fmt.Sprintf("h%d.local", x) }
func c05mapsBackID(x int) string { return fmt.Sprintf("d_b%d_8080", x) }

type c05mapsWorld struct {
	e    *c05e2e
	hcur map[int]int // content of the hosts that exist
	bcur map[int]int // content of the backend of host x (kept when the host is dropped)
}

// apply does what one resync does with the touched hosts: one RemoveAll of the hosts and of their
// backends, then every touched host that still exists is parsed once, with its backend
func (w *c05mapsWorld) apply(touched []int) {
	cfg := w.e.inst.Config()
	var hs, bs []string
	for _, x := range touched {
		hs = append(hs, c05host(x))
		bs = append(bs, c05mapsBackID(x))
	}
	cfg.Hosts().RemoveAll(hs)
	cfg.Backends().RemoveAll(bs)
	for _, x := range touched {
		w.parse(x)
	}
}

func (w *c05mapsWorld) parse(x int) {
	cfg := w.e.inst.Config()
	hc, ok := w.hcur[x]
	if !ok || cfg.Hosts().FindHost(c05host(x)) != nil {
		return
	}
	bc := w.bcur[x]
	h := cfg.Hosts().AcquireHost(c05host(x))
	b := cfg.Backends().AcquireBackend("d", fmt.Sprintf("b%d", x), "8080")
	b.BalanceAlgorithm = fmt.Sprintf("cfg%d", bc/2)
	b.AcquireEndpoint(fmt.Sprintf("10.0.0.%d", x+1), 8080, "")
	var paths []*hatypes.HostPath
	paths = append(paths, h.AddPath(b, "/", hatypes.MatchBegin))
	if hc%2 == 1 {
		h.RootRedirect = fmt.Sprintf("/app%d", hc/2)
	} else {
		paths = append(paths, h.AddPath(b, fmt.Sprintf("/p%d", hc/2), hatypes.MatchBegin))
	}
	for _, hp := range paths {
		if bp := b.FindBackendPath(hp.Link); bp != nil {
			bp.SSLRedirect = bc%2 == 1
		}
	}
}

var c05reHost = regexp.MustCompile(`^h(\d+)\.local$`)

func (w *c05mapsWorld) obs() string {
	cfg := w.e.inst.Config()
	var hs []string
	type hc struct{ x, c int }
	var hl []hc
	for name, h := range cfg.Hosts().Items() {
		m := c05reHost.FindStringSubmatch(name)
		if m == nil {
			hl = append(hl, hc{9999, 0})
			continue
		}
		x, _ := strconv.Atoi(m[1])
		c := 9999
		if strings.HasPrefix(h.RootRedirect, "/app") {
			v, _ := strconv.Atoi(strings.TrimPrefix(h.RootRedirect, "/app"))
			c = 2*v + 1
		} else {
			for _, p := range h.Paths {
				if strings.HasPrefix(p.Path(), "/p") {
					v, _ := strconv.Atoi(strings.TrimPrefix(p.Path(), "/p"))
					c = 2 * v
				}
			}
		}
		hl = append(hl, hc{x, c})
	}
	sort.Slice(hl, func(i, j int) bool { return hl[i].x < hl[j].x })
	for _, h := range hl {
		hs = append(hs, fmt.Sprintf("%d:%d", h.x, h.c))
	}
	// effective map content: only files referenced by haproxy.cfg count
	main, _ := os.ReadFile(filepath.Join(w.e.dir, "haproxy.cfg"))
	read := func(base string) []string {
		f := filepath.Join(w.e.dir, "maps", base)
		if !strings.Contains(string(main), f) {
			return nil
		}
		data, err := os.ReadFile(f)
		if err != nil {
			return []string{"<missing-file>"}
		}
		var res []string
		for _, l := range strings.Split(string(data), "\n") {
			if l = strings.TrimSpace(l); l != "" && !strings.HasPrefix(l, "#") {
				res = append(res, l)
			}
		}
		return res
	}
	type ent struct {
		root, path []int
		ssl        int
	}
	ents := map[int]*ent{}
	get := func(host string) *ent {
		host = strings.SplitN(host, "#", 2)[0]
		x := 9999
		if m := c05reHost.FindStringSubmatch(host); m != nil {
			x, _ = strconv.Atoi(m[1])
		}
		if ents[x] == nil {
			ents[x] = &ent{}
		}
		return ents[x]
	}
	for _, l := range read("_front_redir_fromroot__exact.map") {
		f := strings.Fields(l)
		if len(f) == 2 && strings.HasPrefix(f[1], "/app") {
			v, _ := strconv.Atoi(strings.TrimPrefix(f[1], "/app"))
			e := get(f[0])
			e.root = append(e.root, 2*v+1)
		} else {
			get("?").root = append(get("?").root, 9999)
		}
	}
	for _, l := range read("_front_http_host__begin.map") {
		f := strings.Fields(l)
		if len(f) != 2 {
			continue
		}
		hp := strings.SplitN(f[0], "#", 2)
		if len(hp) == 2 && strings.HasPrefix(hp[1], "/p") {
			v, _ := strconv.Atoi(strings.TrimPrefix(hp[1], "/p"))
			e := get(hp[0])
			e.path = append(e.path, 2*v)
		} else if len(hp) == 2 && hp[1] == "/" {
			get(hp[0]) // the root path of every host: presence only
		}
	}
	for _, l := range read("_front_redir_root_ssl__exact.map") {
		get(strings.Fields(l)[0]).ssl++
	}
	xs := make([]int, 0, len(ents))
	for x := range ents {
		xs = append(xs, x)
	}
	sort.Ints(xs)
	var ms []string
	for _, x := range xs {
		e := ents[x]
		c := 9999 // a host with only its root path line (or with contradicting lines) has no decodable content
		if len(e.root) == 1 && len(e.path) == 0 {
			c = e.root[0]
		} else if len(e.root) == 0 && len(e.path) == 1 {
			c = e.path[0]
		}
		ms = append(ms, fmt.Sprintf("%d:%d:%d", x, c, e.ssl))
	}
	j := func(l []string) string {
		if len(l) == 0 {
			return "-"
		}
		return strings.Join(l, "+")
	}
	return j(hs) + "|" + j(ms)
}

func c05mapsCase(c *ctx, n, p int, ops []string) {
	args := fmt.Sprintf("maps %d %d %s", n, p, strings.Join(ops, ","))
	out := func() (res string) {
		var e *c05e2e
		defer func() {
			if r := recover(); r != nil {
				res = "PANIC"
				fmt.Fprintf(os.Stderr, "C05 panic on %s: %v\n", args, r)
			}
			if e != nil {
				e.close()
			}
		}()
		e = newC05e2e(n, map[string]int{})
		e.inst.Config().Global().MatchOrder = hatypes.DefaultMatchOrder
		w := &c05mapsWorld{e: e, hcur: map[int]int{}, bcur: map[int]int{}}
		obs := make([]string, 0, len(ops))
		var touched []int
		for _, op := range ops {
			switch {
			case op == "c":
				e.inst.Config().Clear()
				e.inst.Config().Global().MatchOrder = hatypes.DefaultMatchOrder
				w.hcur = map[int]int{}
				touched = nil
			case op == "u":
				w.apply(touched)
				touched = nil
				e.update()
			default:
				f := strings.Split(op[1:], ".")
				x, _ := strconv.Atoi(f[0])
				switch op[0] {
				case 'h':
					w.hcur[x], _ = strconv.Atoi(f[1])
				case 'b':
					w.bcur[x], _ = strconv.Atoi(f[1])
				case 'd':
					delete(w.hcur, x)
				default:
					panic("bad op " + op)
				}
				touched = append(touched, x)
			}
			obs = append(obs, w.obs())
		}
		if e.err != "" {
			fmt.Fprintf(os.Stderr, "C05 maps: HAProxyUpdate error on %s: %s\n", args, e.err)
			return "PANIC-update-error"
		}
		return strings.Join(obs, ";")
	}()
	c.emit("C05", args, out)
	c.stat("mode_maps", 1)
}

func c05mapsRandom(c *ctx, r *gen.Rng, count int) {
	for i := 0; i < count; i++ {
		p := r.Range(1, 4)
		n := gen.Pick(r, []int{0, 0, 3})
		l := r.Range(3, 24)
		exists := map[int]int{}
		var ops []string
		for len(ops) < l {
			x := r.Intn(p)
			switch r.Intn(12) {
			case 0, 1, 2:
				// mostly root-redirect hosts (odd content)
				cc := 2*r.Intn(2) + 1
				if r.Chance(1, 3) {
					cc = 2 * r.Intn(2)
				}
				exists[x] = cc
				ops = append(ops, fmt.Sprintf("h%d.%d", x, cc))
			case 3, 4, 5, 6:
				ops = append(ops, fmt.Sprintf("b%d.%d", x, r.Intn(4)))
			case 7:
				delete(exists, x)
				ops = append(ops, fmt.Sprintf("d%d", x))
			case 8:
				// full resync: Clear, then every surviving host is parsed again
				ops = append(ops, "c")
				for y := 0; y < p; y++ {
					if cc, ok := exists[y]; ok {
						if r.Chance(1, 5) {
							delete(exists, y)
							continue
						}
						ops = append(ops, fmt.Sprintf("h%d.%d", y, cc))
					}
				}
				ops = append(ops, "u")
			default:
				ops = append(ops, "u")
			}
		}
		if ops[len(ops)-1] != "u" {
			ops = append(ops, "u")
		}
		c05mapsCase(c, n, p, ops)
	}
}

// ---- generators

var c05patterns = map[int][]int{
	// wanted shard of name i (mod n): two names share a shard, one shard has a single name
	0: {0, 0, 0, 0, 0, 0},
	1: {0, 0, 0, 0, 0, 0},
	2: {0, 1, 1, 0, 1, 0},
	3: {2, 0, 0, 1, 2, 1},
	7: {5, 0, 0, 3, 6, 5},
}

func c05names(n, p int) []int { return c05NamesFor(n, c05patterns[n][:p]) }

func c05acq(x, cfg, slots int) string { return fmt.Sprintf("a%d.%d.%d", x, cfg, slots) }
func c05rem(xs ...int) string {
	s := make([]string, len(xs))
	for i, x := range xs {
		s[i] = strconv.Itoa(x)
	}
	return "r" + strings.Join(s, ".")
}

func c05corpus(c *ctx) {
	sp := func(s string) []string { return strings.Split(s, ",") }
	for _, n := range []int{3, 7, 2, 1, 0} {
		nm := c05names(n, 3)
		// the design-round replay: CreateBackends(n); Acquire; Commit; Clear; Shrink  (ChangedShards was [])
		c05case(c, "api", n, nm, sp("a0.1.0,k,c,s"))
		// the same as a disciplined history: a full resync that empties the shard of name 0
		c05case(c, "api", n, nm, sp("a0.1.0,u,c,u"))
		c05case(c, "api", n, nm, sp("a0.1.0,a1.1.0,a2.1.0,u,c,a1.1.0,u"))
		c05case(c, "api", n, nm, sp("a0.1.0,a1.1.0,a2.1.0,u,c,a1.2.0,s,u,c,u"))
		// change reverted within one batch; fewer slots re-added: the DELETED object must come back
		c05case(c, "api", n, nm, sp("a0.1.2,u,r0,a0.1.1,s,u"))
		c05case(c, "api", n, nm, sp("a0.1.1,u,r0,a0.1.2,s,u"))
		// the only changed backend leaves the add/del sets, another shard stays changed
		c05case(c, "api", n, nm, sp("a0.1.0,a1.1.0,a2.1.0,u,r0.1.2,a0.1.0,a1.2.0,s,u"))
		c05case(c, "api", n, nm, sp("a0.1.0,a1.1.0,u,r0.1,a1.1.0,s,u"))
		// outside the discipline (correspondence only)
		c05case(c, "api", n, nm, sp("a0.1.0,r0,u"))
		c05case(c, "api", n, nm, sp("a0.1.0,u,r0,c,u"))
		c05case(c, "api", n, nm, sp("a0.1.0,k,u"))
	}
	for _, n := range []int{1, 3, 0} {
		// finding stale-backend-on-disk-noop-update (repaired): a batch that only removes a backend
		c05case(c, "e2e", n, c05names(n, 2), sp("a0.2.1,a1.3.0,u,r0,u"))
		c05case(c, "e2e", n, c05names(n, 2), sp("a0.2.1,a1.3.0,u,r0,u,r1,u,u"))
	}
	for _, n := range []int{0, 3} {
		// finding stale-frontend-map-entry (repaired): the ingress of a root-redirect host flips
		// ssl-redirect, the host is parsed again unchanged, only its backend is dirty
		c05mapsCase(c, n, 1, sp("h0.1,b0.1,u,b0.0,u"))
		c05mapsCase(c, n, 1, sp("h0.1,u,b0.1,u,b0.3,u,b0.2,u")) // the reverse: missing entry; then a change outside ssl-redirect
		c05mapsCase(c, n, 2, sp("h0.1,h1.2,b0.1,b1.1,u,b1.0,u,h1.3,u,d0,u,c,h1.3,u"))
	}
	for _, n := range []int{3, 0} {
		nm := c05names(n, 3)
		c05case(c, "e2e", n, nm, sp("a0.1.0,u,c,u"))
		c05case(c, "e2e", n, nm, sp("a0.1.0,a1.1.0,a2.1.0,u,c,a1.1.0,u"))
		c05case(c, "e2e", n, nm, sp("a0.1.2,a1.1.0,u,r0,a0.1.1,u,r0.1,a0.2.0,u"))
	}
}

func c05exhaustive(c *ctx) {
	alpha := []string{c05acq(0, 1, 1), c05acq(0, 1, 0), c05acq(0, 2, 0), c05acq(1, 1, 0), c05rem(0), c05rem(0, 1), "c", "s", "u"}
	maxLen := 4
	ns := []int{0, 2, 3}
	if c.thorough() {
		maxLen = 5
		ns = []int{0, 1, 2, 3, 7}
	}
	prefixes := [][]string{nil, {c05acq(0, 1, 1), c05acq(1, 1, 0), "u"}}
	for _, n := range ns {
		nm := c05names(n, 2)
		for _, pre := range prefixes {
			var rec func(cur []string)
			rec = func(cur []string) {
				if len(cur) > 0 {
					ops := append(append([]string{}, pre...), cur...)
					if cur[len(cur)-1] != "u" {
						ops = append(ops, "u")
					}
					// sequences ending in `u` are emitted once (as the shorter sequence + final update)
					if cur[len(cur)-1] != "u" || len(cur) == 1 {
						c05case(c, "api", n, nm, ops)
					}
				}
				if len(cur) == maxLen {
					return
				}
				for _, a := range alpha {
					rec(append(cur, a))
				}
			}
			rec(nil)
		}
	}
	c.stat("exhaustive_alphabet9_len", maxLen)
}

// c05batch appends one resync batch that follows the converters' discipline
func c05batch(r *gen.Rng, p int, live map[int][2]int, ops []string, e2e bool) []string {
	full := r.Chance(1, 4)
	removed := map[int][2]int{}
	if full {
		ops = append(ops, "c")
		for x, v := range live {
			removed[x] = v
			delete(live, x)
		}
	} else {
		var xs []int
		for x := 0; x < p; x++ {
			if r.Chance(2, 5) {
				xs = append(xs, x) // may name absent backends too
				if v, ok := live[x]; ok {
					removed[x] = v
					delete(live, x)
				}
			}
		}
		if len(xs) > 0 || r.Chance(1, 3) {
			ops = append(ops, c05rem(xs...))
		}
	}
	// acquires: re-add removed ones (often with matching content), add new ones, touch live ones
	order := make([]int, p)
	for i := range order {
		order[i] = i
	}
	gen.Shuffle(r, order)
	for _, x := range order {
		if old, ok := removed[x]; ok {
			switch r.Intn(6) {
			case 0: // stays removed
				continue
			case 1: // changed config
				live[x] = [2]int{old[0]%3 + 1, old[1]}
			case 2: // more slots: no match
				live[x] = [2]int{old[0], old[1] + 1 + r.Intn(2)}
			case 3: // fewer slots: match, deleted object restored
				live[x] = [2]int{old[0], r.Intn(old[1] + 1)}
			default: // identical
				live[x] = old
			}
			ops = append(ops, c05acq(x, live[x][0], live[x][1]))
			if live[x][0] == old[0] && live[x][1] <= old[1] {
				live[x] = old
			}
		} else if _, ok := live[x]; ok {
			if r.Chance(1, 4) {
				ops = append(ops, c05acq(x, r.Range(1, 3), r.Intn(3))) // find: content is ignored
			}
		} else if r.Chance(1, 3) {
			live[x] = [2]int{r.Range(1, 3), r.Intn(3)}
			ops = append(ops, c05acq(x, live[x][0], live[x][1]))
		}
	}
	if !e2e && r.Chance(1, 3) {
		ops = append(ops, "s")
	}
	return append(ops, "u")
}

func c05random(c *ctx) {
	r := gen.New(c.seed)
	nApi, nE2E := 4000, 250
	if c.thorough() {
		nApi, nE2E = 100000, 4000
	}
	counts := []int{0, 1, 2, 3, 7}
	for i := 0; i < nApi+nE2E; i++ {
		e2e := i >= nApi
		mode := "api"
		if e2e {
			mode = "e2e"
		}
		n := gen.Pick(r, counts)
		p := r.Range(2, 6)
		nm := c05names(n, p)
		var ops []string
		if r.Chance(3, 4) {
			live := map[int][2]int{}
			maxOps := r.Range(4, 30)
			for len(ops) < maxOps {
				ops = c05batch(r, p, live, ops, e2e)
			}
			c.stat("random_disciplined", 1)
		} else {
			// arbitrary op order (correspondence only; the oracle stops at the first undisciplined op)
			l := r.Range(2, 30)
			for j := 0; j < l; j++ {
				switch r.Intn(10) {
				case 0, 1, 2:
					ops = append(ops, c05acq(r.Intn(p), r.Range(1, 2), r.Intn(3)))
				case 3, 4:
					var xs []int
					for x := 0; x < p; x++ {
						if r.Chance(1, 3) {
							xs = append(xs, x)
						}
					}
					ops = append(ops, c05rem(xs...))
				case 5:
					ops = append(ops, "c")
				case 6:
					ops = append(ops, "s")
				case 7:
					if e2e {
						ops = append(ops, "u")
					} else {
						ops = append(ops, gen.Pick(r, []string{"w", "k"}))
					}
				default:
					ops = append(ops, "u")
				}
			}
			c.stat("random_arbitrary", 1)
		}
		c05case(c, mode, n, nm, ops)
	}
}

func runC05(c *ctx) {
	if os.Getenv("C05_ONLY") == "al" { // debugging aid: only the histories of c05align.go
		runC05alCorpus(c)
		runC05al(c)
		return
	}
	c05corpus(c)
	runC05alCorpus(c) // corpus of c05align.go
	runC05fxCorpus(c) // corpus of c05faults.go (the exhaustive and random parts of that mode run last)
	runC05cnt(c)      // the counters of Hosts against Model/C05Count.lean (c05count.go)
	c05exhaustive(c)
	c05random(c)
	nMaps := 300
	if c.thorough() {
		nMaps = 5000
	}
	c05mapsRandom(c, gen.New(c.seed).Fork(), nMaps)
	runC05al(c) // histories with the dynamic updater and alignSlots (c05align.go)
	runC05fx(c) // histories with failed updates (c05faults.go)
}
