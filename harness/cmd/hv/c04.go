package main

import (
	"fmt"
	"strconv"
	"strings"

	hatypes "github.com/jcmoraisjr/haproxy-ingress/pkg/haproxy/types"

	"hapverif/gen"
)

func init() {
	props["C04"] = runC04
	replayers["C04"] = func(c *ctx, a []string) {
		if len(a) == 4 && a[0] == "conv" {
			c04convReplay(c, a)
			return
		}
		if len(a) == 3 && a[0] == "maps" {
			var rules []c04rule
			for _, r := range strings.Split(a[2], ",") {
				f := strings.Split(r, "|")
				if len(f) != 4 {
					continue
				}
				n, _ := strconv.Atoi(f[3])
				rules = append(rules, c04rule{f[0], f[1], f[2], n})
			}
			c04case(c, a[1], rules)
		}
	}
}

type c04rule struct {
	host, path, mt string
	target         int
}

var c04mt = map[string]hatypes.MatchType{"E": hatypes.MatchExact, "P": hatypes.MatchPrefix, "B": hatypes.MatchBegin, "R": hatypes.MatchRegex}

// the controller parses path-type-order ONCE per global configuration (global.MatchOrder) and hands the SAME slice to
// every hatypes.CreateMaps call (three builders per update, every later update): the harness does the same — one
// slice per order for the whole run — so that a builder that writes to its argument is seen by the later cases
// (seed C04f); c04orderIntact reports a slice whose content no longer spells the order.
var c04orderSlices = map[string][]hatypes.MatchType{}

func c04orderFresh(s string) []hatypes.MatchType {
	var o []hatypes.MatchType
	for _, ch := range s {
		o = append(o, c04mt[string(ch)])
	}
	// regex always present in the real configuration; its position is irrelevant without regex rules
	return append(o, hatypes.MatchRegex)
}

func c04order(s string) []hatypes.MatchType {
	if o, ok := c04orderSlices[s]; ok {
		return o
	}
	o := c04orderFresh(s)
	c04orderSlices[s] = o
	return o
}

func c04orderIntact(s string) bool {
	o, ok := c04orderSlices[s]
	if !ok {
		return true
	}
	f := c04orderFresh(s)
	if len(o) != len(f) {
		return false
	}
	for i := range o {
		if o[i] != f[i] {
			return false
		}
	}
	return true
}

func c04case(c *ctx, order string, rules []c04rule) {
	out := func() (res string) {
		defer func() {
			if r := recover(); r != nil {
				res = "PANIC"
			}
		}()
		hosts := hatypes.CreateHosts()
		maps := hatypes.CreateMaps(c04order(order))
		hmap := maps.AddMap("/tmp/x.map")
		paths := make([]*hatypes.HostPath, len(rules))
		for i, r := range rules {
			paths[i] = hosts.AcquireHost(r.host).AddPath(nil, r.path, c04mt[r.mt])
		}
		for i, r := range rules {
			hmap.AddHostnamePathMapping(r.host, paths[i], "t"+strconv.Itoa(r.target))
		}
		var files []string
		for _, mf := range hmap.MatchFiles() {
			var es []string
			for _, v := range mf.Values() {
				es = append(es, v.Key+">"+v.Value)
			}
			l := "N"
			if mf.Lower() {
				l = "L"
			}
			files = append(files, mf.Method()+":"+l+":"+strings.Join(es, ","))
		}
		if !c04orderIntact(order) {
			// the shared order slice was written to: every later build of the controller sees another order
			c.stat("order_slice_modified", 1)
		}
		if len(files) == 0 {
			return "-"
		}
		return strings.Join(files, ";")
	}()
	rs := make([]string, len(rules))
	for i, r := range rules {
		rs[i] = fmt.Sprintf("%s|%s|%s|%d", r.host, r.path, r.mt, r.target)
	}
	arg := "-"
	if len(rs) > 0 {
		arg = strings.Join(rs, ",")
	}
	c.emit("C04", "maps "+order+" "+arg, out)
	c.stat(fmt.Sprintf("rules_%02d", len(rules)), 1)
}

var c04orders = []string{"EPB", "EBP", "PEB", "PBE", "BEP", "BPE"}

func runC04(c *ctx) {
	// corpus: minimised past failures
	c04case(c, "EPB", []c04rule{{"h", "/app/sub", "B", 0}, {"h", "/App", "P", 1}})
	c04case(c, "EBP", []c04rule{{"h", "/app/sub", "B", 0}, {"h", "/App", "P", 1}})
	c04case(c, "EPB", []c04rule{{"h", "/z/q", "P", 0}, {"h", "/z", "B", 1}, {"h", "/a/x/y", "B", 2}, {"h", "/a/x", "P", 3}, {"h", "/a/b", "P", 4}, {"h", "/a", "B", 5}, {"h", "/", "P", 6}})
	// known finding: a declared path with an empty segment (`//`); HAProxy's map_dir strips every trailing `/`
	c04case(c, "EPB", []c04rule{{"h", "/a//", "P", 0}, {"h", "/a/xy", "B", 1}})
	c04case(c, "EPB", []c04rule{{"h", "/a//", "P", 0}, {"h", "/a/+x", "P", 1}})
	c04case(c, "EPB", []c04rule{{"h", "/a///", "P", 0}, {"h", "/a/b", "P", 1}})
	// exhaustive small scope: path alphabet closed under prefixes/sub-directories/case variants
	alpha := []string{"/", "/a", "/a/", "/a/b", "/A", "/ab", "/a/b/c"}
	types := []string{"E", "P", "B"}
	type pt struct{ p, t string }
	var all []pt
	for _, p := range alpha {
		for _, t := range types {
			all = append(all, pt{p, t})
		}
	}
	maxRules := 3
	if c.thorough() {
		maxRules = 4
	}
	orders := []string{"EPB", "BPE"}
	if c.thorough() {
		orders = c04orders
	}
	// one host, all subsets of (path,type) up to maxRules, each subset in its canonical order
	var rec func(start int, cur []pt)
	rec = func(start int, cur []pt) {
		if len(cur) > 0 {
			for _, o := range orders {
				rules := make([]c04rule, len(cur))
				for i, x := range cur {
					rules[i] = c04rule{"h.local", x.p, x.t, i}
				}
				c04case(c, o, rules)
			}
		}
		if len(cur) == maxRules {
			return
		}
		for i := start; i < len(all); i++ {
			rec(i+1, append(cur, all[i]))
		}
	}
	rec(0, nil)
	c.stat("exhaustive_one_host", 1)
	// random: up to 3 hosts, up to 10 rules per host, richer alphabet, random insertion order
	r := gen.New(c.seed)
	n := 4000
	if c.thorough() {
		n = 150000
	}
	segs := []string{"a", "b", "A", "ab", "x", "app", "App", "v1", "B"}
	// hostnames are lower case (Kubernetes validates them as DNS names)
	hostsPool := []string{"h.local", "g.local", "local", "sub.h.local", "h.loc"}
	for i := 0; i < n; i++ {
		nh := r.Range(1, 3)
		hs := make([]string, nh)
		for j := range hs {
			hs[j] = hostsPool[r.Intn(len(hostsPool))]
		}
		var rules []c04rule
		seen := map[string]bool{}
		perHost := map[string]int{}
		total := r.Range(1, 9)
		if r.Chance(1, 5) {
			total = r.Range(8, 14)
		}
		for k := 0; k < total; k++ {
			h := gen.Pick(r, hs)
			var p string
			switch r.Intn(6) {
			case 0:
				p = "/"
			default:
				d := r.Range(1, 4)
				parts := make([]string, d)
				for x := range parts {
					parts[x] = gen.Pick(r, segs)
					if r.Chance(3, 4) && x < 2 {
						parts[x] = []string{"a", "b", "x"}[r.Intn(3)]
					}
				}
				p = "/" + strings.Join(parts, "/")
				if r.Chance(1, 6) {
					p += "/"
				}
			}
			t := gen.Pick(r, types)
			key := strings.ToLower(h) + "|" + p + "|" + t
			if t == "B" {
				// two begin rules that differ only in case are the same declaration
				key = strings.ToLower(key)
			}
			if seen[key] || perHost[strings.ToLower(h)] >= 11 {
				continue
			}
			seen[key] = true
			perHost[strings.ToLower(h)]++
			rules = append(rules, c04rule{h, p, t, len(rules)})
		}
		if len(rules) == 0 {
			continue
		}
		c04case(c, gen.Pick(r, c04orders), rules)
	}
	// the converters that produce the header filters + the header-filter part of rebuildMatchFiles (c04gw.go)
	runC04Conv(c)
}
