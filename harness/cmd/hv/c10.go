package main

// C10 — Gateway API routes attach only where class, listener and namespace rules allow.
//
// Drives the REAL gateway converter (pkg/converters/gateway: Sync, syncRoute, syncHTTPRouteGateway,
// syncTCPRouteGateway, checkListenerAllowed{,Kind,Namespace}, createBackend, createHTTPHosts,
// createTCPService, filterHostnames) over the REAL cache facade of pkg/controller/services
// (GetGateway{,A2,B1} with the GatewayClass filter, GetHTTPRoute*List, GetTCPRouteList, GetNamespace,
// GetService, GetEndpoints; built through the hook /repo/pkg/controller/services/verif_export.go) on a
// controller-runtime fake client that stamps the GVK on every returned object the way the real
// CacheReader does (gateway.go reads GetObjectKind() for the kind filter), with the real ingress
// converter as annotation reader and the real haproxy model (haproxy.CreateInstance(...).Config()).
//
// Case line:  C10 w <ver> <classes> <nss> <gws> <routes> <svcs> => <hosts>#<backends>#<tcps>
//   ver      v1|b1|a2      API version of GatewayClass/Gateway/HTTPRoute objects and of the Sync(gwtyp) call
//                          (TCPRoute is always v1alpha2)
//   classes  - | name:o|f ,...                     GatewayClass: o = our controllerName, f = another one; a suffix
//                                                  (o1, f2) adds a parametersRef ConfigMap g/params<k> (never read by the code)
//   nss      - | name:k=v+k=v ,...   (name:- no labels)       Namespace objects
//   gws      - | GW;GW..   GW = ns/name@class!L|L..   (no listeners: `!-`)
//            L  = name~host~proto~port~kinds~from~sel
//                 host:  - nil | e "" | literal
//                 proto: HTTP|HTTPS|TCP|TLS|UDP | e "" (never produced by the API server: the field is required)
//                 kinds: N allowedRoutes nil | - empty | K+K  with K = <n|g|c|x>:<Kind>
//                        (group nil | gateway.networking.k8s.io | "" | example.com)
//                 from:  N namespaces nil | n From nil | S Same | A All | L Selector | X "Bogus"
//                 sel:   N nil | - {} | T+T with T = k=v (matchLabels) | k:In:v.v | k:NotIn:v.v | k:Exists: | k:DoesNotExist:
//   routes   - | R;R..     R = <H|T>:ns/name@ts!PR|PR..!hostnames!RULE|RULE..
//            PR = group~kind~ns~name~section   group: -|e|g|x  kind: -|e|G|S  ns: -|e|literal  section: -|literal
//            hostnames: - | h,h
//            RULE = matches^refs   matches: - | M+M   M = type~value~hdr  type: -|E|P|R|X  value: -|e|literal
//                                  hdr: - | name=value | name=value=r
//                                  refs: - | B+B  B = svc~port~weight   port: -|int  weight: -|int
//   svcs     - | S;S..     S = ns/name!P|P..   P = port=ip:port+ip:port   (port=- : no ready address)
// Output (everything that comes from Go maps is sorted):
//   hosts    - | host{path~match~hdrs>backend,...};...      hdrs: - | name=value[=r]&...
//   backends - | id~<0|1 ModeTCP>{srvname=ip:port*weight,...};...   (endpoints in slice order)
//   tcps     - | port>backend;...
//   PANIC:<msg> when the real code panicked.
//
// History mode (`C10 h ...`, sequences of clusters on ONE long-lived cache facade): see c10hist.go.

import (
	"context"
	"fmt"
	"sort"
	"strconv"
	"strings"
	"time"

	api "k8s.io/api/core/v1"
	"k8s.io/apimachinery/pkg/api/meta"
	metav1 "k8s.io/apimachinery/pkg/apis/meta/v1"
	"k8s.io/apimachinery/pkg/runtime"
	"k8s.io/apimachinery/pkg/util/intstr"
	clientgoscheme "k8s.io/client-go/kubernetes/scheme"
	"sigs.k8s.io/controller-runtime/pkg/client"
	"sigs.k8s.io/controller-runtime/pkg/client/apiutil"
	"sigs.k8s.io/controller-runtime/pkg/client/fake"
	"sigs.k8s.io/controller-runtime/pkg/client/interceptor"
	gatewayv1 "sigs.k8s.io/gateway-api/apis/v1"
	gatewayv1alpha2 "sigs.k8s.io/gateway-api/apis/v1alpha2"
	gatewayv1beta1 "sigs.k8s.io/gateway-api/apis/v1beta1"

	"github.com/jcmoraisjr/haproxy-ingress/pkg/controller/config"
	"github.com/jcmoraisjr/haproxy-ingress/pkg/controller/services"
	"github.com/jcmoraisjr/haproxy-ingress/pkg/converters/gateway"
	"github.com/jcmoraisjr/haproxy-ingress/pkg/converters/ingress"
	"github.com/jcmoraisjr/haproxy-ingress/pkg/converters/tracker"
	convtypes "github.com/jcmoraisjr/haproxy-ingress/pkg/converters/types"
	"github.com/jcmoraisjr/haproxy-ingress/pkg/haproxy"
	hatypes "github.com/jcmoraisjr/haproxy-ingress/pkg/haproxy/types"

	"hapverif/gen"
	"hapverif/hvutil"
)

const c10Controller = "haproxy-ingress.github.io/controller"

func init() {
	props["C10"] = runC10
	replayers["C10"] = func(c *ctx, a []string) {
		if len(a) > 3 && a[0] == "h" {
			h, err := c10HistParse(a[1:])
			if err != nil {
				fmt.Fprintln(c.out, "# C10 replay: cannot parse history:", err)
				return
			}
			c10histCase(c, h)
			return
		}
		if len(a) == 7 && a[0] == "w" {
			w, err := c10Parse(a[1:])
			if err != nil {
				fmt.Fprintln(c.out, "# C10 replay: cannot parse:", err)
				return
			}
			c10case(c, w)
		}
	}
}

// ---------------------------------------------------------------- world (kept as the case-line tokens)

type c10Listener struct {
	Name, Host, Proto string
	Port              int
	Kinds, From, Sel  string
}
type c10Gateway struct {
	NS, Name, Class string
	Listeners       []c10Listener
}
type c10ParentRef struct{ Group, Kind, NS, Name, Section string }
type c10Match struct{ Type, Value, Hdr string }
type c10BRef struct{ Svc, Port, Weight string }
type c10Rule struct {
	Matches []c10Match
	Refs    []c10BRef
}
type c10Route struct {
	TCP       bool
	NS, Name  string
	TS        int
	Parents   []c10ParentRef
	Hostnames []string
	Rules     []c10Rule
}
type c10Port struct {
	Port int
	Eps  []string
}
type c10Svc struct {
	NS, Name string
	Ports    []c10Port
}
type c10World struct {
	Ver     string
	Classes [][2]string // name, o|f
	NSs     [][2]string // name, labels token
	GWs     []c10Gateway
	Routes  []c10Route
	Svcs    []c10Svc
}

func c10join[T any](xs []T, sep string, f func(T) string) string {
	if len(xs) == 0 {
		return "-"
	}
	s := make([]string, len(xs))
	for i, x := range xs {
		s[i] = f(x)
	}
	return strings.Join(s, sep)
}

func (w *c10World) Text() string {
	cls := c10join(w.Classes, ",", func(c [2]string) string { return c[0] + ":" + c[1] })
	nss := c10join(w.NSs, ",", func(c [2]string) string { return c[0] + ":" + c[1] })
	gws := c10join(w.GWs, ";", func(g c10Gateway) string {
		return g.NS + "/" + g.Name + "@" + g.Class + "!" + c10join(g.Listeners, "|", func(l c10Listener) string {
			return strings.Join([]string{l.Name, l.Host, l.Proto, strconv.Itoa(l.Port), l.Kinds, l.From, l.Sel}, "~")
		})
	})
	rts := c10join(w.Routes, ";", func(r c10Route) string {
		k := "H"
		if r.TCP {
			k = "T"
		}
		return fmt.Sprintf("%s:%s/%s@%d!%s!%s!%s", k, r.NS, r.Name, r.TS,
			c10join(r.Parents, "|", func(p c10ParentRef) string {
				return strings.Join([]string{p.Group, p.Kind, p.NS, p.Name, p.Section}, "~")
			}),
			c10join(r.Hostnames, ",", func(h string) string { return h }),
			c10join(r.Rules, "|", func(ru c10Rule) string {
				return c10join(ru.Matches, "+", func(m c10Match) string { return m.Type + "~" + m.Value + "~" + m.Hdr }) + "^" +
					c10join(ru.Refs, "+", func(b c10BRef) string { return b.Svc + "~" + b.Port + "~" + b.Weight })
			}))
	})
	svcs := c10join(w.Svcs, ";", func(s c10Svc) string {
		return s.NS + "/" + s.Name + "!" + c10join(s.Ports, "|", func(p c10Port) string {
			return strconv.Itoa(p.Port) + "=" + c10join(p.Eps, "+", func(e string) string { return e })
		})
	})
	return strings.Join([]string{"w", w.Ver, cls, nss, gws, rts, svcs}, " ")
}

func c10split(s, sep string) []string {
	if s == "-" || s == "" {
		return nil
	}
	return strings.Split(s, sep)
}

func c10Parse(a []string) (*c10World, error) {
	w := &c10World{Ver: a[0]}
	bad := func(what, s string) (*c10World, error) { return nil, fmt.Errorf("bad %s %q", what, s) }
	for _, c := range c10split(a[1], ",") {
		p := strings.SplitN(c, ":", 2)
		if len(p) != 2 {
			return bad("class", c)
		}
		w.Classes = append(w.Classes, [2]string{p[0], p[1]})
	}
	for _, c := range c10split(a[2], ",") {
		p := strings.SplitN(c, ":", 2)
		if len(p) != 2 {
			return bad("namespace", c)
		}
		w.NSs = append(w.NSs, [2]string{p[0], p[1]})
	}
	nsname := func(s string) (string, string, bool) {
		p := strings.SplitN(s, "/", 2)
		if len(p) != 2 {
			return "", "", false
		}
		return p[0], p[1], true
	}
	for _, g := range c10split(a[3], ";") {
		hd := strings.SplitN(g, "!", 2)
		if len(hd) != 2 {
			return bad("gateway", g)
		}
		at := strings.SplitN(hd[0], "@", 2)
		if len(at) != 2 {
			return bad("gateway", g)
		}
		ns, n, ok := nsname(at[0])
		if !ok {
			return bad("gateway", g)
		}
		gw := c10Gateway{NS: ns, Name: n, Class: at[1]}
		for _, l := range c10split(hd[1], "|") {
			f := strings.Split(l, "~")
			if len(f) != 7 {
				return bad("listener", l)
			}
			port, err := strconv.Atoi(f[3])
			if err != nil {
				return bad("listener port", l)
			}
			gw.Listeners = append(gw.Listeners, c10Listener{f[0], f[1], f[2], port, f[4], f[5], f[6]})
		}
		w.GWs = append(w.GWs, gw)
	}
	for _, r := range c10split(a[4], ";") {
		f := strings.Split(r, "!")
		if len(f) != 4 || len(f[0]) < 2 || f[0][1] != ':' {
			return bad("route", r)
		}
		at := strings.SplitN(f[0][2:], "@", 2)
		if len(at) != 2 {
			return bad("route", r)
		}
		ns, n, ok := nsname(at[0])
		ts, err := strconv.Atoi(at[1])
		if !ok || err != nil {
			return bad("route", r)
		}
		rt := c10Route{TCP: f[0][0] == 'T', NS: ns, Name: n, TS: ts, Hostnames: c10split(f[2], ",")}
		for _, p := range c10split(f[1], "|") {
			q := strings.Split(p, "~")
			if len(q) != 5 {
				return bad("parentRef", p)
			}
			rt.Parents = append(rt.Parents, c10ParentRef{q[0], q[1], q[2], q[3], q[4]})
		}
		for _, ru := range c10split(f[3], "|") {
			mr := strings.SplitN(ru, "^", 2)
			if len(mr) != 2 {
				return bad("rule", ru)
			}
			rule := c10Rule{}
			for _, m := range c10split(mr[0], "+") {
				q := strings.Split(m, "~")
				if len(q) != 3 {
					return bad("match", m)
				}
				rule.Matches = append(rule.Matches, c10Match{q[0], q[1], q[2]})
			}
			for _, b := range c10split(mr[1], "+") {
				q := strings.Split(b, "~")
				if len(q) != 3 {
					return bad("backendRef", b)
				}
				rule.Refs = append(rule.Refs, c10BRef{q[0], q[1], q[2]})
			}
			rt.Rules = append(rt.Rules, rule)
		}
		w.Routes = append(w.Routes, rt)
	}
	for _, s := range c10split(a[5], ";") {
		hd := strings.SplitN(s, "!", 2)
		if len(hd) != 2 {
			return bad("service", s)
		}
		ns, n, ok := nsname(hd[0])
		if !ok {
			return bad("service", s)
		}
		svc := c10Svc{NS: ns, Name: n}
		for _, p := range c10split(hd[1], "|") {
			q := strings.SplitN(p, "=", 2)
			if len(q) != 2 {
				return bad("service port", p)
			}
			port, err := strconv.Atoi(q[0])
			if err != nil {
				return bad("service port", p)
			}
			svc.Ports = append(svc.Ports, c10Port{port, c10split(q[1], "+")})
		}
		w.Svcs = append(w.Svcs, svc)
	}
	return w, nil
}

// ---------------------------------------------------------------- Kubernetes objects

var c10Scheme = func() *runtime.Scheme {
	s := runtime.NewScheme()
	for _, f := range []func(*runtime.Scheme) error{clientgoscheme.AddToScheme, gatewayv1.Install, gatewayv1beta1.Install, gatewayv1alpha2.Install} {
		if err := f(s); err != nil {
			panic(err)
		}
	}
	return s
}()

func c10stamp(obj runtime.Object) {
	if gvk, err := apiutil.GVKForObject(obj, c10Scheme); err == nil {
		obj.GetObjectKind().SetGroupVersionKind(gvk)
	}
}

// c10Client: fake client that stamps the GVK on returned objects (as controller-runtime's CacheReader does)
func c10Client(objs []client.Object) client.Client {
	return fake.NewClientBuilder().WithScheme(c10Scheme).WithObjects(objs...).
		WithInterceptorFuncs(interceptor.Funcs{
			Get: func(ctx context.Context, c client.WithWatch, key client.ObjectKey, obj client.Object, opts ...client.GetOption) error {
				err := c.Get(ctx, key, obj, opts...)
				if err == nil {
					c10stamp(obj)
				}
				return err
			},
			List: func(ctx context.Context, c client.WithWatch, list client.ObjectList, opts ...client.ListOption) error {
				err := c.List(ctx, list, opts...)
				if err == nil {
					_ = meta.EachListItem(list, func(o runtime.Object) error { c10stamp(o); return nil })
				}
				return err
			},
		}).Build()
}

func c10optStr[T ~string](tok string, lit map[string]string) *T {
	if tok == "-" {
		return nil
	}
	if v, ok := lit[tok]; ok {
		t := T(v)
		return &t
	}
	t := T(tok)
	return &t
}

var c10Groups = map[string]string{"e": "", "g": gatewayv1.GroupName, "x": "example.com", "c": ""}
var c10Kinds = map[string]string{"e": "", "G": "Gateway", "S": "Service"}
var c10Empty = map[string]string{"e": ""}

func c10Selector(tok string) *metav1.LabelSelector {
	if tok == "N" {
		return nil
	}
	sel := &metav1.LabelSelector{}
	for _, t := range c10split(tok, "+") {
		if i := strings.Index(t, "="); i >= 0 && !strings.Contains(t, ":") {
			if sel.MatchLabels == nil {
				sel.MatchLabels = map[string]string{}
			}
			sel.MatchLabels[t[:i]] = t[i+1:]
			continue
		}
		q := strings.SplitN(t, ":", 3)
		if len(q) != 3 {
			continue
		}
		var vals []string
		if q[2] != "" {
			vals = strings.Split(q[2], ".")
		}
		sel.MatchExpressions = append(sel.MatchExpressions, metav1.LabelSelectorRequirement{
			Key: q[0], Operator: metav1.LabelSelectorOperator(q[1]), Values: vals})
	}
	return sel
}

func c10AllowedRoutes(l c10Listener) *gatewayv1.AllowedRoutes {
	if l.Kinds == "N" {
		return nil
	}
	ar := &gatewayv1.AllowedRoutes{}
	for _, k := range c10split(l.Kinds, "+") {
		q := strings.SplitN(k, ":", 2)
		rk := gatewayv1.RouteGroupKind{Kind: gatewayv1.Kind(q[1])}
		if q[0] != "n" {
			g := gatewayv1.Group(c10Groups[q[0]])
			rk.Group = &g
		}
		ar.Kinds = append(ar.Kinds, rk)
	}
	if l.From == "N" {
		return ar
	}
	ar.Namespaces = &gatewayv1.RouteNamespaces{Selector: c10Selector(l.Sel)}
	from := map[string]gatewayv1.FromNamespaces{"S": gatewayv1.NamespacesFromSame, "A": gatewayv1.NamespacesFromAll,
		"L": gatewayv1.NamespacesFromSelector, "X": "Bogus"}
	if f, ok := from[l.From]; ok {
		ar.Namespaces.From = &f
	}
	return ar
}

func c10Time(ts int) metav1.Time {
	return metav1.NewTime(time.Unix(1700000000+int64(ts), 0).UTC())
}

func c10ParentRefs(ps []c10ParentRef) []gatewayv1.ParentReference {
	var res []gatewayv1.ParentReference
	for _, p := range ps {
		res = append(res, gatewayv1.ParentReference{
			Group:       c10optStr[gatewayv1.Group](p.Group, c10Groups),
			Kind:        c10optStr[gatewayv1.Kind](p.Kind, c10Kinds),
			Namespace:   c10optStr[gatewayv1.Namespace](p.NS, c10Empty),
			Name:        gatewayv1.ObjectName(p.Name),
			SectionName: c10optStr[gatewayv1.SectionName](p.Section, nil),
		})
	}
	return res
}

func c10BackendRefs(bs []c10BRef) []gatewayv1.BackendRef {
	var res []gatewayv1.BackendRef
	for _, b := range bs {
		r := gatewayv1.BackendRef{BackendObjectReference: gatewayv1.BackendObjectReference{Name: gatewayv1.ObjectName(b.Svc)}}
		if b.Port != "-" {
			p, _ := strconv.Atoi(b.Port)
			pn := gatewayv1.PortNumber(p)
			r.Port = &pn
		}
		if b.Weight != "-" {
			wv, _ := strconv.Atoi(b.Weight)
			w32 := int32(wv)
			r.Weight = &w32
		}
		res = append(res, r)
	}
	return res
}

func c10Proto(tok string) string {
	if tok == "e" {
		return ""
	}
	return tok
}

func (w *c10World) Objects() []client.Object {
	var objs []client.Object
	for _, c := range w.Classes {
		// o = our controllerName, f = another one; a suffix (o1, f2, ...) adds a parametersRef (never read by the code)
		ctl := c10Controller
		if !strings.HasPrefix(c[1], "o") {
			ctl = "example.com/another-controller"
		}
		cl := &gatewayv1.GatewayClass{ObjectMeta: metav1.ObjectMeta{Name: c[0]},
			Spec: gatewayv1.GatewayClassSpec{ControllerName: gatewayv1.GatewayController(ctl)}}
		if len(c[1]) > 1 {
			pns := gatewayv1.Namespace("g")
			cl.Spec.ParametersRef = &gatewayv1.ParametersReference{Group: "", Kind: "ConfigMap", Name: "params" + c[1][1:], Namespace: &pns}
		}
		switch w.Ver {
		case "b1":
			objs = append(objs, (*gatewayv1beta1.GatewayClass)(cl))
		case "a2":
			objs = append(objs, (*gatewayv1alpha2.GatewayClass)(cl))
		default:
			objs = append(objs, cl)
		}
	}
	for _, n := range w.NSs {
		ns := &api.Namespace{ObjectMeta: metav1.ObjectMeta{Name: n[0]}}
		for _, kv := range c10split(n[1], "+") {
			if i := strings.Index(kv, "="); i >= 0 {
				if ns.Labels == nil {
					ns.Labels = map[string]string{}
				}
				ns.Labels[kv[:i]] = kv[i+1:]
			}
		}
		objs = append(objs, ns)
	}
	for _, g := range w.GWs {
		gw := &gatewayv1.Gateway{ObjectMeta: metav1.ObjectMeta{Namespace: g.NS, Name: g.Name},
			Spec: gatewayv1.GatewaySpec{GatewayClassName: gatewayv1.ObjectName(g.Class)}}
		for _, l := range g.Listeners {
			gw.Spec.Listeners = append(gw.Spec.Listeners, gatewayv1.Listener{
				Name:          gatewayv1.SectionName(l.Name),
				Hostname:      c10optStr[gatewayv1.Hostname](l.Host, c10Empty),
				Port:          gatewayv1.PortNumber(l.Port),
				Protocol:      gatewayv1.ProtocolType(c10Proto(l.Proto)),
				AllowedRoutes: c10AllowedRoutes(l),
			})
		}
		switch w.Ver {
		case "b1":
			objs = append(objs, (*gatewayv1beta1.Gateway)(gw))
		case "a2":
			objs = append(objs, (*gatewayv1alpha2.Gateway)(gw))
		default:
			objs = append(objs, gw)
		}
	}
	for _, r := range w.Routes {
		om := metav1.ObjectMeta{Namespace: r.NS, Name: r.Name, CreationTimestamp: c10Time(r.TS)}
		if r.TCP {
			rt := &gatewayv1alpha2.TCPRoute{ObjectMeta: om}
			rt.Spec.ParentRefs = c10ParentRefs(r.Parents)
			for _, ru := range r.Rules {
				rt.Spec.Rules = append(rt.Spec.Rules, gatewayv1alpha2.TCPRouteRule{BackendRefs: c10BackendRefs(ru.Refs)})
			}
			objs = append(objs, rt)
			continue
		}
		rt := &gatewayv1.HTTPRoute{ObjectMeta: om}
		rt.Spec.ParentRefs = c10ParentRefs(r.Parents)
		for _, h := range r.Hostnames {
			if h == "e" {
				h = ""
			}
			rt.Spec.Hostnames = append(rt.Spec.Hostnames, gatewayv1.Hostname(h))
		}
		for _, ru := range r.Rules {
			rule := gatewayv1.HTTPRouteRule{}
			for _, m := range ru.Matches {
				hm := gatewayv1.HTTPRouteMatch{}
				if m.Type != "-" || m.Value != "-" {
					hm.Path = &gatewayv1.HTTPPathMatch{}
					types := map[string]gatewayv1.PathMatchType{"E": gatewayv1.PathMatchExact, "P": gatewayv1.PathMatchPathPrefix,
						"R": gatewayv1.PathMatchRegularExpression, "X": "Bogus"}
					if t, ok := types[m.Type]; ok {
						hm.Path.Type = &t
					}
					hm.Path.Value = c10optStr[string](m.Value, c10Empty)
				}
				if m.Hdr != "-" {
					q := strings.Split(m.Hdr, "=")
					h := gatewayv1.HTTPHeaderMatch{Name: gatewayv1.HTTPHeaderName(q[0])}
					if len(q) > 1 {
						h.Value = q[1]
					}
					if len(q) > 2 && q[2] == "r" {
						t := gatewayv1.HeaderMatchRegularExpression
						h.Type = &t
					}
					hm.Headers = append(hm.Headers, h)
				}
				rule.Matches = append(rule.Matches, hm)
			}
			for _, b := range c10BackendRefs(ru.Refs) {
				rule.BackendRefs = append(rule.BackendRefs, gatewayv1.HTTPBackendRef{BackendRef: b})
			}
			rt.Spec.Rules = append(rt.Spec.Rules, rule)
		}
		switch w.Ver {
		case "b1":
			objs = append(objs, (*gatewayv1beta1.HTTPRoute)(rt))
		case "a2":
			objs = append(objs, (*gatewayv1alpha2.HTTPRoute)(rt))
		default:
			objs = append(objs, rt)
		}
	}
	for _, s := range w.Svcs {
		svc := &api.Service{ObjectMeta: metav1.ObjectMeta{Namespace: s.NS, Name: s.Name}}
		ep := &api.Endpoints{ObjectMeta: metav1.ObjectMeta{Namespace: s.NS, Name: s.Name}}
		for _, p := range s.Ports {
			pname := "p" + strconv.Itoa(p.Port)
			svc.Spec.Ports = append(svc.Spec.Ports, api.ServicePort{Name: pname, Port: int32(p.Port), Protocol: api.ProtocolTCP,
				TargetPort: intstr.FromInt(p.Port)})
			// one subset per target port
			byPort := map[int][]string{}
			var order []int
			for _, e := range p.Eps {
				i := strings.LastIndex(e, ":")
				tp, _ := strconv.Atoi(e[i+1:])
				if _, ok := byPort[tp]; !ok {
					order = append(order, tp)
				}
				byPort[tp] = append(byPort[tp], e[:i])
			}
			for _, tp := range order {
				ss := api.EndpointSubset{Ports: []api.EndpointPort{{Name: pname, Port: int32(tp), Protocol: api.ProtocolTCP}}}
				for _, ip := range byPort[tp] {
					ss.Addresses = append(ss.Addresses, api.EndpointAddress{IP: ip})
				}
				ep.Subsets = append(ep.Subsets, ss)
			}
		}
		objs = append(objs, svc, ep)
	}
	return objs
}

// ---------------------------------------------------------------- the real converter

func c10Run(w *c10World) (out string) {
	defer func() {
		if r := recover(); r != nil {
			out = "PANIC:" + strings.Join(strings.Fields(fmt.Sprint(r)), "_")
		}
	}()
	logger := &hvutil.Logger{}
	cfg := &config.Config{
		AnnPrefix:      []string{"haproxy-ingress.github.io"},
		ControllerName: c10Controller,
		IngressClass:   "haproxy",
		HasGatewayA2:   true,
		HasGatewayB1:   true,
		HasGatewayV1:   true,
		HasTCPRouteA2:  true,
	}
	cli := c10Client(w.Objects())
	trk := tracker.NewTracker()
	dyn := &convtypes.DynamicConfig{}
	cache := services.VerifCreateCacheFacade(context.Background(), cli, cfg, trk, services.CreateSSLCerts(cfg), dyn, func(client.Object) {})
	hcfg := haproxy.CreateInstance(logger, haproxy.InstanceOptions{}).Config()
	opts := &convtypes.ConverterOptions{
		Logger:           logger,
		Cache:            cache,
		Tracker:          trk,
		DynamicConfig:    dyn,
		AnnotationPrefix: cfg.AnnPrefix,
		HasGatewayA2:     true,
		HasGatewayB1:     true,
		HasGatewayV1:     true,
		HasTCPRouteA2:    true,
	}
	changed := &convtypes.ChangedObjects{GlobalConfigMapDataNew: map[string]string{}, NeedFullSync: true}
	// the sequence of converters.(*converters).Sync for one API version
	ingConv := ingress.NewIngressConverter(opts, hcfg, changed)
	gwConv := gateway.NewGatewayConverter(opts, hcfg, changed, ingConv)
	var gwtyp client.Object
	switch w.Ver {
	case "b1":
		gwtyp = &gatewayv1beta1.Gateway{}
	case "a2":
		gwtyp = &gatewayv1alpha2.Gateway{}
	default:
		gwtyp = &gatewayv1.Gateway{}
	}
	gwConv.Sync(true, gwtyp)
	return c10Dump(hcfg)
}

func c10Dump(hcfg haproxy.Config) string {
	var hosts []string
	for _, h := range hcfg.Hosts().Items() {
		var paths []string
		for _, p := range h.Paths {
			// Hash() = hostname \n path \n match [\n h:<name>:<value>[(regex)]]*
			f := strings.Split(string(p.Link.Hash()), "\n")
			hdrs := "-"
			if len(f) > 3 {
				var hs []string
				for _, x := range f[3:] {
					x = strings.TrimPrefix(x, "h:")
					r := ""
					if strings.HasSuffix(x, "(regex)") {
						x, r = strings.TrimSuffix(x, "(regex)"), "=r"
					}
					i := strings.Index(x, ":")
					hs = append(hs, x[:i]+"="+x[i+1:]+r)
				}
				hdrs = strings.Join(hs, "&")
			}
			if f[0] != h.Hostname {
				hdrs += "?linkhost=" + f[0]
			}
			paths = append(paths, f[1]+"~"+f[2]+"~"+hdrs+">"+p.Backend.ID)
		}
		sort.Strings(paths)
		hosts = append(hosts, h.Hostname+"{"+strings.Join(paths, ",")+"}")
	}
	sort.Strings(hosts)
	var backs []string
	for _, b := range hcfg.Backends().Items() {
		var eps []string
		for _, e := range b.Endpoints {
			eps = append(eps, fmt.Sprintf("%s=%s:%d*%d", e.Name, e.IP, e.Port, e.Weight))
		}
		tcp := "0"
		if b.ModeTCP {
			tcp = "1"
		}
		backs = append(backs, b.ID+"~"+tcp+"{"+strings.Join(eps, ",")+"}")
	}
	sort.Strings(backs)
	var ports []int
	tcpItems := hcfg.TCPServices().Items()
	for p := range tcpItems {
		ports = append(ports, p)
	}
	sort.Ints(ports)
	var tcps []string
	for _, p := range ports {
		sp := tcpItems[p]
		if dh := sp.DefaultHost(); dh != nil {
			tcps = append(tcps, fmt.Sprintf("%d>%s", p, dh.Backend.String()))
		}
		var hn []string
		for h := range sp.Hosts() {
			hn = append(hn, h)
		}
		sort.Strings(hn)
		for _, h := range hn {
			tcps = append(tcps, fmt.Sprintf("%d/%s>%s", p, h, sp.Hosts()[h].Backend.String()))
		}
	}
	j := func(x []string) string {
		if len(x) == 0 {
			return "-"
		}
		return strings.Join(x, ";")
	}
	return j(hosts) + "#" + j(backs) + "#" + j(tcps)
}

var _ = hatypes.DefaultHost

func c10case(c *ctx, w *c10World) {
	out := c10Run(w)
	c.emit("C10", w.Text(), out)
	c.stat("ver_"+w.Ver, 1)
	if strings.HasPrefix(out, "PANIC") {
		c.stat("panics", 1)
	} else if out == "-#-#-" {
		c.stat("out_empty", 1)
	} else {
		c.stat("out_nonempty", 1)
	}
	c.stat(fmt.Sprintf("routes_%d", len(w.Routes)), 1)
}

// ---------------------------------------------------------------- generators

var c10NSs = [][2]string{{"g", "env=prod+team=a"}, {"o", "env=dev"}}

func c10StdSvcs() []c10Svc {
	return []c10Svc{
		{NS: "g", Name: "s1", Ports: []c10Port{{8080, []string{"10.0.0.1:8080", "10.0.0.2:8080"}}}},
		{NS: "o", Name: "s1", Ports: []c10Port{{8080, []string{"10.0.1.1:8080"}}}},
		{NS: "g", Name: "s2", Ports: []c10Port{{8080, []string{"10.0.0.3:8080"}}, {9090, nil}}},
		{NS: "o", Name: "s2", Ports: []c10Port{{8080, []string{"10.0.1.3:8080", "10.0.1.1:8080"}}}},
	}
}

var c10KindsDim = []string{"N", "-", "n:HTTPRoute", "g:HTTPRoute", "n:TCPRoute", "x:HTTPRoute", "c:HTTPRoute",
	"n:HTTPRoute+n:TCPRoute", "x:TCPRoute+g:TCPRoute"}

// from + selector
var c10FromDim = [][2]string{{"N", "N"}, {"n", "N"}, {"S", "N"}, {"A", "N"}, {"L", "N"}, {"L", "-"}, {"L", "env=prod"}, {"L", "env=dev"},
	{"L", "env:In:dev.prod"}, {"L", "env:NotIn:prod"}, {"L", "team:Exists:"}, {"L", "team:DoesNotExist:"}, {"L", "env:In:"}, {"X", "N"},
	{"L", "env=prod+team:Exists:"}, {"S", "env=dev"}}

// c10Single: the product of the admission dimensions for one gateway / one listener / one route / one parentRef
func c10Single(c *ctx, step int) {
	classes := [][2]string{{"hap", "o"}, {"oth", "f"}}
	n := 0
	for _, cls := range []string{"hap", "oth", "nil"} {
		for _, tcp := range []bool{false, true} {
			for _, rns := range []string{"g", "o"} {
				for _, pns := range []string{"-", "e", "g", "o"} {
					for _, sec := range []string{"-", "l1", "zz"} {
						for _, kinds := range c10KindsDim {
							for fi, fs := range c10FromDim {
								if kinds == "N" && fi > 0 {
									continue
								}
								for _, proto := range []string{"HTTP", "TCP", "e"} {
									n++
									if n%step != 0 {
										continue
									}
									port := 80
									if proto != "HTTP" {
										port = 9000
									}
									l := c10Listener{"l1", "-", proto, port, kinds, fs[0], fs[1]}
									if kinds == "N" {
										l.From, l.Sel = "N", "N"
									}
									w := &c10World{Ver: "v1", Classes: classes, NSs: c10NSs,
										GWs: []c10Gateway{{"g", "gw1", cls, []c10Listener{l}}},
										Routes: []c10Route{{TCP: tcp, NS: rns, Name: "r1", TS: 1,
											Parents: []c10ParentRef{{"-", "-", pns, "gw1", sec}},
											Rules:   []c10Rule{{Refs: []c10BRef{{"s1", "8080", "-"}}}}}},
										Svcs: c10StdSvcs()}
									c10case(c, w)
									c.stat("single", 1)
								}
							}
						}
					}
				}
			}
		}
	}
}

// listener admission profiles of the pair product
var c10Profiles = [][3]string{{"-", "A", "N"}, {"-", "S", "N"}, {"n:TCPRoute", "A", "N"}, {"N", "N", "N"}, {"g:HTTPRoute", "L", "env=dev"}}

// c10Pairs: two listeners x two parentRefs x hostnames x two rules
func c10Pairs(c *ctx, step int) {
	classes := [][2]string{{"hap", "o"}, {"oth", "f"}}
	lhosts := []string{"-", "*", "e", "a.local", "*.w.local"}
	rhosts := [][]string{nil, {"a.local"}, {"a.local", "b.local"}}
	pr2s := []*c10ParentRef{nil, {"-", "-", "-", "gw1", "-"}, {"g", "G", "g", "gw1", "l2"}, {"-", "-", "g", "gw2", "-"},
		{"x", "-", "g", "gw1", "-"}, {"-", "S", "g", "gw1", "-"}, {"e", "e", "g", "gw1", "l1"}}
	n := 0
	for p1 := range c10Profiles {
		for p2 := range c10Profiles {
			for _, sec1 := range []string{"-", "l1", "l2", "zz"} {
				for _, pr2 := range pr2s {
					for _, tcp := range []bool{false, true} {
						for _, rns := range []string{"g", "o"} {
							for _, lh := range lhosts {
								for _, rh := range rhosts {
									if tcp && (lh != "-" || rh != nil) {
										continue
									}
									n++
									if n%step != 0 {
										continue
									}
									a, b := c10Profiles[p1], c10Profiles[p2]
									l1 := c10Listener{"l1", lh, "HTTP", 80, a[0], a[1], a[2]}
									l2 := c10Listener{"l2", "-", "TCP", 9000, b[0], b[1], b[2]}
									prs := []c10ParentRef{{"-", "-", "g", "gw1", sec1}}
									if pr2 != nil {
										prs = append(prs, *pr2)
									}
									rules := []c10Rule{
										{Matches: []c10Match{{"P", "/app", "-"}, {"E", "/x", "-"}}, Refs: []c10BRef{{"s1", "8080", "3"}, {"s2", "8080", "1"}}},
										{Matches: []c10Match{{"-", "-", "-"}, {"P", "/app", "-"}}, Refs: []c10BRef{{"s2", "8080", "-"}}},
									}
									if tcp {
										rules[0].Matches, rules[1].Matches = nil, nil
									}
									w := &c10World{Ver: "v1", Classes: classes, NSs: c10NSs,
										GWs: []c10Gateway{{"g", "gw1", "hap", []c10Listener{l1, l2}},
											{"g", "gw2", "oth", []c10Listener{{"l1", "-", "HTTP", 80, "-", "A", "N"}, {"l2", "-", "TCP", 9001, "-", "A", "N"}}}},
										Routes: []c10Route{{TCP: tcp, NS: rns, Name: "r1", TS: 1, Parents: prs, Hostnames: rh, Rules: rules}},
										Svcs:   c10StdSvcs()}
									c10case(c, w)
									c.stat("pairs", 1)
								}
							}
						}
					}
				}
			}
		}
	}
}

func c10Random(c *ctx, r *gen.Rng, n int) {
	for i := 0; i < n; i++ {
		c10case(c, c10RandWorld(r))
		c.stat("random", 1)
	}
}

// c10RandWorld: one random world (same stream of draws as before it was split out of c10Random)
func c10RandWorld(r *gen.Rng) *c10World {
	nsPool := []string{"g", "o", "p"}
	{
		w := &c10World{Ver: "v1", Classes: [][2]string{{"hap", "o"}, {"oth", "f"}}}
		switch r.Intn(10) {
		case 0:
			w.Ver = "b1"
		case 1:
			w.Ver = "a2"
		}
		if r.Chance(1, 8) {
			w.Classes = append(w.Classes, [2]string{"hap2", "o"})
		}
		w.NSs = [][2]string{{"g", "env=prod+team=a"}, {"o", "env=dev"}}
		if r.Chance(3, 4) {
			w.NSs = append(w.NSs, [2]string{"p", "-"}) // otherwise namespace p has no Namespace object
		}
		// services
		ipPool := []string{"10.0.0.1", "10.0.0.2", "10.0.0.3", "10.0.0.4"}
		for _, ns := range nsPool {
			for _, sn := range []string{"s1", "s2", "s3"} {
				if r.Chance(1, 6) {
					continue
				}
				svc := c10Svc{NS: ns, Name: sn}
				for _, port := range []int{8080, 9090} {
					if port == 9090 && r.Bool() {
						continue
					}
					k := r.Intn(4)
					if r.Chance(1, 10) {
						k = r.Range(4, 7)
					}
					var eps []string
					seen := map[string]bool{}
					for j := 0; j < k; j++ {
						e := fmt.Sprintf("%s:%d", gen.Pick(r, ipPool), gen.Pick(r, []int{8080, 8081}))
						if r.Chance(1, 3) {
							e = fmt.Sprintf("10.1.%d.%d:%d", r.Intn(3), r.Intn(30), port)
						}
						if !seen[e] {
							seen[e] = true
							eps = append(eps, e)
						}
					}
					svc.Ports = append(svc.Ports, c10Port{port, eps})
				}
				w.Svcs = append(w.Svcs, svc)
			}
		}
		// gateways
		ngw := r.Range(1, 3)
		gwNames := []string{"gw1", "gw2"}
		used := map[string]bool{}
		for j := 0; j < ngw; j++ {
			g := c10Gateway{NS: gen.Pick(r, nsPool[:2]), Name: gen.Pick(r, gwNames), Class: gen.Pick(r, []string{"hap", "hap", "hap", "hap", "oth", "nil", "hap2"})}
			if used[g.NS+"/"+g.Name] {
				continue
			}
			used[g.NS+"/"+g.Name] = true
			nl := r.Range(1, 3)
			if r.Chance(1, 15) {
				nl = 0
			}
			for k := 0; k < nl; k++ {
				fs := gen.Pick(r, c10FromDim)
				if r.Chance(1, 2) {
					fs = [2]string{"A", "N"}
				}
				l := c10Listener{Name: fmt.Sprintf("l%d", k+1), Host: gen.Pick(r, []string{"-", "-", "-", "*", "e", "a.local", "*.w.local", "b.local"}),
					Proto: gen.Pick(r, []string{"HTTP", "HTTP", "TCP", "TCP", "HTTPS", "TLS", "UDP", "e"}), Port: gen.Pick(r, []int{80, 8080, 9000, 9001}),
					Kinds: gen.Pick(r, c10KindsDim), From: fs[0], Sel: fs[1]}
				if r.Chance(2, 3) {
					l.Kinds = gen.Pick(r, []string{"-", "-", "n:HTTPRoute+n:TCPRoute"})
				}
				if l.Kinds == "N" {
					l.From, l.Sel = "N", "N"
				}
				if r.Chance(1, 12) && k > 0 {
					l.Name = "l1" // duplicated listener name (the API rejects it; the code does not care)
				}
				g.Listeners = append(g.Listeners, l)
			}
			w.GWs = append(w.GWs, g)
		}
		// routes
		nr := r.Range(1, 4)
		usedR := map[string]bool{}
		for j := 0; j < nr; j++ {
			rt := c10Route{TCP: r.Chance(1, 3), NS: gen.Pick(r, []string{"g", "g", "o", "o", "p"}), Name: gen.Pick(r, []string{"r1", "r2", "r3"}), TS: r.Range(1, 3)}
			key := fmt.Sprint(rt.TCP, rt.NS, rt.Name)
			if usedR[key] {
				continue
			}
			usedR[key] = true
			np := r.Range(1, 2)
			if r.Chance(1, 20) {
				np = 0
			}
			for k := 0; k < np; k++ {
				p := c10ParentRef{Group: "-", Kind: "-", NS: gen.Pick(r, []string{"-", "-", "g", "o", "e"}), Name: gen.Pick(r, gwNames),
					Section: gen.Pick(r, []string{"-", "-", "-", "l1", "l2", "l3", "zz"})}
				if len(w.GWs) > 0 && r.Chance(3, 4) { // designate an existing gateway
					g := gen.Pick(r, w.GWs)
					p.NS, p.Name = g.NS, g.Name
					if g.NS == rt.NS && r.Bool() {
						p.NS = "-"
					}
				}
				switch r.Intn(12) {
				case 0:
					p.Group = gen.Pick(r, []string{"e", "g", "x"})
				case 1:
					p.Kind = gen.Pick(r, []string{"e", "G", "S"})
				}
				rt.Parents = append(rt.Parents, p)
			}
			if !rt.TCP {
				for k, nh := 0, gen.Pick(r, []int{0, 0, 1, 1, 2}); k < nh; k++ {
					rt.Hostnames = append(rt.Hostnames, gen.Pick(r, []string{"a.local", "b.local", "c.w.local", "*.w.local", "*", "a.local"}))
				}
			}
			nru := r.Range(1, 2)
			if r.Chance(1, 20) {
				nru = 0
			}
			for k := 0; k < nru; k++ {
				ru := c10Rule{}
				if !rt.TCP {
					for q, nm := 0, gen.Pick(r, []int{0, 1, 1, 2}); q < nm; q++ {
						m := c10Match{Type: gen.Pick(r, []string{"-", "E", "P", "P", "R", "X"}), Value: gen.Pick(r, []string{"-", "e", "/", "/app", "/app", "/x", "/a.*"}),
							Hdr: gen.Pick(r, []string{"-", "-", "-", "x-v=1", "x-v=2", "x-v=.*=r"})}
						ru.Matches = append(ru.Matches, m)
					}
				}
				for q, nb := 0, gen.Pick(r, []int{0, 1, 1, 1, 2, 2, 2, 3}); q < nb; q++ {
					b := c10BRef{Svc: gen.Pick(r, []string{"s1", "s2", "s3", "s1", "s2", "s3", "nosvc"}), Port: gen.Pick(r, []string{"8080", "8080", "8080", "8080", "8080", "9090", "7070", "-"}),
						Weight: gen.Pick(r, []string{"-", "-", "0", "1", "2", "3", "10", "41", "59", "100", "256", "1000", "1000000"})}
					ru.Refs = append(ru.Refs, b)
				}
				rt.Rules = append(rt.Rules, ru)
			}
			w.Routes = append(w.Routes, rt)
		}
		return w
	}
}

func c10Corpus(c *ctx) {
	lines := []string{
		// documented getting-started shape (API-defaulted allowedRoutes: Same)
		"w v1 hap:o g:- g/echoserver@hap!echoserver-gw~-~HTTP~80~-~S~N H:g/echoserver@1!-~-~-~echoserver~-!echoserver-from-gateway.local!-^echoserver~8080~- g/echoserver!8080=10.0.0.1:8080",
		// TCPRoute through an HTTP listener with no kinds (Gateway API: kinds follow the protocol): attached by the
		// code as first found (signature tcproute-attached-through-non-tcp-listener), refused since /repo fbb19ce
		"w v1 hap:o g:- g/gw1@hap!l1~-~HTTP~80~-~S~N T:g/r1@1!-~-~-~gw1~-!-!-^s1~8080~- g/s1!8080=10.0.0.1:8080",
		// ... an empty listener protocol (not producible through the API server) puts no bound
		"w v1 hap:o g:- g/gw1@hap!l1~-~e~9000~-~S~N T:g/r1@1!-~-~-~gw1~-!-!-^s1~8080~- g/s1!8080=10.0.0.1:8080",
		// ... same world, HTTPS and UDP listeners refuse, TLS accepts
		"w v1 hap:o g:- g/gw1@hap!l1~-~HTTPS~443~-~S~N|l2~-~UDP~53~-~S~N|l3~-~TLS~8443~-~S~N T:g/r1@1!-~-~-~gw1~-!-!-^s1~8080~- g/s1!8080=10.0.0.1:8080",
		// foreign class
		"w v1 hap:o,oth:f g:- g/gw1@oth!l1~-~HTTP~80~-~A~N H:g/r1@1!-~-~-~gw1~-!-!-^s1~8080~- g/s1!8080=10.0.0.1:8080",
		// two backendRefs resolving to the same ip:port: two servers, unique names
		"w v1 hap:o g:- g/gw1@hap!l1~-~HTTP~80~-~S~N H:g/r1@1!-~-~-~gw1~-!-!-^s1~8080~3+s2~8080~1 g/s1!8080=10.0.0.1:8080;g/s2!8080=10.0.0.1:8080+10.0.0.2:8080",
		// first declared wins across routes (older route first, then ns/name)
		"w v1 hap:o g:-,o:- g/gw1@hap!l1~-~HTTP~80~-~A~N H:o/r2@2!-~-~g~gw1~-!a.local!P~/app~-^s1~8080~-;H:g/r1@2!-~-~-~gw1~-!a.local!P~/app~-^s1~8080~-;H:o/r0@3!-~-~g~gw1~-!a.local!P~/app~-^s1~8080~- g/s1!8080=10.0.0.1:8080;o/s1!8080=10.0.1.1:8080",
		// 41/59 weights (C16 regression), one replica each
		"w v1 hap:o g:- g/gw1@hap!l1~-~HTTP~80~-~S~N H:g/r1@1!-~-~-~gw1~-!-!-^s1~8080~41+s2~8080~59 g/s1!8080=10.0.0.1:8080;g/s2!8080=10.0.0.2:8080",
	}
	for _, l := range lines {
		w, err := c10Parse(strings.Fields(l)[1:])
		if err != nil {
			panic(err)
		}
		c10case(c, w)
		c.stat("corpus", 1)
	}
}

func runC10(c *ctx) {
	c10Corpus(c)
	r := gen.New(c.seed)
	if c.thorough() {
		c10Single(c, 1)
		c10Pairs(c, 1)
		c10Random(c, r, 30000)
		c.stat("exhaustive_single_product", 1)
	} else {
		c10Single(c, 9)
		c10Pairs(c, 41)
		c10Random(c, r, 2500)
	}
	// histories on one long-lived cache facade (c10hist.go); own stream, so the cases above do not move
	c10Histories(c, gen.New(c.seed+0xc10f))
}
