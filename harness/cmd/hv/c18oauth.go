package main

// C18, oauth lookup mode: WHICH published path `oauth: oauth2_proxy` is authenticated by.
//
// buildBackendOAuth looks the oauth2-proxy up by its location: updater.findBackend(namespace, uriPrefix)
// walks the hosts (sorted hostnames) and their paths (Host.Paths, kept sorted by path DESCENDING) and takes
// the first path of the declaring namespace whose declared path equals the uri prefix up to trailing
// slashes. The one-batch mode of c18.go only ever publishes /a /b /c /oauth2 in one namespace; here the
// published paths are LITERAL and are drawn around the uri prefix p (default /oauth2 and values of
// oauth-uri-prefix, with and without trailing slashes): p, p/, p//, p/sub, p-docs, px, a proper prefix of
// p, /, unrelated paths; path types exact/prefix/begin; on the host of the protected path, on another host,
// in another namespace; distinct services; and the dangling case (nothing published at p).
//
// Drives the same REAL code as c18.go (ingress.NewIngressConverter + Sync(true) over Ingress objects of the
// mock cache, the real haproxy.Instance rendering haproxy.tmpl); the records are read the same way.
//
// Case line:  C18 oa <glob> <ing>[,<ing>...] => <path>|<path>...||<binds>
//   <glob>   as in c18.go
//   <ing>    <ns>.<host>.<path>.<match>.<svc>.<url>.<oauth>.<pfx>   one Ingress (name ing01.. in list order),
//            namespace (0 default, 1 other), host h<host>.local, the declared path as written (no `.` `,` blank),
//            match b|p|e, service svc<svc> of the namespace (backend <ns>_svc<svc>_8080), auth-url key of c18URLs
//            (`-` absent), oauth key (- o d u e), oauth-uri-prefix (`-` absent, `e` present and empty, else the value)
//   <path>, <binds>   as in c18.go (a backend name is printed `?<id>`)

import (
	"fmt"
	"os"
	"runtime"
	"strconv"
	"strings"
	"sync"

	convtypes "github.com/jcmoraisjr/haproxy-ingress/pkg/converters/types"

	"github.com/jcmoraisjr/haproxy-ingress/pkg/converters/ingress"

	"hapverif/gen"
)

type c18OaIng struct {
	ns, host        int
	path            string
	match           byte
	svc             int
	url, oauth, pfx string
}

type c18OaScenario struct {
	glob string
	ings []c18OaIng
}

var c18OaNs = []string{"default", "other"}

func (s *c18OaScenario) args() string {
	p := make([]string, len(s.ings))
	for i, g := range s.ings {
		p[i] = fmt.Sprintf("%d.%d.%s.%c.%d.%s.%s.%s", g.ns, g.host, g.path, g.match, g.svc, g.url, g.oauth, g.pfx)
	}
	return "oa " + s.glob + " " + strings.Join(p, ",")
}

func c18OaParse(a []string) (*c18OaScenario, error) {
	if len(a) != 2 {
		return nil, fmt.Errorf("want 2 fields, got %d", len(a))
	}
	if _, err := c18Parse([]string{a[0], "0.0.0.b.-.-.-.-"}); err != nil {
		return nil, err
	}
	sc := &c18OaScenario{glob: a[0]}
	seen := map[string]bool{}
	for _, t := range strings.Split(a[1], ",") {
		f := strings.Split(t, ".")
		if len(f) != 8 || len(f[3]) != 1 {
			return nil, fmt.Errorf("bad ingress token %q", t)
		}
		var g c18OaIng
		var err error
		if g.ns, err = strconv.Atoi(f[0]); err != nil || g.ns < 0 || g.ns > 1 {
			return nil, fmt.Errorf("bad namespace in %q", t)
		}
		if g.host, err = strconv.Atoi(f[1]); err != nil || g.host < 0 || g.host > 9 {
			return nil, fmt.Errorf("bad host in %q", t)
		}
		if g.svc, err = strconv.Atoi(f[4]); err != nil || g.svc < 0 || g.svc > 9 {
			return nil, fmt.Errorf("bad service in %q", t)
		}
		g.path, g.match, g.url, g.oauth, g.pfx = f[2], f[3][0], f[5], f[6], f[7]
		if !strings.HasPrefix(g.path, "/") || strings.ContainsAny(g.path, " \t") {
			return nil, fmt.Errorf("bad path in %q", t)
		}
		if g.match != 'b' && g.match != 'p' && g.match != 'e' {
			return nil, fmt.Errorf("bad match in %q", t)
		}
		if _, ok := c18URLs[g.url]; !ok && g.url != "-" {
			return nil, fmt.Errorf("bad url %q", g.url)
		}
		if _, ok := c18OAuth[g.oauth]; (!ok || g.oauth == "m") && g.oauth != "-" {
			return nil, fmt.Errorf("bad oauth %q", g.oauth)
		}
		if g.pfx != "-" && g.pfx != "e" && !strings.HasPrefix(g.pfx, "/") {
			return nil, fmt.Errorf("bad uri prefix %q", g.pfx)
		}
		k := fmt.Sprintf("%d#%s", g.host, g.path)
		if seen[k] {
			return nil, fmt.Errorf("duplicated host path %s", k)
		}
		seen[k] = true
		sc.ings = append(sc.ings, g)
	}
	return sc, nil
}

func c18OaMust(line string) *c18OaScenario {
	sc, err := c18OaParse(strings.Fields(line))
	if err != nil {
		panic(fmt.Sprintf("%s: %v", line, err))
	}
	return sc
}

func c18OaRun(sc *c18OaScenario) (string, error) {
	base, err := c18Parse([]string{sc.glob, "0.0.0.b.-.-.-.-"})
	if err != nil {
		return "", err
	}
	e, err := c18NewEnv(base, 0)
	if err != nil {
		return "", err
	}
	defer e.close()
	have := map[string]bool{}
	for i, g := range sc.ings {
		ns := c18OaNs[g.ns]
		name := fmt.Sprintf("svc%d", g.svc)
		if !have[ns+"/"+name] {
			have[ns+"/"+name] = true
			svc, ep := c18Service(ns, name)
			e.cache.SvcList = append(e.cache.SvcList, svc)
			e.cache.EpList[ns+"/"+name] = ep
		}
		ann := map[string]string{}
		if g.url != "-" {
			ann[c18Prefix+"/auth-url"] = c18URLs[g.url]
		}
		if g.oauth != "-" {
			ann[c18Prefix+"/oauth"] = c18OAuth[g.oauth]
		}
		switch g.pfx {
		case "-":
		case "e":
			ann[c18Prefix+"/oauth-uri-prefix"] = ""
		default:
			ann[c18Prefix+"/oauth-uri-prefix"] = g.pfx
		}
		ing := c18MkIngress(fmt.Sprintf("ing%02d", i+1), c18Host(g.host), g.path, name, c18PathType(g.match), ann)
		ing.Namespace = ns
		e.cache.IngList = append(e.cache.IngList, ing)
	}
	changed := &convtypes.ChangedObjects{GlobalConfigMapDataNew: e.global}
	ingress.NewIngressConverter(e.opts, e.hconfig, changed).Sync(true)
	e.debugLog()
	bs := e.binds()
	sections, err := e.render()
	if err != nil {
		return "", err
	}
	var out []string
	for _, g := range sc.ings {
		rec, _, err := e.observePath(sections, c18Host(g.host), g.path, g.match == 'e')
		if err != nil {
			return "", err
		}
		out = append(out, rec)
	}
	return strings.Join(out, "|") + "||" + bs, nil
}

func c18OaOnce(sc *c18OaScenario) (out string) {
	defer func() {
		if r := recover(); r != nil {
			out = "PANIC"
			fmt.Fprintf(os.Stderr, "C18 panic on %s: %v\n", sc.args(), r)
		}
	}()
	res, err := c18OaRun(sc)
	if err != nil {
		fmt.Fprintf(os.Stderr, "C18 harness error on %s: %v\n", sc.args(), err)
		return "ERROR"
	}
	return res
}

// c18OaPrefix: uriPrefix of a token as buildBackendOAuth computes it
func c18OaPrefix(tok string) string {
	switch tok {
	case "-":
		return "/oauth2"
	case "e":
		return ""
	}
	return strings.TrimRight(tok, "/")
}

func c18OaEmit(c *ctx, sc *c18OaScenario, out string) {
	c.emit("C18", sc.args(), out)
	c.stat("oa_scenarios", 1)
	c.stat(fmt.Sprintf("oa_paths_%d", len(sc.ings)), 1)
	for _, g := range sc.ings {
		if g.oauth != "o" && g.oauth != "d" {
			continue
		}
		c.stat("oa_declaring_paths", 1)
		switch {
		case g.pfx == "-":
			c.stat("oa_prefix_default", 1)
		case strings.HasSuffix(g.pfx, "/") || g.pfx == "e":
			c.stat("oa_prefix_custom_trailing_slash_or_empty", 1)
		default:
			c.stat("oa_prefix_custom", 1)
		}
		p := c18OaPrefix(g.pfx)
		at, atHosts, sibling, foreign := 0, map[int]bool{}, false, false
		for _, q := range sc.ings {
			eq := strings.TrimRight(q.path, "/") == p
			if eq && q.ns == g.ns {
				at++
				atHosts[q.host] = true
			}
			if eq && q.ns != g.ns {
				foreign = true
			}
			if !eq && q.ns == g.ns && strings.HasPrefix(q.path, p) && p != "" {
				sibling = true
			}
		}
		if at == 0 {
			c.stat("oa_dangling", 1)
		}
		if at >= 2 {
			c.stat("oa_two_or_more_paths_at_prefix", 1)
		}
		if len(atHosts) >= 2 {
			c.stat("oa_prefix_published_on_several_hosts", 1)
		}
		if sibling {
			c.stat("oa_sibling_shares_prefix", 1)
			if at == 0 {
				c.stat("oa_dangling_with_sibling_sharing_prefix", 1)
			}
		}
		if foreign {
			c.stat("oa_other_namespace_at_prefix", 1)
		}
		if g.url != "-" {
			c.stat("oa_with_auth_url", 1)
		}
	}
	for _, k := range []string{"RB=deny", "RB=icpt"} {
		if strings.Contains(out, k) {
			c.stat("oa_out_"+strings.NewReplacer("=", "_").Replace(k), 1)
		}
	}
}

func c18OaCase(c *ctx, sc *c18OaScenario) { c18OaEmit(c, sc, c18OaOnce(sc)) }

func c18OaBatch(c *ctx, scs []*c18OaScenario) {
	outs := make([]string, len(scs))
	workers := runtime.NumCPU() / 2
	if workers > 6 {
		workers = 6
	}
	if workers < 1 {
		workers = 1
	}
	var wg sync.WaitGroup
	next := make(chan int, 64)
	for w := 0; w < workers; w++ {
		wg.Add(1)
		go func() {
			defer wg.Done()
			for i := range next {
				outs[i] = c18OaOnce(scs[i])
			}
		}()
	}
	for i := range scs {
		next <- i
	}
	close(next)
	wg.Wait()
	for i, sc := range scs {
		c18OaEmit(c, sc, outs[i])
	}
}

// ---------------------------------------------------------------- generators

// c18OaPool: declared paths around the uri prefix p
func c18OaPool(p string) []string {
	if p == "" {
		return []string{"/", "/app", "/auth", "/oauth2", "/zzz"}
	}
	pool := []string{p, p + "/", p + "/sub", p + "-docs", p + "x", p[:len(p)-1], "/", "/app", "/zzz", p + "//", p + "/auth"}
	if i := strings.LastIndex(p, "/"); i > 0 {
		pool = append(pool, p[:i]) // parent directory of a nested prefix
	}
	return pool
}

var c18OaPfxToks = []string{"-", "-", "-", "/auth", "/auth/", "/oauth2/", "/oauth2//", "/sso/login", "/sso/login/", "e", "/"}

func c18OaRandom(r *gen.Rng) *c18OaScenario {
	sc := &c18OaScenario{glob: gen.Pick(r, []string{"x0l0r2", "x0l0r2", "x0l0r2", "x0l1r2", "x1l1r2", "x1l0r2", "x0l0r0"})}
	tok := gen.Pick(r, c18OaPfxToks)
	pool := c18OaPool(c18OaPrefix(tok))
	used := map[string]bool{}
	svcs := [2]int{}
	add := func(g c18OaIng) bool {
		k := fmt.Sprintf("%d#%s", g.host, g.path)
		if used[k] || len(sc.ings) >= 7 {
			return false
		}
		used[k] = true
		// a service of its own, sometimes the one of an earlier ingress of the namespace
		if svcs[g.ns] > 0 && r.Chance(1, 6) {
			g.svc = r.Intn(svcs[g.ns])
		} else if svcs[g.ns] < 10 {
			g.svc = svcs[g.ns]
			svcs[g.ns]++
		} else {
			g.svc = r.Intn(10)
		}
		sc.ings = append(sc.ings, g)
		return true
	}
	nprot := r.Range(1, 2)
	for i := 0; i < nprot; i++ {
		g := c18OaIng{host: r.Intn(3), match: gen.Pick(r, []byte{'b', 'b', 'p', 'e'}), url: "-", pfx: tok}
		if r.Chance(1, 5) {
			g.ns = 1
		}
		g.path = gen.Pick(r, []string{"/", "/app", "/app", "/a"})
		if r.Chance(1, 5) {
			g.path = gen.Pick(r, pool)
		}
		g.oauth = gen.Pick(r, []string{"o", "o", "o", "o", "d", "d", "u", "e"})
		switch r.Intn(12) {
		case 0:
			g.url = gen.Pick(r, []string{"h1", "h2", "hq"})
		case 1:
			g.url = gen.Pick(r, []string{"mf", "bp", "e"})
		}
		if i > 0 && r.Chance(1, 4) {
			g.pfx = gen.Pick(r, c18OaPfxToks)
		}
		add(g)
	}
	npub := r.Intn(5)
	for i := 0; i < npub; i++ {
		g := c18OaIng{host: r.Intn(3), match: gen.Pick(r, []byte{'b', 'p', 'e'}), url: "-", oauth: "-", pfx: "-"}
		if r.Chance(1, 4) {
			g.ns = 1
		}
		if r.Chance(2, 3) {
			g.host = sc.ings[0].host
		}
		g.path = pool[r.Intn(len(pool))]
		if near := min(6, len(pool)); r.Chance(3, 5) {
			g.path = pool[r.Intn(near)] // the paths closest to the prefix
		}
		if r.Chance(1, 10) {
			g.oauth, g.pfx = "o", tok // the publisher's own ingress carries the annotation too
		}
		add(g)
	}
	// half of the scenarios publish the proxy where the first declaration expects it (else dangling dominates)
	if p := c18OaPrefix(tok); r.Chance(1, 2) {
		g := c18OaIng{ns: sc.ings[0].ns, host: r.Intn(3), match: gen.Pick(r, []byte{'b', 'p', 'e'}), url: "-", oauth: "-", pfx: "-"}
		g.path = p + gen.Pick(r, []string{"", "", "/"})
		if g.path == "" {
			g.path = "/"
		}
		add(g)
	}
	return sc
}

func runC18OAuth(c *ctx) {
	// ---- corpus
	corpus := []string{
		// seed C18f (strings.HasPrefix instead of TrimRight + ==): a sibling that shares the prefix is visited first
		"x0l0r2 0.0./.b.0.-.o./auth,0.0./authors.b.1.-.-.-,0.0./auth.b.2.-.-.-",
		"x0l0r2 0.0./.b.0.-.o./auth,0.0./authors.b.1.-.-.-", // ... and a dangling declaration is not denied
		"x0l0r2 0.0./app.b.0.-.o.-,0.0./oauth2-docs.e.1.-.-.-,0.0./oauth2.b.2.-.-.-",
		"x0l0r2 0.0./app.b.0.-.o.-,0.0./oauth2-docs.e.1.-.-.-",
		"x0l0r2 0.0./app.b.0.-.d.-,0.1./oauth2x.p.1.-.-.-,0.2./oauth2.b.2.-.-.-",
		"x0l0r2 0.0./app.b.0.-.o.-,0.0./oauth2/sub.p.1.-.-.-",
		// well-behaved shapes
		"x0l0r2 0.0./app.b.0.-.o.-,0.0./oauth2.b.1.-.-.-",
		"x0l0r2 0.0./app.b.0.-.o.-",
		"x0l0r2 0.0./app.b.0.-.o.-,1.0./oauth2.b.1.-.-.-",                           // the prefix is published by another namespace: denied
		"x0l0r2 0.0./app.b.0.-.o./oauth2/,0.1./oauth2/.p.1.-.-.-",                   // trailing slashes on both sides
		"x0l0r2 0.1./app.b.0.-.o.-,0.2./oauth2.b.1.-.-.-,0.0./oauth2/.b.2.-.-.-",    // two proxies: first hostname wins
		"x0l0r2 0.0./app.b.0.-.o.-,0.0./oauth2.b.1.-.-.-,0.0./oauth2/.e.2.-.-.-",    // same host: /oauth2/ sorts first
		"x0l0r2 0.0./app.b.0.-.o.e,0.0./.b.1.-.-.-",                                 // empty prefix: the root path
		"x0l0r2 0.0./app.b.0.h1.o.-,0.0./oauth2.b.1.-.-.-",                          // the path's own auth-url has precedence
		"x0l0r2 0.0./app.b.0.mf.o.-,0.0./oauth2-docs.b.1.-.-.-",                     // ... and its deny is kept
		"x0l0r2 0.0./app.b.0.-.u.-,0.0./oauth2.b.1.-.-.-",                           // refused implementation name
		"x1l0r2 0.0./app.b.0.-.o.-,0.0./oauth2.b.1.-.-.-",                           // external haproxy without lua
		"x0l0r2 0.0./app.b.0.-.o./sso/login,0.0./sso.b.1.-.-.-,0.0./sso/login.b.2.-.-.-",
		"x0l0r2 0.0./oauth2.b.0.-.o.-,0.0./.b.0.-.o.-", // one ingress shape: the proxy path carries the annotation too
	}
	for _, l := range corpus {
		c18OaCase(c, c18OaMust(l))
	}

	var scs []*c18OaScenario
	// ---- exhaustive: protected path /app on h0 (default namespace) x uri prefix x every set of at most two
	// siblings out of {p, p/, p/sub, p-docs, px, proper prefix of p} x where each sibling is published
	// (same host | another host | another namespace on the same host); path types rotate
	toks := []string{"-", "/auth/"}
	if c.thorough() {
		toks = []string{"-", "/auth", "/auth/", "/oauth2//", "/sso/login"}
	}
	types := []byte{'b', 'e', 'p'}
	n0 := len(scs)
	for _, tok := range toks {
		pool := c18OaPool(c18OaPrefix(tok))[:6]
		var sets [][]int
		sets = append(sets, nil)
		for a := 0; a < len(pool); a++ {
			sets = append(sets, []int{a})
			for b := a + 1; b < len(pool); b++ {
				sets = append(sets, []int{a, b})
			}
		}
		for _, set := range sets {
			places := 1
			for range set {
				places *= 3
			}
			for pl := 0; pl < places; pl++ {
				sc := &c18OaScenario{glob: "x0l0r2"}
				sc.ings = append(sc.ings, c18OaIng{host: 0, path: "/app", match: 'b', svc: 0, url: "-", oauth: "o", pfx: tok})
				x := pl
				for k, idx := range set {
					g := c18OaIng{path: pool[idx], match: types[(idx+pl)%3], svc: k + 1, url: "-", oauth: "-", pfx: "-"}
					switch x % 3 {
					case 1:
						g.host = 1
					case 2:
						g.ns = 1
					}
					x /= 3
					sc.ings = append(sc.ings, g)
				}
				scs = append(scs, sc)
			}
		}
	}
	c.stat("oa_exhaustive_siblings", len(scs)-n0)

	// ---- random
	r := gen.New(c.seed ^ 0x18f0a)
	n := 450
	if c.thorough() {
		n = 10000
	}
	for i := 0; i < n; i++ {
		scs = append(scs, c18OaRandom(r))
	}
	c18OaBatch(c, scs)
}
