package main

// C05, mode cnt — the counters `hatypes.Hosts` keeps next to its item set (sslPassthroughCount, read by
// HasSSLPassthrough(), which decides whether haproxy.cfg holds the SNI frontend) against Model/C05Count.lean.
//
//   case line:  C05 cnt <p> <op>,<op>,...
//   ops:  aX  AcquireHost(hX.local)      pX.V  FindHost(hX.local).SetSSLPassthrough(V != 0)
//         cX.N  another field of FindHost(hX.local) (TLS.ALPN: what Shrink's DeepEqual sees)
//         rX.Y..  RemoveAll      s  Shrink      m  Commit      k  a fresh Hosts (what config.Clear() does)
//   impl output, one observation per op:
//         <sslPassthroughCount>|<HasSSLPassthrough 0/1>|<Items()>|<ItemsAdd()>|<ItemsDel()>
//         map = x:<SSLPassthrough 0/1>.<content>+... sorted by x, `-` when empty.  The counter is a private
//         field: it is READ by reflection (`?` when the field is not there; the driver then compares the rest)

import (
	"fmt"
	"os"
	"reflect"
	"sort"
	"strconv"
	"strings"

	hatypes "github.com/jcmoraisjr/haproxy-ingress/pkg/haproxy/types"

	"hapverif/gen"
)

func c05cntMap(p int, m map[string]*hatypes.Host) string {
	var es []string
	var xs []int
	byX := map[int]*hatypes.Host{}
	for name, h := range m {
		x, err := strconv.Atoi(strings.TrimSuffix(strings.TrimPrefix(name, "h"), ".local"))
		if err != nil || x < 0 || x >= p {
			es = append(es, "bad-name-"+name)
			continue
		}
		xs = append(xs, x)
		byX[x] = h
	}
	sort.Ints(xs)
	for _, x := range xs {
		h := byX[x]
		fl := 0
		if h.SSLPassthrough() {
			fl = 1
		}
		n := 0
		if h.TLS.ALPN != "" {
			n, _ = strconv.Atoi(strings.TrimPrefix(h.TLS.ALPN, "v"))
		}
		es = append(es, fmt.Sprintf("%d:%d.%d", x, fl, n))
	}
	if len(es) == 0 {
		return "-"
	}
	return strings.Join(es, "+")
}

func c05cntObs(p int, hs *hatypes.Hosts) string {
	cnt := "?"
	if f := reflect.ValueOf(hs).Elem().FieldByName("sslPassthroughCount"); f.IsValid() && f.CanInt() {
		cnt = strconv.FormatInt(f.Int(), 10)
	}
	has := 0
	if hs.HasSSLPassthrough() {
		has = 1
	}
	return fmt.Sprintf("%s|%d|%s|%s|%s", cnt, has, c05cntMap(p, hs.Items()), c05cntMap(p, hs.ItemsAdd()), c05cntMap(p, hs.ItemsDel()))
}

func c05cntRun(c *ctx, p int, ops []string) {
	args := fmt.Sprintf("cnt %d %s", p, strings.Join(ops, ","))
	out := func() (res string) {
		defer func() {
			if r := recover(); r != nil {
				res = "PANIC"
				fmt.Fprintf(os.Stderr, "C05 cnt panic on %s: %v\n", args, r)
			}
		}()
		hs := hatypes.CreateHosts()
		var obs []string
		for _, op := range ops {
			f := strings.Split(op[1:], ".")
			num := func(i int) int {
				if i >= len(f) {
					panic("bad op " + op)
				}
				v, err := strconv.Atoi(f[i])
				if err != nil {
					panic("bad op " + op)
				}
				return v
			}
			switch op[0] {
			case 'a':
				hs.AcquireHost(c05host(num(0)))
			case 'p':
				if h := hs.FindHost(c05host(num(0))); h != nil {
					h.SetSSLPassthrough(num(1) != 0)
				}
			case 'c':
				if h := hs.FindHost(c05host(num(0))); h != nil {
					h.TLS.ALPN = ""
					if n := num(1); n != 0 {
						h.TLS.ALPN = fmt.Sprintf("v%d", n)
					}
				}
			case 'r':
				var names []string
				if op != "r" {
					for i := range f {
						names = append(names, c05host(num(i)))
					}
				}
				hs.RemoveAll(names)
			case 's':
				hs.Shrink()
			case 'm':
				hs.Commit()
			case 'k':
				hs = hatypes.CreateHosts()
			default:
				panic("bad op " + op)
			}
			obs = append(obs, c05cntObs(p, hs))
		}
		if len(obs) == 0 {
			return "-"
		}
		return strings.Join(obs, ";")
	}()
	c.emit("C05", args, out)
	c.stat("mode_cnt", 1)
}

func c05cntReplay(c *ctx, a []string) {
	// a = cnt <p> <ops>
	if len(a) != 3 {
		return
	}
	p, err := strconv.Atoi(a[1])
	if err != nil || p < 1 {
		return
	}
	c05cntRun(c, p, strings.Split(a[2], ","))
}

// c05cntBatch: one batch the way converters.Sync drives Hosts: RemoveAll of the dirty names (or a fresh Hosts),
// the dirty names that still exist are parsed again (AcquireHost + annotations), Shrink, Commit
func c05cntBatch(r *gen.Rng, p int, live map[int][2]int, wild bool) []string {
	var ops []string
	var dirty []int
	full := r.Chance(1, 8)
	for x := 0; x < p; x++ {
		if full || r.Chance(1, 2) {
			dirty = append(dirty, x)
		}
	}
	if full {
		ops = append(ops, "k")
	} else {
		var ss []string
		for _, x := range dirty {
			ss = append(ss, strconv.Itoa(x))
		}
		ops = append(ops, "r"+strings.Join(ss, "."))
	}
	for _, x := range dirty {
		g, ok := live[x]
		switch {
		case !ok:
			if r.Chance(1, 2) {
				continue
			}
			g = [2]int{r.Intn(2), r.Intn(3)}
			if r.Chance(1, 2) {
				g[0] = 1
			}
		case r.Chance(1, 6):
			delete(live, x)
			continue
		case r.Chance(1, 2): // re-parsed unchanged
		case r.Chance(1, 2):
			g[0] = 1 - g[0]
		default:
			g[1] = r.Intn(3)
		}
		live[x] = g
		ops = append(ops, fmt.Sprintf("a%d", x))
		if g[1] != 0 {
			ops = append(ops, fmt.Sprintf("c%d.%d", x, g[1]))
		}
		if g[0] != 0 {
			ops = append(ops, fmt.Sprintf("p%d.1", x))
			if r.Chance(1, 10) { // an annotation read twice / overridden
				ops = append(ops, fmt.Sprintf("p%d.0", x), fmt.Sprintf("p%d.1", x))
			}
		}
		if wild && r.Chance(1, 6) { // outside the discipline: removed again within the batch
			ops = append(ops, fmt.Sprintf("r%d", x))
		}
	}
	if !r.Chance(1, 10) {
		ops = append(ops, "s")
	}
	if r.Chance(1, 6) {
		ops = append(ops, "s")
	}
	ops = append(ops, "m")
	return ops
}

func runC05cnt(c *ctx) {
	sp := func(s string) []string { return strings.Split(s, ",") }
	// corpus: the Lean witnesses (Props/C05Count.lean reparse / double_release_drifts / undisciplined_resurrects)
	c05cntRun(c, 2, sp("a0,p0.1,a1,m,r0,a0,p0.1,s,m"))
	c05cntRun(c, 2, sp("a0,p0.1,a1,p1.1,m,r0,a0,p0.1,s,m,r1,a1,p1.1,s,m,r0.1,a0,a1,p0.1,p1.1,s,m"))
	c05cntRun(c, 1, sp("a0,p0.1,r0,s"))
	c05cntRun(c, 2, sp("a0,c0.2,p0.1,m,r0,a0,c0.1,p0.1,s,m,r0,a0,c0.1,s,m,r0,s,m,k,a1,p1.1,s,m"))
	// exhaustive: every sequence over the alphabet of one passthrough host and a bystander
	alpha := []string{"a0", "p0.1", "p0.0", "c0.1", "r0", "s", "m", "a1", "k"}
	maxLen := 4
	if c.thorough() {
		maxLen = 6
	}
	var rec func(prefix []string, left int)
	rec = func(prefix []string, left int) {
		if len(prefix) > 0 {
			ops := append(append([]string{"a0", "p0.1", "m"}, prefix...), "s", "m")
			c05cntRun(c, 2, ops)
		}
		if left == 0 {
			return
		}
		for _, a := range alpha {
			rec(append(prefix[:len(prefix):len(prefix)], a), left-1)
		}
	}
	rec(nil, maxLen)
	// random batches
	count := 3000
	if c.thorough() {
		count = 60000
	}
	r := gen.New(c.seed).Fork().Fork().Fork()
	for i := 0; i < count; i++ {
		p := r.Range(1, 4)
		live := map[int][2]int{}
		wild := r.Chance(1, 8)
		var ops []string
		for b, nb := 0, r.Range(2, 7); b < nb; b++ {
			ops = append(ops, c05cntBatch(r, p, live, wild)...)
		}
		c05cntRun(c, p, ops)
	}
}
