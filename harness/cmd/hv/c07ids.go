package main

// C07 — `server ... id <n>` of the annotation assign-backend-server-id: "true"
// (pkg/converters/ingress/ingress.go syncBackendEndpointHashes; model: lean/HapVerif/Model/C07Ids.lean).
//
//   C07 sid <A><E> <ep>,<ep>,... => <puid>,<puid>,...
//     A    i  the annotation sits on the Ingress | s on the Service
//     E    e  Endpoints | s EndpointSlices (ConverterOptions.EnableEPSlices)
//     ep   the endpoints AS LISTED, the k-th (k = 0..) has the address 10.0.0.<k+1> (CreateEndpoints sorts by
//          address, so this is also the order of Backend.Endpoints):
//            n          no targetRef
//            <p>:!      targetRef Pod default/p<p, 3 digits>, which does not exist (GetPod fails)
//            <p>:<uid>  targetRef Pod default/p<p>, whose metadata.uid is <uid>; a pod number may repeat (one
//                       pod behind two addresses), the uid is then the same
//     output: Endpoint.PUID of every endpoint, in that order (0 = the template writes no `id`)
//             NOBACKEND / id? when the backend or a server is missing, PANIC when the real code panicked
//   Runs the REAL converters.NewConverter(...).Sync() (ingress converter + annotation updater) over the
//   repository's CacheMock, against a real haproxy model, like C16's `bg` cases.
//
// Random UIDs never collide (2^-32 per pair), so the UIDs are CONSTRUCTED: FNV-1a is invertible byte by byte
// (the prime is odd), and a meet-in-the-middle search over <prefix><3 chars><4 chars> finds, for ANY 32 bit
// target, a UID with exactly that hash (c07uidFor).  The pool (deterministic from the seed) holds families
//   b, b+1, b+2, b+2^31, b+1+2^31   for base values b in {random, 0, 1, 2^31-2, 2^31-1, 2^32-1, ...}
// with two different UIDs per value, that is: (a) equal 32 bit hashes, (b) hashes equal modulo 2^31 that differ in
// bit 31, (c) hash & 0x7fffffff == 0, (d) chains h, h+1, h+2 on which the probing lands on an occupied id, and
// the wrap-around 2^31-1 -> (0 skipped) -> 1.
//
// World level (`C07 hist ...`, c07sidHist): the same collisions end to end.  A world pod has the UID
// "uid-<ns>-<name>", so pod NAMES are constructed; the real pipeline writes haproxy.cfg (full and partial syncs,
// fresh controller) and the lint pass reports `duplicate-server-id`.

import (
	"fmt"
	"hash/fnv"
	"sort"
	"strconv"
	"strings"

	api "k8s.io/api/core/v1"
	networking "k8s.io/api/networking/v1"
	metav1 "k8s.io/apimachinery/pkg/apis/meta/v1"
	"k8s.io/apimachinery/pkg/types"

	conv_helper "github.com/jcmoraisjr/haproxy-ingress/pkg/converters/helper_test"
	"github.com/jcmoraisjr/haproxy-ingress/pkg/converters/tracker"

	"hapverif/gen"
)

// ---------------------------------------------------------------- UIDs with a chosen FNV-1a hash

const (
	c07fnvPrime  = 16777619
	c07fnvOffset = 2166136261
	c07alphabet  = "0123456789abcdefghijklmnopqrstuvwxyz"
)

func c07fnv(s string) uint32 {
	h := fnv.New32a()
	h.Write([]byte(s))
	return h.Sum32()
}

// c07fnvInv: inverse of the FNV prime modulo 2^32 (Newton iteration; the prime is odd)
func c07fnvInv() uint32 {
	x := uint32(c07fnvPrime)
	for i := 0; i < 6; i++ {
		x *= 2 - c07fnvPrime*x
	}
	return x
}

type c07finder struct {
	prefix string
	mid    map[uint32]uint16 // FNV state after prefix+mid -> index of the 3 character middle part
	inv    uint32
}

func c07newFinder(prefix string) *c07finder {
	f := &c07finder{prefix: prefix, mid: map[uint32]uint16{}, inv: c07fnvInv()}
	h0 := uint32(c07fnvOffset)
	for i := 0; i < len(prefix); i++ {
		h0 = (h0 ^ uint32(prefix[i])) * c07fnvPrime
	}
	n := len(c07alphabet)
	for a := 0; a < n; a++ {
		ha := (h0 ^ uint32(c07alphabet[a])) * c07fnvPrime
		for b := 0; b < n; b++ {
			hb := (ha ^ uint32(c07alphabet[b])) * c07fnvPrime
			for c := 0; c < n; c++ {
				hc := (hb ^ uint32(c07alphabet[c])) * c07fnvPrime
				if _, dup := f.mid[hc]; !dup {
					f.mid[hc] = uint16((a*n+b)*n + c)
				}
			}
		}
	}
	return f
}

// find: the first `count` strings prefix+mid+suffix (enumeration order of the suffix) whose FNV-1a 32 is target
func (f *c07finder) find(target uint32, count int) []string {
	var res []string
	n := len(c07alphabet)
	for d := 0; d < n; d++ { // last character first: walk the hash backwards
		h3 := (target * f.inv) ^ uint32(c07alphabet[d])
		for c := 0; c < n; c++ {
			h2 := (h3 * f.inv) ^ uint32(c07alphabet[c])
			for b := 0; b < n; b++ {
				h1 := (h2 * f.inv) ^ uint32(c07alphabet[b])
				for a := 0; a < n; a++ {
					h0 := (h1 * f.inv) ^ uint32(c07alphabet[a])
					if m, ok := f.mid[h0]; ok {
						mi := int(m)
						s := f.prefix + string([]byte{c07alphabet[mi/(n*n)], c07alphabet[mi/n%n], c07alphabet[mi%n],
							c07alphabet[a], c07alphabet[b], c07alphabet[c], c07alphabet[d]})
						if c07fnv(s) != target {
							panic("c07: constructed uid does not have the chosen hash")
						}
						res = append(res, s)
						if len(res) == count {
							return res
						}
					}
				}
			}
		}
	}
	return res
}

// c07family: hashes around one base value that make the loop collide / probe / wrap
func c07family(b uint32) []uint32 {
	return []uint32{b, b + 1, b + 2, b ^ 0x80000000, (b + 1) ^ 0x80000000}
}

type c07pool struct {
	fam   [][][]string // family -> member (see c07family) -> the UIDs with that hash
	bases []uint32
}

func c07buildPool(f *c07finder, r *gen.Rng, randomBases int) *c07pool {
	p := &c07pool{}
	p.bases = []uint32{0, 1, 0x7ffffffe, 0x7fffffff, 0xfffffffe, 0xffffffff, 0x7ffffffd}
	for i := 0; i < randomBases; i++ {
		p.bases = append(p.bases, uint32(r.U64()))
	}
	for _, b := range p.bases {
		var members [][]string
		for _, h := range c07family(b) {
			members = append(members, f.find(h, 2))
		}
		p.fam = append(p.fam, members)
	}
	return p
}

// ---------------------------------------------------------------- converter level

type c07sidEp struct {
	Pod int    // -1 = no targetRef
	UID string // "!" = the pod does not exist
}

func c07sidText(eps []c07sidEp) string {
	s := make([]string, len(eps))
	for i, e := range eps {
		if e.Pod < 0 {
			s[i] = "n"
		} else {
			s[i] = strconv.Itoa(e.Pod) + ":" + e.UID
		}
	}
	return strings.Join(s, ",")
}

func c07sidParse(s string) ([]c07sidEp, bool) {
	var eps []c07sidEp
	uids := map[int]string{}
	for _, t := range strings.Split(s, ",") {
		if t == "n" {
			eps = append(eps, c07sidEp{Pod: -1})
			continue
		}
		i := strings.IndexByte(t, ':')
		if i <= 0 || i == len(t)-1 {
			return nil, false
		}
		p, err := strconv.Atoi(t[:i])
		if err != nil || p < 0 || p > 999 {
			return nil, false
		}
		if u, seen := uids[p]; seen && u != t[i+1:] {
			return nil, false // one pod, one uid
		}
		uids[p] = t[i+1:]
		eps = append(eps, c07sidEp{Pod: p, UID: t[i+1:]})
	}
	return eps, len(eps) > 0 && len(eps) <= 200
}

func c07sidRun(mode string, eps []c07sidEp) (out string) {
	defer func() {
		if r := recover(); r != nil {
			out = "PANIC"
		}
	}()
	trk := tracker.NewTracker()
	cache := conv_helper.NewCacheMock(trk)
	cache.PodList = map[string]*api.Pod{}
	var ready []api.EndpointAddress
	for k, e := range eps {
		a := api.EndpointAddress{IP: c07sidIP(k)}
		if e.Pod >= 0 {
			name := fmt.Sprintf("p%03d", e.Pod)
			a.TargetRef = &api.ObjectReference{Kind: "Pod", Namespace: "default", Name: name}
			if e.UID != "!" {
				cache.PodList["default/"+name] = &api.Pod{
					ObjectMeta: metav1.ObjectMeta{Namespace: "default", Name: name, UID: types.UID(e.UID)},
					Status:     api.PodStatus{PodIP: a.IP}}
			}
		}
		ready = append(ready, a)
	}
	slices := mode[1] == 's'
	c16AddServiceGroups(cache, "default", "app", true, slices, [][]api.EndpointAddress{ready}, nil, "")
	ann := map[string]string{c16Prefix + "/assign-backend-server-id": "true"}
	ingAnn := ann
	if mode[0] == 's' {
		cache.SvcList[len(cache.SvcList)-1].Annotations = ann
		ingAnn = nil
	}
	pt := networking.PathTypePrefix
	cache.IngList = append(cache.IngList, &networking.Ingress{
		ObjectMeta: metav1.ObjectMeta{Namespace: "default", Name: "ing", Annotations: ingAnn},
		Spec: networking.IngressSpec{Rules: []networking.IngressRule{{
			Host: "app.local",
			IngressRuleValue: networking.IngressRuleValue{HTTP: &networking.HTTPIngressRuleValue{
				Paths: []networking.HTTPIngressPath{{Path: "/", PathType: &pt,
					Backend: networking.IngressBackend{Service: &networking.IngressServiceBackend{
						Name: "app", Port: networking.ServiceBackendPort{Number: 8080}}}}},
			}},
		}}},
	})
	hcfg := c16Sync(cache, trk, map[string]string{}, slices)
	b := hcfg.Backends().FindBackend("default", "app", "8080")
	if b == nil {
		return "NOBACKEND"
	}
	ids := make([]string, len(eps))
	for _, ep := range b.Endpoints {
		k, ok := c07sidIndex(ep.IP)
		if !ok || k >= len(eps) || ids[k] != "" {
			return "id?"
		}
		ids[k] = strconv.Itoa(int(ep.PUID))
	}
	// Backend.Endpoints must list the endpoints in address order (the order of the case line)
	for k, ep := range b.Endpoints {
		if j, _ := c07sidIndex(ep.IP); j != k {
			return "id?"
		}
	}
	for _, s := range ids {
		if s == "" {
			return "id?"
		}
	}
	return strings.Join(ids, ",")
}

// addresses whose string order is the order of the listing (CreateEndpoints sorts by "ip:port")
func c07sidIP(k int) string { return fmt.Sprintf("10.0.%d.%d", 1+k/100, 100+k%100) }

func c07sidIndex(ip string) (int, bool) {
	var a, b int
	if n, _ := fmt.Sscanf(ip, "10.0.%d.%d", &a, &b); n != 2 || a < 1 || b < 100 || b > 199 {
		return 0, false
	}
	return (a-1)*100 + (b - 100), true
}

func c07sidCase(c *ctx, mode string, eps []c07sidEp) {
	out := c07sidRun(mode, eps)
	c.emit("C07", "sid "+mode+" "+c07sidText(eps), out)
	c.stat("sid", 1)
	c.stat(fmt.Sprintf("sid_eps_%d", len(eps)), 1)
	if out == "PANIC" {
		c.stat("sid_panics", 1)
	}
	// statistics: which collision classes the case contains (over the pods that exist)
	h32 := map[uint32]int{}
	h31 := map[uint32]int{}
	probe := false
	zero, missing, noref := false, false, false
	seen := map[int]bool{}
	for _, e := range eps {
		switch {
		case e.Pod < 0:
			noref = true
		case e.UID == "!":
			missing = true
		default:
			if seen[e.Pod] {
				continue
			}
			seen[e.Pod] = true
			h := c07fnv(e.UID)
			h32[h]++
			h31[h&0x7fffffff]++
			if h&0x7fffffff == 0 {
				zero = true
			}
		}
	}
	for h := range h31 {
		if h31[(h+1)&0x7fffffff] > 0 && h31[h] > 1 {
			probe = true
		}
	}
	full, bit31 := false, false
	for h, n := range h32 {
		if n > 1 {
			full = true
		}
		if h31[h&0x7fffffff] > n {
			bit31 = true
		}
	}
	for k, v := range map[string]bool{"sid_full_hash_collision": full, "sid_bit31_collision": bit31, "sid_probe_onto_used": probe,
		"sid_hash_zero_mod_2_31": zero, "sid_missing_pod": missing, "sid_no_targetref": noref} {
		if v {
			c.stat(k, 1)
		}
	}
}

func c07sidReplay(c *ctx, a []string) bool {
	if len(a) == 3 && a[0] == "sid" && len(a[1]) == 2 && strings.ContainsRune("is", rune(a[1][0])) && strings.ContainsRune("es", rune(a[1][1])) {
		if eps, ok := c07sidParse(a[2]); ok {
			c07sidCase(c, a[1], eps)
		}
		return true
	}
	return false
}

var c07sidModes = []string{"ie", "se", "is", "ss"}

func runC07Sid(c *ctx) {
	r := gen.New(c.seed ^ 0x51d)
	f := c07newFinder(fmt.Sprintf("u%d-", c.seed%1000))
	nb := 24
	if c.thorough() {
		nb = 120
	}
	pool := c07buildPool(f, r, nb)
	c.stat("sid_pool_uids", len(pool.fam)*5*2)
	mode := func(i int) string { return c07sidModes[i%len(c07sidModes)] }
	mk := func(toks ...string) []c07sidEp {
		eps, ok := c07sidParse(strings.Join(toks, ","))
		if !ok {
			panic("c07: bad corpus case")
		}
		return eps
	}
	// corpus: the repository's own test (full 32 bit collision), the UIDs of seed C07f (bit 31), one of each kind
	c07sidCase(c, "ie", mk("1:costarring", "2:liquid", "3:x"))
	c07sidCase(c, "ie", mk("1:f38a802b-82f8-4c3d-b30e-cd0aac6d316e", "2:b1acbc6f-7d8d-406c-b467-657e937b1193", "3:x"))
	c07sidCase(c, "se", mk("2:b1acbc6f-7d8d-406c-b467-657e937b1193", "n", "1:f38a802b-82f8-4c3d-b30e-cd0aac6d316e", "7:!"))
	n := 0
	// exhaustive over every family: all ordered pairs of members (both UIDs), and triples within the family
	for fi, fam := range pool.fam {
		var flat []string
		for _, m := range fam {
			flat = append(flat, m...)
		}
		for i := range flat {
			for j := range flat {
				if i == j {
					continue
				}
				if !c.thorough() && fi >= 12 && (i+j+fi)%3 != 0 {
					continue
				}
				c07sidCase(c, mode(n), []c07sidEp{{1, flat[i]}, {2, flat[j]}})
				n++
			}
		}
		// triples: first UID of three members in every order of pod numbers, with a missing pod / an endpoint without targetRef
		for i := 0; i < len(fam); i++ {
			for j := 0; j < len(fam); j++ {
				for k := 0; k < len(fam); k++ {
					if i == j || j == k || i == k || len(fam[i]) == 0 || len(fam[j]) == 0 || len(fam[k]) == 0 {
						continue
					}
					if !c.thorough() && (i*25+j*5+k+fi)%4 != 0 {
						continue
					}
					eps := []c07sidEp{{3, fam[i][0]}, {1, fam[j][0]}, {2, fam[k][0]}}
					switch n % 3 {
					case 1:
						eps = append(eps, c07sidEp{0, "!"})
					case 2:
						eps = append([]c07sidEp{{Pod: -1}}, eps...)
					}
					c07sidCase(c, mode(n), eps)
					n++
				}
			}
		}
	}
	// random: 1..8 endpoints (thorough: up to 16) drawn from one or two families, ordinary UIDs, missing pods,
	// endpoints without targetRef, a pod behind two addresses; every case also with the listing permuted (the ids
	// of a pod must not depend on the order: assign_stable)
	cases := 1500
	maxEps := 8
	if c.thorough() {
		cases, maxEps = 20000, 16
	}
	for i := 0; i < cases; i++ {
		ne := r.Range(1, maxEps)
		fams := []int{r.Intn(len(pool.fam))}
		if r.Chance(1, 3) {
			fams = append(fams, r.Intn(len(pool.fam)))
		}
		pods := r.Intn(900)
		used := map[int]string{}
		var eps []c07sidEp
		for k := 0; k < ne; k++ {
			x := r.Intn(20)
			switch {
			case x == 0:
				eps = append(eps, c07sidEp{Pod: -1})
			case x == 1:
				p := (pods + r.Intn(3*maxEps)) % 1000
				if _, seen := used[p]; !seen {
					used[p] = "!"
				}
				eps = append(eps, c07sidEp{p, used[p]})
			case x == 2 && len(used) > 0:
				// one more address for a pod that is already listed
				ps := make([]int, 0, len(used))
				for p := range used {
					ps = append(ps, p)
				}
				sort.Ints(ps)
				p := gen.Pick(r, ps)
				eps = append(eps, c07sidEp{p, used[p]})
			default:
				p := (pods + r.Intn(3*maxEps)) % 1000
				if _, seen := used[p]; !seen {
					if x < 6 {
						used[p] = fmt.Sprintf("%08x-%04x-4%03x-a%03x-%012x", uint32(r.U64()), r.Intn(1<<16), r.Intn(1<<12), r.Intn(1<<12), r.U64()&0xffffffffffff)
					} else {
						m := pool.fam[gen.Pick(r, fams)]
						us := m[r.Intn(len(m))]
						if len(us) == 0 {
							us = []string{"x"}
						}
						used[p] = gen.Pick(r, us)
					}
				}
				eps = append(eps, c07sidEp{p, used[p]})
			}
		}
		c07sidCase(c, mode(i), eps)
		if len(eps) > 1 {
			perm := append([]c07sidEp(nil), eps...)
			gen.Shuffle(r, perm)
			c07sidCase(c, mode(i+1), perm)
		}
	}
	c07sidHist(c, r)
}

// ---------------------------------------------------------------- world level

// c07sidHist: histories of the real pipeline (full sync, partial syncs after endpoint churn, fresh controller)
// with pods whose UIDs ("uid-d-<name>") collide; the written haproxy.cfg goes through the lint pass
// (duplicate-server-id, duplicate-server, ...).
func c07sidHist(c *ctx, r *gen.Rng) {
	f := c07newFinder(fmt.Sprintf("uid-d-w%d", c.seed%100))
	name := func(uid string) string { return strings.TrimPrefix(uid, "uid-d-") }
	bases := []uint32{0x6bc0aa30, 0, 0x7fffffff, uint32(r.U64()), uint32(r.U64())}
	if c.thorough() {
		for i := 0; i < 25; i++ {
			bases = append(bases, uint32(r.U64()))
		}
	}
	for bi, b := range bases {
		var names []string
		for _, h := range c07family(b) {
			for _, u := range f.find(h, 1) {
				names = append(names, name(u))
			}
		}
		if len(names) < 5 {
			continue
		}
		// three of the five pods at a time: {b, b+2^31, b+1}, {b+2^31, b, b+1+2^31}, ...
		for _, pick := range [][3]int{{0, 3, 1}, {3, 0, 4}, {1, 4, 2}, {0, 1, 3}} {
			if !c.thorough() && bi >= 3 && pick != [3]int{0, 3, 1} {
				continue
			}
			p1, p2, p3 := names[pick[0]], names[pick[1]], names[pick[2]]
			where := "ing"
			if bi%2 == 1 {
				where = "svc"
			}
			svcAnn, ingAnn := "-", "assign-backend-server-id=true"
			if where == "svc" {
				svcAnn, ingAnn = "assign-backend-server-id=true", "-"
			}
			ops := fmt.Sprintf("svc+d/app!http:80:8080!%s pod+d/%s!10.0.1.1!app=app!- pod+d/%s!10.0.1.2!app=app!- pod+d/%s!10.0.1.3!app=app!- "+
				"ep~d/app!10.0.1.1:r:%s+10.0.1.2:r:%s "+
				"ing+d/i1@1!haproxy,-!%s!a.local>/:Prefix:app:80!-!- sync "+
				"ep~d/app!10.0.1.2:r:%s sync "+
				"ep~d/app!10.0.1.1:r:%s+10.0.1.2:r:%s+10.0.1.3:r:%s sync",
				svcAnn, p1, p2, p3, p1, p2, ingAnn, p2, p1, p2, p3)
			c07hist(c, strings.Fields(ops))
			c.stat("sid_hist", 1)
		}
	}
}
