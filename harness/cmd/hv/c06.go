package main

// C06 — same cluster state gives the same behaviour, whatever the processing order.
//
//   C06 world <ops...>            one batch, fresh controller
//   C06 hist  <ops> sync <ops>    second batch = several new ingresses, delivered in one batch
//     => <verdict> <balances>
//
// The same case is run k times: the baseline, then runs with the list results of the cache permuted
// (Cache.ListOrder), the informer events of every batch delivered in a shuffled order (events of one
// object keep their order), and every run re-randomises Go's map iteration; some cases are also run
// in separate PROCESSES (re-exec of the harness).  The normal forms (world.Snapshot.Text) of all runs
// must be identical: verdict `same`, else `diff:<class>:<item>` (class of the first difference).
// <balances> = `backend=balance-algorithm,...` of the baseline (who wins an annotation conflict).

import (
	"crypto/sha1"
	"fmt"
	"os"
	"os/exec"
	"regexp"
	"sort"
	"strings"

	"hapverif/gen"
	"hapverif/world"
)

func init() {
	props["C06"] = runC06
	replayers["C06"] = func(c *ctx, a []string) {
		if len(a) >= 1 && (a[0] == "world" || a[0] == "hist") {
			c06case(c, a[0], a[1:], 6, 2)
		}
		if len(a) >= 1 && a[0] == "ann" {
			c06annReplay(c, a[1:])
		}
	}
}

type c06norm struct {
	routes, servers, crt map[string]string
	backends             map[string]string
	static               string
	balance              map[string]string
	err                  string
}

// c06run runs the case once. variant 0 = baseline; otherwise list results and event order are shuffled from rng.
func c06run(kind string, toks []string, r *gen.Rng) (res c06norm) {
	defer func() {
		if x := recover(); x != nil {
			res.err = "PANIC"
		}
	}()
	opt, ops := syncOptions(toks)
	w := world.NewWorld()
	p, err := world.NewPipeline(w, opt)
	if err != nil {
		res.err = "ERR:" + sanitize(err.Error())
		return
	}
	defer p.Close()
	if r != nil {
		lr := r.Fork()
		p.Cache.ListOrder = func(keys []string) []string {
			gen.Shuffle(lr, keys)
			return keys
		}
	}
	type ev struct {
		e   world.Ev
		key string
	}
	var batch []ev
	flush := func() bool {
		evs := batch
		batch = nil
		if r != nil && len(evs) > 1 {
			// shuffle, then restore the relative order of the events of one object
			idx := make([]int, len(evs))
			for i := range idx {
				idx[i] = i
			}
			gen.Shuffle(r, idx)
			byKey := map[string][]int{}
			for pos, i := range idx {
				byKey[evs[i].key] = append(byKey[evs[i].key], pos)
			}
			out := make([]ev, len(evs))
			next := map[string]int{}
			for i := range evs { // original order
				k := evs[i].key
				poss := byKey[k]
				sort.Ints(poss)
				out[poss[next[k]]] = evs[i]
				next[k]++
			}
			evs = out
		}
		for _, e := range evs {
			p.Deliver([]world.Ev{e.e})
		}
		if _, err := p.Reconcile(); err != nil {
			if strings.HasPrefix(err.Error(), "PANIC") {
				res.err = "PANIC"
			} else {
				res.err = "ERR:" + sanitize(err.Error())
			}
			return false
		}
		return true
	}
	for _, o := range ops {
		if o == "sync" {
			if !flush() {
				return
			}
			continue
		}
		evs, err := w.Apply(world.Op{Text: o})
		if err != nil {
			res.err = "ERR:" + sanitize(err.Error())
			return
		}
		key := o
		if i := strings.IndexAny(o, "!@"); i > 0 {
			key = o[:i]
		}
		if i := strings.IndexAny(key, "+~-"); i > 0 && i < 4 {
			key = key[:i] + " " + key[i+1:] // same object for + ~ -
		}
		for _, e := range evs {
			batch = append(batch, ev{e, key})
		}
	}
	if len(batch) > 0 || len(ops) == 0 || ops[len(ops)-1] != "sync" {
		if !flush() {
			return
		}
	}
	reqs, snis := requestsOf(ops)
	s := p.Snapshot(reqs, append(snis, snisOf(ops)...))
	res.routes, res.crt = s.Routes, s.Crt
	res.servers = map[string]string{}
	for k, v := range s.Servers {
		res.servers[k] = strings.Join(v, ",")
	}
	res.backends = map[string]string{}
	res.balance = map[string]string{}
	for k, v := range s.Backends {
		res.backends[k] = strings.Join(v, "\n")
		for _, l := range v {
			if f := strings.Fields(l); len(f) >= 2 && f[0] == "balance" {
				res.balance[k] = f[1]
			}
		}
	}
	res.static = strings.Join(s.Static, "\n")
	return
}

func c06diffMaps(class string, a, b map[string]string) string {
	for _, k := range world.SortedKeys(a) {
		if bv, ok := b[k]; !ok || bv != a[k] {
			return class + ":" + sanitize(k)
		}
	}
	for _, k := range world.SortedKeys(b) {
		if _, ok := a[k]; !ok {
			return class + ":" + sanitize(k)
		}
	}
	return ""
}

func c06diff(a, b c06norm) string {
	if a.err != b.err {
		return "error:" + a.err + "/" + b.err
	}
	for _, d := range []string{c06diffMaps("route", a.routes, b.routes), c06diffMaps("servers", a.servers, b.servers),
		c06diffMaps("backend", a.backends, b.backends), c06diffMaps("crt", a.crt, b.crt)} {
		if d != "" {
			return d
		}
	}
	if a.static != b.static {
		return "static:-"
	}
	return ""
}

func (n c06norm) text() string {
	var b strings.Builder
	for _, m := range []map[string]string{n.routes, n.servers, n.backends, n.crt} {
		for _, k := range world.SortedKeys(m) {
			b.WriteString(k + " -> " + m[k] + "\n")
		}
		b.WriteString("--\n")
	}
	b.WriteString(n.static)
	return b.String()
}

// c06verdict: the in-process part of c06case (k runs, for histories also the fresh controller), no emission
func c06verdict(kind string, toks []string, k int, seed uint64) (string, c06norm, c06norm) {
	base := c06run(kind, toks, nil)
	if base.err != "" {
		return "error:" + base.err, base, base
	}
	r := gen.New(seed)
	for i := 1; i < k; i++ {
		other := c06run(kind, toks, r.Fork())
		if d := c06diff(base, other); d != "" {
			return "diff:" + d, base, other
		}
	}
	if kind == "hist" {
		var flat []string
		for _, t := range toks {
			if t != "sync" {
				flat = append(flat, t)
			}
		}
		fresh := c06run("world", flat, r.Fork())
		if fresh.err != "" {
			return "diff:fresh-error", base, fresh
		}
		if d := c06diff(base, fresh); d != "" {
			return "diff:fresh-" + d, base, fresh
		}
	}
	return "same", base, base
}

// c06onlySchemeSticky: the two normal forms differ only in the `{ssl …}` options of auth backend servers (and in the
// names derived from them)
var c06sslOptRe = regexp.MustCompile(`\{ssl sni str\([^)]*\) verify none\}`)

func c06onlySchemeSticky(a, b c06norm) bool {
	strip := func(n c06norm) string { return c06sslOptRe.ReplaceAllString(n.text(), "") }
	return strip(a) == strip(b)
}

// c06onlyOAuthLookup: the two normal forms differ only in the rules an oauth declaration renders (the intercept call, its
// redirect / header rules, or the unconditional deny of a dangling declaration)
func c06onlyOAuthLookup(a, b c06norm) bool {
	strip := func(n c06norm) string {
		var out []string
		for _, l := range strings.Split(n.text(), "\n") {
			if strings.Contains(l, "lua.auth-intercept") || strings.Contains(l, "auth_response") ||
				strings.Contains(l, "/start?rd=") || strings.TrimSpace(l) == "http-request deny" {
				continue
			}
			out = append(out, l)
		}
		return strings.Join(out, "\n")
	}
	return a.text() != b.text() && strip(a) == strip(b)
}

// debugging aid: HV_C06_MIN="<kind> <ops...>" shrinks a failing case (same class of difference) and prints the
// minimal case with the two normal forms side by side (only the differing lines)
func c06min(c *ctx) bool {
	spec := os.Getenv("HV_C06_MIN")
	if spec == "" {
		return false
	}
	f := strings.Fields(spec)
	kind, toks := f[0], f[1:]
	class := func(v string) string {
		if i := strings.LastIndex(v, ":"); i > 0 {
			return v[:i]
		}
		return v
	}
	v0, _, _ := c06verdict(kind, toks, 12, 7)
	fmt.Fprintln(c.out, "# verdict:", v0)
	if !strings.HasPrefix(v0, "diff:") {
		return true
	}
	min := world.Shrink(toks, func(o []string) bool {
		v, _, _ := c06verdict(kind, o, 12, 7)
		return strings.HasPrefix(v, "diff:") && class(v) == class(v0)
	}, 400)
	v, a, b := c06verdict(kind, min, 16, 7)
	fmt.Fprintln(c.out, "# minimal:", kind, strings.Join(min, " "))
	fmt.Fprintln(c.out, "# verdict:", v)
	al, bl := strings.Split(a.text(), "\n"), strings.Split(b.text(), "\n")
	in := map[string]bool{}
	for _, l := range bl {
		in[l] = true
	}
	for _, l := range al {
		if !in[l] {
			fmt.Fprintln(c.out, "A|", l)
		}
		delete(in, l)
	}
	ina := map[string]bool{}
	for _, l := range al {
		ina[l] = true
	}
	for _, l := range bl {
		if !ina[l] {
			fmt.Fprintln(c.out, "B|", l)
		}
	}
	return true
}

// child process mode: print the normal form of one baseline run (fresh process = fresh map seeds)
func c06child(c *ctx) bool {
	if c06min(c) {
		return true
	}
	spec := os.Getenv("HV_C06_CHILD")
	if spec == "" {
		return false
	}
	f := strings.Fields(spec)
	n := c06run(f[0], f[1:], nil)
	fmt.Fprintf(c.out, "%x %s\n", sha1.Sum([]byte(n.text())), n.err)
	// the first line that differs is found by the parent with an in-process run; here the digest is enough
	for _, k := range world.SortedKeys(n.routes) {
		fmt.Fprintf(c.out, "R %s -> %s\n", k, n.routes[k])
	}
	return true
}

func c06case(c *ctx, kind string, toks []string, k, procs int) {
	args := kind + " " + strings.Join(toks, " ")
	seed := uint64(0)
	for _, ch := range args {
		seed = seed*131 + uint64(ch)
	}
	verdict, base, other := c06verdict(kind, toks, k, seed^c.seed)
	if strings.HasPrefix(verdict, "error:") {
		if base.err == "PANIC" {
			c.emit("C06", args, "PANIC -")
		} else {
			c.emit("C06", args, "error:"+base.err+" -")
		}
		c.stat("run_error", 1)
		return
	}
	if strings.HasPrefix(verdict, "diff:fresh-backend:") && c06onlyOAuthLookup(base, other) {
		// known finding (C01 and C06): which backend authenticates an `oauth` path is looked up among the paths OTHER
		// ingresses publish in the namespace (updater.findBackend; "TODO track" in the code): when the oauth2-proxy path
		// appears, moves or goes away in a later partial sync the protected backend is not rebuilt
		verdict = "diff:fresh-oauthlookup:oauth-proxy-path-published-later-not-tracked"
	}
	if strings.HasPrefix(verdict, "diff:fresh-servers:_auth_backend") && c06onlySchemeSticky(base, other) {
		// known finding (C01 and C06): an auth backend is shared by every auth-url naming the same ip:port, whatever the
		// scheme; `ssl` is only ever raised on it and the object outlives its users, so a history that removes the last
		// https:// user leaves `ssl` on the server a fresh controller writes without it
		verdict = "diff:fresh-authscheme:sticky-ssl-on-shared-auth-backend"
	}
	for i := 0; i < procs && verdict == "same"; i++ {
		cmd := exec.Command("/proc/self/exe", "C06")
		cmd.Env = append(os.Environ(), "HV_C06_CHILD="+args)
		out, err := cmd.Output()
		c.stat("child_processes", 1)
		if err != nil {
			verdict = "diff:error:child-" + sanitize(err.Error())
			break
		}
		lines := strings.Split(strings.TrimSpace(string(out)), "\n")
		want := fmt.Sprintf("%x %s", sha1.Sum([]byte(base.text())), base.err)
		if len(lines) == 0 || strings.TrimSpace(lines[0]) != strings.TrimSpace(want) {
			verdict = "diff:process:-"
			for _, l := range lines[1:] {
				if strings.HasPrefix(l, "R ") {
					kv := strings.SplitN(l[2:], " -> ", 2)
					if len(kv) == 2 && base.routes[kv[0]] != kv[1] {
						verdict = "diff:route:" + sanitize(kv[0])
						break
					}
				}
			}
		}
	}
	var bal []string
	for _, b := range world.SortedKeys(base.balance) {
		if !strings.HasPrefix(b, "_") {
			bal = append(bal, b+"="+base.balance[b])
		}
	}
	bt := "-"
	if len(bal) > 0 {
		bt = strings.Join(bal, ",")
	}
	c.emit("C06", args, verdict+" "+bt)
	c.stat("cases_"+kind, 1)
	c.stat("runs", k)
}

func runC06(c *ctx) {
	if c06child(c) {
		return
	}
	for _, l := range c06corpus {
		f := strings.Fields(l)
		c06case(c, f[0], f[1:], 8, 4)
	}
	// annotation prefixes: one object declaring a key under several --annotations-prefix values (c06ann.go)
	c06annAll(c)
	r := gen.New(c.seed)
	n, nh := 150, 100
	k := 5
	if c.thorough() {
		n, nh, k = 1000, 600, 8
	}
	for i := 0; i < n; i++ {
		g := &syncGen{r: r.Fork(), paths: syncPaths, tlsProb: [2]int{1, 2}, annots: true, xns: i%5 == 0, auth: i%4 == 1}
		procs := 0
		if i%10 == 0 {
			procs = 2
		}
		c06case(c, "world", g.world(6), k, procs)
	}
	for i := 0; i < nh; i++ {
		g := &syncGen{r: r.Fork(), paths: syncPaths, tlsProb: [2]int{1, 2}, annots: true, auth: i%4 == 1}
		ops := g.world(3)
		var opts, rest []string
		for _, o := range ops {
			if strings.HasPrefix(o, "opt~") {
				opts = append(opts, o)
			} else {
				rest = append(rest, o)
			}
		}
		ops = append(rest, "sync")
		// second batch: new ingresses only (names j1..j4), conflicting with the existing ones and among themselves
		m := g.r.Range(2, 4)
		used := map[string]bool{}
		for j := 0; j < m; j++ {
			ns := gen.Pick(g.r, syncNamespaces)
			name := fmt.Sprintf("j%d", g.r.Range(1, 4))
			if used[ns+"/"+name] {
				continue
			}
			used[ns+"/"+name] = true
			s := g.ingress(ns, name, g.r.Range(0, 9))
			ops = append(ops, "ing+"+world.IngressText(s))
		}
		// several events for one object of the first batch: delete+create, update+delete, delete alone, update
		if g.r.Chance(1, 2) {
			var first []string
			for _, o := range rest {
				if strings.HasPrefix(o, "ing+") {
					first = append(first, o)
				}
			}
			if len(first) > 0 {
				o := gen.Pick(g.r, first)
				key := o[4:strings.IndexAny(o, "@!")]
				upd := "ing~" + o[4:]
				switch g.r.Intn(4) {
				case 0:
					ops = append(ops, "ing-"+key, o)
				case 1:
					ops = append(ops, upd, "ing-"+key)
				case 2:
					ops = append(ops, "ing-"+key)
				default:
					ops = append(ops, upd)
				}
			}
		}
		// an endpoints notification of the first batch delivered again: the backend is rebuilt by the partial sync
		if g.r.Chance(1, 2) {
			var eps []string
			for _, o := range rest {
				if strings.HasPrefix(o, "ep~") {
					eps = append(eps, o)
				}
			}
			if len(eps) > 0 {
				ops = append(ops, gen.Pick(g.r, eps))
			}
		}
		if len(opts) == 0 && g.r.Chance(1, 3) {
			opts = append(opts, "opt~db="+gen.Pick(g.r, syncNamespaces)+"/"+gen.Pick(g.r, syncServices))
		}
		ops = append(ops, "sync")
		c06case(c, "hist", append(ops, opts...), k, 0)
	}
}

var c06corpus = []string{
	// KNOWN FINDING order-dependent-config-fresh-oauthlookup: the oauth2-proxy path of the namespace is published by a
	// LATER partial sync: the protected backend stays denied, a fresh controller intercepts through d_web_8080
	"hist cm~external-has-lua=true svc+d/app!http:80:8080!- svc+d/web!http:80:8080!- ing+d/i2@0!haproxy,-!oauth=oauth2_proxy;oauth-uri-prefix=/a!b.local>/:ImplementationSpecific:app:http!-!- sync ing+d/j2@3!haproxy,-!-!a.local>/a/:Prefix:web:80!-!- sync",
	// auth-proxy range exhausted (two ports, three auth targets): WHICH path is left without a proxy (denied) must not
	// depend on the order the backends map is visited (repaired by 85c4ee0)
	"world cm~external-has-lua=true;auth-proxy=_front_auth:14415-14416 svc+d/app!http:80:8080!- ep~d/app!10.0.1.1:r:app-1 svc+d/api!http:80:8080!- ep~d/api!10.0.2.1:r:api-1 svc+d/web!http:80:8080!- ep~d/web!10.0.3.1:r:web-1 ing+d/i1@1!haproxy,-!auth-url=https://10.9.9.7:8443/auth!a.local>/:Prefix:app:80!-!- ing+d/i2@2!haproxy,-!auth-url=http://10.9.9.8:8000/auth!b.local>/:Prefix:api:80!-!- ing+d/i3@3!haproxy,-!auth-url=http://10.9.9.9:8000/auth!c.local>/:Prefix:web:80!-!-",
	// two hosts claim the same redirect-from domain: where the old domain is redirected to must not depend on the
	// iteration order of the hosts map (side note of the seed agent of C06g)
	"world svc+d/app!http:80:8080!- ep~d/app!10.0.1.1:r:app-1 svc+d/api!http:80:8080!- ep~d/api!10.0.2.1:r:api-1 ing+d/i1@1!haproxy,-!redirect-from=old.local!a.local>/:Prefix:app:80!-!- ing+d/i2@2!haproxy,-!redirect-from=old.local!b.local>/:Prefix:api:80!-!- ing+d/i3@3!haproxy,-!redirect-from=old.local!c.local>/:Prefix:app:80!-!-",
	// KNOWN FINDING order-dependent-config-fresh-authscheme: http:// and https:// auth-url naming one ip:port share one auth
	// backend on which `ssl` is only raised; the https user goes away, `ssl` stays (a fresh controller writes none)
	"hist cm~external-has-lua=true svc+e/web!http:80:8080!- svc+e/app!http:80:8080!- ing+e/i2@1!haproxy,-!auth-url=http://10.9.9.8:8000/auth!b.local>/:_:web:80!-!- ing+e/i3@2!haproxy,-!auth-url=https://10.9.9.8:8000/auth!a.local>/:_:app:80!-!- sync ing-e/i3 sync",
	// one auth target (ip:port) reached with https by one ingress and with http by another: the shared auth backend
	// must look the same whoever is processed first (seed C06f)
	"world cm~external-has-lua=true svc+d/app!http:80:8080!- ep~d/app!10.0.1.1:r:app-1 svc+d/api!http:80:8080!- ep~d/api!10.0.2.1:r:api-1 svc+d/web!http:80:8080!- ep~d/web!10.0.3.1:r:web-1 ing+d/i1@1!haproxy,-!auth-url=https://10.9.9.9:8000/auth!a.local>/:Prefix:app:80!-!- ing+d/i2@2!haproxy,-!auth-url=http://10.9.9.9:8000/auth!b.local>/:Prefix:api:80!-!- ing+d/i3@3!haproxy,-!auth-url=http://10.9.9.9:8000/auth!c.local>/:Prefix:web:80!-!-",
	// two (and a dozen) hosts claim the same server-alias: who answers the alias domain must not depend on the
	// iteration order of the hosts map (seed C06e)
	"world svc+d/app!http:80:8080!- ep~d/app!10.0.1.1:r:app-1 svc+d/api!http:80:8080!- ep~d/api!10.0.2.1:r:api-1 ing+d/i1@1!haproxy,-!server-alias=www.local!a.local>/:Prefix:app:80!-!- ing+d/i2@2!haproxy,-!server-alias=www.local!b.local>/:Prefix:api:80!-!-",
	"world svc+d/app!http:80:8080!- ep~d/app!10.0.1.1:r:app-1 svc+d/api!http:80:8080!- ep~d/api!10.0.2.1:r:api-1 ing+d/i1@1!haproxy,-!server-alias=www.local!a.local>/:Prefix:app:80!-!- ing+d/i2@2!haproxy,-!server-alias=www.local!b.local>/:Prefix:api:80!-!- ing+d/i3@3!haproxy,-!server-alias=www.local!c.local>/:Prefix:app:80!-!- ing+d/i4@4!haproxy,-!server-alias=www.local!d.local>/:Prefix:api:80!-!- ing+d/i5@5!haproxy,-!server-alias=www.local!e.local>/:Prefix:app:80!-!- ing+d/i6@6!haproxy,-!server-alias=www.local!f.local>/:Prefix:api:80!-!-",
	// --default-backend-service names a service that an ingress also uses with a create-time backend setting
	// (service-upstream / initial-weight / backend-server-naming): whoever creates the backend object first decides;
	// a partial sync must process the declarations in the order of a full sync (seed C06d)
	"hist svc+d/app!http:80:8080!- ep~d/app!10.0.1.1:r:app-1 ing+d/i1@1!haproxy,-!service-upstream=true!a.local>/:Prefix:app:80!-!- sync ep~d/app!10.0.1.1:r:app-1+10.0.1.2:r:app-2 sync opt~db=d/app",
	"hist svc+d/app!http:80:8080!- ep~d/app!10.0.1.1:r:app-1 ing+d/i1@1!haproxy,-!initial-weight=50!a.local>/:Prefix:app:80!-!- sync ep~d/app!10.0.1.1:r:app-1+10.0.1.2:r:app-2 sync opt~db=d/app",
	// repaired by 8cccd42 (was: order-dependent-tie-between-path-types): `/a` Prefix and `/a` begin tie for
	// a.local/a/x; which one answered depended on the positions of the priority map files created by the
	// OTHER hosts, i.e. on Go's iteration over HostsMap.rawhosts (5 of 12 processes api, 7 app)
	"world svc+d/app!http:80:8080!- svc+d/api!http:80:8080!- svc+d/web!http:80:8080!- ing+d/i1@1!haproxy,-!-!a.local>/a:Prefix:app:80+/a:_:api:80+/:Prefix:web:80+/:_:web:80;b.local>/x/y:_:web:80+/x:Prefix:web:80;c.local>/x/y:Prefix:web:80+/x:_:web:80!-!-",
	// conflicting annotations on a shared backend, equal creation second: namespace/name decides
	"world svc+d/app!http:80:8080!- ep~d/app!10.0.1.1:r:app-1 ing+d/i2@1!haproxy,-!balance-algorithm=first!a.local>/:Prefix:app:80!-!- ing+d/i1@1!haproxy,-!balance-algorithm=leastconn!b.local>/:Prefix:app:80!-!-",
	// duplicated path and tls conflict, created in the same second, listed in both orders
	"world svc+d/app!http:80:8080!- svc+e/app!http:80:8080!- sec+d/tls1!tls!1!a.local sec+e/tls1!tls!1!a.local ing+e/i1@3!haproxy,-!-!a.local>/:Prefix:app:80!a.local>tls1!- ing+d/i1@3!haproxy,-!-!a.local>/:Prefix:app:80!a.local>tls1!-",
	// delete+create of one ingress in one batch (kubectl replace --force): same result as a fresh start
	"hist svc+d/app!http:80:8080!- ep~d/app!10.0.1.1:r:app-1 svc+d/api!http:80:8080!- ing+d/i1@1!haproxy,-!-!a.local>/:Prefix:app:80!-!- ing+d/i2@2!haproxy,-!-!b.local>/:Prefix:api:80!-!- sync ing-d/i1 ing+d/i1@1!haproxy,-!-!a.local>/:Prefix:app:80!-!- sync",
	// one batch with three conflicting new ingresses
	"hist svc+d/app!http:80:8080!- svc+d/api!http:80:8080!- ing+d/i1@1!haproxy,-!-!a.local>/:Prefix:app:80!-!- sync ing+d/j3@5!haproxy,-!maxconn-server=10!a.local>/:Prefix:api:80+/a:Prefix:api:80!-!- ing+d/j1@5!haproxy,-!maxconn-server=20!a.local>/a:Prefix:app:80!-!- ing+d/j2@4!haproxy,-!-!a.local>/a:Prefix:api:80!-!- sync",
}
