package main

// C18, gateway mode: external authentication declared by SERVICE annotations, served through Gateway API
// HTTPRoutes — the flow in which the annotation builders of one backend run MORE THAN ONCE in one sync.
//
// Drives the REAL top level converter (converters.NewConverter(...).Sync(): gateway converter with the
// ingress converter as annotation reader, then the ingress converter) over the repository's CacheMock, and
// the real haproxy.Instance rendering haproxy.tmpl. gateway.createBackend returns (backend, nil) for a
// backend that exists, and syncHTTPRouteGateway still calls ReadAnnotations(backend, nil, pathLinks):
// UpdateBackendConfig runs again over ALL paths of the backend with an EMPTY mapper whenever a route reaches
// its backend twice (two accepting listeners without sectionName, or two parentRefs).
//
// Case line:  C18 gw <glob> <gws> <svcs> <routes> <ings> => <rec>|<rec>...||<binds>
//   <glob>    as in the one-batch mode (c18.go)
//   <gws>     `+`-joined Gateways gw1, gw2, ... (namespace default, class haproxy); each is a string of listeners
//             l1, l2, ...: `a` accepts routes of its namespace, no hostname; `n` no allowedRoutes (accepts nothing);
//             `0`..`3` accepts, listener hostname h<d>.local
//   <svcs>    `-` or `,`-joined <svc>.<url>.<plc>.<oauth>.<signin>: annotations of Service <svc> (0 echo0, 1 echo1,
//             2 oauth2proxy, 3 echo3; values as in the ingress grammar of c18.go)
//   <routes>  `,`-joined HTTPRoutes r1, r2, ... (same creationTimestamp: synced in this order):
//             <host>.<parents>.<rules>; hostname h<host>.local; parents `+`-joined <g> (parentRef gw<g>) or
//             <g>s<l> (sectionName l<l>); rules `/`-joined <matches>~<svc>, matches = concatenated <path><e|p>
//             (path 0 /a, 1 /b, 2 /c, 9 /oauth2; Exact | PathPrefix), one backendRef <svc>:8080
//             (backend of rule j of route k: default_r<k>__rule<j>)
//   <ings>    `-` or the Ingress objects of the one-batch grammar (control: the Ingress flow in the same sync)
//   <rec>     K=<backend>@<hostname>#<path>;B=..;F=..;RB=..;R0=..;R1=..  one per path found in haproxy.Hosts(),
//             sorted by K; <backend> = r<k>u<j> (route k rule j) | s<svc> (ingress backend); other fields as in c18.go

import (
	"fmt"
	"os"
	"regexp"
	"runtime"
	"sort"
	"strconv"
	"strings"
	"sync"
	"time"

	metav1 "k8s.io/apimachinery/pkg/apis/meta/v1"
	gatewayv1 "sigs.k8s.io/gateway-api/apis/v1"

	"github.com/jcmoraisjr/haproxy-ingress/pkg/converters"
	convtypes "github.com/jcmoraisjr/haproxy-ingress/pkg/converters/types"
	hatypes "github.com/jcmoraisjr/haproxy-ingress/pkg/haproxy/types"
	"github.com/jcmoraisjr/haproxy-ingress/pkg/utils"

	"hapverif/gen"
)

type c18GwSvc struct {
	idx             int
	url, plc, oauth string
	signin          bool
}

type c18GwParent struct{ gw, sect int } // sect 0 = no sectionName

type c18GwMatch struct {
	path int
	typ  byte // e | p
}

type c18GwRule struct {
	matches []c18GwMatch
	svc     int
}

type c18GwRoute struct {
	host    int
	parents []c18GwParent
	rules   []c18GwRule
}

type c18GwScenario struct {
	glob   string
	gws    []string
	svcs   []c18GwSvc
	routes []c18GwRoute
	ings   []c18Ing
	txt    [5]string // the tokens as written
}

func (s *c18GwScenario) args() string { return "gw " + strings.Join(s.txt[:], " ") }

func c18GwParse(a []string) (*c18GwScenario, error) {
	if len(a) != 5 {
		return nil, fmt.Errorf("gw: want 5 fields, got %d", len(a))
	}
	sc := &c18GwScenario{glob: a[0]}
	copy(sc.txt[:], a)
	if _, err := c18Parse([]string{a[0], "0.0.0.b.-.-.-.-"}); err != nil {
		return nil, err
	}
	for _, g := range strings.Split(a[1], "+") {
		if g == "" || strings.Trim(g, "an0123") != "" {
			return nil, fmt.Errorf("gw: bad gateway %q", g)
		}
		sc.gws = append(sc.gws, g)
	}
	if a[2] != "-" {
		for _, t := range strings.Split(a[2], ",") {
			f := strings.Split(t, ".")
			if len(f) != 5 || (f[4] != "-" && f[4] != "s") {
				return nil, fmt.Errorf("gw: bad service token %q", t)
			}
			idx, err := strconv.Atoi(f[0])
			if err != nil {
				return nil, err
			}
			if _, ok := c18Svcs[idx]; !ok {
				return nil, fmt.Errorf("gw: bad svc %d", idx)
			}
			if _, ok := c18URLs[f[1]]; !ok && f[1] != "-" {
				return nil, fmt.Errorf("gw: bad url %q", f[1])
			}
			if _, ok := c18Plc[f[2]]; !ok && f[2] != "-" {
				return nil, fmt.Errorf("gw: bad placement %q", f[2])
			}
			if _, ok := c18OAuth[f[3]]; !ok && f[3] != "-" {
				return nil, fmt.Errorf("gw: bad oauth %q", f[3])
			}
			sc.svcs = append(sc.svcs, c18GwSvc{idx, f[1], f[2], f[3], f[4] == "s"})
		}
	}
	for _, t := range strings.Split(a[3], ",") {
		f := strings.Split(t, ".")
		if len(f) != 3 {
			return nil, fmt.Errorf("gw: bad route token %q", t)
		}
		var rt c18GwRoute
		var err error
		if rt.host, err = strconv.Atoi(f[0]); err != nil {
			return nil, err
		}
		for _, p := range strings.Split(f[1], "+") {
			q := strings.Split(p, "s")
			var pr c18GwParent
			if pr.gw, err = strconv.Atoi(q[0]); err != nil || len(q) > 2 {
				return nil, fmt.Errorf("gw: bad parent %q", p)
			}
			if len(q) == 2 {
				if pr.sect, err = strconv.Atoi(q[1]); err != nil || pr.sect < 1 {
					return nil, fmt.Errorf("gw: bad parent %q", p)
				}
			}
			rt.parents = append(rt.parents, pr)
		}
		for _, r := range strings.Split(f[2], "/") {
			q := strings.Split(r, "~")
			if len(q) != 2 || len(q[0]) == 0 || len(q[0])%2 != 0 {
				return nil, fmt.Errorf("gw: bad rule %q", r)
			}
			var ru c18GwRule
			if ru.svc, err = strconv.Atoi(q[1]); err != nil {
				return nil, err
			}
			if _, ok := c18Svcs[ru.svc]; !ok {
				return nil, fmt.Errorf("gw: bad svc %d", ru.svc)
			}
			for i := 0; i < len(q[0]); i += 2 {
				m := c18GwMatch{path: int(q[0][i] - '0'), typ: q[0][i+1]}
				if _, ok := c18Paths[m.path]; !ok || (m.typ != 'e' && m.typ != 'p') {
					return nil, fmt.Errorf("gw: bad match in %q", r)
				}
				ru.matches = append(ru.matches, m)
			}
			rt.rules = append(rt.rules, ru)
		}
		if len(rt.rules) > 9 {
			return nil, fmt.Errorf("gw: more than 9 rules in %q", t)
		}
		sc.routes = append(sc.routes, rt)
	}
	if len(sc.routes) > 9 {
		return nil, fmt.Errorf("gw: more than 9 routes")
	}
	if a[4] != "-" {
		isc, err := c18Parse([]string{a[0], a[4]})
		if err != nil {
			return nil, err
		}
		sc.ings = isc.ings
	}
	return sc, nil
}

// visits: how many times the sync reaches the backend of each route rule (a count of the declared shape,
// used for the statistics only: the implementation side does not depend on it)
func (s *c18GwScenario) visits() map[string]int {
	res := map[string]int{}
	for k, rt := range s.routes {
		for _, p := range rt.parents {
			if p.gw < 1 || p.gw > len(s.gws) {
				continue
			}
			for li, l := range s.gws[p.gw-1] {
				if (p.sect != 0 && p.sect != li+1) || l == 'n' {
					continue
				}
				for j := range rt.rules {
					res[fmt.Sprintf("r%du%d", k+1, j)]++
				}
			}
		}
	}
	return res
}

var c18GwTime = metav1.NewTime(time.Unix(1700000000, 0))

func c18GwObjects(sc *c18GwScenario) ([]*gatewayv1.Gateway, []*gatewayv1.HTTPRoute) {
	var gws []*gatewayv1.Gateway
	for gi, g := range sc.gws {
		gw := &gatewayv1.Gateway{
			TypeMeta:   metav1.TypeMeta{APIVersion: "gateway.networking.k8s.io/v1", Kind: "Gateway"},
			ObjectMeta: metav1.ObjectMeta{Namespace: "default", Name: fmt.Sprintf("gw%d", gi+1)},
			Spec:       gatewayv1.GatewaySpec{GatewayClassName: "haproxy"},
		}
		for li, l := range g {
			ls := gatewayv1.Listener{
				Name:     gatewayv1.SectionName(fmt.Sprintf("l%d", li+1)),
				Port:     gatewayv1.PortNumber(80 + 8000*li),
				Protocol: gatewayv1.HTTPProtocolType,
			}
			if l != 'n' {
				from := gatewayv1.NamespacesFromSame
				ls.AllowedRoutes = &gatewayv1.AllowedRoutes{Namespaces: &gatewayv1.RouteNamespaces{From: &from}}
			}
			if l >= '0' && l <= '9' {
				h := gatewayv1.Hostname(c18Host(int(l - '0')))
				ls.Hostname = &h
			}
			gw.Spec.Listeners = append(gw.Spec.Listeners, ls)
		}
		gws = append(gws, gw)
	}
	var routes []*gatewayv1.HTTPRoute
	for k, rt := range sc.routes {
		r := &gatewayv1.HTTPRoute{
			TypeMeta:   metav1.TypeMeta{APIVersion: "gateway.networking.k8s.io/v1", Kind: "HTTPRoute"},
			ObjectMeta: metav1.ObjectMeta{Namespace: "default", Name: fmt.Sprintf("r%d", k+1), CreationTimestamp: c18GwTime},
		}
		for _, p := range rt.parents {
			ref := gatewayv1.ParentReference{Name: gatewayv1.ObjectName(fmt.Sprintf("gw%d", p.gw))}
			if p.sect != 0 {
				s := gatewayv1.SectionName(fmt.Sprintf("l%d", p.sect))
				ref.SectionName = &s
			}
			r.Spec.ParentRefs = append(r.Spec.ParentRefs, ref)
		}
		r.Spec.Hostnames = []gatewayv1.Hostname{gatewayv1.Hostname(c18Host(rt.host))}
		for _, ru := range rt.rules {
			rule := gatewayv1.HTTPRouteRule{}
			for _, m := range ru.matches {
				pt := gatewayv1.PathMatchPathPrefix
				if m.typ == 'e' {
					pt = gatewayv1.PathMatchExact
				}
				path := c18Paths[m.path]
				rule.Matches = append(rule.Matches, gatewayv1.HTTPRouteMatch{Path: &gatewayv1.HTTPPathMatch{Type: &pt, Value: &path}})
			}
			port := gatewayv1.PortNumber(8080)
			rule.BackendRefs = []gatewayv1.HTTPBackendRef{{BackendRef: gatewayv1.BackendRef{
				BackendObjectReference: gatewayv1.BackendObjectReference{Name: gatewayv1.ObjectName(c18Svcs[ru.svc]), Port: &port}}}}
			r.Spec.Rules = append(r.Spec.Rules, rule)
		}
		routes = append(routes, r)
	}
	return gws, routes
}

var c18GwBackendRe = regexp.MustCompile(`^default_r([0-9])__rule([0-9]+)$`)

func c18GwBackendKey(id string) string {
	if m := c18GwBackendRe.FindStringSubmatch(id); m != nil {
		return "r" + m[1] + "u" + m[2]
	}
	for idx, name := range c18Svcs {
		if id == "default_"+name+"_8080" {
			return "s" + strconv.Itoa(idx)
		}
	}
	return "?" + id
}

func c18GwRun(sc *c18GwScenario) (string, error) {
	gsc, err := c18Parse([]string{sc.glob, "0.0.0.b.-.-.-.-"})
	if err != nil {
		return "", err
	}
	e, err := c18NewEnv(gsc, 0)
	if err != nil {
		return "", err
	}
	defer e.close()
	e.opts.HasGatewayV1 = true
	for _, s := range sc.svcs {
		ann := map[string]string{}
		if s.url != "-" {
			ann[c18Prefix+"/auth-url"] = c18URLs[s.url]
		}
		if s.plc != "-" {
			ann[c18Prefix+"/auth-external-placement"] = c18Plc[s.plc]
		}
		if s.signin {
			ann[c18Prefix+"/auth-signin"] = "/login"
		}
		if s.oauth != "-" {
			ann[c18Prefix+"/oauth"] = c18OAuth[s.oauth]
			if s.oauth == "m" {
				ann[c18Prefix+"/oauth-uri-prefix"] = "/nope"
			}
		}
		for _, svc := range e.cache.SvcList {
			if svc.Namespace == "default" && svc.Name == c18Svcs[s.idx] {
				svc.Annotations = ann
			}
		}
	}
	e.cache.GatewayList, e.cache.HTTPRouteList = c18GwObjects(sc)
	for i, g := range sc.ings {
		e.cache.IngList = append(e.cache.IngList, c18Ingress(fmt.Sprintf("ing%02d", i+1), g))
	}
	changed := &convtypes.ChangedObjects{GlobalConfigMapDataNew: e.global, NeedFullSync: true}
	converters.NewConverter(utils.NewTimer(nil), e.hconfig, changed, e.opts).Sync()
	e.debugLog()
	bs := e.binds()
	sections, err := e.render()
	if err != nil {
		return "", err
	}
	var recs []string
	for _, host := range e.hconfig.Hosts().Items() {
		for _, hp := range host.Paths {
			rec, backendID, err := e.observePath(sections, host.Hostname, hp.Path(), hp.Match() == hatypes.MatchExact)
			if err != nil {
				return "", err
			}
			recs = append(recs, "K="+c18GwBackendKey(backendID)+"@"+host.Hostname+"#"+hp.Path()+";"+rec)
		}
	}
	sort.Strings(recs)
	out := "-"
	if len(recs) > 0 {
		out = strings.Join(recs, "|")
	}
	return out + "||" + bs, nil
}

func c18GwOnce(sc *c18GwScenario) (out string) {
	defer func() {
		if r := recover(); r != nil {
			out = "PANIC"
			fmt.Fprintf(os.Stderr, "C18 gw panic on %s: %v\n", sc.args(), r)
		}
	}()
	res, err := c18GwRun(sc)
	if err != nil {
		fmt.Fprintf(os.Stderr, "C18 gw harness error on %s: %v\n", sc.args(), err)
		return "ERROR"
	}
	return res
}

func c18GwEmit(c *ctx, sc *c18GwScenario, out string) {
	c.emit("C18", sc.args(), out)
	c.stat("gw_scenarios", 1)
	maxv := 0
	for _, n := range sc.visits() {
		if n > maxv {
			maxv = n
		}
		if n >= 2 {
			c.stat("gw_backend_reached_twice_or_more", 1)
		}
	}
	c.stat(fmt.Sprintf("gw_max_visits_%d", maxv), 1)
	c.stat(fmt.Sprintf("gw_gateways_%d", len(sc.gws)), 1)
	c.stat(fmt.Sprintf("gw_routes_%d", len(sc.routes)), 1)
	for _, g := range sc.gws {
		if strings.ContainsAny(g, "0123") {
			c.stat("gw_listener_hostname", 1)
			break
		}
	}
	for _, rt := range sc.routes {
		if len(rt.parents) > 1 {
			c.stat("gw_two_parent_refs", 1)
			break
		}
	}
	for _, s := range sc.svcs {
		if s.url != "-" {
			c.stat("gw_svc_url_"+s.url, 1)
		}
		if s.plc != "-" {
			c.stat("gw_svc_placement_"+s.plc, 1)
		}
		if s.oauth != "-" {
			c.stat("gw_svc_oauth_"+s.oauth, 1)
		}
	}
	if len(sc.ings) > 0 {
		c.stat("gw_with_ingress_control", 1)
	}
	for _, k := range []string{"RB=deny", "RB=icpt", "R0=deny", "R0=icpt", "unless-redir"} {
		if strings.Contains(out, k) {
			c.stat("gw_out_"+strings.NewReplacer("=", "_", "-", "_").Replace(k), 1)
		}
	}
}

func c18GwCase(c *ctx, sc *c18GwScenario) { c18GwEmit(c, sc, c18GwOnce(sc)) }

func c18GwMust(line string) *c18GwScenario {
	sc, err := c18GwParse(strings.Fields(line))
	if err != nil {
		panic(fmt.Sprintf("%s: %v", line, err))
	}
	return sc
}

func c18GwBatch(c *ctx, scs []*c18GwScenario) {
	outs := make([]string, len(scs))
	workers := runtime.NumCPU() / 2
	if workers > 6 {
		workers = 6
	}
	if workers < 1 {
		workers = 1
	}
	var wg sync.WaitGroup
	next := make(chan int, 64)
	for w := 0; w < workers; w++ {
		wg.Add(1)
		go func() {
			defer wg.Done()
			for i := range next {
				outs[i] = c18GwOnce(scs[i])
			}
		}()
	}
	for i := range scs {
		next <- i
	}
	close(next)
	wg.Wait()
	for i, sc := range scs {
		c18GwEmit(c, sc, outs[i])
	}
}

// attachment shapes: <gws> and the parents of the route under test
var c18GwShapes = [][2]string{
	{"a", "1"},     // one listener
	{"aa", "1"},    // two accepting listeners, no sectionName: the backend is reached twice
	{"aa", "1s2"},  // sectionName: one listener
	{"a+a", "1+2"}, // two parentRefs, two gateways
	{"an", "1"},    // the second listener accepts nothing
	{"aaa", "1"},   // three visits
	{"aa", "1+1"},  // the same gateway named twice: four visits
	{"a1", "1"},    // the second listener has a hostname of its own: the revisit adds a path
}

func c18GwRandom(r *gen.Rng) *c18GwScenario {
	glob := gen.Pick(r, []string{"x0l0", "x0l0", "x0l1", "x1l1", "x1l0", "x0l0c1"}) + "r" + gen.Pick(r, []string{"0", "1", "2", "2", "3", "d"})
	ngw := r.Range(1, 2)
	var gws []string
	for i := 0; i < ngw; i++ {
		n := r.Range(1, 3)
		g := ""
		for j := 0; j < n; j++ {
			g += gen.Pick(r, []string{"a", "a", "a", "a", "a", "a", "a", "n", "n", "0", "1", "2"})
		}
		gws = append(gws, g)
	}
	// services
	var svcs []string
	annotated := map[int]bool{}
	oauthUsed := false
	for _, idx := range []int{0, 1, 3} {
		if r.Chance(1, 4) {
			continue
		}
		url := "-"
		switch r.Intn(10) {
		case 0, 1, 2, 3:
			url = gen.Pick(r, []string{"h1", "h2", "hs", "hq"})
		case 4, 5:
			url = gen.Pick(r, c18URLKeys)
		case 6:
			url = gen.Pick(r, []string{"mf", "bp", "hn", "sm", "sp", "e", "s1", "so"})
		}
		plc := gen.Pick(r, []string{"-", "-", "-", "-", "-", "b", "b", "f", "t", "B", "F"})
		oauth := gen.Pick(r, []string{"-", "-", "-", "-", "o", "o", "d", "m", "u", "e"})
		if oauth != "-" {
			oauthUsed = true
		}
		sg := "-"
		if url != "-" && r.Chance(1, 4) {
			sg = "s"
		}
		if url == "-" && plc == "-" && oauth == "-" {
			continue
		}
		svcs = append(svcs, fmt.Sprintf("%d.%s.%s.%s.%s", idx, url, plc, oauth, sg))
		annotated[idx] = true
	}
	parents := func() string {
		n := r.Range(1, 2)
		var ps []string
		for i := 0; i < n; i++ {
			g := r.Range(1, ngw)
			p := strconv.Itoa(g)
			if r.Chance(1, 4) {
				p += "s" + strconv.Itoa(r.Range(1, len(gws[g-1])))
			}
			ps = append(ps, p)
		}
		return strings.Join(ps, "+")
	}
	var routes []string
	// a listener hostname links the paths of a route to that host as well: a (host, path) pair is used up
	// on the host of the route and on every listener host
	lhosts := []int{}
	for _, g := range gws {
		for _, l := range g {
			if l >= '0' && l <= '9' {
				lhosts = append(lhosts, int(l-'0'))
			}
		}
	}
	usedPath := map[[2]int]bool{}
	take := func(h, p int) bool {
		if usedPath[[2]int{h, p}] {
			return false
		}
		for _, lh := range lhosts {
			if usedPath[[2]int{lh, p}] {
				return false
			}
		}
		usedPath[[2]int{h, p}] = true
		for _, lh := range lhosts {
			usedPath[[2]int{lh, p}] = true
		}
		return true
	}
	if oauthUsed && r.Chance(3, 4) {
		// the oauth2-proxy publisher: the first route
		h := r.Intn(2)
		take(h, 9)
		routes = append(routes, fmt.Sprintf("%d.%s.9p~2", h, parents()))
	}
	nr := r.Range(1, 3)
	for k := 0; k < nr; k++ {
		h := r.Intn(3)
		var rules []string
		for j, nrule := 0, r.Range(1, 2); j < nrule; j++ {
			m := ""
			for q, nm := 0, r.Range(1, 2); q < nm; q++ {
				p := r.Intn(3)
				if !take(h, p) {
					continue
				}
				m += fmt.Sprintf("%d%c", p, gen.Pick(r, []byte{'p', 'p', 'e'}))
			}
			if m != "" {
				rules = append(rules, fmt.Sprintf("%s~%d", m, gen.Pick(r, []int{0, 1, 3})))
			}
		}
		if len(rules) > 0 {
			routes = append(routes, fmt.Sprintf("%d.%s.%s", h, parents(), strings.Join(rules, "/")))
		}
	}
	if len(routes) == 0 {
		routes = append(routes, "0.1.0p~0")
	}
	ings := "-"
	if r.Chance(1, 3) {
		// an Ingress on a host of its own (3) or sharing a host with the routes, on a path the routes do not use
		var is []string
		for k, n := 0, r.Range(1, 2); k < n; k++ {
			h := gen.Pick(r, []int{3, 3, 0, 1})
			p := r.Intn(3)
			if usedPath[[2]int{h, p}] {
				continue
			}
			usedPath[[2]int{h, p}] = true
			url := gen.Pick(r, []string{"-", "h1", "h2", "hs", "mf", "s1"})
			plc := gen.Pick(r, []string{"-", "b", "f"})
			oauth := gen.Pick(r, []string{"-", "-", "-", "o"})
			var plain []int // an Ingress path reads the annotations of its Service too: the control uses plain ones
			for _, idx := range []int{0, 1, 3} {
				if !annotated[idx] {
					plain = append(plain, idx)
				}
			}
			if len(plain) == 0 {
				continue
			}
			is = append(is, fmt.Sprintf("%d.%d.%d.%c.%s.%s.%s.-", h, p, gen.Pick(r, plain), gen.Pick(r, []byte{'b', 'e'}), url, plc, oauth))
		}
		if len(is) > 0 {
			ings = strings.Join(is, ",")
		}
	}
	sv := "-"
	if len(svcs) > 0 {
		sv = strings.Join(svcs, ",")
	}
	return c18GwMust(fmt.Sprintf("%s %s %s %s %s", glob, strings.Join(gws, "+"), sv, strings.Join(routes, ","), ings))
}

func runC18Gw(c *ctx) {
	// ---- corpus: minimised findings first
	corpus := []string{
		// seed C18e (buildBackendAuthExternal assigns a scratch AuthExternal unconditionally): the second visit of the
		// backend (second listener / second parentRef), made with an empty mapper, wiped the record of the first
		"x0l0r2 aa 0.h1.-.-.- 0.1.0p~0 -",             // valid auth-url: intercept + deny-unless-successful lost
		"x0l0r2 aa 0.bp.-.-.- 0.1.0p~0 -",             // unknown protocol: `http-request deny` lost
		"x0l0r2 a+a 0.mf.-.-.- 0.1+2.0e~0 -",          // malformed, two parentRefs
		"x0l0r2 aa 0.-.-.o.- 0.1.9p~2,0.1.0p~0 -",     // oauth: the fields buildBackendOAuth wrote lost
		"x0l0r0 aaa 0.hn.-.-.s,1.h2.b.-.- 0.1.0p1e~0/2p~1 -",
		// open (the code as it is): a listener with a hostname of its own links a new path on the revisit, which
		// reads no Service annotation at all
		"x0l0r2 a1 0.h1.-.-.- 0.1.0p~0 -",
		"x0l0r2 a1 0.-.-.o.- 0.1s1.9p~2,0.1.0p~0 -",
		// open: auth-url + placement frontend on a Service: no builder honours it in the gateway flow
		"x0l0r2 a 0.h1.f.-.- 0.1.0p~0 -",
		"x0l0r2 a 0.mf.F.-.- 0.1.0e~0 -",
		// known (one-batch mode): an Ingress on the hostname of the route places ITS auth-url in the frontend: the
		// host-wide rule authenticates the route path with the Ingress's service
		"x0l0r2 a 0.h1.f.-.- 0.1.0e~0 0.1.1.e.h2.f.-.-",
		// open: external HAProxy without Lua: the gateway converter runs before UpdateGlobalConfig
		"x1l0r2 a 0.h1.-.-.- 0.1.0p~0 -",
		// well-behaved cases
		"x0l0r2 a 0.h1.-.-.- 0.1.0p~0 -",
		"x0l0r2 aa 0.h1.-.-.- 0.1s2.0p~0 -",
		"x0l0r2 an 0.h1.-.-.- 0.1.0p~0 -",
		"x1l1r2 aa 0.hs.b.-.s 0.1.0p~0 -",
		"x0l0r2 aa 0.h1.-.-.-,1.h2.-.-.- 0.1.0p~0,1.1.0p~1 -", // the second target finds the range 0..0 full: denied
		"x0l0r2 aa 0.h1.-.-.-,1.hq.-.-.- 0.1.0p~0,1.1.0p~1 -", // same target: one bind
		"x0l0r2 aa 0.s1.-.-.- 0.1.0p~0 -",                     // no service backend exists yet: denied
		"x0l0r2 aa 0.h1.-.-.- 0.1.0p~0 3.1.1.b.h2.b.-.-",      // Ingress control: its own port of the configured range
		"x0l0r2 aa 0.h1.-.-.- 0.1.0p~0 0.1.1.e.h1.f.-.-",      // Ingress on the host of the route, frontend placement
		"x0l0r1 a+a 0.h2.-.-.- 0.1+2.0p1p~0 3.1.1.b.h1.b.-.-,3.2.3.b.hs.b.-.-",
		"x0l0r2 aa 0.-.-.o.- 0.1.0p~0 0.9.2.b.-.-.-.-", // the /oauth2 publisher is an Ingress: not there yet, denied
		"x0l0r2 aa 0.-.-.u.- 0.1.0p~0 -",
	}
	for _, l := range corpus {
		c18GwCase(c, c18GwMust(l))
	}

	// ---- exhaustive: one annotated Service, one route, one path, every attachment shape
	var scs []*c18GwScenario
	urls := []string{"-", "e", "h1", "hs", "hl", "hn", "s1", "sm", "sp", "bp", "mf"}
	plcs := []string{"-", "f", "t"}
	oauths := []string{"-", "o", "u"}
	globs := []string{"x0l0r2", "x1l0r2"}
	if c.thorough() {
		urls = c18URLKeys
		plcs = []string{"-", "b", "f", "t", "B", "F"}
		oauths = []string{"-", "o", "d", "m", "u", "e"}
		globs = []string{"x0l0r2", "x1l0r2", "x1l1r2", "x0l0r0"}
	}
	for _, gl := range globs {
		for _, sh := range c18GwShapes {
			for _, u := range urls {
				for _, p := range plcs {
					for _, o := range oauths {
						if u == "-" && o == "-" {
							continue
						}
						routes := fmt.Sprintf("0.%s.0p~0", sh[1])
						if o == "o" || o == "d" {
							routes = fmt.Sprintf("0.%s.9p~2,", sh[1]) + routes
						}
						scs = append(scs, c18GwMust(fmt.Sprintf("%s %s 0.%s.%s.%s.- %s -", gl, sh[0], u, p, o, routes)))
					}
				}
			}
		}
	}
	c.stat("gw_exhaustive_single", len(scs))

	// ---- exhaustive: two routes / two annotated Services + an Ingress on a plain Service
	n0 := len(scs)
	urls2 := []string{"-", "h1", "h2", "mf"}
	oauths2 := []string{"-", "o"}
	ctl := []string{"-", "3.0.1.b.h1.b.-.-", "3.0.1.e.h2.f.-.-", "0.2.1.b.hs.b.-.-"}
	for _, sh := range [][2]string{{"aa", "1"}, {"a+a", "1+2"}, {"a", "1"}, {"a1", "1"}} {
		for _, u1 := range urls2 {
			for _, u2 := range urls2 {
				for _, o2 := range oauths2 {
					for _, ig := range ctl {
						if u1 == "-" && u2 == "-" && o2 == "-" {
							continue
						}
						if sh[0] == "a1" && strings.HasPrefix(ig, "3.") == false && ig != "-" {
							continue // the listener hostname h1 would collide with nothing, but keep the scope small
						}
						svcs := []string{}
						if u1 != "-" {
							svcs = append(svcs, fmt.Sprintf("0.%s.-.-.-", u1))
						}
						if u2 != "-" || o2 != "-" {
							svcs = append(svcs, fmt.Sprintf("3.%s.-.%s.-", u2, o2))
						}
						routes := fmt.Sprintf("0.%s.0p~0/1e~3,2.%s.0p~3", sh[1], sh[1])
						if o2 == "o" {
							routes = fmt.Sprintf("0.%s.9p~2,", sh[1]) + routes
						}
						scs = append(scs, c18GwMust(fmt.Sprintf("x0l0r2 %s %s %s %s", sh[0], strings.Join(svcs, ","), routes, ig)))
					}
				}
			}
		}
	}
	c.stat("gw_exhaustive_two_routes", len(scs)-n0)

	// ---- random
	n := 800
	if c.thorough() {
		n = 10000
	}
	r := gen.New(c.seed ^ 0x18e)
	for i := 0; i < n; i++ {
		scs = append(scs, c18GwRandom(r))
	}
	c18GwBatch(c, scs)
}
