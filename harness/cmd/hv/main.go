// hv: correspondence harness. `hv <PROP> [-tier quick|thorough] [-seed N] [-replay file]`
// writes one case per line to stdout: `<PROP> <args...> => <implementation output>`.
// Lines starting with `#` are statistics (`#stat key value`) for the evidence file.
package main

import (
	"bufio"
	"flag"
	"fmt"
	"os"
	"sort"
	"strings"
	"time"
)

type ctx struct {
	tier      string
	seed      uint64
	out       *bufio.Writer
	lastFlush time.Time
	stats     map[string]int
	replay    string
}

func (c *ctx) emit(prop, args, impl string) {
	fmt.Fprintf(c.out, "%s %s => %s\n", prop, args, impl)
	// slow properties (two real pipelines per case) must not sit in the 1 MB buffer while the runner's time budget
	// runs out: flush at least every 200 ms
	if now := time.Now(); now.Sub(c.lastFlush) > 200*time.Millisecond {
		c.out.Flush()
		c.lastFlush = now
	}
}
func (c *ctx) stat(key string, n int) { c.stats[key] += n }
func (c *ctx) thorough() bool         { return c.tier == "thorough" }

var props = map[string]func(*ctx){}

// replayers re-run one case line (the text between `<PROP> ` and ` => `) on the implementation
var replayers = map[string]func(*ctx, []string){}

func main() {
	if len(os.Args) < 2 {
		fmt.Fprintln(os.Stderr, "usage: hv <PROP> [-tier t] [-seed n]")
		os.Exit(2)
	}
	prop := os.Args[1]
	fs := flag.NewFlagSet("hv", flag.ExitOnError)
	tier := fs.String("tier", "quick", "quick|thorough")
	seed := fs.Uint64("seed", 1, "PRNG seed")
	replay := fs.String("replay", "", "file with case lines to re-run (impl side recomputed)")
	fs.Parse(os.Args[2:])
	f, ok := props[prop]
	if !ok {
		fmt.Fprintln(os.Stderr, "unknown property", prop)
		os.Exit(2)
	}
	c := &ctx{tier: *tier, seed: *seed, out: bufio.NewWriterSize(os.Stdout, 1<<20), stats: map[string]int{}, replay: *replay}
	if c.replay != "" {
		rp, ok := replayers[prop]
		if !ok {
			fmt.Fprintln(os.Stderr, "no replayer for", prop)
			os.Exit(2)
		}
		data, err := os.ReadFile(c.replay)
		if err != nil {
			fmt.Fprintln(os.Stderr, err)
			os.Exit(2)
		}
		for _, line := range strings.Split(string(data), "\n") {
			line = strings.TrimSpace(line)
			if i := strings.Index(line, " => "); i >= 0 {
				line = line[:i]
			}
			if !strings.HasPrefix(line, prop+" ") {
				continue
			}
			rp(c, strings.Fields(line)[1:])
		}
	} else {
		f(c)
	}
	keys := make([]string, 0, len(c.stats))
	for k := range c.stats {
		keys = append(keys, k)
	}
	sort.Strings(keys)
	for _, k := range keys {
		fmt.Fprintf(c.out, "#stat %s %d\n", k, c.stats[k])
	}
	c.out.Flush()
}
