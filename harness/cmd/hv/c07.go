package main

import (
	"fmt"
	"sort"
	"strconv"
	"strings"

	hatypes "github.com/jcmoraisjr/haproxy-ingress/pkg/haproxy/types"

	"hapverif/gen"
	"hapverif/world"
)

func init() {
	props["C07"] = runC07
	replayers["C07"] = func(c *ctx, a []string) {
		switch {
		case c07sidReplay(c, a):
		case c07filesReplay(c, a):
		case len(a) == 2 && a[0] == "ids":
			c07ids(c, strings.Split(a[1], ","))
		case len(a) >= 2 && a[0] == "hist":
			c07hist(c, a[1:])
		case len(a) == 4 && a[0] == "alloc":
			rs, _ := strconv.Atoi(a[1])
			re, _ := strconv.Atoi(a[2])
			c07alloc(c, rs, re, strings.Split(a[3], ","))
		}
	}
}

var c07match = map[string]hatypes.MatchType{"E": hatypes.MatchExact, "P": hatypes.MatchPrefix, "B": hatypes.MatchBegin, "R": hatypes.MatchRegex}

// ids handed out by the real AddBackendPath
func c07ids(c *ctx, links []string) {
	b := hatypes.CreateBackends(0).AcquireBackend("d", "app", "8080")
	got := map[string]string{}
	var order []string
	for _, l := range links {
		f := strings.Split(l, "|")
		if len(f) != 3 {
			continue
		}
		bp := b.AddBackendPath(hatypes.CreateHostPathLink(f[0], f[1], c07match[f[2]]))
		if _, seen := got[l]; !seen {
			order = append(order, l)
		}
		got[l] = strings.TrimLeft(strings.TrimPrefix(bp.ID, "path"), "0")
	}
	out := make([]string, len(order))
	for i, l := range order {
		out[i] = l + "=" + got[l]
	}
	res := "-"
	if len(out) > 0 {
		res = strings.Join(out, ",")
	}
	c.emit("C07", "ids "+strings.Join(links, ","), res)
	c.stat("ids", 1)
}

// every configuration written along a history (long-lived pipeline) and by a fresh controller must lint clean
func c07hist(c *ctx, toks []string) {
	ops := toks
	out := func() (res string) {
		defer func() {
			if r := recover(); r != nil {
				res = "panic:" + sanitize(fmt.Sprint(r))
			}
		}()
		// pseudo ops `opt~shards=N` (--backend-shards), `opt~db=...` configure the long-lived and the fresh pipeline
		opt, ops := syncOptions(ops)
		w := world.NewWorld()
		p, err := world.NewPipeline(w, opt)
		if err != nil {
			return "skip:" + sanitize(err.Error())
		}
		defer p.Close()
		if opt.Shards > 0 {
			c.stat("hist_with_shards", 1)
		}
		probs := map[string]bool{}
		lint := func(pp *world.Pipeline) {
			cfg, err := world.LoadConfig(pp.CfgDir)
			if err != nil {
				probs["load-error:"+sanitize(err.Error())] = true
				return
			}
			for _, x := range world.Lint(cfg) {
				probs[strings.ReplaceAll(strings.ReplaceAll(x, pp.Dir, "$DIR"), ",", ";")] = true
			}
		}
		syncs := 0
		for _, o := range append(append([]string(nil), ops...), "sync") {
			if o == "sync" {
				if _, err := p.Reconcile(); err != nil {
					probs["update-error:"+sanitize(err.Error())] = true
				}
				if p.Sim.LoadErr != "" {
					probs["sim-load-error:"+sanitize(p.Sim.LoadErr)] = true
				}
				lint(p)
				syncs++
				continue
			}
			evs, err := w.Apply(world.Op{Text: o})
			if err != nil {
				return "skip:" + sanitize(err.Error())
			}
			p.Deliver(evs)
		}
		f, err := world.NewPipeline(w, opt)
		if err == nil {
			f.Startup()
			if _, err := f.Reconcile(); err != nil {
				probs["update-error:"+sanitize(err.Error())] = true
			}
			lint(f)
			f.Close()
		}
		c.stat(fmt.Sprintf("syncs_%02d", syncs), 1)
		if len(probs) == 0 {
			return "ok"
		}
		ks := make([]string, 0, len(probs))
		for k := range probs {
			ks = append(ks, k)
		}
		sort.Strings(ks)
		return strings.Join(ks, ",")
	}()
	c.emit("C07", "hist "+strings.Join(toks, " "), out)
}

// auth-proxy port allocation on the real hatypes.Frontend (same sub-protocol as C18's allocator cases)
func c07alloc(c *ctx, rs, re int, ops []string) {
	out := func() (res string) {
		defer func() {
			if r := recover(); r != nil {
				res = "PANIC"
			}
		}()
		r, err := c18AllocRun(rs, re, ops)
		if err != nil {
			return "ERROR"
		}
		return r
	}()
	c.emit("C07", fmt.Sprintf("alloc %d %d %s", rs, re, strings.Join(ops, ",")), out)
	c.stat("alloc", 1)
}

func runC07(c *ctx) {
	// auth-proxy ports: every op sequence (acquire target / remove except / remove by target / range change)
	{
		ops := []string{"q0", "q1", "q2", "q3", "k", "k0", "k1", "k0.2", "d0", "d1.2", "r1.2", "r0.0"}
		maxLen := 3
		if c.thorough() {
			maxLen = 5
		}
		for _, rng := range [][2]int{{0, -1}, {0, 0}, {0, 1}, {0, 2}, {1, 2}, {0, 3}} {
			var rec func(prefix []string)
			rec = func(prefix []string) {
				if len(prefix) > 0 {
					c07alloc(c, rng[0], rng[1], prefix)
				}
				if len(prefix) == maxLen {
					return
				}
				for _, o := range ops {
					rec(append(prefix[:len(prefix):len(prefix)], o))
				}
			}
			rec(nil)
		}
		// corpus: acquire three, drop the lowest by target, re-acquire, acquire a fourth
		c07alloc(c, 0, 5, []string{"q0", "q1", "q2", "d0", "q0", "q3"})
	}
	r := gen.New(c.seed)
	// path ids: exhaustive short sequences over a small link alphabet, then random
	alpha := []string{"a.local|/|P", "a.local|/|E", "a.local|/app|B", "b.local|/|P", "<default>|/|B"}
	var rec func(cur []string)
	depth := 4
	if c.thorough() {
		depth = 6
	}
	rec = func(cur []string) {
		if len(cur) > 0 {
			c07ids(c, cur)
		}
		if len(cur) == depth {
			return
		}
		for _, a := range alpha {
			rec(append(cur, a))
		}
	}
	rec(nil)
	for i := 0; i < 300; i++ {
		n := r.Range(1, 120)
		links := make([]string, n)
		for j := range links {
			links[j] = fmt.Sprintf("h%d.local|/p%d|%s", r.Intn(4), r.Intn(60), gen.Pick(r, []string{"E", "P", "B"}))
		}
		c07ids(c, links)
	}
	// server ids of assign-backend-server-id with constructed hash collisions (c07ids.go)
	runC07Sid(c)
	// CA bundles read from files (file://ca[,crl]): the resolution against the model, then end to end (c07files.go)
	runC07Files(c)
	// histories with everything that creates references: auth, passthrough, tcp services, missing objects
	n := 120
	if c.thorough() {
		n = 4000
	}
	cfg := world.DefaultGen()
	cfg.Rich = true
	cfg.Secrets = []string{"tls1", "tls2"}
	// corpus: scale-in of the first replica, then scale-out, with preserved cookies whose value is not the
	// server name (slot names and positions diverge: a new endpoint must take the name of the slot it reuses)
	for _, strat := range []string{"pod-uid", "server-name"} {
		c07hist(c, strings.Fields("svc+d/app!http:80:8080!- pod+d/app-1!10.0.1.1!app=app!- pod+d/app-2!10.0.1.2!app=app!- pod+d/app-3!10.0.1.3!app=app!- "+
			"ep~d/app!10.0.1.1:r:app-1+10.0.1.2:r:app-2 "+
			"ing+d/i1@1!haproxy,-!affinity=cookie;session-cookie-name=srv;session-cookie-preserve=true;session-cookie-value-strategy="+strat+"!a.local>/:Prefix:app:80!-!- sync "+
			"ep~d/app!10.0.1.2:r:app-2 sync ep~d/app!10.0.1.2:r:app-2+10.0.1.3:r:app-3 sync"))
	}
	// an ssl-passthrough host re-parsed unchanged (endpoints event), then an unrelated host: the http map still
	// names _redirect_https, the section must still be there
	c07hist(c, strings.Fields("svc+d/app!http:80:8080!- ep~d/app!10.0.1.1:r:app-1 svc+d/api!http:80:8080!- ep~d/api!10.0.2.1:r:api-1 "+
		"ing+d/i1@1!haproxy,-!ssl-passthrough=true!a.local>/:Prefix:app:80!-!- sync ep~d/app!10.0.1.1:r:app-1+10.0.1.2:r:app-2 sync "+
		"ing+d/i2@2!haproxy,-!-!b.local>/:Prefix:api:80!-!- sync"))
	// de67e1a strict-host: a host without root path borrows the one of the default host; when the ingress of the
	// default host goes, the host map must not keep naming the removed backend
	c07hist(c, strings.Fields("svc+e/web!http:80:8080+adm:81:adm!- cm~strict-host=true;external-has-lua=true cls+hap:haproxy-ingress.github.io/controller "+
		"ing~e/i1@1!-,hap!maxconn-server=10;oauth=oauth2_proxy!_>/b:Prefix:app:80+/:Exact:web:http!-!- "+
		"ing~d/i3@1!haproxy,-!allowlist-source-range=10.0.0.0/8;balance-algorithm=leastconn!c.local>/:Exact:app:80!-!- sync "+
		"ing~e/i1@1!other,-!app-root=/home;ssl-passthrough=true;ssl-passthrough-http-port=80!-!-!- sync"))
	// --backend-shards: a backend re-parsed unchanged (endpoints re-notification) in the same batch as the addition /
	// removal of another backend; with three services per namespace most batches put two backends into one of the
	// shard files, dynamic scaling off so that alignSlots does not flag the shard anyway (seed C07e)
	for _, sh := range []string{"1", "2", "3"} {
		c07hist(c, strings.Fields("opt~shards="+sh+" cm~dynamic-scaling=false svc+d/app!http:80:8080!- ep~d/app!10.0.1.1:r:app-1 svc+d/api!http:80:8080!- ep~d/api!10.0.2.1:r:api-1 "+
			"svc+d/web!http:80:8080!- ep~d/web!10.0.3.1:r:web-1 sec+d/pw1!passwd!1!a.local "+
			"ing+d/i1@1!haproxy,-!-!a.local>/:Prefix:app:80!-!- ing+d/i2@2!haproxy,-!auth-secret=pw1!b.local>/:Prefix:api:80!-!- sync "+
			"ep~d/app!10.0.1.1:r:app-1 ing+d/i3@3!haproxy,-!-!c.local>/:Prefix:web:80!-!- sync "+
			"ep~d/app!10.0.1.1:r:app-1 ep~d/web!10.0.3.1:r:web-1 ing-d/i2 sec-d/pw1 sync"))
	}
	for i := 0; i < n; i++ {
		g := world.NewGen(r.Fork(), cfg)
		ops := g.History()
		if i%3 == 2 {
			pre := []string{"opt~shards=" + gen.Pick(r, []string{"1", "2", "3", "5"})}
			if r.Chance(1, 2) {
				pre = append(pre, "cm~dynamic-scaling=false")
			}
			ops = append(pre, ops...)
		}
		// more endpoint churn (scale in / out) between the batches
		var out []string
		for _, o := range ops {
			out = append(out, o)
			if o == "sync" && r.Chance(1, 2) {
				for k := r.Range(1, 2); k > 0; k-- {
					out = append(out, g.ChurnOp(), "sync")
				}
			}
		}
		c07hist(c, out)
	}
}
