package main

// C01, ConfigMap based tcp services (--tcp-services-configmap, pkg/converters/configmap): the tcp converter has no
// tracking; `converters.Sync` runs it on EVERY reconciliation once the ConfigMap was seen, because an entry reads a
// Service, its Endpoints and up to two Secrets (TLS offload certificate, client CA) and whether the public port is
// exposed at all depends on them. The histories below put such entries next to the ingresses and change what an
// entry reads in batches that carry nothing else (or only Ingress / Pod / unrelated notifications):
//   * c01tcpcmFamily: exhaustive small scope — entry shape (no secret / crt / CA / both) x initial state of the secret
//     (absent / usable / wrong kind) x change (appears, disappears, renewed, becomes unusable) x what else rides in the
//     batch (nothing, an ingress update, a pod notification, endpoints of another service, endpoints of the target),
//     followed by a batch with an unrelated ingress update; ConfigMap applied before or after the first sync;
//   * random: world.Gen with TCPConfigMap and the C01 generator with tcp entries interleaved.
// The observation token carries the tcp backends of the REAL haproxy model (`T=`), which the Lean model
// (Model/C01Tcp.lean: tcpConvert over the cluster; runs whenever the ConfigMap is configured) must predict; the
// long-vs-fresh oracle compares the normal form including `tcp <port> -> ...` (world.Snapshot.TCP).

import (
	"fmt"
	"path/filepath"
	"sort"
	"strings"

	"hapverif/gen"
	"hapverif/world"
)

// c01tcpObs: the tcp backends of the real haproxy model, sorted by public port:
// port>name>ip:port+ip:port>d|->v1|v2|->check>crt file>ca file (files by base name: the secret they were written from)
func c01tcpObs(p *world.Pipeline) string {
	var l []string
	items := p.Instance.Config().TCPBackends().BuildSortedItems()
	sort.Slice(items, func(i, j int) bool { return items[i].Port < items[j].Port })
	for _, b := range items {
		var eps []string
		for _, e := range b.Endpoints {
			eps = append(eps, e.Target)
		}
		sort.Strings(eps)
		dec := "-"
		if b.ProxyProt.Decode {
			dec = "d"
		}
		base := func(f string) string {
			if f == "" {
				return "-"
			}
			return filepath.Base(f)
		}
		dash := func(s string) string {
			if s == "" {
				return "-"
			}
			return s
		}
		l = append(l, strings.Join([]string{fmt.Sprint(b.Port), b.Name, dash(strings.Join(eps, "+")), dec, dash(b.ProxyProt.EncodeVersion),
			dash(b.CheckInterval), base(b.SSL.Filename), base(b.SSL.CAFilename)}, ">"))
	}
	return strings.Join(l, ",")
}

func c01tcpcmStats(c *ctx, ops []string) {
	var cur []world.TCPEntry
	named := map[string]bool{}
	batch := map[string]bool{}
	has := false
	for _, o := range ops {
		switch {
		case strings.HasPrefix(o, "tcp~"):
			has = true
			cur = world.TCPEntries(o[4:])
			named = map[string]bool{}
			for _, e := range cur {
				if e.Crt != "" {
					named[e.Crt] = true
				}
				if e.CA != "" {
					named[e.CA] = true
				}
			}
			batch["tcp"] = true
		case strings.HasPrefix(o, "sec"):
			k := strings.SplitN(o[4:], "!", 2)[0]
			if named[k] {
				batch["tcpsec"] = true
			}
		case strings.HasPrefix(o, "svc"), strings.HasPrefix(o, "ep"):
			batch["svcep"] = true
		case o == "sync":
			if batch["tcpsec"] && !batch["tcp"] {
				c.stat("tcpcm_batches_secret_of_an_entry_changes", 1)
				if !batch["svcep"] {
					c.stat("tcpcm_batches_secret_of_an_entry_changes_without_service_or_endpoints", 1)
				}
			}
			batch = map[string]bool{}
		}
	}
	if has {
		c.stat("tcpcm_histories", 1)
	}
}

func c01tcpcmCase(c *ctx, ops []string) c01result {
	res := c01case(c, ops)
	c01tcpcmStats(c, ops)
	return res
}

func c01tcpcmFamily(c *ctx) {
	base := []string{"svc+d/app!http:80:8080!-", "ep~d/app!10.0.1.1:r:app-1", "svc+d/api!http:80:8080!-", "ep~d/api!10.0.2.1:r:api-1",
		"ing+d/i1@1!haproxy,-!-!a.local>/:Prefix:api:80!-!-"}
	entries := []struct{ crt, ca bool }{{false, false}, {true, false}, {false, true}, {true, true}}
	secState := []string{"absent", "usable", "wrong"}
	changes := []string{"appear", "disappear", "renew", "spoil"}
	riders := [][]string{
		nil,
		{"ing~d/i1@1!haproxy,-!app-root=/app!a.local>/:Prefix:api:80!-!-"},
		{"pod+d/api-1!10.0.2.1!app=api!-"},
		{"ep~d/api!10.0.2.1:r:api-1+10.0.2.2:r:api-2"},
		{"ep~d/app!10.0.1.1:r:app-1+10.0.1.2:r:app-2"},
	}
	secOp := func(name, kind string, state string, v int) []string {
		switch state {
		case "absent":
			return nil
		case "usable":
			return []string{fmt.Sprintf("sec+d/%s!%s!%d!a.local", name, kind, v)}
		default:
			return []string{fmt.Sprintf("sec+d/%s!bad!%d!a.local", name, v)}
		}
	}
	for _, e := range entries {
		val := "5432=d/app:80:::"
		if e.crt {
			val += "d/pgtls"
		}
		val += "::"
		if e.ca {
			val += "d/pgca"
		}
		tcp := "tcp~" + val + ";5433=d/api:http"
		for _, st := range secState {
			if !e.crt && !e.ca && st != "absent" {
				continue
			}
			for _, ch := range changes {
				// the change must be possible from the state
				if (ch == "appear") != (st == "absent" || st == "wrong") {
					continue
				}
				if (ch == "renew" || ch == "spoil") && st != "usable" {
					continue
				}
				for ri, rider := range riders {
					if !c.thorough() && (ri == 2 || ri == 4) {
						continue // quick: nothing / an ingress update / endpoints of another service ride along
					}
					for late := 0; late < 2; late++ {
						if late == 1 && ri != 0 && !c.thorough() {
							continue
						}
						for which := 0; which < 2; which++ {
							// which secret changes: 0 = the crt secret, 1 = the CA secret
							if (which == 0 && !e.crt) || (which == 1 && !e.ca) {
								if e.crt || e.ca || which == 1 {
									continue
								}
							}
							ops := append([]string(nil), base...)
							if e.crt {
								ops = append(ops, secOp("pgtls", "tls", st, 1)...)
							}
							if e.ca {
								ops = append(ops, secOp("pgca", "ca", st, 1)...)
							}
							if late == 0 {
								ops = append(ops, tcp, "sync")
							} else {
								ops = append(ops, "sync", tcp, "sync")
							}
							name, kind := "pgtls", "tls"
							if which == 1 {
								name, kind = "pgca", "ca"
							}
							if e.crt || e.ca {
								switch ch {
								case "appear", "renew":
									ops = append(ops, fmt.Sprintf("sec+d/%s!%s!2!a.local", name, kind))
								case "disappear":
									ops = append(ops, "sec-d/"+name)
								case "spoil":
									ops = append(ops, fmt.Sprintf("sec+d/%s!bad!2!a.local", name))
								}
							}
							ops = append(ops, rider...)
							ops = append(ops, "sync", "ing~d/i1@1!haproxy,-!app-root=/home!a.local>/:Prefix:api:80!-!-", "sync")
							c01tcpcmCase(c, ops)
							c.stat("tcpcm_family", 1)
							_ = ri
						}
					}
				}
			}
		}
	}
}

// tcpcmHistory: a history of the C01 generator with entries of the tcp-services ConfigMap and changes of the
// secrets they name interleaved (the generator of the entries is world.Gen's, over this generator's pools)
func (g *c01gen) tcpcmHistory() []string {
	r := g.r
	wg := world.NewGen(r.Fork(), world.GenConfig{Namespaces: g.ns, Services: g.svcs, Secrets: g.secs, TCPConfigMap: true})
	ops := g.history()
	// split into batches and interleave
	var out []string
	first := true
	for _, o := range ops {
		if o == "sync" {
			if first {
				if r.Chance(2, 3) {
					out = append(out, wg.TCPOp())
				}
				first = false
			} else {
				switch r.Intn(4) {
				case 0:
					out = append(out, wg.TCPOp())
				case 1, 2:
					out = append(out, wg.TCPSecretOp())
				}
			}
		}
		out = append(out, o)
	}
	// batches that carry only a change of a secret an entry names
	n := r.Range(1, 3)
	for i := 0; i < n; i++ {
		out = append(out, wg.TCPSecretOp())
		if r.Chance(1, 3) {
			out = append(out, g.ingOp()...)
		}
		out = append(out, "sync")
	}
	return out
}

func c01tcpcmRun(c *ctx) {
	c01tcpcmFamily(c)
	r := gen.New(c.seed ^ 0x7c9c01)
	n := 24
	if c.thorough() {
		n = 600
	}
	for i := 0; i < n; i++ {
		var ops []string
		switch i % 3 {
		case 0:
			gc := world.DefaultGen()
			gc.TCPConfigMap = true
			gc.Classes = false
			ops = world.NewGen(r.Fork(), gc).History()
		case 1:
			ops = newC01Gen(r.Fork(), false).tcpcmHistory()
		default:
			ops = newC01Gen(r.Fork(), true).tcpcmHistory()
		}
		res := c01tcpcmCase(c, ops)
		c.stat("tcpcm_random", 1)
		if strings.HasPrefix(res.verdict, "diff:") {
			min := world.Shrink(ops, func(o []string) bool {
				return strings.HasPrefix(c01run(o, false).verdict, "diff:")
			}, 300)
			c01tcpcmCase(c, min)
			c.stat("shrunk", 1)
		}
	}
}
