package main

// C05, mode fx — files on disk hold exactly the current model, over histories that include FAILED updates.
//
// A real haproxy.Instance (external mode, temp dir, simulated sockets; the C12 instance fixture) is driven at
// the level of ingresses: ingress X = host hX.local (TLS, own certificate, bind option alpn v<T>, a redirect
// path /r<T>) + backend X of the C05 name pool (cfg = 4*conf+epv: `balance cfg<conf/2>`, one real endpoint
// 10.0.0.<1+epv>, S empty slots) with the two paths / and /a<conf> (exact match when conf%4 == 3); an ODD conf
// gives the two paths different per-path configuration (max body size), so the backend needs ACLs and
// `_back_<id>_idpath__*.map` exist.  One tcp service with TLS (sni map, crt-list, listen section).
//
//   ops:  iX.C.S.T  ingress X declared / changed     dX  ingress X deleted     tV  tcp service content V (>0)
//         pX.C.S.T.H  ingress X declared / changed with `ssl-passthrough: "true"` (H = 1: and with
//                    `ssl-passthrough-http-port`): host hX.local counted by Hosts as a passthrough host, root
//                    path only, backend X in mode tcp; haproxy.cfg has `listen _front__tls` (the SNI frontend
//                    reading _front_sslpassthrough__exact.map), `backend _redirect_https` and the https
//                    frontend behind a unix socket iff Hosts.HasSSLPassthrough()
//         F  full resync (config.Clear(), everything live is parsed again)     G  the same, tcp service gone
//         u[:fault]  the recorded batch is applied the way converters.Sync does (one RemoveAll of the touched
//                    hosts and backends, then every touched live ingress is parsed once), then HAProxyUpdate
//   faults (one per update): the WRITE faults tm fm cl mc sh<k> of C12 (c12inst.arm; the reload and runtime
//         command faults rs rr ad ab are C12's subject and are not generated here), plus
//         fh  _front_http_host__begin.map (a file in the MIDDLE of the frontend map set: the crt-list of the
//             frontend is already written when it fails)
//         bm  the idpath map of every backend of the pool (whichever backend Go's map iteration visits first)
//
// After EVERY update that returns nil, every file under the configuration and maps directories is compared
// with what a FRESH instance writes when it is fed the declared state only (the "twin"; cached per state):
// *.cfg by section (server lines without their names, empty slots dropped), maps and lists by entry.  A file
// the twin does not have counts when HAProxy would read it (a *.cfg, or a path a *.cfg on disk refers to).
//
//   case line:  C05 fx <queue 0|1> <n> <shard of name 0>.<shard of name 1>... <op>,<op>,...
//   impl output: one observation per u:  e1  |  e0|<files compared>|<diff>,<diff>...   (`-` = no diff)
//         diff = <kind>~<file>~<entries on disk>~<entries of the twin>, entries `key=value` joined by `+`
//
// The Lean driver (Drv/C05Faults.lean) expands the ops into the events of the C12 model, predicts the error
// flag of every update (which faults FIRE = which files the update writes: the guards of WriteTCPServicesMaps,
// WriteFrontendMaps, WriteBackendMaps, writeCrtLists, writeConfig, ChangedShards) and evaluates the Spec on
// the diffs: stale / missing / outdated / duplicate backend, map entry, crt-list entry, section.

import (
	"crypto/sha256"
	"fmt"
	"os"
	"path/filepath"
	"sort"
	"strconv"
	"strings"
	"sync"

	hatypes "github.com/jcmoraisjr/haproxy-ingress/pkg/haproxy/types"
	"github.com/jcmoraisjr/haproxy-ingress/pkg/utils"

	"hapverif/gen"
)

// pass: 0 = plain TLS host; 1 = ssl-passthrough host; 2 = ssl-passthrough host with ssl-passthrough-http-port
type c05ing struct{ c, s, t, pass int }

type c05fx struct {
	e          *c12inst
	p          int
	names      []int
	live       map[int]c05ing
	tcp        int
	touched    map[int]bool
	tcpTouched bool
	full       bool
}

// c05fxDeclare parses ingress x: backend first, then the host whose paths link to it
func c05fxDeclare(e *c12inst, names []int, x int, g c05ing) {
	cfg := e.inst.Config()
	ns, name, port := c05name(names[x])
	b := cfg.Backends().AcquireBackend(ns, name, port)
	conf := g.c / 4
	// like c12fill, but confs 2k and 2k+1 share everything except their paths (second path, per-path
	// configuration): Shrink's match has to look at the paths to tell them apart
	b.BalanceAlgorithm = fmt.Sprintf("cfg%d", conf/2)
	b.Dynamic.DynUpdate = true
	b.Dynamic.BlockSize = 1
	b.AcquireEndpoint(fmt.Sprintf("10.0.0.%d", 1+g.c%4), 8080, "")
	for i := 0; i < g.s; i++ {
		b.AddEmptyEndpoint()
	}
	if g.pass != 0 {
		// what the converter leaves for `ssl-passthrough: "true"` (ingress.go syncIngress + annotations/host.go
		// buildHostSSLPassthrough): the root path only is tracked, its backend speaks TLS itself (mode tcp), the
		// host is counted in Hosts (SetSSLPassthrough), no certificate of its own; with
		// `ssl-passthrough-http-port` naming the port that is already declared the plain HTTP requests go to
		// the same service instead of `_redirect_https`
		h := cfg.Hosts().AcquireHost(c05host(x))
		h.AddPath(b, "/", hatypes.MatchBegin)
		h.AddRedirect(fmt.Sprintf("/r%d", g.t), hatypes.MatchBegin, "http://r.local")
		if g.pass == 2 {
			h.HTTPPassthroughBackend = b.ID
		}
		b.ModeTCP = true
		h.SetSSLPassthrough(true)
		return
	}
	h := cfg.Hosts().AcquireHost(c05host(x))
	h.TLS.TLSFilename = fmt.Sprintf("/tls/h%d.pem", x)
	h.TLS.TLSHash = "1"
	h.TLS.ALPN = fmt.Sprintf("v%d", g.t)
	h.AddPath(b, "/", hatypes.MatchBegin)
	match := hatypes.MatchBegin
	if conf%4 == 3 {
		match = hatypes.MatchExact
	}
	hp := h.AddPath(b, fmt.Sprintf("/a%d", conf), match)
	h.AddRedirect(fmt.Sprintf("/r%d", g.t), hatypes.MatchBegin, "http://r.local")
	if conf%2 == 1 {
		if bp := b.FindBackendPath(hp.Link); bp != nil {
			bp.MaxBodySize = int64(1000 + conf)
		}
	}
}

func (w *c05fx) applyBatch() {
	cfg := w.e.inst.Config()
	var xs []int
	if w.full {
		cfg.Clear()
		w.e.inst.Config().Global().MatchOrder = hatypes.DefaultMatchOrder
		for x := 0; x < w.p; x++ {
			xs = append(xs, x)
		}
	} else {
		var hs, bs []string
		for x := 0; x < w.p; x++ {
			if w.touched[x] {
				xs = append(xs, x)
				hs = append(hs, c05host(x))
				bs = append(bs, c05id(w.names[x]))
			}
		}
		cfg.Hosts().RemoveAll(hs)
		cfg.Backends().RemoveAll(bs)
	}
	for _, x := range xs {
		if g, ok := w.live[x]; ok {
			c05fxDeclare(w.e, w.names, x, g)
		}
	}
	if (w.tcpTouched || w.full) && w.tcp != 0 {
		w.e.setTCP(w.tcp)
	}
	w.touched = map[int]bool{}
	w.tcpTouched, w.full = false, false
}

// arm: the C12 fault points plus `bm` and `fh`
func (w *c05fx) arm(f c12fault) func() {
	switch f.kind {
	case "bm":
		var undo []func()
		seen := map[string]bool{}
		for _, cand := range w.names {
			fl := filepath.Join(w.e.mapsDir, "_back_"+c05id(cand)+"_idpath__begin.map")
			seen[fl] = true
			undo = append(undo, c12block(fl))
		}
		return func() {
			for _, u := range undo {
				u()
			}
		}
	case "fh":
		return c12block(filepath.Join(w.e.mapsDir, "_front_http_host__begin.map"))
	}
	return w.e.arm(f)
}

func (w *c05fx) update(f c12fault) error {
	w.applyBatch()
	restore := w.arm(f)
	err := w.e.inst.HAProxyUpdate(utils.NewTimer(nil))
	restore()
	w.e.owed = err != nil && !strings.Contains(err.Error(), "error reloading server")
	if err != nil && w.e.log.Keep {
		fmt.Fprintln(os.Stderr, "C05 fx update error:", err)
	}
	return err
}

// ---- files -> entries

type c05file struct {
	kind string   // cfg map crt aux
	ents []string // key=value, in file order
}

func c05fxHash(s string) string {
	h := sha256.Sum256([]byte(s))
	return fmt.Sprintf("%x", h[:4])
}

func c05fxKey(s string) string {
	var sb strings.Builder
	for _, r := range s {
		switch {
		case r == ' ' || r == '\t':
			sb.WriteByte('_')
		case strings.ContainsRune("|,;~+=>%", r) || r < 32 || r > 126:
			fmt.Fprintf(&sb, "%%%02x", r)
		default:
			sb.WriteRune(r)
		}
	}
	if sb.Len() == 0 {
		return "%"
	}
	return sb.String()
}

// c05fxSections: one entry per section of a haproxy configuration file.  Server lines lose their name (a
// long-lived backend may hold its endpoint in another slot than a fresh one) and empty slots are dropped
// (Shrink keeps the older object when it has at least as many)
func c05fxSections(text string) []string {
	var ents []string
	head := ""
	var body []string
	flush := func() {
		if head != "" {
			ents = append(ents, c05fxKey(head)+"="+c05fxHash(strings.Join(body, "\n")))
		}
		head, body = "", nil
	}
	for _, line := range strings.Split(text, "\n") {
		t := strings.TrimSpace(line)
		if t == "" || strings.HasPrefix(t, "#") {
			continue
		}
		if !strings.HasPrefix(line, " ") && !strings.HasPrefix(line, "\t") {
			flush()
			head = strings.Join(strings.Fields(t), " ")
			continue
		}
		f := strings.Fields(t)
		if f[0] == "server" && len(f) > 2 {
			if strings.HasPrefix(f[2], "127.0.0.1:1023") {
				continue
			}
			f = append([]string{"server"}, f[2:]...)
		}
		if f[0] == "server-template" {
			continue
		}
		body = append(body, strings.Join(f, " "))
	}
	flush()
	return ents
}

func c05fxLines(text string, list bool) []string {
	var ents []string
	for _, line := range strings.Split(text, "\n") {
		t := strings.TrimSpace(line)
		if t == "" || strings.HasPrefix(t, "#") {
			continue
		}
		f := strings.Fields(t)
		if list || len(f) == 1 {
			ents = append(ents, c05fxKey(strings.Join(f, " "))+"=1")
		} else {
			ents = append(ents, c05fxKey(f[0])+"="+c05fxKey(strings.Join(f[1:], " ")))
		}
	}
	return ents
}

func c05fxKind(rel string) string {
	base := filepath.Base(rel)
	switch {
	case strings.HasSuffix(base, ".cfg") && !strings.Contains(rel[len("cfg/"):], "/"):
		return "cfg"
	case strings.HasSuffix(base, ".list") && strings.Contains(base, "crt"):
		return "crt"
	case strings.HasSuffix(base, ".map") || strings.HasSuffix(base, ".list"):
		return "map"
	}
	return "aux"
}

// c05fxSnapshot reads every regular file under cfg/ and maps/; the scratch directory is written as $D
func c05fxSnapshot(e *c12inst) (map[string]c05file, map[string]string) {
	res := map[string]c05file{}
	raw := map[string]string{}
	for _, root := range []string{e.cfgDir, e.mapsDir} {
		_ = filepath.Walk(root, func(path string, info os.FileInfo, err error) error {
			if err != nil || !info.Mode().IsRegular() {
				return nil
			}
			data, err := os.ReadFile(path)
			if err != nil {
				return nil
			}
			rel, _ := filepath.Rel(e.dir, path)
			text := strings.ReplaceAll(string(data), e.dir, "$D")
			raw[rel] = text
			f := c05file{kind: c05fxKind(rel)}
			switch f.kind {
			case "cfg":
				f.ents = c05fxSections(text)
			case "crt":
				f.ents = c05fxLines(text, true)
			case "map":
				f.ents = c05fxLines(text, strings.HasSuffix(rel, ".list"))
			default:
				f.ents = []string{"content=" + c05fxHash(text)}
			}
			res[rel] = f
			return nil
		})
	}
	return res, raw
}

// ---- the twin: a fresh instance fed the declared state

type c05twin struct {
	files map[string]c05file
	err   string
}

var c05twinCache = struct {
	sync.Mutex
	m map[string]*c05twin
}{m: map[string]*c05twin{}}

func c05fxTwin(n int, names []int, live map[int]c05ing, tcp int) *c05twin {
	xs := make([]int, 0, len(live))
	for x := range live {
		xs = append(xs, x)
	}
	sort.Ints(xs)
	key := fmt.Sprintf("%d|%v|%d", n, names, tcp)
	for _, x := range xs {
		g := live[x]
		// empty slots are not compared
		key += fmt.Sprintf("|%d:%d.%d.%d", x, g.c, g.t, g.pass)
	}
	c05twinCache.Lock()
	tw := c05twinCache.m[key]
	c05twinCache.Unlock()
	if tw != nil {
		return tw
	}
	e := newC12inst(false, n, names)
	defer e.close()
	for _, x := range xs {
		c05fxDeclare(e, names, x, live[x])
	}
	if tcp != 0 {
		e.setTCP(tcp)
	}
	tw = &c05twin{}
	if err := e.inst.HAProxyUpdate(utils.NewTimer(nil)); err != nil {
		tw.err = err.Error()
	}
	tw.files, _ = c05fxSnapshot(e)
	c05twinCache.Lock()
	if len(c05twinCache.m) > 20000 {
		c05twinCache.m = map[string]*c05twin{}
	}
	c05twinCache.m[key] = tw
	c05twinCache.Unlock()
	return tw
}

func c05fxEnts(es []string) string {
	if len(es) == 0 {
		return "-"
	}
	return strings.Join(es, "+")
}

// compare: `<files compared>|<diffs>`
func (w *c05fx) compare() string {
	tw := c05fxTwin(w.e.n, w.names, w.live, w.tcp)
	if tw.err != "" {
		return "0|aux~twin-update-failed~-~" + c05fxKey(tw.err) + "=1"
	}
	disk, raw := c05fxSnapshot(w.e)
	var cfgText strings.Builder
	for rel, text := range raw {
		if disk[rel].kind == "cfg" {
			cfgText.WriteString(text)
		}
	}
	loaded := cfgText.String()
	rels := map[string]bool{}
	for rel := range tw.files {
		rels[rel] = true
	}
	for rel, f := range disk {
		if _, ok := tw.files[rel]; ok {
			continue
		}
		// a file the fresh instance does not have: it counts when HAProxy reads it
		if f.kind == "cfg" || strings.Contains(loaded, "$D/"+rel) {
			rels[rel] = true
		}
	}
	names := make([]string, 0, len(rels))
	for rel := range rels {
		names = append(names, rel)
	}
	sort.Strings(names)
	var diffs []string
	for _, rel := range names {
		d, dok := disk[rel]
		t, tok := tw.files[rel]
		kind := t.kind
		if !tok {
			kind = d.kind
		}
		de, te := d.ents, t.ents
		if tok {
			// the file itself is an entry: a missing (or blocked) file is not an empty one
			te = append([]string{"%file=1"}, te...)
			if dok {
				de = append([]string{"%file=1"}, de...)
			}
		}
		if strings.Join(de, "+") == strings.Join(te, "+") {
			continue
		}
		diffs = append(diffs, fmt.Sprintf("%s~%s~%s~%s", kind, c05fxKey(rel), c05fxEnts(de), c05fxEnts(te)))
	}
	ds := "-"
	if len(diffs) > 0 {
		ds = strings.Join(diffs, ",")
	}
	return fmt.Sprintf("%d|%s", len(names), ds)
}

// ---- one case

type c05fxRes struct {
	args, out string
	stats     []string
}

func c05fxRun(queue bool, n int, names, shardOf []int, ops []string) c05fxRes {
	shards := make([]string, len(names))
	for i := range names {
		shards[i] = strconv.Itoa(shardOf[i])
	}
	qs := "0"
	if queue {
		qs = "1"
	}
	args := fmt.Sprintf("fx %s %d %s %s", qs, n, strings.Join(shards, "."), strings.Join(ops, ","))
	nfault, nok, okAfterFault, npass := 0, 0, 0, 0
	var fired []string
	out := func() (res string) {
		var e *c12inst
		defer func() {
			if r := recover(); r != nil {
				res = "PANIC"
				fmt.Fprintf(os.Stderr, "C05 fx panic on %s: %v\n", args, r)
			}
			if e != nil {
				if os.Getenv("C12_LOG") != "" {
					for _, l := range e.log.Lines {
						fmt.Fprintln(os.Stderr, "LOG", l)
					}
				}
				e.close()
			}
		}()
		e = newC12inst(queue, n, names)
		w := &c05fx{e: e, p: len(names), names: names, live: map[int]c05ing{}, touched: map[int]bool{}}
		var obs []string
		for _, op := range ops {
			switch {
			case op == "F":
				w.full = true
			case op == "G":
				w.full = true
				w.tcp = 0
			case op[0] == 'u':
				fs := strings.TrimPrefix(op[1:], ":")
				err := w.update(c12parseFault(fs))
				if fs != "" {
					nfault++
				}
				if fs != "" {
					// a fault fires iff the update writes the file: the guards decide
					k := fs[:2]
					if err != nil {
						fired = append(fired, "fx_fault_fired_"+k)
					} else {
						fired = append(fired, "fx_fault_file_not_written_"+k)
					}
				}
				if err != nil {
					obs = append(obs, "e1")
					continue
				}
				nok++
				if nfault > 0 {
					okAfterFault++
				}
				obs = append(obs, "e0|"+w.compare())
				if os.Getenv("C05FX_DUMP") != "" {
					_, raw := c05fxSnapshot(e)
					for rel, text := range raw {
						fmt.Fprintf(os.Stderr, "==== %s\n%s\n", rel, text)
					}
				}
			case op[0] == 'i' || op[0] == 'p':
				f := strings.Split(op[1:], ".")
				if (op[0] == 'i' && len(f) != 4) || (op[0] == 'p' && len(f) != 5) {
					panic("bad op " + op)
				}
				x, _ := strconv.Atoi(f[0])
				var g c05ing
				g.c, _ = strconv.Atoi(f[1])
				g.s, _ = strconv.Atoi(f[2])
				g.t, _ = strconv.Atoi(f[3])
				if op[0] == 'p' {
					hp, _ := strconv.Atoi(f[4])
					if hp != 0 && hp != 1 {
						panic("bad op " + op)
					}
					g.pass = 1 + hp
					npass++
				}
				if x < 0 || x >= w.p {
					panic("bad op " + op)
				}
				w.live[x] = g
				w.touched[x] = true
			case op[0] == 'd':
				x, _ := strconv.Atoi(op[1:])
				delete(w.live, x)
				w.touched[x] = true
			case op[0] == 't':
				v, _ := strconv.Atoi(op[1:])
				w.tcp = v
				w.tcpTouched = true
			default:
				panic("bad op " + op)
			}
		}
		if len(obs) == 0 {
			return "-"
		}
		return strings.Join(obs, ";")
	}()
	return c05fxRes{args, out, append(fired, "mode_fx", fmt.Sprintf("fx_faults_%d", min(nfault, 4)), fmt.Sprintf("fx_shards_%d", n),
		"fx_queue_"+qs, fmt.Sprintf("fx_ok_updates_after_a_fault_%d", min(okAfterFault, 4)),
		fmt.Sprintf("fx_passthrough_declarations_%d", min(npass, 4)))}
}

type c05fxJobs struct {
	c    *ctx
	jobs []func() c05fxRes
}

func (j *c05fxJobs) add(queue bool, n int, want []int, ops []string) {
	names := c05NamesFor(n, want) // sequential: the shard cache is not shared with the workers
	if names == nil {
		fmt.Fprintf(os.Stderr, "C05 fx: no name with the requested shards %v\n", want)
		return
	}
	shardOf := make([]int, len(names))
	for i, cand := range names {
		shardOf[i] = c05shard(n, cand)
	}
	ops = append([]string(nil), ops...)
	j.jobs = append(j.jobs, func() c05fxRes { return c05fxRun(queue, n, names, shardOf, ops) })
}

func (j *c05fxJobs) flush() {
	workers := 6
	if v, err := strconv.Atoi(os.Getenv("C12_WORKERS")); err == nil && v > 0 {
		workers = v
	}
	res := make([]c05fxRes, len(j.jobs))
	next := make(chan int)
	done := make(chan bool)
	for w := 0; w < workers; w++ {
		go func() {
			for i := range next {
				res[i] = j.jobs[i]()
			}
			done <- true
		}()
	}
	for i := range j.jobs {
		next <- i
	}
	close(next)
	for w := 0; w < workers; w++ {
		<-done
	}
	for _, r := range res {
		j.c.emit("C05", r.args, r.out)
		for _, s := range r.stats {
			j.c.stat(s, 1)
		}
	}
	j.jobs = nil
}

func c05fxReplay(c *ctx, a []string) {
	// a = fx <queue> <n> <shards> <ops>
	if len(a) != 5 {
		return
	}
	n, err := strconv.Atoi(a[2])
	if err != nil {
		return
	}
	var want []int
	for _, s := range strings.Split(a[3], ".") {
		k, err := strconv.Atoi(s)
		if err != nil {
			return
		}
		want = append(want, k)
	}
	j := &c05fxJobs{c: c}
	j.add(a[1] == "1", n, want, strings.Split(a[4], ","))
	j.flush()
}

// ---- generators

var c05fxWriteFaults = []string{"tm", "fm", "fh", "bm", "cl", "mc", "sh"}

func c05fxCorpus(j *c05fxJobs) {
	sp := func(s string) []string { return strings.Split(s, ",") }
	for _, n := range []int{3, 0} {
		pat := c05patterns[n][:3]
		// a shard file that does not exist yet cannot be written (a directory sits there), the next update has
		// nothing new; then a no-op update
		j.add(false, n, pat, sp("i0.4.0.1,u,i1.4.0.1,u:sh0,u,u"))
		j.add(false, n, pat, sp("i0.4.0.1,i1.4.0.1,u,i0.12.0.1,u:sh2,i1.8.0.1,u,u"))
		// one per file kind: the update after the failed one carries ANOTHER change (the Lean witnesses old_success_stale_*)
		j.add(false, n, pat, sp("i0.4.0.1,i1.4.0.1,u,i0.12.0.1,u:bm,i1.8.0.1,u"))
		j.add(false, n, pat, sp("t1,i0.8.0.1,u,t2,u:tm,i0.4.0.1,u"))
		j.add(false, n, pat, sp("i0.8.0.1,u,i0.8.0.2,u:fm,i1.4.0.1,u"))
		j.add(false, n, pat, sp("i0.8.0.1,u,i0.8.0.2,u:fh,i1.4.0.1,u"))
		j.add(false, n, pat, sp("t1,i0.8.0.1,u,t2,u:cl,i0.8.0.1,u"))
		j.add(false, n, pat, sp("i0.4.0.1,u,i0.8.0.1,u:mc,i1.4.0.1,u"))
		// the same fault twice, a full resync in between
		j.add(false, n, pat, sp("i0.4.1.1,i1.5.0.2,t1,u,i0.12.0.1,u:bm,F,u:bm,u"))
		j.add(false, n, pat, sp("i0.4.1.1,i1.5.0.2,t1,u,d1,u:mc,G,u,t3,u"))
		// Shrink puts the older object back (fewer slots declared): its maps are not visited
		j.add(false, n, pat, sp("i0.4.2.1,i1.8.0.1,u,i0.4.1.1,i1.12.0.1,u,u"))
		// ACLs come and go, the match type of the second path changes (conf 3: exact)
		j.add(false, n, pat, sp("i0.4.0.1,u,i0.8.0.1,u,i0.12.0.1,u,i0.4.0.1,u:bm,u"))
		// reload queue mode
		j.add(true, n, pat, sp("i0.4.0.1,i1.4.1.1,t1,u,i0.12.0.1,u:mc,t2,u:cl,i1.8.0.3,u"))
		// ssl-passthrough hosts: the only one re-declared unchanged by a partial sync (Shrink drops the re-parsed
		// twin), then haproxy.cfg is rewritten for another reason; two of them, each re-declared once; the
		// last one goes away / turns into a plain host and comes back; full resync in between; a failed write
		j.add(false, n, pat, sp("p0.4.0.1.0,u,p0.4.0.1.0,u,i1.4.0.1,u,u"))
		j.add(false, n, pat, sp("p0.4.0.1.1,i1.4.0.1,u,p0.4.0.1.1,i1.4.0.1,u,i1.8.0.1,u"))
		j.add(false, n, pat, sp("p0.4.0.1.0,p1.8.1.2.1,u,p0.4.0.1.0,u,p1.8.1.2.1,u,i2.4.0.1,u,d0,u,d1,u,u"))
		j.add(false, n, pat, sp("p0.4.0.1.0,i1.4.0.1,u,i0.4.0.1,u,p0.4.0.1.0,u,p0.4.0.1.0,u,F,u,p0.4.0.1.0,u,i1.5.0.1,u"))
		j.add(false, n, pat, sp("p0.4.0.1.0,t1,u,p0.4.0.1.0,u:mc,i1.4.0.1,u:mc,u,p0.4.0.2.1,u:fm,u,d0,u:fh,u"))
	}
}

// every write fault x every kind of change before it x every kind of change after it
func c05fxExhaustive(j *c05fxJobs, all bool) {
	changes := [][]string{
		{"i0.12.0.1"},           // configuration of a backend (ACLs stay, another second path)
		{"i0.8.0.1"},            // ACLs go
		{"i0.5.0.1"},            // address only
		{"i0.4.0.2"},            // host only (crt-list, redirect map)
		{"i2.4.0.1"},            // new ingress
		{"d1"},                  // ingress deleted
		{"t2"},                  // tcp service
		{"i0.4.0.1", "i1.9.1.1"}, // re-declared unchanged, the other one with fewer slots
		{"F"},                   // full resync, nothing changed
		{"i1.9.2.1"},            // ONLY the other ingress, re-declared unchanged: Shrink drops its pair (seed C05f)
	}
	// the same grid with an ssl-passthrough host next to the two ingresses (declared at the start), the changes
	// being about it: re-declared unchanged, http port added, content changed, turned into a plain host, deleted
	pchanges := [][]string{
		{"p2.4.0.1.0"},              // re-declared unchanged: Shrink drops the re-parsed twin
		{"p2.4.0.1.0", "i0.4.0.1"}, // the same next to a plain host re-declared unchanged
		{"p2.4.0.1.1"},              // ssl-passthrough-http-port added
		{"p2.4.0.2.0"},              // host content
		{"p2.5.1.1.0"},              // backend address and slots only
		{"i2.4.0.1"},                // not a passthrough host anymore
		{"d2"},                      // gone
		{"i0.8.0.1"},                // another ingress changed (haproxy.cfg rewritten)
		{"F"},
	}
	ns := []int{3, 0}
	if all {
		ns = []int{3, 0, 2, 7}
	}
	for _, n := range ns {
		for _, f := range c05fxWriteFaults {
			ff := f
			if f == "sh" {
				if n == 0 {
					continue
				}
				ff = fmt.Sprintf("sh%d", c05patterns[n][0]%n)
			}
			for _, c1 := range changes {
				for i2, c2 := range changes {
					if !all && i2%2 == 1 && i2 != len(changes)-1 && f != "bm" && f != "sh" {
						continue
					}
					ops := []string{"i0.4.0.1", "i1.9.2.1", "t1", "u"}
					ops = append(ops, c1...)
					ops = append(ops, "u:"+ff)
					ops = append(ops, c2...)
					ops = append(ops, "u", "u")
					j.add(false, n, c05patterns[n][:3], ops)
				}
			}
			for i1, c1 := range pchanges {
				for i2, c2 := range pchanges {
					if !all && (i1+i2)%2 == 1 && i1 > 1 && f != "mc" && f != "fm" {
						continue
					}
					ops := []string{"i0.4.0.1", "i1.9.2.1", "p2.4.0.1.0", "t1", "u"}
					ops = append(ops, c1...)
					ops = append(ops, "u:"+ff)
					ops = append(ops, c2...)
					ops = append(ops, "u", "i1.13.2.1", "u")
					j.add(false, n, c05patterns[n][:3], ops)
				}
			}
		}
	}
	// no fault at all: every pair of changes about the passthrough host, each followed by a rewrite of haproxy.cfg
	for _, n := range ns {
		for _, c1 := range pchanges {
			for _, c2 := range pchanges {
				for _, start := range []string{"p2.4.0.1.0", "p2.4.0.1.0,p1.4.0.1.1"} {
					ops := strings.Split(start, ",")
					ops = append(ops, "u")
					ops = append(ops, c1...)
					ops = append(ops, "u")
					ops = append(ops, c2...)
					ops = append(ops, "u", "i0.12.0.2", "u")
					j.add(false, n, c05patterns[n][:3], ops)
				}
			}
		}
	}
}

func c05fxRandom(j *c05fxJobs, r *gen.Rng, count int) {
	for i := 0; i < count; i++ {
		n := gen.Pick(r, []int{0, 2, 3, 3, 7})
		p := r.Range(2, 4)
		queue := r.Chance(1, 5)
		live := map[int]c05ing{}
		tcp := 0
		var ops []string
		nb := r.Range(3, 8)
		for b := 0; b < nb; b++ {
			switch {
			case b > 0 && r.Chance(1, 8):
				if tcp != 0 && r.Chance(1, 4) {
					ops = append(ops, "G")
					tcp = 0
				} else {
					ops = append(ops, "F")
				}
			}
			for x := 0; x < p; x++ {
				g, ok := live[x]
				if !r.Chance(2, 5) && !(b == 0 && x == 0) {
					continue
				}
				switch {
				case !ok:
					g = c05ing{c: 4*r.Range(1, 4) + r.Intn(2), s: r.Intn(3), t: r.Range(1, 3)}
					if r.Chance(1, 3) {
						g.pass = r.Range(1, 2)
					}
				case r.Chance(1, 7):
					delete(live, x)
					ops = append(ops, fmt.Sprintf("d%d", x))
					continue
				default:
					switch r.Intn(9) {
					case 0, 7: // re-declared unchanged
					case 8: // ssl-passthrough comes / goes / gets its http port
						g.pass = (g.pass + r.Range(1, 2)) % 3
					case 1:
						g.c = g.c/4*4 + (g.c%4+1)%2
					case 2, 3:
						g.c = 4*r.Range(1, 4) + g.c%4
					case 4:
						g.t = r.Range(1, 3)
					case 5:
						if g.s > 0 {
							g.s--
						}
					case 6:
						g.s++
					}
				}
				live[x] = g
				if g.pass != 0 {
					ops = append(ops, fmt.Sprintf("p%d.%d.%d.%d.%d", x, g.c, g.s, g.t, g.pass-1))
					continue
				}
				ops = append(ops, fmt.Sprintf("i%d.%d.%d.%d", x, g.c, g.s, g.t))
			}
			if r.Chance(1, 4) {
				tcp = r.Range(1, 4)
				ops = append(ops, fmt.Sprintf("t%d", tcp))
			}
			f := ""
			if r.Chance(1, 2) {
				f = gen.Pick(r, c05fxWriteFaults)
				if f == "sh" {
					if n == 0 {
						f = "mc"
					} else {
						f = fmt.Sprintf("sh%d", r.Intn(n))
					}
				}
				if f == "fh" && len(live) == 0 {
					f = "fm"
				}
			}
			if f == "" {
				ops = append(ops, "u")
			} else {
				ops = append(ops, "u:"+f)
				if r.Chance(1, 4) {
					ops = append(ops, "u:"+f)
				}
				if r.Chance(1, 4) {
					ops = append(ops, "u")
				}
			}
		}
		ops = append(ops, "u")
		j.add(queue, n, c05patterns[n][:p], ops)
	}
}

func runC05fxCorpus(c *ctx) {
	j := &c05fxJobs{c: c}
	c05fxCorpus(j)
	j.flush()
}

func runC05fx(c *ctx) {
	j := &c05fxJobs{c: c}
	c05fxExhaustive(j, c.thorough())
	j.flush()
	count := 1500
	if c.thorough() {
		count = 6000
	}
	r := gen.New(c.seed).Fork().Fork()
	for count > 0 {
		k := min(count, 500)
		c05fxRandom(j, r, k)
		j.flush()
		count -= k
	}
}
