package main

// C06, mode `ann` — the annotations of ONE object declared under several annotation prefixes.
//
//   C06 ann <i|s> <prefix,prefix,...> <prefix/key=value;...|-> => <key>=<v>|<v>,... | - | PANIC
//
// --annotations-prefix may list several prefixes, the first listed wins.  The case is one Ingress (host a.local,
// path / -> service default/app:8080) and its Service; the annotations of the case line are put on the Ingress (`i`)
// or on the Service (`s`).  Every run builds the objects anew (a fresh Go map), runs the REAL converters
// (converters.NewConverter(...).Sync(): ingress converter -> readAnnotations -> readConfigKeys -> the real annotation
// updater) with ConverterOptions.AnnotationPrefix = the listed prefixes over the repository's CacheMock, and reads the
// tracer keys back from the real haproxy model:
//   balance-algorithm      backend.BalanceAlgorithm          maxconn-server  backend.Server.MaxConn
//   timeout-server         backend.Timeout.Server            app-root        host.RootRedirect   (Ingress only)
//   allowlist-source-range path.AllowedIPHTTP.Rule  (Ingress only)
// A value equal to the one of the same world without annotations is printed `-`.  The case is run k times in this
// process (Go re-randomises the iteration of every map on every range) and, for the corpus and a share of the cases,
// in child processes; the implementation output is, per tracer key the object declares, the SET of values seen.
//
// Wiring (c06.go is the lead's): runC06 calls `c06annAll(c)` after the corpus; the replayer dispatches
// `a[0] == "ann"` to `c06annReplay(c, a[1:])`.  The child processes re-exec the harness as `hv C06ANN`.

import (
	"fmt"
	"os"
	"os/exec"
	"sort"
	"strconv"
	"strings"

	networking "k8s.io/api/networking/v1"
	metav1 "k8s.io/apimachinery/pkg/apis/meta/v1"

	"github.com/jcmoraisjr/haproxy-ingress/pkg/converters"
	conv_helper "github.com/jcmoraisjr/haproxy-ingress/pkg/converters/helper_test"
	"github.com/jcmoraisjr/haproxy-ingress/pkg/converters/tracker"
	convtypes "github.com/jcmoraisjr/haproxy-ingress/pkg/converters/types"
	"github.com/jcmoraisjr/haproxy-ingress/pkg/haproxy"
	"github.com/jcmoraisjr/haproxy-ingress/pkg/utils"

	"hapverif/gen"
	"hapverif/hvutil"
)

func init() {
	// child process of a case: one run, one line `key=value,...`
	props["C06ANN"] = func(c *ctx) {
		f := strings.Fields(os.Getenv("HV_C06ANN_CHILD"))
		if len(f) != 3 {
			fmt.Fprintln(c.out, "ERR")
			return
		}
		obs, err := c06annRun(f[0], strings.Split(f[1], ","), c06annParse(f[2]))
		fmt.Fprintln(c.out, c06annLine(c06annKeys(f[0], c06annParse(f[2])), obs, err))
	}
}

var c06annTracers = []string{"balance-algorithm", "maxconn-server", "timeout-server", "app-root", "allowlist-source-range"}

// values that are valid for the key and differ from every default
var c06annValues = map[string][]string{
	"balance-algorithm":      {"leastconn", "first", "source", "random"},
	"maxconn-server":         {"10", "20", "30", "40"},
	"timeout-server":         {"11s", "12s", "13s", "14s"},
	"app-root":               {"/a", "/b", "/c", "/d"},
	"allowlist-source-range": {"10.0.0.0/8", "192.168.0.0/16", "172.16.0.0/12", "10.1.0.0/16"},
}

var c06annPrefixPool = []string{"haproxy-ingress.github.io", "ingress.kubernetes.io", "haproxy.org", "example.com", "other.io"}

func c06annTracersOf(obj string) []string {
	if obj == "s" {
		return c06annTracers[:3]
	}
	return c06annTracers
}

type c06annKV struct{ name, value string }

func c06annParse(s string) []c06annKV {
	if s == "-" || s == "" {
		return nil
	}
	var res []c06annKV
	for _, a := range strings.Split(s, ";") {
		if i := strings.Index(a, "="); i > 0 {
			res = append(res, c06annKV{a[:i], a[i+1:]})
		}
	}
	return res
}

// the tracer keys the object declares under any prefix, in tracer order
func c06annKeys(obj string, anns []c06annKV) []string {
	var keys []string
	for _, t := range c06annTracersOf(obj) {
		for _, a := range anns {
			if i := strings.Index(a.name, "/"); i >= 0 && a.name[i+1:] == t {
				keys = append(keys, t)
				break
			}
		}
	}
	return keys
}

// c06annObserve: one conversion of the world, with the annotations on the object `obj` ("" = none)
func c06annObserve(obj string, prefixes []string, anns []c06annKV) (res map[string]string, err string) {
	defer func() {
		if x := recover(); x != nil {
			err = "PANIC"
		}
	}()
	logger := &hvutil.Logger{}
	trk := tracker.NewTracker()
	cache := conv_helper.NewCacheMock(trk)
	hcfg := haproxy.CreateInstance(logger, haproxy.InstanceOptions{}).Config()
	svc, ep, _ := conv_helper.CreateService("default/app", "8080", "10.0.1.1")
	pt := networking.PathTypePrefix
	ing := &networking.Ingress{
		TypeMeta:   metav1.TypeMeta{APIVersion: "networking.k8s.io/v1", Kind: "Ingress"},
		ObjectMeta: metav1.ObjectMeta{Namespace: "default", Name: "i1"},
	}
	ing.Spec.Rules = []networking.IngressRule{{
		Host: "a.local",
		IngressRuleValue: networking.IngressRuleValue{HTTP: &networking.HTTPIngressRuleValue{Paths: []networking.HTTPIngressPath{{
			Path: "/", PathType: &pt,
			Backend: networking.IngressBackend{Service: &networking.IngressServiceBackend{
				Name: "app", Port: networking.ServiceBackendPort{Number: 8080}}},
		}}}},
	}}
	// a fresh map per run, filled in the order of the case line
	m := make(map[string]string)
	for _, a := range anns {
		m[a.name] = a.value
	}
	switch obj {
	case "i":
		ing.Annotations = m
	case "s":
		svc.Annotations = m
	}
	cache.SvcList = append(cache.SvcList, svc)
	cache.EpList["default/app"] = ep
	cache.IngList = append(cache.IngList, ing)
	opts := &convtypes.ConverterOptions{
		Cache: cache, Logger: logger, Tracker: trk, DynamicConfig: &convtypes.DynamicConfig{},
		AnnotationPrefix: prefixes,
		FakeCrtFile:      convtypes.CrtFile{Filename: "/tls/fake.pem", SHA1Hash: "1"},
	}
	changed := &convtypes.ChangedObjects{GlobalConfigMapDataNew: map[string]string{}, NeedFullSync: true}
	converters.NewConverter(utils.NewTimer(nil), hcfg, changed, opts).Sync()
	res = map[string]string{}
	backend := hcfg.Backends().Items()["default_app_8080"]
	if backend == nil {
		return nil, "ERR:no-backend"
	}
	res["balance-algorithm"] = backend.BalanceAlgorithm
	res["maxconn-server"] = strconv.Itoa(backend.Server.MaxConn)
	res["timeout-server"] = backend.Timeout.Server
	var rules []string
	for _, p := range backend.Paths {
		rules = append(rules, strings.Join(p.AllowedIPHTTP.Rule, "+"))
	}
	res["allowlist-source-range"] = strings.Join(rules, "&")
	host := hcfg.Hosts().FindHost("a.local")
	if host == nil {
		return nil, "ERR:no-host"
	}
	res["app-root"] = host.RootRedirect
	return res, ""
}

// c06annRun: the observation with defaults printed as `-`
func c06annRun(obj string, prefixes []string, anns []c06annKV) (map[string]string, string) {
	dflt, err := c06annObserve("", prefixes, nil)
	if err != "" {
		return nil, err
	}
	got, err := c06annObserve(obj, prefixes, anns)
	if err != "" {
		return nil, err
	}
	for k, v := range got {
		if v == dflt[k] || v == "" {
			got[k] = "-"
		}
	}
	return got, ""
}

func c06annLine(keys []string, obs map[string]string, err string) string {
	if err != "" {
		return err
	}
	if len(keys) == 0 {
		return "-"
	}
	items := make([]string, len(keys))
	for i, k := range keys {
		items[i] = k + "=" + sanitize(obs[k])
	}
	return strings.Join(items, ",")
}

// c06annCase: k runs in this process, procs runs in child processes
func c06annCase(c *ctx, obj string, prefixes []string, anns string, k, procs int) {
	args := "ann " + obj + " " + strings.Join(prefixes, ",") + " " + anns
	kv := c06annParse(anns)
	keys := c06annKeys(obj, kv)
	seen := map[string]map[string]bool{}
	for _, key := range keys {
		seen[key] = map[string]bool{}
	}
	for i := 0; i < k; i++ {
		obs, err := c06annRun(obj, prefixes, kv)
		if err != "" {
			if err != "PANIC" {
				err = "error:" + sanitize(err)
			}
			c.emit("C06", args, err)
			c.stat("run_error", 1)
			return
		}
		for _, key := range keys {
			seen[key][sanitize(obs[key])] = true
		}
	}
	c.stat("ann_runs", k)
	for i := 0; i < procs; i++ {
		cmd := exec.Command("/proc/self/exe", "C06ANN")
		cmd.Env = append(os.Environ(), "HV_C06ANN_CHILD="+obj+" "+strings.Join(prefixes, ",")+" "+anns)
		out, err := cmd.Output()
		c.stat("ann_child_processes", 1)
		line := ""
		for _, l := range strings.Split(string(out), "\n") {
			if l = strings.TrimSpace(l); l != "" && !strings.HasPrefix(l, "#") {
				line = l
				break
			}
		}
		if err != nil || line == "" || line == "PANIC" || strings.HasPrefix(line, "ERR") {
			c.emit("C06", args, "error:child-"+sanitize(line))
			return
		}
		if line == "-" {
			continue
		}
		for _, it := range strings.Split(line, ",") {
			if j := strings.Index(it, "="); j > 0 && seen[it[:j]] != nil {
				seen[it[:j]][it[j+1:]] = true
			}
		}
	}
	items := make([]string, len(keys))
	multi := false
	for i, key := range keys {
		vs := make([]string, 0, len(seen[key]))
		for v := range seen[key] {
			vs = append(vs, v)
		}
		sort.Strings(vs)
		multi = multi || len(vs) > 1
		items[i] = key + "=" + strings.Join(vs, "|")
	}
	out := "-"
	if len(items) > 0 {
		out = strings.Join(items, ",")
	}
	c.emit("C06", args, out)
	c.stat("cases_ann", 1)
	c.stat("ann_prefixes_"+strconv.Itoa(len(prefixes)), 1)
	if multi {
		c.stat("ann_order_dependent", 1)
	}
}

func c06annReplay(c *ctx, a []string) {
	if len(a) == 3 {
		c06annCase(c, a[0], strings.Split(a[1], ","), a[2], 64, 2)
	}
}

var c06annCorpus = []string{
	// seed C06g: one key under three listed prefixes, three values; and first == last != middle
	"i haproxy-ingress.github.io,ingress.kubernetes.io,haproxy.org haproxy.org/balance-algorithm=source;haproxy-ingress.github.io/balance-algorithm=first;ingress.kubernetes.io/balance-algorithm=leastconn",
	"i haproxy-ingress.github.io,ingress.kubernetes.io,haproxy.org haproxy-ingress.github.io/allowlist-source-range=10.0.0.0/8;ingress.kubernetes.io/allowlist-source-range=192.168.0.0/16;haproxy.org/allowlist-source-range=10.0.0.0/8",
	"s ingress.kubernetes.io,haproxy.org,example.com,haproxy-ingress.github.io haproxy-ingress.github.io/maxconn-server=40;example.com/maxconn-server=30;haproxy.org/maxconn-server=20;ingress.kubernetes.io/maxconn-server=10;other.io/maxconn-server=99",
	// the first listed prefix does not declare the key; an unlisted prefix does
	"i ingress.kubernetes.io,haproxy.org other.io/app-root=/z;haproxy.org/app-root=/b;haproxy.org/timeout-server=12s;ingress.kubernetes.io/timeout-server=11s",
	// only an unlisted prefix declares the key: unset
	"i ingress.kubernetes.io other.io/balance-algorithm=first;ingress.kubernetes.io/limit-rps=5",
}

func c06annAll(c *ctx) {
	k := 8
	if c.thorough() {
		k = 12
	}
	for _, l := range c06annCorpus {
		f := strings.Fields(l)
		c06annCase(c, f[0], strings.Split(f[1], ","), f[2], 4*k, 2)
	}
	// exhaustive small scope: n = 1..4 listed prefixes (the first n of the pool, and the reversed listing), one key,
	// every non-empty subset of the listed prefixes declares it, every assignment of values from an alphabet of
	// three; quick: Ingress/balance-algorithm, thorough: also Service/maxconn-server and Ingress/allowlist-source-range
	type target struct{ obj, key string }
	targets := []target{{"i", "balance-algorithm"}}
	if c.thorough() {
		targets = append(targets, target{"s", "maxconn-server"}, target{"i", "allowlist-source-range"})
	}
	for _, t := range targets {
		vals := c06annValues[t.key]
		for n := 1; n <= 4; n++ {
			listed := append([]string{}, c06annPrefixPool[:n]...)
			for sub := 1; sub < 1<<n; sub++ {
				var members []int
				for i := 0; i < n; i++ {
					if sub&(1<<i) != 0 {
						members = append(members, i)
					}
				}
				total := 1
				for range members {
					total *= 3
				}
				for code := 0; code < total; code++ {
					var anns []string
					x := code
					for _, i := range members {
						anns = append(anns, listed[i]+"/"+t.key+"="+vals[x%3])
						x /= 3
					}
					// written last prefix first: the declared order is not the precedence order
					for i, j := 0, len(anns)-1; i < j; i, j = i+1, j-1 {
						anns[i], anns[j] = anns[j], anns[i]
					}
					c06annCase(c, t.obj, listed, strings.Join(anns, ";"), k, 0)
					c.stat("ann_exhaustive", 1)
				}
			}
		}
	}
	// random: 1..4 listed prefixes in a random order, 1..3 tracer keys each declared under a random subset of the
	// pool (listed and unlisted prefixes) with values that are distinct or repeat, unrelated keys, shuffled
	r := gen.New(c.seed ^ 0xc06a)
	n := 200
	if c.thorough() {
		n = 1500
	}
	unrelated := []string{"limit-rps=5", "proxy-body-size=1m", "hsts=false", "cors-enable=false", "no-such-key=x", "backend-protocol=h1"}
	for i := 0; i < n; i++ {
		obj := "i"
		if r.Chance(1, 3) {
			obj = "s"
		}
		pool := append([]string{}, c06annPrefixPool...)
		gen.Shuffle(r, pool)
		listed := pool[:r.Range(1, 4)]
		tr := append([]string{}, c06annTracersOf(obj)...)
		gen.Shuffle(r, tr)
		var anns []string
		for _, key := range tr[:r.Range(1, 3)] {
			vals := c06annValues[key]
			declared := 0
			for _, p := range pool {
				// listed prefixes declare the key more often than not: conflicts are the interesting part
				if r.Chance(2, 3) {
					v := vals[r.Intn(len(vals))]
					if r.Chance(1, 4) {
						v = vals[0]
					}
					anns = append(anns, p+"/"+key+"="+v)
					declared++
				}
			}
			if declared == 0 {
				anns = append(anns, listed[len(listed)-1]+"/"+key+"="+vals[1])
			}
		}
		for j := r.Intn(3); j > 0; j-- {
			a := pool[r.Intn(len(pool))] + "/" + unrelated[r.Intn(len(unrelated))]
			dup := false
			for _, b := range anns {
				dup = dup || strings.SplitN(b, "=", 2)[0] == strings.SplitN(a, "=", 2)[0]
			}
			if !dup {
				anns = append(anns, a)
			}
		}
		gen.Shuffle(r, anns)
		procs := 0
		if i%10 == 0 {
			procs = 2
		}
		c06annCase(c, obj, listed, strings.Join(anns, ";"), k, procs)
	}
}
