package main

// C11, auth proxy ports (after seed C11g).
//
// 1. `C11 authp <lo> <hi> <op>,<op>,…`: the REAL allocator of pkg/haproxy/types/frontend.go - a hatypes.Frontend with
//    AuthProxy.RangeStart/RangeEnd = lo/hi - driven op by op against Model/C11AuthP:
//      a<b>        AcquireAuthBackendName(BackendID of backend b)
//      x<p>.<p>…   RemoveAuthBackendExcept(used), used = the names `_auth_<p>`
//      t<b>.<b>…   RemoveAuthBackendByTarget(ids of the backends)
//      c           Commit()
//    observed after every op: the answer (port of the name, `full`, `-`), Changed(), the bind list `port:backend+…`
//    (a bind whose name / socket id is not the one of its port is rendered `!bad`: unparsable).
// 2. world histories with external authentication (c11authHistory): several ingresses with `auth-url` on IP targets,
//    a small `auth-proxy` range, then batches that delete / re-target / add ingresses so that binds are released out
//    of order (holes in the port list) BEFORE the no-op events and the in-capacity endpoint changes of c11world.go.

import (
	"fmt"
	"strconv"
	"strings"

	hatypes "github.com/jcmoraisjr/haproxy-ingress/pkg/haproxy/types"

	"hapverif/gen"
)

func c11authpID(store *hatypes.Backends, b int) hatypes.BackendID {
	return store.AcquireBackend("d", "b"+strconv.Itoa(b), "80").BackendID()
}

func c11authpRun(lo, hi int, ops []string) (out string) {
	defer func() {
		if r := recover(); r != nil {
			out = "PANIC"
		}
	}()
	store := hatypes.CreateBackends(0)
	f := &hatypes.Frontend{}
	f.AuthProxy.Name = "_front__auth__local"
	f.AuthProxy.RangeStart, f.AuthProxy.RangeEnd = lo, hi
	back := map[string]int{}
	nums := func(s string) []int {
		var l []int
		if s == "" {
			return l
		}
		for _, t := range strings.Split(s, ".") {
			n, _ := strconv.Atoi(t)
			l = append(l, n)
		}
		return l
	}
	var outs []string
	for _, op := range ops {
		ans := "-"
		switch {
		case op == "c":
			f.Commit()
		case strings.HasPrefix(op, "a"):
			b, _ := strconv.Atoi(op[1:])
			id := c11authpID(store, b)
			back[id.String()] = b
			name, err := f.AcquireAuthBackendName(id)
			switch {
			case err != nil:
				ans = "full"
			case strings.HasPrefix(name, "_auth_"):
				ans = name[len("_auth_"):]
			default:
				ans = "?" + sanitize(name)
			}
		case strings.HasPrefix(op, "x"):
			used := map[string]bool{}
			for _, p := range nums(op[1:]) {
				used[fmt.Sprintf("_auth_%d", p)] = true
			}
			f.RemoveAuthBackendExcept(used)
		case strings.HasPrefix(op, "t"):
			var ids []string
			for _, b := range nums(op[1:]) {
				ids = append(ids, c11authpID(store, b).String())
			}
			f.RemoveAuthBackendByTarget(ids)
		}
		var bs []string
		for _, bind := range f.AuthProxy.BindList {
			t := strconv.Itoa(bind.LocalPort) + ":" + strconv.Itoa(back[bind.Backend.String()])
			if bind.AuthBackendName != fmt.Sprintf("_auth_%d", bind.LocalPort) || bind.SocketID != 10000+bind.LocalPort {
				t += "!bad"
			}
			bs = append(bs, t)
		}
		outs = append(outs, ans+"/"+b2s(f.Changed())+"/"+c11join(bs, "+"))
	}
	return strings.Join(outs, ";")
}

func c11authp(c *ctx, lo, hi int, ops []string) {
	if len(ops) == 0 {
		return
	}
	c.emit("C11", fmt.Sprintf("authp %d %d %s", lo, hi, strings.Join(ops, ",")), c11authpRun(lo, hi, ops))
	c.stat("authp", 1)
	c.stat("authp_ops", len(ops))
}

func c11dots(l []int) string {
	s := make([]string, len(l))
	for i, v := range l {
		s[i] = strconv.Itoa(v)
	}
	return strings.Join(s, ".")
}

func runC11authp(c *ctx, r *gen.Rng) {
	// corpus: the history of seed C11g on the allocator alone (three binds, the first one released, then the
	// no-op acquire of the backend placed behind the hole and behind another bind)
	c11authp(c, 14415, 14499, []string{"a1", "a2", "a3", "c", "t1", "a3", "a2", "a3"})
	c11authp(c, 14415, 14418, []string{"a1", "a2", "a3", "a4", "c", "a5", "x14417.14418", "a5", "c", "a4", "a3", "a5"})
	// exhaustive small scope: range 5..7 (and the empty range 5..4), backends 1..3, every sequence of `depth` ops
	// over acquire x3, remove-except of every subset of the ports, remove-by-target of one backend, commit
	alpha := []string{"a1", "a2", "a3", "t1", "t2", "t3", "c"}
	for m := 0; m < 8; m++ {
		var l []int
		for k := 0; k < 3; k++ {
			if m&(1<<k) != 0 {
				l = append(l, 5+k)
			}
		}
		alpha = append(alpha, "x"+c11dots(l))
	}
	depth := 3
	if c.thorough() {
		depth = 4
	}
	var rec func(prefix []string, d int)
	rec = func(prefix []string, d int) {
		if d == 0 {
			c11authp(c, 5, 7, prefix)
			return
		}
		for _, a := range alpha {
			rec(append(append([]string(nil), prefix...), a), d-1)
		}
	}
	// from the empty list, and from three committed binds
	rec(nil, depth)
	rec([]string{"a1", "a2", "a3", "c"}, depth)
	c.stat("authp_exhaustive_small_scope", 1)
	c11authp(c, 5, 4, []string{"a1", "x", "a1", "c", "t1"})
	// random: wider ranges, more backends, long histories with many holes
	n := 1500
	if c.thorough() {
		n = 40000
	}
	for i := 0; i < n; i++ {
		w := r.Range(1, 8)
		lo := gen.Pick(r, []int{1, 5, 14415})
		hi := lo + w - 1
		nb := r.Range(2, w+2)
		var ops []string
		for k, len := 0, r.Range(4, 24); k < len; k++ {
			switch r.Intn(8) {
			case 0:
				ops = append(ops, "c")
			case 1:
				var l []int
				for p := lo; p <= hi+1; p++ {
					if r.Chance(2, 3) {
						l = append(l, p)
					}
				}
				ops = append(ops, "x"+c11dots(l))
			case 2, 3:
				l := []int{r.Range(1, nb)}
				if r.Chance(1, 3) {
					l = append(l, r.Range(1, nb))
				}
				ops = append(ops, "t"+c11dots(l))
			default:
				ops = append(ops, "a"+strconv.Itoa(r.Range(1, nb)))
			}
		}
		c11authp(c, lo, hi, ops)
	}
}

// ---- world histories with external authentication

// minimal history of seed C11g at world level: four auth targets on a range of four ports, two ingresses deleted
// (their binds stay: IP targets are not tracked), a fifth target makes the list overflow - RemoveAuthBackendExcept
// releases the two unused binds, the new one takes the first: a hole before the binds of c and e
var c11authCorpus = []string{
	"cm~auth-proxy=_front__auth__local:14415-14418;external-has-lua=true " +
		"svc+d/a!http:80:8080!- ep~d/a!10.0.1.1:r:a-1 svc+d/b!http:80:8080!- ep~d/b!10.0.2.1:r:b-1 " +
		"svc+d/c!http:80:8080!- ep~d/c!10.0.3.1:r:c-1 svc+d/e!http:80:8080!- ep~d/e!10.0.4.1:r:e-1 " +
		"ing+d/i1@1!haproxy,-!auth-url=http://10.9.9.1:80/auth!a.local>/:Prefix:a:80!-!- " +
		"ing+d/i2@2!haproxy,-!auth-url=http://10.9.9.2:80/auth!b.local>/:Prefix:b:80!-!- " +
		"ing+d/i3@3!haproxy,-!auth-url=http://10.9.9.3:80/auth!c.local>/:Prefix:c:80!-!- " +
		"ing+d/i4@4!haproxy,-!auth-url=http://10.9.9.4:80/auth!e.local>/:Prefix:e:80!-!- sync " +
		"ing-d/i1 ing-d/i2 sync " +
		"ing+d/i1@5!haproxy,-!auth-url=http://10.9.9.5:80/auth!a.local>/:Prefix:a:80!-!- sync",
}

// c11authHistory: n services / ingresses with `auth-url` on IP targets (several ingresses may share a target), an
// `auth-proxy` range of about as many ports as targets (so that the unused binds are reclaimed out of order:
// RemoveAuthBackendExcept runs when the list overflows), then 1..4 batches that delete ingresses, give them another
// target, drop the annotation or bring a deleted ingress back.  The number of distinct targets in use never exceeds
// the range (no backend is ever denied a port).
func c11authHistory(r *gen.Rng, i int) []string {
	n := r.Range(3, 6)
	width := n
	if r.Chance(1, 3) {
		width++
	}
	if i%5 == 4 {
		width = 85 // the default range: binds are never reclaimed, no holes
	}
	cm := "external-has-lua=true"
	if width != 85 {
		cm = fmt.Sprintf("auth-proxy=_front__auth__local:14415-%d;external-has-lua=true", 14415+width-1)
	}
	if r.Chance(1, 4) {
		cm += ";slots-min-free=" + gen.Pick(r, []string{"1", "2"})
	}
	var ops []string
	if i%7 == 3 {
		ops = append(ops, "opt~shards=3")
	}
	ops = append(ops, "cm~"+cm)
	names := []string{"a", "b", "c", "e", "f", "g"}
	nextTarget := 1
	target := make([]int, n) // 0 = ingress absent, -1 = no annotation
	ts := 1
	ing := func(k int, op string) string {
		ann := "-"
		if target[k] > 0 {
			ann = fmt.Sprintf("auth-url=http://10.9.9.%d:80/auth", target[k])
		}
		ts++
		return fmt.Sprintf("ing%sd/i%d@%d!haproxy,-!%s!%s.local>/:Prefix:%s:80!-!-", op, k+1, ts, ann, names[k], names[k])
	}
	live := func() int {
		m := map[int]bool{}
		for _, t := range target {
			if t > 0 {
				m[t] = true
			}
		}
		return len(m)
	}
	for k := 0; k < n; k++ {
		eps := []string{fmt.Sprintf("10.0.%d.1:r:%s-1", k+1, names[k])}
		if r.Bool() {
			eps = append(eps, fmt.Sprintf("10.0.%d.2:r:%s-2", k+1, names[k]))
		}
		ops = append(ops, fmt.Sprintf("svc+d/%s!http:80:8080!-", names[k]), fmt.Sprintf("ep~d/%s!%s", names[k], strings.Join(eps, "+")))
	}
	for k := 0; k < n; k++ {
		if k > 0 && r.Chance(1, 6) {
			target[k] = target[r.Intn(k)] // a shared authentication service
			if target[k] <= 0 {
				target[k] = nextTarget
				nextTarget++
			}
		} else {
			target[k] = nextTarget
			nextTarget++
		}
		ops = append(ops, ing(k, "+"))
	}
	ops = append(ops, "sync")
	for b, nb := 0, r.Range(2, 4); b < nb; b++ {
		var batch []string
		for a, na := 0, r.Range(1, 3); a < na; a++ {
			k := r.Intn(n)
			if r.Chance(1, 3) {
				k = r.Intn(2) // the holders of the first ports
			}
			old := target[k]
			switch {
			case b == 0 && target[k] != 0:
				// the first batch releases: ingresses go away (their binds stay until the list overflows)
				target[k] = 0
				batch = append(batch, fmt.Sprintf("ing-d/i%d", k+1))
			case target[k] == 0:
				// a deleted ingress comes back, with a target nobody used before
				target[k] = nextTarget
				if live() > width {
					target[k] = old
					continue
				}
				nextTarget++
				batch = append(batch, ing(k, "+"))
			case r.Chance(1, 4):
				target[k] = 0
				batch = append(batch, fmt.Sprintf("ing-d/i%d", k+1))
			case r.Chance(1, 4):
				target[k] = -1
				batch = append(batch, ing(k, "~"))
			default:
				target[k] = nextTarget
				if live() > width {
					target[k] = old
					continue
				}
				nextTarget++
				batch = append(batch, ing(k, "~"))
			}
		}
		if len(batch) > 0 {
			ops = append(ops, batch...)
			ops = append(ops, "sync")
		}
	}
	return ops
}

// what a committed state holds: binds of the auth proxy, whether the port list has a hole (an unused port of the range
// below a bind) and whether some bind sits behind a hole AND behind another bind - statistics only
func c11authStats(f *hatypes.Frontend, stats map[string]int) {
	binds := f.AuthProxy.BindList
	if len(binds) == 0 {
		return
	}
	stats["world_auth_states"]++
	stats["world_auth_binds"] += len(binds)
	next := f.AuthProxy.RangeStart
	hole, deep := false, false
	for _, b := range binds {
		if hole {
			deep = true
		}
		if b.LocalPort != next {
			hole = true
		}
		next = b.LocalPort + 1
	}
	if hole {
		stats["world_auth_state_with_hole"]++
	}
	if deep {
		stats["world_auth_state_bind_behind_hole_and_bind"]++
	}
}
