package main

// C10, history mode: sequences of cluster states on ONE long-lived cache facade.
//
// The cache facade of pkg/controller/services is created once per controller process (services.go) and serves
// every reconciliation; so are the tracker and the haproxy model.  A history is a list of 2..4 cluster states;
// between two states any set of objects changes (GatewayClass created ours / foreign, deleted, deleted and
// created again with the other controllerName, parametersRef changed; Gateway moved to another class, listeners'
// allowedRoutes, namespace labels, routes' parentRefs, ...).  After every change set the controller does what the
// real one does: the v1alpha2/v1beta1 Gateway update handlers validate the old and the new object
// (IsValidGateway{A2,B1}), then a FULL sync runs (every Gateway API handler is `full: true`):
// converters.Sync = Tracker.ClearLinks + haproxy.Clear + gateway converter Sync(true, gwtyp); then Commit.
//
// Case line:  C10 h <ver> <n> (<classes> <nss> <gws> <routes> <svcs>) x n  =>  <out 1> ... <out n> <fresh>
//   the five tokens of every step are the ones of the one-snapshot mode (c10.go), the full cluster of that step
//   out i  = hosts#backends#tcps after the full sync of step i (long-lived facade, tracker, haproxy model)
//   fresh  = the one-snapshot run (c10Run: new client, new facade, new converter) on the last cluster
// The driver judges every `out i` with the attachment Spec evaluated on the cluster of step i ONLY, compares it
// with the history machine of Model/C10Hist.lean over `pureFacade`, and compares out n with fresh.

import (
	"context"
	"fmt"
	"reflect"
	"strconv"
	"strings"

	"k8s.io/apimachinery/pkg/api/meta"
	"sigs.k8s.io/controller-runtime/pkg/client"
	gatewayv1 "sigs.k8s.io/gateway-api/apis/v1"
	gatewayv1alpha2 "sigs.k8s.io/gateway-api/apis/v1alpha2"
	gatewayv1beta1 "sigs.k8s.io/gateway-api/apis/v1beta1"

	"github.com/jcmoraisjr/haproxy-ingress/pkg/controller/config"
	"github.com/jcmoraisjr/haproxy-ingress/pkg/controller/services"
	"github.com/jcmoraisjr/haproxy-ingress/pkg/converters/gateway"
	"github.com/jcmoraisjr/haproxy-ingress/pkg/converters/ingress"
	"github.com/jcmoraisjr/haproxy-ingress/pkg/converters/tracker"
	convtypes "github.com/jcmoraisjr/haproxy-ingress/pkg/converters/types"
	"github.com/jcmoraisjr/haproxy-ingress/pkg/haproxy"

	"hapverif/gen"
	"hapverif/hvutil"
)

type c10Hist struct {
	Ver   string
	Steps []*c10World
}

func (w *c10World) tokens() string { return strings.Join(strings.Fields(w.Text())[2:], " ") }

func (w *c10World) clone() *c10World {
	c, err := c10Parse(strings.Fields(w.Text())[1:])
	if err != nil {
		panic(err)
	}
	return c
}

func (h *c10Hist) Text() string {
	s := []string{"h", h.Ver, strconv.Itoa(len(h.Steps))}
	for _, w := range h.Steps {
		s = append(s, w.tokens())
	}
	return strings.Join(s, " ")
}

// c10HistParse: a = [<ver>, <n>, 5n tokens]
func c10HistParse(a []string) (*c10Hist, error) {
	if len(a) < 2 {
		return nil, fmt.Errorf("short history")
	}
	n, err := strconv.Atoi(a[1])
	if err != nil || n < 1 || len(a) != 2+5*n {
		return nil, fmt.Errorf("bad history length %q with %d tokens", a[1], len(a))
	}
	h := &c10Hist{Ver: a[0]}
	for i := 0; i < n; i++ {
		w, err := c10Parse(append([]string{a[0]}, a[2+5*i:7+5*i]...))
		if err != nil {
			return nil, err
		}
		h.Steps = append(h.Steps, w)
	}
	return h, nil
}

// ---------------------------------------------------------------- one controller life

type c10Session struct {
	ver    string
	cli    client.Client
	cache  services.VerifCache
	trk    convtypes.Tracker
	dyn    *convtypes.DynamicConfig
	cfg    *config.Config
	logger *hvutil.Logger
	hcfg   haproxy.Config
	opts   *convtypes.ConverterOptions
}

// c10NewSession: what the controller creates once: client, cache facade, tracker, haproxy model
func c10NewSession(w *c10World) *c10Session {
	s := &c10Session{ver: w.Ver, logger: &hvutil.Logger{}}
	s.cfg = &config.Config{
		AnnPrefix:      []string{"haproxy-ingress.github.io"},
		ControllerName: c10Controller,
		IngressClass:   "haproxy",
		HasGatewayA2:   true,
		HasGatewayB1:   true,
		HasGatewayV1:   true,
		HasTCPRouteA2:  true,
	}
	s.cli = c10Client(w.Objects())
	s.trk = tracker.NewTracker()
	s.dyn = &convtypes.DynamicConfig{}
	s.cache = services.VerifCreateCacheFacade(context.Background(), s.cli, s.cfg, s.trk, services.CreateSSLCerts(s.cfg), s.dyn, func(client.Object) {})
	s.hcfg = haproxy.CreateInstance(s.logger, haproxy.InstanceOptions{}).Config()
	s.opts = &convtypes.ConverterOptions{
		Logger:           s.logger,
		Cache:            s.cache,
		Tracker:          s.trk,
		DynamicConfig:    s.dyn,
		AnnotationPrefix: s.cfg.AnnPrefix,
		HasGatewayA2:     true,
		HasGatewayB1:     true,
		HasGatewayV1:     true,
		HasTCPRouteA2:    true,
	}
	return s
}

// fullSync: converters.(*converters).Sync with needFullSync, for the API version of the case, then the commit
// that instance.HAProxyUpdate ends with
func (s *c10Session) fullSync() string {
	changed := &convtypes.ChangedObjects{GlobalConfigMapDataNew: map[string]string{}, NeedFullSync: true}
	ingConv := ingress.NewIngressConverter(s.opts, s.hcfg, changed)
	gwConv := gateway.NewGatewayConverter(s.opts, s.hcfg, changed, ingConv)
	s.trk.ClearLinks()
	s.hcfg.Clear()
	var gwtyp client.Object
	switch s.ver {
	case "b1":
		gwtyp = &gatewayv1beta1.Gateway{}
	case "a2":
		gwtyp = &gatewayv1alpha2.Gateway{}
	default:
		gwtyp = &gatewayv1.Gateway{}
	}
	gwConv.Sync(true, gwtyp)
	out := c10Dump(s.hcfg)
	s.hcfg.Commit()
	return out
}

func c10ObjKey(o client.Object) string {
	return fmt.Sprintf("%T|%s/%s", o, o.GetNamespace(), o.GetName())
}

func c10ClassController(o client.Object) string {
	switch c := o.(type) {
	case *gatewayv1.GatewayClass:
		return string(c.Spec.ControllerName)
	case *gatewayv1beta1.GatewayClass:
		return string(c.Spec.ControllerName)
	case *gatewayv1alpha2.GatewayClass:
		return string(c.Spec.ControllerName)
	}
	return ""
}

// apply: turns the cluster of `prev` into the cluster of `cur`: objects that disappeared are deleted, new ones
// created, changed ones updated - but a GatewayClass whose controllerName differs is deleted and created again
// (spec.controllerName is immutable). Then the Gateway update handlers of v1alpha2/v1beta1 validate old and new.
func (s *c10Session) apply(prev, cur *c10World) error {
	ctx := context.Background()
	old := map[string]client.Object{}
	var oldOrder []string
	for _, o := range prev.Objects() {
		old[c10ObjKey(o)] = o
		oldOrder = append(oldOrder, c10ObjKey(o))
	}
	seen := map[string]bool{}
	type upd struct{ o, n client.Object }
	var gwUpd []upd
	for _, n := range cur.Objects() {
		k := c10ObjKey(n)
		seen[k] = true
		o, ok := old[k]
		switch {
		case !ok:
			if err := s.cli.Create(ctx, n); err != nil {
				return fmt.Errorf("create %s: %w", k, err)
			}
		case reflect.DeepEqual(o, n):
		case c10ClassController(o) != c10ClassController(n):
			if err := s.cli.Delete(ctx, o); err != nil {
				return fmt.Errorf("delete %s: %w", k, err)
			}
			if err := s.cli.Create(ctx, n); err != nil {
				return fmt.Errorf("re-create %s: %w", k, err)
			}
		default:
			live := n.DeepCopyObject().(client.Object)
			if err := s.cli.Get(ctx, client.ObjectKeyFromObject(n), live); err != nil {
				return fmt.Errorf("get %s: %w", k, err)
			}
			upd_ := n.DeepCopyObject().(client.Object)
			upd_.SetResourceVersion(live.GetResourceVersion())
			if err := s.cli.Update(ctx, upd_); err != nil {
				return fmt.Errorf("update %s: %w", k, err)
			}
			gwUpd = append(gwUpd, upd{o, n})
		}
	}
	for _, k := range oldOrder {
		if !seen[k] {
			if err := s.cli.Delete(ctx, old[k]); err != nil {
				return fmt.Errorf("delete %s: %w", k, err)
			}
		}
	}
	// reconciler/watchers.go handlersGatewayv1alpha2 / handlersGatewayv1beta1: upd validates both objects
	for _, u := range gwUpd {
		switch o := u.o.(type) {
		case *gatewayv1alpha2.Gateway:
			s.cache.IsValidGatewayA2(o)
			s.cache.IsValidGatewayA2(u.n.(*gatewayv1alpha2.Gateway))
		case *gatewayv1beta1.Gateway:
			s.cache.IsValidGatewayB1(o)
			s.cache.IsValidGatewayB1(u.n.(*gatewayv1beta1.Gateway))
		}
	}
	return nil
}

func c10HistRun(h *c10Hist) (out string) {
	defer func() {
		if r := recover(); r != nil {
			out = "PANIC:" + strings.Join(strings.Fields(fmt.Sprint(r)), "_")
		}
	}()
	var outs []string
	s := c10NewSession(h.Steps[0])
	outs = append(outs, s.fullSync())
	for i := 1; i < len(h.Steps); i++ {
		if err := s.apply(h.Steps[i-1], h.Steps[i]); err != nil {
			panic(err)
		}
		outs = append(outs, s.fullSync())
	}
	fresh := c10Run(h.Steps[len(h.Steps)-1])
	if strings.HasPrefix(fresh, "PANIC") {
		return fresh
	}
	return strings.Join(append(outs, fresh), " ")
}

var _ = meta.Accessor

func c10histCase(c *ctx, h *c10Hist) {
	out := c10HistRun(h)
	c.emit("C10", h.Text(), out)
	c.stat("hist", 1)
	c.stat("hist_ver_"+h.Ver, 1)
	c.stat(fmt.Sprintf("hist_steps_%d", len(h.Steps)), 1)
	if strings.HasPrefix(out, "PANIC") {
		c.stat("panics", 1)
		return
	}
	p := strings.Fields(out)
	varies, nonempty := false, false
	for i := 0; i+1 < len(p); i++ {
		if p[i] != "-#-#-" {
			nonempty = true
		}
		if i > 0 && p[i] != p[i-1] {
			varies = true
		}
	}
	if varies {
		c.stat("hist_output_varies", 1)
	}
	if nonempty {
		c.stat("hist_output_nonempty", 1)
	}
	clsChange := false
	for i := 1; i < len(h.Steps); i++ {
		if !reflect.DeepEqual(h.Steps[i].Classes, h.Steps[i-1].Classes) {
			clsChange = true
		}
	}
	if clsChange {
		c.stat("hist_gatewayclass_changes", 1)
	}
}

// ---------------------------------------------------------------- generators

// c10HistTemplate: one gateway g/gw1 (listener l1 HTTP:80), one HTTPRoute o/r1 -> g/gw1; class `cx` is the one
// that changes, `own` is always ours, `oth` always foreign
func c10HistTemplate(ver, cx, gwcls, from, sel, olabels, parent string) *c10World {
	w := &c10World{Ver: ver, Classes: [][2]string{{"own", "o"}, {"oth", "f"}},
		NSs: [][2]string{{"g", "env=prod+team=a"}, {"o", olabels}},
		GWs: []c10Gateway{{"g", "gw1", gwcls, []c10Listener{{"l1", "-", "HTTP", 80, "-", from, sel}}}},
		Routes: []c10Route{{NS: "o", Name: "r1", TS: 1, Parents: []c10ParentRef{{"-", "-", "g", parent, "-"}},
			Hostnames: []string{"a.local"}, Rules: []c10Rule{{Refs: []c10BRef{{"s1", "8080", "-"}}}}}},
		Svcs: c10StdSvcs()}
	if cx != "-" {
		w.Classes = append(w.Classes, [2]string{"cx", cx})
	}
	return w
}

// c10HistClasses: exhaustive small scope over the GatewayClass dimension: per step the state of class `cx`
// {ours, ours with parametersRef, foreign, absent} x the class the Gateway names {cx, own, oth}; every sequence
// of the given length
func c10HistClasses(c *ctx, ver string, length, step int) {
	cxs := []string{"o", "o1", "f", "-"}
	gcs := []string{"cx", "own", "oth"}
	states := len(cxs) * len(gcs)
	total := 1
	for i := 0; i < length; i++ {
		total *= states
	}
	for n := 0; n < total; n++ {
		if n%step != 0 {
			continue
		}
		h := &c10Hist{Ver: ver}
		for i, k := 0, n; i < length; i, k = i+1, k/states {
			st := k % states
			h.Steps = append(h.Steps, c10HistTemplate(ver, cxs[st%len(cxs)], gcs[st/len(cxs)], "A", "N", "env=dev", "gw1"))
		}
		c10histCase(c, h)
		c.stat("hist_small_classes", 1)
	}
}

// c10HistRules: exhaustive small scope over the other admission dimensions along a history: class `cx` {ours,
// foreign} (the Gateway always names it) x listener rule/namespace labels {All, Selector env=prod with the route
// namespace labelled prod / dev} x parentRef {gw1, a gateway that does not exist}
func c10HistRules(c *ctx, length, step int) {
	type st struct{ cx, from, sel, lbl, parent string }
	var states []st
	for _, cx := range []string{"o", "f"} {
		for _, fr := range [][3]string{{"A", "N", "env=dev"}, {"L", "env=prod", "env=prod"}, {"L", "env=prod", "env=dev"}} {
			for _, p := range []string{"gw1", "gw2"} {
				states = append(states, st{cx, fr[0], fr[1], fr[2], p})
			}
		}
	}
	total := 1
	for i := 0; i < length; i++ {
		total *= len(states)
	}
	for n := 0; n < total; n++ {
		if n%step != 0 {
			continue
		}
		h := &c10Hist{Ver: "v1"}
		for i, k := 0, n; i < length; i, k = i+1, k/len(states) {
			s := states[k%len(states)]
			h.Steps = append(h.Steps, c10HistTemplate("v1", s.cx, "cx", s.from, s.sel, s.lbl, s.parent))
		}
		c10histCase(c, h)
		c.stat("hist_small_rules", 1)
	}
}

var c10ClassNames = []string{"hap", "oth", "hap2", "nil"}

// c10HistBase: a world where most routes attach (so that a later change has something to take away)
func c10HistBase(r *gen.Rng) *c10World {
	w := &c10World{Ver: "v1", Classes: [][2]string{{"hap", "o"}, {"oth", "f"}},
		NSs: [][2]string{{"g", "env=prod+team=a"}, {"o", "env=dev"}, {"p", "-"}}, Svcs: c10StdSvcs()}
	if r.Bool() {
		w.Classes = append(w.Classes, [2]string{"hap2", gen.Pick(r, []string{"o", "o1", "f"})})
	}
	ngw := r.Range(1, 2)
	for j := 0; j < ngw; j++ {
		g := c10Gateway{NS: gen.Pick(r, []string{"g", "g", "o"}), Name: fmt.Sprintf("gw%d", j+1),
			Class: gen.Pick(r, []string{"hap", "hap", "hap", "hap2", "oth"})}
		for k, nl := 0, r.Range(1, 2); k < nl; k++ {
			fs := gen.Pick(r, [][2]string{{"A", "N"}, {"A", "N"}, {"S", "N"}, {"L", "env=prod"}, {"L", "env:In:dev.prod"}, {"L", "team:Exists:"}})
			l := c10Listener{Name: fmt.Sprintf("l%d", k+1), Host: gen.Pick(r, []string{"-", "-", "*", "a.local"}),
				Proto: "HTTP", Port: 80 + k, Kinds: gen.Pick(r, []string{"-", "-", "n:HTTPRoute", "n:HTTPRoute+n:TCPRoute"}), From: fs[0], Sel: fs[1]}
			if r.Chance(1, 4) {
				l.Proto, l.Port = "TCP", 9000+k
			}
			g.Listeners = append(g.Listeners, l)
		}
		w.GWs = append(w.GWs, g)
	}
	for j, nr := 0, r.Range(1, 3); j < nr; j++ {
		rt := c10Route{TCP: r.Chance(1, 5), NS: gen.Pick(r, []string{"g", "g", "o"}), Name: fmt.Sprintf("r%d", j+1), TS: r.Range(1, 3)}
		for k, np := 0, r.Range(1, 2); k < np; k++ {
			g := gen.Pick(r, w.GWs)
			p := c10ParentRef{Group: "-", Kind: "-", NS: g.NS, Name: g.Name, Section: gen.Pick(r, []string{"-", "-", "-", "l1", "l2"})}
			if g.NS == rt.NS && r.Bool() {
				p.NS = "-"
			}
			rt.Parents = append(rt.Parents, p)
		}
		if !rt.TCP && r.Bool() {
			rt.Hostnames = []string{gen.Pick(r, []string{"a.local", "b.local"})}
		}
		ru := c10Rule{Refs: []c10BRef{{gen.Pick(r, []string{"s1", "s2"}), "8080", gen.Pick(r, []string{"-", "1", "3"})}}}
		if !rt.TCP && r.Bool() {
			ru.Matches = []c10Match{{gen.Pick(r, []string{"P", "E"}), gen.Pick(r, []string{"/app", "/x"}), "-"}}
		}
		rt.Rules = []c10Rule{ru}
		w.Routes = append(w.Routes, rt)
	}
	return w
}

// c10MutClass: create ours / create foreign / delete / re-create under the other controllerName / change parametersRef
func c10MutClass(r *gen.Rng, w *c10World) {
	names := append([]string{}, c10ClassNames...)
	for _, g := range w.GWs { // prefer a class some Gateway names
		names = append(names, g.Class, g.Class)
	}
	name := gen.Pick(r, names)
	idx := -1
	for i, c := range w.Classes {
		if c[0] == name {
			idx = i
		}
	}
	if idx < 0 {
		w.Classes = append(w.Classes, [2]string{name, gen.Pick(r, []string{"o", "o1", "f"})})
		return
	}
	cur := w.Classes[idx][1]
	switch r.Intn(4) {
	case 0: // delete
		w.Classes = append(w.Classes[:idx], w.Classes[idx+1:]...)
	case 1: // parametersRef
		if len(cur) > 1 {
			w.Classes[idx][1] = cur[:1]
		} else {
			w.Classes[idx][1] = cur + gen.Pick(r, []string{"1", "2"})
		}
	default: // handed over to the other controller
		if strings.HasPrefix(cur, "o") {
			w.Classes[idx][1] = gen.Pick(r, []string{"f", "f", "f1"})
		} else {
			w.Classes[idx][1] = gen.Pick(r, []string{"o", "o", "o1"})
		}
	}
}

// c10Mutate: one change of the cluster; `what` selects the family
func c10Mutate(r *gen.Rng, w *c10World, what int) {
	switch what {
	case 0:
		c10MutClass(r, w)
	case 1: // a Gateway names another class
		if len(w.GWs) > 0 {
			g := &w.GWs[r.Intn(len(w.GWs))]
			g.Class = gen.Pick(r, c10ClassNames)
		}
	case 2: // allowedRoutes of a listener
		if len(w.GWs) > 0 {
			g := &w.GWs[r.Intn(len(w.GWs))]
			if len(g.Listeners) > 0 {
				l := &g.Listeners[r.Intn(len(g.Listeners))]
				switch r.Intn(3) {
				case 0:
					l.Kinds = gen.Pick(r, c10KindsDim)
				case 1:
					fs := gen.Pick(r, c10FromDim)
					l.From, l.Sel = fs[0], fs[1]
				default:
					l.Proto = gen.Pick(r, []string{"HTTP", "TCP", "HTTPS", "TLS", "UDP"})
				}
				if l.Kinds == "N" {
					l.From, l.Sel = "N", "N"
				} else if l.From == "N" && l.Sel != "N" {
					l.Sel = "N"
				}
			}
		}
	case 3: // namespace labels / Namespace object
		names := []string{"g", "o", "p"}
		name := gen.Pick(r, names)
		idx := -1
		for i, n := range w.NSs {
			if n[0] == name {
				idx = i
			}
		}
		lbl := gen.Pick(r, []string{"env=prod+team=a", "env=dev", "env=prod", "team=a", "-"})
		if idx < 0 {
			w.NSs = append(w.NSs, [2]string{name, lbl})
		} else if r.Chance(1, 6) {
			w.NSs = append(w.NSs[:idx], w.NSs[idx+1:]...)
		} else {
			w.NSs[idx][1] = lbl
		}
	case 4: // parentRefs of a route
		if len(w.Routes) > 0 {
			rt := &w.Routes[r.Intn(len(w.Routes))]
			newRef := func() c10ParentRef {
				p := c10ParentRef{Group: "-", Kind: "-", NS: gen.Pick(r, []string{"-", "g", "o", "e"}), Name: gen.Pick(r, []string{"gw1", "gw2", "gw3"}),
					Section: gen.Pick(r, []string{"-", "-", "l1", "l2", "zz"})}
				if len(w.GWs) > 0 && r.Chance(2, 3) {
					g := gen.Pick(r, w.GWs)
					p.NS, p.Name = g.NS, g.Name
				}
				if r.Chance(1, 10) {
					p.Kind = gen.Pick(r, []string{"G", "S", "e"})
				}
				return p
			}
			switch {
			case len(rt.Parents) == 0 || (len(rt.Parents) < 3 && r.Chance(1, 3)):
				rt.Parents = append(rt.Parents, newRef())
			case r.Chance(1, 4):
				i := r.Intn(len(rt.Parents))
				rt.Parents = append(rt.Parents[:i], rt.Parents[i+1:]...)
			default:
				rt.Parents[r.Intn(len(rt.Parents))] = newRef()
			}
		}
	case 5: // a route or a gateway goes away
		if len(w.Routes) > 1 && r.Bool() {
			i := r.Intn(len(w.Routes))
			w.Routes = append(w.Routes[:i], w.Routes[i+1:]...)
		} else if len(w.GWs) > 1 {
			i := r.Intn(len(w.GWs))
			w.GWs = append(w.GWs[:i], w.GWs[i+1:]...)
		}
	case 6: // endpoints of a service
		if len(w.Svcs) > 0 {
			s := &w.Svcs[r.Intn(len(w.Svcs))]
			if len(s.Ports) > 0 {
				p := &s.Ports[r.Intn(len(s.Ports))]
				k := r.Intn(3)
				p.Eps = nil
				for j := 0; j < k; j++ {
					p.Eps = append(p.Eps, fmt.Sprintf("10.2.0.%d:%d", j+1, p.Port))
				}
			}
		}
	}
}

// c10HistRandom: a base world, then 1..3 change sets of 1..3 changes each; half of the change sets start with a
// GatewayClass change
func c10HistRandom(c *ctx, r *gen.Rng, n int) {
	for i := 0; i < n; i++ {
		var w *c10World
		if r.Chance(1, 3) {
			w = c10RandWorld(r)
		} else {
			w = c10HistBase(r)
		}
		switch r.Intn(10) {
		case 0:
			w.Ver = "b1"
		case 1:
			w.Ver = "a2"
		}
		h := &c10Hist{Ver: w.Ver, Steps: []*c10World{w}}
		for s, ns := 0, r.Range(1, 3); s < ns; s++ {
			w = w.clone()
			nops := r.Range(1, 3)
			for k := 0; k < nops; k++ {
				what := r.Intn(7)
				if k == 0 && r.Bool() {
					what = 0
				}
				c10Mutate(r, w, what)
				c.stat(fmt.Sprintf("hist_mut_%d", what), 1)
			}
			h.Steps = append(h.Steps, w)
		}
		c10histCase(c, h)
		c.stat("hist_random", 1)
	}
}

func c10HistCorpus(c *ctx) {
	lines := []string{
		// GatewayClass handed over to another controller (deleted, created again with a foreign controllerName)
		// while the Gateway and the route stay: nothing may be published afterwards (seed C10f)
		"h v1 2 public:o default:- default/web@public!http~-~HTTP~80~-~S~N H:default/web@1!-~-~-~web~-!app.local!-^echoserver~8080~- default/echoserver!8080=172.17.0.11:8080" +
			" public:f default:- default/web@public!http~-~HTTP~80~-~S~N H:default/web@1!-~-~-~web~-!app.local!-^echoserver~8080~- default/echoserver!8080=172.17.0.11:8080",
		// ... the class simply deleted, then created again as ours
		"h b1 3 public:o default:- default/web@public!http~-~HTTP~80~-~S~N H:default/web@1!-~-~-~web~-!app.local!-^echoserver~8080~- default/echoserver!8080=172.17.0.11:8080" +
			" - default:- default/web@public!http~-~HTTP~80~-~S~N H:default/web@1!-~-~-~web~-!app.local!-^echoserver~8080~- default/echoserver!8080=172.17.0.11:8080" +
			" public:o1 default:- default/web@public!http~-~HTTP~80~-~S~N H:default/web@1!-~-~-~web~-!app.local!-^echoserver~8080~- default/echoserver!8080=172.17.0.11:8080",
	}
	for _, l := range lines {
		h, err := c10HistParse(strings.Fields(l)[1:])
		if err != nil {
			panic(err)
		}
		c10histCase(c, h)
		c.stat("hist_corpus", 1)
	}
}

func c10Histories(c *ctx, r *gen.Rng) {
	c10HistCorpus(c)
	if c.thorough() {
		for _, ver := range []string{"v1", "b1", "a2"} {
			c10HistClasses(c, ver, 2, 1)
		}
		c10HistClasses(c, "v1", 3, 1)
		c10HistClasses(c, "v1", 4, 1)
		c10HistClasses(c, "a2", 3, 1)
		c10HistRules(c, 2, 1)
		c10HistRules(c, 3, 1)
		c10HistRandom(c, r, 30000)
		c.stat("exhaustive_history_products", 1)
	} else {
		for _, ver := range []string{"v1", "b1", "a2"} {
			c10HistClasses(c, ver, 2, 1)
		}
		c10HistClasses(c, "v1", 3, 1)
		c10HistClasses(c, "v1", 4, 17)
		c10HistRules(c, 2, 1)
		c10HistRules(c, 3, 7)
		c10HistRandom(c, r, 3000)
	}
}
