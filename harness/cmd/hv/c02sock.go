package main

// C02, mode `sock`: the REAL haproxy.Instance (external mode) with its REAL socket clients
// (pkg/haproxy/connections.go: which socket is opened how; pkg/haproxy/socket/socket.go: the wire protocol)
// against a simulated HAProxy that listens on REAL unix sockets (master socket + admin socket in the scratch
// directory of the pipeline, under os.TempDir(), removed with it).
//
// The simulated HAProxy keeps WORKER GENERATIONS: every accepted `reload` on the master socket starts a new
// worker that loads the files on disk (harness/world Sim: the same loader and the same `set server` /
// `set ssl cert` semantics as the other C02 modes). A CLI connection is served by the worker that ACCEPTED it
// for as long as it stays open - this is what HAProxy does: after a reload the former worker stops listening but
// keeps serving its established connections (connections.TrackCurrentInstance relies on it) - so a command
// changes the tables of the generation its connection is bound to and of no other.
//
// Case line:  C02 sock <faults> <ops...>  =>  <step>|<step>|...
//   step   = <kind>!<events>!<running>!<disk>          kind = reload | dyn | noop | err
//   events = what the simulated HAProxy saw during the reconcile, in order, comma separated:
//              o<c>                       admin connection <c> accepted (served by the newest worker from now on)
//              x<c>                       admin connection <c> ended
//              p<c>                       `prompt`
//              a<c>~be~srv~ip~port        `set server be/srv addr ip port port`
//              s<c>~be~srv~state          `set server be/srv state ready|drain|maint`
//              w<c>~be~srv~weight         `set server be/srv weight n`
//              c<c>~file~id               `set ssl cert file <<payload` (id = identity of the payload)
//              m<c>~file                  `commit ssl cert file`
//              q<c>                       any other command (no effect on the tables)
//              B<c>                       the command that follows is NOT executed and answered `No such server.` (fault)
//              R<table>                   `reload` on the master socket: a new worker that loaded <table>
//              F                          `reload` refused: the files do not load, no new worker
//   table  = <servers>^<certificates>;  servers = be=row+row;be=row…  row = srv~ip~port~state~weight;  certificates = file~id+…
//   running = table of the NEWEST worker after the reconcile, disk = what the files on disk would load now.
// faults = `-` or b<n>,… (the n-th runtime command, 0 based, is refused) or r<n> (the n-th `reload` request on the
// master socket, 0 based, is refused once: event F, no new worker).
//
// The Lean side (Model/C02Sock.lean, Drv/C02Sock.lean) replays the events on its model of generations and
// connections, compares its newest table with <running> (agreement; also: no command reached a former worker and
// no admin connection was open across a reload - the discipline of the code as it is, keep-alive off, pinned by
// facts_c02_sock) and evaluates the Spec on the implementation's output: running = disk after every reconcile.

import (
	"bufio"
	"crypto/sha1"
	"fmt"
	"net"
	"os"
	"path/filepath"
	"sort"
	"strconv"
	"strings"
	"sync"
	"syscall"

	"github.com/jcmoraisjr/haproxy-ingress/pkg/haproxy"

	"hapverif/gen"
	"hapverif/world"
)

// one worker generation: a world.Sim that loaded the files once (generation 0: nothing loaded yet)
type c02worker struct {
	n   int
	sim *world.Sim
}

type c02conn struct {
	id     int
	conn   net.Conn
	worker *c02worker
	closed bool // `x` recorded
}

type c02hap struct {
	mu       sync.Mutex
	dir      string // scratch directory of the pipeline (stripped from file names)
	cfgDir   string
	adminLn  net.Listener
	masterLn net.Listener
	workers  []*c02worker
	conns    []*c02conn // admin connections, by id
	events   []string
	reloadTr int
	failed   int
	rtCmds   int            // runtime commands seen so far (fault index)
	faults   map[int]string // n-th runtime command -> answer (not executed)
	stale    int            // runtime commands executed by a former worker
	wg       sync.WaitGroup
	all      []net.Conn
}

func c02startHap(dir, cfgDir string, faults map[int]string) (*c02hap, error) {
	h := &c02hap{dir: dir, cfgDir: cfgDir, faults: faults}
	h.workers = []*c02worker{{0, world.NewSim(cfgDir)}}
	var err error
	if h.adminLn, err = net.Listen("unix", filepath.Join(dir, "admin.sock")); err != nil {
		return nil, err
	}
	if h.masterLn, err = net.Listen("unix", filepath.Join(dir, "master.sock")); err != nil {
		h.adminLn.Close()
		return nil, err
	}
	h.wg.Add(2)
	go h.acceptLoop(h.adminLn, false)
	go h.acceptLoop(h.masterLn, true)
	return h, nil
}

func (h *c02hap) stop() {
	h.adminLn.Close()
	h.masterLn.Close()
	h.mu.Lock()
	for _, c := range h.all {
		c.Close()
	}
	h.mu.Unlock()
	h.wg.Wait()
	os.Remove(filepath.Join(h.dir, "admin.sock"))
	os.Remove(filepath.Join(h.dir, "master.sock"))
}

func (h *c02hap) acceptLoop(ln net.Listener, master bool) {
	defer h.wg.Done()
	for {
		conn, err := ln.Accept()
		if err != nil {
			return
		}
		h.mu.Lock()
		h.all = append(h.all, conn)
		h.wg.Add(1)
		if master {
			go h.serveMaster(conn)
		} else {
			h.settleLocked()
			c := &c02conn{id: len(h.conns), conn: conn, worker: h.workers[len(h.workers)-1]}
			h.conns = append(h.conns, c)
			h.events = append(h.events, "o"+strconv.Itoa(c.id))
			go h.serveAdmin(c)
		}
		h.mu.Unlock()
	}
}

// peerClosed: the client has closed its end and nothing is left to read (peek without consuming, without blocking)
func peerClosed(conn net.Conn) bool {
	uc, ok := conn.(*net.UnixConn)
	if !ok {
		return false
	}
	rc, err := uc.SyscallConn()
	if err != nil {
		return false
	}
	closed := false
	_ = rc.Control(func(fd uintptr) {
		var b [1]byte
		n, _, err := syscall.Recvfrom(int(fd), b[:], syscall.MSG_PEEK|syscall.MSG_DONTWAIT)
		closed = n == 0 && err == nil
	})
	return closed
}

// settleLocked records the end of every admin connection the client has closed, before the next event is
// recorded: the order of the events does not depend on goroutine scheduling (the client is sequential)
func (h *c02hap) settleLocked() {
	for _, c := range h.conns {
		if !c.closed && peerClosed(c.conn) {
			c.closed = true
			h.events = append(h.events, "x"+strconv.Itoa(c.id))
		}
	}
}

func (h *c02hap) endConn(c *c02conn) {
	h.mu.Lock()
	if !c.closed {
		c.closed = true
		h.events = append(h.events, "x"+strconv.Itoa(c.id))
	}
	h.mu.Unlock()
}

// readCommand reads one CLI command: a line, plus the payload up to the first empty line when it ends with `<<`
func readCommand(rd *bufio.Reader) (string, error) {
	line, err := rd.ReadString('\n')
	if err != nil {
		return "", err
	}
	cmd := strings.TrimRight(line, "\r\n")
	if !strings.HasSuffix(cmd, "<<") {
		return cmd, nil
	}
	cmd += "\n"
	for {
		l, err := rd.ReadString('\n')
		if err != nil {
			return "", err
		}
		if l == "\n" {
			return cmd, nil
		}
		cmd += l
	}
}

func (h *c02hap) serveAdmin(c *c02conn) {
	defer h.wg.Done()
	defer c.conn.Close()
	defer h.endConn(c)
	rd := bufio.NewReader(c.conn)
	interactive := false
	for {
		cmd, err := readCommand(rd)
		if err != nil {
			return
		}
		if strings.TrimSpace(cmd) == "" {
			continue
		}
		resp := ""
		if strings.TrimSpace(cmd) == "prompt" {
			interactive = !interactive
			h.mu.Lock()
			h.events = append(h.events, "p"+strconv.Itoa(c.id))
			h.mu.Unlock()
		} else {
			resp = h.adminCmd(c, cmd)
		}
		if resp != "" && !strings.HasSuffix(resp, "\n") {
			resp += "\n"
		}
		if !interactive {
			// non interactive: the answer, an empty line, and the worker closes the connection
			_, _ = c.conn.Write([]byte(resp + "\n"))
			return
		}
		if _, err := c.conn.Write([]byte(resp + "\n> ")); err != nil {
			return
		}
	}
}

func (h *c02hap) rel(f string) string { return strings.TrimPrefix(f, h.dir) }

// certID: identity of a certificate payload / file content, independent of blank lines
func certID(content string) string {
	if n, ok := world.ContentName(content); ok {
		return n
	}
	var ls []string
	for _, l := range strings.Split(content, "\n") {
		if strings.TrimSpace(l) != "" {
			ls = append(ls, strings.TrimSpace(l))
		}
	}
	return fmt.Sprintf("h%x", sha1.Sum([]byte(strings.Join(ls, "\n"))))[:9]
}

func c02tok(s string) string {
	if s == "" {
		return "_"
	}
	return strings.NewReplacer(" ", "_", "\t", "_", "\n", "_", ",", "_", "!", "_", "|", "_", "~", "_", "+", "_", ";", "_", "^", "_", "=", "_").Replace(s)
}

// adminCmd: one command on connection c: recorded, then executed by the worker the connection is bound to
func (h *c02hap) adminCmd(c *c02conn, cmd string) string {
	h.mu.Lock()
	defer h.mu.Unlock()
	id := strconv.Itoa(c.id)
	f := strings.Fields(cmd)
	ev := "q" + id
	runtime := false
	switch {
	case len(f) >= 5 && f[0] == "set" && f[1] == "server":
		runtime = true
		bs := strings.SplitN(f[2], "/", 2)
		if len(bs) == 2 {
			switch {
			case f[3] == "addr" && len(f) >= 7 && f[5] == "port":
				ev = "a" + id + "~" + c02tok(bs[0]) + "~" + c02tok(bs[1]) + "~" + c02tok(f[4]) + "~" + c02tok(f[6])
			case f[3] == "state":
				ev = "s" + id + "~" + c02tok(bs[0]) + "~" + c02tok(bs[1]) + "~" + c02tok(f[4])
			case f[3] == "weight":
				ev = "w" + id + "~" + c02tok(bs[0]) + "~" + c02tok(bs[1]) + "~" + c02tok(f[4])
			}
		}
	case len(f) >= 4 && f[0] == "set" && f[1] == "ssl" && f[2] == "cert":
		runtime = true
		payload := ""
		if i := strings.Index(cmd, "<<\n"); i >= 0 {
			payload = cmd[i+3:]
		}
		ev = "c" + id + "~" + c02tok(h.rel(f[3])) + "~" + c02tok(certID(payload))
	case len(f) >= 4 && f[0] == "commit" && f[1] == "ssl" && f[2] == "cert":
		runtime = true
		ev = "m" + id + "~" + c02tok(h.rel(f[3]))
	}
	if runtime {
		n := h.rtCmds
		h.rtCmds++
		if bad, ok := h.faults[n]; ok {
			h.events = append(h.events, "B"+id, ev)
			return bad
		}
		if c.worker != h.workers[len(h.workers)-1] {
			h.stale++
		}
	}
	h.events = append(h.events, ev)
	out, err := c.worker.sim.Admin().Send(nil, cmd)
	if err != nil || len(out) != 1 {
		return ""
	}
	return out[0]
}

func (h *c02hap) serveMaster(conn net.Conn) {
	defer h.wg.Done()
	defer conn.Close()
	rd := bufio.NewReader(conn)
	line, err := rd.ReadString('\n')
	if err != nil {
		return
	}
	resp := ""
	switch strings.TrimSpace(line) {
	case "reload":
		h.mu.Lock()
		h.settleLocked()
		h.reloadTr++
		w := &c02worker{len(h.workers), world.NewSim(h.cfgDir)}
		if _, refuse := h.faults[-h.reloadTr]; !refuse {
			_, _ = w.sim.Master().Send(nil, "reload")
		}
		if w.sim.Reloads == 1 {
			h.failed = 0
			h.workers = append(h.workers, w)
			h.events = append(h.events, "R"+h.tableText(w.sim))
		} else {
			h.failed++
			h.events = append(h.events, "F")
		}
		h.mu.Unlock()
	case "show proc":
		h.mu.Lock()
		resp = fmt.Sprintf("#<PID>          <type>          <reloads>       <uptime>        <version>\n"+
			"1               master          %d [failed: %d] 0d00h01m28s     2.6.0-sim\n"+
			"# workers\n"+
			"%-16dworker          0               0d00h00m00s     2.6.0-sim\n"+
			"# old workers\n# programs\n", h.reloadTr, h.failed, 2+len(h.workers))
		h.mu.Unlock()
	}
	_, _ = conn.Write([]byte(resp + "\n"))
}

// tableText: `<servers>^<certificates>` of one loaded configuration (raw rows, file order inside a backend)
func (h *c02hap) tableText(s *world.Sim) string {
	var bes []string
	for _, be := range world.SortedKeys(s.Table) {
		var rows []string
		for _, x := range s.Table[be] {
			rows = append(rows, strings.Join([]string{c02tok(x.Name), c02tok(x.Addr), strconv.Itoa(x.Port), c02tok(x.State), strconv.Itoa(x.Weight)}, "~"))
		}
		bes = append(bes, c02tok(be)+"="+strings.Join(rows, "+"))
	}
	var crts []string
	for f, content := range s.Certs {
		crts = append(crts, c02tok(h.rel(f))+"~"+c02tok(certID(content)))
	}
	sort.Strings(crts)
	t1, t2 := "-", "-"
	if len(bes) > 0 {
		t1 = strings.Join(bes, ";")
	}
	if len(crts) > 0 {
		t2 = strings.Join(crts, "+")
	}
	return t1 + "^" + t2
}

// step closes one reconcile: the events seen, the table of the newest worker, the table the files would load
func (h *c02hap) step() (events []string, running, disk string, err error) {
	h.mu.Lock()
	defer h.mu.Unlock()
	h.settleLocked()
	events, h.events = c02canonEvents(h.events), nil
	running = h.tableText(h.workers[len(h.workers)-1].sim)
	d := world.NewSim(h.cfgDir)
	_, _ = d.Master().Send(nil, "reload")
	if d.Reloads != 1 {
		return events, running, "", fmt.Errorf("files on disk do not load: %s", d.LoadErr)
	}
	return events, running, h.tableText(d), nil
}

// evConn: the connection id of an event (`<letter><id>[~…]`)
func evConn(e string) string {
	j := 1
	for j < len(e) && e[j] >= '0' && e[j] <= '9' {
		j++
	}
	return e[1:j]
}

// c02canonEvents: dynUpdater walks the changed backends (and the changed certificates) in Go map order, one `Send` =
// one connection each. Between two reloads, when the events are a sequence of complete `o<c> … x<c>` blocks, the
// blocks are put in the order of the backend / certificate file they touch (stable: the blocks of one backend keep
// their order) and the connection ids are handed out again in that order. Blocks of different backends commute, so
// this is the same history for HAProxy; anything else (a connection left open, interleaving) is left as it came.
func c02canonEvents(evs []string) []string {
	var out, seg []string
	for _, e := range evs {
		if e[0] == 'R' || e == "F" {
			out = append(append(out, c02canonSegment(seg)...), e)
			seg = nil
		} else {
			seg = append(seg, e)
		}
	}
	return append(out, c02canonSegment(seg)...)
}

func c02canonSegment(seg []string) []string {
	type block struct {
		id, key string
		evs     []string
	}
	var blocks []block
	for i := 0; i < len(seg); {
		if seg[i][0] != 'o' {
			return seg
		}
		b := block{id: evConn(seg[i])}
		j := i
		for ; j < len(seg); j++ {
			if evConn(seg[j]) != b.id {
				return seg
			}
			b.evs = append(b.evs, seg[j])
			if b.key == "" {
				switch seg[j][0] {
				case 'a', 's', 'w', 'c', 'm':
					b.key = strings.SplitN(seg[j], "~", 3)[1]
				}
			}
			if seg[j][0] == 'x' {
				break
			}
		}
		if j == len(seg) {
			return seg
		}
		blocks = append(blocks, b)
		i = j + 1
	}
	ids := make([]string, len(blocks))
	for k, b := range blocks {
		ids[k] = b.id
	}
	sort.SliceStable(blocks, func(a, b int) bool { return blocks[a].key < blocks[b].key })
	var out []string
	for k, b := range blocks {
		for _, e := range b.evs {
			out = append(out, e[:1]+ids[k]+e[1+len(b.id):])
		}
	}
	return out
}

func c02sockFaults(s string) map[int]string {
	m := map[int]string{}
	if s == "-" || s == "" {
		return m
	}
	for _, f := range strings.Split(s, ",") {
		if len(f) >= 2 && f[0] == 'b' {
			n, _ := strconv.Atoi(f[1:])
			m[n] = "No such server."
		}
		if len(f) >= 2 && f[0] == 'r' {
			// the n-th `reload` request on the master socket (0 based) is refused once: a transient failure
			n, _ := strconv.Atoi(f[1:])
			m[-(n + 1)] = "refuse"
		}
	}
	return m
}

// c02sockHist: one history through the real pipeline and the real sockets
func c02sockHist(c *ctx, faults string, ops []string) {
	cmds, stale, gens := 0, 0, 0
	out := func() (res string) {
		defer func() {
			if r := recover(); r != nil {
				res = "panic:" + sanitize(fmt.Sprint(r))
			}
		}()
		w := world.NewWorld()
		opt, ops := syncOptions(ops)
		p, err := world.NewPipeline(w, opt)
		if err != nil {
			return "skip:" + sanitize(err.Error())
		}
		defer p.Close()
		// no injected sockets: connections.Master()/Admin()/DynUpdate()/IdleChk() create the real clients
		haproxy.VerifSetSockets(p.Instance, nil, nil)
		hap, err := c02startHap(p.Dir, p.CfgDir, c02sockFaults(faults))
		if err != nil {
			return "skip:" + sanitize(err.Error())
		}
		defer hap.stop()
		var steps []string
		for _, o := range append(append([]string(nil), ops...), "sync") {
			if o != "sync" {
				evs, err := w.Apply(world.Op{Text: o})
				if err != nil {
					return "skip:" + sanitize(err.Error())
				}
				p.Deliver(evs)
				continue
			}
			_, rerr := p.Reconcile()
			evs, running, disk, err := hap.step()
			if err != nil {
				return "skip:" + sanitize(err.Error())
			}
			kind := "noop"
			for _, e := range evs {
				switch e[0] {
				case 'a', 's', 'w', 'c', 'm':
					if kind == "noop" {
						kind = "dyn"
					}
					cmds++
				case 'R':
					kind = "reload"
				}
			}
			if rerr != nil {
				kind = "err"
			}
			ev := "-"
			if len(evs) > 0 {
				ev = strings.Join(evs, ",")
			}
			steps = append(steps, kind+"!"+ev+"!"+running+"!"+disk)
		}
		hap.mu.Lock()
		stale, gens = hap.stale, len(hap.workers)-1
		hap.mu.Unlock()
		return strings.Join(steps, "|")
	}()
	c.stat(fmt.Sprintf("sock_hist_cmds_%v", cmds > 0), 1)
	c.stat("sock_runtime_commands", cmds)
	c.stat("sock_commands_to_former_worker", stale)
	c.stat("sock_worker_generations", gens)
	c.emit("C02", "sock "+faults+" "+strings.Join(ops, " "), out)
}

// ---- generators ----------------------------------------------------------------------------------------------

// c02sockBase: two services with dynamic scaling behind two ingresses, a certificate on the second host, pods to
// draw endpoints from
func c02sockBase() []string {
	ops := []string{"cm~slots-min-free=1", "svc+d/app!http:80:8080!-", "svc+d/api!http:80:8080!-", "svc+d/web!http:80:8080!-"}
	for i := 1; i <= 9; i++ {
		ops = append(ops, fmt.Sprintf("pod+d/app-%d!10.0.1.%d!-!-", i, i), fmt.Sprintf("pod+d/api-%d!10.0.2.%d!-!-", i, i))
	}
	ops = append(ops, "ep~d/app!10.0.1.1:r:app-1+10.0.1.2:r:app-2", "ep~d/api!10.0.2.1:r:api-1", "ep~d/web!10.0.3.1:r:web-1",
		"sec+d/tls1!tls!1000!b.local",
		"ing+d/i1@1!haproxy,-!-!a.local>/:Prefix:app:80!-!-",
		"ing+d/i2@2!haproxy,-!-!b.local>/:Prefix:api:80!b.local>tls1!-", "sync")
	return ops
}

// c02sockState of the generated history: the pods behind the two services, the next unused pod, toggles
type c02sockState struct {
	app, api       []int
	nextApp, nextA int
	extra          bool
	crtVer         int
	cmN            int
}

func c02sockEp(svc string, net int, set []int) string {
	if len(set) == 0 {
		return "ep~d/" + svc + "!-"
	}
	var parts []string
	for _, i := range set {
		parts = append(parts, fmt.Sprintf("10.0.%d.%d:r:%s-%d", net, i, svc, i))
	}
	return "ep~d/" + svc + "!" + strings.Join(parts, "+")
}

// c02sockChange: one change of the cluster followed by a reconcile.
//
//	0 replace the last pod of app (fits the slots: runtime)    1 replace the last pod of api (runtime)
//	2 add / remove a third ingress (new host and backend: reload)  3 global option changed (reload)
//	4 certificate renewed (runtime `set ssl cert`)             5 scale app up by one pod (runtime while a slot is free, else reload)
//	6 scale app down by one pod (runtime)                      7 nothing changed (a resync)
func c02sockChange(st *c02sockState, kind int) []string {
	var ops []string
	switch kind {
	case 0:
		if len(st.app) > 0 && st.nextApp <= 9 {
			st.app[len(st.app)-1] = st.nextApp
			st.nextApp++
		}
		ops = append(ops, c02sockEp("app", 1, st.app))
	case 1:
		if len(st.api) > 0 && st.nextA <= 9 {
			st.api[len(st.api)-1] = st.nextA
			st.nextA++
		}
		ops = append(ops, c02sockEp("api", 2, st.api))
	case 2:
		if st.extra {
			ops = append(ops, "ing-d/i3")
		} else {
			ops = append(ops, "ing+d/i3@3!haproxy,-!-!c.local>/:Prefix:web:80!-!-")
		}
		st.extra = !st.extra
	case 3:
		st.cmN++
		ops = append(ops, fmt.Sprintf("cm~slots-min-free=1;max-connections=%d", 2000+st.cmN))
	case 4:
		st.crtVer++
		ops = append(ops, fmt.Sprintf("sec~d/tls1!tls!%d!b.local", st.crtVer))
	case 5:
		if st.nextApp <= 9 {
			st.app = append(st.app, st.nextApp)
			st.nextApp++
		}
		ops = append(ops, c02sockEp("app", 1, st.app))
	case 6:
		if len(st.app) > 1 {
			st.app = st.app[:len(st.app)-1]
		}
		ops = append(ops, c02sockEp("app", 1, st.app))
	case 7:
	}
	return append(ops, "sync")
}

func c02sockHistory(kinds []int) []string {
	st := &c02sockState{app: []int{1, 2}, api: []int{1}, nextApp: 3, nextA: 2, crtVer: 1000}
	ops := c02sockBase()
	for _, k := range kinds {
		ops = append(ops, c02sockChange(st, k)...)
	}
	// the trailing sync is added by the runner
	return ops[:len(ops)-1]
}

// c02sockExhaustive: every sequence of n changes out of the first `alpha` kinds
func c02sockExhaustive(c *ctx, n, alpha int) {
	kinds := make([]int, n)
	var rec func(i int)
	rec = func(i int) {
		if i == n {
			c.stat(fmt.Sprintf("sock_exh_len%d", n), 1)
			c02sockHist(c, "-", c02sockHistory(kinds))
			return
		}
		for k := 0; k < alpha; k++ {
			kinds[i] = k
			rec(i + 1)
		}
	}
	rec(0)
}

func c02sockRandom(c *ctx, r *gen.Rng, n int) {
	for i := 0; i < n; i++ {
		kinds := make([]int, r.Range(4, 9))
		for j := range kinds {
			kinds[j] = r.Intn(8)
		}
		faults := "-"
		if r.Chance(1, 4) {
			faults = "b" + strconv.Itoa(r.Intn(12))
		} else if r.Chance(1, 3) {
			faults = "r" + strconv.Itoa(r.Range(1, 4))
		}
		c.stat("sock_rnd", 1)
		c02sockHist(c, faults, c02sockHistory(kinds))
	}
}

// c02sockWorld: random world histories (the generator of the hist mode) with endpoint churn and secret rotation
func c02sockWorld(c *ctx, r *gen.Rng, n int) {
	cfg := world.DefaultGen()
	cfg.Classes = false
	cfg.MaxBatches = 6
	for i := 0; i < n; i++ {
		g := world.NewGen(r.Fork(), cfg)
		var out []string
		for _, o := range g.History() {
			out = append(out, o)
			if o == "sync" && r.Chance(2, 3) {
				for k := r.Range(1, 3); k > 0; k-- {
					out = append(out, g.ChurnOp())
				}
				out = append(out, "sync")
			}
			if o == "sync" && r.Chance(1, 4) {
				out = append(out, g.SharedSecOps()...)
				out = append(out, "sync")
			}
		}
		if r.Chance(1, 3) {
			out = append([]string{"opt~shards=" + gen.Pick(r, []string{"1", "2", "3"})}, out...)
		}
		c.stat("sock_world", 1)
		c02sockHist(c, "-", out)
	}
}

func runC02Sock(c *ctx, r *gen.Rng) {
	// corpus: the history of seed C02f: start, a pod replaced (runtime), a new host (reload), a pod replaced (runtime)
	c02sockHist(c, "-", c02sockHistory([]int{0, 2, 0}))
	// the same around a certificate renewal, and with a refused command in between
	c02sockHist(c, "-", c02sockHistory([]int{4, 2, 4}))
	c02sockHist(c, "b1", c02sockHistory([]int{0, 0, 1}))
	// a reload that fails ONCE (fault r<n>: the n-th reload request is refused), then updates that fit the runtime
	// API: the owed reload has to be retried whatever the next update sends (after seed C02h)
	c02sockHist(c, "r1", c02sockHistory([]int{2, 0}))
	c02sockHist(c, "r1", c02sockHistory([]int{2, 4, 0}))
	c02sockHist(c, "r1", c02sockHistory([]int{3, 0, 1}))
	c02sockHist(c, "r1", c02sockHistory([]int{2, 7, 0}))
	c02sockHist(c, "r2", c02sockHistory([]int{0, 2, 6, 5}))
	if c.thorough() {
		c02sockExhaustive(c, 4, 5)
		c02sockRandom(c, r.Fork(), 200)
		c02sockWorld(c, r.Fork(), 150)
	} else {
		c02sockExhaustive(c, 3, 5)
		c02sockRandom(c, r.Fork(), 30)
		c02sockWorld(c, r.Fork(), 20)
	}
}
