package main

// C19 — disabled snippet keywords.
//
// Drives the REAL annotation updater (pkg/converters/ingress/annotations: buildBackendCustomConfig,
// firstToken, utils.LineToSlice, Mapper.Get) through the public converter API:
//
//   ra<N>   ingress.NewIngressConverter(...).ReadAnnotations(backend, services, pathLinks)
//           (the entry point the Gateway API converter uses for Service annotations), N services
//   sync<N> a full ingress converter Sync over N Ingress objects that all point to one Service
//           (Service annotation, Ingress annotations, IngressClass parameters, global ConfigMap)
//   tcp1    same as sync1 but the ingress is a TCP service (tcp-service-port annotation)
//   cfg<N>  as sync<N>, then the real haproxy.Instance renders haproxy.tmpl into a scratch
//           directory and the snippet is read back from the generated backend section
//   msync<R> several backends through ONE converter/updater, repeated R times (c19sync.go, own case format)
//
// Case line:  C19 <kind> <kws> <global> <anns> => <lines>;<why>
//   <kws>    `-` or comma separated `h<hex>` (ConverterOptions.DisableKeywords, after utils.Split)
//   <global> `n` (key absent from the ConfigMap) or `h<hex>`
//   <anns>   `-` or comma separated `<label>:h<hex>` in the order the converter adds them to the
//            backend's mapper (labels: s/s1/s2 service, i<N> ingress N, p<N> IngressClass params of ingress N)
//   <lines>  `-` or comma separated `h<hex>`: Backend.CustomConfig (cfg<N>: as found in haproxy.cfg)
//   <why>    `-`, `star@<label>` or `kw:h<hex>@<label>` parsed from the warning the updater logs
//            (label `g` = "global config")

import (
	"context"
	"encoding/hex"
	"fmt"
	"os"
	"path/filepath"
	"strconv"
	"strings"
	"time"

	api "k8s.io/api/core/v1"
	networking "k8s.io/api/networking/v1"
	metav1 "k8s.io/apimachinery/pkg/apis/meta/v1"
	"k8s.io/apimachinery/pkg/util/intstr"

	conv_helper "github.com/jcmoraisjr/haproxy-ingress/pkg/converters/helper_test"
	"github.com/jcmoraisjr/haproxy-ingress/pkg/converters/ingress"
	"github.com/jcmoraisjr/haproxy-ingress/pkg/converters/tracker"
	convtypes "github.com/jcmoraisjr/haproxy-ingress/pkg/converters/types"
	"github.com/jcmoraisjr/haproxy-ingress/pkg/haproxy"
	hatypes "github.com/jcmoraisjr/haproxy-ingress/pkg/haproxy/types"
	"github.com/jcmoraisjr/haproxy-ingress/pkg/utils"

	"hapverif/gen"
)

const (
	c19Prefix = "ingress.kubernetes.io"
	c19Key    = "config-backend"
	c19AnnKey = c19Prefix + "/" + c19Key
)

func init() {
	props["C19"] = runC19
	replayers["C19"] = func(c *ctx, a []string) {
		if len(a) == 5 {
			sc, err := c19ParseSync(a)
			if err != nil {
				fmt.Fprintln(os.Stderr, "C19 replay:", err)
				return
			}
			c19syncCase(c, sc)
			return
		}
		if len(a) != 4 {
			return
		}
		sc, err := c19Parse(a)
		if err != nil {
			fmt.Fprintln(os.Stderr, "C19 replay:", err)
			return
		}
		c19case(c, sc)
	}
}

// ---------------------------------------------------------------- scenario

type c19Ann struct {
	label string
	text  string
}

type c19Scenario struct {
	kind    string // ra1 ra2 sync1 sync2 tcp1 cfg1 cfg2
	kws     []string
	hasGlob bool
	glob    string
	anns    []c19Ann // in the order the converter adds them
}

func c19h(s string) string { return "h" + hex.EncodeToString([]byte(s)) }

func c19unh(s string) (string, error) {
	if !strings.HasPrefix(s, "h") {
		return "", fmt.Errorf("bad hex token %q", s)
	}
	b, err := hex.DecodeString(s[1:])
	return string(b), err
}

func c19list(xs []string) string {
	if len(xs) == 0 {
		return "-"
	}
	o := make([]string, len(xs))
	for i, x := range xs {
		o[i] = c19h(x)
	}
	return strings.Join(o, ",")
}

func (s *c19Scenario) args() string {
	g := "n"
	if s.hasGlob {
		g = c19h(s.glob)
	}
	a := "-"
	if len(s.anns) > 0 {
		p := make([]string, len(s.anns))
		for i, x := range s.anns {
			p[i] = x.label + ":" + c19h(x.text)
		}
		a = strings.Join(p, ",")
	}
	return fmt.Sprintf("%s %s %s %s", s.kind, c19list(s.kws), g, a)
}

func c19Parse(a []string) (*c19Scenario, error) {
	sc := &c19Scenario{kind: a[0]}
	if a[1] != "-" {
		for _, k := range strings.Split(a[1], ",") {
			s, err := c19unh(k)
			if err != nil {
				return nil, err
			}
			sc.kws = append(sc.kws, s)
		}
	}
	if a[2] != "n" {
		s, err := c19unh(a[2])
		if err != nil {
			return nil, err
		}
		sc.hasGlob, sc.glob = true, s
	}
	if a[3] != "-" {
		for _, p := range strings.Split(a[3], ",") {
			lv := strings.SplitN(p, ":", 2)
			if len(lv) != 2 {
				return nil, fmt.Errorf("bad annotation %q", p)
			}
			s, err := c19unh(lv[1])
			if err != nil {
				return nil, err
			}
			sc.anns = append(sc.anns, c19Ann{lv[0], s})
		}
	}
	return sc, nil
}

func (s *c19Scenario) ann(label string) (string, bool) {
	for _, a := range s.anns {
		if a.label == label {
			return a.text, true
		}
	}
	return "", false
}

// ---------------------------------------------------------------- real code

type c19Logger struct{ warns []string }

func (l *c19Logger) InfoV(v int, msg string, args ...interface{}) {}
func (l *c19Logger) Info(msg string, args ...interface{})         {}
func (l *c19Logger) Warn(msg string, args ...interface{}) {
	l.warns = append(l.warns, fmt.Sprintf(msg, args...))
}
func (l *c19Logger) Error(msg string, args ...interface{}) {
	l.warns = append(l.warns, "ERROR "+fmt.Sprintf(msg, args...))
}
func (l *c19Logger) Fatal(msg string, args ...interface{}) {
	panic("FATAL " + fmt.Sprintf(msg, args...))
}

type c19Queue struct{}

func (c19Queue) Add(item interface{})                       {}
func (c19Queue) AddAfter(item interface{}, d time.Duration) {}
func (c19Queue) Remove(item interface{})                    {}
func (c19Queue) Start(context.Context) error                { return nil }

func c19Service(name string, ann map[string]string) (*api.Service, *api.Endpoints) {
	svc := &api.Service{
		ObjectMeta: metav1.ObjectMeta{Namespace: "default", Name: name, Annotations: ann},
		Spec: api.ServiceSpec{
			ClusterIP: "10.0.0.1",
			Ports:     []api.ServicePort{{Port: 8080, TargetPort: intstr.FromInt(8080)}},
		},
	}
	ep := &api.Endpoints{
		ObjectMeta: metav1.ObjectMeta{Namespace: "default", Name: name},
		Subsets: []api.EndpointSubset{{
			Addresses: []api.EndpointAddress{{IP: "172.17.0.11"}},
			Ports:     []api.EndpointPort{{Port: 8080, Protocol: api.ProtocolTCP}},
		}},
	}
	return svc, ep
}

func c19AnnMap(text string, ok bool) map[string]string {
	if !ok {
		return nil
	}
	return map[string]string{c19AnnKey: text}
}

// source text used by the updater in its warnings -> label
func c19SourceLabels(sc *c19Scenario) map[string]string {
	m := map[string]string{"global config": "g"}
	switch {
	case strings.HasPrefix(sc.kind, "ra"):
		m["Service 'default/echo1'"] = "s1"
		m["Service 'default/echo2'"] = "s2"
	default:
		m["Service 'default/echo'"] = "s"
		// IngressClass parameters are registered with the ingress as their source: the
		// label is refined by the caller (p<N> when the ingress itself carries no annotation)
		m["Ingress 'default/ing1'"] = "i1"
		m["Ingress 'default/ing2'"] = "i2"
	}
	return m
}

var c19Crt = convtypes.CrtFile{Filename: "/tls/fake.pem", SHA1Hash: "1"}

type c19Result struct {
	lines []string
	why   string
}

func c19Run(sc *c19Scenario) (res c19Result, err error) {
	logger := &c19Logger{}
	trk := tracker.NewTracker()
	cache := conv_helper.NewCacheMock(trk)
	render := strings.HasPrefix(sc.kind, "cfg")
	var tmp string
	iopt := haproxy.InstanceOptions{}
	if render {
		if !c19Measuring {
			if err = c19Baseline(); err != nil {
				return res, err
			}
		}
		tmp, err = os.MkdirTemp("", "c19cfg")
		if err != nil {
			return res, err
		}
		defer os.RemoveAll(tmp)
		for _, d := range []string{"etc", "etc/lua", "etc/errorfiles", "maps", "var"} {
			os.MkdirAll(filepath.Join(tmp, d), 0o755)
		}
		iopt = haproxy.InstanceOptions{
			RootFSPrefix:    "/repo/rootfs",
			LocalFSPrefix:   tmp,
			HAProxyCfgDir:   filepath.Join(tmp, "etc"),
			HAProxyMapsDir:  filepath.Join(tmp, "maps"),
			IsExternal:      true,
			MasterSocket:    filepath.Join(tmp, "var", "master.sock"),
			AdminSocket:     filepath.Join(tmp, "var", "admin.sock"),
			Metrics:         c19Metrics{},
			ReloadQueue:     c19Queue{},
			SortEndpointsBy: "endpoint",
		}
	}
	instance := haproxy.CreateInstance(logger, iopt)
	hconfig := instance.Config()
	global := map[string]string{}
	if sc.hasGlob {
		global[c19Key] = sc.glob
	}
	if render {
		// marker rendered right after the backend's CustomConfig (global config-proxy is not
		// subject to the keyword filter and is emitted by the same template block)
		global["config-proxy"] = "default_echo_8080\n  # c19-end-of-snippet"
	}
	opts := &convtypes.ConverterOptions{
		Cache:            cache,
		Logger:           logger,
		Tracker:          trk,
		DynamicConfig:    &convtypes.DynamicConfig{},
		AnnotationPrefix: []string{c19Prefix},
		DisableKeywords:  sc.kws,
		FakeCrtFile:      c19Crt,
		DefaultCrtSecret: "",
	}
	changed := &convtypes.ChangedObjects{GlobalConfigMapDataNew: global}
	conv := ingress.NewIngressConverter(opts, hconfig, changed)
	var backend *hatypes.Backend

	if strings.HasPrefix(sc.kind, "ra") {
		n, _ := strconv.Atoi(sc.kind[2:])
		var svcs []*api.Service
		for i := 1; i <= n; i++ {
			t, ok := sc.ann(fmt.Sprintf("s%d", i))
			svc, _ := c19Service(fmt.Sprintf("echo%d", i), c19AnnMap(t, ok))
			svcs = append(svcs, svc)
		}
		backend = hconfig.Backends().AcquireBackend("default", "echo1", "8080")
		links := []*hatypes.PathLink{hatypes.CreateHostPathLink("d.local", "/", hatypes.MatchBegin)}
		conv.ReadAnnotations(backend, svcs, links)
	} else {
		n, _ := strconv.Atoi(sc.kind[len(sc.kind)-1:])
		t, ok := sc.ann("s")
		svc, ep := c19Service("echo", c19AnnMap(t, ok))
		cache.SvcList = append(cache.SvcList, svc)
		cache.EpList["default/echo"] = ep
		cache.ConfigMapList = map[string]*api.ConfigMap{}
		pt := networking.PathTypePrefix
		for i := 1; i <= n; i++ {
			name := fmt.Sprintf("ing%d", i)
			ann := map[string]string{}
			if t, ok := sc.ann(fmt.Sprintf("i%d", i)); ok {
				ann[c19AnnKey] = t
			}
			if sc.kind == "tcp1" {
				ann[c19Prefix+"/tcp-service-port"] = "7000"
			}
			ing := &networking.Ingress{
				ObjectMeta: metav1.ObjectMeta{Namespace: "default", Name: name, Annotations: ann},
				Spec: networking.IngressSpec{
					Rules: []networking.IngressRule{{
						Host: fmt.Sprintf("h%d.local", i),
						IngressRuleValue: networking.IngressRuleValue{HTTP: &networking.HTTPIngressRuleValue{
							Paths: []networking.HTTPIngressPath{{
								Path:     "/",
								PathType: &pt,
								Backend: networking.IngressBackend{Service: &networking.IngressServiceBackend{
									Name: "echo", Port: networking.ServiceBackendPort{Number: 8080},
								}},
							}},
						}},
					}},
				},
			}
			if t, ok := sc.ann(fmt.Sprintf("p%d", i)); ok {
				cls := "class" + strconv.Itoa(i)
				ing.Spec.IngressClassName = &cls
				cache.IngClassList = append(cache.IngClassList, &networking.IngressClass{
					ObjectMeta: metav1.ObjectMeta{Name: cls},
					Spec: networking.IngressClassSpec{
						Controller: "haproxy-ingress.github.io/controller",
						Parameters: &networking.IngressClassParametersReference{Kind: "ConfigMap", Name: "params" + strconv.Itoa(i)},
					},
				})
				cache.ConfigMapList["ingress-controller/params"+strconv.Itoa(i)] = &api.ConfigMap{
					ObjectMeta: metav1.ObjectMeta{Namespace: "ingress-controller", Name: "params" + strconv.Itoa(i)},
					Data:       map[string]string{c19Key: t},
				}
			}
			cache.IngList = append(cache.IngList, ing)
		}
		conv.Sync(true)
		for _, b := range hconfig.Backends().Items() {
			if b.ID == "default_echo_8080" {
				backend = b
			}
		}
		if backend == nil {
			return res, fmt.Errorf("backend default_echo_8080 not created; log: %v", logger.warns)
		}
	}
	res.lines = append([]string{}, backend.CustomConfig...)

	// the warning of buildBackendCustomConfig
	labels := c19SourceLabels(sc)
	res.why = "-"
	nwhy := 0
	for _, w := range logger.warns {
		const p = "skipping configuration snippet on "
		if !strings.HasPrefix(w, p) {
			if strings.HasPrefix(w, "ERROR ") {
				return res, fmt.Errorf("converter logged: %s", w)
			}
			continue
		}
		w = w[len(p):]
		matched := false
		for src, lbl := range labels {
			if !strings.HasPrefix(w, src+": ") {
				continue
			}
			rest := w[len(src)+2:]
			if lbl[0] == 'i' {
				if _, own := sc.ann(lbl); !own {
					lbl = "p" + lbl[1:]
				}
			}
			if rest == "custom configuration is disabled" {
				res.why = "star@" + lbl
				matched = true
			} else if strings.HasPrefix(rest, "keyword '") && strings.HasSuffix(rest, "' not allowed") {
				res.why = "kw:" + c19h(rest[len("keyword '"):len(rest)-len("' not allowed")]) + "@" + lbl
				matched = true
			}
		}
		if !matched {
			return res, fmt.Errorf("unparsed warning %q", w)
		}
		nwhy++
	}
	if nwhy > 1 {
		return res, fmt.Errorf("%d snippet warnings for one backend: %v", nwhy, logger.warns)
	}

	if render {
		if err := instance.ParseTemplates(); err != nil {
			return res, err
		}
		if err := instance.HAProxyUpdate(utils.NewTimer(nil)); err != nil {
			return res, err
		}
		data, err := os.ReadFile(filepath.Join(tmp, "etc", "haproxy.cfg"))
		if err != nil {
			return res, err
		}
		lines, err := c19Rendered(string(data), c19Measuring)
		if err != nil {
			return res, err
		}
		res.lines = lines
	}
	return res, nil
}

// c19Rendered reads the snippet back from the generated configuration: the lines of section
// `backend default_echo_8080` that precede the end marker (a global config-proxy line, which
// the template writes right after the snippet) and follow the lines the template itself
// writes at the top of the section. That number is measured once by rendering the same
// scenario without any snippet (c19Baseline). The template prefixes four blanks.
func c19Rendered(cfg string, measure bool) ([]string, error) {
	all := strings.Split(cfg, "\n")
	start := -1
	for i, l := range all {
		if l == "backend default_echo_8080" {
			start = i
			break
		}
	}
	if start < 0 {
		return nil, fmt.Errorf("backend section missing in haproxy.cfg")
	}
	end := -1
	for i := start + 1; i < len(all); i++ {
		if all[i] == "    # c19-end-of-snippet" {
			end = i
			break
		}
		if strings.HasPrefix(all[i], "backend ") && i > start+1 && all[i-1] == "" {
			break
		}
	}
	if end < 0 {
		return nil, fmt.Errorf("end marker missing in backend section")
	}
	sect := all[start+1 : end]
	if measure {
		c19BaselineLen = len(sect)
		return nil, nil
	}
	base := c19BaselineLen
	if base < 0 || base > len(sect) {
		return nil, fmt.Errorf("backend section shorter (%d) than the snippet-free baseline (%d)", len(sect), base)
	}
	var out []string
	for _, l := range sect[base:] {
		if !strings.HasPrefix(l, "    ") {
			return nil, fmt.Errorf("snippet line without template indentation: %q", l)
		}
		out = append(out, l[4:])
	}
	return out, nil
}

// number of lines the template writes in the backend section before the snippet block
// (measured once on a snippet-free scenario)
var c19BaselineLen = -1
var c19Measuring bool

func c19Baseline() error {
	if c19BaselineLen >= 0 {
		return nil
	}
	c19Measuring = true
	defer func() { c19Measuring = false }()
	_, err := c19Run(&c19Scenario{kind: "cfg1"})
	if err == nil && c19BaselineLen < 0 {
		err = fmt.Errorf("baseline not measured")
	}
	return err
}

type c19Metrics struct{}

func (c19Metrics) HAProxyShowInfoResponseTime(d time.Duration)              {}
func (c19Metrics) HAProxySetServerResponseTime(d time.Duration)             {}
func (c19Metrics) HAProxySetSSLCertResponseTime(d time.Duration)            {}
func (c19Metrics) ControllerProcTime(task string, d time.Duration)          {}
func (c19Metrics) AddIdleFactor(idle int)                                   {}
func (c19Metrics) IncUpdateNoop()                                           {}
func (c19Metrics) IncUpdateDynamic()                                        {}
func (c19Metrics) IncUpdateFull()                                           {}
func (c19Metrics) UpdateSuccessful(success bool)                            {}
func (c19Metrics) SetCertExpireDate(domain, cn string, notAfter *time.Time) {}
func (c19Metrics) ClearCertExpire()                                         {}
func (c19Metrics) IncCertSigningMissing(domains string, success bool)       {}
func (c19Metrics) IncCertSigningExpiring(domains string, success bool)      {}
func (c19Metrics) IncCertSigningOutdated(domains string, success bool)      {}

// ---------------------------------------------------------------- emit

func c19case(c *ctx, sc *c19Scenario) {
	var out string
	func() {
		defer func() {
			if r := recover(); r != nil {
				out = "PANIC"
				fmt.Fprintf(os.Stderr, "C19 panic on %s: %v\n", sc.args(), r)
			}
		}()
		res, err := c19Run(sc)
		if err != nil {
			out = "ERROR"
			fmt.Fprintf(os.Stderr, "C19 harness error on %s: %v\n", sc.args(), err)
			return
		}
		out = c19list(res.lines) + ";" + res.why
	}()
	c.emit("C19", sc.args(), out)
	if strings.HasSuffix(out, "@g") {
		c.stat("global_source_filtered", 1)
	}
	c.stat("kind_"+sc.kind, 1)
	if len(sc.anns) == 0 {
		c.stat("source_global", 1)
	} else {
		c.stat("source_annotation", 1)
		if len(sc.anns) > 1 {
			c.stat("merged_annotations", 1)
		}
	}
	switch {
	case strings.HasPrefix(out, "-;star"):
		c.stat("out_dropped_star", 1)
	case strings.HasPrefix(out, "-;kw"):
		c.stat("out_dropped_keyword", 1)
	case strings.HasPrefix(out, "-;"):
		c.stat("out_empty", 1)
	default:
		c.stat("out_emitted", 1)
	}
}

// ---------------------------------------------------------------- generators

// labels each kind can carry, in the order the converter registers them
var c19Labels = map[string][]string{
	"ra1":   {"s1"},
	"ra2":   {"s1", "s2"},
	"sync1": {"s", "i1", "p1"},
	"sync2": {"s", "i1", "p1", "i2", "p2"},
	"tcp1":  {"s", "i1", "p1"},
	"cfg1":  {"s", "i1", "p1"},
	"cfg2":  {"s", "i1", "p1", "i2", "p2"},
}

// c19Flag passes a --disable-config-keywords value through the real parser of the flag
// (pkg/controller/config/config.go: utils.Split(opt.DisableConfigKeywords, ","))
func c19Flag(flag string) []string { return utils.Split(flag, ",") }

func c19Strings(alpha []byte, maxLen int, f func(string)) {
	var rec func(prefix []byte)
	rec = func(prefix []byte) {
		f(string(prefix))
		if len(prefix) == maxLen {
			return
		}
		for _, b := range alpha {
			rec(append(prefix, b))
		}
	}
	rec(make([]byte, 0, maxLen))
}

var c19Blanks = []string{"", " ", "\t", "  ", " \t", "\r", "\v", "\f", "\t\t ", " \r\v\f\t ", " ", "\xa0", "\x85", " ", "\x00", "\\"}
var c19Words = []string{"acl", "http-request", "server", "use-server", "option", "timeout", "k", "kx", "x", "xk", "*",
	"ACL", "Acl", "aCL", "Http-Request", "acl2", "aacl", "acl-x", "http-request-x", "http", "request", "\"acl\"", "'acl'", "a\\cl",
	"acl\x00", "#acl", "#", "ac", "l", "é", "ácl",
	// haproxy's keyword modifiers are keywords like any other for the deny list (seed C19g looks past them)
	"no", "default", "No", "default-server", "no-x"}
var c19Args = []string{"", " x", " is_x path_beg /x", "\tdeny", " set-header X-K k", "  acl", " k", "\tk\t", " # acl", "\r", " \r",
	" log", " option forwardfor", "\tserver s1 10.0.0.1:80", " no acl"}
var c19FlagPool = []string{"", "acl", "k", "kx", "*", "acl,http-request", "http-request,acl", "server,use-server", " acl , k ",
	"acl,,k", ",", ",acl", "acl,", "*,acl", "acl,*", "ACL", "Acl,acl", "k,kx", "kx,k", "x", "option,timeout,acl,k", "\tacl\t",
	" acl", "http-request set-header", "#", "\"acl\"", "é", "acl,acl"}

func c19Line(r *gen.Rng) string {
	switch r.Intn(12) {
	case 0:
		return ""
	case 1:
		return gen.Pick(r, c19Blanks)
	}
	return gen.Pick(r, c19Blanks) + gen.Pick(r, c19Words) + gen.Pick(r, c19Args)
}

func c19Snippet(r *gen.Rng) string {
	switch r.Intn(16) {
	case 0:
		return ""
	case 1:
		return gen.Pick(r, []string{"\n", "\n\n", " ", "\t\n", "\r\n"})
	}
	n := r.Range(1, 5)
	sep := "\n"
	if r.Chance(1, 8) {
		sep = "\r\n"
	}
	var b strings.Builder
	if r.Chance(1, 8) {
		b.WriteString(gen.Pick(r, []string{"\n", "\n\n", "\r\n"}))
	}
	for i := 0; i < n; i++ {
		if i > 0 {
			b.WriteString(sep)
			if r.Chance(1, 10) {
				b.WriteString("\n")
			}
		}
		b.WriteString(c19Line(r))
	}
	if r.Chance(1, 3) {
		b.WriteString(gen.Pick(r, []string{"\n", "\n\n", "\r\n", "\n \n", "\n\t"}))
	}
	return b.String()
}

func c19Random(r *gen.Rng, kind string) *c19Scenario {
	sc := &c19Scenario{kind: kind, kws: c19Flag(gen.Pick(r, c19FlagPool))}
	if r.Chance(1, 6) {
		// keyword list made of tokens of the texts below is likelier to hit: add some
		sc.kws = append(sc.kws, gen.Pick(r, c19Words))
	}
	switch r.Intn(4) {
	case 0:
	default:
		sc.hasGlob, sc.glob = true, c19Snippet(r)
	}
	pool := []string{c19Snippet(r), c19Snippet(r)}
	for _, l := range c19Labels[kind] {
		if r.Chance(2, 5) {
			t := gen.Pick(r, pool)
			if r.Chance(1, 3) {
				t = c19Snippet(r)
			}
			sc.anns = append(sc.anns, c19Ann{l, t})
		}
	}
	return sc
}

func runC19(c *ctx) {
	// ---- corpus: minimised cases first
	corpus := []string{
		// the confirmed finding: a global ConfigMap snippet is filtered (TestCustomConfig pins it)
		"ra1 h6b h6b -",
		"sync1 h61636c h61636c20785f7061746820706174685f626567202f78 -",
		"sync1 h2a h78 -",
		"cfg1 h6b h6b -",
		// annotation sources: blocked / star / clean / prefix / mixed case
		"sync1 h6b n s:h20096b2031",
		"sync1 h6b n i1:h780a0d0b0c6b",
		"sync1 h2a h78 p1:h78",
		"sync1 h6b n i1:h6b78",
		"sync1 h6b n i1:h4b",
		"sync2 h6b h78 i2:h6b",
		"sync2 h6b n s:h78,i1:h6b,i2:h6b",
		"tcp1 h6b n i1:h096b",
		"ra2 h6b n s1:h78,s2:h6b",
		"ra2 h6b n s2:h6b",
		"cfg2 h6b h78 i1:h780a0a79,i2:h6b",
		"cfg1 h6b,h h0d6b -",
		"ra1 h,h6b h0a s1:h0a",
	}
	for _, l := range corpus {
		sc, err := c19Parse(strings.Fields(l))
		if err != nil {
			panic(err)
		}
		c19case(c, sc)
	}

	// ---- exhaustive small scope through ReadAnnotations: every text over the alphabet up to
	// maxLen, as the only annotation and as the global value, against six keyword lists
	alpha := []byte{' ', '\t', '\n', '\r', '\v', '\f', 'k', 'x'}
	maxLen := 5
	if c.thorough() {
		maxLen = 6
	}
	kwsets := [][]string{{"k"}, {"kx", "k"}, {"kx"}, {"*"}, {"", "x", "k"}, nil}
	c19Strings(alpha, maxLen, func(t string) {
		ks := kwsets
		if len(t) > 5 {
			ks = kwsets[:2] // length 6 (thorough): the two lists that tell `k` from `kx`
		} else if len(t) > 4 && !c.thorough() {
			ks = kwsets[:3]
		}
		for _, kws := range ks {
			c19case(c, &c19Scenario{kind: "ra1", kws: kws, hasGlob: true, glob: "x", anns: []c19Ann{{"s1", t}}})
			c19case(c, &c19Scenario{kind: "ra1", kws: kws, hasGlob: true, glob: t})
		}
	})
	c.stat("exhaustive_alpha8_len", maxLen)
	// two lines of up to 4 symbols from {space, tab, k, x} each, and (thorough) longer texts over
	// {space, tab, newline, k, x}
	small := []byte{' ', '\t', 'k', 'x'}
	var lines []string
	lmax := 3
	if c.thorough() {
		lmax = 4
	}
	c19Strings(small, lmax, func(t string) { lines = append(lines, t) })
	for _, l1 := range lines {
		for _, l2 := range lines {
			c19case(c, &c19Scenario{kind: "ra1", kws: []string{"k"}, anns: []c19Ann{{"s1", l1 + "\n" + l2}}})
		}
	}
	c.stat("exhaustive_two_lines_len", lmax)
	if c.thorough() {
		c19Strings([]byte{' ', '\t', '\n', 'k', 'x'}, 7, func(t string) {
			if len(t) > 5 {
				c19case(c, &c19Scenario{kind: "ra1", kws: []string{"k"}, anns: []c19Ann{{"s1", t}}})
			}
		})
	}

	// ---- exhaustive merging: every subset of the five sources of sync2 (service, two ingresses,
	// two IngressClass parameter maps) x {clean, dirty} per source x global {absent, clean, dirty}
	texts := []string{"x 1", "\tk 1"}
	for mask := 0; mask < 1<<5; mask++ {
		lbls := c19Labels["sync2"]
		n := 0
		for i := range lbls {
			if mask&(1<<i) != 0 {
				n++
			}
		}
		for tv := 0; tv < 1<<n; tv++ {
			for g := 0; g < 3; g++ {
				sc := &c19Scenario{kind: "sync2", kws: []string{"k"}}
				if g > 0 {
					sc.hasGlob, sc.glob = true, texts[g-1]
				}
				j := 0
				for i, l := range lbls {
					if mask&(1<<i) != 0 {
						sc.anns = append(sc.anns, c19Ann{l, texts[(tv>>j)&1]})
						j++
					}
				}
				c19case(c, sc)
			}
		}
	}
	c.stat("exhaustive_merge_sync2", 1)

	// ---- one sync, several backends, one updater (c19sync.go)
	runC19Sync(c)

	// ---- random multi-line snippets through every entry point
	r := gen.New(c.seed)
	n, ncfg := 12000, 600
	if c.thorough() {
		n, ncfg = 150000, 4000
	}
	kinds := []string{"ra1", "ra2", "sync1", "sync2", "sync2", "tcp1"}
	for i := 0; i < n; i++ {
		c19case(c, c19Random(r, gen.Pick(r, kinds)))
	}
	for i := 0; i < ncfg; i++ {
		sc := c19Random(r, gen.Pick(r, []string{"cfg1", "cfg2"}))
		c19case(c, sc)
	}
}
