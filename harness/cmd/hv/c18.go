package main

// C18 — external authentication fails closed.
//
// Drives the REAL annotation updater (pkg/converters/ingress/annotations: buildHostAuthExternal,
// buildBackendAuthExternal, setAuthExternal, buildBackendOAuth, buildGlobalAuthProxy) and the real
// Frontend.AcquireAuthBackendName / RemoveAuthBackendExcept / Backends.BuildUsedAuthBackends through the
// public converter API (ingress.NewIngressConverter + Sync over Ingress objects held by the mock
// cache), then lets the real haproxy.Instance render rootfs/etc/templates/haproxy/haproxy.tmpl and
// resolves the rendered `http-request` rules per path (backend section: by path id; frontend
// sections: by evaluating the req.base condition on sample requests with HAProxy's ACL syntax
// `<fetch> -m <method> <pattern>...`).
//
// Case line:  C18 <glob> <ing>[,<ing>...] => <path>|<path>...||<binds>   (or `alloc ...`, see c18Alloc;
//             or `hist ...`: a full sync followed by partial syncs, see c18hist.go)
//   <glob>   x<0|1>l<0|1>[c<0|1>]r<rng>    ConverterOptions.IsExternal, global `external-has-lua`,
//            global `cross-namespace-services: allow` (absent = deny), global `auth-proxy` range: 0,1,2,3 ports starting at 14415; `i` unparsable; `d` key absent
//   <ing>    <host>.<path>.<svc>.<match>.<url>.<plc>.<oauth>.<signin>   one Ingress (name ing01.. in list order)
//            with one rule/path: host h<host>.local, path (0 /a, 1 /b, 2 /c, 9 /oauth2),
//            service (0 echo0, 1 echo1, 2 oauth2proxy, 3 echo3), match b|p|e (ImplementationSpecific/Prefix/Exact)
//            url: key of c18URLs (`-` absent), plc: - b f t B F, oauth: - o d m u e, signin: - s (auth-signin /login)
//   <path>   B=<rec>;F=<rec|nil>;RB=<rules>;R0=<rules>;R1=<rules>
//            <rec> = <D|->,<name>,<authpath>,<allowedpath>,<R|->   (AlwaysDeny, AuthBackendName, AuthPath,
//            AllowedPath, RedirectOnFail set); RB: rules of the backend section that apply to the path's id;
//            R0/R1: rules of the frontend sections that apply to the request <host>#<path> and
//            <host>#<path>/sub (R1 = R0 for an exact path)
//   <rules>  `-` or `+`-joined: deny | icpt(<name>,<path>,<allowed|->) | unless-deny(<allowed|->) | unless-redir(<allowed|->)
//   <binds>  `-` or comma separated <authBackendName>><target> of Frontend.AuthProxy.BindList

import (
	"context"
	"fmt"
	"os"
	"path/filepath"
	"runtime"
	"sort"
	"strconv"
	"strings"
	"sync"
	"sync/atomic"
	"time"

	api "k8s.io/api/core/v1"
	networking "k8s.io/api/networking/v1"
	metav1 "k8s.io/apimachinery/pkg/apis/meta/v1"
	"k8s.io/apimachinery/pkg/util/intstr"

	conv_helper "github.com/jcmoraisjr/haproxy-ingress/pkg/converters/helper_test"
	"github.com/jcmoraisjr/haproxy-ingress/pkg/converters/ingress"
	"github.com/jcmoraisjr/haproxy-ingress/pkg/converters/tracker"
	convtypes "github.com/jcmoraisjr/haproxy-ingress/pkg/converters/types"
	"github.com/jcmoraisjr/haproxy-ingress/pkg/haproxy"
	hatypes "github.com/jcmoraisjr/haproxy-ingress/pkg/haproxy/types"
	"github.com/jcmoraisjr/haproxy-ingress/pkg/utils"

	"hapverif/gen"
)

const c18Prefix = "ingress.kubernetes.io"
const c18PortBase = 14415

func init() {
	props["C18"] = runC18
	replayers["C18"] = func(c *ctx, a []string) {
		if len(a) >= 1 && a[0] == "alloc" {
			c18AllocReplay(c, a[1:])
			return
		}
		if len(a) >= 1 && a[0] == "gw" {
			sc, err := c18GwParse(a[1:])
			if err != nil {
				fmt.Fprintln(os.Stderr, "C18 replay:", err)
				return
			}
			c18GwCase(c, sc)
			return
		}
		if len(a) >= 1 && a[0] == "oa" {
			sc, err := c18OaParse(a[1:])
			if err != nil {
				fmt.Fprintln(os.Stderr, "C18 replay:", err)
				return
			}
			c18OaCase(c, sc)
			return
		}
		if len(a) >= 1 && a[0] == "cls" {
			sc, err := c18ClsParse(a[1:])
			if err != nil {
				fmt.Fprintln(os.Stderr, "C18 replay:", err)
				return
			}
			c18ClsCase(c, sc)
			return
		}
		if len(a) >= 1 && a[0] == "hist" {
			h, err := c18HistParse(a[1:])
			if err != nil {
				fmt.Fprintln(os.Stderr, "C18 replay:", err)
				return
			}
			c18HistCase(c, h)
			return
		}
		sc, err := c18Parse(a)
		if err != nil {
			fmt.Fprintln(os.Stderr, "C18 replay:", err)
			return
		}
		c18case(c, sc)
	}
}

// ---------------------------------------------------------------- scenario

type c18Ing struct {
	host, path, svc int
	match           byte
	url, plc, oauth string
	signin          bool
}

type c18Scenario struct {
	ext, lua bool
	xns      bool // global cross-namespace-services: allow
	rng      string
	ings     []c18Ing
}

// concrete auth-url per grammar key. The abstraction (what each one means to the control flow of
// setAuthExternal) is written down in lean/HapVerif/Drv/C18.lean (`urlOf`).
var c18URLs = map[string]string{
	"e":  "",                                 // annotation present, empty value
	"h1": "http://10.0.0.1/auth",             // IP, default port
	"h2": "http://10.0.0.2:8080/check",       // other target, explicit port
	"hs": "https://10.0.0.1/auth",            // https: own target (port 443)
	"hq": "http://10.0.0.1",                  // same target as h1, empty path -> "/"
	"hl": "http://localhost/auth",            // name that resolves (hosts file)
	"hn": "http://no-such-host.invalid/auth", // name that does not resolve
	"s1": "svc://authsvc:8080/auth",          // existing service, same namespace
	"sv": "service://authsvc:8080/auth",      // long spelling of the protocol
	"sm": "svc://missing:8080/auth",          // service does not exist
	"sp": "svc://authsvc/auth",               // port missing
	"sx": "svc://authsvc:9999/auth",          // port not exposed by the service
	"so": "svc://other/authsvc2:8080/auth",   // service of another namespace
	"sn": "svc://other/nope:8080/auth",       // missing service of another namespace
	"bp": "bad://10.0.0.1/auth",              // unknown protocol
	"mf": "::malformed",                      // does not parse
	"sq": "http://10.0.0.1/a b",              // blank inside: does not parse
}

// auth backend (target of an AuthProxyBind) -> token used by the model
var c18Targets = map[string]string{
	"10.0.0.1:80:":         "t1",
	"10.0.0.2:8080:":       "t2",
	"10.0.0.1:443:":        "t3",
	"LOCAL:80:localhost":   "t4",
	"default_authsvc_8080": "t5",
	"other_authsvc2_8080":  "t6",
}

var c18Plc = map[string]string{"b": "backend", "f": "frontend", "t": "fronted", "B": "Backend", "F": "FRONTEND"}
var c18OAuth = map[string]string{"o": "oauth2_proxy", "d": "oauth2-proxy", "m": "oauth2_proxy", "u": "other_impl", "e": ""}
var c18Paths = map[int]string{0: "/a", 1: "/b", 2: "/c", 9: "/oauth2"}
var c18Svcs = map[int]string{0: "echo0", 1: "echo1", 2: "oauth2proxy", 3: "echo3"}

func (s *c18Scenario) args() string {
	b := func(v bool) string {
		if v {
			return "1"
		}
		return "0"
	}
	p := make([]string, len(s.ings))
	for i, g := range s.ings {
		sg := "-"
		if g.signin {
			sg = "s"
		}
		p[i] = fmt.Sprintf("%d.%d.%d.%c.%s.%s.%s.%s", g.host, g.path, g.svc, g.match, g.url, g.plc, g.oauth, sg)
	}
	x := ""
	if s.xns {
		x = "c1"
	}
	return fmt.Sprintf("x%sl%s%sr%s %s", b(s.ext), b(s.lua), x, s.rng, strings.Join(p, ","))
}

func c18Parse(a []string) (*c18Scenario, error) {
	if len(a) != 2 {
		return nil, fmt.Errorf("want 2 fields, got %d", len(a))
	}
	g := a[0]
	if len(g) < 6 || g[0] != 'x' || g[2] != 'l' {
		return nil, fmt.Errorf("bad global token %q", g)
	}
	sc := &c18Scenario{ext: g[1] == '1', lua: g[3] == '1'}
	g = g[4:]
	if len(g) >= 2 && g[0] == 'c' {
		sc.xns = g[1] == '1'
		g = g[2:]
	}
	if len(g) < 2 || g[0] != 'r' {
		return nil, fmt.Errorf("bad global token %q", a[0])
	}
	sc.rng = g[1:]
	for _, t := range strings.Split(a[1], ",") {
		f := strings.Split(t, ".")
		if len(f) != 8 || len(f[3]) != 1 || (f[7] != "-" && f[7] != "s") {
			return nil, fmt.Errorf("bad ingress token %q", t)
		}
		var g c18Ing
		var err error
		if g.host, err = strconv.Atoi(f[0]); err != nil {
			return nil, err
		}
		if g.path, err = strconv.Atoi(f[1]); err != nil {
			return nil, err
		}
		if g.svc, err = strconv.Atoi(f[2]); err != nil {
			return nil, err
		}
		g.match, g.url, g.plc, g.oauth, g.signin = f[3][0], f[4], f[5], f[6], f[7] == "s"
		if _, ok := c18Paths[g.path]; !ok {
			return nil, fmt.Errorf("bad path %d", g.path)
		}
		if _, ok := c18Svcs[g.svc]; !ok {
			return nil, fmt.Errorf("bad svc %d", g.svc)
		}
		if _, ok := c18URLs[g.url]; !ok && g.url != "-" {
			return nil, fmt.Errorf("bad url %q", g.url)
		}
		if _, ok := c18Plc[g.plc]; !ok && g.plc != "-" {
			return nil, fmt.Errorf("bad placement %q", g.plc)
		}
		if _, ok := c18OAuth[g.oauth]; !ok && g.oauth != "-" {
			return nil, fmt.Errorf("bad oauth %q", g.oauth)
		}
		sc.ings = append(sc.ings, g)
	}
	return sc, nil
}

// ---------------------------------------------------------------- real code

type c18Logger struct{ lines []string }

func (l *c18Logger) InfoV(v int, msg string, args ...interface{}) {}
func (l *c18Logger) Info(msg string, args ...interface{})         {}
func (l *c18Logger) Warn(msg string, args ...interface{}) {
	l.lines = append(l.lines, "WARN "+fmt.Sprintf(msg, args...))
}
func (l *c18Logger) Error(msg string, args ...interface{}) {
	l.lines = append(l.lines, "ERROR "+fmt.Sprintf(msg, args...))
}
func (l *c18Logger) Fatal(msg string, args ...interface{}) {
	panic("FATAL " + fmt.Sprintf(msg, args...))
}

type c18Queue struct{}

func (c18Queue) Add(item interface{})                       {}
func (c18Queue) AddAfter(item interface{}, d time.Duration) {}
func (c18Queue) Remove(item interface{})                    {}
func (c18Queue) Start(context.Context) error                { return nil }

type c18Metrics struct{}

func (c18Metrics) HAProxyShowInfoResponseTime(d time.Duration)              {}
func (c18Metrics) HAProxySetServerResponseTime(d time.Duration)             {}
func (c18Metrics) HAProxySetSSLCertResponseTime(d time.Duration)            {}
func (c18Metrics) ControllerProcTime(task string, d time.Duration)          {}
func (c18Metrics) AddIdleFactor(idle int)                                   {}
func (c18Metrics) IncUpdateNoop()                                           {}
func (c18Metrics) IncUpdateDynamic()                                        {}
func (c18Metrics) IncUpdateFull()                                           {}
func (c18Metrics) UpdateSuccessful(success bool)                            {}
func (c18Metrics) SetCertExpireDate(domain, cn string, notAfter *time.Time) {}
func (c18Metrics) ClearCertExpire()                                         {}
func (c18Metrics) IncCertSigningMissing(domains string, success bool)       {}
func (c18Metrics) IncCertSigningExpiring(domains string, success bool)      {}
func (c18Metrics) IncCertSigningOutdated(domains string, success bool)      {}

func c18Service(ns, name string) (*api.Service, *api.Endpoints) {
	svc := &api.Service{
		ObjectMeta: metav1.ObjectMeta{Namespace: ns, Name: name},
		Spec: api.ServiceSpec{
			ClusterIP: "10.0.0.9",
			Ports:     []api.ServicePort{{Port: 8080, TargetPort: intstr.FromInt(8080)}},
		},
	}
	ep := &api.Endpoints{
		ObjectMeta: metav1.ObjectMeta{Namespace: ns, Name: name},
		Subsets: []api.EndpointSubset{{
			Addresses: []api.EndpointAddress{{IP: "172.17.0.11"}},
			Ports:     []api.EndpointPort{{Port: 8080, Protocol: api.ProtocolTCP}},
		}},
	}
	return svc, ep
}

func c18Host(i int) string { return fmt.Sprintf("h%d.local", i) }

var c18Debug = os.Getenv("C18_DEBUG") != ""

var c18EnvSeq atomic.Int64

// C18_SAMPLE=n: debugging aid, sample order-sensitive scenarios until n quiet runs and print the histogram
var c18Sample, _ = strconv.Atoi(os.Getenv("C18_SAMPLE"))

// c18Env: one controller under test — mock cache, real tracker, real haproxy.Instance writing into a
// scratch directory, and the converter options of the scenario's globals.
type c18Env struct {
	logger   *c18Logger
	trk      convtypes.Tracker
	cache    *conv_helper.CacheMock
	tmp      string
	instance haproxy.Instance
	hconfig  haproxy.Config
	opts     *convtypes.ConverterOptions
	global   map[string]string
	parsed   bool
	dirs     bool // scratch directories created (on the first render)
}

func (e *c18Env) close() {
	if e.dirs {
		os.RemoveAll(e.tmp)
	}
}

// c18NewEnv: pads = number of padding services (see c18Run)
func c18NewEnv(sc *c18Scenario, pads int) (*c18Env, error) {
	e := &c18Env{logger: &c18Logger{}}
	e.trk = tracker.NewTracker()
	e.cache = conv_helper.NewCacheMock(e.trk)
	tmp := filepath.Join(os.TempDir(), fmt.Sprintf("c18cfg-%d-%d", os.Getpid(), c18EnvSeq.Add(1)))
	e.tmp = tmp
	e.instance = haproxy.CreateInstance(e.logger, haproxy.InstanceOptions{
		RootFSPrefix:    "/repo/rootfs",
		LocalFSPrefix:   tmp,
		HAProxyCfgDir:   filepath.Join(tmp, "etc"),
		HAProxyMapsDir:  filepath.Join(tmp, "maps"),
		IsExternal:      true,
		MasterSocket:    filepath.Join(tmp, "var", "master.sock"),
		AdminSocket:     filepath.Join(tmp, "var", "admin.sock"),
		Metrics:         c18Metrics{},
		ReloadQueue:     c18Queue{},
		SortEndpointsBy: "endpoint",
	})
	e.hconfig = e.instance.Config()
	e.global = map[string]string{}
	if sc.lua {
		e.global["external-has-lua"] = "true"
	}
	if sc.xns {
		e.global["cross-namespace-services"] = "allow"
	}
	switch sc.rng {
	case "d":
	case "i":
		e.global["auth-proxy"] = "no range here"
	default:
		n, err := strconv.Atoi(sc.rng)
		if err != nil {
			e.close()
			return nil, fmt.Errorf("bad range %q", sc.rng)
		}
		e.global["auth-proxy"] = fmt.Sprintf("_front__auth:%d-%d", c18PortBase, c18PortBase+n-1)
	}
	e.opts = &convtypes.ConverterOptions{
		Cache:            e.cache,
		Logger:           e.logger,
		Tracker:          e.trk,
		DynamicConfig:    &convtypes.DynamicConfig{CrossNamespaceServices: true},
		AnnotationPrefix: []string{c18Prefix},
		IsExternal:       sc.ext,
		FakeCrtFile:      convtypes.CrtFile{Filename: "/tls/fake.pem", SHA1Hash: "1"},
	}
	svcNames := []string{"default/echo0", "default/echo1", "default/oauth2proxy", "default/echo3", "default/authsvc", "other/authsvc2"}
	for i := 0; i < pads; i++ {
		svcNames = append(svcNames, fmt.Sprintf("default/pad%02d", i))
	}
	for _, n := range svcNames {
		p := strings.Split(n, "/")
		svc, ep := c18Service(p[0], p[1])
		e.cache.SvcList = append(e.cache.SvcList, svc)
		e.cache.EpList[n] = ep
	}
	e.cache.ConfigMapList = map[string]*api.ConfigMap{}
	return e, nil
}

func c18PathType(match byte) networking.PathType {
	switch match {
	case 'p':
		return networking.PathTypePrefix
	case 'e':
		return networking.PathTypeExact
	}
	return networking.PathTypeImplementationSpecific
}

func c18MkIngress(name, host, path, svc string, pt networking.PathType, ann map[string]string) *networking.Ingress {
	return &networking.Ingress{
		ObjectMeta: metav1.ObjectMeta{Namespace: "default", Name: name, Annotations: ann},
		Spec: networking.IngressSpec{
			Rules: []networking.IngressRule{{
				Host: host,
				IngressRuleValue: networking.IngressRuleValue{HTTP: &networking.HTTPIngressRuleValue{
					Paths: []networking.HTTPIngressPath{{
						Path:     path,
						PathType: &pt,
						Backend: networking.IngressBackend{Service: &networking.IngressServiceBackend{
							Name: svc, Port: networking.ServiceBackendPort{Number: 8080},
						}},
					}},
				}},
			}},
		},
	}
}

// c18Ingress: the Ingress object of one grammar token
func c18Ingress(name string, g c18Ing) *networking.Ingress {
	ann := map[string]string{}
	if g.url != "-" {
		ann[c18Prefix+"/auth-url"] = c18URLs[g.url]
	}
	if g.plc != "-" {
		ann[c18Prefix+"/auth-external-placement"] = c18Plc[g.plc]
	}
	if g.signin {
		ann[c18Prefix+"/auth-signin"] = "/login"
	}
	if g.oauth != "-" {
		ann[c18Prefix+"/oauth"] = c18OAuth[g.oauth]
		if g.oauth == "m" {
			ann[c18Prefix+"/oauth-uri-prefix"] = "/nope"
		}
	}
	return c18MkIngress(name, c18Host(g.host), c18Paths[g.path], c18Svcs[g.svc], c18PathType(g.match), ann)
}

func (e *c18Env) debugLog() {
	if c18Debug {
		for _, l := range e.logger.lines {
			fmt.Fprintln(os.Stderr, "  log:", l)
		}
		e.logger.lines = nil
	}
}

// binds: Frontend.AuthProxy.BindList in the canonical form
func (e *c18Env) binds() string {
	proxy := &e.hconfig.Frontend().AuthProxy
	var binds []string
	for _, b := range proxy.BindList {
		binds = append(binds, c18Name(b.AuthBackendName)+">"+c18Target(e.hconfig, b.Backend))
	}
	if len(binds) == 0 {
		return "-"
	}
	return strings.Join(binds, ",")
}

// render: what a reconciliation does after the converters ran — instance.HAProxyUpdate (sync, shrink,
// write, commit) — and the sections of the configuration file on disk
func (e *c18Env) render() (map[string][]string, error) {
	if !e.dirs {
		e.dirs = true
		for _, d := range []string{"etc", "etc/lua", "etc/errorfiles", "maps", "var"} {
			if err := os.MkdirAll(filepath.Join(e.tmp, d), 0o755); err != nil {
				return nil, err
			}
		}
	}
	if !e.parsed {
		if err := e.instance.ParseTemplates(); err != nil {
			return nil, err
		}
		e.parsed = true
	}
	if err := e.instance.HAProxyUpdate(utils.NewTimer(nil)); err != nil {
		return nil, err
	}
	data, err := os.ReadFile(filepath.Join(e.tmp, "etc", "haproxy.cfg"))
	if err != nil {
		return nil, err
	}
	sections := c18Sections(string(data))
	if c18Debug {
		for name, lines := range sections {
			for _, l := range lines {
				if strings.Contains(l, "auth") || strings.HasPrefix(l, "http-request deny") {
					fmt.Fprintf(os.Stderr, "  cfg[%s]: %s\n", name, l)
				}
			}
		}
	}
	return sections, nil
}

// observe: the per path records of the given ingresses, from the model objects and the rendered sections
func (e *c18Env) observe(sections map[string][]string, ings []c18Ing) ([]string, error) {
	var out []string
	for _, g := range ings {
		rec, _, err := e.observePath(sections, c18Host(g.host), c18Paths[g.path], g.match == 'e')
		if err != nil {
			return nil, err
		}
		out = append(out, rec)
	}
	return out, nil
}

// observePath: the record of one path (`exact`: the request sample below the path is the path itself)
// and the id of the backend that serves it
func (e *c18Env) observePath(sections map[string][]string, hostname, path string, exact bool) (string, string, error) {
	hconfig := e.hconfig
	host := hconfig.Hosts().FindHost(hostname)
	if host == nil {
		return "", "", fmt.Errorf("host %s missing", hostname)
	}
	var hp *hatypes.HostPath
	for _, p := range host.Paths {
		if p.Path() == path {
			if hp != nil {
				return "", "", fmt.Errorf("duplicated host path %s%s", hostname, path)
			}
			hp = p
		}
	}
	if hp == nil {
		return "", "", fmt.Errorf("host path %s%s missing", hostname, path)
	}
	backend := hconfig.Backends().FindBackend(hp.Backend.Namespace, hp.Backend.Name, hp.Backend.Port)
	if backend == nil {
		return "", "", fmt.Errorf("backend %s missing", hp.Backend.ID)
	}
	bp := backend.FindBackendPath(hp.Link)
	if bp == nil {
		return "", "", fmt.Errorf("backend path of %s%s missing", hostname, path)
	}
	frec := "nil"
	if hp.AuthExt != nil {
		frec = c18Rec(hp.AuthExt)
	}
	// rendered rules
	bsec, ok := sections["backend "+backend.ID]
	if !ok {
		return "", "", fmt.Errorf("section of backend %s missing", backend.ID)
	}
	rb, err := c18Resolve(bsec, func(cd c18Cond) (bool, error) {
		if cd.fetch == "var(txn.pathID)" && cd.method == "str" {
			return c18In(cd.pats, bp.ID), nil
		}
		return false, fmt.Errorf("unexpected guard %q in backend section", cd.raw)
	})
	if err != nil {
		return "", "", err
	}
	var rf [2]string
	samples := [2]string{hostname + "#" + path, hostname + "#" + path + "/sub"}
	if exact {
		samples[1] = samples[0]
	}
	for k, base := range samples {
		var all []string
		names := make([]string, 0, 2)
		for name := range sections {
			if name == "frontend _front_http" || name == "frontend _front_https" || strings.HasPrefix(name, "frontend _front_https__") {
				names = append(names, name)
			}
		}
		sort.Strings(names)
		var per []string
		for _, name := range names {
			r, err := c18Resolve(sections[name], func(cd c18Cond) (bool, error) {
				if cd.fetch == "var(req.base)" {
					return c18ACL(cd.method, cd.pats, base)
				}
				return false, fmt.Errorf("unexpected guard %q in %s", cd.raw, name)
			})
			if err != nil {
				return "", "", err
			}
			per = append(per, r)
		}
		// both the plain and the TLS frontend carry the rules: they must agree
		for _, r := range per {
			if r != per[0] {
				return "", "", fmt.Errorf("frontends disagree on %s: %v", base, per)
			}
		}
		if len(per) == 0 {
			return "", "", fmt.Errorf("no http frontend rendered")
		}
		all = append(all, per[0])
		rf[k] = strings.Join(all, "+")
	}
	return fmt.Sprintf("B=%s;F=%s;RB=%s;R0=%s;R1=%s", c18Rec(&bp.AuthExternal), frec, rb, rf[0], rf[1]), backend.ID, nil
}

// c18Run returns the implementation output of one scenario.  With pad, three extra ingresses
// (own host, own service, no authentication) are registered after every ingress of the scenario:
// they only spread the scenario's hosts and backends over the Go maps the converter iterates,
// so that every iteration order shows up with a fair probability (see c18Exec).
func c18Run(sc *c18Scenario, pad bool) (string, error) {
	pads := 0
	if pad {
		pads = 3 * len(sc.ings)
	}
	e, err := c18NewEnv(sc, pads)
	if err != nil {
		return "", err
	}
	defer e.close()
	for i, g := range sc.ings {
		if pad {
			for k := 0; k < 3; k++ {
				n := 3*i + k
				e.cache.IngList = append(e.cache.IngList, c18MkIngress(fmt.Sprintf("ing%02dpad%d", i+1, k),
					fmt.Sprintf("pad%02d.local", n), "/pad", fmt.Sprintf("pad%02d", n), c18PathType(g.match), nil))
			}
		}
		e.cache.IngList = append(e.cache.IngList, c18Ingress(fmt.Sprintf("ing%02d", i+1), g))
	}
	changed := &convtypes.ChangedObjects{GlobalConfigMapDataNew: e.global}
	ingress.NewIngressConverter(e.opts, e.hconfig, changed).Sync(true)
	e.debugLog()
	bs := e.binds()
	sections, err := e.render()
	if err != nil {
		return "", err
	}
	out, err := e.observe(sections, sc.ings)
	if err != nil {
		return "", err
	}
	return strings.Join(out, "|") + "||" + bs, nil
}

func c18In(xs []string, x string) bool {
	for _, y := range xs {
		if x == y {
			return true
		}
	}
	return false
}

// c18ACL: HAProxy's `<sample> -m <method> <pattern>...` (configuration.txt 7.1): every word after the
// flags is a pattern; the ACL is true when any pattern matches with the given method.
func c18ACL(method string, pats []string, sample string) (bool, error) {
	for _, p := range pats {
		switch method {
		case "str":
			if sample == p {
				return true, nil
			}
		case "beg":
			if strings.HasPrefix(sample, p) {
				return true, nil
			}
		case "dir":
			// subdir match: pattern delimited by slashes inside the sample
			s := "/" + strings.Trim(sample, "/") + "/"
			q := "/" + strings.Trim(p, "/") + "/"
			if strings.Contains(s, q) {
				return true, nil
			}
		default:
			return false, fmt.Errorf("match method %q not supported by the evaluator", method)
		}
	}
	return false, nil
}

func c18Name(n string) string {
	if n == "" {
		return "-"
	}
	if strings.HasPrefix(n, "_auth_") {
		if p, err := strconv.Atoi(n[len("_auth_"):]); err == nil {
			return "a" + strconv.Itoa(p-c18PortBase)
		}
	}
	if n == "default_oauth2proxy_8080" {
		return "o"
	}
	return "?" + n
}

func c18Target(cfg haproxy.Config, id hatypes.BackendID) string {
	if id.Namespace == "_auth" {
		b := cfg.Backends().FindBackend(id.Namespace, id.Name, id.Port)
		if b == nil {
			return "?dangling:" + id.String()
		}
		var ips []string
		for _, ep := range b.Endpoints {
			ips = append(ips, ep.IP)
		}
		sort.Strings(ips)
		hostname := ""
		for _, l := range b.CustomConfig {
			if strings.HasPrefix(l, "http-request set-header Host ") {
				hostname = strings.TrimPrefix(l, "http-request set-header Host ")
			}
		}
		key := strings.Join(ips, ",")
		if hostname != "" {
			key = "LOCAL" // the addresses a name resolves to depend on the machine
		}
		key += ":" + id.Port + ":" + hostname
		if t, ok := c18Targets[key]; ok {
			return t
		}
		return "?" + key
	}
	if t, ok := c18Targets[id.String()]; ok {
		return t
	}
	return "?" + id.String()
}

func c18Str(s string) string {
	if s == "" {
		return "-"
	}
	return strings.ReplaceAll(s, " ", "%20")
}

func c18Rec(a *hatypes.AuthExternal) string {
	d, r := "-", "-"
	if a.AlwaysDeny {
		d = "D"
	}
	if a.RedirectOnFail != "" {
		r = "R"
	}
	return fmt.Sprintf("%s,%s,%s,%s,%s", d, c18Name(a.AuthBackendName), c18Str(a.AuthPath), c18Str(a.AllowedPath), r)
}

// ---------------------------------------------------------------- rendered configuration

func c18Sections(cfg string) map[string][]string {
	res := map[string][]string{}
	cur := ""
	for _, l := range strings.Split(cfg, "\n") {
		if l == "" || strings.HasPrefix(strings.TrimSpace(l), "#") {
			continue
		}
		if l[0] != ' ' && l[0] != '\t' {
			cur = strings.Join(strings.Fields(l), " ")
			res[cur] = nil
			continue
		}
		res[cur] = append(res[cur], strings.Join(strings.Fields(l), " "))
	}
	return res
}

type c18Cond struct {
	neg    bool
	raw    string
	fetch  string
	method string
	pats   []string
}

// c18Conds splits `{ a b } !{ c d }` into conditions
func c18Conds(s string) ([]c18Cond, error) {
	var res []c18Cond
	w := strings.Fields(s)
	for i := 0; i < len(w); {
		neg := false
		switch w[i] {
		case "{":
		case "!{":
			neg = true
		default:
			return nil, fmt.Errorf("condition %q: unexpected word %q", s, w[i])
		}
		j := i + 1
		for j < len(w) && w[j] != "}" {
			j++
		}
		if j == len(w) {
			return nil, fmt.Errorf("condition %q: unbalanced", s)
		}
		in := w[i+1 : j]
		cd := c18Cond{neg: neg, raw: strings.Join(in, " ")}
		if len(in) > 0 {
			cd.fetch = in[0]
			k := 1
			for k < len(in) && strings.HasPrefix(in[k], "-") {
				if in[k] == "-m" && k+1 < len(in) {
					cd.method = in[k+1]
					k += 2
					continue
				}
				k++
			}
			for _, p := range in[k:] {
				cd.pats = append(cd.pats, strings.Trim(p, "'"))
			}
		}
		res = append(res, cd)
		i = j + 1
	}
	return res, nil
}

// c18Resolve lists the authentication rules of a section that apply when `guard` decides the
// scoping conditions (path id / request base)
func c18Resolve(lines []string, guard func(c18Cond) (bool, error)) (string, error) {
	var out []string
	for _, l := range lines {
		if !strings.HasPrefix(l, "http-request ") {
			continue
		}
		rest := strings.TrimPrefix(l, "http-request ")
		action, cond := rest, ""
		if i := strings.Index(rest, " if "); i >= 0 {
			action, cond = rest[:i], rest[i+4:]
		} else if strings.HasSuffix(rest, " if") {
			action = strings.TrimSuffix(rest, " if")
		}
		aw := strings.Fields(action)
		kind := ""
		switch {
		case aw[0] == "deny" && len(aw) == 1:
			kind = "deny"
		case aw[0] == "lua.auth-intercept":
			if len(aw) != 7 {
				return "", fmt.Errorf("auth-intercept with %d words: %q", len(aw), l)
			}
			kind = "icpt"
		case aw[0] == "redirect" && strings.Contains(cond, "txn.auth_response_successful"):
			kind = "redir"
		default:
			continue
		}
		conds, err := c18Conds(cond)
		if err != nil {
			return "", err
		}
		applies, unless, allowed := true, false, "-"
		for _, cd := range conds {
			switch {
			case cd.neg && cd.raw == "var(txn.auth_response_successful) -m bool":
				unless = true
			case cd.neg && cd.fetch == "path_beg" && len(cd.pats) == 1:
				allowed = cd.pats[0]
			case !cd.neg && (cd.fetch == "var(txn.pathID)" || cd.fetch == "var(req.base)"):
				ok, err := guard(cd)
				if err != nil {
					return "", err
				}
				if !ok {
					applies = false
				}
			default:
				return "", fmt.Errorf("unexpected condition %q in %q", cd.raw, l)
			}
		}
		if !applies {
			continue
		}
		switch {
		case kind == "deny" && !unless && allowed == "-":
			out = append(out, "deny")
		case kind == "deny" && unless:
			out = append(out, "unless-deny("+allowed+")")
		case kind == "redir" && unless:
			out = append(out, "unless-redir("+allowed+")")
		case kind == "icpt" && !unless:
			out = append(out, fmt.Sprintf("icpt(%s,%s,%s)", c18Name(aw[1]), aw[2], allowed))
		default:
			return "", fmt.Errorf("unexpected rule shape %q", l)
		}
	}
	if len(out) == 0 {
		return "-", nil
	}
	return strings.Join(out, "+"), nil
}

// ---------------------------------------------------------------- emit

func c18Once(sc *c18Scenario, pad bool) (out string) {
	defer func() {
		if r := recover(); r != nil {
			out = "PANIC"
			fmt.Fprintf(os.Stderr, "C18 panic on %s: %v\n", sc.args(), r)
		}
	}()
	res, err := c18Run(sc, pad)
	if err != nil {
		fmt.Fprintf(os.Stderr, "C18 harness error on %s: %v\n", sc.args(), err)
		return "ERROR"
	}
	return res
}

// c18OrderSensitive: the converter walks Hosts().Items() and Backends().Items(), two Go maps. The
// outcome can depend on that order only when two hosts (frontend placement) or two backends acquire
// auth-proxy ports for different targets: they compete for the ports and their numbers.
// Over-approximation; a scenario wrongly taken for insensitive would still be checked correctly (the
// driver accepts the model output of any order), only its line could differ between two runs.
func c18OrderSensitive(sc *c18Scenario) bool {
	n, err := strconv.Atoi(sc.rng)
	if (err == nil && n == 0) || sc.rng == "i" || (sc.ext && !sc.lua) {
		return false // nothing is ever acquired
	}
	// the target a URL of the grammar resolves to ("" = setAuthExternal returns before acquiring)
	target := map[string]string{"h1": "t1", "h2": "t2", "hs": "t3", "hq": "t1", "hl": "t4", "s1": "t5", "sv": "t5"}
	if sc.xns {
		target["so"] = "t6"
	}
	hostPlc, hostURL := map[int]string{}, map[int]string{}
	backT := map[int]map[string]bool{}
	for _, g := range sc.ings {
		if _, ok := hostPlc[g.host]; !ok && g.plc != "-" {
			hostPlc[g.host] = strings.ToLower(c18Plc[g.plc])
		}
		if _, ok := hostURL[g.host]; !ok && g.url != "-" {
			hostURL[g.host] = g.url
		}
		if t := target[g.url]; t != "" && (g.plc == "-" || g.plc == "b" || g.plc == "B") {
			if backT[g.svc] == nil {
				backT[g.svc] = map[string]bool{}
			}
			backT[g.svc][t] = true
		}
	}
	hostT := map[string]int{}
	for h, p := range hostPlc {
		if t := target[hostURL[h]]; p == "frontend" && t != "" {
			hostT[t]++
		}
	}
	if len(hostT) >= 2 {
		return true
	}
	union := map[string]bool{}
	for _, ts := range backT {
		for t := range ts {
			union[t] = true
		}
	}
	return len(backT) >= 2 && len(union) >= 2
}

// c18Exec: the canonical implementation output of a scenario. An order-insensitive scenario is run
// once. An order-sensitive one is run (padded, see c18Run) until 30 runs in a row brought no new
// output, and the smallest output seen is reported: the map iteration order of the real code
// cannot be seeded, this makes the reported line a function of the scenario.
func c18Exec(sc *c18Scenario) (out string, distinct int) {
	if !c18OrderSensitive(sc) {
		return c18Once(sc, false), 1
	}
	seen := map[string]int{}
	quiet := 0
	limit := 30
	if c18Sample > 0 {
		limit = c18Sample
	}
	for n := 0; n < 400 && quiet < limit; n++ {
		o := c18Once(sc, true)
		if seen[o] > 0 {
			seen[o]++
			quiet++
			continue
		}
		seen[o] = 1
		quiet = 0
		if out == "" || o < out {
			out = o
		}
	}
	if c18Sample > 0 {
		fmt.Fprintf(os.Stderr, "C18 sample %s:", sc.args())
		for _, n := range seen {
			fmt.Fprintf(os.Stderr, " %d", n)
		}
		fmt.Fprintln(os.Stderr)
	}
	return out, len(seen)
}

func c18case(c *ctx, sc *c18Scenario) {
	out, d := c18Exec(sc)
	c18emit(c, sc, out, d)
}

func c18emit(c *ctx, sc *c18Scenario, out string, distinct int) {
	c.emit("C18", sc.args(), out)
	c.stat("scenarios", 1)
	if c18OrderSensitive(sc) {
		c.stat("order_sensitive_sampled", 1)
		c.stat(fmt.Sprintf("order_outputs_%d", distinct), 1)
	}
	c.stat(fmt.Sprintf("paths_%d", len(sc.ings)), 1)
	hosts, backs := map[int]int{}, map[int]int{}
	for _, g := range sc.ings {
		hosts[g.host]++
		backs[g.svc]++
		if g.url != "-" {
			c.stat("url_"+g.url, 1)
		}
		if g.plc != "-" {
			c.stat("placement_"+g.plc, 1)
		}
		if g.oauth != "-" {
			c.stat("oauth_"+g.oauth, 1)
		}
		if g.signin {
			c.stat("signin", 1)
		}
	}
	for _, n := range hosts {
		if n > 1 {
			c.stat("shared_host", 1)
			break
		}
	}
	for _, n := range backs {
		if n > 1 {
			c.stat("shared_backend", 1)
			break
		}
	}
	c.stat("range_"+sc.rng, 1)
	if sc.ext && !sc.lua {
		c.stat("external_without_lua", 1)
	}
	for _, k := range []string{"RB=deny", "RB=icpt", "R0=deny", "R0=icpt", "unless-redir"} {
		if strings.Contains(out, k) {
			c.stat("out_"+strings.NewReplacer("=", "_", "-", "_").Replace(k), 1)
		}
	}
}

// c18Batch runs the scenarios on a few workers (each has its own converter, instance and scratch
// directory) and emits the lines in list order
func c18Batch(c *ctx, scs []*c18Scenario) {
	outs := make([]string, len(scs))
	dist := make([]int, len(scs))
	workers := runtime.NumCPU() / 2
	if workers > 6 {
		workers = 6
	}
	if workers < 1 {
		workers = 1
	}
	var wg sync.WaitGroup
	next := make(chan int, 64)
	for w := 0; w < workers; w++ {
		wg.Add(1)
		go func() {
			defer wg.Done()
			for i := range next {
				outs[i], dist[i] = c18Exec(scs[i])
			}
		}()
	}
	for i := range scs {
		next <- i
	}
	close(next)
	wg.Wait()
	for i, sc := range scs {
		c18emit(c, sc, outs[i], dist[i])
	}
}

// ---------------------------------------------------------------- allocation sub-protocol
//
// `C18 alloc <rs> <re> <op>,<op>... => <answer>,...||<binds>`: the real hatypes.Frontend with the
// range [base+rs, base+re]; ops: q<t> AcquireAuthBackendName(backend t), k<p>.<p>.. RemoveAuthBackendExcept
// (names of the ports base+p), d<t>.<t>.. RemoveAuthBackendByTarget, r<rs>.<re> new range.

var c18AllocTargets = func() []hatypes.BackendID {
	bs := hatypes.CreateBackends(0)
	var ids []hatypes.BackendID
	for i := 0; i < 8; i++ {
		ids = append(ids, bs.AcquireBackend("ns", fmt.Sprintf("t%d", i), "80").BackendID())
	}
	return ids
}()

func c18Nums(s string) ([]int, error) {
	if s == "" {
		return nil, nil
	}
	var res []int
	for _, p := range strings.Split(s, ".") {
		n, err := strconv.Atoi(p)
		if err != nil {
			return nil, err
		}
		res = append(res, n)
	}
	return res, nil
}

func c18AllocRun(rs, re int, ops []string) (string, error) {
	f := &hatypes.Frontend{}
	f.AuthProxy.RangeStart, f.AuthProxy.RangeEnd = c18PortBase+rs, c18PortBase+re
	var answers []string
	for _, op := range ops {
		if op == "" {
			return "", fmt.Errorf("empty op")
		}
		ns, err := c18Nums(op[1:])
		if err != nil {
			return "", err
		}
		switch op[0] {
		case 'q':
			if len(ns) != 1 || ns[0] >= len(c18AllocTargets) {
				return "", fmt.Errorf("bad op %q", op)
			}
			name, err := f.AcquireAuthBackendName(c18AllocTargets[ns[0]])
			if err != nil {
				if err.Error() != "auth proxy list is full" {
					return "", fmt.Errorf("unexpected error %v", err)
				}
				answers = append(answers, "E")
			} else {
				answers = append(answers, c18Name(name))
			}
		case 'k':
			used := map[string]bool{}
			for _, p := range ns {
				used[fmt.Sprintf("_auth_%d", c18PortBase+p)] = true
			}
			f.RemoveAuthBackendExcept(used)
		case 'd':
			var ts []string
			for _, t := range ns {
				ts = append(ts, c18AllocTargets[t].String())
			}
			f.RemoveAuthBackendByTarget(ts)
		case 'r':
			if len(ns) != 2 {
				return "", fmt.Errorf("bad op %q", op)
			}
			f.AuthProxy.RangeStart, f.AuthProxy.RangeEnd = c18PortBase+ns[0], c18PortBase+ns[1]
		default:
			return "", fmt.Errorf("bad op %q", op)
		}
	}
	var binds []string
	for _, b := range f.AuthProxy.BindList {
		if b.AuthBackendName != fmt.Sprintf("_auth_%d", b.LocalPort) || b.SocketID != 10000+b.LocalPort {
			return "", fmt.Errorf("bind %+v: name/socket id do not follow the port", *b)
		}
		binds = append(binds, c18Name(b.AuthBackendName)+">"+b.Backend.Name)
	}
	a, b := "-", "-"
	if len(answers) > 0 {
		a = strings.Join(answers, ",")
	}
	if len(binds) > 0 {
		b = strings.Join(binds, ",")
	}
	return a + "||" + b, nil
}

func c18AllocCase(c *ctx, rs, re int, ops []string) {
	var out string
	func() {
		defer func() {
			if r := recover(); r != nil {
				out = "PANIC"
				fmt.Fprintf(os.Stderr, "C18 alloc panic on %d %d %v: %v\n", rs, re, ops, r)
			}
		}()
		res, err := c18AllocRun(rs, re, ops)
		if err != nil {
			out = "ERROR"
			fmt.Fprintf(os.Stderr, "C18 alloc harness error on %d %d %v: %v\n", rs, re, ops, err)
			return
		}
		out = res
	}()
	c.emit("C18", fmt.Sprintf("alloc %d %d %s", rs, re, strings.Join(ops, ",")), out)
	c.stat("alloc_cases", 1)
	if strings.Contains(out, "E") {
		c.stat("alloc_full", 1)
	}
}

func c18AllocReplay(c *ctx, a []string) {
	if len(a) != 3 {
		return
	}
	rs, err1 := strconv.Atoi(a[0])
	re, err2 := strconv.Atoi(a[1])
	if err1 != nil || err2 != nil {
		return
	}
	c18AllocCase(c, rs, re, strings.Split(a[2], ","))
}

// ---------------------------------------------------------------- generators

func c18Must(line string) *c18Scenario {
	sc, err := c18Parse(strings.Fields(line))
	if err != nil {
		panic(fmt.Sprintf("%s: %v", line, err))
	}
	return sc
}

const c18OAuthIng = "0.9.2.b.-.-.-.-" // the ingress that publishes the oauth2-proxy service at /oauth2

var c18URLKeys = []string{"-", "e", "h1", "h2", "hs", "hq", "hl", "hn", "s1", "sv", "sm", "sp", "sx", "so", "sn", "bp", "mf", "sq"}

func c18Random(r *gen.Rng) *c18Scenario {
	sc := &c18Scenario{}
	switch r.Intn(5) {
	case 0:
		sc.ext = true
	case 1:
		sc.ext, sc.lua = true, true
	case 2:
		sc.lua = true
	}
	sc.xns = r.Chance(1, 2)
	sc.rng = gen.Pick(r, []string{"0", "1", "1", "2", "2", "3", "i", "d"})
	n := r.Range(1, 4)
	used := map[[2]int]bool{}
	oauthPublished := false
	for len(sc.ings) < n {
		g := c18Ing{host: r.Intn(2), path: r.Intn(3), svc: r.Intn(2), match: gen.Pick(r, []byte{'b', 'b', 'p', 'e'})}
		if r.Chance(1, 6) && !oauthPublished {
			g.path, g.svc = 9, 2
			g.host = r.Intn(2)
		}
		if used[[2]int{g.host, g.path}] {
			continue
		}
		used[[2]int{g.host, g.path}] = true
		if g.path == 9 {
			oauthPublished = true
		}
		g.url = "-"
		switch r.Intn(10) {
		case 0, 1, 2:
			g.url = gen.Pick(r, []string{"h1", "h2", "hs", "hq", "s1", "so"})
		case 3, 4:
			g.url = gen.Pick(r, c18URLKeys)
		case 5:
			g.url = gen.Pick(r, []string{"mf", "bp", "hn", "sm", "sp", "e"})
		}
		g.plc = gen.Pick(r, []string{"-", "-", "-", "b", "b", "f", "f", "f", "t", "B", "F"})
		g.oauth = gen.Pick(r, []string{"-", "-", "-", "-", "o", "o", "d", "m", "u", "e"})
		g.signin = g.url != "-" && r.Chance(1, 4)
		if g.path == 9 && r.Chance(3, 4) {
			g.url, g.plc, g.oauth, g.signin = "-", "-", "-", false
		}
		sc.ings = append(sc.ings, g)
	}
	return sc
}

func runC18(c *ctx) {
	if os.Getenv("C18_ONLY") == "gw" { // debugging aid: the gateway mode alone
		runC18Gw(c)
		return
	}
	if os.Getenv("C18_ONLY") == "oa" { // debugging aid: the oauth lookup mode alone
		runC18OAuth(c)
		return
	}
	if os.Getenv("C18_ONLY") == "cls" { // debugging aid: the class parameters mode alone
		runC18Cls(c)
		return
	}
	// ---- corpus: minimised findings first
	corpus := []string{
		// fixed 4d834ab: buildBackendOAuth cleared the deny that a malformed auth-url armed
		"x0l0r2 0.0.0.b.mf.b.o.-",
		"x0l0r2 0.0.0.b.mf.-.o.-,0.9.2.b.-.-.-.-",
		"x1l1r2 0.0.0.b.bp.b.d.-",
		"x0l0r0 0.0.0.b.h1.b.o.-", // exhausted port range, then oauth
		// fixed 4d834ab: the precedence test read the backend-wide auth-url, an oauth path of another ingress lost its protection
		"x0l0r2 0.0.0.b.h1.b.-.-,0.1.0.b.-.-.o.-,0.9.2.b.-.-.-.-",
		"x0l0r2 0.0.0.b.h1.f.-.-,1.1.0.b.-.-.o.-,0.9.2.b.-.-.-.-",
		// known: frontend placement is decided per host by the first ingress, a second ingress's frontend auth-url is dropped
		"x0l0r2 0.0.0.b.h1.b.-.-,0.1.1.e.h2.f.-.-",
		"x0l0r2 0.0.0.b.-.b.-.-,0.1.1.e.h2.f.-.-",
		// fixed 48fd9df: names used by frontend-placed paths were not protected from the clean-up of a full port range
		"x0l0r1 0.0.0.e.h1.f.-.-,1.1.1.b.h2.b.-.-",
		"x0l0r1 0.0.0.e.h1.f.-.-,1.1.1.e.h2.f.-.-",
		// known: frontend rule `-m str <match> '<key>'` is an exact comparison
		"x0l0r2 0.0.0.b.h1.f.-.-",
		"x0l0r2 0.0.0.p.mf.f.-.-",
		"x0l0r2 0.0.0.e.h1.f.-.-",
		// known: auth-url with a placement typo switches oauth off
		"x0l0r2 0.0.0.b.h1.t.o.-,0.9.2.b.-.-.-.-",
		// well-behaved cases
		"x0l0r2 0.0.0.b.h1.b.-.-",
		"x0l0r2 0.0.0.b.h1.b.-.s",
		"x0l0r2 0.0.0.b.h1.b.-.-,0.1.0.b.-.-.-.-",
		"x0l0r2 0.0.0.b.-.-.o.-,0.9.2.b.-.-.-.-",
		"x0l0r2 0.0.0.b.-.-.o.-",
		"x1l0r2 0.0.0.b.h1.b.-.-",
		"x1l0r2 0.0.0.b.-.-.o.-,0.9.2.b.-.-.-.-",
		"x0l0ri 0.0.0.b.h1.b.-.-",
		"x0l0rd 0.0.0.b.hl.b.-.-,0.1.0.b.hn.b.-.-",
		"x0l0r1 0.0.0.b.h1.b.-.-,0.1.0.b.h2.b.-.-,1.0.1.b.hq.b.-.-",
		"x0l0r2 0.0.0.b.so.b.-.-",   // service of another namespace: denied unless cross-namespace-services allows it
		"x0l0c1r2 0.0.0.b.so.b.-.-", // ... allowed
		"x0l0c1r2 0.0.0.b.sn.b.-.-",
	}
	for _, l := range corpus {
		c18case(c, c18Must(l))
	}

	// ---- allocator: every op sequence up to a length over a small alphabet, ranges of size 0..3
	ops := []string{"q0", "q1", "q2", "q3", "k", "k0", "k1", "k0.2", "d0", "d1.2", "r1.2", "r0.0"}
	maxLen := 4
	if c.thorough() {
		maxLen = 5
	}
	for _, rng := range [][2]int{{0, -1}, {0, 0}, {0, 1}, {0, 2}, {1, 2}} {
		var rec func(prefix []string)
		rec = func(prefix []string) {
			if len(prefix) > 0 {
				c18AllocCase(c, rng[0], rng[1], prefix)
			}
			if len(prefix) == maxLen {
				return
			}
			for _, o := range ops {
				rec(append(prefix[:len(prefix):len(prefix)], o))
			}
		}
		rec(nil)
	}
	c.stat("alloc_exhaustive_len", maxLen)

	// ---- exhaustive: one declaring path (plus the oauth2-proxy ingress when oauth names it)
	var scs []*c18Scenario
	globs := []string{"x0l0", "x1l0", "x1l1", "x0l0c1"}
	plcs := []string{"-", "b", "f", "t"}
	oauths := []string{"-", "o", "m", "u"}
	rngs := []string{"0", "2"}
	matches := []byte{'b'}
	if c.thorough() {
		plcs = []string{"-", "b", "f", "t", "B", "F"}
		oauths = []string{"-", "o", "d", "m", "u", "e"}
		rngs = []string{"0", "1", "i"}
		matches = []byte{'b', 'e', 'p'}
	}
	for _, gl := range globs {
		for _, rg := range rngs {
			for _, u := range c18URLKeys {
				for _, p := range plcs {
					for _, o := range oauths {
						for mi, m := range matches {
							if mi > 0 && p != "f" && p != "F" {
								continue // the match type only shows in the frontend rule
							}
							line := fmt.Sprintf("%sr%s 0.0.0.%c.%s.%s.%s.-", gl, rg, m, u, p, o)
							if o == "o" || o == "d" {
								line += "," + c18OAuthIng
							}
							scs = append(scs, c18Must(line))
						}
					}
				}
			}
		}
	}
	c.stat("exhaustive_single_path", len(scs))

	// ---- exhaustive: two declaring paths, same/other host x same/other backend
	urls2 := []string{"-", "h1", "h2", "mf"}
	plcs2 := []string{"-", "b", "f"}
	oauths2 := []string{"-", "o"}
	rngs2 := []string{"1"}
	if c.thorough() {
		urls2 = []string{"-", "e", "h1", "h2", "mf", "s1"}
		rngs2 = []string{"1", "2"}
	}
	n0 := len(scs)
	for _, rg := range rngs2 {
		for h2 := 0; h2 < 2; h2++ {
			for b2 := 0; b2 < 2; b2++ {
				for _, u1 := range urls2 {
					for _, u2 := range urls2 {
						for _, p1 := range plcs2 {
							for _, p2 := range plcs2 {
								for _, o1 := range oauths2 {
									for _, o2 := range oauths2 {
										if u1 == "-" && u2 == "-" && o1 == "-" && o2 == "-" {
											continue
										}
										line := fmt.Sprintf("x0l0r%s 0.0.0.e.%s.%s.%s.-,%d.1.%d.e.%s.%s.%s.-", rg, u1, p1, o1, h2, b2, u2, p2, o2)
										if o1 == "o" || o2 == "o" {
											line += "," + c18OAuthIng
										}
										scs = append(scs, c18Must(line))
									}
								}
							}
						}
					}
				}
			}
		}
	}
	c.stat("exhaustive_two_paths", len(scs)-n0)

	// ---- random: 1..4 ingresses, every annotation value of the grammar
	r := gen.New(c.seed)
	n := 1500
	if c.thorough() {
		n = 20000
	}
	for i := 0; i < n; i++ {
		scs = append(scs, c18Random(r))
	}
	c18Batch(c, scs)

	// ---- histories: full sync + commit, then partial syncs (c18hist.go)
	runC18Hist(c)

	// ---- gateway mode: Service annotations through HTTPRoutes, backends reached more than once (c18gw.go)
	runC18Gw(c)

	// ---- oauth lookup mode: literal paths around the uri prefix, two namespaces (c18oauth.go)
	runC18OAuth(c)

	// ---- class parameters mode: auth declared through IngressClass spec.parameters, shared backends (c18cls.go)
	runC18Cls(c)
}
