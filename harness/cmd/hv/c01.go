package main

// C01: incremental (partial) resync converges to the configuration of a full sync.
//
// One case = one history (`C01 hist <op> <op> ... `, op grammar of world/ops.go). The history runs on a
// long-lived REAL pipeline (watchers -> converters + tracker -> instance -> files). After every sync
//   * a fresh pipeline is started on the same cluster state, both normal forms are compared (verdict
//     eq | diff:<first differing line> | err:<..>);
//   * what the real controller did is recorded as one observation token per sync (see c01obs): the batch the
//     real watchers produced (links, added/updated/deleted ingresses, full or partial), the number of dirty
//     hosts/backends the real tracker returned (log line `syncing N host(s) and M backend(s)`), the names the
//     instance reports as changed (`updating N host(s): [...]`), the connected components of the REAL tracker
//     after the sync (read-only QueryLinks), and the hosts/paths/backends of the real haproxy model.
// The Lean driver replays the same history on the model (watchers, trackAddedIngress, tracker closure,
// re-synced ingress list, tracking calls of syncIngress) and must predict every observation.

import (
	"fmt"
	"regexp"
	"slices"
	"sort"
	"strconv"
	"strings"

	convtypes "github.com/jcmoraisjr/haproxy-ingress/pkg/converters/types"

	"hapverif/gen"
	"hapverif/world"
)

func init() {
	props["C01"] = runC01
	replayers["C01"] = func(c *ctx, a []string) {
		if len(a) >= 2 && a[0] == "hist" {
			c01case(c, a[1:])
		}
		if len(a) >= 2 && a[0] == "hosts" {
			c01hostsCase(c, a[1:])
		}
	}
}

func sanitize(s string) string {
	s = strings.ReplaceAll(s, " ", "_")
	s = strings.ReplaceAll(s, "\t", "_")
	if len(s) > 300 {
		s = s[:300]
	}
	return s
}

var kindCode = map[convtypes.ResourceType]string{
	convtypes.ResourceIngress: "I", convtypes.ResourceIngressClass: "C", convtypes.ResourceConfigMap: "M",
	convtypes.ResourceService: "S", convtypes.ResourceEndpoints: "E", convtypes.ResourceSecret: "X",
	convtypes.ResourcePod: "P", convtypes.ResourceHATCPService: "T", convtypes.ResourceHAHostname: "H",
	convtypes.ResourceHABackend: "B", convtypes.ResourceHAUserlist: "U", convtypes.ResourceAcmeData: "A",
}

func code(k convtypes.ResourceType) string {
	if c, ok := kindCode[k]; ok {
		return c
	}
	return "?" + string(k)
}

// c01universe: every kubernetes object name a history can make the controller track (seeds of the
// read-only tracker queries). Every tracker edge has at least one such end.
func c01universe(ops []string) convtypes.TrackingLinks {
	set := map[convtypes.ResourceType]map[string]bool{}
	add := func(k convtypes.ResourceType, n string) {
		if set[k] == nil {
			set[k] = map[string]bool{}
		}
		set[k][n] = true
	}
	for _, o := range ops {
		switch {
		case strings.HasPrefix(o, "ing+"), strings.HasPrefix(o, "ing~"):
			s, err := world.ParseIngress(o[4:])
			if err != nil {
				continue
			}
			ns := s.Namespace
			add(convtypes.ResourceIngress, ns+"/"+s.Name)
			if s.ClassName != nil {
				add(convtypes.ResourceIngressClass, *s.ClassName)
			}
			for _, r := range s.Rules {
				for _, p := range r.Paths {
					add(convtypes.ResourceService, ns+"/"+p.Svc)
					add(convtypes.ResourceEndpoints, ns+"/"+p.Svc)
				}
			}
			if s.DefaultBackend != nil {
				add(convtypes.ResourceService, ns+"/"+s.DefaultBackend.Svc)
				add(convtypes.ResourceEndpoints, ns+"/"+s.DefaultBackend.Svc)
			}
			for _, t := range s.TLS {
				add(convtypes.ResourceSecret, ns+"/"+t.Secret)
				add(convtypes.ResourceSecret, t.Secret)
			}
			for _, v := range s.Annotations {
				// annotation values may name secrets or services (auth-secret, auth-tls-secret, auth-url svc://..)
				add(convtypes.ResourceSecret, ns+"/"+v)
				add(convtypes.ResourceSecret, v)
				if i := strings.Index(v, "://"); i >= 0 {
					h := v[i+3:]
					if j := strings.IndexAny(h, ":/"); j >= 0 {
						h = h[:j]
					}
					add(convtypes.ResourceService, ns+"/"+h)
					add(convtypes.ResourceEndpoints, ns+"/"+h)
				}
			}
		case strings.HasPrefix(o, "ing-"):
			add(convtypes.ResourceIngress, o[4:])
		case strings.HasPrefix(o, "svc"):
			k := strings.SplitN(o[4:], "!", 2)[0]
			add(convtypes.ResourceService, k)
			add(convtypes.ResourceEndpoints, k)
		case strings.HasPrefix(o, "ep"):
			k := strings.SplitN(o[3:], "!", 2)[0]
			add(convtypes.ResourceEndpoints, k)
			add(convtypes.ResourceService, k)
		case strings.HasPrefix(o, "sec"):
			add(convtypes.ResourceSecret, strings.SplitN(o[4:], "!", 2)[0])
		case strings.HasPrefix(o, "cls"):
			add(convtypes.ResourceIngressClass, strings.SplitN(o[4:], ":", 2)[0])
		case strings.HasPrefix(o, "pod"):
			add(convtypes.ResourcePod, strings.SplitN(o[4:], "!", 2)[0])
		case strings.HasPrefix(o, "tcp~"):
			// what an entry of the tcp-services ConfigMap names (the converter tracks none of it: the partition must not show them)
			for _, e := range world.TCPEntries(o[4:]) {
				add(convtypes.ResourceService, e.Svc)
				add(convtypes.ResourceEndpoints, e.Svc)
				if e.Crt != "" {
					add(convtypes.ResourceSecret, e.Crt)
				}
				if e.CA != "" {
					add(convtypes.ResourceSecret, e.CA)
				}
			}
		}
	}
	res := convtypes.TrackingLinks{}
	for k, m := range set {
		for n := range m {
			res[k] = append(res[k], n)
		}
		sort.Strings(res[k])
	}
	return res
}

func flatLinks(l convtypes.TrackingLinks) []string {
	var res []string
	for k, names := range l {
		for _, n := range names {
			res = append(res, code(k)+":"+n)
		}
	}
	sort.Strings(res)
	return res
}

// c01partition: connected components of the real tracker, by read-only queries.
func c01partition(tr convtypes.Tracker, universe convtypes.TrackingLinks) string {
	all := tr.QueryLinks(universe, false)
	type node struct {
		k convtypes.ResourceType
		n string
	}
	var nodes []node
	for k, names := range all {
		for _, n := range names {
			nodes = append(nodes, node{k, n})
		}
	}
	sort.Slice(nodes, func(i, j int) bool {
		return code(nodes[i].k)+":"+nodes[i].n < code(nodes[j].k)+":"+nodes[j].n
	})
	seen := map[node]bool{}
	var comps []string
	for _, nd := range nodes {
		if seen[nd] {
			continue
		}
		comp := tr.QueryLinks(convtypes.TrackingLinks{nd.k: {nd.n}}, false)
		for k, names := range comp {
			for _, n := range names {
				seen[node{k, n}] = true
			}
		}
		seen[nd] = true
		comps = append(comps, strings.Join(flatLinks(comp), ","))
	}
	sort.Strings(comps)
	return strings.Join(comps, "|")
}

var (
	reSyncing  = regexp.MustCompile(`syncing (\d+) host\(s\) and (\d+) backend\(s\)`)
	reUpdHosts = regexp.MustCompile(`updating (\d+) host\(s\): \[(.*)\]`)
	reUpdBacks = regexp.MustCompile(`updating (\d+) backend\(s\): \[(.*)\]`)
)

func ingKeys[T interface{ GetNamespace() string; GetName() string }](l []T) string {
	ks := make([]string, len(l))
	for i, o := range l {
		ks[i] = o.GetNamespace() + "/" + o.GetName()
	}
	sort.Strings(ks)
	return strings.Join(ks, ",")
}

// c01obs renders what the real controller did in one sync (one blank-free token).
func c01obs(p *world.Pipeline, ch *convtypes.ChangedObjects, lines []string, universe convtypes.TrackingLinks) string {
	full := true
	n, m := "-", "-"
	uh, ub := "", ""
	for _, l := range lines {
		if g := reSyncing.FindStringSubmatch(l); g != nil {
			full = false
			n, m = g[1], g[2]
		}
		if g := reUpdHosts.FindStringSubmatch(l); g != nil {
			f := strings.Fields(g[2])
			sort.Strings(f)
			uh = strings.Join(f, ",")
		}
		if g := reUpdBacks.FindStringSubmatch(l); g != nil {
			f := strings.Fields(g[2])
			sort.Strings(f)
			ub = strings.Join(f, ",")
		}
	}
	mode := "P"
	if full {
		mode = "F"
	}
	var hs []string
	cfg := p.Instance.Config()
	for name, h := range cfg.Hosts().Items() {
		if len(h.Paths) == 0 {
			hs = append(hs, name+"^^^")
		}
		for _, hp := range h.Paths {
			b := hp.Backend.ID
			if hp.RedirTo != "" {
				b = "redir"
			}
			hs = append(hs, name+"^"+hp.Path()+"^"+string(hp.Match())+"^"+b)
		}
	}
	sort.Strings(hs)
	var bs []string
	for id := range cfg.Backends().Items() {
		bs = append(bs, id)
	}
	sort.Strings(bs)
	return strings.Join([]string{
		mode,
		"L=" + strings.Join(flatLinks(ch.Links), ","),
		"A=" + ingKeys(ch.IngressesAdd),
		"U=" + ingKeys(ch.IngressesUpd),
		"D=" + ingKeys(ch.IngressesDel),
		"n=" + n + "," + m,
		"uh=" + uh,
		"ub=" + ub,
		"P=" + c01partition(p.Tracker, universe),
		"H=" + strings.Join(hs, ","),
		"B=" + strings.Join(bs, ","),
		"T=" + c01tcpObs(p),
	}, ";")
}

func c01firstDiff(a, b string) string {
	la, lb := strings.Split(a, "\n"), strings.Split(b, "\n")
	for i := 0; i < len(la) || i < len(lb); i++ {
		x, y := "<end>", "<end>"
		if i < len(la) {
			x = la[i]
		}
		if i < len(lb) {
			y = lb[i]
		}
		if x != y {
			return fmt.Sprintf("long[%s] fresh[%s]", x, y)
		}
	}
	return ""
}

type c01result struct {
	verdict string // eq | diff:.. | err:..
	obs     []string
	syncs   int
	partial int
}

// c01run: the history on a long-lived pipeline, compared with a fresh pipeline after every sync.
func c01run(ops []string, observe bool) (res c01result) {
	defer func() {
		if r := recover(); r != nil {
			res.verdict = "err:PANIC-" + sanitize(fmt.Sprint(r))
		}
	}()
	res.verdict = "eq"
	// pseudo ops `opt~db=ns/name` (controller option --default-backend-service) configure both pipelines
	opt, ops := syncOptions(ops)
	opt.KeepLog = true
	w := world.NewWorld()
	p, err := world.NewPipeline(w, opt)
	if err != nil {
		res.verdict = "err:" + sanitize(err.Error())
		return
	}
	defer p.Close()
	reqs, snis := world.RequestsFor(ops)
	universe := c01universe(ops)
	if opt.DefaultBackend != "" {
		// names tracked by syncDefaultBackend (also when the service never exists in the history)
		for _, kn := range [][2]string{{string(convtypes.ResourceIngress), "/<default-backend>"},
			{string(convtypes.ResourceService), opt.DefaultBackend}, {string(convtypes.ResourceEndpoints), opt.DefaultBackend}} {
			k := convtypes.ResourceType(kn[0])
			if !slices.Contains(universe[k], kn[1]) {
				universe[k] = append(universe[k], kn[1])
				sort.Strings(universe[k])
			}
		}
	}
	fopt := world.DefaultOptions()
	fopt.DefaultBackend = opt.DefaultBackend
	compare := func() bool {
		f, err := world.NewPipeline(w, fopt)
		if err != nil {
			res.verdict = "err:" + sanitize(err.Error())
			return false
		}
		defer f.Close()
		f.Startup()
		if _, err := f.Reconcile(); err != nil {
			res.verdict = "err:fresh-" + sanitize(err.Error())
			return false
		}
		if d := c01firstDiff(p.Snapshot(reqs, snis).Text(), f.Snapshot(reqs, snis).Text()); d != "" {
			res.verdict = "diff:" + sanitize(d)
			return false
		}
		return true
	}
	all := ops
	if len(all) == 0 || all[len(all)-1] != "sync" {
		all = append(append([]string(nil), all...), "sync")
	}
	for _, o := range all {
		if o == "sync" {
			p.Log.Lines = nil
			ch, err := p.Reconcile()
			if err != nil {
				if strings.HasPrefix(err.Error(), "PANIC") {
					res.verdict = "err:" + sanitize(err.Error())
				} else {
					res.verdict = "err:long-" + sanitize(err.Error())
				}
				return
			}
			res.syncs++
			if observe {
				ob := c01obs(p, ch, p.Log.Lines, universe)
				if ob[0] == 'P' {
					res.partial++
				}
				res.obs = append(res.obs, ob)
			}
			if !compare() {
				return
			}
			continue
		}
		evs, err := w.Apply(world.Op{Text: o})
		if err != nil {
			res.verdict = "err:" + sanitize(err.Error())
			return
		}
		p.Deliver(evs)
	}
	return
}

func c01case(c *ctx, ops []string) c01result {
	res := c01run(ops, true)
	c.emit("C01", "hist "+strings.Join(ops, " "), strings.Join(append([]string{res.verdict}, res.obs...), " "))
	c.stat(fmt.Sprintf("syncs_%02d", res.syncs), 1)
	c.stat("partial_syncs", res.partial)
	c.stat("verdict_"+strings.SplitN(res.verdict, ":", 2)[0], 1)
	c01optStats(c, ops)
	return res
}

// c01optStats: coverage of the option --default-backend-service: histories that set it, and how often its
// service is absent at the first sync, appears / disappears / changes between two syncs.
func c01optStats(c *ctx, toks []string) {
	opt, ops := syncOptions(toks)
	db := opt.DefaultBackend
	if db == "" {
		return
	}
	c.stat("opt_db_histories", 1)
	present, changed, syncs := false, false, 0
	atSync := false
	if len(ops) == 0 || ops[len(ops)-1] != "sync" {
		ops = append(append([]string(nil), ops...), "sync")
	}
	for _, o := range ops {
		switch {
		case o == "sync":
			syncs++
			if syncs == 1 {
				if !present {
					c.stat("opt_db_service_absent_at_first_sync", 1)
				}
			} else if present != atSync {
				if present {
					c.stat("opt_db_service_appears", 1)
				} else {
					c.stat("opt_db_service_disappears", 1)
				}
			} else if present && changed {
				c.stat("opt_db_service_or_endpoints_change", 1)
			}
			atSync, changed = present, false
		case strings.HasPrefix(o, "svc+"+db+"!"), strings.HasPrefix(o, "svc~"+db+"!"):
			present, changed = true, true
		case o == "svc-"+db:
			present, changed = false, true
		case strings.HasPrefix(o, "ep~"+db+"!"), o == "ep-"+db:
			changed = true
		}
	}
}

// corpus of minimised past failures (each one is the replay of a repaired or known difference)
var c01corpus = []string{
	// --backend-shards and a global setting that backend sections render (ssl-redirect-code): the full sync finds every
	// backend unchanged, the shard files must be rewritten nevertheless
	"opt~shards=2 svc+d/app!http:80:8080!- ep~d/app!10.0.1.1:r:app-1 sec+d/tls1!tls!1!a.local ing+d/i1@1!haproxy,-!-!a.local>/:Prefix:app:80!a.local>tls1!- sync cm~ssl-redirect-code=301 sync",
	// de67e1a strict-host: c.local has no root path and borrows the one of the default host (config.SyncConfig);
	// the ingress of the default host leaves the class: c.local must be rebuilt (found by the C07 lint pass)
	"svc+e/web!http:80:8080+adm:81:adm!- ep~e/web!10.1.3.1:r:web-1 cm~strict-host=true cls+hap:haproxy-ingress.github.io/controller ing+e/i1@1!-,hap!-!_>/:Exact:web:http!-!- ing+d/i3@1!haproxy,-!-!c.local>/x:Exact:web:80!-!- sync ing~e/i1@1!other,-!-!-!-!- sync",
	"svc+e/web!http:80:8080!- ep~e/web!10.1.3.1:r:web-1 svc+e/api!http:80:8080!- ep~e/api!10.1.2.1:r:api-1 cm~strict-host=true ing+d/i3@1!haproxy,-!-!c.local>/x:Prefix:web:80!-!- sync ing+e/i1@2!haproxy,-!-!_>/:Prefix:api:80!-!- sync ing~e/i1@2!haproxy,-!-!_>/:Prefix:web:80!-!- sync ing-e/i1 sync",
	// 204d50f strict-host: a host that starts to borrow the default host's root (added by a partial sync / lost its own
	// root by a delete): the backend of that root gets a path, it must be rebuilt (found by the family c01strict)
	"svc+d/app!http:80:8080!- ep~d/app!10.0.1.1:r:app-1 svc+e/web!http:80:8080!- ep~e/web!10.1.3.1:r:web-1 cm~strict-host=true ing+e/i1@1!haproxy,-!-!_>/:Prefix:web:80!-!- sync ing+d/i3@2!haproxy,-!-!c.local>/x:Prefix:app:80!-!- sync",
	"svc+d/app!http:80:8080!- ep~d/app!10.0.1.1:r:app-1 svc+e/web!http:80:8080!- ep~e/web!10.1.3.1:r:web-1 cm~strict-host=true ing+e/i1@1!haproxy,-!-!_>/:Prefix:web:80!-!- ing+d/i2@2!haproxy,-!-!c.local>/:ImplementationSpecific:app:80!-!- ing+d/i3@3!haproxy,-!-!c.local>/x:Prefix:app:80!-!- sync ing-d/i2 sync",
	// drain-support: an Endpoints update that only moves addresses between ready and not-ready (same address set);
	// the re-parsed backend differs from the old one in server weights only (seed C03e)
	"cm~drain-support=true svc+d/app!http:80:8080!- ep~d/app!10.0.1.1:r:app-1+10.0.1.2:r:app-2 ing+d/i1@1!haproxy,-!-!a.local>/:Prefix:app:80!-!- sync ep~d/app!10.0.1.1:r:app-1+10.0.1.2:n:app-2 sync ep~d/app!10.0.1.1:n:app-1+10.0.1.2:r:app-2 sync",
	"cm~drain-support=true svc+d/app!http:80:8080!- ep~d/app!10.0.1.1:n:app-1 ing+d/i1@1!haproxy,-!-!a.local>/:Prefix:app:80!-!- sync ep~d/app!10.0.1.1:r:app-1 sync",
	// an ssl-passthrough host re-parsed unchanged (endpoints event), then removed: HasSSLPassthrough() decides the
	// frontend layout, the derived counter must follow the items (seed C01d; model: C01 hosts ...)
	"svc+d/app!http:80:8080!- ep~d/app!10.0.1.1:r:app-1 ing+d/i1@1!haproxy,-!ssl-passthrough=true!a.local>/:Prefix:app:80!-!- ing+d/i2@2!haproxy,-!-!b.local>/:Prefix:app:80!-!- sync ep~d/app!10.0.1.1:r:app-1+10.0.1.2:r:app-2 sync ing-d/i1 sync",
	// a certificate shared from another namespace (cross-namespace-secrets-crt: allow) is renewed: the link is
	// kept under the secret's own namespace/name
	"cm~cross-namespace-secrets-crt=allow svc+d/app!http:80:8080!- ep~d/app!10.0.1.1:r:app-1 sec+e/tls1!tls!1!a.local ing+d/i1@1!haproxy,-!-!a.local>/:Prefix:app:80!a.local>e/tls1!- sync sec~e/tls1!tls!2!a.local sync",
	"cm~cross-namespace-secrets-crt=allow svc+d/app!http:80:8080!- ep~d/app!10.0.1.1:r:app-1 ing+d/i1@1!haproxy,-!-!a.local>/:Prefix:app:80!a.local>e/tls1!- sync sec+e/tls1!tls!1!a.local sync sec-e/tls1 sync",
	// --default-backend-service: a no-op endpoints notification (Shrink puts the old backend object back), then the service goes away
	"opt~db=d/web svc+d/web!http:80:8080!- ep~d/web!10.0.3.1:r:web-1+10.0.3.2:r:web-2 svc+d/app!http:80:8080!- ep~d/app!10.0.1.1:r:app-1 ing+d/i1@1!haproxy,-!-!a.local>/a:Prefix:app:80!-!- sync ep~d/web!10.0.3.2:r:web-2+10.0.3.1:r:web-1 sync svc-d/web sync",
	"opt~db=d/web svc+d/web!http:80:8080!- ep~d/web!10.0.3.1:r:web-1 svc+d/app!http:80:8080!- ep~d/app!10.0.1.1:r:app-1 ing+d/i1@1!haproxy,-!-!a.local>/a:Prefix:app:80!-!- sync svc-d/web sync svc+d/web!http:80:8080!- ep~d/web!10.0.3.1:r:web-1 sync",
	// d291cc7 create+update in one batch
	"sync ing+d/i1@1!haproxy,-!-!-!-!- ing~d/i1@1!haproxy,-!-!_>/a:_:api:http!-!-",
	// fb14c7f tls-only hosts pre-tracked
	"sec+e/tls1!tls!1!a.local+b.local ing+e/i1@2!haproxy,-!-!-!b.local>tls1!- sync ing~d/i4@2!haproxy,-!-!-!b.local>tls1!-",
	// 546cb55 IngressClass appears later
	"ing+d/i4@2!-,hap!-!_>/b:Exact:api:80!-!- sync cls+hap:haproxy-ingress.github.io/controller",
	// 771d5f6 updated but untracked ingress
	"svc+e/api!http:80:8080+adm:81:adm!- ing~e/i3@3!haproxy,-!-!-!-!- sync ing~e/i3@3!haproxy,-!-!-!-!api:80",
	// aa24a49 default host pre-tracked
	"svc+e/web!http:80:8080+adm:81:adm!- cls+hap:haproxy-ingress.github.io/controller ing~e/i1@1!-,hap!-!_>/App:ImplementationSpecific:api:80!-!- sync ing+e/i5@2!haproxy,-!-!-!-!web:80",
	// 28a4cee loser of the duplicated default backend
	"svc+d/api!http:80:8080+adm:81:adm!- svc+e/web!http:80:8080+adm:81:adm!- ing~d/i3@2!haproxy,-!-!-!-!api:80 ing+e/i5@3!haproxy,-!-!-!-!web:80 sync ing~d/i3@2!other,-!-!-!-!-",
	// 0a95d71 a skipped declaration that becomes the owner lands on a surviving backend (three flavours:
	// path redeclared by another ingress, one ingress declaring a path twice, loser of the default backend)
	"svc+d/app!http:80:8080!- ep~d/app!10.0.1.1:r:app-1 svc+d/api!http:80:8080!- ep~d/api!10.0.2.1:r:api-1 ing+d/i1@1!haproxy,-!-!a.local>/a:Prefix:app:80!-!- ing+d/i2@2!haproxy,-!balance-algorithm=leastconn!a.local>/a:Prefix:api:80!-!- ing+d/i3@3!haproxy,-!-!b.local>/:Prefix:api:80!-!- sync ing-d/i1 sync",
	"svc+d/app!http:80:8080+adm:81:adm!- svc+d/api!http:80:8080+adm:81:adm!- ing+d/i1@1!haproxy,-!balance-algorithm=first!a.local>/b:Prefix:app:80+/b:Prefix:api:80!-!- ing+d/i3@3!haproxy,-!-!b.local>/:Prefix:api:80!-!- sync svc-d/app",
	"svc+d/app!http:80:8080+adm:81:adm!- svc+d/api!http:80:8080+adm:81:adm!- ing+d/i1@1!haproxy,-!-!-!-!app:http ing+d/i2@2!haproxy,-!balance-algorithm=leastconn!-!-!api:http ing+d/i3@3!haproxy,-!-!b.local>/:Prefix:api:http!-!- sync ing~d/i1@1!other,-!-!-!-!-",
	// finding 3: the backend link of a skipped declaration goes stale when the service re-maps the port
	"svc+d/app!http:80:8080!- ep~d/app!10.0.1.1:r:app-1 svc+d/api!http:80:8080!- ep~d/api!10.0.2.1:r:api-1 ing+d/i1@1!haproxy,-!-!a.local>/a:Prefix:app:80!-!- ing+d/i2@2!haproxy,-!balance-algorithm=leastconn!a.local>/a:Prefix:api:80!-!- sync svc+d/api!web:80:8081!- sync ing+d/i3@3!haproxy,-!-!b.local>/:Prefix:api:80!-!- sync ing-d/i1 sync",
	// side condition SCdef of the proof (harmless): a default backend arrives while the default host only has failed
	// default backends of another ingress (both creation orders), followed by the events that make the loser win
	"svc+d/app!http:80:8080!- ep~d/app!10.0.1.1:r:app-1 ing+d/i2@2!haproxy,-!balance-algorithm=leastconn!-!-!gone:80 sync ing+d/i1@1!haproxy,-!-!-!-!app:80 sync svc+d/gone!http:80:8080!- ep~d/gone!10.0.9.1:r:gone-1 sync ing-d/i1 sync",
	"svc+d/app!http:80:8080!- ep~d/app!10.0.1.1:r:app-1 ing+d/i2@2!haproxy,-!balance-algorithm=leastconn!-!-!gone:80 sync ing+d/i1@3!haproxy,-!-!-!-!app:80 sync svc+d/gone!http:80:8080!- ep~d/gone!10.0.9.1:r:gone-1 sync ing-d/i1 sync",
	// finding 2 (tcp services): the loser of a tcp port is not tracked; the default backend of an added tcp ingress is not pre-tracked
	"svc+d/app!http:80:8080!- ep~d/app!10.0.1.1:r:app-1 svc+d/api!http:80:8080!- ep~d/api!10.0.2.1:r:api-1 ing+d/i1@1!haproxy,-!tcp-service-port=7000!_>/:Prefix:app:80!-!- ing+d/i2@2!haproxy,-!tcp-service-port=7000!_>/:Prefix:api:80!-!- sync ing-d/i1 sync",
	"svc+d/app!http:80:8080!- ep~d/app!10.0.1.1:r:app-1 svc+d/api!http:80:8080!- ep~d/api!10.0.2.1:r:api-1 ing+d/i2@2!haproxy,-!tcp-service-port=7000!-!-!api:80 sync ing+d/i1@1!haproxy,-!tcp-service-port=7000!-!-!app:80 sync",
}

// exhaustive small scope: every sequence (length <= L) over a 10-operation alphabet built around the contested
// host/path a.local/a (owner i1, loser i2 sharing its backend with i3), every operation followed by a sync;
// for length 2 also the batched variant (both operations in one batch).
var c01alphabet = []string{
	"ing~d/i1@1!haproxy,-!-!a.local>/a:Prefix:app:80!-!-",
	"ing~d/i2@2!haproxy,-!balance-algorithm=leastconn!a.local>/a:Prefix:api:80!-!-",
	"ing~d/i3@3!haproxy,-!-!b.local>/:Prefix:api:80!-!-",
	"ing-d/i1",
	"ing-d/i2",
	"svc-d/app",
	"svc+d/app!http:80:8080!-",
	"svc+d/api!web:80:8081!-",
	"ing~d/i1@1!other,-!-!a.local>/a:Prefix:app:80!-!-",
	"ing~d/i4@0!haproxy,-!-!-!-!app:80",
}

func c01exhaustive(c *ctx, maxLen int) {
	base := []string{"svc+d/app!http:80:8080!-", "ep~d/app!10.0.1.1:r:app-1", "svc+d/api!http:80:8080!-", "ep~d/api!10.0.2.1:r:api-1", "sync"}
	var rec func(prefix []int)
	rec = func(prefix []int) {
		if len(prefix) > 0 {
			ops := append([]string(nil), base...)
			for _, k := range prefix {
				ops = append(ops, c01alphabet[k], "sync")
			}
			c01case(c, ops)
			c.stat("exhaustive", 1)
			if len(prefix) == 2 {
				ops = append(append([]string(nil), base...), c01alphabet[prefix[0]], c01alphabet[prefix[1]], "sync")
				c01case(c, ops)
				c.stat("exhaustive", 1)
			}
		}
		if len(prefix) == maxLen {
			return
		}
		for k := range c01alphabet {
			rec(append(append([]int(nil), prefix...), k))
		}
	}
	rec(nil)
}

// strict-host family (after seed C01f): with strict-host a host WITHOUT a root path of type begin borrows the root
// of the default host (config.SyncConfig); every borrower must be rebuilt when the default host's root changes
// (trackStrictHosts links default host — borrower).  Small exhaustive scope: what the borrower declares at `/`
// (nothing / Exact / Prefix / ImplementationSpecific = begin) x the type of the default host's root x how the
// default host's root changes afterwards (other service, leaves the class, deleted, service deleted and back,
// endpoints only), each followed by a sync; the borrower itself is never touched by the change.
func c01strict(c *ctx) {
	base := []string{"svc+d/app!http:80:8080!-", "ep~d/app!10.0.1.1:r:app-1", "svc+e/web!http:80:8080!-", "ep~e/web!10.1.3.1:r:web-1",
		"svc+e/api!http:80:8080!-", "ep~e/api!10.1.2.1:r:api-1", "cm~strict-host=true"}
	borrower := []string{"", "+/:Exact:app:80", "+/:Prefix:app:80", "+/:ImplementationSpecific:app:80"}
	defType := []string{"Prefix", "Exact", "ImplementationSpecific"}
	for _, b := range borrower {
		for _, dt := range defType {
			def := "ing+e/i1@1!haproxy,-!-!_>/:" + dt + ":web:80!-!-"
			bor := "ing+d/i3@2!haproxy,-!-!c.local>/x:Prefix:app:80" + b + "!-!-"
			changes := [][]string{
				{"ing~e/i1@1!haproxy,-!-!_>/:" + dt + ":api:80!-!-", "sync"},
				{"ing~e/i1@1!other,-!-!_>/:" + dt + ":web:80!-!-", "sync"},
				{"ing-e/i1", "sync"},
				{"svc-e/web", "sync", "svc+e/web!http:80:8080!-", "ep~e/web!10.1.3.1:r:web-1", "sync"},
				{"ep~e/web!10.1.3.1:r:web-1+10.1.3.2:r:web-2", "sync"},
			}
			for _, ch := range changes {
				ops := append(append([]string(nil), base...), def, bor, "sync")
				ops = append(ops, ch...)
				c01case(c, ops)
				c.stat("strict_family", 1)
				// the borrower loses its own begin root afterwards (delete of the ingress that declared it)
				if b == "" {
					own := "ing+d/i2@3!haproxy,-!-!c.local>/:ImplementationSpecific:app:80!-!-"
					ops = append(append([]string(nil), base...), def, bor, own, "sync", "ing-d/i2", "sync")
					ops = append(ops, ch...)
					c01case(c, ops)
					c.stat("strict_family", 1)
				}
				// the borrower arrives after the default host
				ops = append(append([]string(nil), base...), def, "sync", bor, "sync")
				ops = append(ops, ch...)
				c01case(c, ops)
				c.stat("strict_family", 1)
			}
		}
	}
}

func runC01(c *ctx) {
	for _, h := range c01corpus {
		c01case(c, strings.Fields(h))
	}
	c01strict(c)
	c01tcpcmRun(c)
	if c.thorough() {
		c01exhaustive(c, 3)
	} else {
		c01exhaustive(c, 2)
	}
	r := gen.New(c.seed)
	c01hostsRun(c, gen.New(c.seed^0x4057))
	n := 450
	if c.thorough() {
		n = 4000
	}
	shrunk := map[string]bool{}
	for i := 0; i < n; i++ {
		var ops []string
		switch i % 4 {
		case 3:
			if i%16 == 15 {
				ops = newC01Gen(r.Fork(), true).tcpScenario()
			} else {
				ops = newC01Gen(r.Fork(), false).scenario()
			}
		case 0:
			ops = world.NewGen(r.Fork(), world.DefaultGen()).History()
		case 1:
			ops = newC01Gen(r.Fork(), false).history()
		case 2:
			ops = newC01Gen(r.Fork(), true).history()
		}
		res := c01case(c, ops)
		if strings.HasPrefix(res.verdict, "diff:") && len(shrunk) < 12 {
			// minimise; the minimal history is emitted as an additional case (it becomes the replay)
			min := world.Shrink(ops, func(o []string) bool {
				return strings.HasPrefix(c01run(o, false).verdict, "diff:")
			}, 300)
			key := strings.Join(min, " ")
			if !shrunk[key] {
				shrunk[key] = true
				c01case(c, min)
				c.stat("shrunk", 1)
			}
		}
	}
}

var _ = strconv.Itoa
