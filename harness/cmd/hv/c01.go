package main

import (
	"fmt"
	"strings"

	"hapverif/gen"
	"hapverif/world"
)

func init() {
	props["C01"] = runC01
	replayers["C01"] = func(c *ctx, a []string) {
		if len(a) >= 2 && a[0] == "hist" {
			c01case(c, a[1:])
		}
	}
}

func sanitize(s string) string {
	s = strings.ReplaceAll(s, " ", "_")
	s = strings.ReplaceAll(s, "\t", "_")
	if len(s) > 400 {
		s = s[:400]
	}
	return s
}

func c01case(c *ctx, ops []string) world.RunResult {
	res := world.RunHistory(ops, world.DefaultOptions(), true)
	out := "eq"
	switch {
	case res.Err != "":
		out = "err:" + sanitize(res.Err)
	case res.Diff != "":
		out = "diff:" + sanitize(res.Diff)
	}
	c.emit("C01", "hist "+strings.Join(ops, " "), out)
	c.stat(fmt.Sprintf("syncs_%02d", res.Syncs), 1)
	return res
}

func runC01(c *ctx) {
	r := gen.New(c.seed)
	n := 150
	if c.thorough() {
		n = 5000
	}
	shrunk := 0
	for i := 0; i < n; i++ {
		g := world.NewGen(r.Fork(), world.DefaultGen())
		ops := g.History()
		res := c01case(c, ops)
		if res.Diff != "" && shrunk < 25 {
			// minimise and emit the minimal history as an additional case (it becomes the replay)
			shrunk++
			min := world.Shrink(ops, func(o []string) bool {
				rr := world.RunHistory(o, world.DefaultOptions(), true)
				return rr.Diff != "" && rr.Err == ""
			}, 400)
			c01case(c, min)
			c.stat("shrunk", 1)
		}
	}
}
