package main

// C19 — sync mode: several backends, ONE converter / ONE annotation updater.
//
// converters.Sync creates one ingress converter (one annotations.updater) per reconciliation: the Gateway API
// converter feeds its backends through ReadAnnotations, then the ingress converter's full sync ranges over the Go
// map Backends().Items() and updates every backend. Anything the updater keeps from one backend to the next is
// only visible when several backends go through one updater, in varying order. This mode builds a small cluster
// (Services, Ingresses — sharing namespace/name —, IngressClass parameters, default backend, gateway backends,
// global ConfigMap), runs the REAL converter + REAL updater R times from scratch in one process (map iteration
// order varies from run to run; the creation order of the backends is part of the case) and reports the
// outcome of EVERY backend of every run.
//
// Case line:  C19 msync<R> <kws> <global> <svcs> <ings> => <outcome>[#<outcome>...]
//   <svcs>   comma separated  ns/name!<ann>!<flags>     <ann> = n | h<hex>; flags: - | g | d | gd
//            g = the service is also the backend of a Gateway API route (ReadAnnotations before the ingress sync,
//            backend ns_r-name_8080), d = --default-backend-service
//   <ings>   `-` or comma separated  ns/name!<ann>!<params>!svc+svc  in the order the converter processes them
//            (creationTimestamp follows the position), one path per service, services of the ingress' namespace
//   outcome  id=<lines>/id=<lines>/...;<whys>   backends sorted by id, <lines> as in the single-backend mode,
//            <whys> = `-` or the sorted comma separated reasons of all snippet warnings of the sync:
//            star@<label> | kw:h<hex>@<label>, label = g | S/ns/name | I/ns/name | P/ns/name
//   The implementation output is the sorted set of DISTINCT outcomes of the R runs (one, unless the result
//   depends on the processing order).

import (
	"fmt"
	"os"
	"sort"
	"strconv"
	"strings"
	"time"

	api "k8s.io/api/core/v1"
	networking "k8s.io/api/networking/v1"
	metav1 "k8s.io/apimachinery/pkg/apis/meta/v1"

	conv_helper "github.com/jcmoraisjr/haproxy-ingress/pkg/converters/helper_test"
	"github.com/jcmoraisjr/haproxy-ingress/pkg/converters/ingress"
	"github.com/jcmoraisjr/haproxy-ingress/pkg/converters/tracker"
	convtypes "github.com/jcmoraisjr/haproxy-ingress/pkg/converters/types"
	"github.com/jcmoraisjr/haproxy-ingress/pkg/haproxy"
	hatypes "github.com/jcmoraisjr/haproxy-ingress/pkg/haproxy/types"

	"hapverif/gen"
)

type c19Opt struct {
	set  bool
	text string
}

func c19Some(t string) c19Opt { return c19Opt{true, t} }

func (o c19Opt) enc() string {
	if !o.set {
		return "n"
	}
	return c19h(o.text)
}

func c19ParseOpt(s string) (c19Opt, error) {
	if s == "n" {
		return c19Opt{}, nil
	}
	t, err := c19unh(s)
	return c19Opt{true, t}, err
}

type c19SSvc struct {
	ns, name string
	ann      c19Opt
	gateway  bool
	dflt     bool
}

type c19SIng struct {
	ns, name string
	ann      c19Opt
	params   c19Opt
	svcs     []string
}

type c19Sync struct {
	reps    int
	kws     []string
	hasGlob bool
	glob    string
	svcs    []c19SSvc
	ings    []c19SIng
}

func (s *c19Sync) args() string {
	g := "n"
	if s.hasGlob {
		g = c19h(s.glob)
	}
	sv := make([]string, len(s.svcs))
	for i, x := range s.svcs {
		fl := ""
		if x.gateway {
			fl += "g"
		}
		if x.dflt {
			fl += "d"
		}
		if fl == "" {
			fl = "-"
		}
		sv[i] = fmt.Sprintf("%s/%s!%s!%s", x.ns, x.name, x.ann.enc(), fl)
	}
	in := "-"
	if len(s.ings) > 0 {
		p := make([]string, len(s.ings))
		for i, x := range s.ings {
			r := "-"
			if len(x.svcs) > 0 {
				r = strings.Join(x.svcs, "+")
			}
			p[i] = fmt.Sprintf("%s/%s!%s!%s!%s", x.ns, x.name, x.ann.enc(), x.params.enc(), r)
		}
		in = strings.Join(p, ",")
	}
	return fmt.Sprintf("msync%d %s %s %s %s", s.reps, c19list(s.kws), g, strings.Join(sv, ","), in)
}

func c19ParseSync(a []string) (*c19Sync, error) {
	if len(a) != 5 || !strings.HasPrefix(a[0], "msync") {
		return nil, fmt.Errorf("not a sync case: %v", a)
	}
	reps, err := strconv.Atoi(a[0][len("msync"):])
	if err != nil || reps < 1 {
		return nil, fmt.Errorf("bad repetition count in %q", a[0])
	}
	sc := &c19Sync{reps: reps}
	if a[1] != "-" {
		for _, k := range strings.Split(a[1], ",") {
			s, err := c19unh(k)
			if err != nil {
				return nil, err
			}
			sc.kws = append(sc.kws, s)
		}
	}
	if a[2] != "n" {
		s, err := c19unh(a[2])
		if err != nil {
			return nil, err
		}
		sc.hasGlob, sc.glob = true, s
	}
	nsName := func(s string) (string, string, error) {
		p := strings.Split(s, "/")
		if len(p) != 2 {
			return "", "", fmt.Errorf("bad ns/name %q", s)
		}
		return p[0], p[1], nil
	}
	if a[3] != "-" {
		for _, e := range strings.Split(a[3], ",") {
			f := strings.Split(e, "!")
			if len(f) != 3 {
				return nil, fmt.Errorf("bad service %q", e)
			}
			ns, name, err := nsName(f[0])
			if err != nil {
				return nil, err
			}
			ann, err := c19ParseOpt(f[1])
			if err != nil {
				return nil, err
			}
			sc.svcs = append(sc.svcs, c19SSvc{ns: ns, name: name, ann: ann,
				gateway: strings.Contains(f[2], "g"), dflt: strings.Contains(f[2], "d")})
		}
	}
	if a[4] != "-" {
		for _, e := range strings.Split(a[4], ",") {
			f := strings.Split(e, "!")
			if len(f) != 4 {
				return nil, fmt.Errorf("bad ingress %q", e)
			}
			ns, name, err := nsName(f[0])
			if err != nil {
				return nil, err
			}
			ann, err := c19ParseOpt(f[1])
			if err != nil {
				return nil, err
			}
			par, err := c19ParseOpt(f[2])
			if err != nil {
				return nil, err
			}
			ing := c19SIng{ns: ns, name: name, ann: ann, params: par}
			if f[3] != "-" {
				ing.svcs = strings.Split(f[3], "+")
			}
			sc.ings = append(sc.ings, ing)
		}
	}
	return sc, nil
}

func (s *c19Sync) svc(ns, name string) *c19SSvc {
	for i := range s.svcs {
		if s.svcs[i].ns == ns && s.svcs[i].name == name {
			return &s.svcs[i]
		}
	}
	return nil
}

// ---------------------------------------------------------------- real code

// c19SyncOnce: one reconciliation from scratch. Returns the canonical outcome string.
func c19SyncOnce(sc *c19Sync) (string, error) {
	logger := &c19Logger{}
	trk := tracker.NewTracker()
	cache := conv_helper.NewCacheMock(trk)
	instance := haproxy.CreateInstance(logger, haproxy.InstanceOptions{})
	hconfig := instance.Config()
	global := map[string]string{}
	if sc.hasGlob {
		global[c19Key] = sc.glob
	}
	opts := &convtypes.ConverterOptions{
		Cache:            cache,
		Logger:           logger,
		Tracker:          trk,
		DynamicConfig:    &convtypes.DynamicConfig{},
		AnnotationPrefix: []string{c19Prefix},
		DisableKeywords:  sc.kws,
		FakeCrtFile:      c19Crt,
		DefaultCrtSecret: "",
	}
	cache.ConfigMapList = map[string]*api.ConfigMap{}
	labels := map[string]string{"global config": "g"}
	svcObj := map[string]*api.Service{}
	for i := range sc.svcs {
		s := &sc.svcs[i]
		svc, ep := c19Service(s.name, c19AnnMap(s.ann.text, s.ann.set))
		svc.Namespace, ep.Namespace = s.ns, s.ns
		cache.SvcList = append(cache.SvcList, svc)
		cache.EpList[s.ns+"/"+s.name] = ep
		svcObj[s.ns+"/"+s.name] = svc
		labels[fmt.Sprintf("Service '%s/%s'", s.ns, s.name)] = fmt.Sprintf("S/%s/%s", s.ns, s.name)
		if s.dflt && opts.DefaultBackend == "" {
			opts.DefaultBackend = s.ns + "/" + s.name
		}
	}
	pt := networking.PathTypePrefix
	t0 := time.Date(2024, 1, 1, 0, 0, 0, 0, time.UTC)
	for i := range sc.ings {
		in := &sc.ings[i]
		ann := map[string]string{}
		if in.ann.set {
			ann[c19AnnKey] = in.ann.text
		}
		var paths []networking.HTTPIngressPath
		for _, sv := range in.svcs {
			paths = append(paths, networking.HTTPIngressPath{
				Path:     "/" + sv,
				PathType: &pt,
				Backend: networking.IngressBackend{Service: &networking.IngressServiceBackend{
					Name: sv, Port: networking.ServiceBackendPort{Number: 8080},
				}},
			})
		}
		ing := &networking.Ingress{
			ObjectMeta: metav1.ObjectMeta{Namespace: in.ns, Name: in.name, Annotations: ann,
				CreationTimestamp: metav1.NewTime(t0.Add(time.Duration(i) * time.Second))},
			Spec: networking.IngressSpec{Rules: []networking.IngressRule{{
				Host:             fmt.Sprintf("%s-%s.local", in.name, in.ns),
				IngressRuleValue: networking.IngressRuleValue{HTTP: &networking.HTTPIngressRuleValue{Paths: paths}},
			}}},
		}
		lbl := "I"
		if !in.ann.set {
			// IngressClass parameters are registered with the ingress as their source
			lbl = "P"
		}
		labels[fmt.Sprintf("Ingress '%s/%s'", in.ns, in.name)] = fmt.Sprintf("%s/%s/%s", lbl, in.ns, in.name)
		if in.params.set {
			cls := fmt.Sprintf("cls-%s-%s", in.ns, in.name)
			par := fmt.Sprintf("par-%s-%s", in.ns, in.name)
			ing.Spec.IngressClassName = &cls
			cache.IngClassList = append(cache.IngClassList, &networking.IngressClass{
				ObjectMeta: metav1.ObjectMeta{Name: cls},
				Spec: networking.IngressClassSpec{
					Controller: "haproxy-ingress.github.io/controller",
					Parameters: &networking.IngressClassParametersReference{Kind: "ConfigMap", Name: par},
				},
			})
			cache.ConfigMapList["ingress-controller/"+par] = &api.ConfigMap{
				ObjectMeta: metav1.ObjectMeta{Namespace: "ingress-controller", Name: par},
				Data:       map[string]string{c19Key: in.params.text},
			}
		}
		cache.IngList = append(cache.IngList, ing)
	}
	// the list is handed over in reverse: the converter's own sort (creationTimestamp) must restore the order
	for i, j := 0, len(cache.IngList)-1; i < j; i, j = i+1, j-1 {
		cache.IngList[i], cache.IngList[j] = cache.IngList[j], cache.IngList[i]
	}

	changed := &convtypes.ChangedObjects{GlobalConfigMapDataNew: global}
	conv := ingress.NewIngressConverter(opts, hconfig, changed)

	// expected backends (ids only; the values are the driver's business)
	want := map[string]bool{}
	// Gateway API routes come first, through the very same converter (converters.Sync)
	for i := range sc.svcs {
		s := &sc.svcs[i]
		if !s.gateway {
			continue
		}
		b := hconfig.Backends().AcquireBackend(s.ns, "r-"+s.name, "8080")
		want[b.ID] = true
		links := []*hatypes.PathLink{hatypes.CreateHostPathLink("gw-"+s.name+"-"+s.ns+".local", "/", hatypes.MatchBegin)}
		conv.ReadAnnotations(b, []*api.Service{svcObj[s.ns+"/"+s.name]}, links)
	}
	if opts.DefaultBackend != "" {
		want[strings.Replace(opts.DefaultBackend, "/", "_", 1)+"_8080"] = true
	}
	for i := range sc.ings {
		for _, sv := range sc.ings[i].svcs {
			if sc.svc(sc.ings[i].ns, sv) != nil {
				want[sc.ings[i].ns+"_"+sv+"_8080"] = true
			}
		}
	}
	conv.Sync(true)

	var bks []string
	for _, b := range hconfig.Backends().Items() {
		if !want[b.ID] {
			if len(b.CustomConfig) > 0 {
				return "", fmt.Errorf("unexpected backend %s carries a snippet", b.ID)
			}
			continue
		}
		delete(want, b.ID)
		bks = append(bks, b.ID+"="+c19list(b.CustomConfig))
	}
	if len(want) > 0 {
		return "", fmt.Errorf("backends not created: %v; log: %v", want, logger.warns)
	}
	sort.Strings(bks)

	var whys []string
	for _, w := range logger.warns {
		const p = "skipping configuration snippet on "
		if !strings.HasPrefix(w, p) {
			if strings.HasPrefix(w, "ERROR ") {
				return "", fmt.Errorf("converter logged: %s", w)
			}
			continue
		}
		w = w[len(p):]
		why := ""
		for src, lbl := range labels {
			if !strings.HasPrefix(w, src+": ") {
				continue
			}
			rest := w[len(src)+2:]
			if rest == "custom configuration is disabled" {
				why = "star@" + lbl
			} else if strings.HasPrefix(rest, "keyword '") && strings.HasSuffix(rest, "' not allowed") {
				why = "kw:" + c19h(rest[len("keyword '"):len(rest)-len("' not allowed")]) + "@" + lbl
			}
		}
		if why == "" {
			return "", fmt.Errorf("unparsed warning %q", w)
		}
		whys = append(whys, why)
	}
	sort.Strings(whys)
	ws := "-"
	if len(whys) > 0 {
		ws = strings.Join(whys, ",")
	}
	return strings.Join(bks, "/") + ";" + ws, nil
}

// ---------------------------------------------------------------- emit

// same namespace/name on an Ingress and a Service that both carry a snippet
func (s *c19Sync) namesakes() (n int, mixed bool) {
	for i := range s.ings {
		in := &s.ings[i]
		sv := s.svc(in.ns, in.name)
		if sv == nil {
			continue
		}
		n++
		if sv.ann.set && (in.ann.set || in.params.set) {
			mixed = true
		}
	}
	return
}

func c19syncCase(c *ctx, sc *c19Sync) {
	var out string
	func() {
		defer func() {
			if r := recover(); r != nil {
				out = "PANIC"
				fmt.Fprintf(os.Stderr, "C19 panic on %s: %v\n", sc.args(), r)
			}
		}()
		seen := map[string]bool{}
		for i := 0; i < sc.reps; i++ {
			o, err := c19SyncOnce(sc)
			if err != nil {
				out = "ERROR"
				fmt.Fprintf(os.Stderr, "C19 harness error on %s: %v\n", sc.args(), err)
				return
			}
			seen[o] = true
		}
		all := make([]string, 0, len(seen))
		for o := range seen {
			all = append(all, o)
		}
		sort.Strings(all)
		out = strings.Join(all, "#")
		if len(all) > 1 {
			c.stat("sync_outcome_depends_on_order", 1)
		}
	}()
	c.emit("C19", sc.args(), out)
	c.stat("kind_msync", 1)
	c.stat("sync_runs_repeated", sc.reps)
	nb := strings.Count(out, "=")
	if i := strings.Index(out, "#"); i >= 0 {
		nb = strings.Count(out[:i], "=")
	}
	c.stat(fmt.Sprintf("sync_backends_%d", nb), 1)
	if n, mixed := sc.namesakes(); n > 0 {
		c.stat("sync_same_name_ingress_service", 1)
		if mixed {
			c.stat("sync_same_name_both_with_snippet", 1)
		}
	}
	for i := range sc.svcs {
		if sc.svcs[i].gateway {
			c.stat("sync_with_gateway_backend", 1)
			break
		}
	}
	for i := range sc.svcs {
		if sc.svcs[i].dflt {
			c.stat("sync_with_default_backend", 1)
			break
		}
	}
	if strings.Contains(out, "star@") || strings.Contains(out, "kw:") {
		c.stat("sync_some_snippet_dropped", 1)
	}
}

// ---------------------------------------------------------------- generators

// c19Topo: a cluster shape with snippet slots; fill() gets one value per slot (0 absent, 1 clean, 2 dirty)
type c19Topo struct {
	name  string
	slots int
	build func(v func(i int) c19Opt) ([]c19SSvc, []c19SIng)
}

func c19Topologies() []c19Topo {
	D := "default"
	return []c19Topo{
		// Ingress app -> Service web, Ingress web -> Service app: every object has a namesake of the other kind
		{"cross", 5, func(v func(int) c19Opt) ([]c19SSvc, []c19SIng) {
			return []c19SSvc{{ns: D, name: "app", ann: v(0)}, {ns: D, name: "web", ann: v(1)}},
				[]c19SIng{{ns: D, name: "app", ann: v(2), params: v(4), svcs: []string{"web"}},
					{ns: D, name: "web", ann: v(3), svcs: []string{"app"}}}
		}},
		// the same with the other creation order of the two backends
		{"cross-rev", 5, func(v func(int) c19Opt) ([]c19SSvc, []c19SIng) {
			return []c19SSvc{{ns: D, name: "app", ann: v(0)}, {ns: D, name: "web", ann: v(1)}},
				[]c19SIng{{ns: D, name: "web", ann: v(3), svcs: []string{"app"}},
					{ns: D, name: "app", ann: v(2), params: v(4), svcs: []string{"web"}}}
		}},
		// the seed's shape: Ingress app -> web, Ingress other -> app
		{"other", 4, func(v func(int) c19Opt) ([]c19SSvc, []c19SIng) {
			return []c19SSvc{{ns: D, name: "web", ann: v(1)}, {ns: D, name: "app", ann: v(0)}},
				[]c19SIng{{ns: D, name: "app", ann: v(2), svcs: []string{"web"}},
					{ns: D, name: "other", ann: v(3), svcs: []string{"app"}}}
		}},
		// Gateway API backend of Service app first (deterministic), then Ingress app -> web
		{"gateway", 4, func(v func(int) c19Opt) ([]c19SSvc, []c19SIng) {
			return []c19SSvc{{ns: D, name: "app", ann: v(0), gateway: true}, {ns: D, name: "web", ann: v(1)}},
				[]c19SIng{{ns: D, name: "app", ann: v(2), params: v(3), svcs: []string{"web"}}}
		}},
		// default backend = Service app, Ingress app -> web
		{"default", 4, func(v func(int) c19Opt) ([]c19SSvc, []c19SIng) {
			return []c19SSvc{{ns: D, name: "app", ann: v(0), dflt: true}, {ns: D, name: "web", ann: v(1)}},
				[]c19SIng{{ns: D, name: "app", ann: v(2), params: v(3), svcs: []string{"web"}}}
		}},
		// three backends, one ingress with two services
		{"three", 5, func(v func(int) c19Opt) ([]c19SSvc, []c19SIng) {
			return []c19SSvc{{ns: D, name: "app", ann: v(0)}, {ns: D, name: "web", ann: v(1)}, {ns: D, name: "api", ann: v(2)}},
				[]c19SIng{{ns: D, name: "app", ann: v(3), svcs: []string{"web", "api"}},
					{ns: D, name: "web", ann: v(4), svcs: []string{"app"}}}
		}},
		// the same name in two namespaces: Ingress prod/app -> prod/web, Ingress default/web -> default/app
		{"two-ns", 4, func(v func(int) c19Opt) ([]c19SSvc, []c19SIng) {
			return []c19SSvc{{ns: D, name: "app", ann: v(0)}, {ns: "prod", name: "web", ann: v(1)}},
				[]c19SIng{{ns: "prod", name: "app", ann: v(2), svcs: []string{"web"}},
					{ns: D, name: "web", ann: v(3), svcs: []string{"app"}}}
		}},
		// four backends: gateway + default + two ingress backends, all around the name app
		{"four", 4, func(v func(int) c19Opt) ([]c19SSvc, []c19SIng) {
			return []c19SSvc{{ns: D, name: "app", ann: v(0), gateway: true, dflt: true}, {ns: D, name: "web", ann: v(1)}, {ns: D, name: "api"}},
				[]c19SIng{{ns: D, name: "app", ann: v(2), svcs: []string{"web"}},
					{ns: D, name: "api", ann: v(3), svcs: []string{"api"}}}
		}},
	}
}

var c19SyncTexts = []string{"x 1", "\tk 1"}

func c19SyncExhaustive(c *ctx) {
	reps := 6
	kwsets := [][]string{{"k"}, {"*"}}
	if c.thorough() {
		reps = 12
		kwsets = [][]string{{"k"}, {"*"}, {"", "x", "k"}, {"kx"}}
	}
	for _, tp := range c19Topologies() {
		total := 1
		for i := 0; i < tp.slots; i++ {
			total *= 3
		}
		for code := 0; code < total; code++ {
			val := func(i int) c19Opt {
				d := code
				for j := 0; j < i; j++ {
					d /= 3
				}
				switch d % 3 {
				case 1:
					return c19Some(c19SyncTexts[0])
				case 2:
					return c19Some(c19SyncTexts[1])
				}
				return c19Opt{}
			}
			for g := 0; g < 3; g++ {
				for _, kws := range kwsets {
					svcs, ings := tp.build(val)
					sc := &c19Sync{reps: reps, kws: kws, svcs: svcs, ings: ings}
					if g > 0 {
						sc.hasGlob, sc.glob = true, c19SyncTexts[g-1]
					}
					c19syncCase(c, sc)
				}
			}
		}
		c.stat("exhaustive_sync_topology_"+tp.name, 1)
	}
}

func c19SyncRandom(r *gen.Rng, reps int) *c19Sync {
	sc := &c19Sync{reps: reps, kws: c19Flag(gen.Pick(r, c19FlagPool))}
	if r.Chance(1, 4) {
		sc.kws = append(sc.kws, gen.Pick(r, c19Words))
	}
	if r.Chance(1, 2) {
		sc.hasGlob, sc.glob = true, c19Snippet(r)
	}
	// a pool of few texts: the same snippet on several sources, clean and dirty ones side by side
	pool := []string{c19Snippet(r), c19Snippet(r), c19Snippet(r)}
	if len(sc.kws) > 0 && sc.kws[0] != "" && sc.kws[0] != "*" {
		pool = append(pool, gen.Pick(r, c19Blanks)+sc.kws[0]+gen.Pick(r, c19Args))
	}
	opt := func(num, den int) c19Opt {
		if !r.Chance(num, den) {
			return c19Opt{}
		}
		if r.Chance(1, 5) {
			return c19Some(c19Snippet(r))
		}
		return c19Some(gen.Pick(r, pool))
	}
	names := []string{"app", "web", "api", "db"}
	nss := []string{"default"}
	if r.Chance(1, 3) {
		nss = append(nss, "prod")
	}
	// services
	nsvc := r.Range(2, 4)
	for len(sc.svcs) < nsvc {
		ns, name := gen.Pick(r, nss), gen.Pick(r, names)
		if sc.svc(ns, name) != nil {
			continue
		}
		sc.svcs = append(sc.svcs, c19SSvc{ns: ns, name: name, ann: opt(1, 2), gateway: r.Chance(1, 5)})
	}
	if r.Chance(1, 5) {
		sc.svcs[r.Intn(len(sc.svcs))].dflt = true
	}
	// ingresses: named after services more often than not, each routing to 1-2 services of its namespace
	ning := r.Range(1, 4)
	for tries := 0; len(sc.ings) < ning && tries < 40; tries++ {
		ns, name := gen.Pick(r, nss), gen.Pick(r, names)
		if r.Chance(1, 5) {
			name = "other"
		}
		dup := false
		for _, in := range sc.ings {
			if in.ns == ns && in.name == name {
				dup = true
			}
		}
		var cand []string
		for _, s := range sc.svcs {
			if s.ns == ns {
				cand = append(cand, s.name)
			}
		}
		if dup || len(cand) == 0 {
			continue
		}
		in := c19SIng{ns: ns, name: name, ann: opt(1, 2), params: opt(1, 5)}
		// prefer a service that is NOT the namesake, so that namesakes feed different backends
		first := gen.Pick(r, cand)
		if first == name && len(cand) > 1 && r.Chance(3, 4) {
			for _, x := range cand {
				if x != name {
					first = x
					break
				}
			}
		}
		in.svcs = []string{first}
		if len(cand) > 1 && r.Chance(1, 4) {
			for _, x := range cand {
				if x != first {
					in.svcs = append(in.svcs, x)
					break
				}
			}
		}
		sc.ings = append(sc.ings, in)
	}
	// every service is used by something: otherwise add an ingress for it
	for _, s := range sc.svcs {
		used := s.gateway || s.dflt
		for _, in := range sc.ings {
			for _, x := range in.svcs {
				if in.ns == s.ns && x == s.name {
					used = true
				}
			}
		}
		if !used {
			name := "rt-" + s.name
			sc.ings = append(sc.ings, c19SIng{ns: s.ns, name: name, ann: opt(1, 4), svcs: []string{s.name}})
		}
	}
	return sc
}

func runC19Sync(c *ctx) {
	// seeded defect C19e (verdict memoised per sync under Source.FullName()), the demonstration's cluster: Ingress
	// default/app with an allowed snippet -> Service web; Service default/app with a `server` line; keywords [server]
	demo := &c19Sync{reps: 32, kws: []string{"server"},
		svcs: []c19SSvc{{ns: "default", name: "web"},
			{ns: "default", name: "app", ann: c19Some("\thttp-request set-header x-app 1\n\t server evil 10.0.0.1:8080\n")}},
		ings: []c19SIng{{ns: "default", name: "app", ann: c19Some("  http-request set-header x-web 1\n"), svcs: []string{"web"}},
			{ns: "default", name: "other", svcs: []string{"app"}}}}
	c19syncCase(c, demo)
	demo2 := *demo
	demo2.kws = []string{"use-server", "server"}
	c19syncCase(c, &demo2)
	corpus := []string{
		// minimised: allowed `x` on Ingress default/app, ` k` on Service default/app, keyword k, both creation orders
		"msync32 h6b n default/web!n!-,default/app!h206b!- default/app!h78!n!web,default/other!n!n!app",
		"msync32 h6b n default/web!n!-,default/app!h206b!- default/other!n!n!app,default/app!h78!n!web",
		// deterministic order: the Gateway API backend of Service default/app (allowed) first, then Ingress default/app (dirty)
		"msync8 h6b n default/app!h78!g,default/web!n!- default/app!h6b!n!web",
		"msync8 h6b n default/app!h6b!g,default/web!n!- default/app!h78!n!web",
		// IngressClass parameters vs Service namesake; `*`; global value next to annotations; default backend
		"msync16 h6b n default/app!h6b!-,default/web!n!- default/app!n!h78!web,default/web!n!n!app",
		"msync8 h2a h78 default/app!h78!d,default/web!n!- default/app!h79!n!web",
		"msync8 h,h6b h78 default/app!h79!gd,default/web!h096b!-,default/api!n!- default/app!h6b!n!web+api,default/api!n!h78!api",
	}
	for _, l := range corpus {
		sc, err := c19ParseSync(strings.Fields(l))
		if err != nil {
			panic(err)
		}
		c19syncCase(c, sc)
	}
	c19SyncExhaustive(c)
	r := gen.New(c.seed ^ 0x19e)
	n, reps := 2500, 6
	if c.thorough() {
		n, reps = 30000, 10
	}
	for i := 0; i < n; i++ {
		c19syncCase(c, c19SyncRandom(r, reps))
	}
}
