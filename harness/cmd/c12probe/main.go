package main

import (
	"fmt"
	"os"
	"path/filepath"
	"time"
)

func main() {
	dir, _ := os.MkdirTemp("/tmp/hv-world", "x")
	os.MkdirAll(filepath.Join(dir, "cfg"), 0755)
	f := filepath.Join(dir, "cfg", "a.cfg")
	os.WriteFile(f, []byte("x"), 0644)
	old := time.Unix(1000000, 0)
	fmt.Println(os.Chtimes(f, old, old))
	st, _ := os.Stat(f)
	fmt.Println(st.ModTime(), st.ModTime().Equal(old))
	os.WriteFile(f, []byte("y"), 0644)
	st, _ = os.Stat(f)
	fmt.Println(st.ModTime(), st.ModTime().Equal(old))
	filepath.Walk(filepath.Join(dir, "cfg"), func(path string, info os.FileInfo, err error) error {
		fmt.Println(path, err, info.Mode().IsRegular())
		return nil
	})
}
