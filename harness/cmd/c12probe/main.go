package main

import (
	"fmt"
	"os"
	"path/filepath"
	"sort"

	"hapverif/world"
)

func ls(dir string) {
	filepath.Walk(dir, func(path string, info os.FileInfo, err error) error {
		if err == nil && !info.IsDir() {
			fmt.Println("   ", path[len(dir):], info.Size())
		}
		return nil
	})
}

func main() {
	ops := os.Args[1:]
	opt := world.DefaultOptions()
	opt.KeepLog = true
	w := world.NewWorld()
	p, err := world.NewPipeline(w, opt)
	if err != nil {
		panic(err)
	}
	defer p.Close()
	for _, o := range append(ops, "sync") {
		if o == "sync" {
			_, err := p.Reconcile()
			fmt.Println("sync err=", err, "reloads", p.Sim.Reloads, "cmds", len(p.Sim.Cmds))
			continue
		}
		evs, err := w.Apply(world.Op{Text: o})
		if err != nil {
			panic(err)
		}
		p.Deliver(evs)
	}
	ls(p.Dir)
	for _, l := range p.Log.Lines {
		fmt.Println("LOG", l)
	}
	var _ = sort.Strings
}
