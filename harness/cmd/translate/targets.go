package main

// targets: the Go functions that are translated on every run.  `Sig` gives the Lean types the
// translation is elaborated at (the translator itself is untyped); everything else is syntax.
var targets = []target{
	{
		Prop: "C13", File: "pkg/utils/workqueue/ratelimiters.go", Recv: "reloadHAProxy", Func: "When", Lean: "reloadWhen",
		Sig:      "(r : GoLib.ReloadHAProxy) (now : Int) : GoLib.ReloadHAProxy × Int",
		RetState: true, Skip: []string{"r.mu.Lock", "r.mu.Unlock"},
		Doc: "time.Time / time.Duration are Int nanoseconds, time.Now() is the parameter `now`;",
	},
	{
		Prop: "C13", File: "pkg/utils/workqueue/ratelimiters.go", Recv: "ingressReconciler", Func: "When", Lean: "ingressWhen",
		Sig:      "(r : GoLib.IngressReconciler) (now : Int) : GoLib.IngressReconciler × Int",
		RetState: true, Skip: []string{"r.mu.Lock", "r.mu.Unlock"},
		Doc: "time.Time / time.Duration are Int nanoseconds, time.Now() is the parameter `now`;",
	},
	{
		Prop: "C13", File: "pkg/utils/workqueue/ratelimiters.go", Recv: "reloadHAProxy", Func: "Forget", Lean: "reloadForget",
		Sig:      "(r : GoLib.ReloadHAProxy) (now : Int) : GoLib.ReloadHAProxy",
		RetState: true, Skip: []string{"r.mu.Lock", "r.mu.Unlock"},
		Doc: "called by WorkQueue.process after every successful sync;",
	},
	{
		Prop: "C13", File: "pkg/utils/workqueue/ratelimiters.go", Recv: "ingressReconciler", Func: "Forget", Lean: "ingressForget",
		Sig:      "(r : GoLib.IngressReconciler) (now : Int) : GoLib.IngressReconciler",
		RetState: true, Skip: []string{"r.mu.Lock", "r.mu.Unlock"},
		Doc: "called by WorkQueue.process after every successful sync;",
	},
	{
		Prop: "C13", File: "pkg/utils/workqueue/ratelimiters.go", Recv: "reloadHAProxy", Func: "NumRequeues", Lean: "reloadNumRequeues",
		Sig: "(r : GoLib.ReloadHAProxy) : Int", Skip: []string{"r.mu.Lock", "r.mu.Unlock"},
	},
	{
		Prop: "C13", File: "pkg/utils/workqueue/ratelimiters.go", Recv: "ingressReconciler", Func: "NumRequeues", Lean: "ingressNumRequeues",
		Sig: "(r : GoLib.IngressReconciler) : Int", Skip: []string{"r.mu.Lock", "r.mu.Unlock"},
	},
	{
		Prop: "C02", File: "pkg/haproxy/dynupdate.go", Func: "cmdResponseOK", Lean: "cmdResponseOK",
		Sig:     "(cmd response : String) : Option Bool",
		Partial: true,
		Doc:     "panic = none;",
	},
	{
		Prop: "C04", File: "pkg/haproxy/types/maps.go", Func: "overlaps", Lean: "overlaps",
		Sig:    "(e1 e2 : GoLib.MapEntry) : Bool",
		Syms:   map[string]string{"MatchExact": "GoLib.MatchType.exact", "MatchRegex": "GoLib.MatchType.regex"},
		Rename: map[string]string{"match": "mt"},
	},
	{
		Prop: "C01", File: "pkg/converters/ingress/ingress.go", Recv: "converter", Func: "trackStrictHosts", Lean: "trackStrictHosts",
		Sig:  "(strictHost : Bool) (hostsAdd : List GoLib.HostView) (fx : List GoLib.TrackCall) : List GoLib.TrackCall",
		Fall: "fx",
		Syms: map[string]string{
			"c.haproxy.Global().StrictHost":            "strictHost",
			"c.haproxy.Hosts().ItemsAdd()":             "hostsAdd",
			"hatypes.DefaultHost":                      "Facts.c04DefaultHost",
			"host.FindPath(\"/\", hatypes.MatchBegin)": "(host).rootBegin",
			"convtypes.ResourceHAHostname":             "\"H\"",
		},
		Effects: map[string]string{"c.tracker.TrackNames": "GoLib.trackNames"},
		Doc:     "ItemsAdd() is a Go map: `hostsAdd` is its content in iteration order;",
	},
	{
		Prop: "C08", File: "pkg/controller/services/cache.go", Recv: "c", Func: "IsValidIngressClass", Lean: "isValidIngressClass",
		Sig:  "(c : GoLib.CacheView) (ingressClass : Option GoLib.IngressClassView) : Bool",
		Syms: map[string]string{"ingressClass.Spec.Controller": "(GoLib.derefClass ingressClass).controller"},
	},
	{
		Prop: "C08", File: "pkg/controller/services/cache.go", Recv: "c", Func: "IsValidIngress", Lean: "isValidIngress",
		Sig:  "(c : GoLib.CacheView) (ing : GoLib.IngressView) : Bool",
		Skip: []string{"c.log.Error", "c.log.Info"},
		Syms: map[string]string{
			"ing.Annotations[\"kubernetes.io/ingress.class\"]": "(ing).annClass",
			"ing.Spec.IngressClassName":                        "(ing).className",
			"*className":                                       "(GoLib.deref className)",
			"c.GetIngressClass":                                "(c).getIngressClass",
			"c.IsValidIngressClass":                            "isValidIngressClass c",
		},
		Doc: "the cache read GetIngressClass is the field `getIngressClass` of the view (result: object pointer, error);",
	},
	{
		Prop: "C19", File: "pkg/converters/ingress/annotations/backend.go", Func: "firstToken", Lean: "firstToken",
		Sig:     "(s : List Nat) : Option (List Nat)",
		Partial: true, Fuel: []string{"(s.length + 1)", "(s.length + 1)"},
		Syms: map[string]string{
			"asciiSpace[s[start]]": "(GoLib.lookupTbl Facts.c19AsciiSpaceKeys Facts.c19AsciiSpaceVals (GoLib.byteAt s start))",
			"asciiSpace[s[end]]":   "(GoLib.lookupTbl Facts.c19AsciiSpaceKeys Facts.c19AsciiSpaceVals (GoLib.byteAt s end'))",
		},
		Doc: "strings are byte lists; `asciiSpace` is the table the fact extractor reads from the same file; loops get fuel len(s)+1;",
	},
	{
		Prop: "C14", File: "pkg/controller/reconciler/watchers.go", Func: "appenddedup", Lean: "appenddedup",
		Sig: "(slice : List String) (s : String) : List String",
	},
	{
		Prop: "C14", File: "pkg/controller/reconciler/watchers.go", Recv: "hdlr", Func: "compose", Lean: "compose",
		Sig:  "(h : GoLib.HdlrView) (links objects : List String) (ev : String) (obj : GoLib.ObjView) : List String × List String",
		Fall: "(links, objects)",
		Syms: map[string]string{
			"h.name != nil":      "(h).hasName",
			"h.name(obj)":        "((h).name obj)",
			"obj.GetName()":      "(obj).name",
			"obj.GetNamespace()": "(obj).ns",
			"h.w.ch":             "()",
			"ch.Links[h.res]":    "links",
			"ch.Objects":         "objects",
			"fmt.Sprintf":        "GoLib.sprintfEvResName",
			"appenddedup":        "appenddedup",
		},
		Doc: "`ch.Links[h.res]` (the link list of the handler's resource type) and `ch.Objects` are the explicit state `links`, `objects`;",
	},
	{
		Prop: "C14", File: "pkg/controller/reconciler/watchers.go", Recv: "hdlr", Func: "notify", Lean: "notify",
		Sig:  "(h : GoLib.HdlrView) (needFullSync : Bool) (fx : List Bool) (event : String) (o : GoLib.ObjView) : Bool × List Bool",
		Fall: "(needFullSync, fx)",
		Syms: map[string]string{
			"h.w.ch.NeedFullSync":      "needFullSync",
			"rparam{fullsync: h.full}": "(h).full",
			"h.w.run":                  "false",
		},
		Effects: map[string]string{"q.AddRateLimited": "GoLib.enqueue"},
		Skip:    []string{"h.w.log.Info"},
		Doc:     "the queue is the log `fx` of enqueued items (the fullsync flag of each `rparam`); logging is off;",
	},
}
