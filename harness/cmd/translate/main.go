// translate: regenerates lean/HapVerif/Generated/Code.lean from /repo's current sources.
//
// A small, syntax-directed Go -> Lean 4 translator (go/parser + go/ast only, no type information) for
// the "logic" subset the targets below are written in:
//
//	statements   x := e | x = e | x op= e | x++ | x-- | recv.f = e | if / else if / else | switch (tag or tagless)
//	             | for _, x := range xs {..} | for init; cond; post {..} (fuel from the target table)
//	             | return e.. | continue | break | panic(..) | calls listed as effect-free noise (Lock, Unlock, log)
//	expressions  literals, identifiers, selectors, unary/binary operators, calls through the symbol table,
//	             indexing, slicing, composite literals are NOT translated (target must avoid them)
//
// Translation scheme (every step is local, nothing is "understood"):
//   - a statement list becomes one Lean term; `x := e; rest` becomes `let x := e; rest`;
//   - `if c {A} else {B}; rest` becomes `if c then [A; rest] else [B; rest]` (the continuation is duplicated,
//     so no join points are invented);
//   - assignment to a receiver field `r.f = e` becomes `let r := { r with f := e }`; a method with a pointer
//     receiver returns the pair (receiver', result);
//   - loops go through GoLib.forRange / GoLib.whileFuel with the tuple of the variables the body assigns
//     as explicit state, and a three-way step result (next / break / return).
//
// Anything outside the subset makes the translator emit `#exit`-free Lean that does not elaborate
// (`translate_error "<reason>"`), so the tie theorems of that property stop building and its check reports
// a broken obligation.  The tie theorems (Props/CxxTie.lean) state that the generated definitions equal
// the hand-written model definitions the property theorems are about.
package main

import (
	"fmt"
	"go/ast"
	"go/parser"
	"go/printer"
	"go/token"
	"os"
	"path/filepath"
	"sort"
	"strings"
)

var repo = "/repo"

// target describes one Go function to translate.
type target struct {
	File         string            // path below the repository root
	Recv         string            // receiver type name ("" = plain function)
	Func         string            // function name
	Lean         string            // name of the generated definition
	Sig          string            // Lean binder list + result type, e.g. "(r : Limiter) (now : Int) : Limiter × Int"
	RecvVar      string            // when set: the receiver is state; results are paired with it
	RetState     bool              // return (recv', result)
	Syms         map[string]string // symbol table: Go callee / selector text -> Lean function (overrides the defaults)
	Skip         []string          // calls (rendered Go text of the callee) dropped as effect-free
	Fuel         []string          // Lean fuel expression for the k-th 3-clause / cond loop
	Rename       map[string]string // Go identifier -> Lean identifier (params named `_`, keywords, ...)
	Doc          string
	Prop         string            // property whose generated file (Generated/Code<Prop>.lean) holds the definition
	StrLit       string            // wrapper applied to string literals ("" = Lean String)
	Partial      bool              // the function may panic / uses fuelled loops: the result is an Option
	Effects      map[string]string // statement-level calls with an effect: callee text -> Lean function `f fx args..` : the new `fx`
	Fall         string            // Lean term for falling off the end / a bare `return` (default `()`, or the receiver)
	Imports      []string          // extra imports of the generated file of this property
	Lit          int               // > 0: translate the Lit-th function literal (closure) inside the function instead
	Calls        map[string]string // calls with an effect AND a result: callee text -> Lean `f fx args..` : (result, fx')
	RetFmt       string            // how a returned value is packed, e.g. "(i, fx, %s)" (also used for falling off the end)
	SkipDeferLit bool              // `defer func(){...}()` closures are dropped (logging only)
	MutRange     bool              // `for _, e := range xs { e.f = v }` over a slice of POINTERS: the loop rebuilds `xs` element by element
	Post         string            // raw Lean text emitted after the definition (total wrappers of partial definitions)
	Pre          string            // raw Lean `let` lines opening the body (names a bare `return` / the fall-through refers to)
	MapRange     bool              // `for k := range m` over a Go map: iterate the keys of the view (a list of pairs)
	Sets         []string          // Go maps used as sets (`map[K]struct{}`): literal = empty list, comma-ok read = membership, index write = insert
}

type tr struct {
	t         *target
	fset      *token.FileSet
	errs      []string
	loopN     int
	loopID    map[token.Pos]int   // 3-clause / condition loops numbered in source order
	defers    []string            // deferred effect calls as `let` lines, in source order
	fnFall    string              // the term for falling off the end of the function
	joinDepth int                 // > 0 while translating the branches of a joined `if`
	shadowErr string              // set by checkShadow: the definition is then emitted as a translate_error
	retWrap   func(string) string // how a `return e` is rendered in the current context
	funcRet   func(string) string // how a `return e` is rendered at function level
	loopVars  []string            // non-nil inside a loop body: state tuple of the loop
	inLoop    bool
	closures  map[string]bool // local closures declared so far (`f := func…`)
	loopPush  string          // inside a MutRange loop body: the range variable pushed onto the rebuilt slice at every `next`
}

func (x *tr) isSet(e ast.Expr) bool {
	id, ok := e.(*ast.Ident)
	if !ok {
		return false
	}
	for _, n := range x.t.Sets {
		if n == id.Name {
			return true
		}
	}
	return false
}

func (x *tr) errf(format string, a ...any) string {
	msg := fmt.Sprintf(format, a...)
	x.errs = append(x.errs, msg)
	return fmt.Sprintf("(translate_error %q)", msg)
}

func (x *tr) src(n ast.Node) string {
	var sb strings.Builder
	if err := printer.Fprint(&sb, x.fset, n); err != nil {
		return "?"
	}
	return sb.String()
}

var defaultSyms = map[string]string{
	"strings.HasPrefix": "GoLib.hasPrefix",
	"strings.HasSuffix": "GoLib.hasSuffix",
	"strings.Contains":  "GoLib.contains",
	"strings.ToLower":   "GoLib.toLower",
	"strings.TrimSpace": "GoLib.trimSpace",
	"len":               "GoLib.len",
	"append":            "GoLib.append1",
	"time.Now":          "now",
	".After":            "GoLib.timeAfter",
	".Before":           "GoLib.timeBefore",
	".Add":              "GoLib.timeAdd",
	".Sub":              "GoLib.timeSub",
}

func (x *tr) sym(name string) (string, bool) {
	if s, ok := x.t.Syms[name]; ok {
		return s, true
	}
	s, ok := defaultSyms[name]
	return s, ok
}

func (x *tr) ident(name string) string {
	if r, ok := x.t.Rename[name]; ok {
		return r
	}
	switch name {
	case "true", "false":
		return name
	case "nil":
		return "GoLib.nil"
	case "end", "from", "at", "do", "then", "fun", "let", "match", "with", "in", "open", "def", "where", "show", "have", "by", "prefix", "local", "instance", "class", "structure", "namespace", "section", "exists", "forall", "if", "else":
		return name + "'"
	}
	return name
}

// ---- expressions

func (x *tr) expr(e ast.Expr) string {
	// escape hatch: the whole expression text is in the target's symbol table
	if s, ok := x.t.Syms[x.src(e)]; ok {
		return s
	}
	switch v := e.(type) {
	case *ast.ParenExpr:
		return "(" + x.expr(v.X) + ")"
	case *ast.BasicLit:
		switch v.Kind {
		case token.INT:
			return "(" + v.Value + " : Int)"
		case token.STRING:
			if strings.HasPrefix(v.Value, "`") {
				return x.errf("raw string literal")
			}
			if x.t.StrLit != "" {
				return "(" + x.t.StrLit + " " + v.Value + ")"
			}
			return v.Value
		case token.CHAR:
			if len(v.Value) == 3 {
				return fmt.Sprintf("(%d : Int)", v.Value[1])
			}
			switch v.Value {
			case `'\t'`:
				return "(9 : Int)"
			case `'\n'`:
				return "(10 : Int)"
			case `'\v'`:
				return "(11 : Int)"
			case `'\f'`:
				return "(12 : Int)"
			case `'\r'`:
				return "(13 : Int)"
			}
		}
		return x.errf("literal %s", v.Value)
	case *ast.Ident:
		if s, ok := x.t.Syms[v.Name]; ok {
			return s
		}
		return x.ident(v.Name)
	case *ast.SelectorExpr:
		full := x.src(v)
		if s, ok := x.sym(full); ok {
			return s
		}
		return "(" + x.expr(v.X) + ")." + x.ident(v.Sel.Name)
	case *ast.StarExpr: // pointer dereference: values are immutable in the translation
		return x.expr(v.X)
	case *ast.UnaryExpr:
		switch v.Op {
		case token.NOT:
			return "(!" + x.expr(v.X) + ")"
		case token.SUB:
			return "(-" + x.expr(v.X) + ")"
		case token.AND:
			return x.expr(v.X)
		}
		return x.errf("unary %s", v.Op)
	case *ast.BinaryExpr:
		a, b := x.expr(v.X), x.expr(v.Y)
		switch v.Op {
		case token.LAND:
			return "(" + a + " && " + b + ")"
		case token.LOR:
			return "(" + a + " || " + b + ")"
		case token.EQL:
			return "(" + a + " == " + b + ")"
		case token.NEQ:
			return "(" + a + " != " + b + ")"
		case token.LSS:
			return "(decide (" + a + " < " + b + "))"
		case token.LEQ:
			return "(decide (" + a + " ≤ " + b + "))"
		case token.GTR:
			return "(decide (" + a + " > " + b + "))"
		case token.GEQ:
			return "(decide (" + a + " ≥ " + b + "))"
		case token.ADD:
			return "(GoLib.add " + a + " " + b + ")"
		case token.SUB:
			return "(" + a + " - " + b + ")"
		case token.MUL:
			return "(" + a + " * " + b + ")"
		case token.QUO:
			return "(GoLib.quo " + a + " " + b + ")"
		case token.REM:
			return "(GoLib.rem " + a + " " + b + ")"
		case token.AND:
			return "(GoLib.band " + a + " " + b + ")"
		}
		return x.errf("binary %s", v.Op)
	case *ast.CallExpr:
		return x.call(v)
	case *ast.CompositeLit:
		// `T{f: v, …}` with field names only: a structure instance (the type comes from the signature)
		parts := make([]string, 0, len(v.Elts))
		for _, el := range v.Elts {
			kv, ok := el.(*ast.KeyValueExpr)
			if !ok {
				return x.errf("composite literal without field names: %s", x.src(v))
			}
			k, ok := kv.Key.(*ast.Ident)
			if !ok {
				return x.errf("composite literal key %s", x.src(kv.Key))
			}
			parts = append(parts, x.ident(k.Name)+" := "+x.expr(kv.Value))
		}
		return "{ " + strings.Join(parts, ", ") + " }"
	case *ast.IndexExpr:
		return "(GoLib.index " + x.expr(v.X) + " " + x.expr(v.Index) + ")"
	case *ast.SliceExpr:
		if v.Slice3 {
			return x.errf("3-index slice")
		}
		lo, hi := "(0 : Int)", ""
		if v.Low != nil {
			lo = x.expr(v.Low)
		}
		if v.High != nil {
			hi = x.expr(v.High)
		} else {
			hi = "(GoLib.len " + x.expr(v.X) + ")"
		}
		return "(GoLib.slice " + x.expr(v.X) + " " + lo + " " + hi + ")"
	}
	return x.errf("expression %T", e)
}

func (x *tr) call(c *ast.CallExpr) string {
	callee := x.src(c.Fun)
	args := make([]string, 0, len(c.Args)+1)
	fn, ok := x.sym(callee)
	if !ok {
		if sel, isSel := c.Fun.(*ast.SelectorExpr); isSel {
			// method call: look up ".Name", receiver becomes the first argument
			if m, ok2 := x.sym("." + sel.Sel.Name); ok2 {
				fn, ok = m, true
				args = append(args, x.expr(sel.X))
			}
		}
	}
	if !ok {
		if id, isID := c.Fun.(*ast.Ident); isID && x.closures[id.Name] {
			fn, ok = x.ident(id.Name), true
		}
	}
	if !ok {
		return x.errf("call of %s (not in the symbol table)", callee)
	}
	for _, a := range c.Args {
		args = append(args, x.expr(a))
	}
	if len(args) == 0 {
		return fn
	}
	return "(" + fn + " " + strings.Join(args, " ") + ")"
}

// ---- statements

func (x *tr) state() string { // the loop state tuple as a Lean term (the pattern is built by the loop itself)
	vars := x.loopVars
	if x.loopPush != "" {
		// the last state component is the rebuilt slice: the (possibly updated) element is appended
		vars = append(append([]string{}, vars[:len(vars)-1]...), "(GoLib.append1 acc' "+x.loopPush+")")
	}
	if len(vars) == 0 {
		return "()"
	}
	if len(vars) == 1 {
		return vars[0]
	}
	return "(" + strings.Join(vars, ", ") + ")"
}

// assigned collects the identifiers (and the receiver variable for field writes) assigned in stmts that are
// not declared inside them.
func (x *tr) assigned(stmts []ast.Stmt) []string {
	decl := map[string]bool{}
	set := map[string]bool{}
	var walk func(n ast.Node) bool
	note := func(e ast.Expr) {
		if sym, ok := x.t.Syms[x.src(e)]; ok {
			set[sym] = true
			return
		}
		switch v := e.(type) {
		case *ast.Ident:
			if !decl[v.Name] && v.Name != "_" {
				set[x.ident(v.Name)] = true
			}
		case *ast.SelectorExpr:
			if id, ok := v.X.(*ast.Ident); ok && !decl[id.Name] {
				set[x.ident(id.Name)] = true
			}
		case *ast.IndexExpr:
			if id, ok := v.X.(*ast.Ident); ok && !decl[id.Name] {
				set[x.ident(id.Name)] = true
			}
		}
	}
	walk = func(n ast.Node) bool {
		switch v := n.(type) {
		case *ast.AssignStmt:
			for _, l := range v.Lhs {
				if v.Tok == token.DEFINE {
					if id, ok := l.(*ast.Ident); ok {
						decl[id.Name] = true
					}
				} else {
					note(l)
				}
			}
		case *ast.IncDecStmt:
			note(v.X)
		case *ast.CallExpr:
			if _, ok := x.t.Calls[x.src(v.Fun)]; ok {
				set["fx"] = true
			}
		case *ast.DeclStmt:
			if gd, ok := v.Decl.(*ast.GenDecl); ok {
				for _, sp := range gd.Specs {
					if vs, ok := sp.(*ast.ValueSpec); ok {
						for _, n := range vs.Names {
							decl[n.Name] = true
						}
					}
				}
			}
		case *ast.ExprStmt:
			if c, ok := v.X.(*ast.CallExpr); ok {
				if fn, ok := x.t.Effects[x.src(c.Fun)]; ok {
					tv := "fx"
					if i := strings.Index(fn, ":="); i > 0 {
						tv = fn[:i]
					}
					if !decl[tv] {
						set[tv] = true
					}
				}
			}
		case *ast.RangeStmt:
			if v.Tok == token.DEFINE {
				for _, e := range []ast.Expr{v.Key, v.Value} {
					if id, ok := e.(*ast.Ident); ok {
						decl[id.Name] = true
					}
				}
			}
		}
		return true
	}
	for _, s := range stmts {
		ast.Inspect(s, walk)
	}
	out := make([]string, 0, len(set))
	for k := range set {
		out = append(out, k)
	}
	sort.Strings(out)
	return out
}

// containsJump: a return, break, continue or panic anywhere inside (closures excluded)
func containsJump(stmts []ast.Stmt) bool {
	found := false
	for _, s := range stmts {
		ast.Inspect(s, func(n ast.Node) bool {
			switch v := n.(type) {
			case *ast.FuncLit:
				return false
			case *ast.ReturnStmt, *ast.BranchStmt, *ast.ForStmt, *ast.RangeStmt:
				// (a loop is translated with early-exit arms: it cannot sit inside a joined branch)
				found = true
			case *ast.CallExpr:
				if id, ok := v.Fun.(*ast.Ident); ok && id.Name == "panic" {
					found = true
				}
			}
			return !found
		})
	}
	return found
}

func terminates(stmts []ast.Stmt) bool {
	if len(stmts) == 0 {
		return false
	}
	switch v := stmts[len(stmts)-1].(type) {
	case *ast.ReturnStmt:
		return true
	case *ast.BranchStmt:
		return v.Tok == token.CONTINUE || v.Tok == token.BREAK
	case *ast.ExprStmt:
		if c, ok := v.X.(*ast.CallExpr); ok {
			if id, ok := c.Fun.(*ast.Ident); ok && id.Name == "panic" {
				return true
			}
		}
	case *ast.IfStmt:
		if v.Else == nil {
			return false
		}
		var els []ast.Stmt
		switch e := v.Else.(type) {
		case *ast.BlockStmt:
			els = e.List
		case *ast.IfStmt:
			els = []ast.Stmt{e}
		}
		return terminates(v.Body.List) && terminates(els)
	}
	return false
}

// stmts translates a statement list; `fall` is the Lean term for falling off the end.
func (x *tr) stmts(list []ast.Stmt, fall string, ind string) string {
	if len(list) == 0 {
		if fall == x.fnFall && !x.inLoop && x.joinDepth == 0 && len(x.defers) > 0 {
			// falling off the end of the function: the deferred effects run
			pre := ""
			for k := len(x.defers) - 1; k >= 0; k-- {
				pre += x.defers[k] + "\n" + ind
			}
			return pre + fall
		}
		return fall
	}
	s, rest := list[0], list[1:]
	next := func() string { return x.stmts(rest, fall, ind) }
	switch v := s.(type) {
	case *ast.EmptyStmt:
		return next()
	case *ast.DeferStmt:
		if x.skipped(v.Call) {
			return next()
		}
		if _, isLit := v.Call.Fun.(*ast.FuncLit); isLit && x.t.SkipDeferLit {
			return next()
		}
		if l := x.effectLet(v.Call); l != "" {
			if x.inLoop {
				return x.errf("defer inside a loop")
			}
			// runs at every return that follows (reverse order of registration)
			saved := x.defers
			x.defers = append(append([]string{}, x.defers...), l)
			out := next()
			x.defers = saved
			return out
		}
		return x.errf("defer %s", x.src(v.Call))
	case *ast.ExprStmt:
		if c, ok := v.X.(*ast.CallExpr); ok {
			if id, ok := c.Fun.(*ast.Ident); ok && id.Name == "panic" {
				if !x.t.Partial {
					return x.errf("panic in a function not marked Partial")
				}
				return x.panicTerm()
			}
			if x.skipped(c) {
				return next()
			}
			if l := x.effectLet(c); l != "" {
				return l + "\n" + ind + next()
			}
			if cc, ok := x.isCall(c); ok {
				return x.callLet("_", cc) + "\n" + ind + next()
			}
		}
		return x.errf("statement %s", x.src(v))
	case *ast.DeclStmt:
		gd, ok := v.Decl.(*ast.GenDecl)
		if !ok || gd.Tok != token.VAR {
			return x.errf("declaration %s", x.src(v))
		}
		out := ""
		for _, sp := range gd.Specs {
			vs := sp.(*ast.ValueSpec)
			for i, n := range vs.Names {
				val := "default"
				if i < len(vs.Values) {
					val = x.expr(vs.Values[i])
				} else if _, isFn := vs.Type.(*ast.FuncType); isFn {
					// a function variable: represented by the NAME of the function it is assigned (symbol table)
					val = "\"\""
				} else if id, ok := vs.Type.(*ast.Ident); ok {
					switch id.Name {
					case "int", "int64", "int32", "uint32", "uint64", "uint":
						val = "(0 : Int)"
					case "string":
						val = "\"\""
						if x.t.StrLit != "" {
							val = "(" + x.t.StrLit + " \"\")"
						}
					case "bool":
						val = "false"
					case "error":
						val = "(GoLib.nil : Option String)"
					}
				}
				out += "let " + x.ident(n.Name) + " := " + val + "\n" + ind
			}
		}
		return out + next()
	case *ast.AssignStmt:
		if len(v.Lhs) == 1 && len(v.Rhs) == 1 {
			if cc, ok := x.isCall(v.Rhs[0]); ok {
				if id, ok := v.Lhs[0].(*ast.Ident); ok {
					return x.callLet(x.pat(id.Name), cc) + "\n" + ind + next()
				}
				return x.errf("assignment %s", x.src(v))
			}
		}
		if len(v.Lhs) == 1 && len(v.Rhs) == 1 {
			if fl, ok := v.Rhs[0].(*ast.FuncLit); ok && v.Tok == token.DEFINE {
				// `f := func(a, b T) R { … }`: a local closure without effects; a `return` inside leaves the closure only
				id, isID := v.Lhs[0].(*ast.Ident)
				if !isID {
					return x.errf("assignment %s", x.src(v))
				}
				if x.closures == nil {
					x.closures = map[string]bool{}
				}
				x.closures[id.Name] = true
				var params []string
				for _, f := range fl.Type.Params.List {
					for _, n := range f.Names {
						params = append(params, x.ident(n.Name))
					}
				}
				if len(params) == 0 {
					params = []string{"_"}
				}
				saveW, saveL, saveV, saveP, saveD, saveJ := x.retWrap, x.inLoop, x.loopVars, x.loopPush, x.defers, x.joinDepth
				x.retWrap = func(v string) string { return v }
				x.inLoop, x.loopVars, x.loopPush, x.defers, x.joinDepth = false, nil, "", nil, 1
				body := x.stmts(fl.Body.List, "()", ind+"    ")
				x.retWrap, x.inLoop, x.loopVars, x.loopPush, x.defers, x.joinDepth = saveW, saveL, saveV, saveP, saveD, saveJ
				return "let " + x.ident(id.Name) + " := (fun " + strings.Join(params, " ") + " =>\n" + ind + "    " + body + ")\n" + ind + next()
			}
			if cl, ok := v.Rhs[0].(*ast.CompositeLit); ok && x.isSet(v.Lhs[0]) && len(cl.Elts) == 0 {
				// `s := map[K]struct{}{}`
				return "let " + x.ident(v.Lhs[0].(*ast.Ident).Name) + " := GoLib.setEmpty\n" + ind + next()
			}
			if ix, ok := v.Lhs[0].(*ast.IndexExpr); ok && x.isSet(ix.X) && v.Tok == token.ASSIGN {
				// `s[k] = struct{}{}`
				n := x.ident(ix.X.(*ast.Ident).Name)
				return "let " + n + " := (GoLib.setAdd " + n + " " + x.expr(ix.Index) + ")\n" + ind + next()
			}
		}
		if len(v.Lhs) == 2 && len(v.Rhs) == 1 {
			if ix, ok := v.Rhs[0].(*ast.IndexExpr); ok && x.isSet(ix.X) {
				// `_, ok := s[k]`
				a, ok1 := v.Lhs[0].(*ast.Ident)
				b, ok2 := v.Lhs[1].(*ast.Ident)
				if ok1 && ok2 {
					return "let (" + x.pat(a.Name) + ", " + x.pat(b.Name) + ") := ((), GoLib.setHas " + x.ident(ix.X.(*ast.Ident).Name) + " " + x.expr(ix.Index) + ")\n" + ind + next()
				}
			}
			// comma-ok form / two-result call: the right-hand side is a pair
			a, ok1 := v.Lhs[0].(*ast.Ident)
			b, ok2 := v.Lhs[1].(*ast.Ident)
			if !ok1 || !ok2 {
				return x.errf("assignment %s", x.src(v))
			}
			return "let (" + x.pat(a.Name) + ", " + x.pat(b.Name) + ") := " + x.expr(v.Rhs[0]) + "\n" + ind + next()
		}
		if len(v.Lhs) > 2 && len(v.Rhs) == 1 {
			// n results of one call: the right-hand side is a (right-nested) tuple
			if cc, ok := x.isCall(v.Rhs[0]); ok {
				// … of a call with an effect: ((r1, …, rn), fx')
				pats := make([]string, len(v.Lhs))
				for i, l := range v.Lhs {
					id, ok := l.(*ast.Ident)
					if !ok {
						return x.errf("assignment %s", x.src(v))
					}
					pats[i] = x.pat(id.Name)
				}
				return x.callLet("("+strings.Join(pats, ", ")+")", cc) + "\n" + ind + next()
			}
			pats := make([]string, len(v.Lhs))
			for i, l := range v.Lhs {
				id, ok := l.(*ast.Ident)
				if !ok {
					return x.errf("assignment %s", x.src(v))
				}
				pats[i] = x.pat(id.Name)
			}
			return "let (" + strings.Join(pats, ", ") + ") := " + x.expr(v.Rhs[0]) + "\n" + ind + next()
		}
		if len(v.Lhs) != len(v.Rhs) {
			return x.errf("assignment %s", x.src(v))
		}
		out := ""
		if len(v.Lhs) > 1 { // parallel assignment: evaluate all right-hand sides first
			tmp := make([]string, len(v.Rhs))
			for i, r := range v.Rhs {
				tmp[i] = fmt.Sprintf("tmp%d'", i)
				out += "let " + tmp[i] + " := " + x.expr(r) + "\n" + ind
			}
			for i, l := range v.Lhs {
				out += x.assign(l, token.ASSIGN, tmp[i], ind)
			}
			return out + next()
		}
		return x.assign(v.Lhs[0], v.Tok, x.expr(v.Rhs[0]), ind) + next()
	case *ast.IncDecStmt:
		op := token.ADD_ASSIGN
		if v.Tok == token.DEC {
			op = token.SUB_ASSIGN
		}
		return x.assign(v.X, op, "(1 : Int)", ind) + next()
	case *ast.ReturnStmt:
		parts := make([]string, len(v.Results))
		for i, r := range v.Results {
			if _, ok := x.isCall(r); ok && len(v.Results) == 1 {
				continue
			}
			parts[i] = x.expr(r)
		}
		pre := ""
		if len(v.Results) == 1 {
			if cc, ok := x.isCall(v.Results[0]); ok {
				pre = x.callLet("r''", cc) + "\n" + ind
				parts[0] = "r''"
			}
		}
		val := "()"
		if len(parts) == 0 && x.t.Fall != "" {
			val = x.t.Fall
		}
		if len(parts) == 1 {
			val = parts[0]
		} else if len(parts) > 1 {
			val = "(" + strings.Join(parts, ", ") + ")"
		}
		for k := len(x.defers) - 1; k >= 0; k-- {
			pre += x.defers[k] + "\n" + ind
		}
		return pre + x.retWrap(val)
	case *ast.BranchStmt:
		if !x.inLoop || v.Label != nil {
			return x.errf("branch %s", x.src(v))
		}
		if v.Tok == token.CONTINUE {
			return "GoLib.Step.next " + x.state()
		}
		if v.Tok == token.BREAK {
			return "GoLib.Step.brk " + x.state()
		}
		return x.errf("branch %s", x.src(v))
	case *ast.BlockStmt:
		return x.stmts(append(append([]ast.Stmt{}, v.List...), rest...), fall, ind)
	case *ast.IfStmt:
		pre := ""
		if v.Init != nil {
			pre = x.stmts([]ast.Stmt{v.Init}, "", ind)
		}
		var els []ast.Stmt
		switch e := v.Else.(type) {
		case *ast.BlockStmt:
			els = e.List
		case *ast.IfStmt:
			els = []ast.Stmt{e}
		}
		if len(rest) > 0 && !containsJump(v.Body.List) && !containsJump(els) {
			// no way out of the branches but their end: join instead of duplicating the continuation
			vars := x.assigned(append(append([]ast.Stmt{}, v.Body.List...), els...))
			tup := tuple(vars)
			ind2 := ind + "  "
			x.joinDepth++
			thenT := x.stmts(v.Body.List, tup, ind2)
			elseT := x.stmts(els, tup, ind2)
			x.joinDepth--
			return pre + "let " + tup + " := (if " + x.expr(v.Cond) + " then\n" + ind2 + thenT + "\n" + ind + "else\n" + ind2 + elseT + ")\n" + ind + next()
		}
		x.checkShadow(v.Body.List, rest)
		x.checkShadow(els, rest)
		ind2 := ind + "  "
		thenT := x.stmts(append(append([]ast.Stmt{}, v.Body.List...), rest...), fall, ind2)
		elseT := x.stmts(append(append([]ast.Stmt{}, els...), rest...), fall, ind2)
		return pre + "if " + x.expr(v.Cond) + " then\n" + ind2 + thenT + "\n" + ind + "else\n" + ind2 + elseT
	case *ast.SwitchStmt:
		if v.Init != nil {
			return x.errf("switch with init")
		}
		// rewrite into an if chain
		var chain ast.Stmt
		var dflt []ast.Stmt
		clauses := v.Body.List
		for i := len(clauses) - 1; i >= 0; i-- {
			cc := clauses[i].(*ast.CaseClause)
			for _, b := range cc.Body {
				if br, ok := b.(*ast.BranchStmt); ok && br.Tok == token.FALLTHROUGH {
					return x.errf("fallthrough")
				}
			}
			if cc.List == nil {
				dflt = cc.Body
			}
		}
		var elseS ast.Stmt
		if dflt != nil {
			elseS = &ast.BlockStmt{List: dflt}
		}
		for i := len(clauses) - 1; i >= 0; i-- {
			cc := clauses[i].(*ast.CaseClause)
			if cc.List == nil {
				continue
			}
			var cond ast.Expr
			for _, e := range cc.List {
				var c ast.Expr = e
				if v.Tag != nil {
					c = &ast.BinaryExpr{X: v.Tag, Op: token.EQL, Y: e}
				}
				if cond == nil {
					cond = c
				} else {
					cond = &ast.BinaryExpr{X: cond, Op: token.LOR, Y: c}
				}
			}
			is := &ast.IfStmt{Cond: cond, Body: &ast.BlockStmt{List: cc.Body}}
			if elseS != nil {
				is.Else = elseS
			}
			elseS = is
			chain = is
		}
		if chain == nil {
			return x.stmts(append(append([]ast.Stmt{}, dflt...), rest...), fall, ind)
		}
		return x.stmts(append([]ast.Stmt{chain}, rest...), fall, ind)
	case *ast.RangeStmt:
		return x.rangeLoop(v, rest, fall, ind)
	case *ast.ForStmt:
		return x.forLoop(v, rest, fall, ind)
	}
	return x.errf("statement %T", s)
}

// checkShadow refuses a branch that re-declares (:=) a name the continuation reads FREE (i.e. before the
// continuation declares it again in an enclosing scope): the duplicated continuation would see the inner variable.
func (x *tr) checkShadow(branch, rest []ast.Stmt) {
	decl := map[string]bool{}
	for _, s := range branch {
		if a, ok := s.(*ast.AssignStmt); ok && a.Tok == token.DEFINE {
			for _, l := range a.Lhs {
				if id, ok := l.(*ast.Ident); ok {
					decl[id.Name] = true
				}
			}
		}
	}
	if len(decl) == 0 || terminates(branch) {
		return
	}
	for name := range decl {
		if usesFree(rest, name) {
			x.shadowErr = fmt.Sprintf("branch declares %s which the continuation also reads", name)
			x.errs = append(x.errs, x.shadowErr)
		}
	}
}

// usesFree: does the statement list mention `name` before (re)declaring it in the same or an enclosing block?
func usesFree(stmts []ast.Stmt, name string) bool {
	declares := func(s ast.Stmt) bool { // a declaration of name at this block level
		switch v := s.(type) {
		case *ast.AssignStmt:
			if v.Tok == token.DEFINE {
				for _, l := range v.Lhs {
					if id, ok := l.(*ast.Ident); ok && id.Name == name {
						return true
					}
				}
			}
		case *ast.DeclStmt:
			if gd, ok := v.Decl.(*ast.GenDecl); ok {
				for _, sp := range gd.Specs {
					if vs, ok := sp.(*ast.ValueSpec); ok {
						for _, n := range vs.Names {
							if n.Name == name {
								return true
							}
						}
					}
				}
			}
		}
		return false
	}
	mentions := func(n ast.Node) bool {
		found := false
		ast.Inspect(n, func(m ast.Node) bool {
			if id, ok := m.(*ast.Ident); ok && id.Name == name {
				found = true
			}
			return !found
		})
		return found
	}
	for _, s := range stmts {
		if declares(s) {
			// right-hand sides are evaluated before the declaration takes effect
			if a, ok := s.(*ast.AssignStmt); ok {
				for _, r := range a.Rhs {
					if mentions(r) {
						return true
					}
				}
			}
			return false // re-declared: later mentions see the new variable
		}
		switch v := s.(type) {
		case *ast.BlockStmt:
			if usesFree(v.List, name) {
				return true
			}
		case *ast.IfStmt:
			var initDecl bool
			if v.Init != nil {
				initDecl = declares(v.Init)
				if !initDecl && mentions(v.Init) {
					return true
				}
			}
			if !initDecl {
				if mentions(v.Cond) || usesFree(v.Body.List, name) {
					return true
				}
				if v.Else != nil && usesFree([]ast.Stmt{v.Else}, name) {
					return true
				}
			}
		default:
			if mentions(s) {
				return true
			}
		}
	}
	return false
}

func (x *tr) effectLet(c *ast.CallExpr) string {
	fn, ok := x.t.Effects[x.src(c.Fun)]
	if !ok {
		return ""
	}
	tv := "fx"
	if i := strings.Index(fn, ":="); i > 0 {
		tv, fn = fn[:i], fn[i+2:]
	}
	args := []string{tv}
	if strings.HasSuffix(fn, "!1") { // only the first argument of the Go call is passed on
		fn = strings.TrimSuffix(fn, "!1")
		if len(c.Args) > 0 {
			args = append(args, x.expr(c.Args[0]))
		}
	} else if strings.HasSuffix(fn, "!") {
		fn = strings.TrimSuffix(fn, "!")
	} else {
		for _, a := range c.Args {
			args = append(args, x.expr(a))
		}
	}
	return "let " + tv + " := (" + fn + " " + strings.Join(args, " ") + ")"
}

// callLet renders `lhs.. := f(args)` for a call listed in Calls: `let (lhs, fx) := (F fx args)`.
func (x *tr) callLet(lhs string, c *ast.CallExpr) string {
	fn := x.t.Calls[x.src(c.Fun)]
	args := []string{"fx"}
	if strings.HasSuffix(fn, "!") {
		fn = strings.TrimSuffix(fn, "!")
	} else {
		for _, a := range c.Args {
			args = append(args, x.expr(a))
		}
	}
	return "let (" + lhs + ", fx) := (" + fn + " " + strings.Join(args, " ") + ")"
}

func (x *tr) isCall(e ast.Expr) (*ast.CallExpr, bool) {
	c, ok := e.(*ast.CallExpr)
	if !ok {
		return nil, false
	}
	_, ok = x.t.Calls[x.src(c.Fun)]
	return c, ok
}

func (x *tr) panicTerm() string {
	if x.inLoop {
		return "GoLib.Step.ret none"
	}
	return "none"
}

func (x *tr) pat(name string) string {
	if name == "_" {
		return "_"
	}
	return x.ident(name)
}

func (x *tr) skipped(c *ast.CallExpr) bool {
	callee := x.src(c.Fun)
	for _, s := range x.t.Skip {
		if s == callee {
			return true
		}
	}
	return false
}

func (x *tr) assign(lhs ast.Expr, tok token.Token, rhs string, ind string) string {
	cur := func() string { return x.expr(lhs) }
	switch tok {
	case token.ASSIGN, token.DEFINE:
	case token.ADD_ASSIGN:
		rhs = "(GoLib.add " + cur() + " " + rhs + ")"
	case token.SUB_ASSIGN:
		rhs = "(" + cur() + " - " + rhs + ")"
	default:
		return x.errf("assignment operator %s", tok)
	}
	if sym, ok := x.t.Syms[x.src(lhs)]; ok {
		return "let " + sym + " := " + rhs + "\n" + ind
	}
	switch l := lhs.(type) {
	case *ast.Ident:
		if l.Name == "_" {
			return ""
		}
		return "let " + x.ident(l.Name) + " := " + rhs + "\n" + ind
	case *ast.SelectorExpr:
		if id, ok := l.X.(*ast.Ident); ok {
			n := x.ident(id.Name)
			return "let " + n + " := { " + n + " with " + x.ident(l.Sel.Name) + " := " + rhs + " }\n" + ind
		}
	case *ast.IndexExpr:
		// `xs[i] = e` on a slice held in a variable
		if id, ok := l.X.(*ast.Ident); ok && tok == token.ASSIGN && !x.isSet(l.X) {
			n := x.ident(id.Name)
			return "let " + n + " := (GoLib.setAt " + n + " " + x.expr(l.Index) + " " + rhs + ")\n" + ind
		}
	}
	return x.errf("assignment target %s", x.src(lhs))
}

func (x *tr) loopBody(body []ast.Stmt, vars []string, ind string) string {
	return x.loopBodyPush(body, vars, "", ind)
}

// loopBodyPush: `push` != "" marks a MutRange loop (the last state variable is the rebuilt slice `acc'`)
func (x *tr) loopBodyPush(body []ast.Stmt, vars []string, push string, ind string) string {
	saveV, saveL, saveR, saveP := x.loopVars, x.inLoop, x.retWrap, x.loopPush
	x.loopVars, x.inLoop, x.loopPush = vars, true, push
	x.retWrap = func(v string) string { return "GoLib.Step.ret " + x.funcRet(v) }
	out := x.stmts(body, "GoLib.Step.next "+x.state(), ind)
	x.loopVars, x.inLoop, x.retWrap, x.loopPush = saveV, saveL, saveR, saveP
	return out
}

// writesField: does the statement list assign to a field of `name` (closures excluded)?
func writesField(stmts []ast.Stmt, name string) bool {
	found := false
	for _, s := range stmts {
		ast.Inspect(s, func(n ast.Node) bool {
			if as, ok := n.(*ast.AssignStmt); ok && as.Tok != token.DEFINE {
				for _, l := range as.Lhs {
					if sel, ok := l.(*ast.SelectorExpr); ok {
						if id, ok := sel.X.(*ast.Ident); ok && id.Name == name {
							found = true
						}
					}
				}
			}
			if _, ok := n.(*ast.FuncLit); ok {
				return false
			}
			return !found
		})
	}
	return found
}

// leaves: a return or break anywhere inside (closures and inner loops' breaks included — conservative)
func leaves(stmts []ast.Stmt) bool {
	found := false
	for _, s := range stmts {
		ast.Inspect(s, func(n ast.Node) bool {
			switch v := n.(type) {
			case *ast.FuncLit:
				return false
			case *ast.ReturnStmt:
				found = true
			case *ast.ForStmt:
				// a `break` inside belongs to the inner loop; a `return` would still leave
				if hasReturn(v.Body.List) {
					found = true
				}
				return false
			case *ast.RangeStmt:
				if hasReturn(v.Body.List) {
					found = true
				}
				return false
			case *ast.BranchStmt:
				if v.Tok == token.BREAK {
					found = true
				}
			}
			return !found
		})
	}
	return found
}

func hasReturn(stmts []ast.Stmt) bool {
	found := false
	for _, s := range stmts {
		ast.Inspect(s, func(n ast.Node) bool {
			switch n.(type) {
			case *ast.FuncLit:
				return false
			case *ast.ReturnStmt:
				found = true
			}
			return !found
		})
	}
	return found
}

func tuple(vars []string) string {
	if len(vars) == 0 {
		return "()"
	}
	if len(vars) == 1 {
		return vars[0]
	}
	return "(" + strings.Join(vars, ", ") + ")"
}

func (x *tr) rangeLoop(v *ast.RangeStmt, rest []ast.Stmt, fall, ind string) string {
	if x.inLoop {
		// nested loops are fine: the inner loop's state is re-bound in the outer body
	}
	elem := "_"
	if v.Value != nil {
		elem = x.ident(v.Value.(*ast.Ident).Name)
	}
	keysOnly := false
	idxRange := "" // `for i, e := range xs`: the Lean name of `i`
	if v.Key != nil {
		if id, ok := v.Key.(*ast.Ident); !ok || id.Name != "_" {
			if ok && v.Value == nil && x.t.MapRange {
				// `for k := range m` over a Go map (the target says so): the keys, in the order of the view
				elem = x.ident(id.Name)
				keysOnly = true
			} else if ok && v.Value != nil {
				// `for i, e := range xs`: the pairs (index, element) in order
				if val, isId := v.Value.(*ast.Ident); isId {
					idxRange = x.ident(id.Name)
					_ = val
				} else {
					return x.errf("range value %s", x.src(v.Value))
				}
			} else {
				return x.errf("range with index variable")
			}
		}
	}
	rangeX := x.expr(v.X)
	if keysOnly {
		rangeX = "(GoLib.keys " + rangeX + ")"
	}
	vars := x.assigned(v.Body.List)
	if elem != "_" { // the range variable itself may be re-bound in the body (value copy): never loop state
		k := 0
		for _, n := range vars {
			if n != elem && n != idxRange {
				vars[k] = n
				k++
			}
		}
		vars = vars[:k]
	}
	if elem != "_" && !keysOnly && writesField(v.Body.List, v.Value.(*ast.Ident).Name) {
		// a write through the range variable: only meaningful for a slice of pointers (no type information here,
		// so the target has to say so); the loop then rebuilds the slice, element by element, in the state `acc'`
		if !x.t.MutRange {
			return x.errf("write to a field of the range variable %s (target not marked MutRange)", elem)
		}
		if idxRange != "" {
			return x.errf("MutRange with an index variable")
		}
		sl, isId := v.X.(*ast.Ident)
		if !isId {
			return x.errf("MutRange over %s (not an identifier)", x.src(v.X))
		}
		if leaves(v.Body.List) {
			return x.errf("return/break inside a loop that writes through its range variable")
		}
		if x.loopPush != "" {
			return x.errf("nested MutRange loops")
		}
		vars2 := append(append([]string{}, vars...), "acc'")
		stP := tuple(vars2)
		ind2 := ind + "    "
		body := x.loopBodyPush(v.Body.List, vars2, elem, ind2)
		init := tuple(append(append([]string{}, vars...), "[]"))
		after := x.stmts(rest, fall, ind+"  ")
		retArm := "r'"
		if x.inLoop {
			retArm = "GoLib.Step.ret r'"
		}
		return "match GoLib.forRange " + x.expr(v.X) + " " + init + " (fun " + elem + " " + stP + " =>\n" + ind2 + body + ") with\n" +
			ind + "| .ret r' => " + retArm + "\n" +
			ind + "| .done " + stP + " =>\n" + ind + "  let " + x.ident(sl.Name) + " := acc'\n" + ind + "  " + after
	}
	st := tuple(vars)
	ind2 := ind + "    "
	body := x.loopBody(v.Body.List, vars, ind2)
	after := x.stmts(rest, fall, ind+"  ")
	// inside an enclosing loop, a `return` of the inner loop must leave the outer loop too
	retArm := "r'"
	if x.inLoop {
		retArm = "GoLib.Step.ret r'"
	}
	elemPat := elem
	if idxRange != "" {
		rangeX = "(GoLib.enum " + rangeX + ")"
		elemPat = "(" + idxRange + ", " + elem + ")"
	}
	return "match GoLib.forRange " + rangeX + " " + st + " (fun " + elemPat + " " + lamPat(st) + " =>\n" + ind2 + body + ") with\n" +
		ind + "| .ret r' => " + retArm + "\n" +
		ind + "| .done " + lamPat(st) + " =>\n" + ind + "  " + after
}

func (x *tr) stuckTerm() string {
	if !x.t.Partial {
		return x.errf("loop in a function not marked Partial")
	}
	return x.panicTerm()
}

func lamPat(st string) string {
	if st == "()" {
		return "_"
	}
	return st
}

func (x *tr) forLoop(v *ast.ForStmt, rest []ast.Stmt, fall, ind string) string {
	k, known := x.loopID[v.Pos()]
	if !known {
		k = len(x.t.Fuel)
	}
	if k >= len(x.t.Fuel) {
		return x.errf("loop %d has no fuel expression in the target table", k)
	}
	pre := ""
	if v.Init != nil {
		pre = x.stmts([]ast.Stmt{v.Init}, "", ind)
	}
	body := append([]ast.Stmt{}, v.Body.List...)
	all := body
	if v.Post != nil {
		all = append(append([]ast.Stmt{}, body...), v.Post)
	}
	vars := x.assigned(all)
	st := tuple(vars)
	ind2 := ind + "    "
	// `continue` must still run the post statement: refuse it when a post statement exists
	if v.Post != nil {
		for _, s := range body {
			ast.Inspect(s, func(n ast.Node) bool {
				if b, ok := n.(*ast.BranchStmt); ok && b.Tok == token.CONTINUE {
					x.errf("continue inside a for loop with a post statement")
				}
				if _, ok := n.(*ast.ForStmt); ok {
					return false
				}
				if _, ok := n.(*ast.RangeStmt); ok {
					return false
				}
				return true
			})
		}
	}
	cond := "true"
	if v.Cond != nil {
		cond = x.expr(v.Cond)
	}
	bodyT := x.loopBody(all, vars, ind2)
	after := x.stmts(rest, fall, ind+"  ")
	retArm := "r'"
	if x.inLoop {
		retArm = "GoLib.Step.ret r'"
	}
	return pre + "match GoLib.whileFuel " + x.t.Fuel[k] + " " + st + " (fun " + lamPat(st) + " => " + cond + ") (fun " + lamPat(st) + " =>\n" + ind2 + bodyT + ") with\n" +
		ind + "| .ret r' => " + retArm + "\n" +
		ind + "| .stuck => " + x.stuckTerm() + "\n" +
		ind + "| .done " + lamPat(st) + " =>\n" + ind + "  " + after
}

// ---- driver

func findFunc(f *ast.File, recv, name string) *ast.FuncDecl {
	for _, d := range f.Decls {
		fd, ok := d.(*ast.FuncDecl)
		if !ok || fd.Name.Name != name {
			continue
		}
		if recv == "" {
			if fd.Recv == nil {
				return fd
			}
			continue
		}
		if fd.Recv == nil || len(fd.Recv.List) != 1 {
			continue
		}
		t := fd.Recv.List[0].Type
		if s, ok := t.(*ast.StarExpr); ok {
			t = s.X
		}
		if ix, ok := t.(*ast.IndexExpr); ok { // generic receiver
			t = ix.X
		}
		if id, ok := t.(*ast.Ident); ok && id.Name == recv {
			return fd
		}
	}
	return nil
}

func translate(t *target) (string, []string) {
	fset := token.NewFileSet()
	f, err := parser.ParseFile(fset, filepath.Join(repo, t.File), nil, 0)
	if err != nil {
		return "", []string{err.Error()}
	}
	fd := findFunc(f, t.Recv, t.Func)
	x := &tr{t: t, fset: fset}
	if fd == nil {
		x.errf("function %s.%s not found in %s", t.Recv, t.Func, t.File)
		return fmt.Sprintf("def %s %s :=\n  (translate_error \"function not found\")\n", t.Lean, t.Sig), x.errs
	}
	recvVar := ""
	if fd.Recv != nil && len(fd.Recv.List[0].Names) == 1 {
		recvVar = x.ident(fd.Recv.List[0].Names[0].Name)
	}
	x.funcRet = func(v string) string {
		if t.RetFmt != "" {
			return strings.ReplaceAll(t.RetFmt, "%s", v)
		}
		if t.RetState {
			v = "(" + recvVar + ", " + v + ")"
		}
		if t.Partial {
			v = "(some " + v + ")"
		}
		return v
	}
	x.retWrap = x.funcRet
	fall := "()"
	if t.RetState {
		fall = recvVar
	}
	if t.Fall != "" {
		fall = t.Fall
	}
	if t.RetFmt != "" {
		fall = strings.ReplaceAll(t.RetFmt, "%s", "GoLib.nil")
	}
	if t.Partial {
		fall = "(some " + fall + ")"
	}
	fbody := fd.Body
	if t.Lit > 0 {
		k := 0
		var lit *ast.FuncLit
		ast.Inspect(fd.Body, func(n ast.Node) bool {
			if fl, ok := n.(*ast.FuncLit); ok {
				k++
				if k == t.Lit && lit == nil {
					lit = fl
				}
			}
			return true
		})
		if lit == nil {
			x.errf("function literal %d of %s not found", t.Lit, t.Func)
			return fmt.Sprintf("def %s %s :=\n  (translate_error \"function literal not found\")\n", t.Lean, t.Sig), x.errs
		}
		fbody = lit.Body
	}
	x.loopID = map[token.Pos]int{}
	ast.Inspect(fbody, func(n ast.Node) bool {
		if f, ok := n.(*ast.ForStmt); ok {
			x.loopID[f.Pos()] = len(x.loopID)
		}
		return true
	})
	x.fnFall = fall
	body := x.stmts(fbody.List, fall, "  ")
	if t.Pre != "" {
		body = t.Pre + "\n  " + body
	}
	doc := t.Doc
	if doc == "" {
		doc = "translated from " + t.File
	}
	name := t.Func
	if t.Recv != "" {
		name = t.Recv + "." + t.Func
	}
	if x.shadowErr != "" {
		body = fmt.Sprintf("(translate_error %q)", x.shadowErr)
	}
	post := ""
	if t.Post != "" {
		post = "\n" + t.Post + "\n"
	}
	return fmt.Sprintf("/-- %s `%s` (%s) -/\ndef %s %s :=\n  %s\n%s", doc, name, t.File, t.Lean, t.Sig, body, post), x.errs
}

func main() {
	outDir := ""
	if len(os.Args) > 1 {
		repo = os.Args[1]
	}
	if len(os.Args) > 2 {
		outDir = os.Args[2]
	}
	byProp := map[string]*strings.Builder{}
	var order []string
	for i := range targets {
		t := &targets[i]
		sb := byProp[t.Prop]
		if sb == nil {
			sb = &strings.Builder{}
			byProp[t.Prop] = sb
			order = append(order, t.Prop)
			sb.WriteString("/- GENERATED by /verif/harness/cmd/translate from /repo — do not edit. -/\nimport HapVerif.GoLib\nimport HapVerif.Generated.Facts\n")
			for _, im := range t.Imports {
				sb.WriteString("import " + im + "\n")
			}
			sb.WriteString("namespace HapVerif.Code" + t.Prop + "\nopen HapVerif\nset_option linter.unusedVariables false\n\n")
		}
		out, errs := translate(t)
		sb.WriteString(out)
		for _, e := range errs {
			fmt.Fprintf(os.Stderr, "translate: %s: %s\n", t.Lean, e)
		}
		sb.WriteString("\n")
	}
	for _, p := range order {
		sb := byProp[p]
		sb.WriteString("end HapVerif.Code" + p + "\n")
		if outDir == "" {
			fmt.Print(sb.String())
			continue
		}
		path := filepath.Join(outDir, "Code"+p+".lean")
		old, _ := os.ReadFile(path)
		if string(old) != sb.String() { // only rewritten on change (keeps lake's cache)
			if err := os.WriteFile(path, []byte(sb.String()), 0o644); err != nil {
				fmt.Fprintln(os.Stderr, err)
				os.Exit(1)
			}
		}
	}
}
