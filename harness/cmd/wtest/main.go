package main

import (
	"fmt"
	"os"
	"strings"

	"hapverif/world"
)

// wtest <ops...> : run a history on a long-lived pipeline with logs, print diff vs fresh
func main() {
	ops := os.Args[1:]
	opt := world.DefaultOptions()
	opt.KeepLog = true
	opt.DefaultBackend = os.Getenv("DB")
	w := world.NewWorld()
	p, err := world.NewPipeline(w, opt)
	if err != nil {
		panic(err)
	}
	defer p.Close()
	for _, o := range append(ops, "sync") {
		if o == "sync" {
			p.Log.Lines = append(p.Log.Lines, "---- sync")
			ch, err := p.Reconcile()
			if err != nil {
				fmt.Println("ERR", err)
			}
			fmt.Printf("batch: full=%v links=%v add=%d upd=%d del=%d objs=%v\n", ch.NeedFullSync, ch.Links, len(ch.IngressesAdd), len(ch.IngressesUpd), len(ch.IngressesDel), ch.Objects)
			continue
		}
		evs, err := w.Apply(world.Op{Text: o})
		if err != nil {
			panic(err)
		}
		p.Deliver(evs)
	}
	for _, l := range p.Log.Lines {
		fmt.Println("LOG", l)
	}
	fopt := world.DefaultOptions()
	fopt.DefaultBackend = os.Getenv("DB")
	res := world.RunHistory(ops, fopt, true)
	fmt.Println("DIFF:", res.Diff, res.Err)
	if len(os.Getenv("DUMP")) > 0 {
		fmt.Println(strings.Repeat("=", 20), "LONG")
		fmt.Println(res.LongText)
		fmt.Println(strings.Repeat("=", 20), "FRESH")
		fmt.Println(res.FreshText)
	}
}
