//go:build verif

// dbg: run a world history and dump the written files after every sync (debug aid)
package main

import (
	"fmt"
	"os"
	"path/filepath"
	"strings"

	"hapverif/world"
)

func main() {
	opt := world.DefaultOptions()
	var ops []string
	for _, o := range strings.Fields(os.Args[1]) {
		if strings.HasPrefix(o, "opt~shards=") {
			fmt.Sscanf(o, "opt~shards=%d", &opt.Shards)
			continue
		}
		ops = append(ops, o)
	}
	w := world.NewWorld()
	p, err := world.NewPipeline(w, opt)
	if err != nil {
		panic(err)
	}
	defer p.Close()
	n := 0
	for _, o := range append(ops, "sync") {
		if o == "sync" {
			_, err := p.Reconcile()
			n++
			fmt.Printf("===== sync %d err=%v\n", n, err)
			filepath.Walk(p.CfgDir, func(path string, info os.FileInfo, err error) error {
				if err == nil && !info.IsDir() && (len(os.Args) < 3 || strings.Contains(path, os.Args[2])) {
					b, _ := os.ReadFile(path)
					if len(b) > 0 && !strings.HasSuffix(path, ".pem") {
						fmt.Printf("--- %s\n%s\n", strings.TrimPrefix(path, p.CfgDir), b)
					}
				}
				return nil
			})
			continue
		}
		evs, err := w.Apply(world.Op{Text: o})
		if err != nil {
			panic(err)
		}
		p.Deliver(evs)
	}
}
