package main

import (
	"go/ast"
	"go/token"
	"strings"
)

// c09LookupsBeforeGetter: every table lookup on a field (`x.f[...]`: map / slice index whose base is a
// selector, e.g. the receiver's `c.tlsFiles[key]`) that the function evaluates BEFORE (source position)
// its first call of a secret getter of the cache facade; "<func>: no getter call" when there is none.
func c09LookupsBeforeGetter(rel string, fd *ast.FuncDecl) []string {
	first := token.NoPos
	ast.Inspect(fd.Body, func(n ast.Node) bool {
		if c, ok := n.(*ast.CallExpr); ok {
			switch c08Src(rel, c.Fun) {
			case "c.cache.GetTLSSecretPath", "c.cache.GetCASecretPath", "c.cache.GetPasswdSecretContent":
				if first == token.NoPos || c.Pos() < first {
					first = c.Pos()
				}
			}
		}
		return true
	})
	if first == token.NoPos {
		return []string{fd.Name.Name + ": no getter call"}
	}
	var res []string
	ast.Inspect(fd.Body, func(n ast.Node) bool {
		if ix, ok := n.(*ast.IndexExpr); ok && ix.Pos() < first {
			if _, sel := ix.X.(*ast.SelectorExpr); sel {
				res = append(res, fd.Name.Name+": "+c08Src(rel, ix))
			}
		}
		return true
	})
	return res
}

// c09MemoFields: fields of a struct type whose type is a map (or a slice of/with) keyed by string and whose
// name or value type tells a certificate / secret table ("crt", "tls", "secret", "CrtFile")
func c09MemoFields(rel, typeName string) []string {
	var res []string
	for _, d := range load(rel).f.Decls {
		gd, ok := d.(*ast.GenDecl)
		if !ok {
			continue
		}
		for _, sp := range gd.Specs {
			ts, ok := sp.(*ast.TypeSpec)
			if !ok || ts.Name.Name != typeName {
				continue
			}
			st, ok := ts.Type.(*ast.StructType)
			if !ok {
				continue
			}
			for _, f := range st.Fields.List {
				if _, isMap := f.Type.(*ast.MapType); !isMap {
					continue
				}
				t := c08Src(rel, f.Type)
				for _, n := range f.Names {
					low := strings.ToLower(n.Name + " " + t)
					if strings.Contains(low, "crt") || strings.Contains(low, "tls") || strings.Contains(low, "secret") || strings.Contains(low, "passwd") {
						res = append(res, n.Name+" "+t)
					}
				}
			}
		}
	}
	return res
}

func factsC09Memo() {
	// ---- C09: every reference asks the cache facade (Model/C09Memo.lean: the resolver is memo-free)
	ing := "pkg/converters/ingress/ingress.go"
	gw := "pkg/converters/gateway/gateway.go"
	back := "pkg/converters/ingress/annotations/backend.go"
	host := "pkg/converters/ingress/annotations/host.go"
	addStrList("c09AddTLSStatements", c08Statements(ing, methodDecl(ing, "converter", "addTLS")),
		"ingress.go addTLS: EVERY statement (the cache getter is called on every call with a secret name; nothing is consulted before it)")
	addStrList("c09ReadCertRefStatements", c08Statements(gw, methodDecl(gw, "converter", "readCertRef")),
		"gateway.go readCertRef: EVERY statement")
	var guards []string
	guards = append(guards, c09LookupsBeforeGetter(ing, methodDecl(ing, "converter", "addTLS"))...)
	guards = append(guards, c09LookupsBeforeGetter(gw, methodDecl(gw, "converter", "readCertRef"))...)
	guards = append(guards, c09LookupsBeforeGetter(back, methodDecl(back, "updater", "buildBackendAuthHTTP"))...)
	guards = append(guards, c09LookupsBeforeGetter(back, methodDecl(back, "updater", "buildBackendProtocol"))...)
	guards = append(guards, c09LookupsBeforeGetter(host, methodDecl(host, "updater", "setAuthTLSConfig"))...)
	addStrList("c09SecretGetterGuards", guards,
		"addTLS, readCertRef, buildBackendAuthHTTP, buildBackendProtocol, setAuthTLSConfig: table lookups on a field (x.f[k]) evaluated before the first secret getter call (none: no converter-side table can answer instead of the cache facade)")
	var fields []string
	fields = append(fields, c09MemoFields(ing, "converter")...)
	fields = append(fields, c09MemoFields(gw, "converter")...)
	fields = append(fields, c09MemoFields("pkg/converters/ingress/annotations/updater.go", "updater")...)
	addStrList("c09ConverterSecretTables", fields,
		"ingress/gateway converter and annotation updater: map fields that could hold certificate / secret answers across references of a sync (none)")
}
