package main

func factsC07() {
}
