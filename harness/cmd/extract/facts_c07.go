package main

func factsC07() {
	// AddBackendPath: ID: fmt.Sprintf("path%02d", len(b.Paths)+1)
	addStr("c07PathIDFormat", one(callArgs("pkg/haproxy/types/backend.go", "AddBackendPath", "fmt.Sprintf", 0), "path id format"), "backend.go AddBackendPath: format of a path id")
}
