package main

import (
	"bytes"
	"go/ast"
	"go/printer"
	"go/token"
	"strings"
)

func c07Src(rel string, n ast.Node) string {
	var b bytes.Buffer
	_ = printer.Fprint(&b, load(rel).fset, n)
	return b.String()
}

func factsC07() {
	// AddBackendPath: ID: fmt.Sprintf("path%02d", len(b.Paths)+1)
	addStr("c07PathIDFormat", one(callArgs("pkg/haproxy/types/backend.go", "AddBackendPath", "fmt.Sprintf", 0), "path id format"), "backend.go AddBackendPath: format of a path id")
	factsC07Ids()
}

// factsC07Ids pins the statement shape of syncBackendEndpointHashes (server ids of assign-backend-server-id),
// the function modelled by HapVerif.C07.Ids (Model/C07Ids.lean).
func factsC07Ids() {
	rel := "pkg/converters/ingress/ingress.go"
	fd := funcDecl(rel, "syncBackendEndpointHashes")
	// the whole body, one trimmed source line per item, comments and logging left out
	var body []string
	for _, l := range strings.Split(c07Src(rel, fd.Body), "\n") {
		l = strings.TrimSpace(l)
		if l == "" || strings.HasPrefix(l, "c.logger.") {
			continue
		}
		body = append(body, l)
	}
	addStrList("c07IdsBody", body, "ingress.go syncBackendEndpointHashes: the body, one trimmed line per item (comments and logger calls left out)")
	// every value assigned to `hash`, in source order: the 31 bit mask is applied where the hash is computed AND
	// in the probing step
	var assigns []string
	// the condition that leaves the probing loop (the `if` whose body is `break`)
	var exits []string
	// what is recorded as used and what is written
	var used, written []string
	ast.Inspect(fd.Body, func(n ast.Node) bool {
		switch v := n.(type) {
		case *ast.AssignStmt:
			if len(v.Lhs) == 1 && len(v.Rhs) == 1 {
				lhs := c07Src(rel, v.Lhs[0])
				switch {
				case lhs == "hash":
					assigns = append(assigns, v.Tok.String()+" "+c07Src(rel, v.Rhs[0]))
				case strings.HasPrefix(lhs, "usedPUIDS["):
					used = append(used, lhs)
				case lhs == "ep.PUID":
					written = append(written, c07Src(rel, v.Rhs[0]))
				}
			}
		case *ast.IncDecStmt:
			if c07Src(rel, v.X) == "hash" {
				assigns = append(assigns, v.Tok.String())
			}
		case *ast.IfStmt:
			if len(v.Body.List) == 1 {
				if b, ok := v.Body.List[0].(*ast.BranchStmt); ok && b.Tok == token.BREAK {
					exits = append(exits, c07Src(rel, v.Cond))
				}
			}
		case *ast.IndexExpr:
			if c07Src(rel, v.X) == "usedPUIDS" {
				used = append(used, "read "+c07Src(rel, v.Index))
			}
		}
		return true
	})
	addStrList("c07IdsHashAssigns", assigns, "ingress.go syncBackendEndpointHashes: every assignment to `hash` (operator and right-hand side), in source order")
	addStrList("c07IdsExitCond", exits, "ingress.go syncBackendEndpointHashes: condition of the `if ... { break }` that ends the probing loop")
	addStrList("c07IdsUsed", used, "ingress.go syncBackendEndpointHashes: accesses to usedPUIDS (assignment targets and index reads), in source order")
	addStrList("c07IdsWritten", written, "ingress.go syncBackendEndpointHashes: the value assigned to ep.PUID")
}
