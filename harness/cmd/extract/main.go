// extract: regenerates lean/HapVerif/Generated/Facts.lean from /repo's current sources.
// Each fact is a small constant the Lean theorems mention; a change in the Go source changes the
// generated definition and the proofs that depend on it are re-checked (and may break).
package main

import (
	"fmt"
	"go/ast"
	"go/parser"
	"go/token"
	"os"
	"path/filepath"
	"sort"
	"strconv"
	"strings"
)

var repo = "/repo"

type file struct {
	fset *token.FileSet
	f    *ast.File
}

var cache = map[string]*file{}

func load(rel string) *file {
	if f, ok := cache[rel]; ok {
		return f
	}
	fset := token.NewFileSet()
	f, err := parser.ParseFile(fset, filepath.Join(repo, rel), nil, 0)
	if err != nil {
		fail("parse %s: %v", rel, err)
	}
	cache[rel] = &file{fset, f}
	return cache[rel]
}

func fail(format string, a ...any) {
	fmt.Fprintf(os.Stderr, "extract: "+format+"\n", a...)
	os.Exit(1)
}

func funcDecl(rel, name string) *ast.FuncDecl {
	for _, d := range load(rel).f.Decls {
		if fd, ok := d.(*ast.FuncDecl); ok && fd.Name.Name == name {
			return fd
		}
	}
	fail("%s: func %s not found", rel, name)
	return nil
}

func lit(e ast.Expr) (string, bool) {
	switch v := e.(type) {
	case *ast.BasicLit:
		return v.Value, true
	case *ast.UnaryExpr:
		if s, ok := lit(v.X); ok {
			return v.Op.String() + s, true
		}
	case *ast.ParenExpr:
		return lit(v.X)
	}
	return "", false
}

func calleeName(e ast.Expr) string {
	switch v := e.(type) {
	case *ast.Ident:
		return v.Name
	case *ast.SelectorExpr:
		return calleeName(v.X) + "." + v.Sel.Name
	}
	return ""
}

// callArgs: literal value of argument idx in every call of callee inside fn
func callArgs(rel, fn, callee string, idx int) []string {
	var res []string
	ast.Inspect(funcDecl(rel, fn), func(n ast.Node) bool {
		if c, ok := n.(*ast.CallExpr); ok && calleeName(c.Fun) == callee && idx < len(c.Args) {
			if s, ok := lit(c.Args[idx]); ok {
				res = append(res, s)
			} else {
				res = append(res, "?")
			}
		}
		return true
	})
	return res
}

// intLits: all integer literals inside fn, in source order
func intLits(rel, fn string) []string {
	var res []string
	ast.Inspect(funcDecl(rel, fn), func(n ast.Node) bool {
		if b, ok := n.(*ast.BasicLit); ok && b.Kind == token.INT {
			res = append(res, b.Value)
		}
		return true
	})
	return res
}

// strLits: all string literals inside fn, in source order
func strLits(rel, fn string) []string {
	var res []string
	ast.Inspect(funcDecl(rel, fn), func(n ast.Node) bool {
		if b, ok := n.(*ast.BasicLit); ok && b.Kind == token.STRING {
			res = append(res, b.Value)
		}
		return true
	})
	return res
}

// constVal: value of a package-level const/var with a literal initialiser
func constVal(rel, name string) string {
	for _, d := range load(rel).f.Decls {
		gd, ok := d.(*ast.GenDecl)
		if !ok {
			continue
		}
		for _, sp := range gd.Specs {
			vs, ok := sp.(*ast.ValueSpec)
			if !ok {
				continue
			}
			for i, n := range vs.Names {
				if n.Name == name && i < len(vs.Values) {
					if s, ok := lit(vs.Values[i]); ok {
						return s
					}
				}
			}
		}
	}
	fail("%s: const %s not found", rel, name)
	return ""
}

// binaryCmps: comparisons `ident op literal` within fn as strings "ident op lit"
func binaryCmps(rel, fn string) []string {
	var res []string
	ast.Inspect(funcDecl(rel, fn), func(n ast.Node) bool {
		if b, ok := n.(*ast.BinaryExpr); ok {
			if l, ok := lit(b.Y); ok {
				if x := calleeName(b.X); x != "" {
					res = append(res, x+" "+b.Op.String()+" "+l)
				}
			}
		}
		return true
	})
	return res
}

func methodDecl(rel, recv, name string) *ast.FuncDecl {
	for _, d := range load(rel).f.Decls {
		fd, ok := d.(*ast.FuncDecl)
		if !ok || fd.Name.Name != name || fd.Recv == nil || len(fd.Recv.List) == 0 {
			continue
		}
		t := fd.Recv.List[0].Type
		if s, ok := t.(*ast.StarExpr); ok {
			t = s.X
		}
		if ix, ok := t.(*ast.IndexExpr); ok {
			t = ix.X
		}
		if id, ok := t.(*ast.Ident); ok && id.Name == recv {
			return fd
		}
	}
	fail("%s: method %s.%s not found", rel, recv, name)
	return nil
}

// methodCalls: names of selector calls (a.b.C) inside a method, source order
func methodCalls(rel, recv, name string) []string {
	var res []string
	ast.Inspect(methodDecl(rel, recv, name).Body, func(n ast.Node) bool {
		if c, ok := n.(*ast.CallExpr); ok {
			if s := calleeName(c.Fun); strings.Contains(s, ".") {
				res = append(res, s)
			}
		}
		return true
	})
	return res
}

func exprString(e ast.Expr) string {
	switch v := e.(type) {
	case *ast.Ident:
		return v.Name
	case *ast.SelectorExpr:
		return exprString(v.X) + "." + v.Sel.Name
	case *ast.CallExpr:
		a := make([]string, len(v.Args))
		for i, x := range v.Args {
			a[i] = exprString(x)
		}
		return exprString(v.Fun) + "(" + strings.Join(a, ",") + ")"
	case *ast.BasicLit:
		return v.Value
	case *ast.BinaryExpr:
		return exprString(v.X) + v.Op.String() + exprString(v.Y)
	}
	return "?"
}

// methodAssigns: "lhs=rhs" of every assignment inside a method whose lhs is a selector
func methodAssigns(rel, recv, name string) []string {
	var res []string
	ast.Inspect(methodDecl(rel, recv, name).Body, func(n ast.Node) bool {
		if a, ok := n.(*ast.AssignStmt); ok && a.Tok == token.ASSIGN && len(a.Lhs) == 1 {
			if _, ok := a.Lhs[0].(*ast.SelectorExpr); ok {
				res = append(res, exprString(a.Lhs[0])+"="+exprString(a.Rhs[0]))
			}
		}
		return true
	})
	return res
}

type fact struct{ name, typ, val, doc string }

var facts []fact

func addInt(name, val, doc string) {
	if _, err := strconv.ParseInt(val, 0, 64); err != nil {
		fail("fact %s: %q is not an integer (%s)", name, val, doc)
	}
	facts = append(facts, fact{name, "Int", val, doc})
}
func addStr(name, val, doc string) {
	s, err := strconv.Unquote(val)
	if err != nil {
		fail("fact %s: %q is not a string literal (%s)", name, val, doc)
	}
	facts = append(facts, fact{name, "String", strconv.Quote(s), doc})
}
func addBool(name string, v bool, doc string) {
	facts = append(facts, fact{name, "Bool", strconv.FormatBool(v), doc})
}
func addStrList(name string, vals []string, doc string) {
	q := make([]string, len(vals))
	for i, v := range vals {
		q[i] = strconv.Quote(v)
	}
	facts = append(facts, fact{name, "List String", "[" + strings.Join(q, ", ") + "]", doc})
}
func addNatList(name string, vals []int, doc string) {
	q := make([]string, len(vals))
	for i, v := range vals {
		q[i] = strconv.Itoa(v)
	}
	facts = append(facts, fact{name, "List Nat", "[" + strings.Join(q, ", ") + "]", doc})
}

func one(xs []string, what string) string {
	if len(xs) != 1 {
		fail("%s: expected exactly one occurrence, got %v", what, xs)
	}
	return xs[0]
}

func has(xs []string, x string) bool {
	for _, y := range xs {
		if y == x {
			return true
		}
	}
	return false
}

func main() {
	if len(os.Args) > 1 {
		repo = os.Args[1]
	}
	collect()
	sort.SliceStable(facts, func(i, j int) bool { return facts[i].name < facts[j].name })
	var b strings.Builder
	b.WriteString("/- GENERATED by /verif/harness/cmd/extract from /repo — do not edit. -/\nnamespace HapVerif.Facts\n\n")
	for _, f := range facts {
		fmt.Fprintf(&b, "/-- %s -/\ndef %s : %s := %s\n\n", f.doc, f.name, f.typ, f.val)
	}
	b.WriteString("end HapVerif.Facts\n")
	fmt.Print(b.String())
}

func fmtInt(i int) string { return strconv.Itoa(i) }
