package main

import (
	"bytes"
	"go/ast"
	"go/printer"
	"strings"
)

func c08Src(rel string, e ast.Node) string {
	var b bytes.Buffer
	if err := printer.Fprint(&b, load(rel).fset, e); err != nil {
		fail("print: %v", err)
	}
	return strings.Join(strings.Fields(b.String()), " ")
}

// c08Skeleton: the decision skeleton of a function body in source order: every `if`
// condition, every assignment and every return (logging statements = expression statements are
// skipped). `c.cfg.` (legacy receiver field) is normalised to `c.config.`.
func c08Skeleton(rel string, fd *ast.FuncDecl) []string {
	var res []string
	norm := func(s string) string { return strings.ReplaceAll(s, "c.cfg.", "c.config.") }
	ast.Inspect(fd.Body, func(n ast.Node) bool {
		switch v := n.(type) {
		case *ast.IfStmt:
			s := ""
			if v.Init != nil {
				s = c08Src(rel, v.Init) + "; "
			}
			res = append(res, "if "+norm(s+c08Src(rel, v.Cond)))
		case *ast.AssignStmt:
			if _, isInit := v.Rhs[0].(*ast.CallExpr); isInit && len(v.Lhs) == 2 {
				// `ingClass, err := c.GetIngressClass(...)` is printed with its `if`
				return true
			}
			res = append(res, norm(c08Src(rel, v)))
		case *ast.ReturnStmt:
			res = append(res, norm(c08Src(rel, v)))
		}
		return true
	})
	return res
}

// c08Statements: EVERY statement of a function body in source order, compound statements
// reduced to their header (`if init; cond`, `for k, v := range x`, `for init; cond; post`,
// `switch tag`), blocks and case clauses descended into. Nothing is skipped, so any new
// condition, variable, map or early exit changes the list.
func c08Statements(rel string, fd *ast.FuncDecl) []string {
	var res []string
	var walk func(s ast.Stmt)
	walkList := func(l []ast.Stmt) {
		for _, s := range l {
			walk(s)
		}
	}
	walk = func(s ast.Stmt) {
		switch v := s.(type) {
		case nil:
		case *ast.BlockStmt:
			walkList(v.List)
		case *ast.IfStmt:
			h := ""
			if v.Init != nil {
				h = c08Src(rel, v.Init) + "; "
			}
			res = append(res, "if "+h+c08Src(rel, v.Cond))
			walk(v.Body)
			if v.Else != nil {
				res = append(res, "else")
				walk(v.Else)
			}
		case *ast.RangeStmt:
			h := "for "
			if v.Key != nil {
				h += c08Src(rel, v.Key)
				if v.Value != nil {
					h += ", " + c08Src(rel, v.Value)
				}
				h += " " + v.Tok.String() + " "
			}
			res = append(res, h+"range "+c08Src(rel, v.X))
			walk(v.Body)
		case *ast.ForStmt:
			h := "for "
			if v.Init != nil {
				h += c08Src(rel, v.Init)
			}
			h += "; "
			if v.Cond != nil {
				h += c08Src(rel, v.Cond)
			}
			h += "; "
			if v.Post != nil {
				h += c08Src(rel, v.Post)
			}
			res = append(res, h)
			walk(v.Body)
		case *ast.SwitchStmt:
			h := "switch "
			if v.Init != nil {
				h += c08Src(rel, v.Init) + "; "
			}
			if v.Tag != nil {
				h += c08Src(rel, v.Tag)
			}
			res = append(res, h)
			walk(v.Body)
		case *ast.CaseClause:
			h := "default"
			if v.List != nil {
				var xs []string
				for _, e := range v.List {
					xs = append(xs, c08Src(rel, e))
				}
				h = "case " + strings.Join(xs, ", ")
			}
			res = append(res, h)
			walkList(v.Body)
		case *ast.LabeledStmt:
			res = append(res, v.Label.Name+":")
			walk(v.Stmt)
		default:
			// assignments, declarations, returns, inc/dec, expression statements, go, defer,
			// branch, type switches, selects: printed whole
			res = append(res, c08Src(rel, v))
		}
	}
	walk(fd.Body)
	return res
}

func factsC08() {
	// ---- C08
	svc := "pkg/controller/services/cache.go"
	leg := "pkg/controller/legacy/cache.go"
	a := c08Skeleton(svc, methodDecl(svc, "c", "IsValidIngress"))
	b := c08Skeleton(leg, methodDecl(leg, "k8scache", "IsValidIngress"))
	addStrList("c08IsValidSkeleton", a, "services/cache.go IsValidIngress: if-conditions, assignments and returns in source order")
	same := len(a) == len(b)
	for i := range a {
		if !same || a[i] != b[i] {
			same = false
			break
		}
	}
	addBool("c08LegacySameSkeleton", same, "legacy/cache.go IsValidIngress has the same decision skeleton as services/cache.go (logging aside, c.cfg = c.config)")
	ic := c08Skeleton(svc, methodDecl(svc, "c", "IsValidIngressClass"))
	addStrList("c08IsValidClassSkeleton", ic, "services/cache.go IsValidIngressClass")
	gc := c08Skeleton(svc, methodDecl(svc, "c", "GetIngressClass"))
	addStrList("c08GetIngressClassSkeleton", gc, "services/cache.go GetIngressClass: returns &class together with the error")

	// the two readers: every statement (GetIngressList must call c.IsValidIngress on every listed
	// item, with no other condition and no state kept between two items)
	addStrList("c08GetIngressListSkeleton", c08Statements(svc, methodDecl(svc, "c", "GetIngressList")),
		"services/cache.go GetIngressList: every statement in source order (compound statements by their header)")
	addStrList("c08GetIngressSkeleton", c08Statements(svc, methodDecl(svc, "c", "GetIngress")),
		"services/cache.go GetIngress: every statement in source order")

	// config.go: controllerName := "<literal>"
	cfg := "pkg/controller/config/config.go"
	var lits []string
	ast.Inspect(load(cfg).f, func(n ast.Node) bool {
		if as, ok := n.(*ast.AssignStmt); ok && len(as.Lhs) == 1 && len(as.Rhs) == 1 {
			if id, ok := as.Lhs[0].(*ast.Ident); ok && id.Name == "controllerName" && as.Tok.String() == ":=" {
				if s, ok := lit(as.Rhs[0]); ok {
					lits = append(lits, s)
				}
			}
		}
		return true
	})
	addStr("c08ControllerNameLit", one(lits, "controllerName := <literal> in config.go"), "config.go: literal the controller name starts with")

	// watchers.go handlersIngress: the three branch conditions of upd
	wt := "pkg/controller/reconciler/watchers.go"
	var br []string
	ast.Inspect(methodDecl(wt, "watchers", "handlersIngress").Body, func(n ast.Node) bool {
		if v, ok := n.(*ast.IfStmt); ok {
			br = append(br, c08Src(wt, v.Cond))
		}
		return true
	})
	addStrList("c08UpdBranches", br, "watchers.go handlersIngress: if-conditions of the upd function")

	// watchers.go handlersIngress: `full` flag of the two handlers
	full := map[string]bool{}
	ast.Inspect(methodDecl(wt, "watchers", "handlersIngress").Body, func(n ast.Node) bool {
		cl, ok := n.(*ast.CompositeLit)
		if !ok {
			return true
		}
		typ, isFull := "", false
		for _, el := range cl.Elts {
			kv, ok := el.(*ast.KeyValueExpr)
			if !ok {
				continue
			}
			k, _ := kv.Key.(*ast.Ident)
			if k == nil {
				continue
			}
			if k.Name == "typ" {
				typ = c08Src(wt, kv.Value)
			}
			if k.Name == "full" {
				isFull = c08Src(wt, kv.Value) == "true"
			}
		}
		if typ != "" {
			full[typ] = isFull
		}
		return true
	})
	if _, ok := full["&networking.IngressClass{}"]; !ok {
		fail("handlersIngress: IngressClass handler not found")
	}
	addBool("c08IngressClassFull", full["&networking.IngressClass{}"], "watchers.go handlersIngress: the IngressClass handler has full: true (an accepted event asks for a full sync)")
	addBool("c08IngressFull", full["&networking.Ingress{}"], "watchers.go handlersIngress: the Ingress handler has full: true")
}
