package main

func factsC08() {
}
