package main

import (
	"bytes"
	"go/ast"
	"go/parser"
	"go/printer"
	"go/token"
	"os"
	"path/filepath"
	"sort"
	"strings"
)

// c11Writers: every assignment to a field named `field` (last selector) in the non-test files below the given
// directories, rendered `<file>:<func>:<lhs>=<rhs>`
func c11Writers(field string, dirs ...string) []string {
	var res []string
	for _, dir := range dirs {
		_ = filepath.Walk(filepath.Join(repo, dir), func(path string, info os.FileInfo, err error) error {
			if err != nil || info.IsDir() || !strings.HasSuffix(path, ".go") || strings.HasSuffix(path, "_test.go") {
				return nil
			}
			fset := token.NewFileSet()
			f, err := parser.ParseFile(fset, path, nil, 0)
			if err != nil {
				return nil
			}
			rel, _ := filepath.Rel(repo, path)
			for _, d := range f.Decls {
				fd, ok := d.(*ast.FuncDecl)
				if !ok || fd.Body == nil {
					continue
				}
				ast.Inspect(fd.Body, func(n ast.Node) bool {
					switch v := n.(type) {
					case *ast.AssignStmt:
						for i, l := range v.Lhs {
							if sel, ok := l.(*ast.SelectorExpr); ok && sel.Sel.Name == field && i < len(v.Rhs) {
								res = append(res, rel+":"+fd.Name.Name+":"+c05Expr(l)+"="+c05Expr(v.Rhs[i]))
							}
						}
					case *ast.KeyValueExpr:
						if id, ok := v.Key.(*ast.Ident); ok && id.Name == field {
							res = append(res, rel+":"+fd.Name.Name+":{"+field+":"+c05Expr(v.Value)+"}")
						}
					}
					return true
				})
			}
			return nil
		})
	}
	sort.Strings(res)
	return res
}

func factsC11() {
	// the update cycle of Model/C11Sync: HAProxyUpdate runs SyncConfig (derived attributes) BEFORE Shrink
	// (comparison of the re-created items with the committed ones), both before the first write
	var pro []string
	for _, st := range methodDecl("pkg/haproxy/instance.go", "instance", "HAProxyUpdate").Body.List {
		s := c12Stmt(st)
		if strings.HasPrefix(s, "assign:") {
			break
		}
		if s != "other" {
			pro = append(pro, s)
		}
	}
	addStrList("c11UpdatePrologue", pro, "instance.HAProxyUpdate: the statements before the first assignment, in source order")
	// TLS.HasTLSAuth of a backend is written by config.SyncConfig only (never by a converter / annotation updater)
	addStrList("c11HasTLSAuthWriters", c11Writers("HasTLSAuth", "pkg/haproxy", "pkg/converters"),
		"every assignment to a field HasTLSAuth below pkg/haproxy and pkg/converters: <file>:<func>:<lhs>=<rhs>")
	// ... for the hosts of ItemsAdd() only
	var src []string
	ast.Inspect(methodDecl("pkg/haproxy/config.go", "config", "SyncConfig").Body, func(n ast.Node) bool {
		if c, ok := n.(*ast.CallExpr); ok {
			if s := c05Expr(c.Fun); strings.HasPrefix(s, "c.hosts.Items") {
				src = append(src, s)
			}
		}
		return true
	})
	addStrList("c11SyncConfigHostSource", src, "config.SyncConfig: the host collections it reads (c.hosts.Items*)")
	// Shrink compares hosts then backends; backendsMatch neutralises PathsMap, pathConfig and Endpoints only
	var bm []string
	for _, st := range funcDecl("pkg/haproxy/types/backends.go", "backendsMatch").Body.List {
		if a, ok := st.(*ast.AssignStmt); ok && len(a.Lhs) == 1 && len(a.Rhs) == 1 {
			if sel, ok := a.Lhs[0].(*ast.SelectorExpr); ok && c05Expr(sel.X) == "b1copy" {
				bm = append(bm, sel.Sel.Name)
			}
		}
	}
	addStrList("c11BackendsMatchNeutralised", bm, "backendsMatch: the fields of the copy of the first backend overwritten with the second one's before DeepEqual")
	// auth proxy ports (Model/C11AuthP): the three functions of pkg/haproxy/types/frontend.go that touch
	// AuthProxy.BindList, statement by statement (comments dropped, blanks collapsed)
	fr := "pkg/haproxy/types/frontend.go"
	addStrList("c11AcquireAuthBackendName", c11Body(methodDecl(fr, "Frontend", "AcquireAuthBackendName")),
		"Frontend.AcquireAuthBackendName: the statements of the body, nested blocks flattened in source order")
	addStrList("c11RemoveAuthBackendExcept", c11Body(methodDecl(fr, "Frontend", "RemoveAuthBackendExcept")),
		"Frontend.RemoveAuthBackendExcept: the statements of the body")
	addStrList("c11RemoveAuthBackendByTarget", c11Body(methodDecl(fr, "Frontend", "RemoveAuthBackendByTarget")),
		"Frontend.RemoveAuthBackendByTarget: the statements of the body")
}

// c11Body renders a function body as a flat list: simple statements printed by go/printer (blanks collapsed),
// `for` / `if` as a header line followed by their body and a closing `end`
func c11Body(fd *ast.FuncDecl) []string {
	var res []string
	pr := func(n ast.Node) string {
		var b bytes.Buffer
		_ = printer.Fprint(&b, token.NewFileSet(), n)
		return strings.Join(strings.Fields(b.String()), " ")
	}
	var walk func(list []ast.Stmt)
	walk = func(list []ast.Stmt) {
		for _, st := range list {
			switch v := st.(type) {
			case *ast.RangeStmt:
				k, val := "_", "_"
				if v.Key != nil {
					k = pr(v.Key)
				}
				if v.Value != nil {
					val = pr(v.Value)
				}
				res = append(res, "for "+k+", "+val+" := range "+pr(v.X))
				walk(v.Body.List)
				res = append(res, "end")
			case *ast.ForStmt:
				res = append(res, "for ...")
				walk(v.Body.List)
				res = append(res, "end")
			case *ast.IfStmt:
				h := "if "
				if v.Init != nil {
					h += pr(v.Init) + "; "
				}
				res = append(res, h+pr(v.Cond))
				walk(v.Body.List)
				if v.Else != nil {
					res = append(res, "else")
					if blk, ok := v.Else.(*ast.BlockStmt); ok {
						walk(blk.List)
					} else {
						walk([]ast.Stmt{v.Else})
					}
				}
				res = append(res, "end")
			default:
				res = append(res, pr(st))
			}
		}
	}
	walk(fd.Body.List)
	return res
}
