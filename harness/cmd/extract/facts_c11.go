package main

func factsC11() {
}
