package main

import (
	"go/ast"
	"os"
	"path/filepath"
	"strconv"
	"strings"
)

// c02expr renders the conditions this file pins (selectors, index expressions, !x, a && b, a != b, literals)
func c02expr(e ast.Expr) string {
	switch v := e.(type) {
	case *ast.Ident:
		return v.Name
	case *ast.SelectorExpr:
		return c02expr(v.X) + "." + v.Sel.Name
	case *ast.IndexExpr:
		return c02expr(v.X) + "[" + c02expr(v.Index) + "]"
	case *ast.UnaryExpr:
		return v.Op.String() + c02expr(v.X)
	case *ast.BinaryExpr:
		return c02expr(v.X) + " " + v.Op.String() + " " + c02expr(v.Y)
	case *ast.ParenExpr:
		return "(" + c02expr(v.X) + ")"
	case *ast.BasicLit:
		return v.Value
	case *ast.CallExpr:
		a := make([]string, len(v.Args))
		for i, x := range v.Args {
			a[i] = c02expr(x)
		}
		return c02expr(v.Fun) + "(" + strings.Join(a, ", ") + ")"
	}
	return "?"
}

// c02preserveGuards: the `if` conditions of a method that read Cookie.Preserve, source order
func c02preserveGuards(rel, recv, name string) []string {
	var res []string
	ast.Inspect(methodDecl(rel, recv, name).Body, func(n ast.Node) bool {
		if s, ok := n.(*ast.IfStmt); ok {
			if c := c02expr(s.Cond); strings.Contains(c, "Cookie.Preserve") {
				res = append(res, c)
			}
		}
		return true
	})
	return res
}

func factsC02() {
	// cmdResponseOK("set server"): strings.HasPrefix(response, <lit>)
	var pfx []string
	for _, a := range callArgs("pkg/haproxy/dynupdate.go", "cmdResponseOK", "strings.HasPrefix", 1) {
		s, err := strconv.Unquote(a)
		if err != nil {
			fail("cmdResponseOK prefix %q", a)
		}
		pfx = append(pfx, s)
	}
	addStrList("c02OkPrefixes", pfx, "dynupdate.go cmdResponseOK: accepted response prefixes of `set server`")
	args0 := callArgs("pkg/haproxy/types/backend.go", "AddEmptyEndpoint", "b.AddEndpoint", 0)
	args1 := callArgs("pkg/haproxy/types/backend.go", "AddEmptyEndpoint", "b.AddEndpoint", 1)
	addStr("c02EmptyAddr", one(args0, "empty slot address"), "backend.go AddEmptyEndpoint: address of an empty slot")
	addInt("c02EmptyPort", one(args1, "empty slot port"), "backend.go AddEmptyEndpoint: port of an empty slot")

	// cookie column
	addBool("c02EmptyCookieIsName", has(methodAssigns("pkg/haproxy/types/backend.go", "Backend", "AddEmptyEndpoint"), "endpoint.CookieValue=endpoint.Name"),
		"backend.go AddEmptyEndpoint: the placeholder cookie of an empty slot is its generated name (Model mkEmpty)")
	// Backend.CookieAffinity(): the returned expression
	var aff []string
	ast.Inspect(methodDecl("pkg/haproxy/types/backend.go", "Backend", "CookieAffinity").Body, func(n ast.Node) bool {
		if r, ok := n.(*ast.ReturnStmt); ok && len(r.Results) == 1 {
			aff = append(aff, c02expr(r.Results[0]))
		}
		return true
	})
	addStr("c02CookieAffinity", strconv.Quote(one(aff, "CookieAffinity return")), "backend.go CookieAffinity(): when server lines may carry a cookie")
	// haproxy.tmpl: the condition under which ` cookie <CookieValue>` is printed on a server line (the same with and
	// without preserve)
	tmpl, err := os.ReadFile(filepath.Join(repo, "rootfs/etc/templates/haproxy/haproxy.tmpl"))
	if err != nil {
		fail("haproxy.tmpl: %v", err)
	}
	var conds []string
	for _, l := range strings.Split(string(tmpl), "\n") {
		if i := strings.Index(l, "}} cookie {{ $ep.CookieValue }}"); i >= 0 {
			j := strings.LastIndex(l[:i], "{{- if ")
			if j < 0 {
				fail("haproxy.tmpl: server line cookie without condition: %s", l)
			}
			conds = append(conds, strings.TrimSpace(l[j+len("{{- if "):i]))
		}
	}
	addStr("c02TmplServerCookieCond", strconv.Quote(one(conds, "server line cookie condition")), "haproxy.tmpl: condition of ` cookie {{ $ep.CookieValue }}` on a server line (Model renderedCookie)")
	// the two preserve guards of the dynamic update (Model checkEndpointPair / addedStep)
	addStrList("c02PreserveGuardSlots", c02preserveGuards("pkg/haproxy/dynupdate.go", "dynUpdater", "checkBackendPair"),
		"dynupdate.go checkBackendPair: conditions reading Cookie.Preserve (loop that fills the empty slots)")
	addStrList("c02PreserveGuardPair", c02preserveGuards("pkg/haproxy/dynupdate.go", "dynUpdater", "checkEndpointPair"),
		"dynupdate.go checkEndpointPair: conditions reading Cookie.Preserve")
	factsC02Sock()
}

// factsC02Sock: which socket the dynamic updater talks through and how that socket handles its connection
// (Model/C02Sock.lean Client.send; theorem facts_c02_sock)
func factsC02Sock() {
	// connections.DynUpdate(): c.dynUpdate = socket.NewSocket(c.adminSock, <keepalive>)
	var news []string
	ast.Inspect(methodDecl("pkg/haproxy/connections.go", "connections", "DynUpdate").Body, func(n ast.Node) bool {
		if a, ok := n.(*ast.AssignStmt); ok && len(a.Lhs) == 1 && len(a.Rhs) == 1 && c02expr(a.Lhs[0]) == "c.dynUpdate" {
			news = append(news, c02expr(a.Rhs[0]))
		}
		return true
	})
	addStr("c02DynUpdateNewSocket", strconv.Quote(one(news, "connections.DynUpdate: assignment of c.dynUpdate")),
		"connections.go DynUpdate(): how the socket of the dynamic updater is created (last argument = keep-alive)")
	// the socket newDynUpdater uses
	var used []string
	ast.Inspect(methodDecl("pkg/haproxy/dynupdate.go", "instance", "newDynUpdater").Body, func(n ast.Node) bool {
		if kv, ok := n.(*ast.KeyValueExpr); ok && c02expr(kv.Key) == "socket" {
			used = append(used, c02expr(kv.Value))
		}
		return true
	})
	if one(used, "newDynUpdater: socket field") != "i.conns.DynUpdate()" {
		fail("newDynUpdater: the dynamic updater no longer talks through conns.DynUpdate(): %v", used)
	}
	// sock.Send: the conditions that read keepalive, and what the plain `!s.keepalive` one does
	var conds []string
	closes := false
	ast.Inspect(methodDecl("pkg/haproxy/socket/socket.go", "sock", "Send").Body, func(n ast.Node) bool {
		if s, ok := n.(*ast.IfStmt); ok {
			c := c02expr(s.Cond)
			if strings.Contains(c, "keepalive") {
				conds = append(conds, c)
			}
			if c == "!s.keepalive" && len(s.Body.List) == 1 {
				if es, ok := s.Body.List[0].(*ast.ExprStmt); ok && c02expr(es.X) == "s.close()" {
					closes = true
				}
			}
		}
		return true
	})
	addStrList("c02SockSendKeepAliveConds", conds, "socket.go sock.Send: conditions reading keepalive, source order")
	addBool("c02SockSendClosesWithoutKeepAlive", closes, "socket.go sock.Send: `if !s.keepalive { s.close() }`")
	// sock.acquireConn: the condition under which it dials
	var dial []string
	ast.Inspect(methodDecl("pkg/haproxy/socket/socket.go", "sock", "acquireConn").Body, func(n ast.Node) bool {
		if s, ok := n.(*ast.IfStmt); ok {
			found := false
			for _, st := range s.Body.List {
				ast.Inspect(st, func(m ast.Node) bool {
					if _, isIf := m.(*ast.IfStmt); isIf {
						return false
					}
					if c, ok := m.(*ast.CallExpr); ok && calleeName(c.Fun) == "net.Dial" {
						found = true
					}
					return true
				})
			}
			if found {
				dial = append(dial, c02expr(s.Cond))
			}
		}
		return true
	})
	addStr("c02SockDialCond", strconv.Quote(one(dial, "acquireConn: condition of net.Dial")), "socket.go sock.acquireConn: a connection is dialed only when there is none")
}
