package main

import "strconv"

func factsC02() {
	// cmdResponseOK("set server"): strings.HasPrefix(response, <lit>)
	var pfx []string
	for _, a := range callArgs("pkg/haproxy/dynupdate.go", "cmdResponseOK", "strings.HasPrefix", 1) {
		s, err := strconv.Unquote(a)
		if err != nil {
			fail("cmdResponseOK prefix %q", a)
		}
		pfx = append(pfx, s)
	}
	addStrList("c02OkPrefixes", pfx, "dynupdate.go cmdResponseOK: accepted response prefixes of `set server`")
	args0 := callArgs("pkg/haproxy/types/backend.go", "AddEmptyEndpoint", "b.AddEndpoint", 0)
	args1 := callArgs("pkg/haproxy/types/backend.go", "AddEmptyEndpoint", "b.AddEndpoint", 1)
	addStr("c02EmptyAddr", one(args0, "empty slot address"), "backend.go AddEmptyEndpoint: address of an empty slot")
	addInt("c02EmptyPort", one(args1, "empty slot port"), "backend.go AddEmptyEndpoint: port of an empty slot")
}
