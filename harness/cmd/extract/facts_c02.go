package main

func factsC02() {
}
