package main

func factsC04() {
}
