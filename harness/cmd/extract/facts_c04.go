package main

func factsC04() {
	addStr("c04DefaultHost", constVal("pkg/haproxy/types/types.go", "DefaultHost"), "types.go: const DefaultHost")
	// buildMapKey separates host and path with this literal
	seps := []string{}
	for _, s := range strLits("pkg/haproxy/types/maps.go", "buildMapKey") {
		if s == `"#"` {
			seps = append(seps, s)
		}
	}
	addStr("c04KeySeparator", one(seps, "buildMapKey separator"), "maps.go buildMapKey: hostname + <sep> + path")
}
