package main

// collect lists every fact. Keep each one tiny and name where it comes from.
func collect() {
	// ---- C16
	lb := "pkg/converters/utils/lbweight.go"
	cmps := binaryCmps("pkg/converters/ingress/annotations/backend.go", "buildBackendBlueGreenBalance")
	addBool("c16ClampLow", has(cmps, "w < 0"), "backend.go buildBackendBlueGreenBalance tests `w < 0` (clamp to 0)")
	addBool("c16ClampHigh", has(cmps, "w > 256"), "backend.go buildBackendBlueGreenBalance tests `w > 256` (clamp to 256)")
	addInt("c16GatewayBase", one(callArgs("pkg/converters/gateway/gateway.go", "createBackend", "convutils.RebalanceWeight", 1), "gateway base weight"),
		"gateway.go createBackend: RebalanceWeight(cl, <base>)")
	ints := intLits(lb, "RebalanceWeight")
	n256 := 0
	for _, i := range ints {
		if i == "256" {
			n256++
		}
	}
	addInt("c16MaxWeightUses", itoa(n256), "number of literal 256 in RebalanceWeight (HAProxy max weight)")
	// ---- C13
	rl := "pkg/utils/workqueue/ratelimiters.go"
	addStrList("c13ReloadWhenCalls", methodCalls(rl, "reloadHAProxy", "When"), "selector calls inside reloadHAProxy.When, in source order")
	addStrList("c13IngressWhenCalls", methodCalls(rl, "ingressReconciler", "When"), "selector calls inside ingressReconciler.When, in source order")
}

func itoa(i int) string { return fmtInt(i) }
