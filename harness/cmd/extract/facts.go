package main

// collect lists every fact: one function per property in facts_cXX.go. Keep each fact tiny and say where it comes from.
func collect() {
	factsC01()
	factsC02()
	factsC03()
	factsC04()
	factsC05()
	factsC06()
	factsC07()
	factsC08()
	factsC09()
	factsC10()
	factsC11()
	factsC12()
	factsC13()
	factsC14()
	factsC15()
	factsC16()
	factsC17()
	factsC18()
	factsC19()
}

func itoa(i int) string { return fmtInt(i) }
