package main

func factsC14() {
}
