package main

import (
	"go/ast"
	"go/token"
	"strconv"
)

func factsC14() {
	// ---- C14: the syntactic shape of watchers.go the model relies on
	w := "pkg/controller/reconciler/watchers.go"
	addStrList("c14CreateCalls", methodCalls(w, "hdlr", "Create"), "selector calls inside hdlr.Create, in source order")
	addStrList("c14UpdateCalls", methodCalls(w, "hdlr", "Update"), "selector calls inside hdlr.Update, in source order")
	addStrList("c14DeleteCalls", methodCalls(w, "hdlr", "Delete"), "selector calls inside hdlr.Delete, in source order")
	addStrList("c14GenericCalls", methodCalls(w, "hdlr", "Generic"), "selector calls inside hdlr.Generic, in source order")
	addStrList("c14SwapCalls", methodCalls(w, "watchers", "getChangedObjects"), "selector calls inside watchers.getChangedObjects, in source order")
	var lits []string
	for _, fn := range []string{"Create", "Update", "Delete"} {
		s, err := strconv.Unquote(one(callArgs(w, fn, "h.compose", 0), "h.compose call in hdlr."+fn))
		if err != nil {
			fail("hdlr.%s: first argument of h.compose is not a string literal", fn)
		}
		lits = append(lits, s)
	}
	addStrList("c14ComposeLiterals", lits, "first argument of h.compose in hdlr.Create, Update, Delete")
	addStrList("c14InitChAssigns", methodAssigns(w, "watchers", "initCh"), "assignments to selectors inside watchers.initCh, in source order")
	addStrList("c14CmChangeAssigns", methodAssigns(w, "watchers", "handlersCore"), "assignments to selectors inside watchers.handlersCore (the cmChange closure)")
	// cmChange: `if data == nil { data = map[string]string{} }` (an emptied ConfigMap is a change)
	nilToEmpty := false
	ast.Inspect(methodDecl(w, "watchers", "handlersCore").Body, func(n ast.Node) bool {
		ifs, ok := n.(*ast.IfStmt)
		if !ok || len(ifs.Body.List) != 1 {
			return true
		}
		cond, ok := ifs.Cond.(*ast.BinaryExpr)
		if !ok || cond.Op != token.EQL || exprString(cond.X) != "data" || exprString(cond.Y) != "nil" {
			return true
		}
		if as, ok := ifs.Body.List[0].(*ast.AssignStmt); ok && as.Tok == token.ASSIGN && len(as.Lhs) == 1 && exprString(as.Lhs[0]) == "data" {
			if cl, ok := as.Rhs[0].(*ast.CompositeLit); ok && len(cl.Elts) == 0 {
				nilToEmpty = true
			}
		}
		return true
	})
	addBool("c14CmNilDataBecomesEmpty", nilToEmpty, "handlersCore/cmChange replaces a nil data map by an empty map before storing it")
	// handler table: watched type of every hdlr literal that has `full: true`, in source order
	var fullTypes, allTypes []string
	ast.Inspect(load(w).f, func(n ast.Node) bool {
		cl, ok := n.(*ast.CompositeLit)
		if !ok {
			return true
		}
		typ, full := "", false
		for _, el := range cl.Elts {
			kv, ok := el.(*ast.KeyValueExpr)
			if !ok {
				continue
			}
			switch exprString(kv.Key) {
			case "typ":
				if u, ok := kv.Value.(*ast.UnaryExpr); ok {
					if c, ok := u.X.(*ast.CompositeLit); ok {
						typ = exprString(c.Type)
					}
				}
			case "full":
				full = exprString(kv.Value) == "true"
			}
		}
		if typ != "" {
			allTypes = append(allTypes, typ)
			if full {
				fullTypes = append(fullTypes, typ)
			}
		}
		return true
	})
	addStrList("c14HandlerTypes", allTypes, "watched type of every hdlr literal in watchers.go, in source order")
	addStrList("c14FullTypes", fullTypes, "watched type of every hdlr literal with full: true, in source order")
}
