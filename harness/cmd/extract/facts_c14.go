package main

import "strconv"

func factsC14() {
	// ---- C14: the syntactic shape of watchers.go the model relies on
	w := "pkg/controller/reconciler/watchers.go"
	addStrList("c14CreateCalls", methodCalls(w, "hdlr", "Create"), "selector calls inside hdlr.Create, in source order")
	addStrList("c14UpdateCalls", methodCalls(w, "hdlr", "Update"), "selector calls inside hdlr.Update, in source order")
	addStrList("c14DeleteCalls", methodCalls(w, "hdlr", "Delete"), "selector calls inside hdlr.Delete, in source order")
	addStrList("c14GenericCalls", methodCalls(w, "hdlr", "Generic"), "selector calls inside hdlr.Generic, in source order")
	addStrList("c14SwapCalls", methodCalls(w, "watchers", "getChangedObjects"), "selector calls inside watchers.getChangedObjects, in source order")
	var lits []string
	for _, fn := range []string{"Create", "Update", "Delete"} {
		s, err := strconv.Unquote(one(callArgs(w, fn, "h.compose", 0), "h.compose call in hdlr."+fn))
		if err != nil {
			fail("hdlr.%s: first argument of h.compose is not a string literal", fn)
		}
		lits = append(lits, s)
	}
	addStrList("c14ComposeLiterals", lits, "first argument of h.compose in hdlr.Create, Update, Delete")
	addStrList("c14InitChAssigns", methodAssigns(w, "watchers", "initCh"), "assignments to selectors inside watchers.initCh, in source order")
	addStrList("c14CmChangeAssigns", methodAssigns(w, "watchers", "handlersCore"), "assignments to selectors inside watchers.handlersCore (the cmChange closure)")
}
