package main

import (
	"go/ast"
	"go/token"
	"strconv"
	"strings"
)

// c09CallArgs: source text of the arguments [from,to) (joined by ", ") of every call of callee
// inside node, source order
func c09CallArgs(rel string, node ast.Node, callee string, from, to int) []string {
	var res []string
	ast.Inspect(node, func(n ast.Node) bool {
		if c, ok := n.(*ast.CallExpr); ok && c08Src(rel, c.Fun) == callee {
			var parts []string
			for i, a := range c.Args {
				if i >= from && i < to {
					parts = append(parts, c08Src(rel, a))
				}
			}
			res = append(res, strings.Join(parts, ", "))
		}
		return true
	})
	return res
}

// c09RegexVar: the raw-string argument of `var name = regexp.MustCompile(`...`)`
func c09RegexVar(rel, name string) string {
	for _, d := range load(rel).f.Decls {
		gd, ok := d.(*ast.GenDecl)
		if !ok {
			continue
		}
		for _, sp := range gd.Specs {
			vs, ok := sp.(*ast.ValueSpec)
			if !ok || len(vs.Names) != 1 || vs.Names[0].Name != name || len(vs.Values) != 1 {
				continue
			}
			if c, ok := vs.Values[0].(*ast.CallExpr); ok && len(c.Args) == 1 {
				if b, ok := c.Args[0].(*ast.BasicLit); ok && b.Kind == token.STRING {
					s, err := strconv.Unquote(b.Value)
					if err != nil {
						fail("%s: %v", name, err)
					}
					return s
				}
			}
		}
	}
	fail("%s: var %s = regexp.MustCompile(<literal>) not found", rel, name)
	return ""
}

func factsC09() {
	// ---- C09
	cache := "pkg/controller/services/cache.go"
	var perm []string
	for _, g := range []string{"GetService", "GetTLSSecretPath", "GetCASecretPath", "GetDHSecretPath", "GetPasswdSecretContent"} {
		perm = append(perm, g+": "+one(c09CallArgs(cache, methodDecl(cache, "c", g), "buildResourceName", 0, 4), "buildResourceName in "+g))
	}
	addStrList("c09GetterPermission", perm, "services/cache.go: arguments each getter passes to buildResourceName")
	addStrList("c09BuildResourceName", c08Skeleton(cache, funcDecl(cache, "buildResourceName")), "services/cache.go buildResourceName: decision skeleton")
	addStr("c09ContentProtocolRegex", strconv.Quote(c09RegexVar(cache, "contentProtocolRegex")), "services/cache.go: contentProtocolRegex")
	addStrList("c09ContentProtocol", c08Skeleton(cache, funcDecl(cache, "getContentProtocol")), "services/cache.go getContentProtocol: decision skeleton")

	// global.go buildGlobalDynamic + updater.go validateAllowDeny
	glob := "pkg/converters/ingress/annotations/global.go"
	upd := "pkg/converters/ingress/annotations/updater.go"
	addStrList("c09BuildGlobalDynamic", c08Skeleton(glob, methodDecl(glob, "updater", "buildGlobalDynamic")), "annotations/global.go buildGlobalDynamic: assignments")
	addStrList("c09ValidateAllowDeny", c08Skeleton(upd, methodDecl(upd, "updater", "validateAllowDeny")), "annotations/updater.go validateAllowDeny: skeleton")

	// the reference sites: (defaultNamespace, name) handed to the cache
	back := "pkg/converters/ingress/annotations/backend.go"
	host := "pkg/converters/ingress/annotations/host.go"
	ing := "pkg/converters/ingress/ingress.go"
	gw := "pkg/converters/gateway/gateway.go"
	var sites []string
	sites = append(sites, "tls: "+one(c09CallArgs(ing, methodDecl(ing, "converter", "addTLS"), "c.cache.GetTLSSecretPath", 0, 2), "addTLS"))
	sites = append(sites, "gateway-cert: "+one(c09CallArgs(gw, methodDecl(gw, "converter", "readCertRef"), "c.cache.GetTLSSecretPath", 0, 2), "readCertRef"))
	sites = append(sites, "auth-tls-secret: "+one(c09CallArgs(host, methodDecl(host, "updater", "setAuthTLSConfig"), "c.cache.GetCASecretPath", 0, 2), "setAuthTLSConfig"))
	prot := methodDecl(back, "updater", "buildBackendProtocol")
	sites = append(sites, "secure-crt-secret: "+one(c09CallArgs(back, prot, "c.cache.GetTLSSecretPath", 0, 2), "secure-crt-secret"))
	sites = append(sites, "secure-verify-ca-secret: "+one(c09CallArgs(back, prot, "c.cache.GetCASecretPath", 0, 2), "secure-verify-ca-secret"))
	sites = append(sites, "auth-secret: "+one(c09CallArgs(back, methodDecl(back, "updater", "buildBackendAuthHTTP"), "c.cache.GetPasswdSecretContent", 0, 2), "auth-secret"))
	sites = append(sites, "auth-url: "+one(c09CallArgs(back, methodDecl(back, "updater", "setAuthExternal"), "c.haproxy.Backends().FindBackend", 0, 3), "auth-url"))
	addStrList("c09Sites", sites, "arguments (defaultNamespace, name) each reference site hands to the cache / FindBackend")
	// where the default namespace of the secure-* sites comes from
	var nn []string
	ast.Inspect(prot, func(n ast.Node) bool {
		if a, ok := n.(*ast.AssignStmt); ok && len(a.Rhs) == 1 && a.Tok == token.DEFINE {
			if c, ok := a.Rhs[0].(*ast.CallExpr); ok {
				if f := c08Src(back, c.Fun); strings.HasPrefix(f, "crt.") || strings.HasPrefix(f, "ca.") {
					nn = append(nn, c08Src(back, a))
				}
			}
		}
		return true
	})
	addStrList("c09SecureDefaultNamespace", nn, "backend.go buildBackendProtocol: where the default namespace of the secure-* keys comes from")
	mp := "pkg/converters/ingress/annotations/mapper.go"
	addStrList("c09DefaultNamespace", c08Skeleton(mp, methodDecl(mp, "ConfigValue", "defaultNamespace")), "annotations/mapper.go ConfigValue.defaultNamespace: skeleton")
	// auth-secret: the cache is asked before Userlists().Find
	ah := methodDecl(back, "updater", "buildBackendAuthHTTP")
	findPos, getPos := token.NoPos, token.NoPos
	ast.Inspect(ah, func(n ast.Node) bool {
		if c, ok := n.(*ast.CallExpr); ok {
			switch c08Src(back, c.Fun) {
			case "c.haproxy.Userlists().Find":
				findPos = c.Pos()
			case "c.cache.GetPasswdSecretContent":
				getPos = c.Pos()
			}
		}
		return true
	})
	addBool("c09CacheBeforeUserlistFind", findPos != token.NoPos && getPos != token.NoPos && getPos < findPos,
		"backend.go buildBackendAuthHTTP: GetPasswdSecretContent is called before Userlists().Find")
	// auth-url: the permission check of setAuthExternal and its position before FindBackend
	ae := methodDecl(back, "updater", "setAuthExternal")
	var chk []string
	chkPos, fbPos := token.NoPos, token.NoPos
	ast.Inspect(ae, func(n ast.Node) bool {
		switch v := n.(type) {
		case *ast.IfStmt:
			if c := c08Src(back, v.Cond); strings.Contains(c, "CrossNamespaceServices") {
				chk = append(chk, c)
				chkPos = v.Pos()
			}
		case *ast.CallExpr:
			if c08Src(back, v.Fun) == "c.haproxy.Backends().FindBackend" {
				fbPos = v.Pos()
			}
		}
		return true
	})
	addStrList("c09AuthURLCheck", chk, "backend.go setAuthExternal: the cross-namespace check")
	addBool("c09AuthURLCheckBeforeFind", chkPos != token.NoPos && fbPos != token.NoPos && chkPos < fbPos, "backend.go setAuthExternal: the check precedes FindBackend")
	// oauth: the lookup of the proxy's backend and its namespace guard
	oa := methodDecl(back, "updater", "buildBackendOAuth")
	addStrList("c09FindBackend", c08Skeleton(back, methodDecl(back, "updater", "findBackend")), "backend.go updater.findBackend: skeleton (the only cross-namespace guard of the oauth site)")
	addStrList("c09FindBackendRanges", c18Ranges(back, methodDecl(back, "updater", "findBackend")), "backend.go updater.findBackend: what the loops range over")
	addStrList("c09FindBackendSort", c09CallArgs(back, methodDecl(back, "updater", "findBackend"), "sort.Strings", 0, 1), "backend.go updater.findBackend: the hostnames are sorted before the lookup (58bb97c)")
	addStrList("c09OAuthFindBackendArgs", c09CallArgs(back, oa, "c.findBackend", 0, 9), "backend.go buildBackendOAuth: arguments of every findBackend call")
	var oans []string
	ast.Inspect(oa, func(n ast.Node) bool {
		if a, ok := n.(*ast.AssignStmt); ok && len(a.Lhs) == 1 {
			if l := c08Src(back, a.Lhs[0]); l == "namespace" || l == "uriPrefix" {
				oans = append(oans, c08Src(back, a))
			}
		}
		return true
	})
	addStrList("c09OAuthNamespaceAndPrefix", oans, "backend.go buildBackendOAuth: where the namespace and the prefix handed to findBackend come from")
	// cache.go GetTLSSecretPath: a certificate from a file is parsed
	addInt("c09ReadCertificateFileCalls", itoa(len(c09CallArgs(cache, methodDecl(cache, "c", "GetTLSSecretPath"), "c.sslCerts.readCertificateFile", 0, 1))),
		"services/cache.go GetTLSSecretPath: calls of sslCerts.readCertificateFile (file:// branch)")

	// converters.go Sync: the gateway converter runs before the ingress converter
	cv := "pkg/converters/converters.go"
	sync := methodDecl(cv, "converters", "Sync")
	var order []string
	ast.Inspect(sync, func(n ast.Node) bool {
		if c, ok := n.(*ast.CallExpr); ok {
			switch calleeName(c.Fun) {
			case "gatewayConverter.Sync", "ingressConverter.Sync":
				order = append(order, calleeName(c.Fun))
			}
		}
		return true
	})
	addStrList("c09SyncOrder", order, "converters.go Sync: order of the converter Sync calls")
	// converters.go Sync: the ingress converter is created before the first converter runs, and
	// ingress.go NewIngressConverter applies the dynamic config
	newPos, firstSync := token.NoPos, token.NoPos
	ast.Inspect(sync, func(n ast.Node) bool {
		if c, ok := n.(*ast.CallExpr); ok {
			switch f := c08Src(cv, c.Fun); {
			case f == "ingress.NewIngressConverter":
				newPos = c.Pos()
			case strings.HasSuffix(f, "Converter.Sync") && firstSync == token.NoPos:
				firstSync = c.Pos()
			}
		}
		return true
	})
	addBool("c09IngressConverterCreatedFirst", newPos != token.NoPos && firstSync != token.NoPos && newPos < firstSync,
		"converters.go Sync: ingress.NewIngressConverter is called before any converter's Sync")
	addStrList("c09NewConverterDynamic", c09CallArgs(ing, funcDecl(ing, "NewIngressConverter"), "annotations.UpdateDynamicConfig", 0, 2),
		"ingress.go NewIngressConverter: arguments of annotations.UpdateDynamicConfig")
	addStrList("c09UpdateDynamicConfig", c08Skeleton(upd, funcDecl(upd, "UpdateDynamicConfig")), "annotations/updater.go UpdateDynamicConfig: skeleton")
	factsC09Ctx()
	factsC09Memo()
}

// c09SourceOf: how the annotations.Source handed to the idx-th call of `callee` inside node is built:
// the fields of a composite literal `&annotations.Source{...}`, or - when the argument is anything else -
// its source text followed by every assignment to the identifier it names
func c09SourceOf(rel string, node ast.Node, callee string, idx int) []string {
	var call *ast.CallExpr
	n := 0
	ast.Inspect(node, func(x ast.Node) bool {
		if c, ok := x.(*ast.CallExpr); ok && c08Src(rel, c.Fun) == callee {
			if n == idx && call == nil {
				call = c
			}
			n++
		}
		return true
	})
	if call == nil || len(call.Args) == 0 {
		return []string{"<no call of " + callee + ">"}
	}
	arg := call.Args[0]
	e := arg
	if u, ok := e.(*ast.UnaryExpr); ok && u.Op == token.AND {
		e = u.X
	}
	if cl, ok := e.(*ast.CompositeLit); ok {
		res := []string{c08Src(rel, cl.Type)}
		for _, el := range cl.Elts {
			res = append(res, c08Src(rel, el))
		}
		return res
	}
	res := []string{c08Src(rel, arg)}
	if id, ok := e.(*ast.Ident); ok {
		ast.Inspect(node, func(x ast.Node) bool {
			if a, ok := x.(*ast.AssignStmt); ok {
				for _, l := range a.Lhs {
					if t := c08Src(rel, l); t == id.Name || strings.HasPrefix(t, id.Name+".") {
						var r ast.Expr
						if len(a.Rhs) == 1 {
							r = a.Rhs[0]
							if u, ok := r.(*ast.UnaryExpr); ok && u.Op == token.AND {
								r = u.X
							}
						}
						if cl, ok := r.(*ast.CompositeLit); ok && len(a.Lhs) == 1 {
							res = append(res, c08Src(rel, cl.Type))
							for _, el := range cl.Elts {
								res = append(res, c08Src(rel, el))
							}
						} else {
							res = append(res, c08Src(rel, a))
						}
						break
					}
				}
			}
			return true
		})
	}
	return res
}

// c09AssignsTo: source text of every assignment whose left side is one of names, source order
func c09AssignsTo(rel string, node ast.Node, names ...string) []string {
	var res []string
	ast.Inspect(node, func(x ast.Node) bool {
		if a, ok := x.(*ast.AssignStmt); ok {
			for _, l := range a.Lhs {
				if has(names, c08Src(rel, l)) {
					res = append(res, c08Src(rel, a))
					break
				}
			}
		}
		return true
	})
	return res
}

// c09FieldValue: the composite literal assigned to field `name:` inside the composite literal that
// node returns / builds (first match), as its list of elements
func c09FieldValue(rel string, node ast.Node, name string) []string {
	var res []string
	done := false
	ast.Inspect(node, func(x ast.Node) bool {
		if kv, ok := x.(*ast.KeyValueExpr); ok && !done && c08Src(rel, kv.Key) == name {
			done = true
			if cl, ok := kv.Value.(*ast.CompositeLit); ok {
				res = append(res, c08Src(rel, cl.Type))
				for _, el := range cl.Elts {
					res = append(res, c08Src(rel, el))
				}
			} else {
				res = append(res, c08Src(rel, kv.Value))
			}
		}
		return true
	})
	return res
}

func factsC09Ctx() {
	// ---- C09: the declaring context of the annotations of a Service (Model/C09Ctx.lean)
	ing := "pkg/converters/ingress/ingress.go"
	gw := "pkg/converters/gateway/gateway.go"
	ab := methodDecl(ing, "converter", "addBackendWithClass")
	addStrList("c09AddBackendGetService", c09CallArgs(ing, ab, "c.cache.GetService", 0, 2),
		"ingress.go addBackendWithClass: (defaultNamespace, name) of the GetService that reaches the Service = the REFERENCING source's namespace")
	addStrList("c09AddBackendSvcSource", c09SourceOf(ing, ab, "mapper.AddAnnotations", 0),
		"ingress.go addBackendWithClass: the Source attached to the annotations read from the Service (first mapper.AddAnnotations)")
	addStrList("c09AddBackendNamespace", c09AssignsTo(ing, ab, "ssvcName", "namespace", "svcName"),
		"ingress.go addBackendWithClass: where `namespace` and `svcName` of that Source come from (the Service's full name)")
	addStrList("c09AddBackendAnnSources", c09CallArgs(ing, ab, "mapper.AddAnnotations", 2, 3),
		"ingress.go addBackendWithClass: what each mapper.AddAnnotations adds (Service annotations first, then the referencing object's, then the IngressClass parameters)")
	ra := methodDecl(ing, "converter", "ReadAnnotations")
	addStrList("c09ReadAnnotationsSource", c09SourceOf(ing, ra, "c.readAnnotations", 0),
		"ingress.go ReadAnnotations (Gateway API flow): the Source of a Service's annotations")
	addStrList("c09DefaultBackSource", c09FieldValue(ing, funcDecl(ing, "NewIngressConverter"), "defaultBackSource"),
		"ingress.go NewIngressConverter: defaultBackSource has no Namespace (empty = command-line / global context)")
	sdb := methodDecl(ing, "converter", "syncDefaultBackend")
	addStrList("c09DefaultBackendCall", c09CallArgs(ing, sdb, "c.addBackend", 0, 5),
		"ingress.go syncDefaultBackend: the command-line Service is reached with the namespace-less source and no annotation of its own")
	var pre []string
	for _, a := range c09CallArgs(ing, methodDecl(ing, "converter", "syncIngressHTTP"), "c.addBackend", 0, 5) {
		if strings.Contains(a, "authSvcName") {
			pre = append(pre, a)
		}
	}
	addStrList("c09AuthURLPrebuild", pre, "ingress.go syncIngressHTTP: the pre-build of the auth-url Service (referencing source = the Ingress)")
	addStrList("c09GatewayBackendRefService", c09CallArgs(gw, methodDecl(gw, "converter", "createBackend"), "c.cache.GetService", 0, 2),
		"gateway.go createBackend: backendRefs are read without a default namespace ...")
	addStrList("c09GatewayBackendRefName", c09AssignsTo(gw, methodDecl(gw, "converter", "createBackend"), "svcName"),
		"gateway.go createBackend: ... under the ROUTE's namespace (backendRef.namespace is not read)")
}
