package main

import (
	"go/ast"
	"go/token"
	"strconv"
	"strings"
)

// c09CallArgs: source text of the arguments [from,to) (joined by ", ") of every call of callee
// inside node, source order
func c09CallArgs(rel string, node ast.Node, callee string, from, to int) []string {
	var res []string
	ast.Inspect(node, func(n ast.Node) bool {
		if c, ok := n.(*ast.CallExpr); ok && c08Src(rel, c.Fun) == callee {
			var parts []string
			for i, a := range c.Args {
				if i >= from && i < to {
					parts = append(parts, c08Src(rel, a))
				}
			}
			res = append(res, strings.Join(parts, ", "))
		}
		return true
	})
	return res
}

// c09RegexVar: the raw-string argument of `var name = regexp.MustCompile(`...`)`
func c09RegexVar(rel, name string) string {
	for _, d := range load(rel).f.Decls {
		gd, ok := d.(*ast.GenDecl)
		if !ok {
			continue
		}
		for _, sp := range gd.Specs {
			vs, ok := sp.(*ast.ValueSpec)
			if !ok || len(vs.Names) != 1 || vs.Names[0].Name != name || len(vs.Values) != 1 {
				continue
			}
			if c, ok := vs.Values[0].(*ast.CallExpr); ok && len(c.Args) == 1 {
				if b, ok := c.Args[0].(*ast.BasicLit); ok && b.Kind == token.STRING {
					s, err := strconv.Unquote(b.Value)
					if err != nil {
						fail("%s: %v", name, err)
					}
					return s
				}
			}
		}
	}
	fail("%s: var %s = regexp.MustCompile(<literal>) not found", rel, name)
	return ""
}

func factsC09() {
	// ---- C09
	cache := "pkg/controller/services/cache.go"
	var perm []string
	for _, g := range []string{"GetService", "GetTLSSecretPath", "GetCASecretPath", "GetDHSecretPath", "GetPasswdSecretContent"} {
		perm = append(perm, g+": "+one(c09CallArgs(cache, methodDecl(cache, "c", g), "buildResourceName", 0, 4), "buildResourceName in "+g))
	}
	addStrList("c09GetterPermission", perm, "services/cache.go: arguments each getter passes to buildResourceName")
	addStrList("c09BuildResourceName", c08Skeleton(cache, funcDecl(cache, "buildResourceName")), "services/cache.go buildResourceName: decision skeleton")
	addStr("c09ContentProtocolRegex", strconv.Quote(c09RegexVar(cache, "contentProtocolRegex")), "services/cache.go: contentProtocolRegex")
	addStrList("c09ContentProtocol", c08Skeleton(cache, funcDecl(cache, "getContentProtocol")), "services/cache.go getContentProtocol: decision skeleton")

	// global.go buildGlobalDynamic + updater.go validateAllowDeny
	glob := "pkg/converters/ingress/annotations/global.go"
	upd := "pkg/converters/ingress/annotations/updater.go"
	addStrList("c09BuildGlobalDynamic", c08Skeleton(glob, methodDecl(glob, "updater", "buildGlobalDynamic")), "annotations/global.go buildGlobalDynamic: assignments")
	addStrList("c09ValidateAllowDeny", c08Skeleton(upd, methodDecl(upd, "updater", "validateAllowDeny")), "annotations/updater.go validateAllowDeny: skeleton")

	// the reference sites: (defaultNamespace, name) handed to the cache
	back := "pkg/converters/ingress/annotations/backend.go"
	host := "pkg/converters/ingress/annotations/host.go"
	ing := "pkg/converters/ingress/ingress.go"
	gw := "pkg/converters/gateway/gateway.go"
	var sites []string
	sites = append(sites, "tls: "+one(c09CallArgs(ing, methodDecl(ing, "converter", "addTLS"), "c.cache.GetTLSSecretPath", 0, 2), "addTLS"))
	sites = append(sites, "gateway-cert: "+one(c09CallArgs(gw, methodDecl(gw, "converter", "readCertRef"), "c.cache.GetTLSSecretPath", 0, 2), "readCertRef"))
	sites = append(sites, "auth-tls-secret: "+one(c09CallArgs(host, methodDecl(host, "updater", "setAuthTLSConfig"), "c.cache.GetCASecretPath", 0, 2), "setAuthTLSConfig"))
	prot := methodDecl(back, "updater", "buildBackendProtocol")
	sites = append(sites, "secure-crt-secret: "+one(c09CallArgs(back, prot, "c.cache.GetTLSSecretPath", 0, 2), "secure-crt-secret"))
	sites = append(sites, "secure-verify-ca-secret: "+one(c09CallArgs(back, prot, "c.cache.GetCASecretPath", 0, 2), "secure-verify-ca-secret"))
	sites = append(sites, "auth-secret: "+one(c09CallArgs(back, methodDecl(back, "updater", "buildBackendAuthHTTP"), "c.cache.GetPasswdSecretContent", 0, 2), "auth-secret"))
	sites = append(sites, "auth-url: "+one(c09CallArgs(back, methodDecl(back, "updater", "setAuthExternal"), "c.haproxy.Backends().FindBackend", 0, 3), "auth-url"))
	addStrList("c09Sites", sites, "arguments (defaultNamespace, name) each reference site hands to the cache / FindBackend")
	// where the default namespace of the secure-* sites comes from
	var nn []string
	ast.Inspect(prot, func(n ast.Node) bool {
		if a, ok := n.(*ast.AssignStmt); ok && len(a.Rhs) == 1 && a.Tok == token.DEFINE {
			if c, ok := a.Rhs[0].(*ast.CallExpr); ok {
				if f := c08Src(back, c.Fun); strings.HasPrefix(f, "crt.") || strings.HasPrefix(f, "ca.") {
					nn = append(nn, c08Src(back, a))
				}
			}
		}
		return true
	})
	addStrList("c09SecureDefaultNamespace", nn, "backend.go buildBackendProtocol: where the default namespace of the secure-* keys comes from")
	mp := "pkg/converters/ingress/annotations/mapper.go"
	addStrList("c09DefaultNamespace", c08Skeleton(mp, methodDecl(mp, "ConfigValue", "defaultNamespace")), "annotations/mapper.go ConfigValue.defaultNamespace: skeleton")
	// auth-secret: the cache is asked before Userlists().Find
	ah := methodDecl(back, "updater", "buildBackendAuthHTTP")
	findPos, getPos := token.NoPos, token.NoPos
	ast.Inspect(ah, func(n ast.Node) bool {
		if c, ok := n.(*ast.CallExpr); ok {
			switch c08Src(back, c.Fun) {
			case "c.haproxy.Userlists().Find":
				findPos = c.Pos()
			case "c.cache.GetPasswdSecretContent":
				getPos = c.Pos()
			}
		}
		return true
	})
	addBool("c09CacheBeforeUserlistFind", findPos != token.NoPos && getPos != token.NoPos && getPos < findPos,
		"backend.go buildBackendAuthHTTP: GetPasswdSecretContent is called before Userlists().Find")
	// auth-url: the permission check of setAuthExternal and its position before FindBackend
	ae := methodDecl(back, "updater", "setAuthExternal")
	var chk []string
	chkPos, fbPos := token.NoPos, token.NoPos
	ast.Inspect(ae, func(n ast.Node) bool {
		switch v := n.(type) {
		case *ast.IfStmt:
			if c := c08Src(back, v.Cond); strings.Contains(c, "CrossNamespaceServices") {
				chk = append(chk, c)
				chkPos = v.Pos()
			}
		case *ast.CallExpr:
			if c08Src(back, v.Fun) == "c.haproxy.Backends().FindBackend" {
				fbPos = v.Pos()
			}
		}
		return true
	})
	addStrList("c09AuthURLCheck", chk, "backend.go setAuthExternal: the cross-namespace check")
	addBool("c09AuthURLCheckBeforeFind", chkPos != token.NoPos && fbPos != token.NoPos && chkPos < fbPos, "backend.go setAuthExternal: the check precedes FindBackend")
	// oauth: the lookup of the proxy's backend and its namespace guard
	oa := methodDecl(back, "updater", "buildBackendOAuth")
	addStrList("c09FindBackend", c08Skeleton(back, methodDecl(back, "updater", "findBackend")), "backend.go updater.findBackend: skeleton (the only cross-namespace guard of the oauth site)")
	addStrList("c09FindBackendRanges", c18Ranges(back, methodDecl(back, "updater", "findBackend")), "backend.go updater.findBackend: what the loops range over")
	addStrList("c09OAuthFindBackendArgs", c09CallArgs(back, oa, "c.findBackend", 0, 9), "backend.go buildBackendOAuth: arguments of every findBackend call")
	var oans []string
	ast.Inspect(oa, func(n ast.Node) bool {
		if a, ok := n.(*ast.AssignStmt); ok && len(a.Lhs) == 1 {
			if l := c08Src(back, a.Lhs[0]); l == "namespace" || l == "uriPrefix" {
				oans = append(oans, c08Src(back, a))
			}
		}
		return true
	})
	addStrList("c09OAuthNamespaceAndPrefix", oans, "backend.go buildBackendOAuth: where the namespace and the prefix handed to findBackend come from")
	// cache.go GetTLSSecretPath: a certificate from a file is parsed
	addInt("c09ReadCertificateFileCalls", itoa(len(c09CallArgs(cache, methodDecl(cache, "c", "GetTLSSecretPath"), "c.sslCerts.readCertificateFile", 0, 1))),
		"services/cache.go GetTLSSecretPath: calls of sslCerts.readCertificateFile (file:// branch)")

	// converters.go Sync: the gateway converter runs before the ingress converter
	cv := "pkg/converters/converters.go"
	sync := methodDecl(cv, "converters", "Sync")
	var order []string
	ast.Inspect(sync, func(n ast.Node) bool {
		if c, ok := n.(*ast.CallExpr); ok {
			switch calleeName(c.Fun) {
			case "gatewayConverter.Sync", "ingressConverter.Sync":
				order = append(order, calleeName(c.Fun))
			}
		}
		return true
	})
	addStrList("c09SyncOrder", order, "converters.go Sync: order of the converter Sync calls")
	// converters.go Sync: the ingress converter is created before the first converter runs, and
	// ingress.go NewIngressConverter applies the dynamic config
	newPos, firstSync := token.NoPos, token.NoPos
	ast.Inspect(sync, func(n ast.Node) bool {
		if c, ok := n.(*ast.CallExpr); ok {
			switch f := c08Src(cv, c.Fun); {
			case f == "ingress.NewIngressConverter":
				newPos = c.Pos()
			case strings.HasSuffix(f, "Converter.Sync") && firstSync == token.NoPos:
				firstSync = c.Pos()
			}
		}
		return true
	})
	addBool("c09IngressConverterCreatedFirst", newPos != token.NoPos && firstSync != token.NoPos && newPos < firstSync,
		"converters.go Sync: ingress.NewIngressConverter is called before any converter's Sync")
	addStrList("c09NewConverterDynamic", c09CallArgs(ing, funcDecl(ing, "NewIngressConverter"), "annotations.UpdateDynamicConfig", 0, 2),
		"ingress.go NewIngressConverter: arguments of annotations.UpdateDynamicConfig")
	addStrList("c09UpdateDynamicConfig", c08Skeleton(upd, funcDecl(upd, "UpdateDynamicConfig")), "annotations/updater.go UpdateDynamicConfig: skeleton")
}
