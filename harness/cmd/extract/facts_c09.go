package main

func factsC09() {
}
