package main

func factsC19() {
}
