package main

import (
	"bytes"
	"go/ast"
	"go/printer"
	"go/token"
	"sort"
	"strconv"
)

// c19Src prints an expression exactly as gofmt would
func c19Src(rel string, e ast.Node) string {
	var b bytes.Buffer
	if err := printer.Fprint(&b, load(rel).fset, e); err != nil {
		fail("print: %v", err)
	}
	return b.String()
}

// c19Conds: every comparison (==, !=, <, >, <=, >=) inside fn, source order, as source text
func c19Conds(rel string, fd *ast.FuncDecl) []string {
	var res []string
	ast.Inspect(fd, func(n ast.Node) bool {
		if b, ok := n.(*ast.BinaryExpr); ok {
			switch b.Op {
			case token.EQL, token.NEQ, token.LSS, token.GTR, token.LEQ, token.GEQ:
				res = append(res, c19Src(rel, b))
			}
		}
		return true
	})
	return res
}

// c19Ranges: the expressions ranged over inside fn, source order
func c19Ranges(rel string, fd *ast.FuncDecl) []string {
	var res []string
	ast.Inspect(fd, func(n ast.Node) bool {
		if r, ok := n.(*ast.RangeStmt); ok {
			res = append(res, c19Src(rel, r.X))
		}
		return true
	})
	return res
}

func c19CharOrInt(e ast.Expr, what string) int {
	s, ok := lit(e)
	if !ok {
		fail("%s: not a literal", what)
	}
	if len(s) > 0 && s[0] == '\'' {
		r, _, _, err := strconv.UnquoteChar(s[1:len(s)-1], '\'')
		if err != nil {
			fail("%s: %v", what, err)
		}
		return int(r)
	}
	i, err := strconv.ParseInt(s, 0, 64)
	if err != nil {
		fail("%s: %v", what, err)
	}
	return int(i)
}

func factsC19() {
	// ---- C19
	back := "pkg/converters/ingress/annotations/backend.go"
	// var asciiSpace = [256]uint8{'\t': 1, ...}
	var tblLen int
	type kv struct{ k, v int }
	var kvs []kv
	found := false
	for _, d := range load(back).f.Decls {
		gd, ok := d.(*ast.GenDecl)
		if !ok {
			continue
		}
		for _, sp := range gd.Specs {
			vs, ok := sp.(*ast.ValueSpec)
			if !ok || len(vs.Names) != 1 || vs.Names[0].Name != "asciiSpace" || len(vs.Values) != 1 {
				continue
			}
			cl, ok := vs.Values[0].(*ast.CompositeLit)
			if !ok {
				fail("asciiSpace: not a composite literal")
			}
			at, ok := cl.Type.(*ast.ArrayType)
			if !ok || at.Len == nil {
				fail("asciiSpace: not an array type")
			}
			tblLen = c19CharOrInt(at.Len, "asciiSpace length")
			if id, ok := at.Elt.(*ast.Ident); !ok || id.Name != "uint8" {
				fail("asciiSpace: element type is not uint8")
			}
			for _, el := range cl.Elts {
				p, ok := el.(*ast.KeyValueExpr)
				if !ok {
					fail("asciiSpace: positional element")
				}
				kvs = append(kvs, kv{c19CharOrInt(p.Key, "asciiSpace key"), c19CharOrInt(p.Value, "asciiSpace value")})
			}
			found = true
		}
	}
	if !found {
		fail("%s: var asciiSpace not found", back)
	}
	sort.Slice(kvs, func(i, j int) bool { return kvs[i].k < kvs[j].k })
	keys := make([]int, len(kvs))
	vals := make([]int, len(kvs))
	for i, p := range kvs {
		keys[i], vals[i] = p.k, p.v
	}
	addInt("c19AsciiSpaceLen", itoa(tblLen), "backend.go: length of the asciiSpace array")
	addNatList("c19AsciiSpaceKeys", keys, "backend.go: indices set in the asciiSpace literal (sorted)")
	addNatList("c19AsciiSpaceVals", vals, "backend.go: values of the asciiSpace literal, same order as c19AsciiSpaceKeys")

	ft := funcDecl(back, "firstToken")
	addStrList("c19FirstTokenConds", c19Conds(back, ft), "backend.go firstToken: comparisons in source order")
	var rets []string
	ast.Inspect(ft, func(n ast.Node) bool {
		if r, ok := n.(*ast.ReturnStmt); ok && len(r.Results) == 1 {
			rets = append(rets, c19Src(back, r.Results[0]))
		}
		return true
	})
	addStrList("c19FirstTokenReturns", rets, "backend.go firstToken: returned expressions")

	cc := methodDecl(back, "updater", "buildBackendCustomConfig")
	addStrList("c19CustomConfigConds", c19Conds(back, cc), "backend.go buildBackendCustomConfig: comparisons in source order")
	addStrList("c19CustomConfigRanges", c19Ranges(back, cc), "backend.go buildBackendCustomConfig: ranged expressions in source order")
	var assigns []string
	nret := 0
	ast.Inspect(cc, func(n ast.Node) bool {
		switch a := n.(type) {
		case *ast.AssignStmt:
			if len(a.Lhs) == 1 && len(a.Rhs) == 1 {
				if _, ok := a.Lhs[0].(*ast.SelectorExpr); ok {
					assigns = append(assigns, c19Src(back, a.Lhs[0])+" "+a.Tok.String()+" "+c19Src(back, a.Rhs[0]))
				}
			}
		case *ast.ReturnStmt:
			nret++
		}
		return true
	})
	addStrList("c19CustomConfigAssigns", assigns, "backend.go buildBackendCustomConfig: assignments to fields")
	addInt("c19CustomConfigReturns", itoa(nret), "backend.go buildBackendCustomConfig: number of early returns")
	addStrList("c19CustomConfigInput", []string{
		one(callArgsSrc(back, cc, "d.mapper.Get"), "mapper.Get in buildBackendCustomConfig"),
		one(callArgsSrc(back, cc, "utils.LineToSlice"), "LineToSlice in buildBackendCustomConfig"),
	}, "backend.go buildBackendCustomConfig: argument of d.mapper.Get and of utils.LineToSlice")

	// what buildBackendCustomConfig touches of the updater (the object that lives for one whole sync and is
	// shared by all the backends): the keyword list and the logger only -> the outcome for one backend is a
	// function of (keywords, selected value), nothing is carried from one backend to the next
	addStrList("c19CustomConfigReceiverUses", c19ReceiverUses(back, cc),
		"backend.go buildBackendCustomConfig: distinct selector chains rooted at the receiver (sorted)")

	ut := "pkg/utils/utils.go"
	ls := funcDecl(ut, "LineToSlice")
	addStrList("c19LineToSliceConds", c19Conds(ut, ls), "utils.go LineToSlice: comparisons")
	var lsret []string
	ast.Inspect(ls, func(n ast.Node) bool {
		if r, ok := n.(*ast.ReturnStmt); ok && len(r.Results) == 1 {
			lsret = append(lsret, c19Src(ut, r.Results[0]))
		}
		return true
	})
	addStrList("c19LineToSliceReturns", lsret, "utils.go LineToSlice: returned expressions")
}

// c19ReceiverUses: the distinct maximal selector chains `recv.a.b...` inside a method, sorted
func c19ReceiverUses(rel string, fd *ast.FuncDecl) []string {
	if fd.Recv == nil || len(fd.Recv.List) != 1 || len(fd.Recv.List[0].Names) != 1 {
		fail("%s: method without a named receiver", fd.Name.Name)
	}
	recv := fd.Recv.List[0].Names[0].Name
	rooted := func(e ast.Expr) bool {
		for {
			switch x := e.(type) {
			case *ast.SelectorExpr:
				e = x.X
			case *ast.Ident:
				return x.Name == recv
			default:
				return false
			}
		}
	}
	seen := map[string]bool{}
	ast.Inspect(fd.Body, func(n ast.Node) bool {
		switch x := n.(type) {
		case *ast.SelectorExpr:
			if rooted(x) {
				seen[c19Src(rel, x)] = true
				return false
			}
		case *ast.Ident:
			if x.Name == recv {
				// the receiver itself handed over / used without a selector
				seen[recv] = true
			}
		}
		return true
	})
	res := make([]string, 0, len(seen))
	for k := range seen {
		res = append(res, k)
	}
	sort.Strings(res)
	return res
}

// callArgsSrc: source text of all arguments of every call of callee inside fd (joined by ", ")
func callArgsSrc(rel string, fd *ast.FuncDecl, callee string) []string {
	var res []string
	ast.Inspect(fd, func(n ast.Node) bool {
		if c, ok := n.(*ast.CallExpr); ok && calleeName(c.Fun) == callee {
			s := ""
			for i, a := range c.Args {
				if i > 0 {
					s += ", "
				}
				s += c19Src(rel, a)
			}
			res = append(res, s)
		}
		return true
	})
	return res
}
