package main

import (
	"go/ast"
	"go/token"
	"strconv"
)

// c16DefaultWeight: the `weight := <lit>` short declaration of gateway.go createBackend: its literal, and
// whether it sits INSIDE the body of the `range backendRefs` loop (so that every backendRef starts from the
// default again; hoisted out of the loop a ref without weight would inherit the previous ref's weight).
func c16DefaultWeight() (string, bool) {
	fd := methodDecl("pkg/converters/gateway/gateway.go", "converter", "createBackend")
	val, inLoop, n := "", false, 0
	var walk func(node ast.Node, loop bool)
	walk = func(node ast.Node, loop bool) {
		ast.Inspect(node, func(x ast.Node) bool {
			switch v := x.(type) {
			case *ast.RangeStmt:
				if id, ok := v.X.(*ast.Ident); ok && id.Name == "backendRefs" && x != node {
					walk(v.Body, true)
					return false
				}
			case *ast.AssignStmt:
				if v.Tok == token.DEFINE && len(v.Lhs) == 1 && len(v.Rhs) == 1 {
					if id, ok := v.Lhs[0].(*ast.Ident); ok && id.Name == "weight" {
						if l, ok := lit(v.Rhs[0]); ok {
							val, inLoop = l, loop
							n++
						}
					}
				}
			}
			return true
		})
	}
	walk(fd.Body, false)
	if n != 1 {
		fail("gateway.go createBackend: expected exactly one `weight := <literal>`, found %d", n)
	}
	return val, inLoop
}

// c16GatewayWrite: the two sites of gateway.go createBackend that must agree on the replica count of a
// backendRef: (1) the WeightCluster literal takes `Length: len(epready)` (every LISTED ready endpoint), and
// (2) the loop `for _, addr := range backends[i].epready` that writes the servers adds one server per listed
// endpoint: its body has an AddEndpoint call and no branching statement (if / switch / continue / break / goto)
// that could skip one. Model: GwRef.replicas and gwWriteAll (Model/C16Callers).
func c16GatewayWrite() (lengthIsListed, writesEvery bool) {
	fd := methodDecl("pkg/converters/gateway/gateway.go", "converter", "createBackend")
	nLen, nLoop := 0, 0
	ast.Inspect(fd.Body, func(x ast.Node) bool {
		switch v := x.(type) {
		case *ast.KeyValueExpr:
			if k, ok := v.Key.(*ast.Ident); ok && k.Name == "Length" {
				nLen++
				lengthIsListed = exprString(v.Value) == "len(epready)"
			}
		case *ast.RangeStmt:
			if sel, ok := v.X.(*ast.SelectorExpr); ok && sel.Sel.Name == "epready" {
				nLoop++
				adds, branches := 0, 0
				ast.Inspect(v.Body, func(y ast.Node) bool {
					switch w := y.(type) {
					case *ast.IfStmt, *ast.SwitchStmt, *ast.TypeSwitchStmt, *ast.BranchStmt, *ast.SelectStmt, *ast.ForStmt, *ast.RangeStmt:
						branches++
					case *ast.CallExpr:
						if s2, ok := w.Fun.(*ast.SelectorExpr); ok && s2.Sel.Name == "AddEndpoint" {
							adds++
						}
					}
					return true
				})
				writesEvery = adds == 1 && branches == 0
			}
		}
		return true
	})
	if nLen != 1 || nLoop != 1 {
		fail("gateway.go createBackend: expected one `Length:` key and one `range ....epready` loop, found %d and %d", nLen, nLoop)
	}
	return lengthIsListed, writesEvery
}

func factsC16() {
	// ---- C16
	lb := "pkg/converters/utils/lbweight.go"
	cmps := binaryCmps("pkg/converters/ingress/annotations/backend.go", "buildBackendBlueGreenBalance")
	addBool("c16ClampLow", has(cmps, "w < 0"), "backend.go buildBackendBlueGreenBalance tests `w < 0` (clamp to 0)")
	addBool("c16ClampHigh", has(cmps, "w > 256"), "backend.go buildBackendBlueGreenBalance tests `w > 256` (clamp to 256)")
	addInt("c16GatewayBase", one(callArgs("pkg/converters/gateway/gateway.go", "createBackend", "convutils.RebalanceWeight", 1), "gateway base weight"),
		"gateway.go createBackend: RebalanceWeight(cl, <base>)")
	ints := intLits(lb, "RebalanceWeight")
	n256 := 0
	for _, i := range ints {
		if i == "256" {
			n256++
		}
	}
	addInt("c16MaxWeightUses", itoa(n256), "number of literal 256 in RebalanceWeight (HAProxy max weight)")
	dw, inLoop := c16DefaultWeight()
	addInt("c16GatewayDefaultWeight", dw, "gateway.go createBackend: `weight := <lit>`, the weight of a backendRef whose weight is nil")
	addBool("c16GatewayDefaultInLoop", inLoop, "gateway.go createBackend: `weight := <lit>` is declared inside the body of the `range backendRefs` loop")
	lenListed, writesEvery := c16GatewayWrite()
	addBool("c16GatewayLengthIsListed", lenListed, "gateway.go createBackend: the WeightCluster of a backendRef takes `Length: len(epready)`, the number of listed ready endpoints")
	addBool("c16GatewayWritesEveryListed", writesEvery, "gateway.go createBackend: the loop over backends[i].epready adds one server per listed endpoint (one AddEndpoint call, no if/continue/break in its body)")
	addBool("c16BlueGreenDrainSkip", has(cmps, "ep.Weight == 0"), "backend.go buildBackendBlueGreenBalance tests `ep.Weight == 0` (draining endpoint: skipped)")
	addStr("c16BlueGreenPodMode", one(c16PodLits(), "blue/green pod mode literal"), "backend.go buildBackendBlueGreenBalance: `mode.Value == <lit>` stops before the rebalance")
	commaOk, eq := c16LabelMatch()
	addBool("c16BlueGreenMatchCommaOk", commaOk, "backend.go buildBackendBlueGreenBalance: the pod's label is read ONLY by a comma-ok lookup `label, found := pod.Labels[dw.labelName]` in the init of an `if` whose condition is `found` (an absent label is not the empty value)")
	addBool("c16BlueGreenMatchEq", eq, "backend.go buildBackendBlueGreenBalance: inside that `if found` the first statement is `if label == dw.labelValue` and the endpoint is appended to the group (dw.endpoints = append(dw.endpoints, ep)) only there")
	mk, mt, su := c16BackendsMatch()
	addStrList("c16BackendsMatchKeys", mk, "backends.go backendsMatch: index expressions on epmap (the set of endpoints is keyed by the whole Endpoint value)")
	addStr("c16BackendsMatchMapKeyType", strconv.Quote(mt), "backends.go backendsMatch: key type of epmap")
	addBool("c16ShrinkUsesBackendsMatch", su, "backends.go Shrink decides with backendsMatch")
}

// c16LabelMatch: the matching condition of buildBackendBlueGreenBalance (model: bgLabelMatch).
//
//	commaOk: every index expression on `pod.Labels` in the function is the single right-hand side of a
//	         two-valued short declaration `<label>, <found> := pod.Labels[dw.labelName]` that is the Init of an
//	         IfStmt whose Cond is the identifier <found> (no else), and there is exactly one such statement;
//	eq:      the body of that IfStmt is one IfStmt with Cond `<label> == dw.labelValue` (either order, no else),
//	         and every `append(dw.endpoints, ...)` of the function sits inside the body of that inner IfStmt.
func c16LabelMatch() (commaOk, eq bool) {
	fd := methodDecl("pkg/converters/ingress/annotations/backend.go", "updater", "buildBackendBlueGreenBalance")
	isLabels := func(e ast.Expr) bool {
		ix, ok := e.(*ast.IndexExpr)
		return ok && exprString(ix.X) == "pod.Labels"
	}
	// all index expressions on pod.Labels, and the ones in comma-ok position
	total, guarded := 0, 0
	var inner *ast.IfStmt
	ast.Inspect(fd.Body, func(x ast.Node) bool {
		if e, ok := x.(ast.Expr); ok && isLabels(e) {
			total++
		}
		ifs, ok := x.(*ast.IfStmt)
		if !ok || ifs.Init == nil || ifs.Else != nil {
			return true
		}
		as, ok := ifs.Init.(*ast.AssignStmt)
		if !ok || as.Tok != token.DEFINE || len(as.Lhs) != 2 || len(as.Rhs) != 1 || !isLabels(as.Rhs[0]) {
			return true
		}
		if exprString(as.Rhs[0].(*ast.IndexExpr).Index) != "dw.labelName" {
			return true
		}
		label, found := exprString(as.Lhs[0]), exprString(as.Lhs[1])
		if c, ok := ifs.Cond.(*ast.Ident); !ok || c.Name != found || found == "_" || label == "_" {
			return true
		}
		guarded++
		if len(ifs.Body.List) == 1 {
			if in, ok := ifs.Body.List[0].(*ast.IfStmt); ok && in.Init == nil && in.Else == nil {
				if b, ok := in.Cond.(*ast.BinaryExpr); ok && b.Op == token.EQL {
					l, r := exprString(b.X), exprString(b.Y)
					if (l == label && r == "dw.labelValue") || (r == label && l == "dw.labelValue") {
						inner = in
					}
				}
			}
		}
		return true
	})
	commaOk = total == 1 && guarded == 1
	if inner == nil {
		return commaOk, false
	}
	// every append to dw.endpoints of the function is inside the inner if
	appends := func(n ast.Node) int {
		k := 0
		ast.Inspect(n, func(x ast.Node) bool {
			if c, ok := x.(*ast.CallExpr); ok && exprString(c.Fun) == "append" && len(c.Args) >= 1 && exprString(c.Args[0]) == "dw.endpoints" {
				k++
			}
			return true
		})
		return k
	}
	all, in := appends(fd.Body), appends(inner.Body)
	eq = commaOk && all >= 1 && all == in
	return commaOk, eq
}

// c16PodLits: string literals compared with mode.Value by `==`
func c16PodLits() []string {
	var res []string
	fd := methodDecl("pkg/converters/ingress/annotations/backend.go", "updater", "buildBackendBlueGreenBalance")
	ast.Inspect(fd.Body, func(x ast.Node) bool {
		if b, ok := x.(*ast.BinaryExpr); ok && b.Op == token.EQL && exprString(b.X) == "mode.Value" {
			if l, ok := b.Y.(*ast.BasicLit); ok && l.Kind == token.STRING {
				res = append(res, l.Value)
			}
		}
		return true
	})
	return res
}

// c16BackendsMatch: pkg/haproxy/types/backends.go backendsMatch keeps the set of non-empty endpoints in a map:
// the index expressions on `epmap` (source order; the code: `*ep` three times = the whole dereferenced Endpoint
// value, Weight included), the key type of the `make(map[K]bool, ...)` it is created with, and whether Shrink
// decides with backendsMatch. Model: keyWhole (Model/C16Hist).
func c16BackendsMatch() (keys []string, keyType string, shrinkUses bool) {
	fd := funcDecl("pkg/haproxy/types/backends.go", "backendsMatch")
	ast.Inspect(fd.Body, func(x ast.Node) bool {
		switch v := x.(type) {
		case *ast.IndexExpr:
			if id, ok := v.X.(*ast.Ident); ok && id.Name == "epmap" {
				if st, ok := v.Index.(*ast.StarExpr); ok {
					keys = append(keys, "*"+exprString(st.X))
				} else {
					keys = append(keys, exprString(v.Index))
				}
			}
		case *ast.AssignStmt:
			if len(v.Lhs) == 1 && len(v.Rhs) == 1 {
				if id, ok := v.Lhs[0].(*ast.Ident); ok && id.Name == "epmap" {
					if call, ok := v.Rhs[0].(*ast.CallExpr); ok && calleeName(call.Fun) == "make" && len(call.Args) >= 1 {
						if mt, ok := call.Args[0].(*ast.MapType); ok {
							keyType = exprString(mt.Key)
						}
					}
				}
			}
		}
		return true
	})
	sh := methodDecl("pkg/haproxy/types/backends.go", "Backends", "Shrink")
	ast.Inspect(sh.Body, func(x ast.Node) bool {
		if call, ok := x.(*ast.CallExpr); ok && calleeName(call.Fun) == "backendsMatch" {
			shrinkUses = true
		}
		return true
	})
	return keys, keyType, shrinkUses
}
