package main

import (
	"go/ast"
	"go/token"
)

// c16DefaultWeight: the `weight := <lit>` short declaration of gateway.go createBackend: its literal, and
// whether it sits INSIDE the body of the `range backendRefs` loop (so that every backendRef starts from the
// default again; hoisted out of the loop a ref without weight would inherit the previous ref's weight).
func c16DefaultWeight() (string, bool) {
	fd := methodDecl("pkg/converters/gateway/gateway.go", "converter", "createBackend")
	val, inLoop, n := "", false, 0
	var walk func(node ast.Node, loop bool)
	walk = func(node ast.Node, loop bool) {
		ast.Inspect(node, func(x ast.Node) bool {
			switch v := x.(type) {
			case *ast.RangeStmt:
				if id, ok := v.X.(*ast.Ident); ok && id.Name == "backendRefs" && x != node {
					walk(v.Body, true)
					return false
				}
			case *ast.AssignStmt:
				if v.Tok == token.DEFINE && len(v.Lhs) == 1 && len(v.Rhs) == 1 {
					if id, ok := v.Lhs[0].(*ast.Ident); ok && id.Name == "weight" {
						if l, ok := lit(v.Rhs[0]); ok {
							val, inLoop = l, loop
							n++
						}
					}
				}
			}
			return true
		})
	}
	walk(fd.Body, false)
	if n != 1 {
		fail("gateway.go createBackend: expected exactly one `weight := <literal>`, found %d", n)
	}
	return val, inLoop
}

func factsC16() {
	// ---- C16
	lb := "pkg/converters/utils/lbweight.go"
	cmps := binaryCmps("pkg/converters/ingress/annotations/backend.go", "buildBackendBlueGreenBalance")
	addBool("c16ClampLow", has(cmps, "w < 0"), "backend.go buildBackendBlueGreenBalance tests `w < 0` (clamp to 0)")
	addBool("c16ClampHigh", has(cmps, "w > 256"), "backend.go buildBackendBlueGreenBalance tests `w > 256` (clamp to 256)")
	addInt("c16GatewayBase", one(callArgs("pkg/converters/gateway/gateway.go", "createBackend", "convutils.RebalanceWeight", 1), "gateway base weight"),
		"gateway.go createBackend: RebalanceWeight(cl, <base>)")
	ints := intLits(lb, "RebalanceWeight")
	n256 := 0
	for _, i := range ints {
		if i == "256" {
			n256++
		}
	}
	addInt("c16MaxWeightUses", itoa(n256), "number of literal 256 in RebalanceWeight (HAProxy max weight)")
	dw, inLoop := c16DefaultWeight()
	addInt("c16GatewayDefaultWeight", dw, "gateway.go createBackend: `weight := <lit>`, the weight of a backendRef whose weight is nil")
	addBool("c16GatewayDefaultInLoop", inLoop, "gateway.go createBackend: `weight := <lit>` is declared inside the body of the `range backendRefs` loop")
	addBool("c16BlueGreenDrainSkip", has(cmps, "ep.Weight == 0"), "backend.go buildBackendBlueGreenBalance tests `ep.Weight == 0` (draining endpoint: skipped)")
	addStr("c16BlueGreenPodMode", one(c16PodLits(), "blue/green pod mode literal"), "backend.go buildBackendBlueGreenBalance: `mode.Value == <lit>` stops before the rebalance")
}

// c16PodLits: string literals compared with mode.Value by `==`
func c16PodLits() []string {
	var res []string
	fd := methodDecl("pkg/converters/ingress/annotations/backend.go", "updater", "buildBackendBlueGreenBalance")
	ast.Inspect(fd.Body, func(x ast.Node) bool {
		if b, ok := x.(*ast.BinaryExpr); ok && b.Op == token.EQL && exprString(b.X) == "mode.Value" {
			if l, ok := b.Y.(*ast.BasicLit); ok && l.Kind == token.STRING {
				res = append(res, l.Value)
			}
		}
		return true
	})
	return res
}
