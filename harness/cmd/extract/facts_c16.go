package main

func factsC16() {
	// ---- C16
	lb := "pkg/converters/utils/lbweight.go"
	cmps := binaryCmps("pkg/converters/ingress/annotations/backend.go", "buildBackendBlueGreenBalance")
	addBool("c16ClampLow", has(cmps, "w < 0"), "backend.go buildBackendBlueGreenBalance tests `w < 0` (clamp to 0)")
	addBool("c16ClampHigh", has(cmps, "w > 256"), "backend.go buildBackendBlueGreenBalance tests `w > 256` (clamp to 256)")
	addInt("c16GatewayBase", one(callArgs("pkg/converters/gateway/gateway.go", "createBackend", "convutils.RebalanceWeight", 1), "gateway base weight"),
		"gateway.go createBackend: RebalanceWeight(cl, <base>)")
	ints := intLits(lb, "RebalanceWeight")
	n256 := 0
	for _, i := range ints {
		if i == "256" {
			n256++
		}
	}
	addInt("c16MaxWeightUses", itoa(n256), "number of literal 256 in RebalanceWeight (HAProxy max weight)")
}
