package main

import (
	"bytes"
	"go/ast"
	"go/printer"
	"sort"
	"strings"
)

func c17Src(rel string, e ast.Node) string {
	var b bytes.Buffer
	if err := printer.Fprint(&b, load(rel).fset, e); err != nil {
		fail("print: %v", err)
	}
	return b.String()
}

// c17IfConds: conditions of every `if` inside fd, source order, as source text
func c17IfConds(rel string, fd *ast.FuncDecl) []string {
	var res []string
	ast.Inspect(fd.Body, func(n ast.Node) bool {
		if s, ok := n.(*ast.IfStmt); ok {
			res = append(res, c17Src(rel, s.Cond))
		}
		return true
	})
	return res
}

// c17Stmts: top-level statements of fd, as source text
func c17Stmts(rel string, fd *ast.FuncDecl) []string {
	var res []string
	for _, s := range fd.Body.List {
		res = append(res, c17Src(rel, s))
	}
	return res
}

func factsC17() {
	// ---- C17
	sg := "pkg/acme/signer.go"
	addStrList("c17VerifyConds", c17IfConds(sg, methodDecl(sg, "signer", "verify")),
		"signer.go verify: every if condition in source order (decision to sign, metric selection, write only with crt and key)")
	addStrList("c17VerifyCalls", methodCalls(sg, "signer", "verify"), "signer.go verify: selector calls in source order")
	addStrList("c17VerifyDue", []string{c17Src(sg, methodDecl(sg, "signer", "verify").Body.List[0])},
		"signer.go verify: first statement (the due date)")
	addStrList("c17MatchBody", c17Stmts(sg, funcDecl(sg, "match")), "signer.go match: statements")
	// the signer is a long lived object: how a new configuration reaches the state verify decides with (Props/C17Cfg)
	ac := methodDecl(sg, "signer", "AcmeConfig")
	addStrList("c17AcmeConfigBody", c17Stmts(sg, ac), "signer.go AcmeConfig: statements (the window is assigned unconditionally: 0 and negative windows included)")
	addStrList("c17AcmeConfigConds", c17IfConds(sg, ac), "signer.go AcmeConfig: if conditions (none)")
	addStrList("c17AcmeAccountConds", c17IfConds(sg, methodDecl(sg, "signer", "AcmeAccount")),
		"signer.go AcmeAccount: if conditions in source order (same account: nothing; all empty: forgotten; client creation failed: forgotten)")
	var expWrites []string
	for _, d := range load(sg).f.Decls {
		if fd, ok := d.(*ast.FuncDecl); ok && fd.Body != nil {
			for _, a := range c17AssignsAll(sg, fd) {
				if strings.HasPrefix(a, "s.expiring ") || strings.HasPrefix(a, "s.expiring=") {
					expWrites = append(expWrites, fd.Name.Name+": "+a)
				}
			}
		}
	}
	addStrList("c17ExpiringWrites", expWrites, "signer.go: every assignment of s.expiring in the file, with its function (AcmeConfig only)")
	gl := "pkg/haproxy/types/global.go"
	addStrList("c17ShrinkConds", c17IfConds(gl, methodDecl(gl, "AcmeStorages", "shrink")), "global.go AcmeStorages.shrink: if conditions")
	addStrList("c17AcquireConds", c17IfConds(gl, methodDecl(gl, "AcmeStorages", "Acquire")), "global.go AcmeStorages.Acquire: if conditions")
	addStrList("c17AcquireAssigns", c17AssignsAll(gl, methodDecl(gl, "AcmeStorages", "Acquire")), "global.go AcmeStorages.Acquire: assignments")
	addStrList("c17RemoveAllBody", c17Stmts(gl, methodDecl(gl, "AcmeStorages", "RemoveAll")), "global.go AcmeStorages.RemoveAll: statements")
	addStrList("c17StoragesClearBody", c17Stmts(gl, methodDecl(gl, "AcmeStorages", "Clear")),
		"global.go AcmeStorages.Clear: statements (items become removal candidates, the object survives a full sync)")
	addStrList("c17CommitBody", c17Stmts(gl, methodDecl(gl, "AcmeStorages", "Commit")), "global.go AcmeStorages.Commit: statements")
	cf := "pkg/haproxy/config.go"
	addStrList("c17ClearBody", c17Stmts(cf, methodDecl(cf, "config", "Clear")),
		"config.go config.Clear: statements (backends and the acme storages are carried over)")
	in := "pkg/haproxy/instance.go"
	addStrList("c17AcmeUpdateConds", c17IfConds(in, methodDecl(in, "instance", "AcmeUpdate")), "instance.go AcmeUpdate: if conditions")
	addStrList("c17AcmeUpdateCalls", methodCalls(in, "instance", "AcmeUpdate"), "instance.go AcmeUpdate: selector calls in source order")
	// the controller cycle around AcmeUpdate: what AcmeUpdate can see of the instance, the deferred Commit,
	// failedSince / reloadOwed bookkeeping, when a reload is attempted
	addStrList("c17AcmeUpdateFields", c17RecvFields(methodDecl(in, "instance", "AcmeUpdate"), "i"),
		"instance.go AcmeUpdate: fields and methods of the instance it touches, sorted (no failedSince, reloadOwed, up: the enqueue decision does not depend on reload outcomes)")
	hu := methodDecl(in, "instance", "HAProxyUpdate")
	addStrList("c17HAProxyUpdateHead", c17Stmts(in, hu)[:2],
		"instance.go HAProxyUpdate: first two statements (nil config returns; then `defer i.config.Commit()`: every later return commits)")
	var owedConds []string
	for _, c := range c17IfConds(in, hu) {
		if strings.Contains(c, "reloadOwed") {
			owedConds = append(owedConds, c)
		}
	}
	addStrList("c17HAProxyUpdateOwedConds", owedConds, "instance.go HAProxyUpdate: conditions mentioning reloadOwed (an owed reload is retried)")
	addStrList("c17UpdateSuccessfulBody", c17Stmts(in, methodDecl(in, "instance", "updateSuccessful")),
		"instance.go updateSuccessful: statements (failedSince cleared on success, set on the first failure)")
	rl := methodDecl(in, "instance", "Reload")
	var rlMarks []string
	ast.Inspect(rl.Body, func(n ast.Node) bool {
		switch x := n.(type) {
		case *ast.AssignStmt:
			if t := c17Src(in, x); strings.HasPrefix(t, "i.reloadOwed") || strings.HasPrefix(t, "i.up ") {
				rlMarks = append(rlMarks, t)
			}
		case *ast.CallExpr:
			if calleeName(x.Fun) == "i.updateSuccessful" {
				rlMarks = append(rlMarks, c17Src(in, x))
			}
		}
		return true
	})
	addStrList("c17ReloadMarks", rlMarks, "instance.go Reload: assignments of reloadOwed / up and calls of updateSuccessful, source order (failure branch first)")
	dy := "pkg/haproxy/dynupdate.go"
	addStrList("c17DynUpdateFirst", c17Stmts(dy, methodDecl(dy, "dynUpdater", "update"))[:1],
		"dynupdate.go update: first statement (without committed data — first update, full sync — a reload is needed)")
	sv := "pkg/controller/services/services.go"
	var order []string
	for _, c := range methodCalls(sv, "Services", "ReconcileIngress") {
		if strings.HasSuffix(c, ".Sync") || strings.HasPrefix(c, "s.instance.") || c == "s.svcleader.isLeader" {
			order = append(order, c)
		}
	}
	addStrList("c17ReconcileOrder", order,
		"services.go ReconcileIngress: converter Sync, then (leader) AcmeUpdate, then HAProxyUpdate — AcmeUpdate sees the failedSince the previous reconciliation left")
	ig := "pkg/converters/ingress/ingress.go"
	var tlsConds []string
	for _, c := range c17IfConds(ig, methodDecl(ig, "converter", "syncIngressHTTP")) {
		if strings.Contains(c, "tls.SecretName") {
			tlsConds = append(tlsConds, c)
		}
	}
	addStrList("c17AcmeTLSConds", tlsConds, "ingress.go syncIngressHTTP: conditions on the TLS block before an acme storage is acquired")
	var ctxs []string
	ast.Inspect(methodDecl(ig, "converter", "trackAddedIngress").Body, func(n ast.Node) bool {
		if c, ok := n.(*ast.CallExpr); ok && calleeName(c.Fun) == "c.tracker.TrackNames" && len(c.Args) == 4 {
			ctxs = append(ctxs, c17Src(ig, c.Args[2]))
		}
		return true
	})
	addStrList("c17PreTrackContexts", ctxs,
		"ingress.go trackAddedIngress: right-hand resource type of every pre-tracking call (no ResourceAcmeData: an existing storage may be acquired again without being removed, Acquire copes with it)")
	// the acme.Cache of the controller: which parts of the Secret decide "missing or unreadable" (vsec mode)
	ch := "pkg/controller/services/cache.go"
	gs := methodDecl(ch, "c", "GetTLSSecretContent")
	addStrList("c17GetSecretConds", c17IfConds(ch, gs),
		"cache.go GetTLSSecretContent: every if condition in source order (get failed, tls.crt absent, PEM/x509 check failed; no test of secret.Type)")
	addStrList("c17GetSecretFields", c17RecvFields(gs, "secret"),
		"cache.go GetTLSSecretContent: fields of the Secret it reads, sorted (Data only: the verdict cannot depend on .type)")
	addStrList("c17GetSecretDataKeys", c17IndexKeys(ch, gs, "secret.Data"),
		"cache.go GetTLSSecretContent: keys of secret.Data it reads (tls.crt only: tls.key and ca.crt are not looked at)")
	addStrList("c17GetSecretCalls", methodCalls(ch, "c", "GetTLSSecretContent"), "cache.go GetTLSSecretContent: selector calls in source order")
	addStrList("c17SetSecretAssigns", c17AssignsAll(ch, methodDecl(ch, "c", "SetTLSSecretContent")),
		"cache.go SetTLSSecretContent: assignments (type kubernetes.io/tls, data = exactly tls.crt and tls.key)")
	addStrList("c17CreateOrUpdateCalls", methodCalls(ch, "c", "createOrUpdate"), "cache.go createOrUpdate: selector calls in source order")
	sl := "pkg/controller/services/ssl.go"
	gc := methodDecl(sl, "SSL", "getCertificate")
	addStrList("c17GetCertificateConds", c17IfConds(sl, gc),
		"ssl.go getCertificate (what the controller accepts as a certificate): if conditions (both tls.crt and tls.key non-empty)")
	addStrList("c17GetCertificateFields", c17RecvFields(gc, "secret"),
		"ssl.go getCertificate: fields of the Secret it reads, sorted (no Type: HAProxy is given secrets of any type)")
	addStrList("c17GetCertificateDataKeys", c17IndexKeys(sl, gc, "secret.Data"), "ssl.go getCertificate: keys of secret.Data it reads")
	addStrList("c17BuildCertCalls", methodCalls(sl, "SSL", "buildCertFromCrtAndKey")[:1],
		"ssl.go buildCertFromCrtAndKey: first selector call (the loader validates with validateCrtAndKey before anything is written)")
	addStrList("c17ValidateCalls", methodCalls(sl, "SSL", "validateCrtAndKey"),
		"ssl.go validateCrtAndKey: selector calls in source order (certificate PEM check, key PEM check, tls.X509KeyPair, then the ca.crt check and chain verification)")
	addStrList("c17ValidateConds", c17IfConds(sl, methodDecl(sl, "SSL", "validateCrtAndKey")),
		"ssl.go validateCrtAndKey: if conditions in source order")
	addStrList("c17GetSecretValidateArgs", callArgsAll(ch, gs, "c.sslCerts.validateCrtAndKey"),
		"cache.go GetTLSSecretContent: arguments of the validateCrtAndKey call (tls.crt, tls.key, ca.crt of the Secret)")
	addStrList("c17CheckCertPEMConds", c17IfConds(sl, methodDecl(sl, "SSL", "checkValidCertPEM")),
		"ssl.go checkValidCertPEM: if conditions (zero bytes run no iteration: (nil, nil))")
	addStrList("c17CheckCertPEMLoop", []string{c17Src(sl, methodDecl(sl, "SSL", "checkValidCertPEM").Body.List[1].(*ast.ForStmt).Cond)},
		"ssl.go checkValidCertPEM: loop condition")
}

// callArgsAll: arguments (source text) of every call of callee inside fd
func callArgsAll(rel string, fd *ast.FuncDecl, callee string) []string {
	var res []string
	ast.Inspect(fd.Body, func(n ast.Node) bool {
		if c, ok := n.(*ast.CallExpr); ok && calleeName(c.Fun) == callee {
			for _, a := range c.Args {
				res = append(res, c17Src(rel, a))
			}
		}
		return true
	})
	return res
}

// c17IndexKeys: index expressions `<base>[k]` inside fd, the k as source text, source order
func c17IndexKeys(rel string, fd *ast.FuncDecl, base string) []string {
	var res []string
	ast.Inspect(fd.Body, func(n ast.Node) bool {
		if ix, ok := n.(*ast.IndexExpr); ok && c17Src(rel, ix.X) == base {
			res = append(res, c17Src(rel, ix.Index))
		}
		return true
	})
	return res
}

// c17AssignsAll: every assignment inside fd as source text
func c17AssignsAll(rel string, fd *ast.FuncDecl) []string {
	var res []string
	ast.Inspect(fd.Body, func(n ast.Node) bool {
		if a, ok := n.(*ast.AssignStmt); ok {
			res = append(res, c17Src(rel, a))
		}
		return true
	})
	return res
}

// c17RecvFields: sorted distinct `recv.X` selectors inside fd
func c17RecvFields(fd *ast.FuncDecl, recv string) []string {
	seen := map[string]bool{}
	ast.Inspect(fd.Body, func(n ast.Node) bool {
		if sel, ok := n.(*ast.SelectorExpr); ok {
			if id, ok := sel.X.(*ast.Ident); ok && id.Name == recv {
				seen[recv+"."+sel.Sel.Name] = true
			}
		}
		return true
	})
	var res []string
	for k := range seen {
		res = append(res, k)
	}
	sort.Strings(res)
	return res
}
