package main

import (
	"bytes"
	"go/ast"
	"go/printer"
	"strings"
)

func c17Src(rel string, e ast.Node) string {
	var b bytes.Buffer
	if err := printer.Fprint(&b, load(rel).fset, e); err != nil {
		fail("print: %v", err)
	}
	return b.String()
}

// c17IfConds: conditions of every `if` inside fd, source order, as source text
func c17IfConds(rel string, fd *ast.FuncDecl) []string {
	var res []string
	ast.Inspect(fd.Body, func(n ast.Node) bool {
		if s, ok := n.(*ast.IfStmt); ok {
			res = append(res, c17Src(rel, s.Cond))
		}
		return true
	})
	return res
}

// c17Stmts: top-level statements of fd, as source text
func c17Stmts(rel string, fd *ast.FuncDecl) []string {
	var res []string
	for _, s := range fd.Body.List {
		res = append(res, c17Src(rel, s))
	}
	return res
}

func factsC17() {
	// ---- C17
	sg := "pkg/acme/signer.go"
	addStrList("c17VerifyConds", c17IfConds(sg, methodDecl(sg, "signer", "verify")),
		"signer.go verify: every if condition in source order (decision to sign, metric selection, write only with crt and key)")
	addStrList("c17VerifyCalls", methodCalls(sg, "signer", "verify"), "signer.go verify: selector calls in source order")
	addStrList("c17VerifyDue", []string{c17Src(sg, methodDecl(sg, "signer", "verify").Body.List[0])},
		"signer.go verify: first statement (the due date)")
	addStrList("c17MatchBody", c17Stmts(sg, funcDecl(sg, "match")), "signer.go match: statements")
	gl := "pkg/haproxy/types/global.go"
	addStrList("c17ShrinkConds", c17IfConds(gl, methodDecl(gl, "AcmeStorages", "shrink")), "global.go AcmeStorages.shrink: if conditions")
	addStrList("c17AcquireConds", c17IfConds(gl, methodDecl(gl, "AcmeStorages", "Acquire")), "global.go AcmeStorages.Acquire: if conditions")
	addStrList("c17AcquireAssigns", c17AssignsAll(gl, methodDecl(gl, "AcmeStorages", "Acquire")), "global.go AcmeStorages.Acquire: assignments")
	addStrList("c17RemoveAllBody", c17Stmts(gl, methodDecl(gl, "AcmeStorages", "RemoveAll")), "global.go AcmeStorages.RemoveAll: statements")
	addStrList("c17StoragesClearBody", c17Stmts(gl, methodDecl(gl, "AcmeStorages", "Clear")),
		"global.go AcmeStorages.Clear: statements (items become removal candidates, the object survives a full sync)")
	addStrList("c17CommitBody", c17Stmts(gl, methodDecl(gl, "AcmeStorages", "Commit")), "global.go AcmeStorages.Commit: statements")
	cf := "pkg/haproxy/config.go"
	addStrList("c17ClearBody", c17Stmts(cf, methodDecl(cf, "config", "Clear")),
		"config.go config.Clear: statements (backends and the acme storages are carried over)")
	in := "pkg/haproxy/instance.go"
	addStrList("c17AcmeUpdateConds", c17IfConds(in, methodDecl(in, "instance", "AcmeUpdate")), "instance.go AcmeUpdate: if conditions")
	addStrList("c17AcmeUpdateCalls", methodCalls(in, "instance", "AcmeUpdate"), "instance.go AcmeUpdate: selector calls in source order")
	ig := "pkg/converters/ingress/ingress.go"
	var tlsConds []string
	for _, c := range c17IfConds(ig, methodDecl(ig, "converter", "syncIngressHTTP")) {
		if strings.Contains(c, "tls.SecretName") {
			tlsConds = append(tlsConds, c)
		}
	}
	addStrList("c17AcmeTLSConds", tlsConds, "ingress.go syncIngressHTTP: conditions on the TLS block before an acme storage is acquired")
	var ctxs []string
	ast.Inspect(methodDecl(ig, "converter", "trackAddedIngress").Body, func(n ast.Node) bool {
		if c, ok := n.(*ast.CallExpr); ok && calleeName(c.Fun) == "c.tracker.TrackNames" && len(c.Args) == 4 {
			ctxs = append(ctxs, c17Src(ig, c.Args[2]))
		}
		return true
	})
	addStrList("c17PreTrackContexts", ctxs,
		"ingress.go trackAddedIngress: right-hand resource type of every pre-tracking call (no ResourceAcmeData: an existing storage may be acquired again without being removed, Acquire copes with it)")
}

// c17AssignsAll: every assignment inside fd as source text
func c17AssignsAll(rel string, fd *ast.FuncDecl) []string {
	var res []string
	ast.Inspect(fd.Body, func(n ast.Node) bool {
		if a, ok := n.(*ast.AssignStmt); ok {
			res = append(res, c17Src(rel, a))
		}
		return true
	})
	return res
}
