package main

func factsC17() {
}
