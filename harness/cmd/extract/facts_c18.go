package main

import (
	"bytes"
	"go/ast"
	"go/printer"
	"go/token"
	"os"
	"path/filepath"
	"strconv"
	"strings"
)

func c18Src(rel string, e ast.Node) string {
	var b bytes.Buffer
	if err := printer.Fprint(&b, load(rel).fset, e); err != nil {
		fail("print: %v", err)
	}
	return b.String()
}

// c18FieldAssigns: `lhs = rhs` of every assignment in fd whose lhs ends in .<field>, source order
func c18FieldAssigns(rel string, fd *ast.FuncDecl, field string) []string {
	var res []string
	ast.Inspect(fd.Body, func(n ast.Node) bool {
		if a, ok := n.(*ast.AssignStmt); ok && a.Tok == token.ASSIGN && len(a.Lhs) == 1 && len(a.Rhs) == 1 {
			if s, ok := a.Lhs[0].(*ast.SelectorExpr); ok && s.Sel.Name == field {
				res = append(res, c18Src(rel, a.Lhs[0])+" = "+c18Src(rel, a.Rhs[0]))
			}
		}
		return true
	})
	return res
}

func factsC18() {
	back := "pkg/converters/ingress/annotations/backend.go"

	// ---- setAuthExternal: deny first, cleared once, after the last early return
	sa := methodDecl(back, "updater", "setAuthExternal")
	if len(sa.Body.List) == 0 {
		fail("setAuthExternal: empty body")
	}
	addStr("c18SetAuthFirstStmt", quote(c18Src(back, sa.Body.List[0])), "backend.go setAuthExternal: first statement")
	addStrList("c18SetAuthDenyAssigns", c18FieldAssigns(back, sa, "AlwaysDeny"), "backend.go setAuthExternal: assignments to AlwaysDeny, source order")
	var clearPos token.Pos
	ast.Inspect(sa.Body, func(n ast.Node) bool {
		if a, ok := n.(*ast.AssignStmt); ok && len(a.Lhs) == 1 && len(a.Rhs) == 1 {
			if s, ok := a.Lhs[0].(*ast.SelectorExpr); ok && s.Sel.Name == "AlwaysDeny" && c18Src(back, a.Rhs[0]) == "false" {
				clearPos = a.Pos()
			}
		}
		return true
	})
	before, after := 0, 0
	ast.Inspect(sa.Body, func(n ast.Node) bool {
		if r, ok := n.(*ast.ReturnStmt); ok {
			if clearPos != token.NoPos && r.Pos() > clearPos {
				after++
			} else {
				before++
			}
		}
		return true
	})
	addInt("c18SetAuthReturnsBeforeClear", itoa(before), "backend.go setAuthExternal: return statements before `AlwaysDeny = false`")
	addInt("c18SetAuthReturnsAfterClear", itoa(after), "backend.go setAuthExternal: return statements after `AlwaysDeny = false`")
	addStrList("c18SetAuthAcquireArgs", callArgsText(back, sa, "AcquireAuthBackendName"), "backend.go setAuthExternal: arguments of AcquireAuthBackendName")
	addStrList("c18SetAuthCleanup", c18Calls(back, sa, []string{"BuildUsedAuthBackends", "RemoveAuthBackendExcept"}), "backend.go setAuthExternal: the clean-up calls between the two acquire attempts")
	var frontReads []string
	ast.Inspect(sa.Body, func(n ast.Node) bool {
		if s, ok := n.(*ast.SelectorExpr); ok && s.Sel.Name == "AuthBackendName" {
			if x, ok := s.X.(*ast.SelectorExpr); ok && x.Sel.Name == "AuthExt" {
				if t := c18Src(back, s); !has(frontReads, t) {
					frontReads = append(frontReads, t)
				}
			}
		}
		return true
	})
	addStrList("c18SetAuthUsedFrontReads", frontReads, "backend.go setAuthExternal: reads of <HostPath>.AuthExt.AuthBackendName (names of frontend placed paths kept by the clean-up)")

	// ---- buildBackendAuthExternal / buildHostAuthExternal: the guards
	ba := methodDecl(back, "updater", "buildBackendAuthExternal")
	addStrList("c18BackendAuthConds", c18Cmps(back, ba), "backend.go buildBackendAuthExternal: comparisons")
	// what the builder writes on the path record: only through setAuthExternal, called on the record
	// itself and under the guard (a re-run with a mapper that knows nothing about the path leaves it alone)
	var baWrites []string
	ast.Inspect(ba.Body, func(n ast.Node) bool {
		switch x := n.(type) {
		case *ast.CallExpr:
			if s, ok := x.Fun.(*ast.SelectorExpr); ok && s.Sel.Name == "setAuthExternal" {
				baWrites = append(baWrites, c18Src(back, x))
			}
		case *ast.AssignStmt:
			for _, l := range x.Lhs {
				if strings.Contains(c18Src(back, l), "AuthExternal") {
					baWrites = append(baWrites, c18Src(back, x))
				}
			}
		}
		return true
	})
	addStrList("c18BackendAuthWrites", baWrites, "backend.go buildBackendAuthExternal: calls of setAuthExternal and assignments to <path>.AuthExternal, source order")

	// ---- the gateway flow: ReadAnnotations runs on every visit of a route rule, with the services
	// createBackend returned (nil for a backend that exists) and the path links of this visit
	gwf := "pkg/converters/gateway/gateway.go"
	cb := methodDecl(gwf, "converter", "createBackend")
	var cbFirst []string
	if len(cb.Body.List) > 0 {
		if ifs, ok := cb.Body.List[0].(*ast.IfStmt); ok {
			cbFirst = append(cbFirst, c18Src(gwf, ifs.Init), c18Src(gwf, ifs.Cond))
			ast.Inspect(ifs.Body, func(n ast.Node) bool {
				if r, ok := n.(*ast.ReturnStmt); ok {
					cbFirst = append(cbFirst, c18Src(gwf, r))
				}
				return true
			})
		}
	}
	addStrList("c18GwCreateBackendFirst", cbFirst, "gateway.go createBackend: the first statement (a backend that exists is returned without its services)")
	addStrList("c18GwReadAnnotationsArgs", callArgsText(gwf, methodDecl(gwf, "converter", "syncHTTPRouteGateway"), "ReadAnnotations"), "gateway.go syncHTTPRouteGateway: arguments of ReadAnnotations")
	ingf := "pkg/converters/ingress/ingress.go"
	addStrList("c18ReadAnnotationsCalls", c18Calls(ingf, methodDecl(ingf, "converter", "ReadAnnotations"), []string{"NewMapper", "AddAnnotations", "UpdateBackendConfig"}), "ingress.go ReadAnnotations: a fresh mapper, the annotations of the given services for the given links, UpdateBackendConfig")
	var convOrder []string
	for _, c := range methodCalls("pkg/converters/converters.go", "converters", "Sync") {
		if c == "c.haproxy.Clear" || c == "gatewayConverter.Sync" || c == "ingressConverter.Sync" {
			convOrder = append(convOrder, c)
		}
	}
	addStrList("c18ConvertersSyncOrder", convOrder, "converters.go Sync: Clear, the gateway converter (once per API version), then the ingress converter")
	var fullOrder []string
	for _, c := range methodCalls(ingf, "converter", "syncFull") {
		if c == "c.updater.UpdateGlobalConfig" || c == "c.syncIngress" || c == "c.fullSyncAnnotations" {
			fullOrder = append(fullOrder, c)
		}
	}
	addStrList("c18SyncFullOrder", fullOrder, "ingress.go syncFull: the globals (External, AuthProxy range) are set here, after the gateway converter ran")

	hostf := "pkg/converters/ingress/annotations/host.go"
	ha := methodDecl(hostf, "updater", "buildHostAuthExternal")
	addStrList("c18HostAuthConds", c18Cmps(hostf, ha), "host.go buildHostAuthExternal: comparisons")
	addStrList("c18HostAuthReads", c18GetReceivers(hostf, ha), "host.go buildHostAuthExternal: receivers of .Get(...)")

	// ---- buildBackendOAuth: which auth-url the precedence test reads and what the branch does
	oa := methodDecl(back, "updater", "buildBackendOAuth")
	reads := ""
	var assigns []string
	ast.Inspect(oa.Body, func(n ast.Node) bool {
		ifs, ok := n.(*ast.IfStmt)
		if !ok {
			return true
		}
		hit := false
		ast.Inspect(ifs, func(m ast.Node) bool {
			if m == ifs.Body || m == ifs.Else {
				return false
			}
			if c, ok := m.(*ast.CallExpr); ok {
				if s, ok := c.Fun.(*ast.SelectorExpr); ok && s.Sel.Name == "Get" && len(c.Args) == 1 && c18Src(back, c.Args[0]) == "ingtypes.BackAuthURL" {
					reads = c18Src(back, s.X)
					hit = true
				}
			}
			return true
		})
		if hit {
			ast.Inspect(ifs.Body, func(m ast.Node) bool {
				if a, ok := m.(*ast.AssignStmt); ok && len(a.Lhs) == 1 && len(a.Rhs) == 1 {
					assigns = append(assigns, c18Src(back, a.Lhs[0])+" "+a.Tok.String()+" "+c18Src(back, a.Rhs[0]))
				}
				return true
			})
			return false
		}
		return true
	})
	if reads == "" {
		// the test may read the value before the `if`: look for any Get(BackAuthURL) in the function
		rs := c18GetReceiversOf(back, oa, "ingtypes.BackAuthURL")
		if len(rs) == 1 {
			reads = rs[0]
		}
	}
	addStr("c18OAuthPrecedenceReads", quote(reads), "backend.go buildBackendOAuth: receiver of .Get(ingtypes.BackAuthURL) in the precedence test")
	addStrList("c18OAuthPrecedenceAssigns", assigns, "backend.go buildBackendOAuth: assignments inside the precedence branch")
	addStrList("c18OAuthDenyAssigns", c18FieldAssigns(back, oa, "AlwaysDeny"), "backend.go buildBackendOAuth: assignments to AlwaysDeny, source order")

	// ---- findBackend: the comparison that decides which published path is the oauth2-proxy, the order
	// in which the hosts and their paths are visited, and where buildBackendOAuth takes the prefix from
	fb := methodDecl(back, "updater", "findBackend")
	var fbConds, fbReturns []string
	ast.Inspect(fb.Body, func(n ast.Node) bool {
		switch x := n.(type) {
		case *ast.IfStmt:
			fbConds = append(fbConds, c18Src(back, x.Cond))
		case *ast.ReturnStmt:
			fbReturns = append(fbReturns, c18Src(back, x))
		}
		return true
	})
	addStrList("c18FindBackendConds", fbConds, "backend.go findBackend: conditions of the if statements (the test of the inner loop)")
	addStrList("c18FindBackendReturns", fbReturns, "backend.go findBackend: return statements, source order")
	addStrList("c18FindBackendRanges", c18Ranges(back, fb), "backend.go findBackend: what the loops range over")
	var fbSort []string
	ast.Inspect(fb.Body, func(n ast.Node) bool {
		if c, ok := n.(*ast.CallExpr); ok {
			if s, ok := c.Fun.(*ast.SelectorExpr); ok {
				if x, ok := s.X.(*ast.Ident); ok && x.Name == "sort" {
					fbSort = append(fbSort, c18Src(back, c))
				}
			}
		}
		return true
	})
	addStrList("c18FindBackendSort", fbSort, "backend.go findBackend: calls into package sort (the hostnames are visited in sorted order)")
	hostTypes := "pkg/haproxy/types/host.go"
	addStrList("c18HostAddLinkCmps", c18CmpsNoNil(hostTypes, methodDecl(hostTypes, "Host", "addLink")), "host.go Host.addLink: comparisons of the sort that keeps Host.Paths ordered (path descending, ties by registration order)")
	var pfxAssigns, pfxConds, pathAssigns []string
	ast.Inspect(oa.Body, func(n ast.Node) bool {
		switch x := n.(type) {
		case *ast.AssignStmt:
			if len(x.Lhs) == 1 && len(x.Rhs) == 1 {
				l := c18Src(back, x.Lhs[0])
				if l == "uriPrefix" || l == "namespace" || l == "backend" {
					pfxAssigns = append(pfxAssigns, l+" "+x.Tok.String()+" "+c18Src(back, x.Rhs[0]))
				}
				if l == "path.AuthExternal.AuthBackendName" || l == "path.AuthExternal.AllowedPath" || l == "path.AuthExternal.AuthPath" {
					pathAssigns = append(pathAssigns, l+" "+x.Tok.String()+" "+c18Src(back, x.Rhs[0]))
				}
			}
		case *ast.IfStmt:
			if strings.Contains(c18Src(back, x.Cond), "prefix.") {
				pfxConds = append(pfxConds, c18Src(back, x.Cond))
			}
		}
		return true
	})
	addStrList("c18OAuthPrefixAssigns", pfxAssigns, "backend.go buildBackendOAuth: assignments to uriPrefix, namespace and backend, source order")
	addStrList("c18OAuthPrefixConds", pfxConds, "backend.go buildBackendOAuth: when oauth-uri-prefix replaces the default")
	addStrList("c18OAuthPathAssigns", pathAssigns, "backend.go buildBackendOAuth: the backend, the exemption and the auth path written on the record")

	// ---- UpdateHostConfig before UpdateBackendConfig; auth-url before oauth
	upd := "pkg/converters/ingress/annotations/updater.go"
	var builders []string
	for _, c := range methodCalls(upd, "updater", "UpdateBackendConfig") {
		if c == "c.buildBackendAuthExternal" || c == "c.buildBackendOAuth" {
			builders = append(builders, c)
		}
	}
	addStrList("c18BackendBuilderOrder", builders, "updater.go UpdateBackendConfig: order of the two authentication builders")
	ing := "pkg/converters/ingress/ingress.go"
	var sync []string
	for _, c := range methodCalls(ing, "converter", "fullSyncAnnotations") {
		if c == "c.updater.UpdateHostConfig" || c == "c.updater.UpdateBackendConfig" {
			sync = append(sync, c)
		}
	}
	addStrList("c18FullSyncOrder", sync, "ingress.go fullSyncAnnotations: hosts are updated before backends")

	// ---- BuildUsedAuthBackends: which records count as users of an auth proxy name
	bks := "pkg/haproxy/types/backends.go"
	ub := methodDecl(bks, "Backends", "BuildUsedAuthBackends")
	var usedReads []string
	ast.Inspect(ub.Body, func(n ast.Node) bool {
		if s, ok := n.(*ast.SelectorExpr); ok && s.Sel.Name == "AuthBackendName" {
			usedReads = append(usedReads, c18Src(bks, s))
		}
		return true
	})
	addStrList("c18UsedAuthReads", usedReads, "backends.go BuildUsedAuthBackends: AuthBackendName reads")
	addStrList("c18UsedAuthRanges", c18Ranges(bks, ub), "backends.go BuildUsedAuthBackends: what the loops range over (all current backends, not the changed ones)")

	// ---- partial sync: what is dropped before the dirty ingresses are parsed again, and which hosts and
	// backends get their annotations (authentication included) rebuilt
	sp := methodDecl(ing, "converter", "syncPartial")
	addStrList("c18SyncPartialRemovals", c18Calls(ing, sp, []string{"RemoveAll", "RemoveAuthBackendByTarget"}), "ingress.go syncPartial: removals of dirty objects, source order")
	pa := methodDecl(ing, "converter", "partialSyncAnnotations")
	addStrList("c18PartialSyncRanges", c18Ranges(ing, pa), "ingress.go partialSyncAnnotations: what the loops range over")
	var psync []string
	for _, c := range methodCalls(ing, "converter", "partialSyncAnnotations") {
		if c == "c.updater.UpdateHostConfig" || c == "c.updater.UpdateBackendConfig" {
			psync = append(psync, c)
		}
	}
	addStrList("c18PartialSyncOrder", psync, "ingress.go partialSyncAnnotations: hosts are updated before backends")
	rt := methodDecl("pkg/haproxy/types/frontend.go", "Frontend", "RemoveAuthBackendByTarget")
	var rtConds []string
	ast.Inspect(rt.Body, func(n ast.Node) bool {
		if i, ok := n.(*ast.IfStmt); ok {
			rtConds = append(rtConds, c18Src("pkg/haproxy/types/frontend.go", i.Cond))
		}
		return true
	})
	addStrList("c18RemoveByTargetConds", rtConds, "frontend.go RemoveAuthBackendByTarget: a bind is kept unless its target is listed")

	// ---- AcquireAuthBackendName
	fr := "pkg/haproxy/types/frontend.go"
	aq := methodDecl(fr, "Frontend", "AcquireAuthBackendName")
	addStrList("c18AcquireConds", c18Cmps(fr, aq), "frontend.go AcquireAuthBackendName: comparisons, source order")
	addStrList("c18AcquireStrings", strLits(fr, "AcquireAuthBackendName"), "frontend.go AcquireAuthBackendName: string literals")

	// ---- template: how the frontend rule is scoped, and the shape of the authExternal block
	tmpl, err := os.ReadFile(filepath.Join(repo, "rootfs/etc/templates/haproxy/haproxy.tmpl"))
	if err != nil {
		fail("template: %v", err)
	}
	var frontFmt []string
	for _, l := range strings.Split(string(tmpl), "\n") {
		if strings.Contains(l, `template "authExternal" map $path.AuthExt`) {
			i := strings.Index(l, `(printf "`)
			j := strings.LastIndex(l, `" $path.Link.HAMatch $path.Link.Key)`)
			if i < 0 || j < i {
				fail("template: frontend authExternal call has an unexpected shape: %s", l)
			}
			frontFmt = append(frontFmt, l[i+len(`(printf "`):j])
		}
	}
	addStrList("c18FrontCondFormat", frontFmt, "haproxy.tmpl authExternalFrontend: printf format of the scope condition (args HAMatch, Key)")
	var block []string
	in := false
	for _, l := range strings.Split(string(tmpl), "\n") {
		if strings.HasPrefix(l, `{{- define "authExternal" }}`) {
			in = true
			continue
		}
		if in && strings.HasPrefix(l, `{{- define `) {
			break
		}
		if in {
			t := strings.TrimSpace(l)
			if strings.HasPrefix(t, "{{- if ") || strings.HasPrefix(t, "{{- else") || strings.HasPrefix(t, "http-request ") {
				block = append(block, t)
			}
		}
	}
	addStrList("c18AuthExternalBlock", block, "haproxy.tmpl authExternal: control lines and http-request lines, source order")

	// ---- addBackendWithClass: when the IngressClass parameters are merged into the path link of the backend's mapper
	ingGo := "pkg/converters/ingress/ingress.go"
	abc := methodDecl(ingGo, "converter", "addBackendWithClass")
	var mergeCalls, mergeConds []string
	var stack []ast.Node
	ast.Inspect(abc.Body, func(n ast.Node) bool {
		if n == nil {
			stack = stack[:len(stack)-1]
			return true
		}
		stack = append(stack, n)
		if call, ok := n.(*ast.CallExpr); ok {
			if sel, ok := call.Fun.(*ast.SelectorExpr); ok && sel.Sel.Name == "AddAnnotations" {
				if len(call.Args) == 3 {
					mergeCalls = append(mergeCalls, c18Src(ingGo, call.Args[1])+", "+c18Src(ingGo, call.Args[2]))
				}
				if len(call.Args) == 3 && c18Src(ingGo, call.Args[2]) == "cfg" {
					for _, anc := range stack {
						if is, ok := anc.(*ast.IfStmt); ok {
							c := c18Src(ingGo, is.Cond)
							if is.Init != nil {
								c = c18Src(ingGo, is.Init) + "; " + c
							}
							mergeConds = append(mergeConds, c)
						}
					}
				}
			}
		}
		return true
	})
	addStrList("c18ClassMergeCalls", mergeCalls, "ingress.go addBackendWithClass: path link and annotation map of the AddAnnotations calls on the backend's mapper, source order (Service, Ingress, class parameters)")
	addStrList("c18ClassMergeConds", mergeConds, "ingress.go addBackendWithClass: conditions of the if statements enclosing the merge of the class parameters, outermost first")
}

func quote(s string) string { return strconv.Quote(s) }

func callArgsText(rel string, fd *ast.FuncDecl, method string) []string {
	var res []string
	ast.Inspect(fd.Body, func(n ast.Node) bool {
		if c, ok := n.(*ast.CallExpr); ok {
			if s, ok := c.Fun.(*ast.SelectorExpr); ok && s.Sel.Name == method {
				var a []string
				for _, x := range c.Args {
					a = append(a, c18Src(rel, x))
				}
				res = append(res, strings.Join(a, ", "))
			}
		}
		return true
	})
	return res
}

// c18Calls: the selector calls whose method name is in names, source order, as `recv.Method(args)`
func c18Calls(rel string, fd *ast.FuncDecl, names []string) []string {
	var res []string
	ast.Inspect(fd.Body, func(n ast.Node) bool {
		if c, ok := n.(*ast.CallExpr); ok {
			if s, ok := c.Fun.(*ast.SelectorExpr); ok && has(names, s.Sel.Name) {
				res = append(res, c18Src(rel, c))
			}
		}
		return true
	})
	return res
}

// c18Ranges: the expressions the range statements of fd iterate, source order
func c18Ranges(rel string, fd *ast.FuncDecl) []string {
	var res []string
	ast.Inspect(fd.Body, func(n ast.Node) bool {
		if r, ok := n.(*ast.RangeStmt); ok {
			res = append(res, c18Src(rel, r.X))
		}
		return true
	})
	return res
}

func c18Cmps(rel string, fd *ast.FuncDecl) []string {
	var res []string
	ast.Inspect(fd.Body, func(n ast.Node) bool {
		if b, ok := n.(*ast.BinaryExpr); ok {
			switch b.Op {
			case token.EQL, token.NEQ, token.LSS, token.GTR, token.LEQ, token.GEQ:
				res = append(res, c18Src(rel, b))
			}
		}
		return true
	})
	return res
}

// c18CmpsNoNil: c18Cmps without the nil / empty-string guards
func c18CmpsNoNil(rel string, fd *ast.FuncDecl) []string {
	var res []string
	for _, c := range c18Cmps(rel, fd) {
		if strings.HasSuffix(c, "!= nil") || strings.HasSuffix(c, `== ""`) {
			continue
		}
		res = append(res, c)
	}
	return res
}

func c18GetReceivers(rel string, fd *ast.FuncDecl) []string {
	var res []string
	ast.Inspect(fd.Body, func(n ast.Node) bool {
		if c, ok := n.(*ast.CallExpr); ok {
			if s, ok := c.Fun.(*ast.SelectorExpr); ok && s.Sel.Name == "Get" && len(c.Args) == 1 {
				res = append(res, c18Src(rel, s.X)+".Get("+c18Src(rel, c.Args[0])+")")
			}
		}
		return true
	})
	return res
}

func c18GetReceiversOf(rel string, fd *ast.FuncDecl, arg string) []string {
	var res []string
	ast.Inspect(fd.Body, func(n ast.Node) bool {
		if c, ok := n.(*ast.CallExpr); ok {
			if s, ok := c.Fun.(*ast.SelectorExpr); ok && s.Sel.Name == "Get" && len(c.Args) == 1 && c18Src(rel, c.Args[0]) == arg {
				res = append(res, c18Src(rel, s.X))
			}
		}
		return true
	})
	return res
}
