package main

func factsC18() {
}
