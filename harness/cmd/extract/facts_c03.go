package main

func factsC03() {
}
