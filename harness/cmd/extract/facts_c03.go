package main

import (
	"go/ast"
)

// c03Conds: every `if` condition of a function, in source order
func c03Conds(rel, fn string) []string {
	var res []string
	ast.Inspect(funcDecl(rel, fn), func(n ast.Node) bool {
		if s, ok := n.(*ast.IfStmt); ok {
			res = append(res, c05Expr(s.Cond))
		}
		return true
	})
	return res
}

// c03Default: value of a key of createDefaults()
func c03Default(key string) string {
	var res []string
	ast.Inspect(funcDecl("pkg/converters/ingress/defaults.go", "createDefaults"), func(n ast.Node) bool {
		if kv, ok := n.(*ast.KeyValueExpr); ok {
			if sel, ok := kv.Key.(*ast.SelectorExpr); ok && sel.Sel.Name == key {
				if s, ok := lit(kv.Value); ok {
					res = append(res, s)
				}
			}
		}
		return true
	})
	return one(res, "createDefaults "+key)
}

func factsC03() {
	// ---- C03 (M-Sync): constants and conditions the model of the full sync transcribes
	svc := "pkg/converters/utils/services.go"
	addStrList("c03FindServicePortConds", c03Conds(svc, "FindServicePort"),
		"services.go FindServicePort: by name or targetPort string, then (if numeric) by port number")
	addStrList("c03MatchPortConds", c03Conds(svc, "matchPort"), "services.go matchPort: protocol test")
	addStr("c03PathTypeOrder", c03Default("GlobalPathTypeOrder"), "defaults.go: path-type-order")
	addStr("c03InitialWeight", c03Default("BackInitialWeight"), "defaults.go: initial-weight")
	addStr("c03AlwaysAddHTTPS", c03Default("HostSSLAlwaysAddHTTPS"), "defaults.go: ssl-always-add-https (HasTLS = has a tls entry)")
	seps := []string{}
	for _, s := range strLits("pkg/haproxy/types/backends.go", "buildID") {
		seps = append(seps, s)
	}
	addStrList("c03BackendIDSeps", seps, "backends.go buildID: namespace + sep + name + sep + port")
	addStrList("c03SortIngressConds", c03Conds("pkg/converters/ingress/ingress.go", "sortIngress"),
		"ingress.go sortIngress: creation timestamp first, then namespace/name")
	addStrList("c03HasTLS", func() []string {
		var res []string
		ast.Inspect(methodDecl("pkg/haproxy/types/host.go", "Host", "HasTLS").Body, func(n ast.Node) bool {
			if r, ok := n.(*ast.ReturnStmt); ok && len(r.Results) == 1 {
				res = append(res, c05Expr(r.Results[0]))
			}
			return true
		})
		return res
	}(), "host.go Host.HasTLS")
}
