package main

func factsC12() {
}
