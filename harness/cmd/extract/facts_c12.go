package main

import (
	"go/ast"
	"strings"
)

// c12Stmt summarises one top-level statement of a function body
func c12Stmt(st ast.Stmt) string {
	switch v := st.(type) {
	case *ast.DeferStmt:
		return "defer:" + c05Expr(v.Call.Fun)
	case *ast.ExprStmt:
		if c, ok := v.X.(*ast.CallExpr); ok {
			return "call:" + c05Expr(c.Fun)
		}
	case *ast.AssignStmt:
		if len(v.Rhs) == 1 && len(v.Lhs) == 1 {
			return "assign:" + c05Expr(v.Lhs[0]) + v.Tok.String() + c05Expr(v.Rhs[0])
		}
		if len(v.Rhs) == 1 {
			return "assign:" + c05Expr(v.Rhs[0])
		}
	case *ast.ReturnStmt:
		parts := make([]string, len(v.Results))
		for i, r := range v.Results {
			parts[i] = c05Expr(r)
		}
		return "return:" + strings.Join(parts, ",")
	case *ast.IfStmt:
		s := "if:"
		if a, ok := v.Init.(*ast.AssignStmt); ok && len(a.Rhs) == 1 {
			s = "if-init:" + c05Expr(a.Rhs[0]) + ";"
		}
		s += c05Expr(v.Cond)
		// state changes made directly in the branch
		var eff []string
		for _, b := range v.Body.List {
			switch e := b.(type) {
			case *ast.AssignStmt:
				if len(e.Lhs) == 1 && len(e.Rhs) == 1 {
					if sel, ok := e.Lhs[0].(*ast.SelectorExpr); ok && c05Expr(sel.X) == "i" {
						eff = append(eff, c05Expr(e.Lhs[0])+"="+c05Expr(e.Rhs[0]))
					}
				}
				if len(e.Lhs) == 1 && len(e.Rhs) == 1 {
					if id, ok := e.Lhs[0].(*ast.Ident); ok && id.Name == "updated" {
						eff = append(eff, "updated="+c05Expr(e.Rhs[0]))
					}
				}
			case *ast.ExprStmt:
				if c, ok := e.X.(*ast.CallExpr); ok && strings.HasPrefix(c05Expr(c.Fun), "i.config.") {
					eff = append(eff, c05Expr(c.Fun))
				}
			}
		}
		if len(eff) > 0 {
			s += "{" + strings.Join(eff, ";") + "}"
		}
		// does the branch return?
		for _, b := range v.Body.List {
			if r, ok := b.(*ast.ReturnStmt); ok {
				if len(r.Results) == 1 {
					if c, ok := r.Results[0].(*ast.CallExpr); ok {
						s += "=>return:" + c05Expr(c.Fun)
					} else {
						s += "=>return:" + c05Expr(r.Results[0])
					}
				} else {
					s += "=>return"
				}
			}
		}
		return s
	}
	return "other"
}

// c12Block summarises the statements of a block; a `for .. range` loop is rendered with its body
func c12Block(list []ast.Stmt) []string {
	var res []string
	for _, st := range list {
		if r, ok := st.(*ast.RangeStmt); ok {
			res = append(res, "range:"+c05Expr(r.X)+"{"+strings.Join(c12Block(r.Body.List), ";")+"}")
			continue
		}
		if s := c12Stmt(st); s != "other" {
			res = append(res, s)
		}
	}
	return res
}

// c12ShapeExpr is c05Expr plus slice expressions
func c12ShapeExpr(e ast.Expr) string {
	if v, ok := e.(*ast.SliceExpr); ok {
		part := func(x ast.Expr) string {
			if x == nil {
				return ""
			}
			return c05Expr(x)
		}
		return c05Expr(v.X) + "[" + part(v.Low) + ":" + part(v.High) + "]"
	}
	return c05Expr(e)
}

// c12Shape renders EVERY statement of a block, nested blocks included (if / else / for with their bodies): a
// statement added anywhere - a memo, an early return - changes the string.  A returned call is named by its
// function only (the message text is free).
func c12Shape(list []ast.Stmt) []string {
	var res []string
	for _, st := range list {
		res = append(res, c12ShapeStmt(st))
	}
	return res
}

func c12ShapeStmt(st ast.Stmt) string {
	simple := func(s ast.Stmt) string {
		switch v := s.(type) {
		case *ast.AssignStmt:
			l := make([]string, len(v.Lhs))
			for i, x := range v.Lhs {
				l[i] = c12ShapeExpr(x)
			}
			r := make([]string, len(v.Rhs))
			for i, x := range v.Rhs {
				r[i] = c12ShapeExpr(x)
			}
			return strings.Join(l, ",") + v.Tok.String() + strings.Join(r, ",")
		case *ast.ExprStmt:
			return c12ShapeExpr(v.X)
		}
		return "?"
	}
	switch v := st.(type) {
	case *ast.AssignStmt:
		return "assign:" + simple(v)
	case *ast.ExprStmt:
		return "call:" + simple(v)
	case *ast.ReturnStmt:
		parts := make([]string, len(v.Results))
		for i, r := range v.Results {
			if c, ok := r.(*ast.CallExpr); ok {
				parts[i] = c05Expr(c.Fun)
			} else {
				parts[i] = c12ShapeExpr(r)
			}
		}
		return "return:" + strings.Join(parts, ",")
	case *ast.IfStmt:
		s := "if:"
		if a, ok := v.Init.(*ast.AssignStmt); ok {
			r := make([]string, len(a.Rhs))
			for i, x := range a.Rhs {
				r[i] = c12ShapeExpr(x)
			}
			s = "if-init:" + strings.Join(r, ",") + ";"
		} else if v.Init != nil {
			s = "if-init:?;"
		}
		s += c12ShapeExpr(v.Cond) + "{" + strings.Join(c12Shape(v.Body.List), ";") + "}"
		switch e := v.Else.(type) {
		case *ast.BlockStmt:
			s += "else{" + strings.Join(c12Shape(e.List), ";") + "}"
		case *ast.IfStmt:
			s += "else{" + c12ShapeStmt(e) + "}"
		}
		return s
	case *ast.ForStmt:
		c := ""
		if v.Cond != nil {
			c = c12ShapeExpr(v.Cond)
		}
		if v.Init != nil || v.Post != nil {
			c = "?;" + c + ";?"
		}
		return "for:" + c + "{" + strings.Join(c12Shape(v.Body.List), ";") + "}"
	case *ast.RangeStmt:
		return "range:" + c12ShapeExpr(v.X) + "{" + strings.Join(c12Shape(v.Body.List), ";") + "}"
	case *ast.BlockStmt:
		return "{" + strings.Join(c12Shape(v.List), ";") + "}"
	case *ast.DeferStmt:
		return "defer:" + c05Expr(v.Call.Fun)
	}
	return "other"
}

func factsC12() {
	inst := "pkg/haproxy/instance.go"
	// writeConfig: modsec, one errorfile per HAProxy based response, responses.lua, haproxy.cfg, the shard files;
	// no guard around the response files, every failed write returns at once
	addStrList("c12WriteConfigStmts", c12Block(methodDecl(inst, "instance", "writeConfig").Body.List),
		"instance.writeConfig: top-level statements in source order (range loops with their body)")
	// HAProxyUpdate: the deferred Commit comes before every write; every failed write returns at once
	var upd []string
	for _, st := range methodDecl(inst, "instance", "HAProxyUpdate").Body.List {
		s := c12Stmt(st)
		if s != "other" {
			upd = append(upd, s)
		}
	}
	addStrList("c12UpdateStmts", upd, "instance.HAProxyUpdate: top-level statements in source order")
	// Reload: one error path
	var rel []string
	for _, st := range methodDecl(inst, "instance", "Reload").Body.List {
		s := c12Stmt(st)
		if strings.HasPrefix(s, "if") || strings.HasPrefix(s, "assign") || strings.HasPrefix(s, "return") {
			rel = append(rel, s)
		}
	}
	addStrList("c12ReloadStmts", rel, "instance.Reload: assignments, ifs and returns in source order")
	// the reconcile retry: same queue item again after ReloadRetry, error swallowed
	var rq []string
	ast.Inspect(methodDecl("pkg/controller/reconciler/reconciler.go", "IngressReconciler", "Reconcile").Body, func(n ast.Node) bool {
		if kv, ok := n.(*ast.KeyValueExpr); ok {
			rq = append(rq, c05Expr(kv.Key)+"="+c05Expr(kv.Value))
		}
		return true
	})
	addStrList("c12ReconcileRequeue", rq, "IngressReconciler.Reconcile: fields of the returned ctrl.Result")
	var rc []string
	for _, c := range methodCalls("pkg/controller/reconciler/reconciler.go", "IngressReconciler", "Reconcile") {
		if strings.HasPrefix(c, "r.") {
			rc = append(rc, c)
		}
	}
	addStrList("c12ReconcileCalls", rc, "IngressReconciler.Reconcile: calls on the receiver in source order")
	// the reload queue worker puts the item back after a failed Reload
	var qw []string
	for _, c := range methodCalls("pkg/controller/services/services.go", "Services", "reloadHAProxy") {
		if c == "s.instance.Reload" || strings.HasPrefix(c, "s.reloadQueue.") {
			qw = append(qw, c)
		}
	}
	addStrList("c12QueueWorkerCalls", qw, "Services.reloadHAProxy: Reload and reload queue calls in source order")
	// dynamic update: commands are only sent when committed data exists
	var dg []string
	ast.Inspect(methodDecl("pkg/haproxy/dynupdate.go", "dynUpdater", "update").Body, func(n ast.Node) bool {
		if a, ok := n.(*ast.AssignStmt); ok && len(a.Rhs) == 1 && len(dg) == 0 {
			dg = append(dg, c05Expr(a.Rhs[0]))
		}
		return true
	})
	addStrList("c12DynGate", dg, "dynUpdater.update: first assignment (the gate in front of checkConfigChange)")
	// files are written in place (no temporary file + rename): a failed write leaves the old or a truncated file
	var osc []string
	for _, c := range methodCalls("pkg/haproxy/template/template.go", "template", "writeToDisk") {
		if strings.HasPrefix(c, "os.") {
			osc = append(osc, c)
		}
	}
	addStrList("c12WriteToDiskOS", osc, "template.writeToDisk: os.* calls in source order")
	// the whole statement shape: the rotation block (rename -> return, removal loop -> return), then os.WriteFile of
	// the rendered buffer; nothing is remembered and nothing returns early before the write is known to be done
	addStrList("c12WriteToDiskShape", c12Shape(methodDecl("pkg/haproxy/template/template.go", "template", "writeToDisk").Body.List),
		"template.writeToDisk: every statement, nested blocks included")
	var wo []string
	for _, c := range methodCalls("pkg/haproxy/template/template.go", "Config", "WriteOutput") {
		if c == "t.tmpl.Execute" || c == "t.writeToDisk" {
			wo = append(wo, c)
		}
	}
	// the repair: ForceRewrite and the guards that listen to it
	cfgf := "pkg/haproxy/config.go"
	var fr []string
	ast.Inspect(methodDecl(cfgf, "config", "ForceRewrite").Body, func(n ast.Node) bool {
		switch v := n.(type) {
		case *ast.AssignStmt:
			if len(v.Lhs) == 1 && len(v.Rhs) == 1 {
				fr = append(fr, c05Expr(v.Lhs[0])+"="+c05Expr(v.Rhs[0]))
			}
		case *ast.CallExpr:
			fr = append(fr, c05Expr(v.Fun))
		}
		return true
	})
	addStrList("c12ForceRewrite", fr, "config.ForceRewrite: assignments and calls")
	// config.Shrink: a global config that differs from the one of the last commit (kept over Clear in globalPrev,
	// dropped by Commit) forces the rewrite too
	var shr []string
	for _, st := range methodDecl(cfgf, "config", "Shrink").Body.List {
		s := c12Stmt(st)
		if ifs, ok := st.(*ast.IfStmt); ok {
			for _, b := range ifs.Body.List {
				if e, ok := b.(*ast.ExprStmt); ok {
					if c, ok := e.X.(*ast.CallExpr); ok {
						s += "=>" + c05Expr(c.Fun)
					}
				}
			}
		}
		shr = append(shr, s)
	}
	addStrList("c12ShrinkStmts", shr, "config.Shrink: top-level statements, with the calls of an if body")
	var gp []string
	for _, m := range []string{"Clear", "Commit"} {
		for _, a := range methodAssigns(cfgf, "config", m) {
			if strings.Contains(a, "globalPrev") {
				gp = append(gp, m+":"+a)
			}
		}
	}
	addStrList("c12GlobalPrev", gp, "config.Clear / config.Commit: assignments that involve globalPrev")
	firstIf := func(name string) []string {
		var res []string
		ast.Inspect(methodDecl(cfgf, "config", name).Body, func(n ast.Node) bool {
			if v, ok := n.(*ast.IfStmt); ok && len(res) == 0 {
				res = append(res, c05Expr(v.Cond))
			}
			return true
		})
		return res
	}
	addStrList("c12TcpMapsGuard", firstIf("WriteTCPServicesMaps"), "config.WriteTCPServicesMaps: guard")
	addStrList("c12BackendMapsGuard", firstIf("WriteBackendMaps"), "config.WriteBackendMaps: guard")
	var vis []string
	ast.Inspect(methodDecl(cfgf, "config", "WriteBackendMaps").Body, func(n ast.Node) bool {
		if a, ok := n.(*ast.AssignStmt); ok && len(a.Lhs) == 1 && len(a.Rhs) == 1 {
			if id, ok := a.Lhs[0].(*ast.Ident); ok && id.Name == "backends" {
				vis = append(vis, a.Tok.String()+c05Expr(a.Rhs[0]))
			}
		}
		return true
	})
	addStrList("c12BackendMapsVisited", vis, "config.WriteBackendMaps: what `backends` is set to (ItemsAdd, or Items when rewriteAll)")
	var cm []string
	for _, a := range methodAssigns(cfgf, "config", "Commit") {
		if a == "c.rewriteAll=?" || len(a) > 12 && a[:12] == "c.rewriteAll" {
			cm = append(cm, a)
		}
	}
	addStrList("c12CommitResets", cm, "config.Commit: resets rewriteAll")
	addStrList("c12WriteOutputCalls", wo, "template.Config.WriteOutput: every template is executed before the first file is written")
}
