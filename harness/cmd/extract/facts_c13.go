package main

func factsC13() {
	// ---- C13
	rl := "pkg/utils/workqueue/ratelimiters.go"
	addStrList("c13ReloadWhenCalls", methodCalls(rl, "reloadHAProxy", "When"), "selector calls inside reloadHAProxy.When, in source order")
	addStrList("c13IngressWhenCalls", methodCalls(rl, "ingressReconciler", "When"), "selector calls inside ingressReconciler.When, in source order")
}
