package main

import (
	"go/ast"
	"os"
	"path/filepath"
	"sort"
	"strings"
)

// c13Callee renders the callee of a call, looking through a generic instantiation (`f[T](...)`)
func c13Callee(e ast.Expr) string {
	switch v := e.(type) {
	case *ast.IndexExpr:
		return c13Callee(v.X)
	case *ast.IndexListExpr:
		return c13Callee(v.X)
	}
	return calleeName(e)
}

// c13EnqueueSites: every call `<recv>.Add|AddAfter|AddRateLimited(...)` of the files whose receiver satisfies
// isQueue, as "file:func:recv.Method", in file then source order
func c13EnqueueSites(rels []string, isQueue func(recv string) bool) []string {
	var res []string
	for _, rel := range rels {
		for _, d := range load(rel).f.Decls {
			fd, ok := d.(*ast.FuncDecl)
			if !ok || fd.Body == nil {
				continue
			}
			ast.Inspect(fd.Body, func(n ast.Node) bool {
				c, ok := n.(*ast.CallExpr)
				if !ok {
					return true
				}
				sel, ok := c.Fun.(*ast.SelectorExpr)
				if !ok {
					return true
				}
				switch sel.Sel.Name {
				case "Add", "AddAfter", "AddRateLimited":
					if recv := exprString(sel.X); isQueue(recv) {
						res = append(res, filepath.Base(rel)+":"+fd.Name.Name+":"+recv+"."+sel.Sel.Name)
					}
				}
				return true
			})
		}
	}
	return res
}

func factsC13() {
	// ---- C13
	rl := "pkg/utils/workqueue/ratelimiters.go"
	addStrList("c13ReloadWhenCalls", methodCalls(rl, "reloadHAProxy", "When"), "selector calls inside reloadHAProxy.When, in source order")
	addStrList("c13IngressWhenCalls", methodCalls(rl, "ingressReconciler", "When"), "selector calls inside ingressReconciler.When, in source order")
	// the enqueue discipline: every call site of the reconcile queue in pkg/controller/reconciler
	dir := "pkg/controller/reconciler"
	ents, err := os.ReadDir(filepath.Join(repo, dir))
	if err != nil {
		fail("%s: %v", dir, err)
	}
	var rels []string
	for _, e := range ents {
		n := e.Name()
		if strings.HasSuffix(n, ".go") && !strings.HasSuffix(n, "_test.go") && n != "verif_export.go" {
			rels = append(rels, dir+"/"+n)
		}
	}
	sort.Strings(rels)
	addStrList("c13ReconcileEnqueueSites", c13EnqueueSites(rels, func(recv string) bool {
		return recv == "q" || recv == "queue" || strings.HasSuffix(recv, ".queue")
	}), "every <queue>.Add/AddAfter/AddRateLimited call of pkg/controller/reconciler (receiver q / queue / x.queue) as file:func:recv.Method")
	// the reload queue: its callers, and what its facade's Add does
	addStrList("c13ReloadEnqueueSites", c13EnqueueSites([]string{"pkg/controller/services/services.go", "pkg/haproxy/instance.go"}, func(recv string) bool {
		return strings.HasSuffix(recv, "eloadQueue")
	}), "every <x>.reloadQueue / ReloadQueue .Add/AddAfter/AddRateLimited call of services.go and instance.go as file:func:recv.Method")
	addStrList("c13WorkQueueAddCalls", methodCalls("pkg/utils/workqueue/workqueue.go", "WorkQueue", "Add"), "selector calls inside WorkQueue.Add (the facade the reload queue's callers use)")
	// how SetupWithManager builds the reconcile queue (what the harness hook replicates)
	var setup []string
	ast.Inspect(methodDecl(dir+"/reconciler.go", "IngressReconciler", "SetupWithManager").Body, func(n ast.Node) bool {
		if c, ok := n.(*ast.CallExpr); ok {
			if s := c13Callee(c.Fun); strings.Contains(s, ".") {
				setup = append(setup, s)
			}
		}
		return true
	})
	addStrList("c13SetupCalls", setup, "selector calls inside IngressReconciler.SetupWithManager (generic instantiations looked through), in source order")
}
