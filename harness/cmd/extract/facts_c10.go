package main

import (
	"bytes"
	"go/ast"
	"go/printer"
	"go/token"
	"strings"
)

func c10Src(rel string, n ast.Node) string {
	var b bytes.Buffer
	_ = printer.Fprint(&b, load(rel).fset, n)
	return b.String()
}

// c10Binaries: source text of every binary expression with a comparison operator inside n
func c10Binaries(rel string, n ast.Node) []string {
	var res []string
	ast.Inspect(n, func(x ast.Node) bool {
		if b, ok := x.(*ast.BinaryExpr); ok && (b.Op == token.EQL || b.Op == token.NEQ) {
			res = append(res, c10Src(rel, b))
		}
		return true
	})
	return res
}

func c10Method(rel, name string) *ast.FuncDecl {
	for _, d := range load(rel).f.Decls {
		if fd, ok := d.(*ast.FuncDecl); ok && fd.Name.Name == name {
			return fd
		}
	}
	fail("%s: func %s not found", rel, name)
	return nil
}

func factsC10() {
	gw := "pkg/converters/gateway/gateway.go"
	// the finding: the converter never reads the listener protocol
	n := 0
	ast.Inspect(load(gw).f, func(x ast.Node) bool {
		if s, ok := x.(*ast.SelectorExpr); ok && s.Sel.Name == "Protocol" {
			n++
		}
		return true
	})
	addInt("c10ProtocolReads", itoa(n), "gateway.go: number of `<expr>.Protocol` selectors (listener protocol is never read)")
	// which variant of syncTCPRouteGateway: the comparisons on the listener protocol, in source order.
	// The repaired code has exactly: != "" && != TCPProtocolType && != TLSProtocolType (skip otherwise).
	var cmps []string
	for _, b := range c10Binaries(gw, c10Method(gw, "syncTCPRouteGateway")) {
		if strings.Contains(b, "listener.Protocol") {
			cmps = append(cmps, b)
		}
	}
	addStrList("c10TcpProtocolCmps", cmps, "gateway.go syncTCPRouteGateway: comparisons on `listener.Protocol`, in source order")
	want := []string{`listener.Protocol != ""`, "listener.Protocol != gatewayv1.TCPProtocolType", "listener.Protocol != gatewayv1.TLSProtocolType"}
	chk := len(cmps) == len(want)
	for i := range want {
		chk = chk && cmps[i] == want[i]
	}
	addBool("c10TcpProtocolChecked", chk, "gateway.go syncTCPRouteGateway skips a listener whose protocol is neither empty, TCP nor TLS (exactly these three `!=` tests)")
	la := c10Binaries(gw, c10Method(gw, "checkListenerAllowed"))
	addBool("c10NilAllowedRoutesRefused", has(la, "listener.AllowedRoutes == nil"),
		"gateway.go checkListenerAllowed tests `listener.AllowedRoutes == nil` (refuse)")
	ln := c10Binaries(gw, c10Method(gw, "checkListenerAllowedNamespace"))
	addBool("c10NilNamespacesRefused", has(ln, "namespaces == nil") && has(ln, "namespaces.From == nil"),
		"gateway.go checkListenerAllowedNamespace tests `namespaces == nil || namespaces.From == nil` (refuse)")
	sn := 0
	for _, fn := range []string{"syncHTTPRouteGateway", "syncTCPRouteGateway"} {
		for _, b := range c10Binaries(gw, c10Method(gw, fn)) {
			if b == "*sectionName != listener.Name" {
				sn++
			}
		}
	}
	addInt("c10SectionNameCompared", itoa(sn), "gateway.go sync{HTTP,TCP}RouteGateway: `*sectionName != listener.Name` filters")
	factsC10Facade()
}

// c10Calls: source text of the callee of every call expression inside n, in source (pre-)order;
// type conversions written as calls are included as they appear
func c10Calls(rel string, n ast.Node) []string {
	var res []string
	ast.Inspect(n, func(x ast.Node) bool {
		if c, ok := x.(*ast.CallExpr); ok {
			res = append(res, c10Src(rel, c.Fun))
		}
		return true
	})
	return res
}

// c10Returns: source text of the results of every return statement inside n, in source order
func c10Returns(rel string, n ast.Node) []string {
	var res []string
	ast.Inspect(n, func(x ast.Node) bool {
		if r, ok := x.(*ast.ReturnStmt); ok {
			var parts []string
			for _, e := range r.Results {
				parts = append(parts, c10Src(rel, e))
			}
			res = append(res, strings.Join(parts, ", "))
		}
		return true
	})
	return res
}

// factsC10Facade: the GatewayClass filter of the long-lived cache facade (pkg/controller/services/cache.go).
// The history theorems of Props/C10Hist.lean are about a facade whose isValidGateway answers from the
// GatewayClass objects of the CURRENT cluster; these facts pin the source shape that makes it so.
func factsC10Facade() {
	cf := "pkg/controller/services/cache.go"
	vg := c10Method(cf, "isValidGateway")
	addStrList("c10ValidGatewayCalls", c10Calls(cf, vg.Body),
		"cache.go isValidGateway: callee of every call, in source order (reads the GatewayClass first, on every call)")
	addStrList("c10ValidGatewayReturns", c10Returns(cf, vg.Body),
		"cache.go isValidGateway: results of every return statement, in source order")
	var stmts []string
	for _, st := range vg.Body.List {
		switch st.(type) {
		case *ast.AssignStmt:
			stmts = append(stmts, "assign")
		case *ast.IfStmt:
			stmts = append(stmts, "if")
		case *ast.ReturnStmt:
			stmts = append(stmts, "return")
		case *ast.ExprStmt:
			stmts = append(stmts, "expr")
		default:
			stmts = append(stmts, "other")
		}
	}
	addStrList("c10ValidGatewayStmts", stmts, "cache.go isValidGateway: kinds of the top-level statements of the body")
	var calls []string
	for _, c := range c10Calls(cf, c10Method(cf, "getGatewayClass").Body) {
		if !strings.HasPrefix(c, "(") { // conversions (*gatewayv1.GatewayClass)(&cl)
			calls = append(calls, c)
		}
	}
	addStrList("c10GetGatewayClassCalls", calls,
		"cache.go getGatewayClass: callee of every call but the pointer conversions (validates the API, then c.get in each of the three branches)")
	var gg, wr, cmps []string
	for _, sfx := range []string{"A2", "B1", ""} {
		gg = append(gg, c10Calls(cf, c10Method(cf, "GetGateway"+sfx).Body)...)
		wr = append(wr, c10Returns(cf, c10Method(cf, "IsValidGateway"+sfx).Body)...)
		cmps = append(cmps, c10Binaries(cf, c10Method(cf, "IsValidGatewayClass"+sfx).Body)...)
	}
	addStrList("c10GetGatewayCalls", gg, "cache.go GetGatewayA2/B1/(v1): callee of every call (client.Get of the Gateway, then IsValidGateway*)")
	addStrList("c10ValidGatewayWrappers", wr, "cache.go IsValidGatewayA2/B1/(v1): the returned expression (all three delegate to isValidGateway)")
	addStrList("c10ValidClassCmps", cmps, "cache.go IsValidGatewayClassA2/B1/(v1): the comparison each one returns")
	var fields []string
	for _, d := range load(cf).f.Decls {
		gd, ok := d.(*ast.GenDecl)
		if !ok {
			continue
		}
		for _, sp := range gd.Specs {
			ts, ok := sp.(*ast.TypeSpec)
			if !ok || ts.Name.Name != "c" {
				continue
			}
			if st, ok := ts.Type.(*ast.StructType); ok {
				for _, f := range st.Fields.List {
					if len(f.Names) == 0 {
						fields = append(fields, "embedded:"+c10Src(cf, f.Type))
					}
					for _, n := range f.Names {
						fields = append(fields, n.Name)
					}
				}
			}
		}
	}
	addStrList("c10FacadeFields", fields, "cache.go `type c struct`: field names of the cache facade (nothing that could remember a GatewayClass answer)")
}
