package main

func factsC10() {
}
