package main

import (
	"bytes"
	"go/ast"
	"go/printer"
	"go/token"
	"strings"
)

func c10Src(rel string, n ast.Node) string {
	var b bytes.Buffer
	_ = printer.Fprint(&b, load(rel).fset, n)
	return b.String()
}

// c10Binaries: source text of every binary expression with a comparison operator inside n
func c10Binaries(rel string, n ast.Node) []string {
	var res []string
	ast.Inspect(n, func(x ast.Node) bool {
		if b, ok := x.(*ast.BinaryExpr); ok && (b.Op == token.EQL || b.Op == token.NEQ) {
			res = append(res, c10Src(rel, b))
		}
		return true
	})
	return res
}

func c10Method(rel, name string) *ast.FuncDecl {
	for _, d := range load(rel).f.Decls {
		if fd, ok := d.(*ast.FuncDecl); ok && fd.Name.Name == name {
			return fd
		}
	}
	fail("%s: func %s not found", rel, name)
	return nil
}

func factsC10() {
	gw := "pkg/converters/gateway/gateway.go"
	// the finding: the converter never reads the listener protocol
	n := 0
	ast.Inspect(load(gw).f, func(x ast.Node) bool {
		if s, ok := x.(*ast.SelectorExpr); ok && s.Sel.Name == "Protocol" {
			n++
		}
		return true
	})
	addInt("c10ProtocolReads", itoa(n), "gateway.go: number of `<expr>.Protocol` selectors (listener protocol is never read)")
	// which variant of syncTCPRouteGateway: the comparisons on the listener protocol, in source order.
	// The repaired code has exactly: != "" && != TCPProtocolType && != TLSProtocolType (skip otherwise).
	var cmps []string
	for _, b := range c10Binaries(gw, c10Method(gw, "syncTCPRouteGateway")) {
		if strings.Contains(b, "listener.Protocol") {
			cmps = append(cmps, b)
		}
	}
	addStrList("c10TcpProtocolCmps", cmps, "gateway.go syncTCPRouteGateway: comparisons on `listener.Protocol`, in source order")
	want := []string{`listener.Protocol != ""`, "listener.Protocol != gatewayv1.TCPProtocolType", "listener.Protocol != gatewayv1.TLSProtocolType"}
	chk := len(cmps) == len(want)
	for i := range want {
		chk = chk && cmps[i] == want[i]
	}
	addBool("c10TcpProtocolChecked", chk, "gateway.go syncTCPRouteGateway skips a listener whose protocol is neither empty, TCP nor TLS (exactly these three `!=` tests)")
	la := c10Binaries(gw, c10Method(gw, "checkListenerAllowed"))
	addBool("c10NilAllowedRoutesRefused", has(la, "listener.AllowedRoutes == nil"),
		"gateway.go checkListenerAllowed tests `listener.AllowedRoutes == nil` (refuse)")
	ln := c10Binaries(gw, c10Method(gw, "checkListenerAllowedNamespace"))
	addBool("c10NilNamespacesRefused", has(ln, "namespaces == nil") && has(ln, "namespaces.From == nil"),
		"gateway.go checkListenerAllowedNamespace tests `namespaces == nil || namespaces.From == nil` (refuse)")
	sn := 0
	for _, fn := range []string{"syncHTTPRouteGateway", "syncTCPRouteGateway"} {
		for _, b := range c10Binaries(gw, c10Method(gw, fn)) {
			if b == "*sectionName != listener.Name" {
				sn++
			}
		}
	}
	addInt("c10SectionNameCompared", itoa(sn), "gateway.go sync{HTTP,TCP}RouteGateway: `*sectionName != listener.Name` filters")
}
