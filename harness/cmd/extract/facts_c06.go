package main

import (
	"go/ast"
)

func factsC06() {
	// ---- C06
	// sortIngress: tie break on namespace/name
	var ret []string
	ast.Inspect(funcDecl("pkg/converters/ingress/ingress.go", "sortIngress"), func(n ast.Node) bool {
		if r, ok := n.(*ast.ReturnStmt); ok && len(r.Results) == 1 {
			if b, ok := r.Results[0].(*ast.BinaryExpr); ok {
				ret = append(ret, c05Expr(b))
			}
		}
		return true
	})
	addStrList("c06SortIngressTieBreak", ret, "ingress.go sortIngress: second key of the order")
	// rebuildMatchFiles (repair 8cccd42): the keys of rawhosts are collected, sorted, and the sorted
	// slice is ranged over; a `range hm.rawhosts` that binds the value would bring Go's map order back
	var it []string
	ast.Inspect(methodDecl("pkg/haproxy/types/maps.go", "HostsMap", "rebuildMatchFiles").Body, func(n ast.Node) bool {
		switch v := n.(type) {
		case *ast.RangeStmt:
			x := c05Expr(v.X)
			if x == "hm.rawhosts" {
				if v.Value != nil {
					it = append(it, "range-values:"+x)
				} else {
					it = append(it, "range-keys:"+x)
				}
			}
			if x == "hostnames" {
				it = append(it, "range:"+x)
			}
		case *ast.CallExpr:
			if s := c05Expr(v); s == "sort.Strings(hostnames)" {
				it = append(it, s)
			}
		}
		return true
	})
	addStrList("c06RawhostsIteration", it, "maps.go rebuildMatchFiles: how the hosts of a map are iterated")
}
