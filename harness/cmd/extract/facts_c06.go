package main

func factsC06() {
}
