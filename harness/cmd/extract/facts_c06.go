package main

import (
	"go/ast"
)

func factsC06() {
	// ---- C06
	// sortIngress: tie break on namespace/name
	var ret []string
	ast.Inspect(funcDecl("pkg/converters/ingress/ingress.go", "sortIngress"), func(n ast.Node) bool {
		if r, ok := n.(*ast.ReturnStmt); ok && len(r.Results) == 1 {
			if b, ok := r.Results[0].(*ast.BinaryExpr); ok {
				ret = append(ret, c05Expr(b))
			}
		}
		return true
	})
	addStrList("c06SortIngressTieBreak", ret, "ingress.go sortIngress: second key of the order")
	// rebuildMatchFiles: the maps ranged over (iteration order reaches the layout of the match files)
	var rng []string
	ast.Inspect(methodDecl("pkg/haproxy/types/maps.go", "HostsMap", "rebuildMatchFiles").Body, func(n ast.Node) bool {
		if r, ok := n.(*ast.RangeStmt); ok {
			s := c05Expr(r.X)
			if s == "hm.rawhosts" {
				rng = append(rng, s)
			}
		}
		return true
	})
	addStrList("c06RawhostsRange", rng, "maps.go rebuildMatchFiles: range over the rawhosts map")
}
