package main

import (
	"go/ast"
)

func factsC06() {
	// ---- C06
	// sortIngress: tie break on namespace/name
	var ret []string
	ast.Inspect(funcDecl("pkg/converters/ingress/ingress.go", "sortIngress"), func(n ast.Node) bool {
		if r, ok := n.(*ast.ReturnStmt); ok && len(r.Results) == 1 {
			if b, ok := r.Results[0].(*ast.BinaryExpr); ok {
				ret = append(ret, c05Expr(b))
			}
		}
		return true
	})
	addStrList("c06SortIngressTieBreak", ret, "ingress.go sortIngress: second key of the order")
	// rebuildMatchFiles (repair 8cccd42): the keys of rawhosts are collected, sorted, and the sorted
	// slice is ranged over; a `range hm.rawhosts` that binds the value would bring Go's map order back
	var it []string
	ast.Inspect(methodDecl("pkg/haproxy/types/maps.go", "HostsMap", "rebuildMatchFiles").Body, func(n ast.Node) bool {
		switch v := n.(type) {
		case *ast.RangeStmt:
			x := c05Expr(v.X)
			if x == "hm.rawhosts" {
				if v.Value != nil {
					it = append(it, "range-values:"+x)
				} else {
					it = append(it, "range-keys:"+x)
				}
			}
			if x == "hostnames" {
				it = append(it, "range:"+x)
			}
		case *ast.CallExpr:
			if s := c05Expr(v); s == "sort.Strings(hostnames)" {
				it = append(it, s)
			}
		}
		return true
	})
	addStrList("c06RawhostsIteration", it, "maps.go rebuildMatchFiles: how the hosts of a map are iterated")
	// readConfigKeys (C06Ann): the annotations of ONE object under several prefixes.  The loop over the listed
	// prefixes is OUTSIDE, the range over the annotation map INSIDE, and the only write to keys[key] is guarded by
	// `!found` (the first writer keeps the key): with this shape the result cannot depend on Go's map order
	// (Props/C06Ann.lean readConfigKeys_perm); a range over the map outside needs bookkeeping per key.
	var loops, writes []string
	var walk func(ss []ast.Stmt, depth int, cond string)
	walk = func(ss []ast.Stmt, depth int, cond string) {
		for _, st := range ss {
			switch v := st.(type) {
			case *ast.RangeStmt:
				loops = append(loops, itoa(depth)+":range:"+c05Expr(v.X))
				walk(v.Body.List, depth+1, cond)
			case *ast.ForStmt:
				loops = append(loops, itoa(depth)+":for")
				walk(v.Body.List, depth+1, cond)
			case *ast.BlockStmt:
				walk(v.List, depth, cond)
			case *ast.IfStmt:
				walk(v.Body.List, depth, c05Expr(v.Cond))
				if v.Else != nil {
					walk([]ast.Stmt{v.Else}, depth, "else")
				}
			case *ast.AssignStmt:
				for i, l := range v.Lhs {
					if ix, ok := l.(*ast.IndexExpr); ok && c05Expr(ix.X) == "keys" {
						rhs := "?"
						if len(v.Rhs) == len(v.Lhs) {
							rhs = c05Expr(v.Rhs[i])
						}
						writes = append(writes, c05Expr(l)+"="+rhs+" if "+cond)
					}
				}
			}
		}
	}
	walk(methodDecl("pkg/converters/ingress/ingress.go", "converter", "readConfigKeys").Body.List, 0, "-")
	addStrList("c06ReadConfigKeysLoops", loops, "ingress.go readConfigKeys: loops with their nesting depth")
	addStrList("c06ReadConfigKeysWrites", writes, "ingress.go readConfigKeys: writes to keys[...] with the guarding condition")
}
