package main

func factsC15() {
}
