package main

import (
	"go/ast"
	"strings"
)

func factsC15() {
	// ---- C15
	cfg := "pkg/haproxy/config.go"
	// the first crt-list entry is the default certificate with the negative filter `!*`
	var dfl []string
	for _, s := range strLits(cfg, "WriteFrontendMaps") {
		if strings.Contains(s, "!*") {
			dfl = append(dfl, s)
		}
	}
	addStr("c15DefaultCrtLine", one(dfl, "default crt-list entry"), "config.go WriteFrontendMaps: default certificate entry suffix")
	// tls loop of syncIngressHTTP: first assignment wins
	var conds []string
	ast.Inspect(funcDecl("pkg/converters/ingress/ingress.go", "syncIngressHTTP"), func(n ast.Node) bool {
		if s, ok := n.(*ast.IfStmt); ok {
			c := c05Expr(s.Cond)
			if strings.Contains(c, "TLSHash") {
				conds = append(conds, c)
			}
		}
		return true
	})
	addStrList("c15TLSFirstWins", conds, "ingress.go syncIngressHTTP tls loop: assign only when no certificate was assigned yet")
	// repair c836d74: hosts covered by a wildcard host with its own certificate get their own line
	found := false
	ast.Inspect(funcDecl(cfg, "WriteFrontendMaps"), func(n ast.Node) bool {
		if c, ok := n.(*ast.CallExpr); ok && strings.HasSuffix(calleeName(c.Fun), "wildcardHasCustomCrt") {
			found = true
		}
		return true
	})
	addBool("c15WildcardRepair", found, "config.go WriteFrontendMaps calls wildcardHasCustomCrt (repair c836d74)")
}
