package main

import (
	"go/ast"
	"strings"
)

func factsC15() {
	// ---- C15
	cfg := "pkg/haproxy/config.go"
	// the first crt-list entry is the default certificate with the negative filter `!*`
	var dfl []string
	for _, s := range strLits(cfg, "WriteFrontendMaps") {
		if strings.Contains(s, "!*") {
			dfl = append(dfl, s)
		}
	}
	addStr("c15DefaultCrtLine", one(dfl, "default crt-list entry"), "config.go WriteFrontendMaps: default certificate entry suffix")
	// tls loop of syncIngressHTTP: first assignment wins
	var conds []string
	ast.Inspect(funcDecl("pkg/converters/ingress/ingress.go", "syncIngressHTTP"), func(n ast.Node) bool {
		if s, ok := n.(*ast.IfStmt); ok {
			c := c05Expr(s.Cond)
			if strings.Contains(c, "TLSHash") {
				conds = append(conds, c)
			}
		}
		return true
	})
	addStrList("c15TLSFirstWins", conds, "ingress.go syncIngressHTTP tls loop: assign only when no certificate was assigned yet")
	// repair c836d74: hosts covered by a wildcard host with its own certificate get their own line
	found := false
	ast.Inspect(funcDecl(cfg, "WriteFrontendMaps"), func(n ast.Node) bool {
		if c, ok := n.(*ast.CallExpr); ok && strings.HasSuffix(calleeName(c.Fun), "wildcardHasCustomCrt") {
			found = true
		}
		return true
	})
	addBool("c15WildcardRepair", found, "config.go WriteFrontendMaps calls wildcardHasCustomCrt (repair c836d74)")
	// ---- the running side (Model/C15Run.lean): what guards the `set ssl cert` of a changed certificate
	dyn := "pkg/haproxy/dynupdate.go"
	var guards, calls []string
	ast.Inspect(funcDecl(dyn, "checkHostPair"), func(n ast.Node) bool {
		switch v := n.(type) {
		case *ast.IfStmt:
			c := c05Expr(v.Cond)
			if strings.Contains(c, "TLSHash") || strings.Contains(c, "execUpdateCert") {
				guards = append(guards, c)
			}
		case *ast.CallExpr:
			if strings.HasSuffix(calleeName(v.Fun), "execUpdateCert") {
				calls = append(calls, c05Expr(v))
			}
		}
		return true
	})
	addStrList("c15CertPushGuard", guards, "dynupdate.go checkHostPair: the condition that guards the push of a changed certificate (same file, another hash, nothing else: no memo of what was sent)")
	addStrList("c15CertPushCalls", calls, "dynupdate.go checkHostPair: calls of execUpdateCert (the file pushed is the file of the host)")
	// state of one update that could remember what was sent: fields of dynUpdater
	var fields []string
	for _, d := range load(dyn).f.Decls {
		gd, ok := d.(*ast.GenDecl)
		if !ok {
			continue
		}
		for _, sp := range gd.Specs {
			ts, ok := sp.(*ast.TypeSpec)
			if !ok || ts.Name.Name != "dynUpdater" {
				continue
			}
			if st, ok := ts.Type.(*ast.StructType); ok {
				for _, f := range st.Fields.List {
					for _, n := range f.Names {
						fields = append(fields, n.Name)
					}
				}
			}
		}
	}
	addStrList("c15UpdaterFields", fields, "dynupdate.go `type dynUpdater struct`: field names (nothing that remembers which certificate was sent)")
	// `set ssl cert` names the FILE: the format strings of execUpdateCert
	var fm []string
	for _, s := range strLits(dyn, "execUpdateCert") {
		if strings.Contains(s, "ssl cert") && strings.Contains(s, "%s") {
			fm = append(fm, s)
		}
	}
	addStrList("c15SetSSLCertFormats", fm, "dynupdate.go execUpdateCert: `set ssl cert <filename> <<payload` and `commit ssl cert <filename>`")
}
