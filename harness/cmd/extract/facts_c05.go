package main

func factsC05() {
}
