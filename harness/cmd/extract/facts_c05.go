package main

import (
	"go/ast"
)

// c05Expr renders the few expression forms used by Backends.Clear (exprString of facts.go has no IndexExpr)
func c05Expr(e ast.Expr) string {
	switch v := e.(type) {
	case *ast.IndexExpr:
		return c05Expr(v.X) + "[" + c05Expr(v.Index) + "]"
	case *ast.CallExpr:
		s := c05Expr(v.Fun) + "("
		for i, a := range v.Args {
			if i > 0 {
				s += ","
			}
			s += c05Expr(a)
		}
		return s + ")"
	case *ast.BinaryExpr:
		return c05Expr(v.X) + v.Op.String() + c05Expr(v.Y)
	case *ast.UnaryExpr:
		return v.Op.String() + c05Expr(v.X)
	case *ast.SelectorExpr:
		return c05Expr(v.X) + "." + v.Sel.Name
	case *ast.Ident:
		return v.Name
	case *ast.BasicLit:
		return v.Value
	}
	return "?"
}

func factsC05() {
	// ---- C05
	bk := "pkg/haproxy/types/backends.go"
	// Backends.Clear: which shards are inspected and which object is flagged
	var rng, cond []string
	var flagged []string
	ast.Inspect(methodDecl(bk, "Backends", "Clear").Body, func(n ast.Node) bool {
		switch v := n.(type) {
		case *ast.RangeStmt:
			rng = append(rng, c05Expr(v.X))
		case *ast.IfStmt:
			cond = append(cond, c05Expr(v.Cond))
		case *ast.CallExpr:
			if s := calleeName(v.Fun); len(s) > 0 {
				if sel, ok := v.Fun.(*ast.SelectorExpr); ok && sel.Sel.Name == "backendShardChanged" {
					flagged = append(flagged, s)
				}
			}
		}
		return true
	})
	addStrList("c05ClearRange", rng, "Backends.Clear: expression(s) ranged over (the shards inspected)")
	addStrList("c05ClearCond", cond, "Backends.Clear: condition(s) under which a shard is flagged")
	addStrList("c05ClearFlagCalls", flagged, "Backends.Clear: backendShardChanged calls (receiver = the object flagged)")
	addStrList("c05ClearAssigns", methodAssigns(bk, "Backends", "Clear"), "Backends.Clear: selector assignments")
	// Shrink restores the DELETED object and recomputes changedShards from itemsAdd/itemsDel
	addStrList("c05ShrinkCalls", methodCalls(bk, "Backends", "Shrink"), "selector calls inside Backends.Shrink, in source order")
	addStrList("c05CommitAssigns", methodAssigns(bk, "Backends", "Commit"), "Backends.Commit: selector assignments")
	// update cycle: Shrink before the writes, Commit deferred, backend files = ChangedShards only
	keep := map[string]bool{"i.config.Commit": true, "i.config.Shrink": true, "i.writeConfig": true,
		"i.config.WriteFrontendMaps": true, "i.config.WriteBackendMaps": true, "i.config.WriteTCPServicesMaps": true,
		"i.writeCrtLists": true, "i.config.SyncConfig": true}
	var upd []string
	for _, c := range methodCalls("pkg/haproxy/instance.go", "instance", "HAProxyUpdate") {
		if keep[c] {
			upd = append(upd, c)
		}
	}
	addStrList("c05UpdateCalls", upd, "instance.HAProxyUpdate: config/writer calls in source order (Commit is deferred)")
	// the gate in front of writeConfig
	var gate []string
	ast.Inspect(methodDecl("pkg/haproxy/instance.go", "instance", "HAProxyUpdate").Body, func(n ast.Node) bool {
		if v, ok := n.(*ast.IfStmt); ok {
			direct := false
			for _, st := range v.Body.List {
				ast.Inspect(st, func(m ast.Node) bool {
					if _, ok := m.(*ast.IfStmt); ok {
						return false
					}
					if c, ok := m.(*ast.CallExpr); ok && calleeName(c.Fun) == "i.writeConfig" {
						direct = true
					}
					return true
				})
			}
			if direct {
				gate = append(gate, c05Expr(v.Cond))
			}
		}
		return true
	})
	addStrList("c05WriteConfigGate", gate, "instance.HAProxyUpdate: condition under which writeConfig is called")
	var wr []string
	for _, c := range methodCalls("pkg/haproxy/instance.go", "instance", "writeConfig") {
		switch c {
		case "i.haproxyTmpl.Write", "i.haproxyTmpl.WriteOutput", ".ChangedShards", ".BuildSortedShard", ".BuildSortedItems":
			wr = append(wr, c)
		}
	}
	addStrList("c05WriteConfigCalls", wr, "instance.writeConfig: main file then ChangedShards()/BuildSortedShard per shard file")
	addStrList("c05WriteConfigCmps", binaryCmps("pkg/haproxy/instance.go", "writeConfig"), "instance.writeConfig: comparisons against literals (BackendShards > 0 gate)")
	// frontend maps guard
	var fm []string
	ast.Inspect(methodDecl("pkg/haproxy/config.go", "config", "WriteFrontendMaps").Body, func(n ast.Node) bool {
		if v, ok := n.(*ast.IfStmt); ok && len(fm) == 0 {
			fm = append(fm, c05Expr(v.Cond))
		}
		return true
	})
	addStrList("c05FrontendMapsGuard", fm, "config.WriteFrontendMaps: first guard (skip when maps exist and hosts are clean)")
	// what WriteFrontendMaps writes behind that single guard: the crt-list of the frontend, then every map,
	// and only then the link `frontend.Maps` (left nil by a failed write: the next call is not skipped)
	var fw []string
	ast.Inspect(methodDecl("pkg/haproxy/config.go", "config", "WriteFrontendMaps").Body, func(n ast.Node) bool {
		switch v := n.(type) {
		case *ast.CallExpr:
			if s := c05Expr(v.Fun); s == "writeMaps" || s == "c.options.mapsTemplate.WriteOutput" {
				arg := ""
				if len(v.Args) > 1 {
					arg = c05Expr(v.Args[1])
				}
				fw = append(fw, s+"("+arg+")")
			}
		case *ast.AssignStmt:
			if len(v.Lhs) == 1 && len(v.Rhs) == 1 && c05Expr(v.Lhs[0]) == "c.frontend.Maps" {
				fw = append(fw, "c.frontend.Maps="+c05Expr(v.Rhs[0]))
			}
		}
		return true
	})
	addStrList("c05FrontendMapsWrites", fw, "config.WriteFrontendMaps: file writes and the Maps link, in source order")
	// writeCrtLists: no changed-guard, one crt-list per tcp port that has TLS
	var cl []string
	ast.Inspect(methodDecl("pkg/haproxy/instance.go", "instance", "writeCrtLists").Body, func(n ast.Node) bool {
		switch v := n.(type) {
		case *ast.IfStmt:
			cl = append(cl, "if:"+c05Expr(v.Cond))
		case *ast.RangeStmt:
			cl = append(cl, "range:"+c05Expr(v.X))
		case *ast.CallExpr:
			if s := c05Expr(v.Fun); s == "i.crtlistTmpl.WriteOutput" {
				cl = append(cl, s)
			}
		}
		return true
	})
	addStrList("c05CrtListsShape", cl, "instance.writeCrtLists: loop, conditions and the write, in source order")
	// a requested write is attempted: template.writeToDisk returns nil only after os.WriteFile
	var ret []string
	ast.Inspect(methodDecl("pkg/haproxy/template/template.go", "template", "writeToDisk").Body, func(n ast.Node) bool {
		if r, ok := n.(*ast.ReturnStmt); ok && len(r.Results) == 1 {
			if c, ok := r.Results[0].(*ast.CallExpr); ok {
				ret = append(ret, c05Expr(c.Fun))
			} else {
				ret = append(ret, c05Expr(r.Results[0]))
			}
		}
		return true
	})
	addStrList("c05WriteToDiskReturns", ret, "template.writeToDisk: return statements in source order (a single `return nil`, the last one)")
	// WriteBackendMaps: the per-backend condition and the files of one backend
	var bmc []string
	ast.Inspect(methodDecl("pkg/haproxy/config.go", "config", "WriteBackendMaps").Body, func(n ast.Node) bool {
		switch v := n.(type) {
		case *ast.RangeStmt:
			bmc = append(bmc, "range:"+c05Expr(v.X))
		case *ast.IfStmt:
			bmc = append(bmc, "if:"+c05Expr(v.Cond))
		}
		return true
	})
	addStrList("c05BackendMapsShape", bmc, "config.WriteBackendMaps: loops and conditions in source order")
	// the dynamic updater changes stored backends in place (Model/C05Align.lean): alignSlots walks Items(), both
	// loops that append a slot raise `changed`, and `changed` alone decides BackendChanged(back)
	du := "pkg/haproxy/dynupdate.go"
	var al []string
	ast.Inspect(methodDecl(du, "dynUpdater", "alignSlots").Body, func(n ast.Node) bool {
		switch v := n.(type) {
		case *ast.RangeStmt:
			al = append(al, "range:"+c05Expr(v.X))
		case *ast.ForStmt:
			if v.Cond != nil {
				al = append(al, "for:"+c05Expr(v.Cond))
			}
		case *ast.AssignStmt:
			if len(v.Lhs) == 1 && len(v.Rhs) == 1 && c05Expr(v.Lhs[0]) == "changed" {
				al = append(al, "changed"+v.Tok.String()+c05Expr(v.Rhs[0]))
			}
		case *ast.IfStmt:
			for _, st := range v.Body.List {
				if e, ok := st.(*ast.ExprStmt); ok {
					if c, ok := e.X.(*ast.CallExpr); ok && c05Expr(c.Fun) == "backends.BackendChanged" {
						al = append(al, "if:"+c05Expr(v.Cond)+":"+c05Expr(c))
					}
				}
			}
		case *ast.CallExpr:
			if c05Expr(v.Fun) == "back.AddEmptyEndpoint" {
				al = append(al, "back.AddEmptyEndpoint")
			}
		}
		return true
	})
	addStrList("c05AlignSlotsShape", al, "dynUpdater.alignSlots: the walk, the two slot loops with their `changed` flag, the condition of BackendChanged")
	var du2 []string
	ast.Inspect(methodDecl(du, "dynUpdater", "update").Body, func(n ast.Node) bool {
		switch v := n.(type) {
		case *ast.AssignStmt:
			if len(v.Lhs) == 1 && len(v.Rhs) == 1 {
				du2 = append(du2, c05Expr(v.Lhs[0])+v.Tok.String()+c05Expr(v.Rhs[0]))
			}
		case *ast.IfStmt:
			du2 = append(du2, "if:"+c05Expr(v.Cond))
		case *ast.ExprStmt:
			if c, ok := v.X.(*ast.CallExpr); ok {
				du2 = append(du2, c05Expr(c))
			}
		}
		return true
	})
	addStrList("c05DynUpdateShape", du2, "dynUpdater.update: pairs are only looked at on committed data; alignSlots iff a reload is due")
}
