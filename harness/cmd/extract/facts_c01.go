package main

func factsC01() {
}
