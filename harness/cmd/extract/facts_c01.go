package main

import (
	"go/ast"
	"strings"
)

// c01TrackCalls: every tracker call (c.tracker.X / t.X on the tracker) inside a converter method, source
// order, as "callee(arg,arg,...)" with the arguments rendered by exprString (composite literals as "?").
func c01TrackCalls(rel, recv, name string) []string {
	var res []string
	ast.Inspect(methodDecl(rel, recv, name).Body, func(n ast.Node) bool {
		c, ok := n.(*ast.CallExpr)
		if !ok {
			return true
		}
		callee := calleeName(c.Fun)
		if !strings.HasPrefix(callee, "c.tracker.") {
			return true
		}
		args := make([]string, len(c.Args))
		for i, a := range c.Args {
			args[i] = exprString(a)
		}
		res = append(res, strings.TrimPrefix(callee, "c.tracker.")+"("+strings.Join(args, ",")+")")
		return true
	})
	return res
}

func factsC01() {
	// ---- C01: the tracking calls of the ingress converter the model mirrors, and the tracker recursion
	ing := "pkg/converters/ingress/ingress.go"
	for _, m := range []struct{ fn, name, doc string }{
		{"syncPartial", "c01TrackSyncPartial", "ingress.go syncPartial: tracker calls"},
		{"trackAddedIngress", "c01TrackAdded", "ingress.go trackAddedIngress: tracker calls (pre-tracking of added/updated ingresses)"},
		{"addHost", "c01TrackAddHost", "ingress.go addHost: tracker calls"},
		{"addBackendWithClass", "c01TrackAddBackend", "ingress.go addBackendWithClass: tracker calls (service/endpoints -> host first, then ingress -> backend)"},
		{"addDefaultHostBackend", "c01TrackDefaultBackend", "ingress.go addDefaultHostBackend: tracker calls (loser tracks the host; error tracks the service)"},
		{"trackSkippedService", "c01TrackSkipped", "ingress.go trackSkippedService: tracker calls (ingress -> service always, ingress -> backend when resolved)"},
		{"readIngressClass", "c01TrackClass", "ingress.go readIngressClass: tracker calls"},
		{"addTCPService", "c01TrackTCP", "ingress.go addTCPService: tracker calls"},
	} {
		addStrList(m.name, c01TrackCalls(ing, "converter", m.fn), m.doc)
	}
	// callers of the skipped-declaration tracking
	var skipCallers []string
	for _, fn := range []string{"syncIngressHTTP", "syncIngressTCP", "addDefaultHostBackend"} {
		for _, c := range methodCalls(ing, "converter", fn) {
			if c == "c.trackSkippedBackend" || c == "c.trackSkippedService" {
				skipCallers = append(skipCallers, fn+":"+c)
			}
		}
	}
	addStrList("c01SkippedCallers", skipCallers, "call sites of trackSkippedBackend / trackSkippedService")
	// converters.Sync: a full sync clears the tracker and the haproxy model
	addStrList("c01SyncCalls", func() []string {
		var res []string
		for _, c := range methodCalls("pkg/converters/converters.go", "converters", "Sync") {
			if c == "c.options.Tracker.ClearLinks" || c == "c.haproxy.Clear" || c == "ingressConverter.Sync" || c == "ingressConverter.NeedFullSync" {
				res = append(res, c)
			}
		}
		return res
	}(), "converters.go Sync: NeedFullSync, ClearLinks + haproxy.Clear, then the ingress converter")
	// tracker.go: the recursion of removeRef and of QueryLinks' updateOutput
	tr := "pkg/converters/tracker/tracker.go"
	addStrList("c01RemoveRefCalls", methodCalls(tr, "tracker", "removeRef"), "tracker.go removeRef: selector calls (the recursive call)")
	var q []string
	for _, c := range methodCalls(tr, "tracker", "QueryLinks") {
		if c == "t.removeRef" || c == "sort.Strings" {
			q = append(q, c)
		}
	}
	addStrList("c01QueryLinksCalls", q, "tracker.go QueryLinks: removeRef on every output id, sorted output")
	addStrList("c01TrackRefsCalls", methodCalls(tr, "tracker", "TrackRefs"), "tracker.go TrackRefs: both directions are stored")
}
