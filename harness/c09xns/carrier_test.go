//go:build verif

// Reference sites on a CARRIER that is reached through a reference (property C09).
//
// The `site` lines of c09_test.go put the annotation on an Ingress of namespace a or on the Service
// that Ingress routes to: the object that references the annotated Service lives in the Service's own
// namespace. Here the annotated Service of namespace a is reached by a reference whose source does
// NOT live in namespace a:
//
//	db      --default-backend-service=a/svc (ConverterOptions.DefaultBackend): the referencing source
//	        is the command line, its namespace is EMPTY (the cache reads an empty default namespace as
//	        "global configuration, nothing to deny");
//	authsvc `auth-url: svc://a/authsvc:8080/auth` on Ingress c/ing of namespace c (reaches the Service
//	        only while cross-namespace-services = allow): ingress.go pre-builds backend a_authsvc_8080
//	        and reads the annotations of Service a/authsvc;
//	gw      HTTPRoute a/rt backendRefs -> Service a/svc (converter.ReadAnnotations; the same namespace
//	        by construction: gateway.go ignores backendRef.namespace and there is no ReferenceGrant).
//
// The annotations of the carrier must be resolved in the CARRIER's namespace, whoever references it:
// a bare name is a's object, `b/x` (a third namespace) and `c/x` (the referencer's namespace) are
// denied while the key of the kind is deny. Two worlds (with / without the Secrets of the site's kind -
// or Service authsvc - of namespaces b and c), read log, dump of namespace a's backends.
//
// Case line:  C09 carrier <route> <site> <form> <static+bits4> <fu> => t=..;r=..;u=..;b=.. | PANIC
package c09xns

import (
	"context"
	"fmt"
	"os"
	"path/filepath"
	"sort"
	"strings"

	api "k8s.io/api/core/v1"
	networking "k8s.io/api/networking/v1"
	"sigs.k8s.io/controller-runtime/pkg/client"

	convtypes "github.com/jcmoraisjr/haproxy-ingress/pkg/converters/types"

	"hapverif/xnsworld"
)

type carrierCase struct {
	route string // db | authsvc | gw
	site  string // securecrt secureca authsecret authurl (the keys of backend scope: what is read from a Service)
	form  string // n own other ref file fileb secother secown secn secref
	set   string // static + crt ca pw svc
	fu    string // 0 first reconciliation; 1 namespace b converted first, the reference appears later (partial sync); 2 every key allow, then the ConfigMap changed; 3 ... emptied
}

func (cc carrierCase) args() string {
	return strings.Join([]string{"carrier", cc.route, cc.site, cc.form, cc.set, cc.fu}, " ")
}

func (cc carrierCase) carrierName() string {
	if cc.route == "authsvc" {
		return "authsvc"
	}
	return "svc"
}

// the value written on the carrier: the forms of siteValue + the REFERENCER's namespace (c)
func carrierValue(cc carrierCase, dir string) string {
	k := siteKind(cc.site)
	switch cc.form {
	case "ref":
		if k == "svc" {
			return "svc://c/authsvc:8080/auth"
		}
		return "c/" + k
	case "secref":
		if k == "svc" {
			return ""
		}
		return "secret://c/" + k
	}
	return siteValue(siteCase{site: cc.site, form: cc.form}, dir)
}

func carrierAnnotations(cc carrierCase, dir string) map[string]string {
	sc := siteCase{site: cc.site, form: cc.form}
	ann := siteAnnotations(sc, dir)
	v := carrierValue(cc, dir)
	for k := range ann {
		if k != pfx+"secure-backends" && k != pfx+"auth-external-placement" {
			ann[k] = v
		}
	}
	return ann
}

var carrierSites = []string{"securecrt", "secureca", "authsecret", "authurl"}
var carrierRoutes = []string{"db", "authsvc", "gw"}

func carrierForms(site string) []string {
	switch siteKind(site) {
	case "svc":
		return []string{"n", "own", "other", "ref"}
	case "pw":
		return []string{"n", "own", "other", "ref", "file", "secother", "secown", "secn", "secref"}
	}
	return []string{"n", "own", "other", "ref", "file", "fileb", "secother", "secown", "secn", "secref"}
}

// runCarrier builds one world and converts it. withForeign=false removes the foreign objects the
// carrier's annotation could name: the Secret of the site's kind (or Service authsvc) of namespaces b AND c.
func runCarrier(cc carrierCase, withForeign bool) (res siteResult) {
	env := xnsworld.NewEnv(xnsworld.Settings{AllowCrossNS: cc.set[0] == '1', GatewayV1: cc.route == "gw"})
	defer env.Close()
	if cc.route == "db" {
		env.Opts.DefaultBackend = "a/svc"
	}
	ctx := context.Background()
	p := xnsworld.GetPEMs()
	kind := siteKind(cc.site)
	must(os.WriteFile(filepath.Join(env.Dir, "local-crt"), append(append([]byte{}, p.Crt...), p.Key...), 0o600))
	must(os.WriteFile(filepath.Join(env.Dir, "local-ca"), p.CA, 0o600))
	must(os.WriteFile(filepath.Join(env.Dir, "local-pw"), []byte("userf:pass\n"), 0o600))
	add := func(objs ...client.Object) {
		for _, o := range objs {
			must(env.Cli.Create(ctx, o))
		}
	}
	var late []client.Object // what appears after namespace b was converted (fu = 1)
	var lateSvc *api.Service
	for _, ns := range []string{"a", "b", "c"} {
		foreign := ns != "a"
		if !(foreign && !withForeign && kind == "crt") {
			add(secret(ns, "crt", map[string][]byte{"tls.crt": p.Crt, "tls.key": p.Key}))
		}
		if !(foreign && !withForeign && kind == "ca") {
			add(secret(ns, "ca", map[string][]byte{"ca.crt": p.CA}))
		}
		if !(foreign && !withForeign && kind == "pw") {
			add(secret(ns, "pw", map[string][]byte{"auth": []byte("user" + ns + ":pass\n")}))
		}
		for _, name := range []string{"svc", "authsvc"} {
			if name == "authsvc" && foreign && !withForeign && kind == "svc" {
				continue
			}
			s, e := service(ns, name)
			if ns == "a" && name == cc.carrierName() {
				s.Annotations = carrierAnnotations(cc, env.Dir)
				if cc.route == "db" {
					// the Service named by the command line is created after the controller started
					late = append(late, s, e)
					lateSvc = s
					continue
				}
			}
			add(s, e)
		}
	}
	cm := map[string]string{}
	for i, k := range cmKeys {
		if cc.set[i+1] == '1' {
			cm[k] = "allow"
		} else {
			cm[k] = "deny"
		}
	}
	// namespace b's own, legitimate use of its own objects (converted first when fu = 1)
	crtName := "crt"
	bAnn := map[string]string{
		pfx + "auth-secret":             "pw",
		pfx + "auth-tls-secret":         "ca",
		pfx + "secure-backends":         "true",
		pfx + "secure-crt-secret":       "crt",
		pfx + "secure-verify-ca-secret": "ca",
	}
	if cc.form == "secn" {
		bAnn[pfx+"auth-secret"] = "secret://pw"
		bAnn[pfx+"auth-tls-secret"] = "secret://ca"
		bAnn[pfx+"secure-crt-secret"] = "secret://crt"
		bAnn[pfx+"secure-verify-ca-secret"] = "secret://ca"
	}
	bTLS := &crtName
	if cc.route == "gw" && cc.form != "fileb" {
		// a Gateway change asks for a full sync, which converts b's ingress again in the same
		// reconciliation: keep the Secret of the site's kind out of b's own ingress so that a read of it
		// is the carrier's (see runSite)
		switch kind {
		case "crt":
			delete(bAnn, pfx+"secure-crt-secret")
			bTLS = nil
		case "ca":
			delete(bAnn, pfx+"auth-tls-secret")
			delete(bAnn, pfx+"secure-verify-ca-secret")
		case "pw":
			delete(bAnn, pfx+"auth-secret")
		}
	}
	bIng := ingress("b", "ing", "b.local", "authsvc", bAnn, bTLS)
	var refIng *networking.Ingress
	switch cc.route {
	case "authsvc":
		// the referencing Ingress lives in namespace c and uses nothing but the auth-url
		refIng = ingress("c", "ing", "c.local", "svc", map[string]string{pfx + "auth-url": "svc://a/authsvc:8080/auth"}, nil)
		late = append(late, refIng)
	case "gw":
		// Gateway a/gw (HTTPS listener with namespace a's own certificate) and HTTPRoute a/rt -> Service a/svc
		late = append(late, gatewayObjs("crt", "")...)
	}

	defer func() {
		if r := recover(); r != nil {
			res.panic = true
			res.log = append(env.Logger.Lines, fmt.Sprint(r))
		}
	}()
	switch cc.fu {
	case "2", "3":
		allow := map[string]string{}
		for _, k := range cmKeys {
			allow[k] = "allow"
		}
		add(late...)
		env.Sync(&convtypes.ChangedObjects{GlobalConfigMapDataNew: allow})
		env.Commit()
		env.Cli.Reads()
		if cc.fu == "3" {
			cm = map[string]string{}
		}
		env.Sync(&convtypes.ChangedObjects{GlobalConfigMapDataCur: allow, GlobalConfigMapDataNew: cm,
			Links:   convtypes.TrackingLinks{convtypes.ResourceConfigMap: []string{"ingress-controller/haproxy-ingress"}},
			Objects: []string{"update/ConfigMap:ingress-controller/haproxy-ingress"}})
	case "1":
		add(bIng)
		env.Sync(&convtypes.ChangedObjects{GlobalConfigMapDataNew: cm})
		env.Commit()
		env.Cli.Reads()
		add(late...)
		switch cc.route {
		case "db":
			// the default backend was tracked although its Service could not be read: the new Service
			// starts a partial sync that builds it
			env.Sync(&convtypes.ChangedObjects{
				GlobalConfigMapDataCur: cm,
				ServicesAdd:            []*api.Service{lateSvc},
				Links:                  convtypes.TrackingLinks{convtypes.ResourceService: []string{"a/svc"}, convtypes.ResourceEndpoints: []string{"a/svc"}},
				Objects:                []string{"add/Service:a/svc", "add/Endpoints:a/svc"},
			})
		case "gw":
			env.Sync(&convtypes.ChangedObjects{GlobalConfigMapDataCur: cm, NeedFullSync: true,
				Links:   convtypes.TrackingLinks{convtypes.ResourceGateway: []string{"a/gw"}},
				Objects: []string{"add/Gateway:a/gw"}})
		default:
			env.Sync(&convtypes.ChangedObjects{
				GlobalConfigMapDataCur: cm,
				IngressesAdd:           []*networking.Ingress{refIng},
				Links:                  convtypes.TrackingLinks{convtypes.ResourceIngress: []string{"c/ing"}},
				Objects:                []string{"add/Ingress:c/ing"},
			})
		}
	default:
		add(late...)
		env.Cli.Reads()
		env.Sync(&convtypes.ChangedObjects{GlobalConfigMapDataNew: cm})
	}
	wantKind := "Secret"
	if kind == "svc" {
		wantKind = "Service"
	}
	for _, r := range env.Cli.Reads() {
		// an object of the site's kind outside the carrier's namespace
		if r.Verb == "get" && r.Kind == wantKind && r.NS != "a" {
			if (kind == "svc" && r.Name == "authsvc") || (kind != "svc" && r.Name == kind) {
				res.readFor = true
			}
		}
	}
	if cc.route == "gw" && (cc.form == "fileb" || (kind == "svc" && cc.fu == "1")) {
		// the Gateway's full sync converts b's own ingress again: with form fileb b's ingress has to use
		// its Secret (the controller's copy must exist), and b's ingress routes to Service b/authsvc (its
		// backend is what an allowed auth-url finds); these reads are b's own and are not attributed.
		// fu = 0 / 2 have no ingress of namespace b: there every read is attributed.
		res.readFor = false
	}
	res.dyn = dynStr(env.Dyn)
	res.dump, res.target = dumpCarrier(env, cc)
	res.log = env.Logger.Lines
	return res
}

// whose object is behind a file name: namespace a = own, namespaces b and c = foreign
func classifyCarrier(env *xnsworld.Env, rel string) string {
	switch {
	case strings.Contains(rel, "/c_") || strings.Contains(rel, "/ca_c_") || strings.HasPrefix(rel, "c_"):
		return "foreign"
	}
	return classify(env, rel)
}

// dumpCarrier: every backend of namespace a (server TLS settings, every path with its userlist and
// external authentication), the default backend when it is namespace a's, and the target of the site
// on the carrier's backend.
func dumpCarrier(env *xnsworld.Env, cc carrierCase) (dump, target string) {
	var sb strings.Builder
	target = "none"
	authTarget := func(name string) string {
		if name == "" {
			return "-"
		}
		for _, bind := range env.HCfg.Frontend().AuthProxy.BindList {
			if bind.AuthBackendName == name {
				return bind.Backend.String()
			}
		}
		return "?" + name
	}
	carrierID := "a_" + cc.carrierName() + "_8080"
	if cc.route == "gw" {
		carrierID = "a_rt__rule0"
	}
	var ids []string
	for id, b := range env.HCfg.Backends().Items() {
		if b.Namespace == "a" {
			ids = append(ids, id)
		}
	}
	sort.Strings(ids)
	for _, id := range ids {
		b := env.HCfg.Backends().Items()[id]
		fmt.Fprintf(&sb, "backend %s secure=%v crt=%s ca=%s crl=%s;", id, b.Server.Secure, env.Rel(b.Server.CrtFilename), env.Rel(b.Server.CAFilename), env.Rel(b.Server.CRLFilename))
		if id == carrierID {
			switch cc.site {
			case "securecrt":
				target = classifyCarrier(env, env.Rel(b.Server.CrtFilename))
			case "secureca":
				target = classifyCarrier(env, env.Rel(b.Server.CAFilename))
			}
		}
		var lines []string
		for _, bp := range b.Paths {
			tg := authTarget(bp.AuthExternal.AuthBackendName)
			var us []string
			if ul := env.HCfg.Userlists().Find(bp.AuthHTTP.UserlistName); ul != nil {
				for _, u := range ul.Users {
					us = append(us, u.Name)
				}
			}
			users := strings.Join(us, ",")
			lines = append(lines, fmt.Sprintf("path %s%s userlist=%s users=%s realm=%s authext deny=%v to=%s path=%s;", bp.Hostname(), bp.Path(),
				strings.ReplaceAll(bp.AuthHTTP.UserlistName, env.Dir, "$DIR"), users, bp.AuthHTTP.Realm, bp.AuthExternal.AlwaysDeny, tg, bp.AuthExternal.AuthPath))
			if id != carrierID {
				continue
			}
			switch cc.site {
			case "authsecret":
				switch users {
				case "usera":
					target = "own"
				case "userb", "userc":
					target = "foreign"
				case "userf":
					target = "file"
				case "":
					target = "none"
				default:
					target = "?" + users
				}
			case "authurl":
				tgt := strings.TrimPrefix(tg, "-")
				target = classifyCarrier(env, tgt)
			}
		}
		sort.Strings(lines)
		sb.WriteString(strings.Join(lines, ""))
	}
	if def := env.HCfg.Backends().DefaultBackend; def != nil && def.Namespace == "a" {
		fmt.Fprintf(&sb, "default=%s;", def.ID)
	}
	return sb.String(), target
}

func emitCarrier(cc carrierCase) { submit(func() caseOut { return computeCarrier(cc) }) }

func computeCarrier(cc carrierCase) caseOut {
	w1 := runCarrier(cc, true)
	w0 := runCarrier(cc, false)
	var impl string
	if w1.panic || w0.panic {
		impl = "PANIC"
	} else {
		impl = "t=" + w1.target + ";r=" + b2s(w1.readFor) + ";u=" + b2s(w1.dump != w0.dump) + ";b=" + w1.dyn
	}
	return caseOut{cc.args(), impl, verboseText(w1.dump, w0.dump, w1.log),
		[]string{"carrier", "carrier_" + cc.route, "carrier_" + cc.route + "_" + cc.site + "_" + strings.SplitN(impl, ";", 2)[0]}}
}

// corpus of the carrier routes. Seed C09f resolved the annotations of the Service in the context of
// whoever references it: the empty namespace of the command-line source, or the namespace of the
// Ingress whose auth-url names the Service.
func carrierCorpus() {
	// --default-backend-service: a foreign name is denied, a bare name is the Service's namespace
	emitCarrier(carrierCase{"db", "securecrt", "other", "00000", "0"})
	emitCarrier(carrierCase{"db", "secureca", "other", "00000", "0"})
	emitCarrier(carrierCase{"db", "securecrt", "n", "00000", "0"})
	emitCarrier(carrierCase{"db", "secureca", "secother", "00000", "1"})
	emitCarrier(carrierCase{"db", "securecrt", "other", "00000", "2"})
	emitCarrier(carrierCase{"db", "securecrt", "other", "01111", "0"})
	// auth-url of namespace c reaches Service a/authsvc (services = allow): the referencer's namespace is
	// foreign to the Service's annotations, a bare name is the Service's namespace
	emitCarrier(carrierCase{"authsvc", "securecrt", "ref", "00001", "0"})
	emitCarrier(carrierCase{"authsvc", "secureca", "ref", "00001", "1"})
	emitCarrier(carrierCase{"authsvc", "securecrt", "n", "00001", "0"})
	emitCarrier(carrierCase{"authsvc", "securecrt", "other", "00001", "0"})
	emitCarrier(carrierCase{"authsvc", "securecrt", "ref", "00000", "0"})
	// Gateway API backendRefs
	emitCarrier(carrierCase{"gw", "securecrt", "other", "00000", "0"})
	emitCarrier(carrierCase{"gw", "authsecret", "other", "00000", "0"})
}

// every route x site x form; quick: every setting on the first reconciliation, the other histories on
// the settings that differ in the site's own bit / all / none; thorough: the full product
func carrierCases(thorough bool) {
	for _, route := range carrierRoutes {
		for _, site := range carrierSites {
			own := map[string]int{"crt": 1, "ca": 2, "pw": 3, "svc": 4}[siteKind(site)]
			for _, form := range carrierForms(site) {
				for _, set := range allSettings() {
					for _, fu := range []string{"0", "1", "2"} {
						if !thorough && fu != "0" {
							// all deny, all allow, only the own bit, everything but the own bit (each with services
							// allowed as well: the authsvc route reaches the carrier only then)
							b := []byte(set)
							rest := byte('0')
							for i := 1; i <= 3; i++ {
								if i != own && b[i] == '1' {
									rest = '1'
								}
							}
							uniform := true
							for i := 1; i <= 3; i++ {
								if i != own && b[i] != rest {
									uniform = false
								}
							}
							if !uniform || b[0] == '1' {
								continue
							}
						}
						emitCarrier(carrierCase{route, site, form, set, fu})
					}
					if set[1:] == "0000" {
						emitCarrier(carrierCase{route, site, form, set, "3"})
					}
				}
			}
		}
	}
}
