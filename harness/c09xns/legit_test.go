//go:build verif

package c09xns

// `legit` cases (after seed C09g): the foreign secret is ALSO used, legitimately, by an object of its own
// namespace b through the same kind of site, and that reader is converted in the same sync as (before /
// after) the referencing object of namespace a, or in a separate sync.
//
//	C09 legit <site> <src> <form> <static+bits4> <ord> <hist> => t=<own|foreign|file|none>;r=<0|1>;u=<0|1>;b=<bits4> | PANIC
//
// site/src/form/settings as in `site` lines (secret-reading sites; forms without file://).
// ord : creation time of namespace b's readers relative to namespace a's object: e earlier, l later,
//       s the same (sortIngress / the Gateway route sort then compare namespace/name: a's object first).
// hist: f  one full sync converts everything;
//       pa b's readers are converted by a first full sync, a's object is added by a partial sync
//          (gwcert: a full sync, Gateway API changes always ask for one);
//       pb a's object is converted by a first full sync, b's readers are added by a partial sync;
//       pj a first full sync without them, then ONE partial sync adds a's object and b's readers.
// Two worlds: WITH b's secret of the site's kind and WITHOUT it - b's reader objects stay in both.
// Compared: namespace a's slice of the haproxy model (dumpA: host a.local, TCP port 7000, backend
// a/svc with its paths, userlists and auth backends they name). r (a read of b's secret attributed to
// a's object) is only observable when a's object is converted in a sync of its own: hist pa; else 0.

import (
	"context"
	"fmt"
	"strings"
	"time"

	networking "k8s.io/api/networking/v1"
	metav1 "k8s.io/apimachinery/pkg/apis/meta/v1"
	"sigs.k8s.io/controller-runtime/pkg/client"
	gatewayv1 "sigs.k8s.io/gateway-api/apis/v1"

	convtypes "github.com/jcmoraisjr/haproxy-ingress/pkg/converters/types"

	"hapverif/xnsworld"
)

type legitCase struct {
	site, src, form, set, ord, hist string
}

func (lc legitCase) args() string {
	return strings.Join([]string{"legit", lc.site, lc.src, lc.form, lc.set, lc.ord, lc.hist}, " ")
}

func (lc legitCase) siteCase() siteCase { return siteCase{lc.site, lc.src, lc.form, lc.set, "0"} }

var legitT0 = time.Date(2024, 1, 1, 12, 0, 0, 0, time.UTC)

func legitStamp(ord string, objs ...client.Object) {
	t := legitT0
	switch ord {
	case "e":
		t = t.Add(-time.Hour)
	case "l":
		t = t.Add(time.Hour)
	}
	for _, o := range objs {
		o.SetCreationTimestamp(metav1.NewTime(t))
	}
}

// gatewayOf: a Gateway ns/gw (HTTPS listener on host, certificate certName) and its HTTPRoute ns/rt -> ns/svc
func gatewayOf(ns, host, certName string) []client.Object {
	objs := gatewayObjs(certName, "")
	res := []client.Object{}
	for _, o := range objs {
		switch v := o.(type) {
		case *gatewayv1.Gateway:
			v.Namespace = ns
			h := gatewayv1.Hostname(host)
			v.Spec.Listeners[0].Hostname = &h
			res = append(res, v)
		case *gatewayv1.HTTPRoute:
			v.Namespace = ns
			v.Spec.Hostnames = []gatewayv1.Hostname{gatewayv1.Hostname(host)}
			res = append(res, v)
		}
	}
	return res
}

func runLegit(lc legitCase, withForeign bool) (res siteResult) {
	sc := lc.siteCase()
	env := xnsworld.NewEnv(xnsworld.Settings{AllowCrossNS: sc.set[0] == '1', GatewayV1: sc.site == "gwcert"})
	defer env.Close()
	ctx := context.Background()
	p := xnsworld.GetPEMs()
	kind := siteKind(sc.site)
	add := func(objs ...client.Object) {
		for _, o := range objs {
			must(env.Cli.Create(ctx, o))
		}
	}
	for _, ns := range []string{"a", "b"} {
		foreign := ns == "b"
		if !(foreign && !withForeign && kind == "crt") {
			add(secret(ns, "crt", map[string][]byte{"tls.crt": p.Crt, "tls.key": p.Key}))
		}
		if !(foreign && !withForeign && kind == "ca") {
			add(secret(ns, "ca", map[string][]byte{"ca.crt": p.CA}))
		}
		if !(foreign && !withForeign && kind == "pw") {
			add(secret(ns, "pw", map[string][]byte{"auth": []byte("user" + ns + ":pass\n")}))
		}
		s, e := service(ns, "svc")
		if sc.src == "svc" {
			if ns == "a" {
				s.Annotations = siteAnnotations(sc, env.Dir)
			} else {
				// namespace b's Service carries b's own references the same way
				s.Annotations = legitAnnotations(sc.form == "secn", false)
			}
		}
		add(s, e)
		s, e = service(ns, "authsvc")
		add(s, e)
	}
	cm := map[string]string{}
	for i, k := range cmKeys {
		if sc.set[i+1] == '1' {
			cm[k] = "allow"
		} else {
			cm[k] = "deny"
		}
	}
	// namespace b's legitimate readers: every kind of site, each naming b's OWN secret
	crtName := "crt"
	if sc.form == "secn" {
		crtName = "secret://crt"
	}
	bIng := ingress("b", "ing", "b.local", "svc", legitAnnotations(sc.form == "secn", true), &crtName)
	bAnnTCP := map[string]string{pfx + "tcp-service-port": "7001", pfx + "auth-tls-secret": "ca"}
	bTCP := ingress("b", "tcp", "btcp.local", "svc", bAnnTCP, &crtName)
	bObjs := []client.Object{bIng, bTCP}
	bIngs := []*networking.Ingress{bIng, bTCP}
	if sc.site == "gwcert" {
		gws := gatewayOf("b", "bgw.local", "crt")
		for _, g := range gws {
			g.SetName("b" + g.GetName())
		}
		gws[1].(*gatewayv1.HTTPRoute).Spec.ParentRefs[0].Name = "bgw"
		bObjs = append(bObjs, gws...)
	}
	legitStamp(lc.ord, bObjs...)
	// namespace a's object with the reference under test
	aAnn := map[string]string{}
	if sc.src == "ing" {
		aAnn = siteAnnotations(sc, env.Dir)
	}
	var aTLS *string
	if sc.site == "tls" || sc.site == "tlstcp" {
		v := siteValue(sc, env.Dir)
		aTLS = &v
	}
	if sc.site == "authtls" || sc.site == "authtlstcp" {
		own := "crt"
		aTLS = &own
	}
	if sc.site == "tlstcp" || sc.site == "authtlstcp" {
		aAnn[pfx+"tcp-service-port"] = "7000"
	}
	aIng := ingress("a", "ing", "a.local", "svc", aAnn, aTLS)
	var aObjs []client.Object
	if sc.site == "gwcert" {
		aObjs = gatewayObjs(siteValue(sc, env.Dir), map[string]string{"nsother": "b", "nsown": "a"}[sc.form])
	} else {
		aObjs = []client.Object{aIng}
	}
	legitStamp("s", aObjs...)

	defer func() {
		if r := recover(); r != nil {
			res.panic = true
			res.log = append(env.Logger.Lines, fmt.Sprint(r))
		}
	}()
	partial := func(ings ...*networking.Ingress) {
		var links, objs []string
		for _, i := range ings {
			links = append(links, i.Namespace+"/"+i.Name)
			objs = append(objs, "add/Ingress:"+i.Namespace+"/"+i.Name)
		}
		env.Sync(&convtypes.ChangedObjects{GlobalConfigMapDataCur: cm, IngressesAdd: ings,
			Links: convtypes.TrackingLinks{convtypes.ResourceIngress: links}, Objects: objs})
	}
	fullGw := func() {
		env.Sync(&convtypes.ChangedObjects{GlobalConfigMapDataCur: cm, NeedFullSync: true,
			Links:   convtypes.TrackingLinks{convtypes.ResourceGateway: []string{"a/gw"}},
			Objects: []string{"add/Gateway:a/gw"}})
	}
	attributable := false
	switch lc.hist {
	case "pa":
		add(bObjs...)
		env.Sync(&convtypes.ChangedObjects{GlobalConfigMapDataNew: cm})
		env.Commit()
		env.Cli.Reads()
		add(aObjs...)
		if sc.site == "gwcert" {
			fullGw()
		} else {
			partial(aIng)
			attributable = true
		}
	case "pb":
		add(aObjs...)
		env.Sync(&convtypes.ChangedObjects{GlobalConfigMapDataNew: cm})
		env.Commit()
		add(bObjs...)
		if sc.site == "gwcert" {
			fullGw()
		} else {
			partial(bIngs...)
		}
	case "pj":
		env.Sync(&convtypes.ChangedObjects{GlobalConfigMapDataNew: cm})
		env.Commit()
		add(aObjs...)
		add(bObjs...)
		if sc.site == "gwcert" {
			fullGw()
		} else {
			partial(append([]*networking.Ingress{aIng}, bIngs...)...)
		}
	default:
		add(aObjs...)
		add(bObjs...)
		env.Sync(&convtypes.ChangedObjects{GlobalConfigMapDataNew: cm})
	}
	if attributable {
		for _, r := range env.Cli.Reads() {
			if r.Verb == "get" && r.Kind == "Secret" && r.NS == "b" && r.Name == kind {
				res.readFor = true
			}
		}
	}
	res.dyn = dynStr(env.Dyn)
	res.dump, res.target = dumpA(env, sc)
	res.log = env.Logger.Lines
	return res
}

// legitAnnotations: namespace b's own use of its own secrets (Ingress, or - backend-scoped keys - Service)
func legitAnnotations(scheme, all bool) map[string]string {
	pre := ""
	if scheme {
		pre = "secret://"
	}
	ann := map[string]string{
		pfx + "auth-secret":             pre + "pw",
		pfx + "secure-backends":         "true",
		pfx + "secure-crt-secret":       pre + "crt",
		pfx + "secure-verify-ca-secret": pre + "ca",
	}
	if all {
		ann[pfx+"auth-tls-secret"] = pre + "ca"
	}
	return ann
}

func emitLegit(lc legitCase) { submit(func() caseOut { return computeLegit(lc) }) }

func computeLegit(lc legitCase) caseOut {
	w1 := runLegit(lc, true)
	w0 := runLegit(lc, false)
	var impl string
	if w1.panic || w0.panic {
		impl = "PANIC"
	} else {
		impl = "t=" + w1.target + ";r=" + b2s(w1.readFor) + ";u=" + b2s(w1.dump != w0.dump) + ";b=" + w1.dyn
	}
	return caseOut{lc.args(), impl, verboseText(w1.dump, w0.dump, w1.log),
		[]string{"legit", "legit_" + lc.site + "_" + strings.SplitN(impl, ";", 2)[0], "legit_hist_" + lc.hist, "legit_ord_" + lc.ord}}
}

var legitSites = []string{"tls", "tlstcp", "gwcert", "authtls", "authtlstcp", "securecrt", "secureca", "authsecret"}

func legitForms(site string) []string {
	if site == "gwcert" {
		return []string{"n", "own", "other", "secother", "secown", "secn", "nsother", "nsown"}
	}
	return []string{"n", "own", "other", "secother", "secown", "secn"}
}

func legitHists(site string) []string {
	if site == "gwcert" {
		return []string{"f", "pa", "pb"}
	}
	return []string{"f", "pa", "pb", "pj"}
}

// corpus: the replays of seed C09g (a per-sync memo of addTLS keyed by the secret's full name)
func legitCorpus() {
	emitLegit(legitCase{"tls", "ing", "other", "00000", "e", "f"})
	emitLegit(legitCase{"tls", "ing", "secother", "00000", "e", "f"})
	emitLegit(legitCase{"tlstcp", "ing", "other", "00000", "e", "f"})
	emitLegit(legitCase{"tls", "ing", "other", "00000", "e", "pj"})
	emitLegit(legitCase{"tls", "ing", "other", "00000", "s", "f"})
	emitLegit(legitCase{"tls", "ing", "other", "00000", "e", "pa"})
}

func legitCases(thorough bool) {
	for _, site := range legitSites {
		for _, src := range siteSources(site) {
			for _, form := range legitForms(site) {
				for _, set := range allSettings() {
					if !thorough {
						// quick: the site's own bit x {other bits all off / all on} x static
						k := map[string]int{"crt": 1, "ca": 2, "pw": 3}[siteKind(site)]
						rest := byte(0)
						uniform := true
						for i := 1; i < 5; i++ {
							if i == k {
								continue
							}
							if rest == 0 {
								rest = set[i]
							} else if set[i] != rest {
								uniform = false
							}
						}
						if !uniform {
							continue
						}
						if (form == "n" || form == "own" || form == "nsown") && set != "00000" && set != "11111" {
							// references inside namespace a: no permission is involved
							continue
						}
					}
					for _, ord := range []string{"e", "l", "s"} {
						for _, hist := range legitHists(site) {
							if !thorough && ((ord == "l" && hist != "f" && hist != "pb") || (ord == "s" && hist != "f" && hist != "pj" && hist != "pa")) {
								// quick: every history with b's readers first; a's object first: the same sync and b added later
								continue
							}
							emitLegit(legitCase{site, src, form, set, ord, hist})
						}
					}
				}
			}
		}
	}
}
