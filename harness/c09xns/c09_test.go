//go:build verif

// Package c09xns drives, for property C09 (cross-namespace isolation),
//
//   - buildResourceName / getContentProtocol of pkg/controller/services (hook verif_export.go),
//   - the five getters of the REAL cache facade over a logging fake client,
//   - buildGlobalDynamic through a real full Sync with a global ConfigMap,
//   - every REFERENCE SITE through the real ingress converter + real annotation updater + real
//     facade: two worlds (with / without the foreign object), the read log of the conversion of
//     namespace a's ingress, and a canonical dump of a's part of the haproxy model.
//
// Case lines: see lean/HapVerif/Drv/C09.lean.
package c09xns

import (
	"bufio"
	"context"
	"encoding/hex"
	"fmt"
	"os"
	"path/filepath"
	"runtime"
	"sort"
	"strconv"
	"strings"
	"sync"
	"sync/atomic"
	"testing"

	api "k8s.io/api/core/v1"
	networking "k8s.io/api/networking/v1"
	metav1 "k8s.io/apimachinery/pkg/apis/meta/v1"
	"k8s.io/apimachinery/pkg/util/intstr"
	"sigs.k8s.io/controller-runtime/pkg/client"
	gatewayv1 "sigs.k8s.io/gateway-api/apis/v1"

	"github.com/jcmoraisjr/haproxy-ingress/pkg/controller/services"
	convtypes "github.com/jcmoraisjr/haproxy-ingress/pkg/converters/types"

	"hapverif/gen"
	"hapverif/xnsworld"
)

var (
	out   *bufio.Writer
	stats = map[string]int{}
)

func emit(args, impl string) { fmt.Fprintf(out, "C09 %s => %s\n", args, impl) }
func stat(k string, n int)   { stats[k] += n }

// caseOut is one computed case: the case line, the verbose text and the histogram keys. The two-world
// cases (site, carrier, oauth) each build their own environments and share nothing, so the generator
// computes them on several workers and writes them in generation order (the output does not depend on
// the number of workers).
type caseOut struct {
	args, impl, extra string
	stats             []string
}

func (o caseOut) flush() {
	emit(o.args, o.impl)
	if verbose && o.extra != "" {
		out.WriteString(o.extra)
	}
	for _, k := range o.stats {
		stat(k, 1)
	}
}

var (
	batching bool
	batch    []func() caseOut
)

const batchChunk = 1024

func submit(job func() caseOut) {
	if !batching {
		job().flush()
		return
	}
	batch = append(batch, job)
	if len(batch) >= batchChunk {
		flushBatch()
	}
}

func flushBatch() {
	workers := runtime.NumCPU()
	if workers > 8 {
		workers = 8
	}
	if w, err := strconv.Atoi(os.Getenv("HV_WORKERS")); err == nil && w > 0 {
		workers = w
	}
	res := make([]caseOut, len(batch))
	var next int64 = -1
	var wg sync.WaitGroup
	for w := 0; w < workers; w++ {
		wg.Add(1)
		go func() {
			defer wg.Done()
			for {
				i := int(atomic.AddInt64(&next, 1))
				if i >= len(batch) {
					return
				}
				res[i] = batch[i]()
			}
		}()
	}
	wg.Wait()
	for _, o := range res {
		o.flush()
	}
	batch = batch[:0]
	out.Flush()
}

func verboseText(w1dump, w0dump string, log []string) string {
	if !verbose {
		return ""
	}
	var sb strings.Builder
	fmt.Fprintf(&sb, "# W1 %s\n# W0 %s\n", w1dump, w0dump)
	for _, l := range log {
		fmt.Fprintf(&sb, "#   log %s\n", l)
	}
	return sb.String()
}

func hx(s string) string { return "h" + hex.EncodeToString([]byte(s)) }
func unhx(s string) string {
	b, _ := hex.DecodeString(strings.TrimPrefix(s, "h"))
	return string(b)
}

func b2s(b bool) string {
	if b {
		return "1"
	}
	return "0"
}

func must(err error) {
	if err != nil {
		panic(err)
	}
}

const pfx = xnsworld.AnnPrefix + "/"

// ---------------------------------------------------------------- brn / proto

func errClass(err error) string {
	switch {
	case err == nil:
		return "ok"
	case strings.Contains(err.Error(), "cross-namespace reading is disabled"):
		return "denied"
	case strings.Contains(err.Error(), "unexpected key format"),
		strings.Contains(err.Error(), "unsupported protocol"),
		strings.Contains(err.Error(), "empty file name"):
		return "invalid"
	}
	return "other"
}

func emitBrn(dns, value string, allow bool) {
	ns, name, err := services.VerifBuildResourceName(dns, "secret", value, allow)
	impl := errClass(err)
	if err == nil {
		impl = "o:" + hx(ns) + ":" + hx(name)
	}
	emit("brn "+hx(dns)+" "+hx(value)+" "+b2s(allow), impl)
	stat("brn", 1)
}

func emitProto(value string) {
	p, c := services.VerifGetContentProtocol(value)
	emit("proto "+hx(value), hx(p)+":"+hx(c))
	stat("proto", 1)
}

// ---------------------------------------------------------------- getters

func secret(ns, name string, data map[string][]byte) *api.Secret {
	return &api.Secret{ObjectMeta: metav1.ObjectMeta{Namespace: ns, Name: name}, Data: data}
}

func service(ns, name string) (*api.Service, *api.Endpoints) {
	ip := "172.17.0.11"
	if ns == "b" {
		ip = "172.17.0.22"
	}
	return &api.Service{ObjectMeta: metav1.ObjectMeta{Namespace: ns, Name: name},
			Spec: api.ServiceSpec{ClusterIP: "10.0.0.1", Ports: []api.ServicePort{{Port: 8080, TargetPort: intstr.FromInt(8080)}}}},
		&api.Endpoints{ObjectMeta: metav1.ObjectMeta{Namespace: ns, Name: name},
			Subsets: []api.EndpointSubset{{Addresses: []api.EndpointAddress{{IP: ip}},
				Ports: []api.EndpointPort{{Port: 8080, Protocol: api.ProtocolTCP}}}}}
}

var getterEnv *xnsworld.Env

func emitGet(getter, bits, dns, value string) {
	if getterEnv == nil {
		p := xnsworld.GetPEMs()
		var objs []client.Object
		for _, ns := range []string{"a", "b"} {
			objs = append(objs, secret(ns, "n", map[string][]byte{"tls.crt": p.Crt, "tls.key": p.Key, "auth": []byte("u:p\n")}))
			s, e := service(ns, "n")
			objs = append(objs, s, e)
		}
		getterEnv = xnsworld.NewEnv(xnsworld.Settings{}, objs...)
	}
	env := getterEnv
	env.Dyn.CrossNamespaceSecretCertificate = bits[0] == '1'
	env.Dyn.CrossNamespaceSecretCA = bits[1] == '1'
	env.Dyn.CrossNamespaceSecretPasswd = bits[2] == '1'
	env.Dyn.CrossNamespaceServices = bits[3] == '1'
	env.Cli.Reads()
	impl := func() (s string) {
		defer func() {
			if r := recover(); r != nil {
				s = "PANIC"
			}
		}()
		var err error
		kind := "Secret"
		switch getter {
		case "tls":
			_, err = env.Cache.GetTLSSecretPath(dns, value, nil)
		case "ca":
			_, _, err = env.Cache.GetCASecretPath(dns, value, nil)
		case "pw":
			_, err = env.Cache.GetPasswdSecretContent(dns, value, nil)
		case "dh":
			_, err = env.Cache.GetDHSecretPath(dns, value)
		case "svc":
			kind = "Service"
			_, err = env.Cache.GetService(dns, value)
		}
		reads := env.Cli.Reads()
		if c := errClass(err); c == "denied" || c == "invalid" {
			if len(reads) > 0 {
				return c + "+read"
			}
			return c
		}
		if len(reads) == 0 {
			return "file"
		}
		if len(reads) > 1 || reads[0].Verb != "get" || reads[0].Kind != kind {
			return "reads:" + fmt.Sprint(reads)
		}
		return "o:" + hx(reads[0].NS) + ":" + hx(reads[0].Name)
	}()
	emit("get "+getter+" "+bits+" "+hx(dns)+" "+hx(value), impl)
	stat("get", 1)
	stat("get_"+getter+"_"+strings.SplitN(impl, ":", 2)[0], 1)
}

// ---------------------------------------------------------------- buildGlobalDynamic

var dynValues = map[byte]string{'a': "allow", 'd': "deny", 'A': "Allow", 'U': "ALLOW", 'x': "yes", 't': "true", 'e': "", 's': " allow", 'w': "allowed"}

var cmKeys = []string{"cross-namespace-secrets-crt", "cross-namespace-secrets-ca", "cross-namespace-secrets-passwd", "cross-namespace-services"}

func globalCM(toks string) map[string]string {
	cm := map[string]string{}
	for i, k := range cmKeys {
		if toks[i] != '-' {
			cm[k] = dynValues[toks[i]]
		}
	}
	return cm
}

func dynStr(d *convtypes.DynamicConfig) string {
	return b2s(d.CrossNamespaceSecretCertificate) + b2s(d.CrossNamespaceSecretCA) + b2s(d.CrossNamespaceSecretPasswd) + b2s(d.CrossNamespaceServices)
}

func emitDyn(static bool, toks string) {
	env := xnsworld.NewEnv(xnsworld.Settings{AllowCrossNS: static})
	defer env.Close()
	impl := func() (s string) {
		defer func() {
			if r := recover(); r != nil {
				s = "PANIC"
			}
		}()
		env.Sync(&convtypes.ChangedObjects{GlobalConfigMapDataNew: globalCM(toks)})
		return dynStr(env.Dyn)
	}()
	emit("dyn "+b2s(static)+" "+toks, impl)
	stat("dyn", 1)
}

// ---------------------------------------------------------------- reference sites

type siteCase struct {
	site string // tls tlstcp gwcert authtls authtlstcp securecrt secureca authsecret authurl authurlfe
	src  string // ing | svc : the object that carries the annotation
	form string // n own other file secother secown
	set  string // static + crt ca pw svc, each 0|1
	fu   string // 3: like 2 but the ConfigMap is emptied (keys absent); 0: first reconciliation; 1: namespace b's own ingress was converted first, a is added by a partial sync; 2: a first reconciliation ran with every key = allow, then the ConfigMap changed
}

func (sc siteCase) args() string {
	return strings.Join([]string{"site", sc.site, sc.src, sc.form, sc.set, sc.fu}, " ")
}

// kind of object the site refers to: crt ca pw svc
func siteKind(site string) string {
	switch site {
	case "tls", "tlstcp", "gwcert", "securecrt":
		return "crt"
	case "authtls", "authtlstcp", "secureca":
		return "ca"
	case "authsecret":
		return "pw"
	}
	return "svc"
}

func siteValue(sc siteCase, dir string) string {
	k := siteKind(sc.site)
	if k == "svc" {
		switch sc.form {
		case "n":
			return "svc://authsvc:8080/auth"
		case "own":
			return "svc://a/authsvc:8080/auth"
		case "other":
			return "svc://b/authsvc:8080/auth"
		}
		return ""
	}
	switch sc.form {
	case "n", "nsother", "nsown":
		// nsother / nsown (Gateway only): a bare name, the namespace goes into certificateRefs[].namespace
		return k
	case "own":
		return "a/" + k
	case "other":
		return "b/" + k
	case "file":
		return "file://" + filepath.Join(dir, "local-"+k)
	case "fileb":
		// the controller's own copy of namespace b's secret (exists once b's ingress was converted)
		if k == "ca" {
			return "file://" + filepath.Join(dir, "cacrt", "ca_b_ca.pem")
		}
		return "file://" + filepath.Join(dir, "crt", "b_"+k+".pem")
	case "secn":
		// protocol with a bare name: resolves in the declaring namespace
		return "secret://" + k
	case "secother":
		return "secret://b/" + k
	case "secown":
		return "secret://a/" + k
	}
	return ""
}

func ingress(ns, name, host, svc string, ann map[string]string, tlsSecret *string) *networking.Ingress {
	pt := networking.PathTypePrefix
	ann["kubernetes.io/ingress.class"] = xnsworld.IngressClass
	ing := &networking.Ingress{
		ObjectMeta: metav1.ObjectMeta{Namespace: ns, Name: name, Annotations: ann, Generation: 1},
		Spec: networking.IngressSpec{
			Rules: []networking.IngressRule{{
				Host: host,
				IngressRuleValue: networking.IngressRuleValue{HTTP: &networking.HTTPIngressRuleValue{
					Paths: []networking.HTTPIngressPath{{
						Path: "/", PathType: &pt,
						Backend: networking.IngressBackend{Service: &networking.IngressServiceBackend{
							Name: svc, Port: networking.ServiceBackendPort{Number: 8080}}},
					}},
				}},
			}},
		},
	}
	if tlsSecret != nil {
		ing.Spec.TLS = []networking.IngressTLS{{Hosts: []string{host}, SecretName: *tlsSecret}}
	}
	return ing
}

func gatewayObjs(certName, certNamespace string) []client.Object {
	var certNS *gatewayv1.Namespace
	if certNamespace != "" {
		n := gatewayv1.Namespace(certNamespace)
		certNS = &n
	}
	port := gatewayv1.PortNumber(8080)
	host := gatewayv1.Hostname("a.local")
	mode := gatewayv1.TLSModeTerminate
	same := gatewayv1.NamespacesFromSame
	return []client.Object{
		&gatewayv1.GatewayClass{ObjectMeta: metav1.ObjectMeta{Name: "gwc", Generation: 1},
			Spec: gatewayv1.GatewayClassSpec{ControllerName: gatewayv1.GatewayController(xnsworld.ControllerName)}},
		&gatewayv1.Gateway{ObjectMeta: metav1.ObjectMeta{Namespace: "a", Name: "gw", Generation: 1},
			Spec: gatewayv1.GatewaySpec{GatewayClassName: "gwc", Listeners: []gatewayv1.Listener{{
				Name: "https", Port: 443, Protocol: gatewayv1.HTTPSProtocolType, Hostname: &host,
				AllowedRoutes: &gatewayv1.AllowedRoutes{Namespaces: &gatewayv1.RouteNamespaces{From: &same}},
				TLS: &gatewayv1.GatewayTLSConfig{Mode: &mode,
					CertificateRefs: []gatewayv1.SecretObjectReference{{Name: gatewayv1.ObjectName(certName), Namespace: certNS}}},
			}}}},
		&gatewayv1.HTTPRoute{ObjectMeta: metav1.ObjectMeta{Namespace: "a", Name: "rt", Generation: 1},
			Spec: gatewayv1.HTTPRouteSpec{
				CommonRouteSpec: gatewayv1.CommonRouteSpec{ParentRefs: []gatewayv1.ParentReference{{Name: "gw"}}},
				Hostnames:       []gatewayv1.Hostname{host},
				Rules: []gatewayv1.HTTPRouteRule{{BackendRefs: []gatewayv1.HTTPBackendRef{{
					BackendRef: gatewayv1.BackendRef{BackendObjectReference: gatewayv1.BackendObjectReference{Name: "svc", Port: &port}}}}}},
			}},
	}
}

type siteResult struct {
	dump    string
	target  string // own foreign file none
	readFor bool
	dyn     string
	panic   bool
	log     []string
}

// runSite builds one world and converts it. withForeign=false removes the one foreign object the
// site could refer to (the Secret of the site's kind in namespace b, or Service b/authsvc).
func runSite(sc siteCase, withForeign bool) (res siteResult) {
	env := xnsworld.NewEnv(xnsworld.Settings{AllowCrossNS: sc.set[0] == '1', GatewayV1: sc.site == "gwcert"})
	defer env.Close()
	ctx := context.Background()
	p := xnsworld.GetPEMs()
	kind := siteKind(sc.site)
	// local files for the file:// form
	must(os.WriteFile(filepath.Join(env.Dir, "local-crt"), append(append([]byte{}, p.Crt...), p.Key...), 0o600))
	must(os.WriteFile(filepath.Join(env.Dir, "local-ca"), p.CA, 0o600))
	must(os.WriteFile(filepath.Join(env.Dir, "local-pw"), []byte("userf:pass\n"), 0o600))
	add := func(objs ...client.Object) {
		for _, o := range objs {
			must(env.Cli.Create(ctx, o))
		}
	}
	for _, ns := range []string{"a", "b"} {
		foreign := ns == "b"
		if !(foreign && !withForeign && kind == "crt") {
			add(secret(ns, "crt", map[string][]byte{"tls.crt": p.Crt, "tls.key": p.Key}))
		}
		if !(foreign && !withForeign && kind == "ca") {
			add(secret(ns, "ca", map[string][]byte{"ca.crt": p.CA}))
		}
		if !(foreign && !withForeign && kind == "pw") {
			add(secret(ns, "pw", map[string][]byte{"auth": []byte("user" + ns + ":pass\n")}))
		}
		s, e := service(ns, "svc")
		if ns == "a" && sc.src == "svc" {
			s.Annotations = siteAnnotations(sc, env.Dir)
		}
		add(s, e)
		if !(foreign && !withForeign && kind == "svc") {
			s, e := service(ns, "authsvc")
			add(s, e)
		}
	}
	cm := map[string]string{}
	for i, k := range cmKeys {
		if sc.set[i+1] == '1' {
			cm[k] = "allow"
		} else {
			cm[k] = "deny"
		}
	}
	// namespace b's own, legitimate use of its own objects
	crtName := "crt"
	bAnn := map[string]string{
		pfx + "auth-secret":             "pw",
		pfx + "auth-tls-secret":         "ca",
		pfx + "secure-backends":         "true",
		pfx + "secure-crt-secret":       "crt",
		pfx + "secure-verify-ca-secret": "ca",
	}
	if sc.form == "secn" {
		// namespace b follows the same convention for its own objects
		bAnn[pfx+"auth-secret"] = "secret://pw"
		bAnn[pfx+"auth-tls-secret"] = "secret://ca"
		bAnn[pfx+"secure-crt-secret"] = "secret://crt"
		bAnn[pfx+"secure-verify-ca-secret"] = "secret://ca"
	}
	bTLS := &crtName
	if sc.site == "gwcert" && sc.form != "fileb" {
		// a Gateway change asks for a full sync, which converts b's ingress again in the same
		// reconciliation: keep b/crt out of b's own ingress so that a read of it is the Gateway's.
		// (form fileb needs the controller's copy of b/crt on disk, i.e. b's ingress using it; a
		// file:// value cannot make the getter read a Secret — the file branch returns before —
		// so for that form the reads of b/crt are b's own and are not attributed to the Gateway)
		delete(bAnn, pfx+"secure-crt-secret")
		bTLS = nil
	}
	bIng := ingress("b", "ing", "b.local", "authsvc", bAnn, bTLS)
	// namespace a's ingress with the reference under test
	aAnn := map[string]string{}
	if sc.src == "ing" {
		aAnn = siteAnnotations(sc, env.Dir)
	}
	var aTLS *string
	if sc.site == "tls" || sc.site == "tlstcp" {
		v := siteValue(sc, env.Dir)
		aTLS = &v
	}
	if sc.site == "authtls" || sc.site == "authtlstcp" {
		own := "crt" // a tls block so that the host / tcp port has TLS
		aTLS = &own
	}
	if sc.site == "tlstcp" || sc.site == "authtlstcp" {
		aAnn[pfx+"tcp-service-port"] = "7000"
	}
	aIng := ingress("a", "ing", "a.local", "svc", aAnn, aTLS)
	var aObjs []client.Object
	if sc.site == "gwcert" {
		// a Gateway in namespace a whose HTTPS listener names the certificate, and its route
		aObjs = gatewayObjs(siteValue(sc, env.Dir), map[string]string{"nsother": "b", "nsown": "a"}[sc.form])
	} else {
		aObjs = []client.Object{aIng}
	}

	defer func() {
		if r := recover(); r != nil {
			res.panic = true
			res.log = append(env.Logger.Lines, fmt.Sprint(r))
		}
	}()
	if sc.fu == "2" || sc.fu == "3" {
		allow := map[string]string{}
		for _, k := range cmKeys {
			allow[k] = "allow"
		}
		add(aObjs...)
		env.Sync(&convtypes.ChangedObjects{GlobalConfigMapDataNew: allow})
		env.Commit()
		env.Cli.Reads()
		// the operator edits the ConfigMap: what the watchers deliver is Cur = old data, New = new data
		if sc.fu == "3" {
			// ... or empties it: every key absent (deny by default); the watchers deliver an empty, non-nil map
			cm = map[string]string{}
		}
		env.Sync(&convtypes.ChangedObjects{GlobalConfigMapDataCur: allow, GlobalConfigMapDataNew: cm,
			Links:   convtypes.TrackingLinks{convtypes.ResourceConfigMap: []string{"ingress-controller/haproxy-ingress"}},
			Objects: []string{"update/ConfigMap:ingress-controller/haproxy-ingress"}})
	} else if sc.fu == "1" {
		add(bIng)
		env.Sync(&convtypes.ChangedObjects{GlobalConfigMapDataNew: cm})
		env.Commit()
		env.Cli.Reads()
		add(aObjs...)
		if sc.site == "gwcert" {
			// Gateway API changes always ask for a full sync (handlers have full: true)
			env.Sync(&convtypes.ChangedObjects{GlobalConfigMapDataCur: cm, NeedFullSync: true,
				Links:   convtypes.TrackingLinks{convtypes.ResourceGateway: []string{"a/gw"}},
				Objects: []string{"add/Gateway:a/gw"}})
		} else {
			env.Sync(&convtypes.ChangedObjects{
				GlobalConfigMapDataCur: cm,
				IngressesAdd:           []*networking.Ingress{aIng},
				Links:                  convtypes.TrackingLinks{convtypes.ResourceIngress: []string{"a/ing"}},
				Objects:                []string{"add/Ingress:a/ing"},
			})
		}
	} else {
		add(aObjs...)
		env.Cli.Reads()
		env.Sync(&convtypes.ChangedObjects{GlobalConfigMapDataNew: cm})
	}
	reads := env.Cli.Reads()
	wantKind := "Secret"
	if kind == "svc" {
		wantKind = "Service"
	}
	for _, r := range reads {
		// a foreign object of the site's kind: the Secret named after the kind, or Service authsvc
		if r.Verb == "get" && r.Kind == wantKind && r.NS == "b" {
			if (kind == "svc" && r.Name == "authsvc") || (kind != "svc" && r.Name == kind) {
				res.readFor = true
			}
		}
	}
	if sc.site == "gwcert" && sc.form == "fileb" {
		res.readFor = false
	}
	res.dyn = dynStr(env.Dyn)
	res.dump, res.target = dumpA(env, sc)
	res.log = env.Logger.Lines
	return res
}

func siteAnnotations(sc siteCase, dir string) map[string]string {
	v := siteValue(sc, dir)
	switch sc.site {
	case "authtls", "authtlstcp":
		return map[string]string{pfx + "auth-tls-secret": v}
	case "securecrt":
		return map[string]string{pfx + "secure-backends": "true", pfx + "secure-crt-secret": v}
	case "secureca":
		return map[string]string{pfx + "secure-backends": "true", pfx + "secure-verify-ca-secret": v}
	case "authsecret":
		return map[string]string{pfx + "auth-secret": v}
	case "authurl":
		return map[string]string{pfx + "auth-url": v}
	case "authurlfe":
		return map[string]string{pfx + "auth-url": v, pfx + "auth-external-placement": "frontend"}
	}
	return map[string]string{}
}

// classify a file name / userlist / backend id as own, foreign, file or none
func classify(env *xnsworld.Env, rel string) string {
	switch {
	case rel == "" || rel == "-":
		return "none"
	case strings.Contains(rel, "_fake-default") || strings.Contains(rel, "ca__fake"):
		return "none"
	case strings.HasPrefix(rel, "local-"):
		return "file"
	case strings.Contains(rel, "/a_") || strings.Contains(rel, "/ca_a_") || strings.HasPrefix(rel, "a_"):
		return "own"
	case strings.Contains(rel, "/b_") || strings.Contains(rel, "/ca_b_") || strings.HasPrefix(rel, "b_"):
		return "foreign"
	}
	return "file"
}

// dumpA: the part of the haproxy model that belongs to namespace a.
func dumpA(env *xnsworld.Env, sc siteCase) (dump, target string) {
	var sb strings.Builder
	target = "none"
	authTarget := func(name string) string {
		if name == "" {
			return "-"
		}
		for _, bind := range env.HCfg.Frontend().AuthProxy.BindList {
			if bind.AuthBackendName == name {
				return bind.Backend.String()
			}
		}
		return "?" + name
	}
	tcp := sc.site == "tlstcp" || sc.site == "authtlstcp"
	if tcp {
		for _, port := range env.HCfg.TCPServices().Items() {
			if port.Port() != 7000 {
				// namespace a's TCP service (`legit` cases: namespace b's own TCP ingress listens on 7001)
				continue
			}
			var hosts []string
			for h := range port.TLS {
				hosts = append(hosts, h)
			}
			sort.Strings(hosts)
			for _, h := range hosts {
				t := port.TLS[h]
				fmt.Fprintf(&sb, "tcp %d %s tls=%s ca=%s crl=%s verify=%v;", port.Port(), h, env.Rel(t.TLSFilename), env.Rel(t.CAFilename), env.Rel(t.CRLFilename), t.CAVerify)
				if sc.site == "tlstcp" {
					target = classify(env, env.Rel(t.TLSFilename))
				} else {
					target = classify(env, env.Rel(t.CAFilename))
				}
			}
		}
	}
	if host := env.HCfg.Hosts().FindHost("a.local"); host != nil {
		fmt.Fprintf(&sb, "host tls=%s ca=%s crl=%s verify=%v;", env.Rel(host.TLS.TLSFilename), env.Rel(host.TLS.CAFilename), env.Rel(host.TLS.CRLFilename), host.TLS.CAVerify)
		if sc.site == "tls" || sc.site == "gwcert" {
			target = classify(env, env.Rel(host.TLS.TLSFilename))
		}
		if sc.site == "authtls" {
			target = classify(env, env.Rel(host.TLS.CAFilename))
		}
		for _, hp := range host.Paths {
			if hp.AuthExt != nil {
				tg := authTarget(hp.AuthExt.AuthBackendName)
				fmt.Fprintf(&sb, "hostpath %s authext deny=%v to=%s path=%s;", hp.Link.Key(), hp.AuthExt.AlwaysDeny, tg, hp.AuthExt.AuthPath)
				if sc.site == "authurlfe" {
					target = classify(env, strings.TrimPrefix(tg, "-"))
				}
			}
		}
	}
	if b := env.HCfg.Backends().FindBackend("a", "svc", "8080"); b != nil {
		fmt.Fprintf(&sb, "backend secure=%v crt=%s ca=%s crl=%s;", b.Server.Secure, env.Rel(b.Server.CrtFilename), env.Rel(b.Server.CAFilename), env.Rel(b.Server.CRLFilename))
		if sc.site == "securecrt" {
			target = classify(env, env.Rel(b.Server.CrtFilename))
		}
		if sc.site == "secureca" {
			target = classify(env, env.Rel(b.Server.CAFilename))
		}
		for _, bp := range b.Paths {
			tg := authTarget(bp.AuthExternal.AuthBackendName)
			fmt.Fprintf(&sb, "path userlist=%s realm=%s authext deny=%v to=%s path=%s;", strings.ReplaceAll(bp.AuthHTTP.UserlistName, env.Dir, "$DIR"), bp.AuthHTTP.Realm, bp.AuthExternal.AlwaysDeny, tg, bp.AuthExternal.AuthPath)
			var us []string
			if ul := env.HCfg.Userlists().Find(bp.AuthHTTP.UserlistName); ul != nil {
				for _, u := range ul.Users {
					us = append(us, u.Name)
				}
				fmt.Fprintf(&sb, "users=%s;", strings.Join(us, ","))
			}
			if sc.site == "authsecret" {
				// whose password list is it: usera (a/pw), userb (b/pw), userf (local file)
				switch strings.Join(us, ",") {
				case "usera":
					target = "own"
				case "userb":
					target = "foreign"
				case "userf":
					target = "file"
				case "":
					target = "none"
				default:
					target = "?" + strings.Join(us, ",")
				}
			}
			if sc.site == "authurl" {
				target = classify(env, strings.TrimPrefix(tg, "-"))
			}
		}
	}
	return sb.String(), target
}

var verbose = os.Getenv("HV_VERBOSE") != ""

func emitSite(sc siteCase) { submit(func() caseOut { return computeSite(sc) }) }

func computeSite(sc siteCase) caseOut {
	w1 := runSite(sc, true)
	w0 := runSite(sc, false)
	var impl string
	if w1.panic || w0.panic {
		impl = "PANIC"
	} else {
		impl = "t=" + w1.target + ";r=" + b2s(w1.readFor) + ";u=" + b2s(w1.dump != w0.dump) + ";b=" + w1.dyn
	}
	return caseOut{sc.args(), impl, verboseText(w1.dump, w0.dump, w1.log),
		[]string{"site", "site_" + sc.site + "_" + strings.SplitN(impl, ";", 2)[0]}}
}

// ---------------------------------------------------------------- the oauth site

// oauthDecl: one more Ingress (namespace a | b) with one rule host/path -> Service svc:8080.
type oauthDecl struct{ ns, host, path, svc string }

// oauthCase: Ingress a/app (host h0.local, path / -> Service a/svc) carries `oauth`.
type oauthCase struct {
	src   string // ing | svc: the object that carries the annotations
	impl  string // p oauth2_proxy, h oauth2-proxy, x unknown implementation, u oauth2_proxy + auth-url, n none
	pfx   string // "-" or h<hex of oauth-uri-prefix>
	decls []oauthDecl
	set   string // static + crt ca pw svc
	fu    string // 0 first reconciliation; 1 namespace b converted first, a added by a partial sync; 2 all keys allow, then the ConfigMap changed
}

func declsTok(ds []oauthDecl) string {
	if len(ds) == 0 {
		return "-"
	}
	var parts []string
	for _, d := range ds {
		parts = append(parts, d.ns+":"+d.host+":"+hx(d.path)+":"+d.svc)
	}
	return strings.Join(parts, "+")
}

func parseDeclsTok(tok string) ([]oauthDecl, bool) {
	if tok == "-" {
		return nil, true
	}
	var ds []oauthDecl
	for _, part := range strings.Split(tok, "+") {
		f := strings.Split(part, ":")
		if len(f) != 4 || (f[0] != "a" && f[0] != "b") || len(ds) >= 10 {
			return nil, false
		}
		ds = append(ds, oauthDecl{f[0], f[1], unhx(f[2]), f[3]})
	}
	return ds, true
}

func (oc oauthCase) args() string {
	return strings.Join([]string{"oauth", oc.src, oc.impl, oc.pfx, declsTok(oc.decls), oc.set, oc.fu}, " ")
}

func (oc oauthCase) annotations() map[string]string {
	ann := map[string]string{}
	switch oc.impl {
	case "p", "u":
		ann[pfx+"oauth"] = "oauth2_proxy"
	case "h":
		ann[pfx+"oauth"] = "oauth2-proxy"
	case "x":
		ann[pfx+"oauth"] = "other"
	}
	if oc.impl == "u" {
		ann[pfx+"auth-url"] = "svc://authsvc:8080/auth"
	}
	if oc.pfx != "-" {
		ann[pfx+"oauth-uri-prefix"] = unhx(oc.pfx)
	}
	return ann
}

func ingressPath(ns, name, host, path, svc string, ann map[string]string) *networking.Ingress {
	ing := ingress(ns, name, host, svc, ann, nil)
	ing.Spec.Rules[0].HTTP.Paths[0].Path = path
	return ing
}

type oauthResult struct {
	dump   string
	target string // own:<svc> foreign:<svc> none
	deny   bool
	dyn    string
	panic  bool
	log    []string
}

// runOAuth builds one world and converts it. withForeign=false removes every Service of namespace b
// (the foreign objects the lookup could reach); namespace b's Ingress objects stay.
func runOAuth(oc oauthCase, withForeign bool) (res oauthResult) {
	env := xnsworld.NewEnv(xnsworld.Settings{AllowCrossNS: oc.set[0] == '1'})
	defer env.Close()
	ctx := context.Background()
	add := func(objs ...client.Object) {
		for _, o := range objs {
			must(env.Cli.Create(ctx, o))
		}
	}
	svcNames := map[string]bool{"svc": true, "authsvc": true}
	for _, d := range oc.decls {
		svcNames[d.svc] = true
	}
	var names []string
	for n := range svcNames {
		names = append(names, n)
	}
	sort.Strings(names)
	for _, ns := range []string{"a", "b"} {
		if ns == "b" && !withForeign {
			continue
		}
		for _, n := range names {
			s, e := service(ns, n)
			if ns == "a" && n == "svc" && oc.src == "svc" {
				s.Annotations = oc.annotations()
			}
			add(s, e)
		}
	}
	aAnn := map[string]string{}
	if oc.src == "ing" {
		aAnn = oc.annotations()
	}
	aIngs := []*networking.Ingress{ingressPath("a", "app", "h0.local", "/", "svc", aAnn)}
	var bIngs []*networking.Ingress
	for i, d := range oc.decls {
		ing := ingressPath(d.ns, "i"+strconv.Itoa(i), d.host+".local", d.path, d.svc, map[string]string{})
		if d.ns == "a" {
			aIngs = append(aIngs, ing)
		} else {
			bIngs = append(bIngs, ing)
		}
	}
	addIngs := func(ings []*networking.Ingress) {
		for _, i := range ings {
			add(i)
		}
	}
	cm := map[string]string{}
	for i, k := range cmKeys {
		if oc.set[i+1] == '1' {
			cm[k] = "allow"
		} else {
			cm[k] = "deny"
		}
	}
	defer func() {
		if r := recover(); r != nil {
			res.panic = true
			res.log = append(env.Logger.Lines, fmt.Sprint(r))
		}
	}()
	switch oc.fu {
	case "2":
		allow := map[string]string{}
		for _, k := range cmKeys {
			allow[k] = "allow"
		}
		addIngs(aIngs)
		addIngs(bIngs)
		env.Sync(&convtypes.ChangedObjects{GlobalConfigMapDataNew: allow})
		env.Commit()
		env.Sync(&convtypes.ChangedObjects{GlobalConfigMapDataCur: allow, GlobalConfigMapDataNew: cm,
			Links:   convtypes.TrackingLinks{convtypes.ResourceConfigMap: []string{"ingress-controller/haproxy-ingress"}},
			Objects: []string{"update/ConfigMap:ingress-controller/haproxy-ingress"}})
	case "1":
		addIngs(bIngs)
		env.Sync(&convtypes.ChangedObjects{GlobalConfigMapDataNew: cm})
		env.Commit()
		addIngs(aIngs)
		var links, objs []string
		for _, i := range aIngs {
			links = append(links, i.Namespace+"/"+i.Name)
			objs = append(objs, "add/Ingress:"+i.Namespace+"/"+i.Name)
		}
		env.Sync(&convtypes.ChangedObjects{
			GlobalConfigMapDataCur: cm,
			IngressesAdd:           aIngs,
			Links:                  convtypes.TrackingLinks{convtypes.ResourceIngress: links},
			Objects:                objs,
		})
	default:
		addIngs(aIngs)
		addIngs(bIngs)
		env.Sync(&convtypes.ChangedObjects{GlobalConfigMapDataNew: cm})
	}
	res.dyn = dynStr(env.Dyn)
	res.dump, res.target, res.deny = dumpOAuth(env)
	res.log = env.Logger.Lines
	return res
}

// dumpOAuth: namespace a's slice of the haproxy model — every path of every backend of namespace a
// with its whole AuthExternal, and the host paths that lead to a backend of namespace a.
func dumpOAuth(env *xnsworld.Env) (dump, target string, deny bool) {
	var sb strings.Builder
	target = "none"
	// the backend an AuthBackendName stands for: a backend ID (oauth), or the name of an auth proxy bind (auth-url)
	resolve := func(name string) (ns, svc, text string) {
		if name == "" {
			return "", "", "-"
		}
		if b, found := env.HCfg.Backends().Items()[name]; found {
			return b.Namespace, b.Name, b.ID
		}
		for _, bind := range env.HCfg.Frontend().AuthProxy.BindList {
			if bind.AuthBackendName == name {
				return bind.Backend.Namespace, bind.Backend.Name, "bind:" + bind.Backend.String()
			}
		}
		// not a backend of the model: the ID says whose it would be
		if f := strings.Split(name, "_"); len(f) == 3 {
			return f[0], f[1], "?" + name
		}
		return "?", name, "?" + name
	}
	var ids []string
	for id, b := range env.HCfg.Backends().Items() {
		if b.Namespace == "a" {
			ids = append(ids, id)
		}
	}
	sort.Strings(ids)
	for _, id := range ids {
		b := env.HCfg.Backends().Items()[id]
		var lines []string
		for _, bp := range b.Paths {
			ae := bp.AuthExternal
			ns, svc, text := resolve(ae.AuthBackendName)
			var vars []string
			for k, v := range ae.HeadersVars {
				vars = append(vars, k+"="+v)
			}
			sort.Strings(vars)
			lines = append(lines, fmt.Sprintf("backend %s path %s%s authext deny=%v to=%s allowed=%s auth=%s redir=%s method=%s req=%v ok=%v fail=%v vars=%v;",
				id, bp.Hostname(), bp.Path(), ae.AlwaysDeny, text, ae.AllowedPath, ae.AuthPath, ae.RedirectOnFail, ae.Method,
				ae.HeadersRequest, ae.HeadersSucceed, ae.HeadersFail, vars))
			if id == "a_svc_8080" && bp.Hostname() == "h0.local" && bp.Path() == "/" {
				deny = ae.AlwaysDeny
				switch {
				case ns == "":
					target = "none"
				case ns == "a":
					target = "own:" + svc
				default:
					target = "foreign:" + svc
				}
			}
		}
		sort.Strings(lines)
		sb.WriteString(strings.Join(lines, ""))
	}
	for _, hn := range env.Hostnames() {
		host := env.HCfg.Hosts().FindHost(hn)
		for _, hp := range host.Paths {
			if hp.Backend.Namespace == "a" {
				fmt.Fprintf(&sb, "host %s path %s -> %s;", hn, hp.Path(), hp.Backend.ID)
			}
		}
	}
	return sb.String(), target, deny
}

func emitOAuth(oc oauthCase) { submit(func() caseOut { return computeOAuth(oc) }) }

func computeOAuth(oc oauthCase) caseOut {
	w1 := runOAuth(oc, true)
	w0 := runOAuth(oc, false)
	var impl string
	if w1.panic || w0.panic {
		impl = "PANIC"
	} else {
		impl = "t=" + w1.target + ";d=" + b2s(w1.deny) + ";u=" + b2s(w1.dump != w0.dump) + ";b=" + w1.dyn
	}
	st := []string{"oauth", "oauth_" + strings.SplitN(strings.SplitN(impl, ";", 2)[0], ":", 2)[0], "oauth_impl_" + oc.impl, "oauth_fu" + oc.fu}
	nb, shared := 0, false
	for _, d := range oc.decls {
		if d.ns == "b" {
			nb++
			if d.host == "h0" {
				shared = true
			}
		}
	}
	if nb > 0 {
		st = append(st, "oauth_with_foreign_decl")
	}
	if shared {
		st = append(st, "oauth_foreign_on_protected_host")
	}
	return caseOut{oc.args(), impl, verboseText(w1.dump, w0.dump, w1.log), st}
}

const (
	pOAuth2      = "/oauth2"
	pOAuth2Slash = "/oauth2/"
	pAuth2       = "/auth2"
)

// the variants the site is described with: namespace a's own proxy on no / the same / another / both
// hostnames, namespace b's proxy on the protected hostname or on another one
func oauthNamed(path string) [][]oauthDecl {
	var res [][]oauthDecl
	for _, own := range [][]string{{}, {"h0"}, {"h1"}, {"h0", "h1"}} {
		for _, bhost := range []string{"h0", "h2"} {
			var ds []oauthDecl
			for _, h := range own {
				ds = append(ds, oauthDecl{"a", h, path, "proxy"})
			}
			ds = append(ds, oauthDecl{"b", bhost, path, "proxy"})
			res = append(res, ds)
		}
	}
	return res
}

// every list of at most n declarations over alphabet
func oauthLists(alphabet []oauthDecl, n int) [][]oauthDecl {
	res := [][]oauthDecl{nil}
	last := [][]oauthDecl{nil}
	for k := 0; k < n; k++ {
		var next [][]oauthDecl
		for _, l := range last {
			for _, d := range alphabet {
				next = append(next, append(append([]oauthDecl{}, l...), d))
			}
		}
		res = append(res, next...)
		last = next
	}
	return res
}

// namespace a's proxies on DIFFERENT hostnames are one and the same Service (before 58bb97c the only lists
// with a deterministic output: Hosts().Items() is a Go map; now a histogram class)
func oauthDeterministic(ds []oauthDecl) bool {
	hosts, svcs := map[string]bool{}, map[string]bool{}
	for _, d := range ds {
		if d.ns == "a" {
			hosts[d.host] = true
			svcs[d.svc] = true
		}
	}
	return len(hosts) <= 1 || len(svcs) <= 1
}

func oauthCases(thorough bool, r *gen.Rng) {
	settings := allSettings()
	// named variants x prefix forms x source x every setting x every history
	type pv struct{ pfx, path string }
	for _, v := range []pv{{"-", pOAuth2}, {hx(pAuth2), pAuth2}, {hx(pAuth2 + "/"), pAuth2 + "/"}, {hx(pAuth2), pOAuth2}, {"-", pOAuth2Slash}} {
		for _, ds := range oauthNamed(v.path) {
			for _, src := range []string{"ing", "svc"} {
				for _, set := range settings {
					for _, fu := range []string{"0", "1", "2"} {
						if !thorough && src == "svc" && fu != "0" && set != "00000" && set != "11111" {
							continue
						}
						emitOAuth(oauthCase{src, "p", v.pfx, ds, set, fu})
					}
				}
				for _, impl := range []string{"h", "x", "u", "n"} {
					for _, fu := range []string{"0", "1", "2"} {
						emitOAuth(oauthCase{src, impl, v.pfx, ds, "00000", fu})
					}
				}
			}
		}
	}
	// exhaustive small scope: every list of <= 2 declarations over {a,b} x {h0,h1} x {/oauth2, /oauth2/}
	var alphabet []oauthDecl
	for _, ns := range []string{"a", "b"} {
		for _, h := range []string{"h0", "h1"} {
			for _, p := range []string{pOAuth2, pOAuth2Slash} {
				alphabet = append(alphabet, oauthDecl{ns, h, p, "proxy"})
			}
		}
	}
	sets := []string{"00000", "11111"}
	fus := []string{"0", "1"}
	if thorough {
		sets = settings
		fus = []string{"0", "1", "2"}
	}
	for _, ds := range oauthLists(alphabet, 2) {
		for _, pf := range []string{"-", hx(pOAuth2Slash), hx(pAuth2)} {
			for _, set := range sets {
				for _, fu := range fus {
					emitOAuth(oauthCase{"ing", "p", pf, ds, set, fu})
				}
			}
		}
	}
	// random: up to 5 declarations, 3 hostnames, 5 paths, 2 Services, every token drawn
	n := 600
	if thorough {
		n = 8000
	}
	paths := []string{pOAuth2, pOAuth2Slash, pAuth2, pAuth2 + "//", "/x"}
	pfxs := []string{"-", "-", hx(pOAuth2), hx(pOAuth2Slash), hx(pAuth2), hx(pAuth2 + "/"), hx("/x"), hx("/")}
	for i := 0; i < n; i++ {
		// (until 58bb97c lists with proxies of namespace a behind DIFFERENT Services on different hostnames
		// were kept out - oauthDeterministic -: the Go map order picked one; the lookup now follows the
		// sorted hostnames and the model predicts which one is taken)
		var ds []oauthDecl
		for k := r.Range(1, 5); k > 0; k-- {
			ds = append(ds, oauthDecl{gen.Pick(r, []string{"a", "b", "b"}), gen.Pick(r, []string{"h0", "h0", "h1", "h2"}),
				gen.Pick(r, paths), gen.Pick(r, []string{"proxy", "proxy2"})})
		}
		if !oauthDeterministic(ds) {
			stat("oauth_several_own_proxies", 1)
		}
		emitOAuth(oauthCase{gen.Pick(r, []string{"ing", "svc"}), gen.Pick(r, []string{"p", "p", "p", "p", "h", "x", "u", "n"}),
			gen.Pick(r, pfxs), ds, gen.Pick(r, settings), gen.Pick(r, []string{"0", "1", "2"})})
	}
}

var allSites = []string{"tls", "tlstcp", "gwcert", "authtls", "authtlstcp", "securecrt", "secureca", "authsecret", "authurl", "authurlfe"}

func siteSources(site string) []string {
	switch site {
	case "securecrt", "secureca", "authsecret", "authurl":
		return []string{"ing", "svc"}
	}
	return []string{"ing"}
}

func siteForms(site string) []string {
	if site == "gwcert" {
		// certificateRefs[].namespace: the attribute names the namespace, the name stays bare
		return []string{"n", "own", "other", "file", "fileb", "secother", "secown", "secn", "nsother", "nsown"}
	}
	if siteKind(site) == "svc" {
		return []string{"n", "own", "other"}
	}
	if siteKind(site) == "pw" {
		return []string{"n", "own", "other", "file", "secother", "secown", "secn"}
	}
	return []string{"n", "own", "other", "file", "fileb", "secother", "secown", "secn"}
}

func allSettings() []string {
	var res []string
	for i := 0; i < 32; i++ {
		res = append(res, fmt.Sprintf("%05b", i))
	}
	return res
}

// corpus: every replay of a past failure stays here. Repaired in /repo: secure-* (c70e6fc),
// auth-url FindBackend (05277b5), auth-secret userlist reuse (6c4b527), file:// nil certificate
// panic (a8c2ec0), Gateway stale permissions (bce3fec).
func corpus() {
	// suspected (a): secure-crt-secret / secure-verify-ca-secret hand the TARGET namespace to the getter
	emitSite(siteCase{"securecrt", "ing", "other", "00000", "0"})
	emitSite(siteCase{"secureca", "svc", "other", "00000", "0"})
	// suspected (b): auth-url svc://other/name:port resolves through FindBackend
	emitSite(siteCase{"authurl", "ing", "other", "00000", "1"})
	emitSite(siteCase{"authurlfe", "ing", "other", "00000", "1"})
	// auth-secret: an existing userlist of another namespace is reused without asking the cache
	emitSite(siteCase{"authsecret", "ing", "other", "00000", "1"})
	// secret://<bare name> in two namespaces: the userlist name must not collapse to one
	emitSite(siteCase{"authsecret", "ing", "secn", "00000", "1"})
	emitSite(siteCase{"authsecret", "svc", "secn", "00000", "1"})
	// file:// in spec.tls[].secretName
	emitSite(siteCase{"tls", "ing", "file", "00000", "0"})
	emitSite(siteCase{"tlstcp", "ing", "file", "00000", "0"})
	emitSite(siteCase{"gwcert", "ing", "file", "00000", "0"})
	emitSite(siteCase{"gwcert", "ing", "other", "00000", "0"})
	emitSite(siteCase{"gwcert", "ing", "nsother", "00000", "0"})
	emitSite(siteCase{"gwcert", "ing", "nsother", "00000", "1"})
	// file:// pointing at the controller's own copy of another namespace's CA bundle
	emitSite(siteCase{"authtls", "ing", "fileb", "00000", "1"})
	// the Gateway converter runs before buildGlobalDynamic: allow -> deny is not seen by certificateRefs
	emitSite(siteCase{"gwcert", "ing", "other", "00000", "2"})
	emitSite(siteCase{"tls", "ing", "other", "00000", "3"})
	emitSite(siteCase{"authsecret", "ing", "other", "00000", "3"})
	emitSite(siteCase{"gwcert", "ing", "other", "01000", "0"})
	// file:// naming the controller's copy of another namespace's secret: one line per key (known findings)
	emitSite(siteCase{"tls", "ing", "fileb", "00000", "1"})
	emitSite(siteCase{"tlstcp", "ing", "fileb", "00000", "1"})
	emitSite(siteCase{"gwcert", "ing", "fileb", "00000", "1"})
	emitSite(siteCase{"securecrt", "ing", "fileb", "00000", "1"})
	emitSite(siteCase{"secureca", "svc", "fileb", "00000", "1"})
	// each key opens only its kind
	emitSite(siteCase{"tls", "ing", "other", "00110", "0"})
	emitSite(siteCase{"authtls", "ing", "other", "01011", "0"})
	emitSite(siteCase{"authsecret", "ing", "other", "01101", "0"})
	emitSite(siteCase{"authurl", "ing", "other", "11110", "0"})
	// oauth: the proxy is found by LOOKUP of the /oauth2 path; seed C09e looked at the protected path's
	// hostname first, without the namespace test (foreign-service-used:oauth): namespace b's proxy on the
	// shared hostname, a without a proxy / with its own proxy on another hostname / Service annotation /
	// configured prefix / partial sync after b
	b0 := oauthDecl{"b", "h0", pOAuth2, "proxy"}
	emitOAuth(oauthCase{"ing", "p", "-", []oauthDecl{b0}, "00000", "0"})
	emitOAuth(oauthCase{"ing", "p", "-", []oauthDecl{{"a", "h1", pOAuth2, "proxy"}, b0}, "00000", "0"})
	emitOAuth(oauthCase{"svc", "h", "-", []oauthDecl{b0}, "00000", "0"})
	emitOAuth(oauthCase{"ing", "p", hx(pAuth2 + "/"), []oauthDecl{{"b", "h0", pAuth2, "proxy"}}, "00000", "1"})
	emitOAuth(oauthCase{"ing", "p", "-", []oauthDecl{b0}, "11111", "2"})
}

func TestC09(t *testing.T) {
	out = bufio.NewWriterSize(os.Stdout, 1<<20)
	defer out.Flush()
	tier := os.Getenv("HV_TIER")
	seed, _ := strconv.ParseUint(os.Getenv("HV_SEED"), 10, 64)
	if replay := os.Getenv("HV_REPLAY"); replay != "" {
		data, err := os.ReadFile(replay)
		if err != nil {
			t.Fatal(err)
		}
		for _, line := range strings.Split(string(data), "\n") {
			if i := strings.Index(line, " => "); i >= 0 {
				line = line[:i]
			}
			f := strings.Fields(line)
			if len(f) < 3 || f[0] != "C09" {
				continue
			}
			switch {
			case f[1] == "brn" && len(f) == 5:
				emitBrn(unhx(f[2]), unhx(f[3]), f[4] == "1")
			case f[1] == "proto" && len(f) == 3:
				emitProto(unhx(f[2]))
			case f[1] == "get" && len(f) == 6:
				emitGet(f[2], f[3], unhx(f[4]), unhx(f[5]))
			case f[1] == "dyn" && len(f) == 4:
				emitDyn(f[2] == "1", f[3])
			case f[1] == "site" && len(f) == 7:
				emitSite(siteCase{f[2], f[3], f[4], f[5], f[6]})
			case f[1] == "legit" && len(f) == 8:
				emitLegit(legitCase{f[2], f[3], f[4], f[5], f[6], f[7]})
			case f[1] == "carrier" && len(f) == 7:
				emitCarrier(carrierCase{f[2], f[3], f[4], f[5], f[6]})
			case f[1] == "oauth" && len(f) == 8:
				if ds, ok := parseDeclsTok(f[5]); ok {
					emitOAuth(oauthCase{f[2], f[3], f[4], ds, f[6], f[7]})
				}
			}
		}
		return
	}
	thorough := tier == "thorough"
	corpus()
	carrierCorpus()
	legitCorpus()

	// --- buildResourceName / getContentProtocol: exhaustive over a small alphabet of shapes
	bodies := []string{"n", "a/n", "b/n", "/n", "b/", "a/", "/", "", "a/b/n", "b/n/", "//n", "a//n"}
	prefixes := []string{"", "secret://", "file://", "http://", "Secret://", "sec-ret://", "s3cret://", "://", "secret:/", "secret:///", "file:///"}
	for _, dns := range []string{"a", "", "b"} {
		for _, b := range bodies {
			for _, allow := range []bool{false, true} {
				emitBrn(dns, b, allow)
			}
		}
	}
	for _, pre := range prefixes {
		for _, b := range bodies {
			emitProto(pre + b)
		}
	}
	emitProto("secret://a\nb")
	emitProto("file://x\n")
	emitProto("abc")
	emitProto("a://b://c")

	// --- getters: every getter x its bit on/off (others all on / all off) x dns x value
	for _, g := range []string{"tls", "ca", "pw", "svc", "dh"} {
		own := map[string]int{"tls": 0, "ca": 1, "pw": 2, "svc": 3, "dh": -1}[g]
		var bitsList []string
		if thorough {
			for i := 0; i < 16; i++ {
				bitsList = append(bitsList, fmt.Sprintf("%04b", i))
			}
		} else {
			for _, o := range []byte{'0', '1'} {
				for _, rest := range []byte{'0', '1'} {
					b := []byte{rest, rest, rest, rest}
					if own >= 0 {
						b[own] = o
					}
					bitsList = append(bitsList, string(b))
				}
			}
		}
		for _, bits := range bitsList {
			for _, dns := range []string{"a", "", "b"} {
				for _, pre := range prefixes {
					for _, b := range bodies {
						if g == "svc" && pre != "" {
							continue
						}
						if strings.HasPrefix(pre, "file:") {
							// a fixed directory that does not exist: no Kubernetes read, deterministic case line
							emitGet(g, bits, dns, pre+"/hv-no-such-dir/"+b)
							continue
						}
						emitGet(g, bits, dns, pre+b)
					}
				}
			}
		}
	}

	// --- buildGlobalDynamic: 2^4 allow/deny x static, then every odd value on every key
	for _, static := range []bool{false, true} {
		for i := 0; i < 16; i++ {
			toks := []byte("dddd")
			for k := 0; k < 4; k++ {
				if i&(1<<k) != 0 {
					toks[k] = 'a'
				}
			}
			emitDyn(static, string(toks))
		}
		for k := 0; k < 4; k++ {
			var dtoks []byte
			for tok := range dynValues {
				dtoks = append(dtoks, tok)
			}
			sort.Slice(dtoks, func(i, j int) bool { return dtoks[i] < dtoks[j] })
			for _, tok := range dtoks {
				toks := []byte("----")
				toks[k] = tok
				emitDyn(static, string(toks))
			}
		}
		emitDyn(static, "----")
	}

	// --- reference sites: every site x source x value form x 2^4 bits x static x foreign use
	r := gen.New(seed)
	batching = true
	oauthCases(thorough, r.Fork())
	// --- the annotated Service reached through a reference whose source is not in its namespace
	carrierCases(thorough)
	for _, site := range allSites {
		for _, src := range siteSources(site) {
			for _, form := range siteForms(site) {
				for _, set := range allSettings() {
					for _, fu := range []string{"0", "1", "2"} {
						emitSite(siteCase{site, src, form, set, fu})
					}
					if set[1:] == "0000" {
						// permissions withdrawn by emptying the ConfigMap
						emitSite(siteCase{site, src, form, set, "3"})
					}
				}
			}
		}
	}
	// --- the foreign secret is also used, legitimately, by its own namespace in the same / another sync
	legitCases(thorough)
	flushBatch()
	batching = false
	if getterEnv != nil {
		getterEnv.Close()
	}
	keys := make([]string, 0, len(stats))
	for k := range stats {
		keys = append(keys, k)
	}
	sort.Strings(keys)
	for _, k := range keys {
		fmt.Fprintf(out, "#stat %s %d\n", k, stats[k])
	}
}
