//go:build verif

// Package c08class drives, for property C08,
//
//   - the REAL cache facade of pkg/controller/services (IsValidIngress, GetIngress, GetIngressList)
//     over a controller-runtime fake client (hook pkg/controller/services/verif_export.go),
//   - the REAL watchers of pkg/controller/reconciler (Ingress and IngressClass handlers with their
//     predicates, getChangedObjects; hook pkg/controller/reconciler/verif_export.go) with that
//     facade as their IsValidResource,
//   - the REAL converters (converters.NewConverter(...).Sync over a haproxy.Instance model) for the
//     `world` cases, one reconciliation per event as the controller does.
//
// Case lines: see lean/HapVerif/Drv/C08.lean.
package c08class

import (
	"bufio"
	"context"
	"fmt"
	"os"
	"reflect"
	"sort"
	"strconv"
	"strings"
	"testing"
	"time"

	api "k8s.io/api/core/v1"
	networking "k8s.io/api/networking/v1"
	metav1 "k8s.io/apimachinery/pkg/apis/meta/v1"
	"k8s.io/apimachinery/pkg/util/intstr"
	"sigs.k8s.io/controller-runtime/pkg/client"
	"sigs.k8s.io/controller-runtime/pkg/event"

	"github.com/jcmoraisjr/haproxy-ingress/pkg/controller/reconciler"
	"github.com/jcmoraisjr/haproxy-ingress/pkg/controller/services"
	convtypes "github.com/jcmoraisjr/haproxy-ingress/pkg/converters/types"

	"hapverif/gen"
	"hapverif/xnsworld"
)

var (
	out   *bufio.Writer
	stats = map[string]int{}
)

func emit(args, impl string) { fmt.Fprintf(out, "C08 %s => %s\n", args, impl) }
func stat(k string, n int)   { stats[k] += n }

const classAnn = "kubernetes.io/ingress.class"

var annTok = []string{"-", "o", "f", "f1", "f2"}
var clsTok = []string{"-", "o", "f", "d", "d1", "o1", "f3"}
var annMain = []string{"-", "o", "f"}
var clsMain = []string{"-", "o", "f", "d"}
var cfgTok = []string{"00", "01", "10", "11"}

func annValue(t string) (string, bool) {
	switch t {
	case "o":
		return xnsworld.IngressClass, true
	case "f":
		return "nginx", true
	case "f1":
		return "", true
	case "f2":
		return "HAProxy", true
	}
	return "", false
}

func clsValue(t string) *string {
	var s string
	switch t {
	case "o":
		s = "cls-ours"
	case "f":
		s = "cls-foreign"
	case "o1":
		s = "cls-ours-term"
	case "f3":
		s = "cls-foreign-term"
	case "d":
		s = "missing"
	case "d1":
		s = ""
	default:
		return nil
	}
	return &s
}

// foreign controller names: an unrelated one and names NEAR ours (a sub-path of ours - the documented name of a
// sibling instance started with --controller-class -, ours with a suffix, a proper prefix of ours, another case):
// all of them belong to ANOTHER controller; the harness cycles through them (seed C08g accepts sub-paths of ours)
var foreignCtrlN int

func foreignCtrl() string {
	names := []string{"k8s.io/ingress-nginx", xnsworld.ControllerName + "/internal", xnsworld.ControllerName + "-2",
		xnsworld.ControllerName[:len(xnsworld.ControllerName)-1], strings.ToUpper(xnsworld.ControllerName), xnsworld.ControllerName + "/"}
	foreignCtrlN++
	return names[foreignCtrlN%len(names)]
}

var terminating = metav1.NewTime(time.Date(2024, 1, 1, 0, 0, 0, 0, time.UTC))

func classObjs() []client.Object {
	return []client.Object{
		&networking.IngressClass{ObjectMeta: metav1.ObjectMeta{Name: "cls-ours", Generation: 1},
			Spec: networking.IngressClassSpec{Controller: xnsworld.ControllerName}},
		&networking.IngressClass{ObjectMeta: metav1.ObjectMeta{Name: "cls-foreign", Generation: 1},
			Spec: networking.IngressClassSpec{Controller: foreignCtrl()}},
		// classes that are being deleted (foreground deletion / a finalizer of a GitOps tool): they still exist and
		// still name their controller (after seed C08h)
		&networking.IngressClass{ObjectMeta: metav1.ObjectMeta{Name: "cls-ours-term", Generation: 1,
			DeletionTimestamp: &terminating, Finalizers: []string{"example.com/hold"}},
			Spec: networking.IngressClassSpec{Controller: xnsworld.ControllerName}},
		&networking.IngressClass{ObjectMeta: metav1.ObjectMeta{Name: "cls-foreign-term", Generation: 1,
			DeletionTimestamp: &terminating, Finalizers: []string{"example.com/hold"}},
			Spec: networking.IngressClassSpec{Controller: foreignCtrl()}},
	}
}

type fp struct{ annRest, specRest, metaRest int }

func mkIng(name, ann, cls string, f fp) *networking.Ingress {
	pt := networking.PathTypePrefix
	ing := &networking.Ingress{
		ObjectMeta: metav1.ObjectMeta{Namespace: "a", Name: name, Generation: 1,
			Annotations: map[string]string{xnsworld.AnnPrefix + "/balance-algorithm": []string{"roundrobin", "leastconn", "first", "source"}[f.annRest%4]},
			Labels:      map[string]string{"rev": strconv.Itoa(f.metaRest)}},
		Spec: networking.IngressSpec{
			IngressClassName: clsValue(cls),
			Rules: []networking.IngressRule{{
				Host: name + ".local",
				IngressRuleValue: networking.IngressRuleValue{HTTP: &networking.HTTPIngressRuleValue{
					Paths: []networking.HTTPIngressPath{{
						Path: "/p" + strconv.Itoa(f.specRest), PathType: &pt,
						Backend: networking.IngressBackend{Service: &networking.IngressServiceBackend{
							Name: "svc", Port: networking.ServiceBackendPort{Number: 8080}}},
					}},
				}},
			}},
		},
	}
	if v, ok := annValue(ann); ok {
		ing.Annotations[classAnn] = v
	}
	return ing
}

// apiUpdate does what the API server does on an update: metadata.generation is bumped iff the spec changed.
func apiUpdate(old, new *networking.Ingress) {
	new.Generation = old.Generation
	if !reflect.DeepEqual(old.Spec, new.Spec) {
		new.Generation++
	}
	new.ResourceVersion = old.ResourceVersion
}

func settings(cfg string) xnsworld.Settings {
	return xnsworld.Settings{WatchWithoutClass: cfg[0] == '1', ClassPrecedence: cfg[1] == '1'}
}

func b2s(b bool) string {
	if b {
		return "1"
	}
	return "0"
}

// ---------------------------------------------------------------- valid

func emitValid(cfg, ann, cls string) {
	name := "i"
	ing := mkIng(name, ann, cls, fp{})
	other := mkIng("other", "o", "-", fp{}) // a second, always... (selected only by annotation) object in the list
	env := xnsworld.NewEnv(settings(cfg), append(classObjs(), ing, other)...)
	defer env.Close()
	impl := func() (s string) {
		defer func() {
			if r := recover(); r != nil {
				s = "PANIC"
			}
		}()
		v := env.Cache.IsValidIngress(ing.DeepCopy())
		got, err := env.Cache.GetIngress("a/" + name)
		g := err == nil && got != nil && got.Name == name
		list, err := env.Cache.GetIngressList()
		l := false
		if err == nil {
			for _, x := range list {
				if x.Namespace == "a" && x.Name == name {
					l = true
				}
			}
		}
		return b2s(v) + b2s(g) + b2s(l)
	}()
	emit("valid "+cfg+" "+ann+" "+cls, impl)
	stat("valid", 1)
	stat("valid_"+impl, 1)
}

// ---------------------------------------------------------------- watchers

type wworld struct {
	env  *xnsworld.Env
	w    *reconciler.VerifWatchers
	ing  reconciler.VerifHandler
	icl  reconciler.VerifHandler
	q    *reconciler.VerifQueue
	ctx  context.Context
	objs map[int]*networking.Ingress
	fps  map[int]fp
}

func newWWorld(cfg string, objs ...client.Object) *wworld {
	env := xnsworld.NewEnv(settings(cfg), objs...)
	ww := &wworld{env: env, ctx: context.Background(), q: &reconciler.VerifQueue{},
		objs: map[int]*networking.Ingress{}, fps: map[int]fp{}}
	ww.w = reconciler.VerifCreateWatchers(ww.ctx, env.Cfg, env.Cache)
	for _, h := range ww.w.Handlers() {
		switch h.Type().(type) {
		case *networking.Ingress:
			ww.ing = h
		case *networking.IngressClass:
			ww.icl = h
		}
	}
	return ww
}

// fire applies the predicates as controller-runtime's source.Kind does (conjunction), then the handler.
func fire(h reconciler.VerifHandler, ctx context.Context, q *reconciler.VerifQueue, typ byte, old, new client.Object) bool {
	switch typ {
	case 'c':
		for _, p := range h.Predicates() {
			if !p.Create(event.CreateEvent{Object: new}) {
				return false
			}
		}
		h.Create(ctx, new, q)
	case 'u':
		for _, p := range h.Predicates() {
			if !p.Update(event.UpdateEvent{ObjectOld: old, ObjectNew: new}) {
				return false
			}
		}
		h.Update(ctx, old, new, q)
	case 'd':
		for _, p := range h.Predicates() {
			if !p.Delete(event.DeleteEvent{Object: old}) {
				return false
			}
		}
		h.Delete(ctx, old, q)
	}
	return true
}

// where did the event land: `-` or `+`-joined `<list>:<o|n|?>`
func landed(ch *convtypes.ChangedObjects, old, new *networking.Ingress) string {
	var res []string
	id := func(x *networking.Ingress) string {
		switch {
		case new != nil && x == new:
			return "n"
		case old != nil && x == old:
			return "o"
		}
		return "?"
	}
	for _, x := range ch.IngressesAdd {
		res = append(res, "A:"+id(x))
	}
	for _, x := range ch.IngressesUpd {
		res = append(res, "U:"+id(x))
	}
	for _, x := range ch.IngressesDel {
		res = append(res, "D:"+id(x))
	}
	if len(res) == 0 {
		return "-"
	}
	return strings.Join(res, "+")
}

func (ww *wworld) event(typ byte, old, new *networking.Ingress) (s string) {
	defer func() {
		if r := recover(); r != nil {
			s = "PANIC"
		}
	}()
	var o, n client.Object
	if old != nil {
		o = old
	}
	if new != nil {
		n = new
	}
	accepted := fire(ww.ing, ww.ctx, ww.q, typ, o, n)
	ch := ww.w.GetChangedObjects()
	s = landed(ch, old, new)
	if accepted != (len(ch.Links[convtypes.ResourceIngress]) > 0) {
		s += "+links-mismatch"
	}
	return s
}

func touch(f fp, t string) fp {
	switch t {
	case "a":
		f.annRest++
	case "s":
		f.specRest++
	case "m":
		f.metaRest++
	}
	return f
}

func emitEvC(cfg string, typ byte, ann, cls string) {
	ww := newWWorld(cfg, classObjs()...)
	defer ww.env.Close()
	ing := mkIng("i", ann, cls, fp{})
	var impl string
	if typ == 'c' {
		impl = ww.event('c', nil, ing)
	} else {
		impl = ww.event('d', ing, nil)
	}
	emit(fmt.Sprintf("ev %s %c %s/%s", cfg, typ, ann, cls), impl)
	stat("ev_"+string(typ), 1)
	stat("ev_"+string(typ)+"_"+impl, 1)
}

func emitEvU(ww *wworld, cfg, a1, c1, a2, c2, t string) {
	old := mkIng("i", a1, c1, fp{})
	new := mkIng("i", a2, c2, touch(fp{}, t))
	apiUpdate(old, new)
	impl := ww.event('u', old, new)
	emit(fmt.Sprintf("ev %s u %s/%s %s/%s %s", cfg, a1, c1, a2, c2, t), impl)
	stat("ev_u", 1)
	stat("ev_u_"+impl, 1)
}

// ---------------------------------------------------------------- histories

func (ww *wworld) histOp(op string) string {
	f := strings.Split(op, ":")
	if len(f[0]) < 2 {
		return "-"
	}
	i, err := strconv.Atoi(f[0][1:])
	if err != nil {
		return "-"
	}
	name := "i" + strconv.Itoa(i)
	var res string
	switch {
	case f[0][0] == 'c' && len(f) == 2:
		if ww.objs[i] != nil {
			return "-"
		}
		ac := strings.Split(f[1], "/")
		ing := mkIng(name, ac[0], ac[1], fp{})
		ww.objs[i], ww.fps[i] = ing, fp{}
		res = ww.event('c', nil, ing)
	case f[0][0] == 'u' && len(f) == 3:
		old := ww.objs[i]
		if old == nil {
			return "-"
		}
		ac := strings.Split(f[1], "/")
		nf := touch(ww.fps[i], f[2])
		ing := mkIng(name, ac[0], ac[1], nf)
		apiUpdate(old, ing)
		ww.objs[i], ww.fps[i] = ing, nf
		res = ww.event('u', old, ing)
	case f[0][0] == 'd' && len(f) == 1:
		old := ww.objs[i]
		if old == nil {
			return "-"
		}
		delete(ww.objs, i)
		delete(ww.fps, i)
		res = ww.event('d', old, nil)
	default:
		return "-"
	}
	switch res {
	case "A:n":
		return "A"
	case "U:n":
		return "U"
	case "D:o":
		return "D"
	case "-":
		return "-"
	}
	return "X"
}

// the watchers keep no state across a swap (besides the ConfigMap chain, unused here): one
// watcher set per configuration serves all histories
var histWorlds = map[string]*wworld{}

func emitHist(cfg string, ops []string) {
	ww := histWorlds[cfg]
	if ww == nil {
		ww = newWWorld(cfg, classObjs()...)
		histWorlds[cfg] = ww
	}
	ww.objs, ww.fps = map[int]*networking.Ingress{}, map[int]fp{}
	var sb strings.Builder
	for _, op := range ops {
		sb.WriteString(ww.histOp(op))
	}
	emit("hist "+cfg+" "+strings.Join(ops, ","), sb.String())
	stat("hist", 1)
	stat("hist_len_"+strconv.Itoa(len(ops)), 1)
}

// ---------------------------------------------------------------- world (real converter)

type cworld struct {
	*wworld
	cls   string // n o f
	ing   *networking.Ingress
	first bool
	shape string // r = one rule (host ing.local), d = spec.defaultBackend only, t = spec.tls only, x = defaultBackend + tls
}

func newCWorld(cfg string) *cworld {
	svc := &api.Service{ObjectMeta: metav1.ObjectMeta{Namespace: "a", Name: "svc"},
		Spec: api.ServiceSpec{ClusterIP: "10.0.0.1", Ports: []api.ServicePort{{Port: 8080, TargetPort: intstr.FromInt(8080)}}}}
	ep := &api.Endpoints{ObjectMeta: metav1.ObjectMeta{Namespace: "a", Name: "svc"},
		Subsets: []api.EndpointSubset{{Addresses: []api.EndpointAddress{{IP: "172.17.0.11"}},
			Ports: []api.EndpointPort{{Port: 8080, Protocol: api.ProtocolTCP}}}}}
	cw := &cworld{wworld: newWWorld(cfg, svc, ep), cls: "n", first: true}
	cw.reconcile() // start-up: full sync of the empty cluster
	return cw
}

func (cw *cworld) reconcile() {
	ch := cw.w.GetChangedObjects()
	if cw.first {
		ch.GlobalConfigMapDataNew = map[string]string{}
		cw.first = false
	} else if ch.GlobalConfigMapDataCur == nil {
		ch.GlobalConfigMapDataCur = map[string]string{}
	}
	cw.env.Sync(ch)
	cw.env.Commit()
}

func (cw *cworld) mkIng2(ann string, ref bool) *networking.Ingress {
	ing := mkIng("ing", ann, "-", fp{})
	if ref {
		s := "cls"
		ing.Spec.IngressClassName = &s
	}
	// shapes without an HTTP rule: the converter reaches the IngressClass of such an ingress on other code paths
	if cw.shape != "" && cw.shape != "r" {
		ing.Spec.Rules = nil
		if cw.shape == "d" || cw.shape == "x" {
			ing.Spec.DefaultBackend = &networking.IngressBackend{Service: &networking.IngressServiceBackend{
				Name: "svc", Port: networking.ServiceBackendPort{Number: 8080}}}
		}
		if cw.shape == "t" || cw.shape == "x" {
			ing.Spec.TLS = []networking.IngressTLS{{Hosts: []string{"ing.local"}}}
		}
	}
	return ing
}

func (cw *cworld) op(op string) (flag string) {
	defer func() {
		if r := recover(); r != nil {
			flag = "P"
		}
	}()
	ctx := cw.ctx
	f := strings.Split(op, ":")
	switch f[0] {
	case "ic", "iu":
		ar := strings.Split(f[1], "/")
		ing := cw.mkIng2(ar[0], ar[1] == "r")
		if f[0] == "ic" {
			if cw.ing == nil {
				must(cw.env.Cli.Create(ctx, ing.DeepCopy()))
				cw.ing = ing
				fire(cw.wworld.ing, ctx, cw.q, 'c', nil, ing)
			}
		} else if cw.ing != nil {
			old := cw.ing
			apiUpdate(old, ing)
			cur := &networking.Ingress{}
			must(cw.env.Cli.Get(ctx, client.ObjectKeyFromObject(ing), cur))
			upd := ing.DeepCopy()
			upd.ResourceVersion = cur.ResourceVersion
			must(cw.env.Cli.Update(ctx, upd))
			cw.ing = ing
			fire(cw.wworld.ing, ctx, cw.q, 'u', old, ing)
		}
	case "id":
		if cw.ing != nil {
			must(cw.env.Cli.Delete(ctx, cw.ing.DeepCopy()))
			old := cw.ing
			cw.ing = nil
			fire(cw.wworld.ing, ctx, cw.q, 'd', old, nil)
		}
	case "k":
		mk := func(k string, gen int64) *networking.IngressClass {
			ctrl := xnsworld.ControllerName
			if k == "f" {
				ctrl = foreignCtrl()
			}
			return &networking.IngressClass{ObjectMeta: metav1.ObjectMeta{Name: "cls", Generation: gen},
				Spec: networking.IngressClassSpec{Controller: ctrl}}
		}
		k := f[1]
		switch {
		case k == cw.cls:
		case cw.cls == "n":
			obj := mk(k, 1)
			must(cw.env.Cli.Create(ctx, obj.DeepCopy()))
			fire(cw.icl, ctx, cw.q, 'c', nil, obj)
		case k == "n":
			old := mk(cw.cls, 1)
			must(cw.env.Cli.Delete(ctx, old.DeepCopy()))
			fire(cw.icl, ctx, cw.q, 'd', old, nil)
		default:
			old, obj := mk(cw.cls, 1), mk(k, 2)
			cur := &networking.IngressClass{}
			must(cw.env.Cli.Get(ctx, client.ObjectKeyFromObject(obj), cur))
			upd := obj.DeepCopy()
			upd.ResourceVersion = cur.ResourceVersion
			must(cw.env.Cli.Update(ctx, upd))
			fire(cw.icl, ctx, cw.q, 'u', old, obj)
		}
		cw.cls = k
	}
	cw.env.Cli.Reads()
	cw.reconcile()
	// the only ingress of this world is `ing`: any host entry (ing.local by rule or tls block, <default> by
	// spec.defaultBackend) is its contribution
	if len(cw.env.Hostnames()) > 0 {
		return "1"
	}
	return "0"
}

func must(err error) {
	if err != nil {
		panic(err)
	}
}

func emitWorld(cfgShape string, ops []string) {
	cfg, shape := cfgShape, "r"
	if i := strings.IndexByte(cfgShape, ':'); i >= 0 {
		cfg, shape = cfgShape[:i], cfgShape[i+1:]
	}
	cw := newCWorld(cfg)
	cw.shape = shape
	defer cw.env.Close()
	var sb strings.Builder
	for _, op := range ops {
		sb.WriteString(cw.op(op))
	}
	emit("world "+cfgShape+" "+strings.Join(ops, ","), sb.String())
	stat("world", 1)
	stat("world_shape_"+shape, 1)
	stat("world_len_"+strconv.Itoa(len(ops)), 1)
}

// ---------------------------------------------------------------- listings (GetIngressList, full syncs)

// orderClient: the client the facade reads from, listing Ingresses in a chosen order. client.List of
// the informer cache gives no order guarantee (it iterates an index map), so every order is a legal answer.
// Named ingresses come first (first occurrence in order), the others follow in name order.
type orderClient struct {
	client.Client
	order []string
}

func (o *orderClient) List(ctx context.Context, list client.ObjectList, opts ...client.ListOption) error {
	if err := o.Client.List(ctx, list, opts...); err != nil {
		return err
	}
	if l, ok := list.(*networking.IngressList); ok {
		rank := map[string]int{}
		for i, n := range o.order {
			if _, dup := rank[n]; !dup {
				rank[n] = i
			}
		}
		sort.SliceStable(l.Items, func(a, b int) bool {
			ra, oka := rank[l.Items[a].Name]
			rb, okb := rank[l.Items[b].Name]
			switch {
			case oka && okb:
				return ra < rb
			case oka != okb:
				return oka
			}
			return l.Items[a].Name < l.Items[b].Name
		})
	}
	return nil
}

// orderedFacade replaces the facade of env by a REAL facade (same constructor, same configuration, tracker and
// dynamic config) reading through an orderClient, for the converters as well.
func orderedFacade(env *xnsworld.Env) *orderClient {
	oc := &orderClient{Client: env.Cli}
	env.Cache = services.VerifCreateCacheFacade(context.Background(), oc, env.Cfg, env.Tracker,
		services.CreateSSLCerts(env.Cfg), env.Dyn, func(client.Object) {})
	env.Opts.Cache = env.Cache
	return oc
}

func ingName(i int) string { return "i" + strconv.Itoa(i) }

func orderNames(digits string) []string {
	var res []string
	for _, ch := range digits {
		res = append(res, ingName(int(ch-'0')))
	}
	return res
}

// emitList: a cluster of ingresses i0..i(n-1) with the given class states, listed by the client in `order`,
// handed to the real GetIngressList. Output: the indexes of the returned ingresses in answer order.
func emitList(cfg string, items []string, order string) {
	objs := classObjs()
	for k, it := range items {
		ac := strings.Split(it, "/")
		objs = append(objs, mkIng(ingName(k), ac[0], ac[1], fp{}))
	}
	env := xnsworld.NewEnv(settings(cfg), objs...)
	defer env.Close()
	oc := orderedFacade(env)
	oc.order = orderNames(order)
	impl := func() (s string) {
		defer func() {
			if r := recover(); r != nil {
				s = "PANIC"
			}
		}()
		list, err := env.Cache.GetIngressList()
		if err != nil {
			return "ERR"
		}
		var ids []string
		for _, x := range list {
			k, err := strconv.Atoi(strings.TrimPrefix(x.Name, "i"))
			if err != nil || x.Namespace != "a" || k >= len(items) {
				k = 99
			}
			ids = append(ids, strconv.Itoa(k))
		}
		if len(ids) == 0 {
			return "-"
		}
		return strings.Join(ids, ",")
	}()
	emit("list "+cfg+" "+strings.Join(items, ",")+" "+order, impl)
	stat("list", 1)
	stat("list_n_"+strconv.Itoa(len(items)), 1)
	for _, it := range items {
		if strings.HasPrefix(it, "f1/") {
			stat("list_has_empty_annotation", 1)
			break
		}
	}
}

// lworld: several ingresses through real watchers + real converters over the ordering facade.
type lworld struct {
	*wworld
	oc    *orderClient
	first bool
	dom   map[int]bool
	n     int
}

func newLWorld(cfg string, n int) *lworld {
	svc := &api.Service{ObjectMeta: metav1.ObjectMeta{Namespace: "a", Name: "svc"},
		Spec: api.ServiceSpec{ClusterIP: "10.0.0.1", Ports: []api.ServicePort{{Port: 8080, TargetPort: intstr.FromInt(8080)}}}}
	ep := &api.Endpoints{ObjectMeta: metav1.ObjectMeta{Namespace: "a", Name: "svc"},
		Subsets: []api.EndpointSubset{{Addresses: []api.EndpointAddress{{IP: "172.17.0.11"}},
			Ports: []api.EndpointPort{{Port: 8080, Protocol: api.ProtocolTCP}}}}}
	env := xnsworld.NewEnv(settings(cfg), append(classObjs(), svc, ep)...)
	oc := orderedFacade(env) // before the watchers: they validate through the same facade
	ww := &wworld{env: env, ctx: context.Background(), q: &reconciler.VerifQueue{},
		objs: map[int]*networking.Ingress{}, fps: map[int]fp{}}
	ww.w = reconciler.VerifCreateWatchers(ww.ctx, env.Cfg, env.Cache)
	for _, h := range ww.w.Handlers() {
		switch h.Type().(type) {
		case *networking.Ingress:
			ww.ing = h
		case *networking.IngressClass:
			ww.icl = h
		}
	}
	lw := &lworld{wworld: ww, oc: oc, first: true, dom: map[int]bool{}, n: n}
	lw.reconcile(false) // start-up: full sync of the empty cluster
	return lw
}

func (lw *lworld) reconcile(full bool) {
	ch := lw.w.GetChangedObjects()
	if lw.first {
		ch.GlobalConfigMapDataNew = map[string]string{}
		lw.first = false
	} else if ch.GlobalConfigMapDataCur == nil {
		ch.GlobalConfigMapDataCur = map[string]string{}
	}
	if full {
		// what reconciler.go does with a queued item whose fullsync flag is set (a handler with full: true,
		// leader change, start-up)
		ch.NeedFullSync = true
	}
	lw.env.Sync(ch)
	lw.env.Commit()
}

func (lw *lworld) bits() string {
	hosts := map[string]bool{}
	for _, h := range lw.env.Hostnames() {
		hosts[h] = true
	}
	var sb strings.Builder
	for k := 0; k < lw.n; k++ {
		sb.WriteString(b2s(hosts[ingName(k)+".local"]))
	}
	return sb.String()
}

func (lw *lworld) op(op string) (res string) {
	defer func() {
		if r := recover(); r != nil {
			res = strings.Repeat("P", lw.n)
		}
	}()
	ctx := lw.ctx
	if strings.HasPrefix(op, "F") {
		named := map[int]bool{}
		for _, ch := range op[1:] {
			named[int(ch-'0')] = true
		}
		for k := range lw.dom {
			if !named[k] {
				return lw.bits() // not an answer of a consistent client: skipped (as in the model)
			}
		}
		lw.oc.order = orderNames(op[1:])
		lw.reconcile(true)
		return lw.bits()
	}
	f := strings.Split(op, ":")
	i, err := strconv.Atoi(f[0][1:])
	must(err)
	lw.dom[i] = true
	name := ingName(i)
	switch {
	case f[0][0] == 'c' && len(f) == 2:
		if lw.objs[i] == nil {
			ac := strings.Split(f[1], "/")
			ing := mkIng(name, ac[0], ac[1], fp{})
			must(lw.env.Cli.Create(ctx, ing.DeepCopy()))
			lw.objs[i], lw.fps[i] = ing, fp{}
			fire(lw.ing, ctx, lw.q, 'c', nil, ing)
		}
	case f[0][0] == 'u' && len(f) == 3:
		if old := lw.objs[i]; old != nil {
			ac := strings.Split(f[1], "/")
			nf := touch(lw.fps[i], f[2])
			ing := mkIng(name, ac[0], ac[1], nf)
			apiUpdate(old, ing)
			cur := &networking.Ingress{}
			must(lw.env.Cli.Get(ctx, client.ObjectKeyFromObject(ing), cur))
			upd := ing.DeepCopy()
			upd.ResourceVersion = cur.ResourceVersion
			must(lw.env.Cli.Update(ctx, upd))
			lw.objs[i], lw.fps[i] = ing, nf
			fire(lw.ing, ctx, lw.q, 'u', old, ing)
		}
	case f[0][0] == 'd' && len(f) == 1:
		if old := lw.objs[i]; old != nil {
			must(lw.env.Cli.Delete(ctx, old.DeepCopy()))
			delete(lw.objs, i)
			delete(lw.fps, i)
			fire(lw.ing, ctx, lw.q, 'd', old, nil)
		}
	}
	lw.env.Cli.Reads()
	lw.reconcile(false)
	return lw.bits()
}

func lsyncN(ops []string) int {
	n := 0
	for _, op := range ops {
		if strings.HasPrefix(op, "F") || len(op) < 2 {
			continue
		}
		if i, err := strconv.Atoi(strings.Split(op, ":")[0][1:]); err == nil && i > n {
			n = i
		}
	}
	return n + 1
}

func emitLSync(cfg string, ops []string) {
	lw := newLWorld(cfg, lsyncN(ops))
	defer lw.env.Close()
	res := make([]string, len(ops))
	for k, op := range ops {
		res[k] = lw.op(op)
	}
	emit("lsync "+cfg+" "+strings.Join(ops, ","), strings.Join(res, "/"))
	stat("lsync", 1)
	stat("lsync_ingresses_"+strconv.Itoa(lw.n), 1)
	nf := 0
	for _, op := range ops {
		if strings.HasPrefix(op, "F") {
			nf++
		}
	}
	stat("lsync_full_syncs", nf)
}

func perms(n int) []string {
	var res []string
	var rec func(prefix string, used int)
	rec = func(prefix string, used int) {
		if len(prefix) == n {
			res = append(res, prefix)
			return
		}
		for k := 0; k < n; k++ {
			if used&(1<<k) == 0 {
				rec(prefix+strconv.Itoa(k), used|1<<k)
			}
		}
	}
	rec("", 0)
	return res
}

// the four states of the class annotation (absent, present and empty, ours, another value) x the class states
var annFour = []string{"-", "f1", "o", "f"}

func classStates(anns, clss []string) []string {
	var res []string
	for _, a := range anns {
		for _, c := range clss {
			res = append(res, a+"/"+c)
		}
	}
	return res
}

func genLists(r *gen.Rng, thorough bool) {
	// exhaustive: every ordered pair of class states, both listing orders (quick: the four annotation states x
	// four class states; thorough: every value variant)
	states := classStates(annFour, clsMain)
	if thorough {
		states = classStates(annTok, clsTok)
	}
	for _, cfg := range cfgTok {
		for _, x := range states {
			for _, y := range states {
				emitList(cfg, []string{x, y}, "01")
				emitList(cfg, []string{x, y}, "10")
			}
		}
	}
	// random clusters of 3 and 4 with mixed states: every listing order of 3, a sample of the orders of 4
	all := classStates(annTok, clsTok)
	p3, p4 := perms(3), perms(4)
	nl := 150
	if thorough {
		nl = 3000
	}
	for i := 0; i < nl; i++ {
		cfg := gen.Pick(r, cfgTok)
		n := r.Range(3, 4)
		items := make([]string, n)
		for k := range items {
			// half of the members share the ingressClassName / annotation value of another member
			if k > 0 && r.Range(0, 1) == 0 {
				prev := strings.Split(items[r.Range(0, k-1)], "/")
				if r.Range(0, 1) == 0 {
					items[k] = gen.Pick(r, annFour) + "/" + prev[1]
				} else {
					items[k] = prev[0] + "/" + gen.Pick(r, clsTok)
				}
				continue
			}
			items[k] = gen.Pick(r, all)
		}
		if n == 3 {
			for _, p := range p3 {
				emitList(cfg, items, p)
			}
		} else {
			emitList(cfg, items, "0123")
			emitList(cfg, items, "3210")
			for j := 0; j < 3; j++ {
				emitList(cfg, items, gen.Pick(r, p4))
			}
		}
	}
}

func genLSync(r *gen.Rng, thorough bool) {
	// exhaustive: two ingresses created by events (partial syncs), then a full sync in each listing order, then the
	// first one updated to the state of the second and a full sync again
	states := classStates(annFour, []string{"-", "o"})
	if thorough {
		states = classStates(annFour, clsMain)
	}
	for _, cfg := range cfgTok {
		for _, x := range states {
			for _, y := range states {
				emitLSync(cfg, []string{"c0:" + x, "c1:" + y, "F01", "F10"})
				emitLSync(cfg, []string{"c1:" + y, "c0:" + x, "F10", "u0:" + y + ":0", "F01"})
			}
		}
	}
	// random histories over 2..4 ingresses: events and full syncs in random listing orders
	all := classStates(annTok, clsTok)
	nl := 250
	if thorough {
		nl = 4000
	}
	for i := 0; i < nl; i++ {
		cfg := gen.Pick(r, cfgTok)
		n := r.Range(2, 4)
		ps := perms(n)
		l := r.Range(3, 9)
		ops := make([]string, 0, l+1)
		last := ""
		for j := 0; j < l; j++ {
			k := r.Range(0, n-1)
			st := gen.Pick(r, all)
			if last != "" && r.Range(0, 2) == 0 {
				// the same ingressClassName as the last one written, another annotation state
				st = gen.Pick(r, annFour) + "/" + strings.Split(last, "/")[1]
			}
			switch r.Range(0, 9) {
			case 0, 1, 2, 3:
				ops = append(ops, fmt.Sprintf("c%d:%s", k, st))
				last = st
			case 4, 5:
				ops = append(ops, fmt.Sprintf("u%d:%s:%s", k, st, gen.Pick(r, []string{"0", "0", "a", "s", "m"})))
				last = st
			case 6:
				ops = append(ops, fmt.Sprintf("d%d", k))
			default:
				ops = append(ops, "F"+gen.Pick(r, ps))
			}
		}
		ops = append(ops, "F"+gen.Pick(r, ps))
		emitLSync(cfg, ops)
	}
}

// ---------------------------------------------------------------- generators

func histAlphabet(anns, clss []string, ings int, touches []string) []string {
	var res []string
	for i := 0; i < ings; i++ {
		for _, a := range anns {
			for _, c := range clss {
				res = append(res, fmt.Sprintf("c%d:%s/%s", i, a, c))
				for _, t := range touches {
					res = append(res, fmt.Sprintf("u%d:%s/%s:%s", i, a, c, t))
				}
			}
		}
		res = append(res, fmt.Sprintf("d%d", i))
	}
	return res
}

func worldAlphabet() []string {
	var res []string
	for _, a := range annMain {
		for _, r := range []string{"-", "r"} {
			res = append(res, "ic:"+a+"/"+r, "iu:"+a+"/"+r)
		}
	}
	return append(res, "id", "k:n", "k:o", "k:f")
}

func sequences(alpha []string, n int, f func([]string)) {
	var rec func(prefix []string)
	rec = func(prefix []string) {
		if len(prefix) > 0 {
			f(prefix)
		}
		if len(prefix) == n {
			return
		}
		for _, a := range alpha {
			rec(append(append([]string{}, prefix...), a))
		}
	}
	rec(nil)
}

func corpus() {
	// the late IngressClass (oracle clause selected-ingress-not-configured before the IngressClass
	// handler asked for a full sync) and its relatives
	emitWorld("00", []string{"ic:-/r", "k:o"})
	emitWorld("00", []string{"k:f", "ic:-/r", "k:o"})
	emitWorld("01", []string{"ic:f/r", "k:o"})
	emitWorld("00", []string{"ic:-/r", "k:o", "iu:-/r"})
	emitWorld("00", []string{"k:o", "ic:-/r", "k:f", "k:o"})
	emitWorld("00", []string{"k:o", "ic:-/r", "k:n"})
	emitWorld("10", []string{"ic:-/-", "iu:-/r", "k:o", "id"})
	emitHist("00", []string{"c0:f/-", "u0:o/-:0", "c1:-/o", "u0:-/d:0", "u0:-/o:0", "d1"})
	// one listing, two ingresses with the same ingressClassName / both unclassified, one of them with the class
	// annotation present and EMPTY: same value as "absent", different verdict (seed C08f); both listing orders
	for _, o := range []string{"01", "10"} {
		emitList("00", []string{"-/o", "f1/o"}, o)
		emitList("10", []string{"-/-", "f1/-"}, o)
		emitList("11", []string{"-/f", "f1/f", "o/f"}, o+"2")
	}
	emitLSync("00", []string{"c0:-/o", "c1:f1/o", "F01", "F10"})
	emitLSync("10", []string{"c0:f1/-", "c1:-/-", "F01", "F10", "d0", "F10"})
}

func TestC08(t *testing.T) {
	out = bufio.NewWriterSize(os.Stdout, 1<<20)
	defer out.Flush()
	tier := os.Getenv("HV_TIER")
	seed, _ := strconv.ParseUint(os.Getenv("HV_SEED"), 10, 64)
	if replay := os.Getenv("HV_REPLAY"); replay != "" {
		data, err := os.ReadFile(replay)
		if err != nil {
			t.Fatal(err)
		}
		for _, line := range strings.Split(string(data), "\n") {
			if i := strings.Index(line, " => "); i >= 0 {
				line = line[:i]
			}
			f := strings.Fields(line)
			if len(f) < 4 || f[0] != "C08" {
				continue
			}
			switch {
			case f[1] == "valid" && len(f) == 5:
				emitValid(f[2], f[3], f[4])
			case f[1] == "ev" && len(f) == 5 && (f[3] == "c" || f[3] == "d"):
				ac := strings.Split(f[4], "/")
				emitEvC(f[2], f[3][0], ac[0], ac[1])
			case f[1] == "ev" && len(f) == 7 && f[3] == "u":
				ww := newWWorld(f[2], classObjs()...)
				o, n := strings.Split(f[4], "/"), strings.Split(f[5], "/")
				emitEvU(ww, f[2], o[0], o[1], n[0], n[1], f[6])
				ww.env.Close()
			case f[1] == "hist":
				emitHist(f[2], strings.Split(f[3], ","))
			case f[1] == "world":
				emitWorld(f[2], strings.Split(f[3], ","))
			case f[1] == "list" && len(f) == 5:
				emitList(f[2], strings.Split(f[3], ","), f[4])
			case f[1] == "lsync":
				emitLSync(f[2], strings.Split(f[3], ","))
			}
		}
		return
	}
	thorough := tier == "thorough"
	corpus()
	// exhaustive: every configuration x annotation x class (incl. the value variants)
	for _, cfg := range cfgTok {
		for _, a := range annTok {
			for _, c := range clsTok {
				emitValid(cfg, a, c)
				emitEvC(cfg, 'c', a, c)
				emitEvC(cfg, 'd', a, c)
			}
		}
	}
	// exhaustive: every ordered pair as an update, x what else changed
	for _, cfg := range cfgTok {
		ww := newWWorld(cfg, classObjs()...)
		for _, a1 := range annTok {
			for _, c1 := range clsTok {
				for _, a2 := range annTok {
					for _, c2 := range clsTok {
						for _, tc := range []string{"0", "a", "s", "m"} {
							emitEvU(ww, cfg, a1, c1, a2, c2, tc)
						}
					}
				}
			}
		}
		ww.env.Close()
	}
	// histories: exhaustive short ones on one ingress, then random on three
	r := gen.New(seed)
	n := 2
	if thorough {
		n = 3
	}
	alpha1 := histAlphabet(annMain, clsMain, 1, []string{"0", "s"})
	for _, cfg := range cfgTok {
		sequences(alpha1, n, func(ops []string) {
			if !strings.HasPrefix(ops[0], "c") {
				return // nothing exists yet: anything but a create is a no-op
			}
			emitHist(cfg, ops)
		})
	}
	alpha3 := histAlphabet(annTok, clsTok, 3, []string{"0", "a", "s", "m"})
	nh := 3000
	if thorough {
		nh = 40000
	}
	rh := r.Fork()
	for i := 0; i < nh; i++ {
		l := rh.Range(2, 14)
		ops := make([]string, l)
		for j := range ops {
			ops[j] = gen.Pick(rh, alpha3)
		}
		emitHist(gen.Pick(rh, cfgTok), ops)
	}
	// world: exhaustive short op sequences through the real converter, then random
	walpha := worldAlphabet()
	wn := 2
	if thorough {
		wn = 3
	}
	// corpus: the IngressClass goes away under a selected ingress that has no HTTP rule (seed C08e)
	for _, sh := range []string{"d", "t", "x"} {
		emitWorld("00:"+sh, []string{"k:o", "ic:-/r", "k:n"})
		emitWorld("00:"+sh, []string{"k:o", "ic:-/r", "k:f", "k:o", "k:n"})
	}
	for _, cfg := range cfgTok {
		sequences(walpha, wn, func(ops []string) { emitWorld(cfg, ops) })
		if thorough {
			for _, sh := range []string{"d", "t", "x"} {
				sequences(walpha, wn, func(ops []string) { emitWorld(cfg+":"+sh, ops) })
			}
		} else {
			for _, sh := range []string{"d", "t"} {
				sequences(walpha, 2, func(ops []string) { emitWorld(cfg+":"+sh, ops) })
			}
		}
	}
	nw := 400
	if thorough {
		nw = 6000
	}
	rw := r.Fork()
	for i := 0; i < nw; i++ {
		l := rw.Range(3, 10)
		ops := make([]string, l)
		for j := range ops {
			ops[j] = gen.Pick(rw, walpha)
		}
		emitWorld(gen.Pick(rw, cfgTok)+gen.Pick(rw, []string{"", "", ":d", ":t", ":x"}), ops)
	}
	// listings: clusters of 2..4 ingresses through the real GetIngressList in several listing orders, and
	// histories of events and full syncs through real watchers + real converters
	genLists(r.Fork(), thorough)
	genLSync(r.Fork(), thorough)
	for _, ww := range histWorlds {
		ww.env.Close()
	}
	keys := make([]string, 0, len(stats))
	for k := range stats {
		keys = append(keys, k)
	}
	sort.Strings(keys)
	for _, k := range keys {
		fmt.Fprintf(out, "#stat %s %d\n", k, stats[k])
	}
}
