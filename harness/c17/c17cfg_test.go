//go:build verif && go1.25

// cfg mode of C17: the signer as a LIVE object (Model/Props C17Cfg). In the controller the signer is created once
// and re-configured before every AcmeUpdate/AcmeCheck (instance.acmeEnsureConfig -> signer.AcmeAccount,
// signer.AcmeConfig); every other mode builds a signer with one fixed window. Here ONE real acme.signer
// (verif-only constructor NewSignerWithClient, then only the exported methods of acme.Signer) goes through a
// history of AcmeConfig / AcmeAccount / Notify calls inside one testing/synctest bubble; the outcome of every
// Notify (Sign called with which names, secret written, error, metric) is compared with the model, and the
// oracle judges every check with the window configured LAST before it (any integer: 0 and negative included).
//
// AcmeAccount with a non-empty account calls acme.NewClient, which needs a reachable ACME directory: the cache of
// this mode answers GetKey with an error, so client creation fails deterministically (`clientOk` = 0 in the
// line; the model has the other branch as well) and the signer is left without an account.
package c17

import (
	"crypto"
	"crypto/x509"
	"errors"
	"fmt"
	"strconv"
	"strings"
	"testing"
	"testing/synctest"
	"time"

	"github.com/jcmoraisjr/haproxy-ingress/pkg/acme"
	hatypes "github.com/jcmoraisjr/haproxy-ingress/pkg/haproxy/types"
	types_helper "github.com/jcmoraisjr/haproxy-ingress/pkg/types/helper_test"

	"hapverif/gen"
)

type cfgStep struct {
	kind     byte // 'w' AcmeConfig, 'a' AcmeAccount, 'k' Notify
	w        int64
	endpoint string
	emails   string
	terms    bool
	k        *vcase // the check: miss/notAfterSec/sans/nowNs/declared/crt/key/err/setErr (acct, windowNs unused)
}

type cfgCase struct {
	client bool
	window int64 // what the signer is created with (NewSigner: 0)
	steps  []cfgStep
}

func dashOr(s string) string {
	if s == "" {
		return "-"
	}
	return s
}

func (s *cfgStep) String() string {
	switch s.kind {
	case 'w':
		return fmt.Sprintf("w/%d", s.w)
	case 'a':
		return fmt.Sprintf("a/%s/%s/%s/0", dashOr(s.endpoint), dashOr(s.emails), b2s(s.terms))
	}
	c := s.k
	sec := "miss"
	if !c.miss {
		sec = fmt.Sprintf("crt:%d:%s", c.notAfterSec*int64(time.Second), joinOr(c.sans, ","))
	}
	return fmt.Sprintf("k/%s/%d/%s/%s%s%s/%s", sec, c.nowNs, joinOr(c.declared, ","), b2s(c.crt), b2s(c.key), b2s(c.err), b2s(c.setErr))
}

func (c *cfgCase) line() string {
	ss := make([]string, len(c.steps))
	for i := range c.steps {
		ss[i] = c.steps[i].String()
	}
	return fmt.Sprintf("cfg %s %d %s", b2s(c.client), c.window, joinOr(ss, ";"))
}

func parseCfg(f []string) *cfgCase {
	// cfg client window steps
	c := &cfgCase{client: f[1] == "1"}
	c.window, _ = strconv.ParseInt(f[2], 10, 64)
	for _, s := range splitOr(f[3], ";") {
		p := strings.Split(s, "/")
		switch {
		case p[0] == "w" && len(p) == 2:
			w, _ := strconv.ParseInt(p[1], 10, 64)
			c.steps = append(c.steps, cfgStep{kind: 'w', w: w})
		case p[0] == "a" && len(p) == 5:
			un := func(s string) string {
				if s == "-" {
					return ""
				}
				return s
			}
			c.steps = append(c.steps, cfgStep{kind: 'a', endpoint: un(p[1]), emails: un(p[2]), terms: p[3] == "1"})
		case p[0] == "k" && len(p) == 6:
			k := &vcase{}
			if p[1] == "miss" {
				k.miss = true
			} else {
				q := strings.SplitN(p[1], ":", 3)
				na, _ := strconv.ParseInt(q[1], 10, 64)
				k.notAfterSec = na / int64(time.Second)
				k.sans = splitOr(q[2], ",")
			}
			k.nowNs, _ = strconv.ParseInt(p[2], 10, 64)
			k.declared = sortedSet(splitOr(p[3], ","))
			k.crt, k.key, k.err = p[4][0] == '1', p[4][1] == '1', p[4][2] == '1'
			k.setErr = p[5] == "1"
			c.steps = append(c.steps, cfgStep{kind: 'k', k: k})
		}
	}
	return c
}

// the cache of a signer that cannot reach an ACME directory: creating a client fails at once
type cfgCache struct{ *stubCache }

func (c *cfgCache) GetKey() (crypto.Signer, error) {
	return nil, errors.New("verif: no acme directory in the harness")
}

func runCfg(t *testing.T, c *cfgCase) {
	const secret = "d/s1"
	// certificates and queue items are prepared outside the bubble
	certs := make([]*x509.Certificate, len(c.steps))
	items := make([]string, len(c.steps))
	res := ""
	for i := range c.steps {
		if k := c.steps[i].k; k != nil {
			if !k.miss {
				certs[i] = mkCert(t, k.notAfterSec, k.sans)
			}
			st := (&hatypes.AcmeData{}).Storages()
			st.Acquire(secret).AddDomains(k.declared)
			its := st.BuildAcmeStorages()
			if len(its) != 1 {
				res = "PANIC no-item"
			} else {
				items[i] = its[0]
			}
		}
	}
	if res == "" {
		synctest.Test(t, func(t *testing.T) {
			defer func() {
				if r := recover(); r != nil {
					res = fmt.Sprintf("PANIC %v", r)
				}
			}()
			if !time.Now().Equal(epoch) {
				t.Fatalf("bubble does not start at the epoch: %v", time.Now())
			}
			cur := &vcase{}
			client := &stubClient{c: cur, crt: []byte("crt-pem"), key: []byte("key-pem")}
			cache := &stubCache{c: cur, secret: secret, client: client}
			metrics := &recMetrics{MetricsMock: types_helper.NewMetricsMock()}
			logger := &types_helper.LoggerMock{T: t}
			var cl acme.Client
			if c.client {
				cl = client
			}
			signer := acme.NewSignerWithClient(logger, &cfgCache{cache}, metrics, cl, time.Duration(c.window))
			var outs []string
			for i := range c.steps {
				s := &c.steps[i]
				switch s.kind {
				case 'w':
					signer.AcmeConfig(time.Duration(s.w))
				case 'a':
					signer.AcmeAccount(s.endpoint, s.emails, s.terms)
				case 'k':
					d := s.k.nowNs - int64(time.Since(epoch))
					if d < 0 {
						res = "PANIC time-goes-backwards"
						return
					}
					time.Sleep(time.Duration(d))
					client.c, cache.c, cache.cert = s.k, s.k, certs[i]
					client.calls, cache.gets, cache.sets, metrics.rec = nil, 0, 0, nil
					err := signer.Notify(items[i])
					sign := "-"
					if len(client.calls) == 1 {
						ds := make([]string, len(client.calls[0]))
						for j, d := range client.calls[0] {
							ds[j] = showDom(d)
						}
						sign = strings.Join(ds, ",")
					}
					metric := "-:0"
					if len(metrics.rec) == 1 {
						metric = metrics.rec[0]
					}
					o := fmt.Sprintf("got=%s sign=%s write=%s err=%s metric=%s", b2s(cache.gets == 1), sign,
						b2s(cache.sets == 1), b2s(err != nil), metric)
					if cache.badSet || cache.gets > 1 || cache.sets > 1 || len(client.calls) > 1 || len(metrics.rec) > 1 {
						res = "PANIC inconsistent-calls " + o
						return
					}
					outs = append(outs, o)
				}
			}
			res = joinOr(outs, ";")
		})
	}
	fmt.Fprintf(out, "C17 %s => %s\n", c.line(), res)
	// statistics
	stat("cfg_histories", 1)
	win, prev, hasPrev := c.window, int64(0), false
	for i := range c.steps {
		s := &c.steps[i]
		switch s.kind {
		case 'w':
			prev, hasPrev, win = win, true, s.w
			switch {
			case s.w == 0:
				stat("cfg_window_zero_configured", 1)
			case s.w < 0:
				stat("cfg_window_negative_configured", 1)
			default:
				stat("cfg_window_positive_configured", 1)
			}
		case 'a':
			stat("cfg_account_steps", 1)
		case 'k':
			stat("cfg_checks", 1)
			if hasPrev {
				stat("cfg_checks_after_reconfiguration", 1)
			}
			if win <= 0 {
				stat("cfg_checks_with_nonpositive_window", 1)
			}
			if !s.k.miss && hasPrev && prev != win {
				na := s.k.notAfterSec * int64(time.Second)
				if (na < s.k.nowNs+win) != (na < s.k.nowNs+prev) {
					// the previous window would decide otherwise
					stat("cfg_checks_previous_window_decides_otherwise", 1)
				}
			}
			if !s.k.miss {
				switch d := s.k.notAfterSec*int64(time.Second) - (s.k.nowNs + win); {
				case d == 0:
					stat("cfg_checks_boundary_equal", 1)
				case d == -int64(time.Second) || d == int64(time.Second):
					stat("cfg_checks_boundary_1s", 1)
				}
			}
		}
	}
}

var cfgWindows = []int64{30 * day, 0, -int64(time.Second), int64(time.Second), 365 * day}

func genCfg(t *testing.T, tier string, r *gen.Rng) {
	hour := int64(time.Hour)
	sec := int64(time.Second)
	// a check at virtual time `now` on a covering certificate whose NotAfter is now + probe + off seconds
	probeCheck := func(now, probe, offSec int64) cfgStep {
		return cfgStep{kind: 'k', k: &vcase{notAfterSec: (now+probe)/sec + offSec, sans: []string{"a.x"}, nowNs: now,
			declared: []string{"a.x"}, crt: true, key: true}}
	}
	// exhaustive: sequences of 1..3 configurations over cfgWindows (created with window 0, as NewSigner does, and
	// with 30 days); after every configuration three checks at the boundary (-1s, 0, +1s) of a probe window, for
	// every probe window that occurs in the sequence or at creation
	var seqs [][]int64
	for _, a := range cfgWindows {
		seqs = append(seqs, []int64{a})
		for _, b := range cfgWindows {
			seqs = append(seqs, []int64{a, b})
			for _, c := range cfgWindows {
				seqs = append(seqs, []int64{a, b, c})
			}
		}
	}
	for _, init := range []int64{0, 30 * day} {
		for _, seq := range seqs {
			if init != 0 && tier != "thorough" && len(seq) == 3 {
				continue
			}
			probes := []int64{init}
			for _, w := range seq {
				seen := false
				for _, p := range probes {
					seen = seen || p == w
				}
				if !seen {
					probes = append(probes, w)
				}
			}
			for _, probe := range probes {
				c := &cfgCase{client: true, window: init}
				now := hour
				for _, w := range seq {
					c.steps = append(c.steps, cfgStep{kind: 'w', w: w})
					for _, off := range []int64{-1, 0, 1} {
						c.steps = append(c.steps, probeCheck(now, probe, off))
						now += sec
					}
				}
				runCfg(t, c)
			}
		}
	}
	stat("cfg_exhaustive_1to3_configurations_x_boundary_probes", 1)
	// exhaustive: one account change (no-op / forgotten / creation fails) before, between and after two configurations
	accts := []cfgStep{{kind: 'a'}, {kind: 'a', endpoint: "v2", emails: "m@x", terms: true}, {kind: 'a', endpoint: "e1"},
		{kind: 'a', emails: "m@x"}, {kind: 'a', terms: true}, {kind: 'a', endpoint: "v02-staging", emails: "m@x,n@x", terms: true}}
	for _, w1 := range []int64{30 * day, 0} {
		for _, w2 := range []int64{30 * day, 0, -sec} {
			for _, a := range accts {
				for pos := 0; pos < 3; pos++ {
					for _, cl := range []bool{true, false} {
						c := &cfgCase{client: cl}
						now := hour
						add := func(s cfgStep) {
							c.steps = append(c.steps, s)
							if s.kind != 'k' {
								c.steps = append(c.steps, probeCheck(now, 10*day, 0))
								now += sec
							}
						}
						ws := []cfgStep{{kind: 'w', w: w1}, {kind: 'w', w: w2}}
						for i := 0; i < 3; i++ {
							if i == pos {
								add(a)
								add(cfgStep{kind: 'a'}) // the empty account again: nothing to forget
							}
							if i < 2 {
								add(ws[i])
							}
						}
						runCfg(t, c)
					}
				}
			}
		}
	}
	stat("cfg_exhaustive_account_change_x_position", 1)
	// random histories
	n := 1500
	if tier == "thorough" {
		n = 40000
	}
	pool := []string{"a.x", "b.x", "*.x", "c.a.x"}
	wins := append([]int64{day, 7 * day, 90 * day, -30 * day, 1, -1}, cfgWindows...)
	for i := 0; i < n; i++ {
		c := &cfgCase{client: !r.Chance(1, 10), window: gen.Pick(r, []int64{0, 0, 30 * day, -day, 7 * day})}
		now := gen.Pick(r, []int64{0, 1, hour, 3 * day})
		seen := []int64{c.window}
		cur := c.window
		for m := r.Range(2, 9); m > 0; m-- {
			switch x := r.Intn(10); {
			case x < 3:
				cur = gen.Pick(r, wins)
				seen = append(seen, cur)
				c.steps = append(c.steps, cfgStep{kind: 'w', w: cur})
			case x < 4:
				c.steps = append(c.steps, gen.Pick(r, accts))
			default:
				now += gen.Pick(r, []int64{0, 1, sec, hour})
				k := &vcase{miss: r.Chance(1, 12), nowNs: now, crt: !r.Chance(1, 6), key: !r.Chance(1, 6),
					err: r.Chance(1, 5), setErr: r.Chance(1, 6)}
				// around the current window, a window of the past, or far away
				ref := cur
				if r.Chance(1, 2) {
					ref = gen.Pick(r, seen)
				}
				dueSec := (now + ref) / sec
				switch r.Intn(4) {
				case 0, 1:
					k.notAfterSec = dueSec + int64(r.Range(-2, 2))
				case 2:
					k.notAfterSec = dueSec + int64(r.Range(-40, 40))*86400
				default:
					k.notAfterSec = now/sec + int64(r.Range(-5, 400))*86400
				}
				for j := r.Range(1, 3); j > 0; j-- {
					k.sans = append(k.sans, gen.Pick(r, pool))
				}
				k.sans = sortedSet(k.sans)
				if r.Chance(3, 4) {
					k.declared = []string{gen.Pick(r, k.sans)}
					if k.declared[0] == "*.x" && r.Bool() {
						k.declared = []string{"zz.x"}
					}
				} else {
					k.declared = sortedSet([]string{gen.Pick(r, pool), gen.Pick(r, pool)})
				}
				c.steps = append(c.steps, cfgStep{kind: 'k', k: k})
			}
		}
		runCfg(t, c)
	}
}
