//go:build verif

package c17

import (
	"context"
	"fmt"
	"sort"
	"testing"
	"time"

	networking "k8s.io/api/networking/v1"
	metav1 "k8s.io/apimachinery/pkg/apis/meta/v1"

	"github.com/jcmoraisjr/haproxy-ingress/pkg/converters"
	conv_helper "github.com/jcmoraisjr/haproxy-ingress/pkg/converters/helper_test"
	"github.com/jcmoraisjr/haproxy-ingress/pkg/converters/tracker"
	convtypes "github.com/jcmoraisjr/haproxy-ingress/pkg/converters/types"
	"github.com/jcmoraisjr/haproxy-ingress/pkg/haproxy"
	types_helper "github.com/jcmoraisjr/haproxy-ingress/pkg/types/helper_test"
	"github.com/jcmoraisjr/haproxy-ingress/pkg/utils"
	"crypto/x509"
)

type recQ struct{ ops []string }

func (q *recQ) Add(item interface{})                              { q.ops = append(q.ops, "A:"+item.(string)) }
func (q *recQ) AddAfter(item interface{}, d time.Duration)        { q.ops = append(q.ops, "AA:"+item.(string)) }
func (q *recQ) Remove(item interface{})                           { q.ops = append(q.ops, "R:"+item.(string)) }
func (q *recQ) Start(context.Context) error                       { return nil }

type sgn struct{ has bool }

func (s *sgn) AcmeAccount(endpoint, emails string, termsAgreed bool) {}
func (s *sgn) AcmeConfig(expiring time.Duration)                    {}
func (s *sgn) HasAccount() bool                                     { return s.has }
func (s *sgn) Notify(item interface{}) error                        { return nil }

type le struct{ leader bool }

func (l *le) IsLeader() bool             { return l.leader }
func (l *le) LeaderName() string         { return "other" }
func (l *le) Run(stopCh <-chan struct{}) {}

func mkIng(name, host, secret string, tlsHosts []string) *networking.Ingress {
	pt := networking.PathTypePrefix
	return &networking.Ingress{
		ObjectMeta: metav1.ObjectMeta{Namespace: "d", Name: name, Annotations: map[string]string{"ingress.kubernetes.io/cert-signer": "acme"}},
		Spec: networking.IngressSpec{
			TLS: []networking.IngressTLS{{Hosts: tlsHosts, SecretName: secret}},
			Rules: []networking.IngressRule{{Host: host, IngressRuleValue: networking.IngressRuleValue{HTTP: &networking.HTTPIngressRuleValue{
				Paths: []networking.HTTPIngressPath{{Path: "/", PathType: &pt, Backend: networking.IngressBackend{Service: &networking.IngressServiceBackend{Name: "svc-" + name, Port: networking.ServiceBackendPort{Number: 8080}}}}},
			}}}},
		},
	}
}

func TestScratch(t *testing.T) {
	logger := &types_helper.LoggerMock{T: t}
	q := &recQ{}
	l := &le{leader: true}
	inst := haproxy.CreateInstance(logger, haproxy.InstanceOptions{AcmeQueue: q, AcmeSigner: &sgn{has: true}, LeaderElector: l})
	tr := tracker.NewTracker()
	cache := conv_helper.NewCacheMock(tr)
	for _, n := range []string{"i1", "i2", "i3"} {
		svc, ep, _ := conv_helper.CreateService("d/svc-"+n, "8080", "10.0.0.1")
		cache.SvcList = append(cache.SvcList, svc)
		cache.EpList["d/svc-"+n] = ep
	}
	cache.SecretTLSPath["d/s1"] = "/tls/s1.pem"
	opts := &convtypes.ConverterOptions{
		Cache: cache, Logger: logger, Tracker: tr, DynamicConfig: &convtypes.DynamicConfig{},
		DefaultConfig:    func() map[string]string { return map[string]string{} },
		AnnotationPrefix: []string{"ingress.kubernetes.io"},
		FakeCrtFile:      convtypes.CrtFile{Filename: "/fake.pem", SHA1Hash: "1", Certificate: &x509.Certificate{}},
	}
	cycle := func(ch *convtypes.ChangedObjects) {
		q.ops = nil
		converters.NewConverter(utils.NewTimer(nil), inst.Config(), ch, opts).Sync()
		inst.AcmeUpdate()
		inst.Config().Commit()
		sort.Strings(q.ops)
		fmt.Println("ops:", q.ops, "storages:", inst.Config().AcmeData().Storages().BuildAcmeStorages())
		logger.Logging = nil
	}
	i1 := mkIng("i1", "h1.local", "s1", []string{"h1.local"})
	cache.IngList = []*networking.Ingress{i1}
	cycle(&convtypes.ChangedObjects{GlobalConfigMapDataNew: map[string]string{}, NeedFullSync: true})
	// add i2 sharing the secret
	i2 := mkIng("i2", "h2.local", "s1", []string{"h2.local"})
	cache.IngList = []*networking.Ingress{i1, i2}
	cycle(&convtypes.ChangedObjects{GlobalConfigMapDataCur: map[string]string{}, IngressesAdd: []*networking.Ingress{i2},
		Links: convtypes.TrackingLinks{convtypes.ResourceIngress: []string{"d/i2"}}, Objects: []string{"add/ingress:d/i2"}})
	// full sync with i1 removed and i3 on another secret
	i3 := mkIng("i3", "h3.local", "s3", []string{"h3.local"})
	cache.IngList = []*networking.Ingress{i3}
	cycle(&convtypes.ChangedObjects{GlobalConfigMapDataCur: map[string]string{}, NeedFullSync: true})
}
